#!/bin/bash
# build.sh <engine|all> : (re)build engine test binaries from /repo's working tree with -tags verif.
# REPO=<path> overrides the repository (sensitivity runs against scratch worktrees only).
set -e
cd "$(dirname "$0")/sim"
export GOFLAGS=-mod=mod GOPROXY=off GOSUMDB=off GOTOOLCHAIN=local
GO=/root/go/pkg/mod/golang.org/toolchain@v0.0.1-go1.25.10.linux-amd64/bin/go
[ -x "$GO" ] || GO=$(command -v go1.26.8 || echo /opt/veriftools/go1.26.8/bin/go)
REPO=${REPO:-/repo}
BIN=${BIN:-/verif/bin}
mkdir -p "$BIN"
MODFLAG=""
if [ "$REPO" != "/repo" ]; then
  TMPMOD=$(mktemp -d /dev/shm/verif-mod.XXXXXX)
  sed "s#=> /repo#=> $REPO#" go.mod > "$TMPMOD/go.mod"; cp go.sum "$TMPMOD/go.sum"
  MODFLAG="-modfile=$TMPMOD/go.mod"
fi
engines="$1"
[ "$engines" = "all" ] && engines=$(cat ../engines.enabled)
for e in $engines; do
  [ -d "engines/$e" ] || { echo "unknown engine $e" >&2; exit 2; }
  $GO test -c $MODFLAG -tags verif -o "$BIN/$e.test" "./engines/$e"
done
[ -n "$TMPMOD" ] && rm -rf "$TMPMOD"
exit 0
