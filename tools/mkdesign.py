#!/usr/bin/env python3
"""Regenerates the generated tables of DESIGN.md §10 (between the BEGIN/END GENERATED markers) from the files that
are the source of truth: engines.enabled, sim/engines/*/checks.json, known_findings.json (top level and per engine),
evidence/*.json, seeded/*/*/meta.json."""
import glob, json, os, subprocess

ROOT = os.path.dirname(os.path.dirname(os.path.abspath(__file__)))


def load(p):
    with open(p) as f:
        return json.load(f)


def main():
    enabled = open(os.path.join(ROOT, "engines.enabled")).read().split()
    props = {}
    for l in open(os.path.join(ROOT, "properties.jsonl")):
        d = json.loads(l)
        props[d["id"]] = d
    checks = {}
    for e in enabled:
        p = os.path.join(ROOT, "sim", "engines", e, "checks.json")
        if os.path.exists(p):
            for k, v in load(p).items():
                v = dict(v)
                v["engine"] = v.get("engine", e)
                checks[k] = v
    out = []
    out.append("### 10.1 Status per claimed property (generated)\n")
    out.append("| id | engine | quick runs | non-trivial | evaluations | faults fired (quick tier) | findings met |")
    out.append("|---|---|---|---|---|---|---|")
    for pid in sorted(checks):
        ev = os.path.join(ROOT, "evidence", pid + ".json")
        runs = nt = evs = faults = kf = "-"
        if os.path.exists(ev):
            c = load(ev)["coverage"]
            runs, nt, evs = c.get("runs"), c.get("nontrivial_runs"), c.get("evaluations")
            ff = c.get("faults_fired") or {}
            faults = ", ".join("%s %d" % (k, v) for k, v in sorted(ff.items())) or "none (no fault in this property's statement)"
            kf = str(len(c.get("known_findings_seen") or []))
        out.append("| %s | %s | %s | %s | %s | %s | %s |" % (pid, checks[pid]["engine"], runs, nt, evs, faults, kf))
    out.append("")

    known = {"findings": [], "fixed": []}
    for p in [os.path.join(ROOT, "known_findings.json")] + sorted(glob.glob(os.path.join(ROOT, "sim", "engines", "*", "known_findings.json"))):
        d = load(p)
        known["findings"] += d.get("findings", [])
        known["fixed"] += d.get("fixed", [])
    out.append("### 10.2 Genuine defects repaired in /repo (generated from known_findings.json `fixed`)\n")
    for x in known["fixed"]:
        out.append("* " + x[len("fixed: "):] if x.startswith("fixed: ") else "* " + x)
    out.append("")
    out.append("### 10.3 Genuine defects listed, not repaired (generated; %d open)\n" % len([f for f in known["findings"] if f.get("status") == "open"]))
    out.append("| tag | properties | engine | where | why not repaired |")
    out.append("|---|---|---|---|---|")
    for f in known["findings"]:
        if f.get("status") != "open":
            continue
        out.append("| `%s` | %s | %s | %s | %s |" % (f["tag"], " ".join(f.get("properties", [])), " ".join(f.get("engines", [])),
                                                 (f.get("where") or "").replace("|", "/"), (f.get("why_not_fixed") or "").replace("|", "/")))
    out.append("")
    out.append("Titles (what fails) per tag:\n")
    for f in known["findings"]:
        if f.get("status") == "open":
            out.append("* `%s`: %s" % (f["tag"], f["title"]))
    out.append("")

    out.append("### 10.4 Seeded property-breaking changes and which checks catch them (generated from seeded/*/*/meta.json)\n")
    out.append("| property | change | confirmed (demo fails with / passes without, package tests pass) | caught by quick check | seconds | first violation / why missed |")
    out.append("|---|---|---|---|---|---|")
    tot = caught = 0
    for p in sorted(glob.glob(os.path.join(ROOT, "seeded", "*", "meta.json"))):
        m = load(p)
        r = m.get("verif_result") or {}
        tot += 1
        c = r.get("caught")
        caught += 1 if c else 0
        out.append("| %s | `%s`: %s | %s | %s | %s | %s |" % (m.get("property"), os.path.basename(os.path.dirname(p)), (m.get("title") or "").replace("|", "/"),
                                                       r.get("confirmed", "?"), "yes" if c else "NO", r.get("check_seconds", "-"),
                                                       (r.get("note") or "").replace("|", "/").replace("\n", " ")[:300]))
    out.append("")
    out.append("%d of %d seeded changes are caught by the quick tier of the check of their own property.\n" % (caught, tot))

    tp = os.path.join(ROOT, "thorough_summary.txt")
    if os.path.exists(tp):
        out.append("### 10.4b Thorough tier on the unchanged tree (wall-capped per property; from thorough_summary.txt)\n")
        out.append("| pass | property | exit | runs | evaluations | distinct | wall s | unlisted violations |")
        out.append("|---|---|---|---|---|---|---|---|")
        import re
        npass = 1
        for l in open(tp):
            if l.startswith("# pass"):
                npass += 1
                continue
            m = re.match(r"(C\d+) rc=(\d+) seconds=(\d+) check \S+ thorough: runs=(\d+) evaluations=(\d+) nontrivial_runs=(\d+) distinct=(\d+) wall=([\d.]+)s.*? (\d+) violations", l)
            if m:
                out.append("| %d | %s | %s | %s | %s | %s | %s | %s |" % (npass, m.group(1), m.group(2), m.group(4), m.group(5), m.group(7), m.group(8), m.group(9)))
        out.append("")
    gen = "\n".join(out)
    p = os.path.join(ROOT, "DESIGN.md")
    s = open(p).read()
    b, e = "<!-- BEGIN GENERATED -->", "<!-- END GENERATED -->"
    if b in s and e in s:
        s = s[:s.index(b) + len(b)] + "\n" + gen + "\n" + s[s.index(e):]
        open(p, "w").write(s)
        print("DESIGN.md tables regenerated: %d checks, %d fixed, %d findings, %d seeded" % (len(checks), len(known["fixed"]), len(known["findings"]), tot))
    else:
        print("markers not found")


if __name__ == "__main__":
    main()
