#!/usr/bin/env python3
"""ins.py FILE  <<< spec : add-only insertion helper.
spec blocks separated by lines '=====' ; each block:
  first line: 'after N' or 'before N' (N = which occurrence, 1-based) 
  then anchor lines until a line '-----', then text to insert.
Anchor must match consecutive full lines (exact, incl. whitespace)."""
import sys
fn=sys.argv[1]
src=open(fn).read().split('\n')
spec=sys.stdin.read().split('\n=====\n')
for blk in spec:
    blk=blk.strip('\n')
    if not blk: continue
    head,rest=blk.split('\n',1)
    mode,occ=head.split(); occ=int(occ)
    anchor,text=rest.split('\n-----\n',1)
    a=anchor.split('\n'); t=text.split('\n')
    hits=[i for i in range(len(src)-len(a)+1) if src[i:i+len(a)]==a]
    if len(hits)<occ:
        sys.exit(f"{fn}: anchor not found (occ {occ}, hits {len(hits)}): {a[0]!r}")
    i=hits[occ-1]
    pos=i+len(a) if mode=='after' else i
    src[pos:pos]=t
open(fn,'w').write('\n'.join(src))
