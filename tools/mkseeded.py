#!/usr/bin/env python3
"""Copies confirmed seeded changes from the sub-agents' delivery area into /verif/seeded/<PROP>-<slug>/ and records
the outcome of tools/seedrun.sh (confirmation and the registered quick check against the changed tree) in meta.json."""
import glob, json, os, shutil, sys

SRC = sys.argv[1] if len(sys.argv) > 1 else "/dev/shm/mut"
ROOT = os.path.dirname(os.path.dirname(os.path.abspath(__file__)))
notes = {}
np = os.path.join(ROOT, "seeded", "notes.json")
if os.path.exists(np):
    notes = json.load(open(np))
n = 0
for d in sorted(glob.glob(os.path.join(SRC, "C[0-9][0-9]", "*"))):
    prop, slug = os.path.basename(os.path.dirname(d)), os.path.basename(d)
    rp = os.path.join(SRC, "results", "%s__%s.json" % (prop, slug))
    if not os.path.exists(rp):
        continue
    try:
        r = json.load(open(rp))
    except Exception:
        txt = open(rp).read()
        r = {"property": prop, "slug": slug, "applies": True}
        for k in ("demo_clean_rc", "demo_patched_rc", "check_rc", "violations", "check_seconds"):
            import re
            m = re.search('"%s":(-?\\d+)' % k, txt)
            if m:
                r[k] = int(m.group(1))
        r["existing_tests_ok"] = '"existing_tests_ok":true' in txt
        r["first_violation"] = ""
    dst = os.path.join(ROOT, "seeded", "%s-%s" % (prop, slug))
    os.makedirs(dst, exist_ok=True)
    for f in os.listdir(d):
        if os.path.isfile(os.path.join(d, f)):
            shutil.copy(os.path.join(d, f), os.path.join(dst, f))
    meta = json.load(open(os.path.join(d, "meta.json")))
    key = "%s-%s" % (prop, slug)
    ov = notes.get(key, {})
    tests_ok = ov.get("existing_tests_ok", r.get("existing_tests_ok"))
    confirmed = bool(r.get("applies")) and r.get("demo_clean_rc") == 0 and r.get("demo_patched_rc") not in (0, None) and bool(tests_ok)
    caught = r.get("check_rc") == 1 and (r.get("violations") or 0) > 0
    if "caught" in ov:
        caught = ov["caught"]
    note = ov.get("note") or (r.get("first_violation") or "")
    meta["verif_result"] = {"confirmed": confirmed, "demo_clean_rc": r.get("demo_clean_rc"), "demo_patched_rc": r.get("demo_patched_rc"),
                            "existing_package_tests_pass_with_change": bool(tests_ok), "caught": caught, "check": "check %s quick" % prop,
                            "check_exit": r.get("check_rc"), "check_seconds": ov.get("check_seconds", r.get("check_seconds")), "note": note}
    rj = os.path.join(SRC, "results", "%s__%s.replay.json" % (prop, slug))
    if os.path.exists(rj):
        shutil.copy(rj, os.path.join(dst, "replay.json"))
    json.dump(meta, open(os.path.join(dst, "meta.json"), "w"), indent=1)
    n += 1
print("seeded:", n)
