#!/usr/bin/env python3
"""Regenerates MANIFEST.json from checks.json (claimed checks) + na.json (not-applicable reasons) + properties.jsonl."""
import json, os, subprocess
R = os.path.dirname(os.path.dirname(os.path.abspath(__file__)))
props = [json.loads(l) for l in open(os.path.join(R, "properties.jsonl"))]
import glob
checks = {}
enabled = set(open(os.path.join(R, "engines.enabled")).read().split())
for p in sorted(glob.glob(os.path.join(R, "sim", "engines", "*", "checks.json"))):
    if os.path.basename(os.path.dirname(p)) not in enabled:
        continue  # engine not integrated yet (its hooks are not in /repo)
    for k, v in json.load(open(p)).items():
        v.setdefault("engine", os.path.basename(os.path.dirname(p)))
        checks[k] = v
na = json.load(open(os.path.join(R, "na.json")))
hooks = subprocess.run(["git", "-C", "/repo", "log", "--format=%H %s", "--grep", "^verif:"], stdout=subprocess.PIPE, text=True).stdout.strip().splitlines()
engines = {}
out_checks, out_na = [], []
for p in props:
    i = p["id"]
    if i in checks:
        c = checks[i]
        engines.setdefault(c["engine"], []).append(i)
        out_checks.append({
            "property_id": i,
            "quick_cmd": "./check %s quick" % i,
            "thorough_cmd": "./check %s thorough" % i,
            "evidence_file": "evidence/%s.json" % i,
            "replay_cmd_template": "./check %s --replay {path}" % i,
            "engine": c["engine"],
            "level_claimed": {"category": c["level"], "text": c["level_text"], "design_ref": c.get("design_ref", "DESIGN.md section 4, " + i)},
            "level_note": c["level_note"],
            "technique": c.get("technique", "deterministic simulation with fault injection: seeded search over generated histories / schedules / faults against a reference model"),
        })
    else:
        out_na.append({"property_id": i, "reason": na.get(i, "check not built yet; not claimed until it is quiet on the unchanged tree and detects deliberate breakage")})
kinds = {
    "tsdbsim": "E1: whole tsdb.DB on tmpfs inside a synctest bubble; generated multi-step histories (appenders, deletions, all compaction kinds, restarts) against a reference model; process-kill crash images at every tagged IO boundary (torn at page boundaries, partial RemoveAll), dirty restarts, byte damage to logs / head chunk files / blocks, injected compaction write failures; monitors on tagged reload / compaction events",
    "tsdbsched": "E2: tsdb.DB in a bubble under the seeded scheduler: appender, reader, m-map and compaction tasks parked at tagged scheduling points inside Commit and the compaction protocol; one task runs at a time; readers judged against the set of transactions committed when they were created",
    "walsim": "E3a: wlog.WL writer / Reader / LiveReader with seeded record sizes, rotation, torn tails, repair; history vs reference log",
    "cdmsim": "E3b: ChunkDiskMapper and its write queue under the seeded scheduler (mirrored locks), truncation, crash images; porcupine linearizability of chunk reads",
    "rwsim": "E4: remote.QueueManager + wlog.Watcher against a simulated receiver (net.Pipe transport, delays, 5xx / 429 / timeouts, resharding, config reloads); per-series order and delivery",
    "scrapesim": "E6: scrape.Manager against simulated targets (net.Pipe), fake clock, exposition in all formats, target churn and reloads; stored samples and staleness markers vs model",
    "rulesim": "E7: rules.Manager with fake clock, injected query / append failures, reloads and restarts; alert state machine and recording-rule staleness vs model",
    "notifysim": "E5a: notifier.Manager with simulated Alertmanagers (failures, slowness, drain on shutdown) under the seeded scheduler",
    "sdsim": "E5b: discovery.Manager with scripted discoverers under the seeded scheduler; convergence to the latest target groups",
    "agentsim": "E8: agent-mode DB: WAL, truncation, checkpoints, restarts, crash images; every accepted sample logged and replay consistent",
    "querysim": "E9a: promql.Engine over a fake storage seam with injected storage errors, concurrent evaluation of generated queries vs serial results",
    "fanoutsim": "E9b: storage.Fanout over fake primary / secondary storages with failure injection at every seam call",
}
m = {
    "version": 1,
    "setup_cmd": "./setup.sh",
    "hooks": {
        "guard": "verif (Go build tag)",
        "enable": "go test -c -tags verif of /verif/sim/engines/<engine> (module verif/sim, replace github.com/prometheus/prometheus => /repo)",
        "baseline_off_cmd": "cd /repo && for m in . ./compliance; do (cd $m && go test -vet=off -count=1 -timeout 25m ./...); done",
        "source_commits": [h.split()[0] for h in hooks],
        "add_only": True,
    },
    "engines": [{"name": e, "path": "sim/engines/" + e, "serves_properties": sorted(ps), "kind_free_text": kinds.get(e, "")} for e, ps in sorted(engines.items())],
    "checks": out_checks,
    "notes": "Deterministic simulation with fault injection; see DESIGN.md. Known findings: known_findings.json (replay plans under known/).",
    "not_applicable": out_na,
}
json.dump(m, open(os.path.join(R, "MANIFEST.json"), "w"), indent=1)
print("claimed", len(out_checks), "not claimed", len(out_na))
