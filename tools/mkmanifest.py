#!/usr/bin/env python3
"""Regenerates MANIFEST.json from checks.json (claimed checks) + na.json (not-applicable reasons) + properties.jsonl."""
import json, os, subprocess
R = os.path.dirname(os.path.dirname(os.path.abspath(__file__)))
props = [json.loads(l) for l in open(os.path.join(R, "properties.jsonl"))]
import glob
checks = {}
enabled = set(open(os.path.join(R, "engines.enabled")).read().split())
for p in sorted(glob.glob(os.path.join(R, "sim", "engines", "*", "checks.json"))):
    if os.path.basename(os.path.dirname(p)) not in enabled:
        continue  # engine not integrated yet (its hooks are not in /repo)
    for k, v in json.load(open(p)).items():
        v.setdefault("engine", os.path.basename(os.path.dirname(p)))
        checks[k] = v
na = json.load(open(os.path.join(R, "na.json")))
hooks = subprocess.run(["git", "-C", "/repo", "log", "--format=%H %s", "--grep", "^verif:"], stdout=subprocess.PIPE, text=True).stdout.strip().splitlines()
engines = {}
out_checks, out_na = [], []
for p in props:
    i = p["id"]
    if i in checks:
        c = checks[i]
        engines.setdefault(c["engine"], []).append(i)
        out_checks.append({
            "property_id": i,
            "quick_cmd": "./check %s quick" % i,
            "thorough_cmd": "./check %s thorough" % i,
            "evidence_file": "evidence/%s.json" % i,
            "replay_cmd_template": "./check %s --replay {path}" % i,
            "engine": c["engine"],
            "level_claimed": {"category": c["level"], "text": c["level_text"], "design_ref": c.get("design_ref", "DESIGN.md section 4, " + i)},
            "level_note": c["level_note"],
            "technique": c.get("technique", "deterministic simulation with fault injection: seeded search over generated histories / schedules / faults against a reference model"),
        })
    else:
        out_na.append({"property_id": i, "reason": na.get(i, "check not built yet; not claimed until it is quiet on the unchanged tree and detects deliberate breakage")})
kinds = {
    "tsdbsim": "E1: whole tsdb.DB on tmpfs inside a synctest bubble, sequential workload vs reference model, crash images at IO hooks",
}
m = {
    "version": 1,
    "setup_cmd": "./setup.sh",
    "hooks": {
        "guard": "verif (Go build tag)",
        "enable": "go test -c -tags verif of /verif/sim/engines/<engine> (module verif/sim, replace github.com/prometheus/prometheus => /repo)",
        "baseline_off_cmd": "cd /repo && for m in . ./compliance; do (cd $m && go test -vet=off -count=1 -timeout 25m ./...); done",
        "source_commits": [h.split()[0] for h in hooks],
        "add_only": True,
    },
    "engines": [{"name": e, "path": "sim/engines/" + e, "serves_properties": sorted(ps), "kind_free_text": kinds.get(e, "")} for e, ps in sorted(engines.items())],
    "checks": out_checks,
    "notes": "Deterministic simulation with fault injection; see DESIGN.md. Known findings: known_findings.json (replay plans under known/).",
    "not_applicable": out_na,
}
json.dump(m, open(os.path.join(R, "MANIFEST.json"), "w"), indent=1)
print("claimed", len(out_checks), "not claimed", len(out_na))
