#!/bin/bash
# seedrun.sh <mutant-dir> <slot> : confirm one seeded defect (demo fails with / passes without the patch, existing
# package tests pass with it) and run the registered quick check of its property against the patched scratch tree.
# Works on a scratch worktree of /repo under /dev/shm; never touches /repo's working tree.
D=$1; SLOT=${2:-0}
PROP=$(basename $(dirname $D)); SLUG=$(basename $D)
export GOPROXY=off GOSUMDB=off GOTOOLCHAIN=local PATH=/root/go/pkg/mod/golang.org/toolchain@v0.0.1-go1.25.10.linux-amd64/bin:$PATH
unset GOFLAGS
WT=/dev/shm/sw-$SLOT; RES=/dev/shm/mut/results; mkdir -p $RES
OUT=$RES/${PROP}__${SLUG}
if [ ! -d $WT ]; then git -C /repo worktree add -q --detach $WT HEAD || exit 2; fi
git -C $WT checkout -q --detach $(git -C /repo rev-parse HEAD) 2>/dev/null
git -C $WT checkout -- . ; git -C $WT clean -fdq
t0=$(date +%s)
# demo without the patch
bash $D/demo.sh $WT > $OUT.demo_clean.log 2>&1; demo_clean=$?
git -C $WT checkout -- . ; git -C $WT clean -fdq
if ! git -C $WT apply $D/patch.diff 2> $OUT.apply.log; then echo "{\"property\":\"$PROP\",\"slug\":\"$SLUG\",\"applies\":false}" > $OUT.json; exit 0; fi
bash $D/demo.sh $WT > $OUT.demo_patched.log 2>&1; demo_patched=$?
git -C $WT clean -fdq
# existing tests of the touched packages
pkgs=$(grep '^+++ b/' $D/patch.diff | sed 's#^+++ b/##' | xargs -n1 dirname | sort -u)
tests_ok=true
for p in $pkgs; do
  (cd $WT && go test -count=1 -p 4 -timeout 40m ./$p/ > $OUT.tests.$(echo $p | tr / _).log 2>&1) || tests_ok=false
done
t1=$(date +%s)
# the registered check against the patched tree
rm -rf /dev/shm/so-$SLOT; mkdir -p /dev/shm/so-$SLOT
REPO=$WT BIN=/dev/shm/sb-$SLOT VERIF_OUTDIR=/dev/shm/so-$SLOT VERIF_WORKERS=${VERIF_WORKERS:-8} /verif/check $PROP quick > $OUT.check.log 2>&1; rc=$?
t2=$(date +%s)
viol=$(grep -c '^VIOLATION' $OUT.check.log)
first=$(grep -m1 '^violation ' $OUT.check.log | cut -c1-400 | sed 's/"/\\"/g')
rp=$(grep -m1 '^VIOLATION' $OUT.check.log | sed 's/.*replay=//')
[ -n "$rp" ] && [ -f "$rp" ] && cp "$rp" $OUT.replay.json
echo "{\"property\":\"$PROP\",\"slug\":\"$SLUG\",\"applies\":true,\"demo_clean_rc\":$demo_clean,\"demo_patched_rc\":$demo_patched,\"existing_tests_ok\":$tests_ok,\"check_rc\":$rc,\"violations\":$viol,\"check_seconds\":$((t2-t1)),\"confirm_seconds\":$((t1-t0)),\"first_violation\":\"$first\"}" > $OUT.json
git -C $WT checkout -- . ; git -C $WT clean -fdq
rm -rf /dev/shm/so-$SLOT /dev/shm/sb-$SLOT
cat $OUT.json
