#!/bin/bash
# seedrun.sh <mutant-dir> <slot> : confirm one seeded defect (demo fails with / passes without the patch, existing
# package tests pass with it) and run the registered quick check of its property against the patched scratch tree.
# Works on a scratch worktree of /repo under /dev/shm; never touches /repo's working tree.
D=$1; SLOT=${2:-0}
PROP=$(basename $(dirname $D)); SLUG=$(basename $D)
OWNPROP=$PROP
# CHECK_PROP=<id> runs the check of another property against the same change (result file gets a suffix)
[ -n "$CHECK_PROP" ] && PROP=$CHECK_PROP
export GOPROXY=off GOSUMDB=off GOTOOLCHAIN=local PATH=/root/go/pkg/mod/golang.org/toolchain@v0.0.1-go1.25.10.linux-amd64/bin:$PATH
unset GOFLAGS
WT=/dev/shm/sw-$SLOT; RES=/dev/shm/mut/results; mkdir -p $RES
OUT=$RES/${OWNPROP}__${SLUG}
[ "$PROP" != "$OWNPROP" ] && OUT=$RES/${OWNPROP}__${SLUG}@${PROP}
if [ ! -d $WT ]; then git -C /repo worktree add -q --detach $WT HEAD || exit 2; fi
git -C $WT checkout -q --detach $(git -C /repo rev-parse HEAD) 2>/dev/null
git -C $WT checkout -- . ; git -C $WT clean -fdq
t0=$(date +%s)
# demo without the patch (SKIP_CONFIRM=1: only run the check; used for cross-checks of an already confirmed change)
if [ -n "$SKIP_CONFIRM" ]; then demo_clean=0; else bash $D/demo.sh $WT > $OUT.demo_clean.log 2>&1; demo_clean=$?; fi
git -C $WT checkout -- . ; git -C $WT clean -fdq
if ! git -C $WT apply $D/patch.diff 2> $OUT.apply.log; then echo "{\"property\":\"$PROP\",\"slug\":\"$SLUG\",\"applies\":false}" > $OUT.json; exit 0; fi
if [ -n "$SKIP_CONFIRM" ]; then demo_patched=1; else bash $D/demo.sh $WT > $OUT.demo_patched.log 2>&1; demo_patched=$?; fi
git -C $WT clean -fdq
# existing tests of the touched packages
pkgs=$(grep '^+++ b/' $D/patch.diff | sed 's#^+++ b/##' | xargs -n1 dirname | sort -u)
tests_ok=true
[ -n "$SKIP_CONFIRM" ] && pkgs=""
for p in $pkgs; do
  (cd $WT && go test -count=1 -p 4 -timeout 40m ./$p/ > $OUT.tests.$(echo $p | tr / _).log 2>&1) || tests_ok=false
done
t1=$(date +%s)
# the registered check against the patched tree
rm -rf /dev/shm/so-$SLOT; mkdir -p /dev/shm/so-$SLOT
REPO=$WT BIN=/dev/shm/sb-$SLOT VERIF_OUTDIR=/dev/shm/so-$SLOT VERIF_WORKERS=${VERIF_WORKERS:-8} /verif/check $PROP quick > $OUT.check.log 2>&1; rc=$?
t2=$(date +%s)
viol=$(grep -c '^VIOLATION' $OUT.check.log)
rp=$(grep -m1 '^VIOLATION' $OUT.check.log | sed 's/.*replay=//')
[ -n "$rp" ] && [ -f "$rp" ] && cp "$rp" $OUT.replay.json
python3 - "$OUT" "$OWNPROP" "$SLUG" "$PROP" "$demo_clean" "$demo_patched" "$tests_ok" "$rc" "$viol" "$((t2-t1))" "$((t1-t0))" <<'PYEOF'
import json,sys
out,own,slug,prop,dc,dp,tok,rc,viol,cs,fs=sys.argv[1:12]
first=""
for l in open(out+".check.log"):
    if l.startswith("violation "):
        first=l.strip()[:400]; break
json.dump({"property":own,"slug":slug,"checked_property":prop,"applies":True,"demo_clean_rc":int(dc),"demo_patched_rc":int(dp),"existing_tests_ok":tok=="true","check_rc":int(rc),"violations":int(viol),"check_seconds":int(cs),"confirm_seconds":int(fs),"first_violation":first},open(out+".json","w"))
PYEOF
git -C $WT checkout -- . ; git -C $WT clean -fdq
rm -rf /dev/shm/so-$SLOT /dev/shm/sb-$SLOT
cat $OUT.json
