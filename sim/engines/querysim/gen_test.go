package querysim

import (
	"testing"

	"github.com/prometheus/prometheus/promql/parser"

	"verif/sim/core/prng"
)

// TestGenParses: every generated query parses and type-checks (generator self-test, not part of the check).
func TestGenParses(t *testing.T) {
	p := parser.NewParser(parserOpts)
	bad := 0
	for i := 0; i < 20000 && bad < 10; i++ {
		pl := Generate("C33", "quick", prng.Derive(7, uint64(i)))
		for _, q := range pl.Queries {
			if _, err := p.ParseExpr(q.Q); err != nil {
				t.Errorf("seed %d: %q: %v", i, q.Q, err)
				bad++
			}
		}
	}
}
