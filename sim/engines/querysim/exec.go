package querysim

import (
	"context"
	"errors"
	"fmt"
	"math"
	"runtime"
	"runtime/debug"
	"sort"
	"strings"
	"testing"
	"time"

	"github.com/prometheus/prometheus/model/histogram"
	"github.com/prometheus/prometheus/promql"
	"github.com/prometheus/prometheus/promql/parser"
	"github.com/prometheus/prometheus/util/annotations"

	"verif/sim/core/runner"
	"verif/sim/core/sched"
)

func fromBits(b uint64) float64 { return math.Float64frombits(b) }

var parserOpts = parser.Options{
	EnableExperimentalFunctions:  true,
	ExperimentalDurationExpr:     true,
	EnableExtendedRangeSelectors: true,
	EnableBinopFillModifiers:     true,
}

// outcome is the canonical, comparable form of a query result.
type outcome struct {
	val   string // canonical value (bitwise floats), "" if the query failed
	err   string // error message, "" if none
	errV  error
	warns string // sorted annotation messages
	panic string // a panic escaped Exec
}

func (o outcome) String() string {
	if o.panic != "" {
		return "PANIC " + o.panic
	}
	if o.err != "" {
		return "ERROR " + o.err + " WARN[" + o.warns + "]"
	}
	return o.val + " WARN[" + o.warns + "]"
}

func canonFH(h *histogram.FloatHistogram) string {
	if h == nil {
		return "nil"
	}
	var sb strings.Builder
	fmt.Fprintf(&sb, "{crh:%d sch:%d zt:%x zc:%x c:%x s:%x ps:%v ns:%v pb:", h.CounterResetHint, h.Schema, math.Float64bits(h.ZeroThreshold),
		math.Float64bits(h.ZeroCount), math.Float64bits(h.Count), math.Float64bits(h.Sum), h.PositiveSpans, h.NegativeSpans)
	for _, b := range h.PositiveBuckets {
		fmt.Fprintf(&sb, "%x,", math.Float64bits(b))
	}
	sb.WriteString(" nb:")
	for _, b := range h.NegativeBuckets {
		fmt.Fprintf(&sb, "%x,", math.Float64bits(b))
	}
	sb.WriteString(" cv:")
	for _, b := range h.CustomValues {
		fmt.Fprintf(&sb, "%x,", math.Float64bits(b))
	}
	sb.WriteString("}")
	return sb.String()
}

// canonValue renders a result value with every float as its bit pattern. Series / samples are rendered in the
// order returned; ordered reports whether that order is part of the result's meaning.
func canonValue(v parser.Value) string {
	var sb strings.Builder
	switch x := v.(type) {
	case nil:
		return "<nil>"
	case promql.Scalar:
		fmt.Fprintf(&sb, "scalar t=%d %x", x.T, math.Float64bits(x.V))
	case promql.String:
		fmt.Fprintf(&sb, "string t=%d %q", x.T, x.V)
	case promql.Vector:
		sb.WriteString("vector\n")
		for _, s := range x {
			if s.H != nil {
				fmt.Fprintf(&sb, "%s dn=%v t=%d H%s\n", s.Metric.String(), s.DropName, s.T, canonFH(s.H))
			} else {
				fmt.Fprintf(&sb, "%s dn=%v t=%d %x\n", s.Metric.String(), s.DropName, s.T, math.Float64bits(s.F))
			}
		}
	case promql.Matrix:
		sb.WriteString("matrix\n")
		for _, s := range x {
			fmt.Fprintf(&sb, "%s dn=%v:", s.Metric.String(), s.DropName)
			for _, p := range s.Floats {
				fmt.Fprintf(&sb, " %d=%x", p.T, math.Float64bits(p.F))
			}
			for _, p := range s.Histograms {
				fmt.Fprintf(&sb, " %d=H%s", p.T, canonFH(p.H))
			}
			sb.WriteString("\n")
		}
	default:
		fmt.Fprintf(&sb, "unknown %T", v)
	}
	return sb.String()
}

func canonWarns(ws annotations.Annotations) string {
	var l []string
	for _, e := range ws.AsErrors() {
		l = append(l, e.Error())
	}
	sort.Strings(l)
	return strings.Join(l, " | ")
}

// sortedLines: order-insensitive form of a canonical value (vector results of map-driven operators).
func sortedLines(s string) string {
	l := strings.Split(s, "\n")
	sort.Strings(l)
	return strings.Join(l, "\n")
}

type exec struct {
	prop string
	plan *Plan
	cfg  *Config
	res  *runner.Result
	w    *world
	ng   *promql.Engine
	qa   *simQueryable
}

// runQuery evaluates one query on the shared engine and returns its canonical outcome. In the concurrent phase
// the task yields hold times between receiving the result and reading it (the result must stay intact until
// Query.Close).
func (e *exec) runQuery(q Query, hold int) (out outcome) {
	w := e.w
	ctx, cancel := context.WithCancel(context.Background())
	defer cancel()
	qs := &qstate{id: q.ID, cancel: cancel}
	w.q[q.ID] = qs
	w.cur = q.ID
	defer func() {
		if r := recover(); r != nil {
			msg := fmt.Sprint(r)
			if strings.HasPrefix(msg, "harness:") {
				panic(r)
			}
			out = outcome{panic: msg + "\n" + trimStack(string(debug.Stack()))}
		}
	}()
	var (
		qry promql.Query
		err error
	)
	var qopts promql.QueryOpts
	if q.LB > 0 {
		qopts = promql.NewPrometheusQueryOpts(false, time.Duration(q.LB)*time.Millisecond)
	}
	if q.Range {
		qry, err = e.ng.NewRangeQuery(ctx, e.qa, qopts, q.Q, time.UnixMilli(q.Start), time.UnixMilli(q.End), time.Duration(q.Step)*time.Millisecond)
	} else {
		qry, err = e.ng.NewInstantQuery(ctx, e.qa, qopts, q.Q, time.UnixMilli(q.Start))
	}
	if err != nil {
		// a generated query must parse and type-check: anything else is a generator bug
		panic(fmt.Sprintf("harness: generated query %q rejected: %v", q.Q, err))
	}
	res := qry.Exec(ctx)
	for i := 0; i < hold; i++ {
		w.yield(q.ID, "q.hold")
	}
	w.cur = q.ID
	out.warns = canonWarns(res.Warnings)
	if res.Err != nil {
		out.err, out.errV = res.Err.Error(), res.Err
	} else {
		out.val = canonValue(res.Value)
	}
	qry.Close()
	return out
}

func isInternal(o outcome) bool {
	if o.panic != "" {
		return true
	}
	if o.errV == nil {
		return false
	}
	var re runtime.Error
	return strings.Contains(o.err, "unexpected error") || errors.As(o.errV, &re)
}

func matchesInjected(o outcome, fired []*injErr) bool {
	for _, f := range fired {
		if errors.Is(o.errV, f) || strings.Contains(o.err, f.Error()) {
			return true
		}
	}
	return false
}

func isCancel(o outcome) bool {
	var c promql.ErrQueryCanceled
	return errors.As(o.errV, &c) || errors.Is(o.errV, context.Canceled)
}

func isTimeout(o outcome) bool {
	var c promql.ErrQueryTimeout
	return errors.As(o.errV, &c) || errors.Is(o.errV, context.DeadlineExceeded)
}

func short(s string, n int) string {
	if len(s) > n {
		return s[:n] + "...(" + fmt.Sprint(len(s)) + " bytes)"
	}
	return s
}

func firstDiff(a, b string) string {
	la, lb := strings.Split(a, "\n"), strings.Split(b, "\n")
	for i := 0; i < len(la) || i < len(lb); i++ {
		var x, y string
		if i < len(la) {
			x = la[i]
		}
		if i < len(lb) {
			y = lb[i]
		}
		if x != y {
			return fmt.Sprintf("line %d:\n  serial:     %s\n  concurrent: %s", i, short(x, 400), short(y, 400))
		}
	}
	return "(no difference)"
}

// Execute runs one plan inside a synctest bubble.
func Execute(t *testing.T, prop string, plan *Plan) (res *runner.Result) {
	res = &runner.Result{Counters: map[string]int64{}}
	cfg := &plan.Cfg
	// The shared pools of the engine are sync.Pools: start every run with empty pools and keep the collector
	// out of the run, so that pool reuse (which only matters to a defective engine) replays exactly.
	runtime.GC()
	runtime.GC()
	old := debug.SetGCPercent(-1)
	defer debug.SetGCPercent(old)

	w := &world{cfg: cfg, res: res, faults: map[faultKey]Fault{}, quiet: true, q: map[int]*qstate{}, timeout: 2 * time.Minute}
	for _, f := range plan.Faults {
		if f.Kind == "timeout" && cfg.Tracker > 0 {
			f.Kind = "cancel" // a queued query would time out with the sleeper, see store.go
		}
		w.faults[faultKey{f.Q, f.Point, f.N}] = f
	}
	w.series = buildSeries(plan.Data)
	e := &exec{prop: prop, plan: plan, cfg: cfg, res: res, w: w, qa: &simQueryable{w: w}}
	opts := promql.EngineOpts{
		MaxSamples:               cfg.MaxSamples,
		Timeout:                  w.timeout,
		LookbackDelta:            time.Duration(cfg.LookbackMs) * time.Millisecond,
		NoStepSubqueryIntervalFn: func(int64) int64 { return 60000 },
		EnableAtModifier:         true,
		EnableNegativeOffset:     true,
		EnablePerStepStats:       cfg.PerStep,
		EnableDelayedNameRemoval: cfg.DelayedName,
		Parser:                   parser.NewParser(parserOpts),
	}
	if cfg.Tracker > 0 {
		opts.ActiveQueryTracker = &tracker{w: w, slot: make(chan struct{}, cfg.Tracker)}
	}
	e.ng = promql.NewEngine(opts)
	defer e.ng.Close()
	defer func() {
		if r := recover(); r != nil {
			msg := fmt.Sprint(r)
			if strings.HasPrefix(msg, "harness:") {
				panic(r)
			}
			res.Violate(prop, "panic", "panic", "panic: %v\n%s", r, trimStack(string(debug.Stack())))
		}
	}()

	// ---- phase 1: every query alone, no faults, no yields: the reference results
	ref := map[int]outcome{}
	unordered := map[int]bool{}
	var kinds []string
	for _, q := range plan.Queries {
		a := e.runQuery(q, 0)
		b := e.runQuery(q, 0)
		res.Evals++
		if isInternal(a) {
			// the input-space half of C33 is not claimed by this engine, but an internal error met on the way is reported
			res.Violate(prop, "internal-error-serial", "serial-evaluation-internal-error", "query %q (start %d end %d step %d) evaluated alone fails internally: %s", q.Q, q.Start, q.End, q.Step, short(a.String(), 3000))
			return res
		}
		if a.String() != b.String() {
			if sortedLines(a.String()) == sortedLines(b.String()) {
				unordered[q.ID] = true // output order of this query is not a function of its input (map iteration)
				res.Count("serial-order-unstable", 1)
			} else {
				res.Violate(prop, "serial-repeatability", "serial-results-differ", "query %q evaluated alone twice gives different results: %s", q.Q, firstDiff(a.String(), b.String()))
				return res
			}
		}
		ref[q.ID] = a
		switch {
		case a.err != "":
			kinds = append(kinds, "user-error")
			res.Count("ref-user-error", 1)
		case a.warns != "":
			kinds = append(kinds, "warn")
			res.Count("ref-annotations", 1)
		case len(a.val) < 12:
			kinds = append(kinds, "empty")
			res.Count("ref-empty-result", 1)
		default:
			kinds = append(kinds, "data")
			res.Count("ref-with-data", 1)
		}
	}

	// ---- phase 2: all queries concurrently under the scheduler, with the fault plan
	s := sched.New(cfg.SchedSeed, cfg.Pol)
	if cfg.UseReplay {
		s.Replay = append([]int{}, cfg.Replay...)
	}
	s.KeepTrace = true
	s.MaxSteps = 400000
	w.s = s
	w.quiet = false
	w.q = map[int]*qstate{}
	got := map[int]outcome{}
	for _, q := range plan.Queries {
		q := q
		s.Go(fmt.Sprintf("q#%d", q.ID), func() {
			got[q.ID] = e.runQuery(q, q.Hold)
		})
	}
	if err := s.Run(nil); err != nil {
		panic("harness: scheduler: " + err.Error())
	}
	if s.Steps() >= s.MaxSteps {
		panic("harness: scheduler step cap reached")
	}
	s.Stop()
	plan.lastChoices = append([]int(nil), s.Choices...)
	w.quiet = true

	// ---- judge
	nontrivial := false
	for _, q := range plan.Queries {
		r, g := ref[q.ID], got[q.ID]
		qs := w.q[q.ID]
		res.Evals++
		same := r.String() == g.String()
		if !same && unordered[q.ID] {
			same = sortedLines(r.String()) == sortedLines(g.String())
		}
		faulted := qs != nil && (len(qs.fired) > 0 || qs.cancelled || qs.timedOut)
		if r.val != "" && len(r.val) >= 12 {
			nontrivial = true
		}
		switch {
		case g.panic != "":
			res.Violate(prop, "panic-escaped", "panic-escaped-exec", "query %q: a panic escaped Engine.Exec: %s", q.Q, short(g.panic, 3000))
		case isInternal(g):
			res.Violate(prop, "internal-error", "internal-error-under-concurrency-or-fault", "query %q (faulted=%v): internal error: %s\nserial result: %s", q.Q, faulted, short(g.err, 2000), short(r.String(), 500))
		case same:
			// identical to the serial result
		case !faulted:
			sig := "result-differs-from-serial"
			if (r.err == "") != (g.err == "") {
				sig = "error-status-differs-from-serial"
			} else if r.val == g.val && r.err == g.err {
				sig = "annotations-differ-from-serial"
			}
			res.Violate(prop, "concurrent-vs-serial", sig, "query %q (start %d end %d step %d) evaluated concurrently with %d others differs from its serial result: %s", q.Q, q.Start, q.End, q.Step, len(plan.Queries)-1, firstDiff(r.String(), g.String()))
		default:
			// a fault fired in this query: the result must be the serial result (handled above) or the user-facing error of the fault
			ok := false
			switch {
			case g.err == "":
				ok = false // a value that differs from the serial one: the fault was swallowed
			case len(qs.fired) > 0 && matchesInjected(g, qs.fired):
				ok = true
			case qs.cancelled && isCancel(g):
				ok = true
			case qs.timedOut && isTimeout(g):
				ok = true
			}
			if !ok {
				sig := "fault-changes-result-silently"
				if g.err != "" {
					sig = "fault-causes-unrelated-error"
				}
				res.Violate(prop, "fault-outcome", sig, "query %q: injected faults (errors %v, cancelled %v, timed out %v) led to %s\nserial result: %s", q.Q, qs.fired, qs.cancelled, qs.timedOut, short(g.String(), 1500), short(r.String(), 800))
			} else {
				res.Count("faulted-query-failed-with-injected-error", 1)
			}
		}
		if faulted && same {
			res.Count("faulted-query-same-result", 1)
		}
		if len(res.Violations) > 0 {
			break
		}
	}
	res.NonTrivial = nontrivial && len(plan.Queries) >= 2
	sort.Strings(kinds)
	var fk []string
	for _, f := range plan.Faults {
		fk = append(fk, f.Kind+"@"+f.Point)
	}
	res.Key = fmt.Sprintf("%x", s.TraceHash())
	res.StateKeys = []string{strings.Join(kinds, ",") + "|" + strings.Join(fk, ",")}
	res.Trace = strings.Join(s.Trace, " ")
	res.Count("sched-steps", int64(s.Steps()))
	res.Count("queries", int64(len(plan.Queries)))
	var qsm []string
	for _, q := range plan.Queries {
		qsm = append(qsm, q.Q)
	}
	res.Sample = map[string]any{"queries": qsm, "series": len(plan.Data), "faults": plan.Faults, "sched_steps": s.Steps(), "policy": cfg.Pol.Kind}
	return res
}

func trimStack(s string) string {
	lines := strings.Split(s, "\n")
	if len(lines) > 40 {
		lines = lines[:40]
	}
	return strings.Join(lines, "\n")
}
