package querysim

import (
	"context"
	"fmt"
	"sort"
	"time"

	"github.com/prometheus/prometheus/model/histogram"
	"github.com/prometheus/prometheus/model/labels"
	"github.com/prometheus/prometheus/storage"
	"github.com/prometheus/prometheus/tsdb/chunkenc"
	"github.com/prometheus/prometheus/util/annotations"

	"verif/sim/core/prng"
	"verif/sim/core/runner"
	"verif/sim/core/sched"
	"verif/sim/model/histgen"
)

// injErr is one injected storage failure.
type injErr struct{ f Fault }

func (e *injErr) Error() string {
	return fmt.Sprintf("injected storage failure: query %d %s #%d", e.f.Q, e.f.Point, e.f.N)
}

type faultKey struct {
	q     int
	point string
	n     int
}

// qstate is the per-query state the seams need.
type qstate struct {
	id                  int
	cancel              context.CancelFunc
	nsel                int
	nit                 int
	fired               []*injErr // storage errors injected into this query
	cancelled, timedOut bool
}

// world is what the seams share during one run.
type world struct {
	s       *sched.Sched
	cfg     *Config
	res     *runner.Result
	faults  map[faultKey]Fault
	quiet   bool // reference phase: no yields, no faults
	cur     int  // query of the running task (restored by every seam after its yield)
	q       map[int]*qstate
	series  []*memSeries
	timeout time.Duration
}

func (w *world) yield(q int, site string) {
	if w.quiet || w.s == nil {
		return
	}
	w.s.Yield(site, q)
	w.cur = q
}

// fault applies the planned fault of (q, point, n), if any: a storage error is returned, a cancellation cancels the
// query's context, a timeout lets the fake clock pass the engine's query timeout.
func (w *world) fault(q int, point string, n int) error {
	if w.quiet {
		return nil
	}
	f, ok := w.faults[faultKey{q, point, n}]
	if !ok {
		return nil
	}
	qs := w.q[q]
	w.res.Count("fault:"+f.Kind+"@"+point, 1)
	switch f.Kind {
	case "cancel":
		qs.cancelled = true
		qs.cancel()
		return nil
	case "timeout":
		qs.timedOut = true
		// the fake clock only advances once every other task is blocked or finished
		time.Sleep(w.timeout + time.Second)
		w.yield(q, "seam.after-timeout")
		return nil
	}
	e := &injErr{f: f}
	qs.fired = append(qs.fired, e)
	return e
}

// ---------------------------------------------------------------------------------------------
// data

type msample struct {
	t  int64
	f  float64
	h  *histogram.Histogram
	fh *histogram.FloatHistogram
}

type memSeries struct {
	lset labels.Labels
	sm   []msample
}

func buildSeries(data []SeriesData) []*memSeries {
	var out []*memSeries
	for _, sd := range data {
		s := &memSeries{lset: labels.FromStrings(sd.L...)}
		var st histgen.State
		last := int64(-1 << 62)
		for _, ps := range sd.Sm {
			if ps.T <= last {
				continue
			}
			last = ps.T
			m := msample{t: ps.T}
			v := fromBits(ps.VB)
			switch ps.K {
			case 0:
				m.f = v
			case 1:
				m.h, _ = st.Next(prng.New(ps.HS), ps.HM, v, false)
			default:
				_, m.fh = st.Next(prng.New(ps.HS), ps.HM, v, true)
			}
			s.sm = append(s.sm, m)
		}
		out = append(out, s)
	}
	sort.SliceStable(out, func(i, j int) bool { return labels.Compare(out[i].lset, out[j].lset) < 0 })
	return out
}

// ---------------------------------------------------------------------------------------------
// the seam

type simQueryable struct{ w *world }

func (s *simQueryable) Querier(mint, maxt int64) (storage.Querier, error) {
	w, q := s.w, s.w.cur
	w.yield(q, "seam.querier")
	if err := w.fault(q, "querier", 0); err != nil {
		return nil, err
	}
	return &simQuerier{w: w, q: q, mint: mint, maxt: maxt}, nil
}

type simQuerier struct {
	w          *world
	q          int
	mint, maxt int64
	closed     int
}

func (q *simQuerier) LabelValues(context.Context, string, *storage.LabelHints, ...*labels.Matcher) ([]string, annotations.Annotations, error) {
	return nil, nil, nil
}

func (q *simQuerier) LabelNames(context.Context, *storage.LabelHints, ...*labels.Matcher) ([]string, annotations.Annotations, error) {
	return nil, nil, nil
}

func (q *simQuerier) Close() error {
	q.w.yield(q.q, "seam.close")
	q.closed++
	return nil
}

func (q *simQuerier) Select(ctx context.Context, sortSeries bool, hints *storage.SelectHints, ms ...*labels.Matcher) storage.SeriesSet {
	w := q.w
	w.yield(q.q, "seam.select")
	qs := w.q[q.q]
	ord := 0
	if qs != nil {
		ord = qs.nsel
		qs.nsel++
	}
	if err := w.fault(q.q, "select", ord); err != nil {
		return storage.ErrSeriesSet(err)
	}
	var out []*memSeries
	for _, s := range w.series {
		ok := true
		for _, m := range ms {
			if !m.Matches(s.lset.Get(m.Name)) {
				ok = false
				break
			}
		}
		if ok {
			out = append(out, s)
		}
	}
	return &simSeriesSet{q: q, sel: ord, ss: out}
}

type simSeriesSet struct {
	q   *simQuerier
	sel int
	ss  []*memSeries
	i   int
	n   int
	err error
}

func (s *simSeriesSet) Next() bool {
	s.q.w.yield(s.q.q, "seam.next")
	if s.err != nil {
		return false
	}
	n := s.n
	s.n++
	if err := s.q.w.fault(s.q.q, "next", s.sel*1000+n); err != nil {
		s.err = err
		return false
	}
	s.i++
	return s.i <= len(s.ss)
}

func (s *simSeriesSet) At() storage.Series {
	s.q.w.yield(s.q.q, "seam.at")
	return &simSeries{q: s.q, s: s.ss[s.i-1]}
}
func (s *simSeriesSet) Err() error                        { return s.err }
func (s *simSeriesSet) Warnings() annotations.Annotations { return nil }

type simSeries struct {
	q *simQuerier
	s *memSeries
}

func (s *simSeries) Labels() labels.Labels { return s.s.lset }

func (s *simSeries) Iterator(it chunkenc.Iterator) chunkenc.Iterator {
	if prev, ok := it.(*simIter); ok && prev.q == s.q {
		prev.s, prev.i, prev.err = s.s, -1, nil
		return prev
	}
	return &simIter{q: s.q, s: s.s, i: -1}
}

// simIter iterates the samples of one series within the querier's time range.
type simIter struct {
	q   *simQuerier
	s   *memSeries
	i   int
	err error
}

func (it *simIter) step(site string) bool {
	w := it.q.w
	qs := w.q[it.q.q]
	n := 0
	if qs != nil {
		n = qs.nit
		qs.nit++
	}
	if w.cfg.YieldEvery <= 1 || n%w.cfg.YieldEvery == 0 {
		w.yield(it.q.q, site)
	}
	if err := w.fault(it.q.q, "iter", n); err != nil {
		it.err = err
		return false
	}
	return true
}

func (it *simIter) typ() chunkenc.ValueType {
	if it.i < 0 || it.i >= len(it.s.sm) {
		return chunkenc.ValNone
	}
	m := it.s.sm[it.i]
	switch {
	case m.h != nil:
		return chunkenc.ValHistogram
	case m.fh != nil:
		return chunkenc.ValFloatHistogram
	}
	return chunkenc.ValFloat
}

func (it *simIter) Next() chunkenc.ValueType {
	if it.err != nil || !it.step("seam.it.next") {
		return chunkenc.ValNone
	}
	for {
		it.i++
		if it.i >= len(it.s.sm) {
			it.i = len(it.s.sm)
			return chunkenc.ValNone
		}
		t := it.s.sm[it.i].t
		if t < it.q.mint {
			continue
		}
		if t > it.q.maxt {
			it.i = len(it.s.sm)
			return chunkenc.ValNone
		}
		return it.typ()
	}
}

func (it *simIter) Seek(t int64) chunkenc.ValueType {
	if it.err != nil || !it.step("seam.it.seek") {
		return chunkenc.ValNone
	}
	if it.i >= 0 && it.i < len(it.s.sm) && it.s.sm[it.i].t >= t {
		return it.typ()
	}
	if it.i < 0 {
		it.i = 0
	}
	for it.i < len(it.s.sm) && (it.s.sm[it.i].t < t || it.s.sm[it.i].t < it.q.mint) {
		it.i++
	}
	if it.i >= len(it.s.sm) || it.s.sm[it.i].t > it.q.maxt {
		it.i = len(it.s.sm)
		return chunkenc.ValNone
	}
	return it.typ()
}

// atYield: in the finest yield mode the value accessors are scheduling points too.
func (it *simIter) atYield() {
	if it.q.w.cfg.YieldEvery <= 1 {
		it.q.w.yield(it.q.q, "seam.it.at")
	}
}

func (it *simIter) At() (int64, float64) {
	it.atYield()
	m := it.s.sm[it.i]
	return m.t, m.f
}

func (it *simIter) AtHistogram(h *histogram.Histogram) (int64, *histogram.Histogram) {
	it.atYield()
	m := it.s.sm[it.i]
	if h == nil {
		return m.t, m.h.Copy()
	}
	m.h.CopyTo(h)
	return m.t, h
}

func (it *simIter) AtFloatHistogram(fh *histogram.FloatHistogram) (int64, *histogram.FloatHistogram) {
	it.atYield()
	m := it.s.sm[it.i]
	if m.fh == nil {
		return m.t, m.h.ToFloat(fh)
	}
	if fh == nil {
		return m.t, m.fh.Copy()
	}
	m.fh.CopyTo(fh)
	return m.t, fh
}

func (it *simIter) AtT() int64  { return it.s.sm[it.i].t }
func (it *simIter) AtST() int64 { return 0 }
func (it *simIter) Err() error  { return it.err }

// ---------------------------------------------------------------------------------------------
// active query tracker: a counting gate whose wake-ups are followed by a scheduler yield

type tracker struct {
	w    *world
	slot chan struct{}
	n    int
}

func (t *tracker) GetMaxConcurrent() int { return cap(t.slot) }
func (t *tracker) Close() error          { return nil }

func (t *tracker) Insert(ctx context.Context, _ string) (int, error) {
	q := t.w.cur
	t.w.yield(q, "tracker.insert")
	select {
	case t.slot <- struct{}{}:
	case <-ctx.Done():
		t.w.yield(q, "tracker.ctxdone")
		return 0, ctx.Err()
	}
	t.w.yield(q, "tracker.inserted") // woken by another query's Delete: yield before touching anything
	t.n++
	return t.n, nil
}

func (t *tracker) Delete(int) { <-t.slot }
