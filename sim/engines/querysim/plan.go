// Package querysim is the E9 engine for the schedule/fault half of property C33: one real promql.Engine
// evaluates 2-6 generated, type-correct queries concurrently as scheduler tasks against a simulated
// storage.Queryable whose every seam call (Querier, Select, Next, At, iterator Next/Seek/At*, Close) yields to
// the seeded scheduler and can inject a storage error, a context cancellation or a timeout. Every query's
// result must equal its own serial, fault-free result bit for bit.
package querysim

import (
	"encoding/json"
	"fmt"
	"math"
	"strings"

	"github.com/prometheus/prometheus/model/value"

	"verif/sim/core/prng"
	"verif/sim/core/sched"
	"verif/sim/model/histgen"
)

// Config is the swarm configuration of one run.
type Config struct {
	Seed        uint64       `json:"seed"`
	Pol         sched.Policy `json:"pol"`
	SchedSeed   uint64       `json:"sseed"`
	UseReplay   bool         `json:"usereplay,omitempty"`
	Replay      []int        `json:"replay,omitempty"`
	LookbackMs  int64        `json:"lookback"`
	DelayedName bool         `json:"delayedname,omitempty"`
	PerStep     bool         `json:"perstep,omitempty"`
	MaxSamples  int          `json:"maxsamples"`
	YieldEvery  int          `json:"yieldevery"`        // iterator calls yield every k-th call
	Tracker     int          `json:"tracker,omitempty"` // >0: active query tracker with this many slots (concurrency gate)
}

// Sample of a plan.
type Sample struct {
	T  int64  `json:"t"`
	K  int    `json:"k,omitempty"`  // 0 float, 1 histogram, 2 float histogram
	VB uint64 `json:"vb"`           // float bits (value / histogram sum)
	HM int    `json:"hm,omitempty"` // histogram evolution mode (histgen)
	HS uint64 `json:"hs,omitempty"`
}

// SeriesData is one stored series.
type SeriesData struct {
	L  []string `json:"l"`
	Sm []Sample `json:"sm"`
}

// Query is one query of the run.
type Query struct {
	ID    int    `json:"id"`
	Q     string `json:"q"`
	Range bool   `json:"range,omitempty"`
	Start int64  `json:"start"` // ms
	End   int64  `json:"end,omitempty"`
	Step  int64  `json:"step,omitempty"`
	Hold  int    `json:"hold,omitempty"` // scheduler yields between receiving the result and reading it
	LB    int64  `json:"lb,omitempty"`   // per-query lookback delta in ms (0: the engine's)
}

// Fault at a seam call of one query. N: for "select" the Select ordinal, for "next" select*1000+call, for
// "iter" the ordinal of the iterator call within the query.
type Fault struct {
	Q     int    `json:"q"`
	Point string `json:"point"` // querier | select | next | iter
	N     int    `json:"n,omitempty"`
	Kind  string `json:"kind"` // err | cancel | timeout
}

// Plan of one run.
type Plan struct {
	Cfg     Config       `json:"cfg"`
	Data    []SeriesData `json:"data"`
	Queries []Query      `json:"queries"`
	Faults  []Fault      `json:"faults,omitempty"`

	lastChoices []int
}

func (p *Plan) clone() *Plan {
	b, _ := json.Marshal(p)
	var q Plan
	if err := json.Unmarshal(b, &q); err != nil {
		panic("harness: clone: " + err.Error())
	}
	return &q
}

const (
	t0 = int64(1_000_000_000) // ms
)

type seriesKind int

const (
	kGauge seriesKind = iota
	kCounter
	kHist
	kGaugeHist
	kMixed
	kBucket
	kInfo
)

type metricDef struct {
	name string
	kind seriesKind
}

var metricDefs = []metricDef{{"g", kGauge}, {"c", kCounter}, {"h", kHist}, {"hg", kGaugeHist}, {"mix", kMixed}, {"b_bucket", kBucket}, {"mg", kMixed}}

func fbits(f float64) uint64 { return math.Float64bits(f) }

// genData draws <= 8 series with <= 60 samples each.
func genData(r *prng.R) ([]SeriesData, int64) {
	var out []SeriesData
	interval := int64([]int{10000, 15000, 30000}[r.Intn(3)])
	n := r.Range(8, 60)
	span := interval * int64(n)
	addSeries := func(kind seriesKind, ls []string) {
		if len(out) >= 8 {
			return
		}
		sd := SeriesData{L: ls}
		cnt := 0.0
		floatHist := r.Chance(0.4)
		for i := 0; i < n; i++ {
			if r.Chance(0.06) { // missed scrape
				continue
			}
			t := t0 + int64(i)*interval + int64(r.Intn(200))
			s := Sample{T: t}
			stale := r.Chance(0.03)
			switch kind {
			case kGauge:
				v := float64(r.Intn(2000))/10 - 50
				switch x := r.Intn(40); x {
				case 0:
					v = math.NaN()
				case 1:
					v = math.Inf(1)
				case 2:
					v = math.Inf(-1)
				case 3:
					v = 0
				}
				s.VB = fbits(v)
			case kInfo:
				s.VB = fbits(1)
			case kCounter, kBucket:
				cnt += float64(r.Intn(50))
				if r.Chance(0.05) {
					cnt = float64(r.Intn(5)) // reset
				}
				s.VB = fbits(cnt)
			case kHist, kGaugeHist, kMixed:
				cnt += float64(r.Intn(20)) + 0.5
				s.K = 1
				if floatHist {
					s.K = 2
				}
				s.HM = histgen.Grow
				if kind == kGaugeHist {
					s.HM = histgen.Gauge
				} else if r.Chance(0.07) {
					s.HM = histgen.Reset
				} else if r.Chance(0.04) {
					s.HM = histgen.SchemaChange
				}
				s.HS = r.Uint64()>>1 | 1
				s.VB = fbits(cnt)
				if kind == kMixed && r.Chance(0.5) {
					s.K = 0
					s.VB = fbits(float64(r.Intn(100)))
				}
				if r.Chance(0.02) {
					s.VB = fbits(math.NaN())
				}
			}
			if stale {
				s.K = 0
				s.VB = value.StaleNaN
			}
			sd.Sm = append(sd.Sm, s)
		}
		out = append(out, sd)
	}
	jobs := []string{"a", "b"}
	// always some gauges and counters, then a draw of the rest
	for _, j := range jobs {
		if r.Chance(0.8) {
			addSeries(kGauge, []string{"__name__", "g", "instance", fmt.Sprint(r.Intn(2)), "job", j})
		}
	}
	for _, j := range jobs {
		if r.Chance(0.7) {
			addSeries(kCounter, []string{"__name__", "c", "instance", "0", "job", j})
		}
	}
	if r.Chance(0.7) {
		addSeries(kHist, []string{"__name__", "h", "job", "a"})
	}
	if r.Chance(0.4) {
		addSeries(kHist, []string{"__name__", "h", "job", "b"})
	}
	if r.Chance(0.4) {
		addSeries(kGaugeHist, []string{"__name__", "hg", "job", "a"})
	}
	if r.Chance(0.4) {
		addSeries(kMixed, []string{"__name__", "mix", "job", "a"})
	}
	if r.Chance(0.3) {
		// one metric whose series differ in type: a float series first, native histograms after it
		addSeries(kGauge, []string{"__name__", "mg", "instance", "0", "job", "a"})
		addSeries(kHist, []string{"__name__", "mg", "instance", "1", "job", "a"})
		addSeries(kHist, []string{"__name__", "mg", "instance", "2", "job", "a"})
	}
	if r.Chance(0.4) {
		for _, le := range []string{"0.1", "1", "+Inf"} {
			addSeries(kBucket, []string{"__name__", "b_bucket", "job", "a", "le", le})
		}
	}
	if r.Chance(0.35) {
		addSeries(kInfo, []string{"__name__", "target_info", "instance", "0", "job", "a", "ver", "1"})
	}
	if len(out) == 0 {
		addSeries(kGauge, []string{"__name__", "g", "instance", "0", "job", "a"})
	}
	return out, span
}

// ---------------------------------------------------------------------------------------------
// query generator (type-correct by construction)

type qgen struct {
	r       *prng.R
	at      []string // usable @ timestamps (seconds)
	rangeQ  bool
	present []string // metric names that exist in the generated data
}

func (g *qgen) pick(xs ...string) string { return xs[g.r.Intn(len(xs))] }

func (g *qgen) selector() string {
	m := metricDefs[g.r.Intn(len(metricDefs))].name
	if len(g.present) > 0 && g.r.Chance(0.85) {
		m = g.present[g.r.Intn(len(g.present))]
	}
	return g.selectorOf(m)
}

func (g *qgen) selectorOf(m string) string {
	var ms []string
	switch g.r.Intn(6) {
	case 0:
		ms = append(ms, `job="a"`)
	case 1:
		ms = append(ms, `job=~"a|b"`)
	case 2:
		ms = append(ms, `job!="b"`)
	case 3:
		ms = append(ms, `instance!~"1"`)
	}
	s := m
	if len(ms) > 0 {
		s += "{" + strings.Join(ms, ",") + "}"
	}
	if g.r.Chance(0.04) {
		s = `{__name__=~"g|c|h"}`
	}
	return s
}

func (g *qgen) modifiers() string {
	s := ""
	if g.r.Chance(0.15) {
		s += " offset " + g.pick("30s", "1m", "-30s", "2m")
	}
	if g.r.Chance(0.1) {
		s += " @ " + g.pick(append([]string{"start()", "end()"}, g.at...)...)
	}
	return s
}

func (g *qgen) dur() string { return g.pick("30s", "1m", "2m", "5m", "45s") }

// matrix returns a range-vector expression.
func (g *qgen) matrix(depth int, metric string) string {
	if depth > 0 && g.r.Chance(0.25) {
		step := g.pick("30s", "1m", "15s", "")
		return "(" + g.vector(depth-1) + ")[" + g.dur() + ":" + step + "]" + g.modifiers()
	}
	sel := g.selector()
	if metric != "" {
		sel = g.selectorOf(metric)
	}
	ext := ""
	if g.r.Chance(0.1) {
		ext = g.pick(" anchored", " smoothed") // extended range selectors (floats only; histograms give a user-facing error)
	}
	return sel + "[" + g.dur() + "]" + ext + g.modifiers()
}

func (g *qgen) scalar(depth int) string {
	switch g.r.Intn(10) {
	case 0:
		return g.pick("NaN", "Inf", "-Inf", "0")
	case 1:
		return "time()"
	case 2:
		if depth > 0 {
			return "scalar(" + g.vector(depth-1) + ")"
		}
		return "pi()"
	case 3:
		return "(" + g.scalar(0) + " " + g.pick("+", "*", "-", "/", "%", "^") + " " + g.scalar(0) + ")"
	default:
		return g.pick("0.5", "1", "2", "10", "0.9", "-1", "3.5")
	}
}

func (g *qgen) grouping() string {
	switch g.r.Intn(5) {
	case 0:
		return " by (job)"
	case 1:
		return " without (instance)"
	case 2:
		return " by (job, instance)"
	case 3:
		return " without (job, le)"
	}
	return ""
}

var rangeFns = []string{"rate", "irate", "increase", "delta", "idelta", "deriv", "changes", "resets", "avg_over_time", "sum_over_time",
	"min_over_time", "max_over_time", "count_over_time", "last_over_time", "present_over_time", "stddev_over_time", "stdvar_over_time",
	"first_over_time", "mad_over_time", "ts_of_first_over_time", "ts_of_max_over_time", "ts_of_min_over_time", "ts_of_last_over_time", "absent_over_time"}

var vecFns = []string{"abs", "ceil", "floor", "exp", "ln", "log2", "log10", "sqrt", "sgn", "deg", "rad", "sin", "cos", "atan", "tanh",
	"timestamp", "histogram_count", "histogram_sum", "histogram_avg", "histogram_stddev", "histogram_stdvar", "sort", "sort_desc", "absent",
	"day_of_week", "hour", "minute", "year"}

var aggOps = []string{"sum", "avg", "min", "max", "count", "group", "stddev", "stdvar"}

// vector returns an instant-vector expression.
func (g *qgen) vector(depth int) string {
	if depth <= 0 {
		return g.selector() + g.modifiers()
	}
	switch g.r.Pick([]int{10, 24, 18, 16, 18, 6, 4, 4}) {
	case 0:
		return g.selector() + g.modifiers()
	case 1: // function over a range vector
		switch g.r.Intn(8) {
		case 0:
			return "quantile_over_time(" + g.pick("0.5", "0.9", "0", "1", "1.5") + ", " + g.matrix(depth-1, "") + ")"
		case 1:
			return "predict_linear(" + g.matrix(depth-1, "") + ", " + g.pick("60", "600", "0") + ")"
		case 2:
			return "double_exponential_smoothing(" + g.matrix(depth-1, "") + ", 0.5, 0.3)"
		case 3: // histogram-aware
			return g.pick("rate", "increase", "delta", "sum_over_time", "avg_over_time", "last_over_time", "irate", "idelta") + "(" + g.matrix(0, g.pick("h", "hg", "mix")) + ")"
		default:
			return rangeFns[g.r.Intn(len(rangeFns))] + "(" + g.matrix(depth-1, "") + ")"
		}
	case 2: // aggregation
		in := g.vector(depth - 1)
		switch g.r.Intn(9) {
		case 0:
			return g.pick("topk", "bottomk") + g.grouping() + "(" + g.pick("1", "2", "3") + ", " + in + ")"
		case 1:
			return "quantile" + g.grouping() + "(" + g.pick("0.5", "0.9", "2") + ", " + in + ")"
		case 2:
			return `count_values` + g.grouping() + `("v", ` + in + ")"
		case 3:
			return g.pick("limitk", "limit_ratio") + g.grouping() + "(" + g.pick("1", "0.5", "2") + ", " + in + ")"
		default:
			return aggOps[g.r.Intn(len(aggOps))] + g.grouping() + "(" + in + ")"
		}
	case 3: // vector function
		in := g.vector(depth - 1)
		switch g.r.Intn(10) {
		case 0:
			return "histogram_quantile(" + g.pick("0.5", "0.9", "0.99", "1.2", "NaN") + ", " + g.pick(in, "rate(h[2m])", "h", "sum by (le) (rate(b_bucket[2m]))", "b_bucket", "hg") + ")"
		case 1:
			return "histogram_fraction(" + g.pick("0", "-Inf", "0.5") + ", " + g.pick("1", "Inf", "2") + ", " + g.pick(in, "h", "rate(h[1m])", "hg") + ")"
		case 2:
			return "clamp(" + in + ", " + g.pick("0", "-10") + ", " + g.pick("10", "100") + ")"
		case 3:
			return g.pick("clamp_min", "clamp_max") + "(" + in + ", " + g.scalar(0) + ")"
		case 4:
			return "round(" + in + ", " + g.pick("1", "0.5", "10") + ")"
		case 5:
			return `label_replace(` + in + `, "dst", "$1-x", "job", "(.*)")`
		case 6:
			return `label_join(` + in + `, "dst", "-", "job", "instance")`
		case 7:
			return "vector(" + g.scalar(depth-1) + ")"
		default:
			return vecFns[g.r.Intn(len(vecFns))] + "(" + in + ")"
		}
	case 4: // binary
		l, rr := g.vector(depth-1), g.vector(depth-1)
		op := g.pick("+", "-", "*", "/", "%", "^", "==", "!=", ">", "<", ">=", "<=", "and", "or", "unless", "atan2")
		switch g.r.Intn(6) {
		case 0:
			return "(" + l + " " + op + " on (job) " + rr + ")"
		case 1:
			return "(" + l + " " + op + " ignoring (instance) " + rr + ")"
		case 2:
			if op != "and" && op != "or" && op != "unless" {
				return "(" + l + " " + op + " on (job) group_left () " + rr + ")"
			}
			return "(" + l + " " + op + " " + rr + ")"
		case 3:
			if op == "==" || op == "!=" || op == ">" || op == "<" || op == ">=" || op == "<=" {
				return "(" + l + " " + op + " bool " + rr + ")"
			}
			return "(" + l + " " + op + " " + rr + ")"
		default:
			return "(" + l + " " + op + " " + rr + ")"
		}
	case 5: // vector op scalar
		op := g.pick("+", "-", "*", "/", "%", "^", "==", "!=", ">", "<")
		if g.r.Chance(0.5) {
			return "(" + g.vector(depth-1) + " " + op + " " + g.scalar(depth-1) + ")"
		}
		return "(" + g.scalar(depth-1) + " " + op + " " + g.vector(depth-1) + ")"
	case 6:
		return "-" + g.vector(depth-1)
	default:
		if g.r.Chance(0.5) {
			// info(): selects its info series from storage in the middle of the evaluation
			return "info(" + g.vector(depth-1) + g.pick("", `, {ver=~".+"}`, `, {__name__="target_info"}`) + ")"
		}
		return g.pick("sort_by_label", "sort_by_label_desc") + "(" + g.vector(depth-1) + `, "job")`
	}
}

func (g *qgen) top(depth int) string {
	switch x := g.r.Intn(20); {
	case x == 0:
		return g.scalar(depth)
	case x <= 2 && !g.rangeQ:
		m := g.matrix(depth-1, "") // a range vector is a legal instant query
		if g.r.Chance(0.4) && !strings.Contains(m, ":") && !strings.Contains(m, "anchored") && !strings.Contains(m, "smoothed") {
			// extended range selector on a top-level range vector (its own evaluation path)
			m = strings.Replace(m, "]", "] "+g.pick("anchored", "smoothed"), 1)
		}
		return m
	default:
		return g.vector(depth)
	}
}

// Generate derives the plan of one run from its seed.
func Generate(prop, tier string, seed uint64) *Plan {
	rc := prng.New(prng.DeriveS(seed, "config"))
	p := &Plan{}
	c := &p.Cfg
	c.Seed = seed
	nq := rc.Range(2, 6)
	var starve []string
	for i := 1; i <= nq; i++ {
		starve = append(starve, fmt.Sprintf("q#%d", i))
	}
	c.Pol = sched.DrawPolicy(rc, starve)
	c.SchedSeed = prng.DeriveS(seed, "sched")
	c.LookbackMs = []int64{300000, 300000, 60000, 20000}[rc.Intn(4)]
	c.DelayedName = rc.Chance(0.5)
	c.PerStep = rc.Chance(0.2)
	c.MaxSamples = 50000000
	if rc.Chance(0.08) {
		c.MaxSamples = rc.Range(20, 400)
	}
	c.YieldEvery = []int{1, 1, 2, 3, 7}[rc.Intn(5)]
	if rc.Chance(0.2) {
		c.Tracker = rc.Range(1, 3)
	}

	rd := prng.New(prng.DeriveS(seed, "data"))
	var span int64
	p.Data, span = genData(rd)

	var present []string
	seenName := map[string]bool{}
	for _, sd := range p.Data {
		for i := 0; i+1 < len(sd.L); i += 2 {
			if sd.L[i] == "__name__" && !seenName[sd.L[i+1]] {
				seenName[sd.L[i+1]] = true
				present = append(present, sd.L[i+1])
			}
		}
	}
	rq := prng.New(prng.DeriveS(seed, "queries"))
	for i := 1; i <= nq; i++ {
		q := Query{ID: i}
		q.Range = rq.Chance(0.45)
		g := &qgen{r: rq, rangeQ: q.Range, present: present}
		for k := 0; k < 3; k++ {
			g.at = append(g.at, fmt.Sprintf("%d.%03d", (t0+rq.Int63n(span))/1000, rq.Intn(1000)))
		}
		depth := rq.Range(1, 3)
		q.Q = g.top(depth)
		q.Start = t0 + span/4 + rq.Int63n(span)
		if q.Range {
			q.Step = []int64{15000, 30000, 60000, 97000, 1000}[rq.Intn(5)]
			steps := int64(rq.Range(1, 24))
			if q.Step == 1000 {
				steps = int64(rq.Range(5, 60))
			}
			q.End = q.Start + q.Step*steps
		}
		q.Hold = rq.Intn(4)
		if rq.Chance(0.12) {
			q.LB = []int64{30000, 120000, 600000}[rq.Intn(3)] // this query's own lookback delta
		}
		p.Queries = append(p.Queries, q)
	}

	rf := prng.New(prng.DeriveS(seed, "faults"))
	if !rf.Chance(0.45) { // 45% of the runs are fault-free: the strict oracle applies to every query
		for _, q := range p.Queries {
			if !rf.Chance(0.5) {
				continue
			}
			f := Fault{Q: q.ID, Kind: []string{"err", "err", "err", "cancel", "cancel", "timeout"}[rf.Intn(6)]}
			switch rf.Pick([]int{5, 15, 30, 50}) {
			case 0:
				f.Point = "querier"
			case 1:
				f.Point = "select"
				f.N = rf.Intn(2)
			case 2:
				f.Point = "next"
				f.N = rf.Intn(2)*1000 + rf.Intn(5)
			default:
				f.Point = "iter"
				f.N = rf.Intn(120)
				if rf.Chance(0.5) {
					f.N = rf.Intn(12)
				}
			}
			p.Faults = append(p.Faults, f)
		}
	}
	return p
}

// Shrink returns simpler candidate plans.
func Shrink(p *Plan) []*Plan {
	var out []*Plan
	add := func(f func(q *Plan) bool) {
		q := p.clone()
		if f(q) {
			out = append(out, q)
		}
	}
	if !p.Cfg.UseReplay && len(p.lastChoices) > 0 {
		add(func(q *Plan) bool {
			q.Cfg.UseReplay, q.Cfg.Replay = true, append([]int{}, p.lastChoices...)
			return true
		})
	}
	// drop queries (keep at least one)
	if len(p.Queries) > 1 {
		for i := range p.Queries {
			i := i
			add(func(q *Plan) bool {
				id := q.Queries[i].ID
				q.Queries = append(q.Queries[:i], q.Queries[i+1:]...)
				var fs []Fault
				for _, f := range q.Faults {
					if f.Q != id {
						fs = append(fs, f)
					}
				}
				q.Faults = fs
				return true
			})
		}
	}
	for i := range p.Faults {
		i := i
		add(func(q *Plan) bool { q.Faults = append(q.Faults[:i], q.Faults[i+1:]...); return true })
	}
	// drop series, halve sample lists
	if len(p.Data) > 1 {
		for i := range p.Data {
			i := i
			add(func(q *Plan) bool { q.Data = append(q.Data[:i], q.Data[i+1:]...); return true })
		}
	}
	for i := range p.Data {
		i := i
		if n := len(p.Data[i].Sm); n > 2 {
			add(func(q *Plan) bool { q.Data[i].Sm = q.Data[i].Sm[:n/2]; return true })
			add(func(q *Plan) bool { q.Data[i].Sm = q.Data[i].Sm[n/2:]; return true })
		}
	}
	// range query -> fewer steps
	for i, qu := range p.Queries {
		i := i
		if qu.Range && qu.End-qu.Start > qu.Step {
			add(func(q *Plan) bool {
				steps := (q.Queries[i].End - q.Queries[i].Start) / q.Queries[i].Step
				q.Queries[i].End = q.Queries[i].Start + q.Queries[i].Step*(steps/2)
				return true
			})
		}
		if qu.Hold > 0 {
			add(func(q *Plan) bool { q.Queries[i].Hold = 0; return true })
		}
	}
	add(func(q *Plan) bool { v := q.Cfg.PerStep; q.Cfg.PerStep = false; return v })
	add(func(q *Plan) bool { v := q.Cfg.Tracker != 0; q.Cfg.Tracker = 0; return v })
	add(func(q *Plan) bool { v := q.Cfg.YieldEvery != 1; q.Cfg.YieldEvery = 1; return v })
	if l := len(p.Cfg.Replay); l > 0 && p.Cfg.UseReplay {
		add(func(q *Plan) bool { q.Cfg.Replay = q.Cfg.Replay[:l/2]; return true })
		add(func(q *Plan) bool { q.Cfg.Replay = q.Cfg.Replay[:l*3/4]; return true })
		add(func(q *Plan) bool { q.Cfg.Replay = q.Cfg.Replay[:l-1]; return true })
	}
	return out
}
