package sdsim

import (
	"context"
	"errors"
	"fmt"
	"os"
	"runtime"
	"sort"
	"strconv"
	"strings"
	"sync"
	"testing"
	"testing/synctest"
	"time"

	"github.com/prometheus/client_golang/prometheus"
	"github.com/prometheus/common/model"

	"github.com/prometheus/prometheus/discovery"
	"github.com/prometheus/prometheus/discovery/targetgroup"
	"github.com/prometheus/prometheus/util/simhook"

	"verif/sim/core/runner"
	"verif/sim/core/sched"
)

var debugOn = os.Getenv("VERIF_DEBUG") != ""

// ---------------------------------------------------------------------------------------------
// simhook.Simulator

type hookT struct {
	mu sync.Mutex
	w  *world
}

var theHook = &hookT{}

func init() { simhook.Install(theHook) }

func (h *hookT) cur() *world {
	h.mu.Lock()
	defer h.mu.Unlock()
	return h.w
}

func (h *hookT) set(w *world) {
	h.mu.Lock()
	h.w = w
	h.mu.Unlock()
}

func (h *hookT) Yield(site string, keys ...int) {
	if w := h.cur(); w != nil {
		w.sch.Yield(site, keys...)
	}
}

func (h *hookT) Acquire(name string, excl bool) {
	if w := h.cur(); w != nil {
		w.sch.Acquire(name, excl)
	}
}

func (h *hookT) Release(name string, excl bool) {
	if w := h.cur(); w != nil {
		w.sch.Release(name, excl)
	}
}
func (h *hookT) Event(string, ...any)           {}
func (h *hookT) IO(string, string, string, int) {}
func (h *hookT) ID16(b [16]byte) [16]byte       { return b }

// ---------------------------------------------------------------------------------------------
// simulated discoverers, registered through the normal discovery.Config path

// simConfig is the discovery.Config of a simulated provider. Two values are reflect.DeepEqual iff they
// have the same ID (W is the same pointer within a run), which is what the manager uses to keep a provider
// across reloads.
type simConfig struct {
	ID int
	W  *world
}

func (c simConfig) Name() string { return "sim" }

func (c simConfig) NewDiscoverer(discovery.DiscovererOptions) (discovery.Discoverer, error) {
	return c.W.newInstance(c.ID)
}

func (c simConfig) NewDiscovererMetrics(prometheus.Registerer, discovery.RefreshMetricsInstantiator) discovery.DiscovererMetrics {
	return &discovery.NoopDiscovererMetrics{}
}

type gstate struct {
	ver int
	n   int
}

// instance is one discoverer instance (from NewDiscoverer to its cancellation).
type instance struct {
	w    *world
	id   int
	inst int
	// reference state: the latest non-empty group per source (the fold of what this instance sent)
	state map[string]gstate
	// every (src -> ver -> n) this instance ever sent, for the snapshot-sanity oracle
	sent      map[string]map[int]int
	cancelled bool
	idle      bool // script exhausted (or channel closed): this instance sends nothing any more
	started   bool
}

func (in *instance) name() string { return fmt.Sprintf("prov:%d#%d", in.id, in.inst) }

func (w *world) newInstance(id int) (discovery.Discoverer, error) {
	w.mu.Lock()
	defer w.mu.Unlock()
	if w.plan.Provs[id].FailNew {
		w.res.Count("fault:provider-instantiation-failed", 1)
		return nil, errors.New("simulated: cannot create discoverer")
	}
	in := &instance{w: w, id: id, inst: w.instCount[id], state: map[string]gstate{}, sent: map[string]map[int]int{}}
	w.instCount[id]++
	w.created = append(w.created, in)
	if in.inst > 0 {
		w.res.Count("fault:provider-restart", 1)
		w.feat["provider-readded"] = true
	}
	return in, nil
}

// Run is the simulated discoverer: it follows the script of its provider config.
func (in *instance) Run(ctx context.Context, up chan<- []*targetgroup.Group) {
	w := in.w
	id := in.name()
	w.mu.Lock()
	in.started = true
	w.mu.Unlock()
	w.sch.Yield(id)
	for {
		w.mu.Lock()
		cur := w.cursor[in.id]
		steps := w.plan.Provs[in.id].Steps
		if cur >= len(steps) || in.cancelled {
			in.idle = true
			w.mu.Unlock()
			break
		}
		st := steps[cur]
		w.mu.Unlock()
		// wait (cancellation has priority; never leave a choice between two ready cases to the runtime)
		select {
		case <-ctx.Done():
			w.markIdle(in)
			return
		default:
		}
		if st.DelayMs > 0 {
			tm := time.NewTimer(time.Duration(st.DelayMs) * time.Millisecond)
			select {
			case <-tm.C:
			case <-ctx.Done():
				tm.Stop()
			}
			w.sch.Yield(id)
			select {
			case <-ctx.Done():
				w.markIdle(in)
				return
			default:
			}
		}
		if st.Close {
			w.mu.Lock()
			w.cursor[in.id]++
			in.idle = true
			w.res.Count("provider_closed_channel", 1)
			w.mu.Unlock()
			close(up)
			<-ctx.Done()
			w.sch.Yield(id)
			return
		}
		// build the update; versions are unique per run, so a delivered group names the update it came from
		w.mu.Lock()
		var tgs []*targetgroup.Group
		type rec struct {
			src    string
			ver, n int
		}
		var recs []rec
		for _, g := range st.Groups {
			if g.Nil {
				tgs = append(tgs, nil)
				w.feat["nil-group"] = true
				continue
			}
			w.verCtr++
			ver := w.verCtr
			tg := &targetgroup.Group{Source: g.Src, Labels: model.LabelSet{
				"prov": model.LabelValue(strconv.Itoa(in.id)), "inst": model.LabelValue(strconv.Itoa(in.inst)), "ver": model.LabelValue(strconv.Itoa(ver))}}
			for k := 0; k < g.N; k++ {
				tg.Targets = append(tg.Targets, model.LabelSet{model.AddressLabel: model.LabelValue(fmt.Sprintf("p%di%d-%s-v%d-%d:80", in.id, in.inst, g.Src, ver, k))})
			}
			tgs = append(tgs, tg)
			recs = append(recs, rec{g.Src, ver, g.N})
		}
		w.mu.Unlock()
		sent := false
		select {
		case up <- tgs:
			sent = true
		case <-ctx.Done():
		}
		if sent {
			// the update is part of the history from the moment the manager took it
			w.mu.Lock()
			w.checkpoint("the next update is accepted")
			w.cursor[in.id]++
			for _, r := range recs {
				if in.sent[r.src] == nil {
					in.sent[r.src] = map[int]int{}
				}
				in.sent[r.src][r.ver] = r.n
				if r.n > 0 {
					in.state[r.src] = gstate{ver: r.ver, n: r.n}
				} else {
					if _, ok := in.state[r.src]; ok {
						w.feat["source-removed"] = true
					}
					delete(in.state, r.src)
					w.res.Count("empty_groups_sent", 1)
				}
			}
			w.res.Count("updates_sent", 1)
			w.lastUpdateAt = time.Now()
			w.mu.Unlock()
		}
		w.sch.Yield(id)
		if !sent {
			w.markIdle(in)
			return
		}
	}
	<-ctx.Done()
	w.sch.Yield(id)
}

func (w *world) markIdle(in *instance) {
	w.mu.Lock()
	in.idle = true
	w.mu.Unlock()
}

// ---------------------------------------------------------------------------------------------

type gkey struct {
	job      string
	id, inst int
	src      string
}

type world struct {
	mu   sync.Mutex
	prop string
	plan *Plan
	res  *runner.Result
	sch  *sched.Sched
	t0   time.Time
	u    time.Duration

	mgr    *discovery.Manager
	cancel context.CancelFunc

	instCount map[int]int
	cursor    map[int]int
	created   []*instance
	liveInst  map[int]*instance // provider id -> running instance (reference view, updated when ApplyConfig returns)
	curCfg    int
	verCtr    int

	cfgDone        bool
	lastUpdateAt   time.Time
	finalPhase     bool
	inRecv         bool
	t1             time.Time
	t1set          bool
	deliveries     int
	lastMap        map[string][]*targetgroup.Group
	lastAt         time.Time
	lastVer        map[gkey]int
	afterT1        int
	contSince      time.Time // since when the consumer has been reading without staying away from the channel
	contOK         bool
	checkpoints    int
	failedDelivery bool

	feat map[string]bool
}

func (w *world) violate(oracle, sig, format string, a ...any) {
	w.res.Violate(w.prop, oracle, sig, format, a...)
	if debugOn {
		fmt.Printf("VIOL %s/%s: %s\n", oracle, sig, fmt.Sprintf(format, a...))
	}
}

func sortedJobs(m map[string][]*targetgroup.Group) []string {
	ks := make([]string, 0, len(m))
	for k := range m {
		ks = append(ks, k)
	}
	sort.Strings(ks)
	return ks
}

// describe renders a delivered map canonically: job -> sorted list of "p<id>i<inst>/<src>@v<ver>x<n>".
func describe(m map[string][]*targetgroup.Group) string {
	var sb strings.Builder
	for _, j := range sortedJobs(m) {
		var gs []string
		for _, g := range m[j] {
			if g == nil {
				gs = append(gs, "nil")
				continue
			}
			gs = append(gs, fmt.Sprintf("p%si%s/%s@v%sx%d", g.Labels["prov"], g.Labels["inst"], g.Source, g.Labels["ver"], len(g.Targets)))
		}
		sort.Strings(gs)
		fmt.Fprintf(&sb, "%s:[%s] ", j, strings.Join(gs, " "))
	}
	return strings.TrimSpace(sb.String())
}

// expected is the reference fold of the statement: for every job of the configuration in force, the latest
// non-empty group of every source of every provider serving the job; jobs without targets present and empty.
func (w *world) expected() map[string][]string {
	exp := map[string][]string{}
	for _, j := range w.plan.Cfgs[w.curCfg].Jobs {
		if _, ok := exp[j.Job]; !ok {
			exp[j.Job] = []string{}
		}
		seen := map[int]bool{}
		for _, id := range j.Provs {
			if seen[id] {
				continue
			}
			seen[id] = true
			in := w.liveInst[id]
			if in == nil {
				continue // failed to instantiate
			}
			for src, st := range in.state {
				exp[j.Job] = append(exp[j.Job], fmt.Sprintf("p%di%d/%s@v%dx%d", in.id, in.inst, src, st.ver, st.n))
			}
		}
		sort.Strings(exp[j.Job])
	}
	return exp
}

func renderExp(exp map[string][]string) string {
	ks := make([]string, 0, len(exp))
	for k := range exp {
		ks = append(ks, k)
	}
	sort.Strings(ks)
	var sb strings.Builder
	for _, j := range ks {
		fmt.Fprintf(&sb, "%s:[%s] ", j, strings.Join(exp[j], " "))
	}
	return strings.TrimSpace(sb.String())
}

// onDelivery: the consumer received a map (w.mu held). Snapshot sanity: every group is one that a provider
// really sent, for a job, at most once per (job, provider instance, source), and versions never go back.
func (w *world) onDelivery(m map[string][]*targetgroup.Group) {
	w.deliveries++
	w.res.Evals++
	w.lastMap = m
	w.lastAt = time.Now()
	if w.t1set {
		w.afterT1++
	}
	seen := map[gkey]bool{}
	for _, job := range sortedJobs(m) {
		for _, g := range m[job] {
			if g == nil {
				w.violate("snapshot", "nil-group-delivered", "job %s: a nil group was delivered", job)
				continue
			}
			id, e1 := strconv.Atoi(string(g.Labels["prov"]))
			inst, e2 := strconv.Atoi(string(g.Labels["inst"]))
			ver, e3 := strconv.Atoi(string(g.Labels["ver"]))
			if e1 != nil || e2 != nil || e3 != nil {
				w.violate("snapshot", "foreign-group-delivered", "job %s: group %q with labels %v was never sent by a simulated provider", job, g.Source, g.Labels)
				continue
			}
			var in *instance
			for _, c := range w.created {
				if c.id == id && c.inst == inst {
					in = c
				}
			}
			if in == nil {
				w.violate("snapshot", "foreign-group-delivered", "job %s: group of unknown provider instance p%di%d", job, id, inst)
				continue
			}
			n, ok := in.sent[g.Source][ver]
			// the group may be one whose send is completing right now (taken by the manager, not yet recorded): not possible,
			// a delivery needs a sender step after the updater step, both after the provider's own step.
			if !ok {
				w.violate("snapshot", "group-version-never-sent", "job %s: p%di%d source %s version %d was never sent", job, id, inst, g.Source, ver)
				continue
			}
			if n != len(g.Targets) || n == 0 {
				w.violate("snapshot", "group-content-differs", "job %s: p%di%d source %s version %d delivered with %d targets, sent with %d", job, id, inst, g.Source, ver, len(g.Targets), n)
			}
			k := gkey{job, id, inst, g.Source}
			if seen[k] {
				w.violate("snapshot", "source-delivered-twice", "job %s: source %s of p%di%d appears twice in one delivery: %s", job, g.Source, id, inst, describe(m))
			}
			seen[k] = true
			if last, ok := w.lastVer[k]; ok && ver < last {
				w.violate("snapshot", "older-group-after-newer", "job %s: source %s of p%di%d went back from version %d to %d", job, g.Source, id, inst, last, ver)
			}
			w.lastVer[k] = ver
		}
	}
}

// checkpoint evaluates the statement at the end of a quiet interval in the middle of a run (w.mu held):
// if for the last boundFactor x updatert no update was accepted and no reload ran, and the consumer read
// continuously all that time, the last map it received must already equal the fold of the history so far.
// It is called right before the next history change / consumer absence takes effect.
func (w *world) checkpoint(reason string) {
	if !w.contOK || w.deliveries == 0 && w.lastUpdateAt.IsZero() {
		return
	}
	since := w.lastUpdateAt
	if w.contSince.After(since) {
		since = w.contSince
	}
	if time.Since(since) < boundFactor*w.u {
		return
	}
	w.checkpoints++
	w.res.Evals++
	w.res.Count("quiet_interval_checks", 1)
	exp := w.expected()
	if w.lastMap == nil {
		w.violate("convergence", "nothing-delivered", "no target map delivered %v after the last update (checked before %s); expected %s", time.Since(since), reason, renderExp(exp))
		return
	}
	w.compare(exp, w.lastMap)
}

func (w *world) consumer() {
	ch := w.mgr.SyncCh()
	i := 0
	for {
		w.mu.Lock()
		w.inRecv = true
		if !w.contOK {
			w.contOK, w.contSince = true, time.Now()
		}
		if w.finalPhase && !w.t1set {
			w.t1set, w.t1 = true, time.Now()
		}
		w.mu.Unlock()
		m, ok := <-ch
		w.mu.Lock()
		w.inRecv = false
		w.mu.Unlock()
		w.sch.Yield("consumer")
		if !ok {
			return
		}
		w.mu.Lock()
		w.onDelivery(m)
		final := w.finalPhase
		d := 0
		if !final && i < len(w.plan.ReadDelays) {
			d = w.plan.ReadDelays[i]
		}
		i++
		if d > 0 {
			w.checkpoint("the consumer stays away from the channel")
			w.contOK = false
			w.res.Count("fault:slow-consumer", 1)
			if time.Duration(d)*time.Millisecond >= 2*w.u {
				w.res.Count("consumer_stalls", 1)
				w.feat["consumer-stall"] = true
			}
		}
		w.mu.Unlock()
		if d > 0 {
			time.Sleep(time.Duration(d) * time.Millisecond)
			w.sch.Yield("consumer")
		}
	}
}

func (w *world) cfgTask() {
	for _, op := range w.plan.CfgOps {
		switch op.K {
		case "sleep":
			if op.Ms > 0 {
				time.Sleep(time.Duration(op.Ms) * time.Millisecond)
			}
			w.sch.Yield("cfg")
		case "cfg":
			w.applyConfig(op.Cfg)
			w.sch.Yield("cfg")
		default:
			panic("harness: unknown op " + op.K)
		}
	}
	w.mu.Lock()
	w.cfgDone = true
	w.mu.Unlock()
}

func (w *world) applyConfig(v int) {
	cfg := map[string]discovery.Configs{}
	for _, j := range w.plan.Cfgs[v].Jobs {
		cs := discovery.Configs{}
		for _, id := range j.Provs {
			cs = append(cs, simConfig{ID: id, W: w})
		}
		cfg[j.Job] = cs
	}
	w.mu.Lock()
	w.checkpoint("the next reload starts")
	nBefore := len(w.created)
	w.mu.Unlock()
	if err := w.mgr.ApplyConfig(cfg); err != nil {
		panic("harness: ApplyConfig: " + err.Error())
	}
	// reference view of the provider set after the reload: kept if still referenced, cancelled otherwise,
	// the instances created during this ApplyConfig are the new ones
	w.mu.Lock()
	defer w.mu.Unlock()
	if v > 0 {
		w.res.Count("fault:config-reload", 1)
		w.feat["config-reload"] = true
	}
	ref := map[int]bool{}
	for _, j := range w.plan.Cfgs[v].Jobs {
		for _, id := range j.Provs {
			ref[id] = true
		}
	}
	for _, id := range sortedInts(w.liveInst) {
		if !ref[id] {
			w.liveInst[id].cancelled = true
			delete(w.liveInst, id)
			w.res.Count("providers_removed", 1)
			w.feat["provider-removed"] = true
		} else {
			w.res.Count("providers_kept", 1)
		}
	}
	for _, in := range w.created[nBefore:] {
		if w.liveInst[in.id] != nil {
			w.violate("model", "second-instance-of-running-provider", "a second discoverer was created for provider config %d while one is running", in.id)
		}
		w.liveInst[in.id] = in
		w.res.Count("providers_added", 1)
	}
	w.curCfg = v
	w.lastUpdateAt = time.Now()
}

func sortedInts(m map[int]*instance) []int {
	ks := make([]int, 0, len(m))
	for k := range m {
		ks = append(ks, k)
	}
	sort.Ints(ks)
	return ks
}

// updatesStopped: the reload task is done and no running provider instance has anything left to send.
func (w *world) updatesStopped() bool {
	if !w.cfgDone {
		return false
	}
	for _, id := range sortedInts(w.liveInst) {
		in := w.liveInst[id]
		if !in.idle {
			return false
		}
	}
	return true
}

const boundFactor = 5 // liveness bound = boundFactor x updatert after updates stopped and the consumer reads continuously

func (w *world) controller(runDone chan struct{}) {
	// wait until updates have stopped
	for i := 0; ; i++ {
		w.mu.Lock()
		st := w.updatesStopped()
		w.mu.Unlock()
		if st {
			break
		}
		if i > 100000 {
			panic("harness: updates never stop")
		}
		time.Sleep(w.u / 2)
		w.sch.Yield("ctl")
	}
	// faults stop: the consumer reads continuously from now on (after the wait it may be in right now)
	w.mu.Lock()
	w.finalPhase = true
	if w.inRecv && !w.t1set {
		w.t1set, w.t1 = true, time.Now()
	}
	w.mu.Unlock()
	for i := 0; ; i++ {
		w.mu.Lock()
		ok := w.t1set
		w.mu.Unlock()
		if ok {
			break
		}
		if i > 100000 {
			panic("harness: consumer never returns to the channel")
		}
		time.Sleep(w.u / 2)
		w.sch.Yield("ctl")
	}
	w.mu.Lock()
	wait := time.Until(w.t1.Add(boundFactor * w.u))
	w.mu.Unlock()
	if wait > 0 {
		time.Sleep(wait)
	}
	w.sch.Yield("ctl")

	// the oracle of the statement
	w.mu.Lock()
	w.res.Evals++
	exp := w.expected()
	if w.lastMap == nil {
		w.violate("convergence", "nothing-delivered", "no target map was ever delivered although the consumer read continuously for %v after updates stopped; expected %s", boundFactor*w.u, renderExp(exp))
	} else {
		w.compare(exp, w.lastMap)
	}
	w.mu.Unlock()

	// shut down
	w.cancel()
	tm := time.NewTimer(time.Hour)
	select {
	case <-runDone:
		tm.Stop()
	case <-tm.C:
		panic("harness: discovery.Manager.Run did not return after its context was cancelled")
	}
	w.sch.Yield("ctl")
}

func (w *world) compare(exp map[string][]string, got map[string][]*targetgroup.Group) {
	gotS := map[string][]string{}
	for j, gs := range got {
		l := []string{}
		for _, g := range gs {
			if g == nil {
				l = append(l, "nil")
				continue
			}
			l = append(l, fmt.Sprintf("p%si%s/%s@v%sx%d", g.Labels["prov"], g.Labels["inst"], g.Source, g.Labels["ver"], len(g.Targets)))
		}
		sort.Strings(l)
		gotS[j] = l
	}
	head := fmt.Sprintf("last delivered map (at +%v, %d deliveries, %d after the consumer started reading continuously at +%v; last update/reload at +%v; checked at +%v)",
		w.lastAt.Sub(w.t0), w.deliveries, w.afterT1, w.t1.Sub(w.t0), w.lastUpdateAt.Sub(w.t0), time.Since(w.t0))
	var sigs []string
	var details []string
	jobs := map[string]bool{}
	for j := range exp {
		jobs[j] = true
	}
	for j := range gotS {
		jobs[j] = true
	}
	js := make([]string, 0, len(jobs))
	for j := range jobs {
		js = append(js, j)
	}
	sort.Strings(js)
	for _, j := range js {
		e, eok := exp[j]
		g, gok := gotS[j]
		switch {
		case !gok:
			sigs = append(sigs, "configured-job-missing")
			details = append(details, fmt.Sprintf("job %s is configured but absent from the map", j))
			continue
		case !eok:
			sigs = append(sigs, "removed-job-still-delivered")
			details = append(details, fmt.Sprintf("job %s is not configured any more but delivered with %v", j, g))
			continue
		}
		es, gset := map[string]bool{}, map[string]bool{}
		for _, x := range e {
			es[x] = true
		}
		for _, x := range g {
			gset[x] = true
		}
		for _, x := range e {
			if !gset[x] {
				// is an older version of that source there instead?
				pre := x[:strings.Index(x, "@")]
				stale := false
				for _, y := range g {
					if strings.HasPrefix(y, pre+"@") {
						stale = true
					}
				}
				if stale {
					sigs = append(sigs, "stale-group-version")
				} else {
					sigs = append(sigs, "latest-group-missing")
				}
				details = append(details, fmt.Sprintf("job %s lacks %s", j, x))
			}
		}
		for _, y := range g {
			if !es[y] {
				pre := y[:strings.Index(y+"@", "@")]
				replaced := false
				for _, x := range e {
					if strings.HasPrefix(x, pre+"@") {
						replaced = true
					}
				}
				if !replaced {
					sigs = append(sigs, "emptied-or-removed-source-still-delivered")
					details = append(details, fmt.Sprintf("job %s still has %s", j, y))
				}
			}
		}
	}
	if len(sigs) == 0 {
		return
	}
	// signature = the most specific kind of difference present (keeps minimisation focused)
	sig := ""
	for _, k := range []string{"stale-group-version", "latest-group-missing", "emptied-or-removed-source-still-delivered", "removed-job-still-delivered", "configured-job-missing"} {
		for _, s := range sigs {
			if s == k && sig == "" {
				sig = k
			}
		}
	}
	w.violate("convergence", sig, "%s differs from the fold of the update history: %s\n delivered: %s\n expected:  %s",
		head, strings.Join(details, "; "), describe(got), renderExp(exp))
}

// Execute runs one plan inside the caller's synctest bubble.
func Execute(t *testing.T, prop string, plan *Plan) (res *runner.Result) {
	res = &runner.Result{Counters: map[string]int64{}}
	c := plan.Cfg
	w := &world{prop: prop, plan: plan, res: res, t0: time.Now(), u: time.Duration(c.UpdatertMs) * time.Millisecond,
		instCount: map[int]int{}, cursor: map[int]int{}, liveInst: map[int]*instance{}, lastVer: map[gkey]int{}, feat: map[string]bool{}}
	for i, p := range plan.Provs {
		if p.ID != i {
			panic("harness: provider ids must be 0..n-1 in order")
		}
	}
	w.sch = sched.New(c.SchedSeed, sched.Policy{Kind: c.Pol.Kind, Stick: c.Pol.Stick, Starve: c.Pol.Starve, StarveSteps: c.Pol.StarveSteps, PCTDepth: c.Pol.PCTDepth})
	if c.Choices != nil {
		w.sch.Replay = c.Choices
	}
	w.sch.MaxSteps = 400000
	w.sch.Idle = 1000 * time.Hour
	theHook.set(w)
	defer theHook.set(nil)

	ctx, cancel := context.WithCancel(context.Background())
	w.cancel = cancel
	reg := prometheus.NewRegistry()
	sdm := &discovery.SDMetrics{RefreshManager: discovery.NewRefreshMetrics(reg), MechanismMetrics: map[string]discovery.DiscovererMetrics{}}
	w.mgr = discovery.NewManager(ctx, nil, reg, sdm, discovery.Updatert(w.u), discovery.Name("sim"))
	if w.mgr == nil {
		panic("harness: discovery.NewManager returned nil")
	}
	runDone := make(chan struct{})
	go func() {
		_ = w.mgr.Run()
		close(runDone)
	}()
	w.sch.Go("cfg", w.cfgTask)
	w.sch.Go("consumer", w.consumer)
	w.sch.Go("ctl", func() { w.controller(runDone) })
	if debugOn {
		w.sch.KeepTrace = true
		fmt.Printf("PLAN %s\n", plan.String())
	}
	err := w.sch.Run(nil)
	steps := w.sch.Steps()
	if debugOn {
		fmt.Printf("TRACE %s\n", strings.Join(w.sch.Trace, " "))
		if err != nil {
			buf := make([]byte, 1<<20)
			fmt.Printf("STALL %v\n%s\n", err, buf[:runtime.Stack(buf, true)])
		}
	}
	w.sch.Stop()
	if err != nil {
		panic("harness: scheduler: " + err.Error())
	}
	if steps >= w.sch.MaxSteps {
		panic("harness: scheduler step cap reached")
	}
	synctest.Wait()

	w.mu.Lock()
	defer w.mu.Unlock()
	res.SimTimeMs = time.Since(w.t0).Milliseconds()
	res.Count("sched_steps", int64(steps))
	res.Count("deliveries", int64(w.deliveries))
	if mfs, err := reg.Gather(); err == nil {
		for _, mf := range mfs {
			if mf.GetName() == "prometheus_sd_updates_delayed_total" {
				for _, m := range mf.Metric {
					// the sender found the consumer away from SyncCh and re-armed its trigger
					res.Count("delayed_sends", int64(m.GetCounter().GetValue()))
				}
			}
		}
	}
	nf := 0
	for _, f := range []string{"config-reload", "consumer-stall", "source-removed", "provider-removed", "provider-readded"} {
		if w.feat[f] {
			nf++
		}
	}
	feats := make([]string, 0, len(w.feat))
	for f := range w.feat {
		feats = append(feats, f)
	}
	sort.Strings(feats)
	final := ""
	if w.lastMap != nil {
		final = describe(w.lastMap)
	}
	res.NonTrivial = w.deliveries >= 2 && nf >= 2
	res.Key = fmt.Sprintf("%016x|%s", w.sch.TraceHash(), final)
	res.Trace = fmt.Sprintf("%016x|%d|%s|viol=%d", w.sch.TraceHash(), w.deliveries, final, len(res.Violations))
	res.Sample = map[string]any{
		"updatert_ms": c.UpdatertMs, "policy": c.Pol.Kind, "providers": len(plan.Provs), "config_versions": len(plan.Cfgs),
		"read_delays_ms": plan.ReadDelays, "deliveries": w.deliveries, "provider_instances": len(w.created),
		"features": feats, "final_map": final, "sched_steps": steps, "sim_ms": res.SimTimeMs,
	}
	return res
}
