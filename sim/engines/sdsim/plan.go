// Package sdsim is engine E5/sdsim: the real discovery.Manager (ApplyConfig, provider registration,
// updater goroutines, throttled sender, allGroups, cleaner) with simulated Discoverers registered through
// the normal discovery.Config path and a simulated, possibly slow consumer of SyncCh, every goroutine
// scheduled by core/sched inside one synctest bubble. It decides property C47.
package sdsim

import (
	"encoding/json"
	"fmt"
	"sort"

	"verif/sim/core/prng"
	"verif/sim/core/sched"
)

// Policy mirrors sched.Policy (JSON-able).
type Policy struct {
	Kind        string  `json:"kind"`
	Stick       float64 `json:"stick,omitempty"`
	Starve      string  `json:"starve,omitempty"`
	StarveSteps int     `json:"starve_steps,omitempty"`
	PCTDepth    int     `json:"pct_depth,omitempty"`
}

// Config is the swarm configuration of one run.
type Config struct {
	Seed       uint64 `json:"seed"`
	SchedSeed  uint64 `json:"sched_seed"`
	Pol        Policy `json:"policy"`
	UpdatertMs int    `json:"updatert_ms"`       // the manager's update throttle (discovery.Updatert)
	Choices    []int  `json:"choices,omitempty"` // replaces the seeded scheduler choices if non-nil
}

// GroupSpec is one target group of an update. N == 0 is an empty group (the source is emptied / removed),
// Nil is a nil *targetgroup.Group (some discoverers send those).
type GroupSpec struct {
	Src string `json:"src"`
	N   int    `json:"n"`
	Nil bool   `json:"nil,omitempty"`
}

// Step is one action of a simulated discoverer: wait DelayMs, then send Groups on the update channel
// (or, with Close, close the channel and send nothing ever again, like the static discoverer does).
type Step struct {
	DelayMs int         `json:"delay_ms,omitempty"`
	Groups  []GroupSpec `json:"groups,omitempty"`
	Close   bool        `json:"close,omitempty"`
}

// Provider is the script of one provider configuration (one discovery.Config value). Successive
// instances of it (after it was removed and added again by reloads) continue the script where the
// previous instance stopped.
type Provider struct {
	ID      int    `json:"id"`
	Steps   []Step `json:"steps"`
	FailNew bool   `json:"fail_new,omitempty"` // NewDiscoverer returns an error (the config fails to instantiate)
}

// JobCfg is one target set ("job") of a configuration: the provider configs serving it (none = the
// manager registers its own empty static provider).
type JobCfg struct {
	Job   string `json:"job"`
	Provs []int  `json:"provs"`
}

// CfgVersion is one argument of Manager.ApplyConfig.
type CfgVersion struct {
	Jobs []JobCfg `json:"jobs"`
}

// Op of the configuration task: "cfg" (ApplyConfig(Cfgs[Cfg])) or "sleep".
type Op struct {
	K   string `json:"k"`
	Ms  int    `json:"ms,omitempty"`
	Cfg int    `json:"cfg,omitempty"`
}

// Plan = config + config versions + reload task + provider scripts + consumer behaviour.
type Plan struct {
	Cfg    Config       `json:"cfg"`
	Cfgs   []CfgVersion `json:"cfgs"`
	CfgOps []Op         `json:"cfg_ops"`
	Provs  []Provider   `json:"provs"`
	// ReadDelays[i] is how long the consumer stays away from SyncCh after its i-th receive (ms; 0 = reads
	// again at once). After the list is used up, and in any case once all updates have stopped, it reads continuously.
	ReadDelays []int `json:"read_delays"`
}

func (p *Plan) String() string {
	b, _ := json.Marshal(p)
	return string(b)
}

const staticEmpty = -1 // pseudo provider id of the manager's own StaticConfig{{}} provider

// creations lists what registerProviders would newly create for job j (staticEmpty = the manager's own
// empty static provider), given the providers that are running.
func creations(j JobCfg, live, fail map[int]bool) []int {
	var out []int
	added := false
	seen := map[int]bool{}
	for _, id := range j.Provs {
		switch {
		case live[id]:
			added = true
		case fail[id]:
		default:
			added = true
			if !seen[id] {
				seen[id] = true
				out = append(out, id)
			}
		}
	}
	if !added && !live[staticEmpty] {
		out = append(out, staticEmpty)
	}
	return out
}

func liveAfter(v CfgVersion, fail map[int]bool) map[int]bool {
	l := map[int]bool{}
	for _, j := range v.Jobs {
		added := false
		for _, id := range j.Provs {
			if !fail[id] {
				l[id] = true
				added = true
			}
		}
		if !added {
			l[staticEmpty] = true
		}
	}
	return l
}

// repair enforces "new providers in at most one job per reload".
func repair(nv *CfgVersion, live, fail map[int]bool, r *prng.R) {
	distinct := map[int]bool{}
	var withNew []int
	for i, j := range nv.Jobs {
		c := creations(j, live, fail)
		for _, id := range c {
			distinct[id] = true
		}
		if len(c) > 0 {
			withNew = append(withNew, i)
		}
	}
	if len(distinct) <= 1 {
		return
	}
	fresh := withNew[r.Intn(len(withNew))]
	var liveIDs []int
	for id := range live {
		if id != staticEmpty {
			liveIDs = append(liveIDs, id)
		}
	}
	sort.Ints(liveIDs)
	freshNew := map[int]bool{}
	for _, id := range creations(nv.Jobs[fresh], live, fail) {
		freshNew[id] = true
	}
	var kept []JobCfg
	for i, j := range nv.Jobs {
		if i == fresh {
			kept = append(kept, j)
			continue
		}
		var provs []int
		for _, id := range j.Provs {
			if live[id] || fail[id] || freshNew[id] {
				provs = append(provs, id)
			}
		}
		j.Provs = provs
		if j.Provs == nil {
			j.Provs = []int{}
		}
		// a job that now shares only the fresh job's new providers is fine (same creations whichever job is
		// registered first only if it lists them in the same order): keep it simple and require a running one
		hasLive := false
		for _, id := range j.Provs {
			if live[id] {
				hasLive = true
			}
		}
		if !hasLive {
			var onlyLiveOrFail []int
			for _, id := range j.Provs {
				if !freshNew[id] {
					onlyLiveOrFail = append(onlyLiveOrFail, id)
				}
			}
			j.Provs = onlyLiveOrFail
			if len(liveIDs) > 0 {
				j.Provs = append(j.Provs, liveIDs[r.Intn(len(liveIDs))])
			} else if !live[staticEmpty] {
				continue // would need a new static provider: drop the job
			} else {
				j.Provs = []int{}
			}
		} else {
			// with a running provider present, references to the fresh job's new providers would still be
			// created by whichever job is registered first: drop them here
			var ps []int
			for _, id := range j.Provs {
				if !freshNew[id] {
					ps = append(ps, id)
				}
			}
			j.Provs = ps
		}
		kept = append(kept, j)
	}
	nv.Jobs = kept
}

// Generate derives a plan from the seed (pure).
func Generate(prop, tier string, seed uint64) *Plan {
	rc := prng.New(prng.DeriveS(seed, "config"))
	p := &Plan{}
	c := &p.Cfg
	c.Seed = seed
	c.SchedSeed = prng.DeriveS(seed, "sched")
	c.UpdatertMs = []int{100, 200, 500, 1000, 5000}[rc.Intn(5)]
	u := c.UpdatertMs
	sp := sched.DrawPolicy(rc, []string{"discovery.Manager.sender", "discovery.Manager.updater", "consumer", "prov:", "cfg"})
	c.Pol = Policy{Kind: sp.Kind, Stick: sp.Stick, Starve: sp.Starve, StarveSteps: sp.StarveSteps, PCTDepth: sp.PCTDepth}

	nProv := rc.Range(1, 4)
	nJobs := rc.Range(1, 4)
	jobName := func(i int) string { return fmt.Sprintf("job%d", i) }

	// --- provider scripts
	rp := prng.New(prng.DeriveS(seed, "providers"))
	manySources := rp.Chance(0.15)
	for id := 0; id < nProv; id++ {
		pr := Provider{ID: id, FailNew: rp.Chance(0.04)}
		nSrc := rp.Range(1, 4)
		if manySources {
			nSrc = rp.Range(8, 30)
		}
		nSteps := rp.Range(1, 12)
		style := rp.Intn(3) // 0 full state every time (file/consul style), 1 deltas (k8s style), 2 mixed
		for s := 0; s < nSteps; s++ {
			st := Step{}
			if s > 0 || rp.Chance(0.3) {
				// the sender's tick phase is fixed by the plan (no jitter under simulation): vary the delays finely
				st.DelayMs = []int{0, 1, 10, u / 10, u / 3, u, 2 * u, 5 * u, rp.Intn(u + 1), rp.Intn(3*u + 1), 100 + rp.Intn(200),
					// an idle sender ticks on a 100 ms grid, a busy one after 100, 150, 225, ... ms: arrive together with a tick
					100 * rp.Range(1, 12), 100 * rp.Range(1, 4), 150, 250, 475,
					// long pauses: the statement is evaluated at the end of every quiet interval
					6 * u, 9 * u}[rp.Intn(18)]
			}
			full := style == 0 || (style == 2 && rp.Chance(0.5)) || s == 0
			for k := 0; k < nSrc; k++ {
				if !full && !rp.Chance(0.4) {
					continue
				}
				g := GroupSpec{Src: fmt.Sprintf("s%d", k)}
				switch x := rp.Intn(10); {
				case x < 6:
					g.N = rp.Range(1, 3)
				case x < 9:
					g.N = 0 // emptied / removed source
				default:
					g.Nil = true
				}
				st.Groups = append(st.Groups, g)
			}
			if rp.Chance(0.05) {
				st.Groups = nil // an update without groups
			}
			pr.Steps = append(pr.Steps, st)
		}
		if rp.Chance(0.08) {
			pr.Steps = append(pr.Steps, Step{DelayMs: u / 3, Close: true})
		}
		p.Provs = append(p.Provs, pr)
	}

	// --- configuration versions. Constraint (see checks.json): one ApplyConfig creates new providers in at
	// most one job, because ApplyConfig walks its argument (a Go map) in random order and numbers new
	// providers ("sim/<n>") in creation order.
	rv := prng.New(prng.DeriveS(seed, "cfgs"))
	fail := map[int]bool{}
	for _, pr := range p.Provs {
		if pr.FailNew {
			fail[pr.ID] = true
		}
	}
	live := map[int]bool{}
	var prev CfgVersion
	nVers := []int{1, 2, 2, 3, 4, 6}[rv.Intn(6)]
	for v := 0; v < nVers; v++ {
		nv := CfgVersion{}
		for ji := 0; ji < nJobs; ji++ {
			if !rv.Chance(0.65) {
				continue
			}
			j := JobCfg{Job: jobName(ji), Provs: []int{}}
			for id := 0; id < nProv; id++ {
				if rv.Chance(0.45) {
					j.Provs = append(j.Provs, id)
				}
			}
			if len(j.Provs) > 1 && rv.Chance(0.3) { // not always ascending
				j.Provs[0], j.Provs[len(j.Provs)-1] = j.Provs[len(j.Provs)-1], j.Provs[0]
			}
			nv.Jobs = append(nv.Jobs, j)
		}
		if len(nv.Jobs) == 0 && (v == 0 || !rv.Chance(0.3)) { // sometimes a reload removes every job
			nv.Jobs = append(nv.Jobs, JobCfg{Job: jobName(rv.Intn(nJobs)), Provs: []int{rv.Intn(nProv)}})
		}
		repair(&nv, live, fail, rv)
		if rv.Chance(0.1) && v > 0 {
			nv = prev // identical reload
		}
		p.Cfgs = append(p.Cfgs, nv)
		live = liveAfter(nv, fail)
		prev = nv
	}
	// reload task
	p.CfgOps = append(p.CfgOps, Op{K: "cfg", Cfg: 0})
	for v := 1; v < len(p.Cfgs); v++ {
		p.CfgOps = append(p.CfgOps, Op{K: "sleep", Ms: []int{0, 1, u / 10, u / 2, u, 3 * u, 7 * u, rv.Intn(2*u + 1), 90 + rv.Intn(300), 100 * rv.Range(1, 12), 100 * rv.Range(1, 4), 250}[rv.Intn(12)]})
		p.CfgOps = append(p.CfgOps, Op{K: "cfg", Cfg: v})
	}

	// --- consumer
	rr := prng.New(prng.DeriveS(seed, "consumer"))
	mode := rr.Intn(4) // 0 prompt, 1 slow, 2 stalls, 3 mixed
	n := rr.Range(0, 12)
	for i := 0; i < n; i++ {
		d := 0
		switch mode {
		case 1:
			d = []int{u / 10, u / 2, u, u + u/2}[rr.Intn(4)]
		case 2:
			d = []int{0, 0, 3 * u, 6 * u, 12 * u}[rr.Intn(5)]
		case 3:
			d = []int{0, 1, u / 3, u, 2 * u, 8 * u, rr.Intn(2*u + 1), 50 + rr.Intn(400), 100 * rr.Range(1, 12), 100 * rr.Range(1, 4)}[rr.Intn(10)]
		}
		p.ReadDelays = append(p.ReadDelays, d)
	}
	return p
}

// Shrink returns simpler candidate plans, most aggressive first.
func Shrink(p *Plan) []*Plan {
	var out []*Plan
	clone := func() *Plan {
		b, _ := json.Marshal(p)
		var q Plan
		if err := json.Unmarshal(b, &q); err != nil {
			panic("harness: clone: " + err.Error())
		}
		return &q
	}
	// drop trailing reloads (keeps the one-fresh-job constraint, which is about consecutive versions, only
	// if we cut from the end)
	for n := 1; n < len(p.CfgOps); n++ {
		if p.CfgOps[len(p.CfgOps)-n].K != "cfg" {
			continue
		}
		q := clone()
		q.CfgOps = q.CfgOps[:len(q.CfgOps)-n]
		for len(q.CfgOps) > 0 && q.CfgOps[len(q.CfgOps)-1].K == "sleep" {
			q.CfgOps = q.CfgOps[:len(q.CfgOps)-1]
		}
		if len(q.CfgOps) > 0 {
			out = append(out, q)
		}
	}
	// shorter provider scripts
	for i := range p.Provs {
		n := len(p.Provs[i].Steps)
		for _, keep := range []int{0, n / 2, n - 1} {
			if keep < n && keep >= 0 {
				q := clone()
				q.Provs[i].Steps = q.Provs[i].Steps[:keep]
				out = append(out, q)
			}
		}
		for k := 0; k < n; k++ {
			q := clone()
			q.Provs[i].Steps = append(append([]Step{}, q.Provs[i].Steps[:k]...), q.Provs[i].Steps[k+1:]...)
			out = append(out, q)
		}
	}
	// fewer groups per update
	for i := range p.Provs {
		for k := range p.Provs[i].Steps {
			if g := p.Provs[i].Steps[k].Groups; len(g) > 1 {
				q := clone()
				q.Provs[i].Steps[k].Groups = q.Provs[i].Steps[k].Groups[:len(g)/2]
				out = append(out, q)
				q = clone()
				q.Provs[i].Steps[k].Groups = q.Provs[i].Steps[k].Groups[len(g)/2:]
				out = append(out, q)
			}
		}
	}
	// prompt consumer
	if len(p.ReadDelays) > 0 {
		q := clone()
		q.ReadDelays = nil
		out = append(out, q)
		q = clone()
		q.ReadDelays = q.ReadDelays[:len(q.ReadDelays)/2]
		out = append(out, q)
		for i, d := range p.ReadDelays {
			if d > 0 {
				q := clone()
				q.ReadDelays[i] = 0
				out = append(out, q)
			}
		}
	}
	// no delays
	for i := range p.Provs {
		for k := range p.Provs[i].Steps {
			if p.Provs[i].Steps[k].DelayMs > 0 {
				q := clone()
				q.Provs[i].Steps[k].DelayMs = 0
				out = append(out, q)
			}
		}
	}
	for i := range p.CfgOps {
		if p.CfgOps[i].K == "sleep" && p.CfgOps[i].Ms > 0 {
			q := clone()
			q.CfgOps[i].Ms = 0
			out = append(out, q)
		}
	}
	if p.Cfg.Pol.Kind != "uniform" {
		q := clone()
		q.Cfg.Pol = Policy{Kind: "uniform"}
		out = append(out, q)
	}
	return out
}
