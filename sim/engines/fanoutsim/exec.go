package fanoutsim

import (
	"context"
	"errors"
	"fmt"
	"math"
	"os"
	"path/filepath"
	"runtime/debug"
	"sort"
	"strings"
	"testing"
	"time"

	"github.com/prometheus/common/promslog"

	"github.com/prometheus/prometheus/model/exemplar"
	"github.com/prometheus/prometheus/model/labels"
	"github.com/prometheus/prometheus/model/metadata"
	"github.com/prometheus/prometheus/storage"
	"github.com/prometheus/prometheus/tsdb/chunkenc"
	"github.com/prometheus/prometheus/util/annotations"

	"verif/sim/core/runner"
	"verif/sim/core/sched"
	"verif/sim/model/tsdbmodel"
)

// exec is the state of one run.
type exec struct {
	t      *testing.T
	prop   string
	plan   *Plan
	cfg    *Config
	res    *runner.Result
	w      *world
	stores []*simStorage
	f      storage.Storage
	lsets  []labels.Labels
	// model: expected content of every storage (labels string -> t -> sample), maintained from the
	// outcomes of the fanout appender calls by the rules of the statement
	model      []map[string]map[int64]tsdbmodel.Sample
	mlset      map[string]labels.Labels
	kinds      []string // executed op kinds + outcome classes (distinctness key)
	nontrivial bool
}

// seriesResult is one drained series.
type seriesResult struct {
	lset labels.Labels
	sm   []tsdbmodel.Sample
}

func promMatchers(ms []Matcher) []*labels.Matcher {
	var out []*labels.Matcher
	for _, m := range ms {
		out = append(out, labels.MustNewMatcher(labels.MatchType(m.T), m.N, m.V))
	}
	return out
}

func (e *exec) violate(oracle, sig, format string, a ...any) {
	e.res.Violate(e.prop, oracle, sig, format, a...)
}

// drainIter reads a sample iterator to its end.
func drainIter(it chunkenc.Iterator) ([]tsdbmodel.Sample, error) {
	var out []tsdbmodel.Sample
	for {
		switch it.Next() {
		case chunkenc.ValNone:
			return out, it.Err()
		case chunkenc.ValFloat:
			t, v := it.At()
			out = append(out, tsdbmodel.Sample{T: t, Kind: tsdbmodel.KFloat, F: v})
		case chunkenc.ValHistogram:
			t, h := it.AtHistogram(nil)
			out = append(out, tsdbmodel.Sample{T: t, Kind: tsdbmodel.KHist, H: h.Copy()})
		case chunkenc.ValFloatHistogram:
			t, fh := it.AtFloatHistogram(nil)
			out = append(out, tsdbmodel.Sample{T: t, Kind: tsdbmodel.KFHist, FH: fh.Copy()})
		}
	}
}

// drainChunkSeries decodes every chunk of a chunk series in the order returned.
func drainChunkSeries(cs storage.ChunkSeries) ([]tsdbmodel.Sample, error) {
	var out []tsdbmodel.Sample
	it := cs.Iterator(nil)
	for it.Next() {
		m := it.At()
		if m.Chunk == nil {
			return out, fmt.Errorf("nil chunk in result")
		}
		sm, err := drainIter(m.Chunk.Iterator(nil))
		if err != nil {
			return out, err
		}
		if len(sm) > 0 && (sm[0].T != m.MinTime || sm[len(sm)-1].T != m.MaxTime) {
			return out, fmt.Errorf("chunk meta [%d,%d] does not match its samples [%d,%d]", m.MinTime, m.MaxTime, sm[0].T, sm[len(sm)-1].T)
		}
		out = append(out, sm...)
	}
	return out, it.Err()
}

// ---------------------------------------------------------------------------------------------
// reference answers of one storage (direct, fault-free, not through the fanout)

func (e *exec) refSelect(st int, chunk bool, mint, maxt int64, sel Sel) []seriesResult {
	var hints *storage.SelectHints
	if !sel.NoHint {
		hints = &storage.SelectHints{Start: mint, End: maxt, Limit: sel.Limit}
	}
	ms := promMatchers(sel.M)
	var out []seriesResult
	b := e.stores[st].b
	if chunk {
		q, err := b.ChunkQuerier(mint, maxt)
		if err != nil {
			panic("harness: " + err.Error())
		}
		defer q.Close()
		ss := q.Select(context.Background(), true, hints, ms...)
		for ss.Next() {
			s := ss.At()
			sm, err := drainChunkSeries(s)
			if err != nil {
				panic("harness: reference drain: " + err.Error())
			}
			out = append(out, seriesResult{s.Labels().Copy(), sm})
		}
		if ss.Err() != nil {
			panic("harness: reference select: " + ss.Err().Error())
		}
		return out
	}
	q, err := b.Querier(mint, maxt)
	if err != nil {
		panic("harness: " + err.Error())
	}
	defer q.Close()
	ss := q.Select(context.Background(), true, hints, ms...)
	for ss.Next() {
		s := ss.At()
		sm, err := drainIter(s.Iterator(nil))
		if err != nil {
			panic("harness: reference drain: " + err.Error())
		}
		out = append(out, seriesResult{s.Labels().Copy(), sm})
	}
	if ss.Err() != nil {
		panic("harness: reference select: " + ss.Err().Error())
	}
	return out
}

// ---------------------------------------------------------------------------------------------
// classification of the faults that fired in an op

type opFaults struct {
	primary   []*injErr         // read-path failures of the primary
	secNormal map[int][]*injErr // secondary failures the statement covers and the code claims to handle
	secKnown  map[int][]*injErr // secondary failures of the listed known findings (creation, late errors)
	closeErrs []*injErr
}

func classify(fired []*injErr) opFaults {
	of := opFaults{secNormal: map[int][]*injErr{}, secKnown: map[int][]*injErr{}}
	for _, f := range fired {
		switch f.f.Point {
		case "close":
			of.closeErrs = append(of.closeErrs, f)
			continue
		case "append", "partial", "commit", "rollback":
			continue
		}
		if f.f.Store == 0 {
			of.primary = append(of.primary, f)
			continue
		}
		switch {
		case f.f.Point == "querier":
			of.secKnown[f.f.Store] = append(of.secKnown[f.f.Store], f)
		case f.f.Point == "iter", f.f.Point == "next" && f.f.N%100 != 0:
			of.secKnown[f.f.Store] = append(of.secKnown[f.f.Store], f)
		default:
			of.secNormal[f.f.Store] = append(of.secNormal[f.f.Store], f)
		}
	}
	return of
}

// knownSig is the signature of the one behaviour of a listed known finding: the primary did not fail, and the
// query failed with the injected error of a secondary whose failure was of a listed class.
func knownSig(tags map[string]bool) string {
	var l []string
	for t := range tags {
		l = append(l, t)
	}
	sort.Strings(l)
	return "known:" + strings.Join(l, "+")
}

// known handles an observed known-finding behaviour: every KF run counts it, the few runs with KFReport set
// report it as a violation with signature known:<tag> (the check also reproduces each finding from its committed replay).
func (e *exec) known(tags map[string]bool, oracle, format string, a ...any) {
	for t := range tags {
		e.res.Count("known-finding-observed:"+t, 1)
	}
	if e.cfg.KFReport {
		e.violate(oracle, knownSig(tags), format, a...)
	}
}

func sortedStores(m map[int][]*injErr) []int {
	out := make([]int, 0, len(m))
	for st := range m {
		out = append(out, st)
	}
	sort.Ints(out)
	return out
}

func kfTag(f *injErr) string {
	if f.f.Point == "querier" {
		return KFCreate
	}
	return KFLate
}

func isInj(err error, f *injErr) bool { return err != nil && errors.Is(err, f) }

func anyIs(err error, fs []*injErr) bool {
	for _, f := range fs {
		if isInj(err, f) {
			return true
		}
	}
	return false
}

// ---------------------------------------------------------------------------------------------
// the merge model: union of the answers of the storages that did not fail

type mergedSeries struct {
	lset labels.Labels
	ts   []int64
	cand map[int64][]tsdbmodel.Sample // candidate values per timestamp (one per contributing storage)
}

func mergeModel(answers [][]seriesResult, limit int) []mergedSeries {
	byKey := map[string]*mergedSeries{}
	var keys []string
	for _, ans := range answers {
		for _, s := range ans {
			k := s.lset.String()
			m := byKey[k]
			if m == nil {
				m = &mergedSeries{lset: s.lset, cand: map[int64][]tsdbmodel.Sample{}}
				byKey[k] = m
				keys = append(keys, k)
			}
			for _, x := range s.sm {
				m.cand[x.T] = append(m.cand[x.T], x)
			}
		}
	}
	var out []mergedSeries
	for _, k := range keys {
		m := byKey[k]
		m.ts = tsdbmodel.SortedTimes(m.cand)
		out = append(out, *m)
	}
	sort.Slice(out, func(i, j int) bool { return labels.Compare(out[i].lset, out[j].lset) < 0 })
	if limit > 0 && len(out) > limit {
		out = out[:limit]
	}
	return out
}

// compareMerged checks a drained result against the merge model. failedOnly holds, per series and timestamp,
// the values only failed storages have (their appearance is the "contains data of a failed secondary" class).
func compareMerged(got []seriesResult, want []mergedSeries, sorted bool, failed [][]seriesResult) (sig, detail string) {
	if !sorted {
		got = append([]seriesResult(nil), got...)
		sort.SliceStable(got, func(i, j int) bool { return labels.Compare(got[i].lset, got[j].lset) < 0 })
	}
	fromFailed := func(l labels.Labels, x tsdbmodel.Sample) bool {
		for _, ans := range failed {
			for _, s := range ans {
				if !labels.Equal(s.lset, l) {
					continue
				}
				for _, y := range s.sm {
					if y.T == x.T && tsdbmodel.ValueEqual(x, y) {
						return true
					}
				}
			}
		}
		return false
	}
	seriesFromFailed := func(l labels.Labels) bool {
		for _, ans := range failed {
			for _, s := range ans {
				if labels.Equal(s.lset, l) {
					return true
				}
			}
		}
		return false
	}
	for i := 1; i < len(got); i++ {
		c := labels.Compare(got[i-1].lset, got[i].lset)
		if c == 0 {
			return "duplicate-series", fmt.Sprintf("series %s returned twice", got[i].lset)
		}
		if c > 0 {
			return "unsorted-series", fmt.Sprintf("series %s returned after %s", got[i].lset, got[i-1].lset)
		}
	}
	gi := 0
	for _, w := range want {
		if gi >= len(got) || !labels.Equal(got[gi].lset, w.lset) {
			// either an unexpected series or a missing one
			if gi < len(got) && labels.Compare(got[gi].lset, w.lset) < 0 {
				if seriesFromFailed(got[gi].lset) {
					return "series-of-failed-secondary", fmt.Sprintf("series %s exists only in a failed secondary but was returned", got[gi].lset)
				}
				return "unexpected-series", fmt.Sprintf("series %s returned but held by no healthy storage", got[gi].lset)
			}
			return "missing-series", fmt.Sprintf("series %s missing from the result", w.lset)
		}
		g := got[gi]
		gi++
		// timestamps: exactly the sorted union
		for k := 1; k < len(g.sm); k++ {
			if g.sm[k].T <= g.sm[k-1].T {
				return "samples-not-increasing", fmt.Sprintf("series %s: t=%d after t=%d", g.lset, g.sm[k].T, g.sm[k-1].T)
			}
		}
		gj := 0
		for _, t := range w.ts {
			if gj >= len(g.sm) || g.sm[gj].T != t {
				if gj < len(g.sm) && g.sm[gj].T < t {
					if fromFailed(g.lset, g.sm[gj]) {
						return "sample-of-failed-secondary", fmt.Sprintf("series %s: sample %v comes from a failed secondary", g.lset, g.sm[gj])
					}
					return "unexpected-sample", fmt.Sprintf("series %s: sample %v is in no healthy storage", g.lset, g.sm[gj])
				}
				return "missing-sample", fmt.Sprintf("series %s: sample at t=%d missing (have %v)", g.lset, t, g.sm)
			}
			ok := false
			for _, c := range w.cand[t] {
				if tsdbmodel.ValueEqual(c, g.sm[gj]) {
					ok = true
					break
				}
			}
			if !ok {
				if fromFailed(g.lset, g.sm[gj]) {
					return "sample-of-failed-secondary", fmt.Sprintf("series %s: value %v comes from a failed secondary (healthy storages have %v)", g.lset, g.sm[gj], w.cand[t])
				}
				return "wrong-value", fmt.Sprintf("series %s: value %v at t=%d is none of %v", g.lset, g.sm[gj], t, w.cand[t])
			}
			gj++
		}
		if gj < len(g.sm) {
			if fromFailed(g.lset, g.sm[gj]) {
				return "sample-of-failed-secondary", fmt.Sprintf("series %s: sample %v comes from a failed secondary", g.lset, g.sm[gj])
			}
			return "unexpected-sample", fmt.Sprintf("series %s: sample %v is in no healthy storage", g.lset, g.sm[gj])
		}
	}
	if gi < len(got) {
		if seriesFromFailed(got[gi].lset) {
			return "series-of-failed-secondary", fmt.Sprintf("series %s exists only in a failed secondary but was returned", got[gi].lset)
		}
		return "unexpected-series", fmt.Sprintf("series %s returned but held by no healthy storage", got[gi].lset)
	}
	return "", ""
}

// checkWarnings: every failed secondary is reported by a warning that is its injected error; nothing else is reported.
func (e *exec) checkWarnings(of opFaults, ws annotations.Annotations, op Op, fired []*injErr) {
	errs := ws.AsErrors()
	for _, st := range sortedStores(of.secNormal) {
		fs := of.secNormal[st]
		found := false
		for _, w := range errs {
			if anyIs(w, fs) {
				found = true
			}
		}
		if !found {
			e.violate("warning", "secondary-failure-without-warning", "op %d (%s): secondary %d failed (%v) but no warning reports it; warnings: %v", op.ID, op.K, st, fs[0], errs)
			return
		}
	}
	for _, w := range errs {
		if !anyIs(w, fired) {
			e.violate("warning", "unexpected-warning", "op %d (%s): warning %q matches no injected failure", op.ID, op.K, w)
			return
		}
	}
}

// ---------------------------------------------------------------------------------------------
// query ops

type setDrain struct {
	series []seriesResult
	err    error
	ws     annotations.Annotations
	done   bool
}

func (e *exec) healthy(of opFaults) (ok []int, failed []int) {
	for st := range e.stores {
		if e.stores[st].noop && st > 0 {
			continue
		}
		if st > 0 && (len(of.secNormal[st]) > 0 || len(of.secKnown[st]) > 0) {
			failed = append(failed, st)
			continue
		}
		ok = append(ok, st)
	}
	return ok, failed
}

func (e *exec) runQuery(op Op) {
	w := e.w
	chunk := op.K == "cquery"
	ctx := context.Background()
	w.curOp = op.ID
	firstLog := len(w.log)

	var (
		sq   storage.Querier
		cq   storage.ChunkQuerier
		qerr error
	)
	if chunk {
		cq, qerr = e.f.ChunkQuerier(op.Mint, op.Maxt)
	} else {
		sq, qerr = e.f.Querier(op.Mint, op.Maxt)
	}
	drains := make([]*setDrain, len(op.Sels))
	var closeErr error
	if qerr == nil {
		type nexter interface {
			Next() bool
			Err() error
			Warnings() annotations.Annotations
		}
		sets := make([]nexter, len(op.Sels))
		for i, sel := range op.Sels {
			var hints *storage.SelectHints
			if !sel.NoHint {
				hints = &storage.SelectHints{Start: op.Mint, End: op.Maxt, Limit: sel.Limit}
			}
			w.curOp = op.ID
			if chunk {
				sets[i] = cq.Select(ctx, sel.Sorted, hints, promMatchers(sel.M)...)
			} else {
				sets[i] = sq.Select(ctx, sel.Sorted, hints, promMatchers(sel.M)...)
			}
			drains[i] = &setDrain{}
		}
		order := make([]int, len(sets))
		for i := range order {
			order[i] = i
			if op.Rev {
				order[i] = len(sets) - 1 - i
			}
		}
		step := func(i int) {
			d := drains[i]
			if d.done {
				return
			}
			if !sets[i].Next() {
				d.done = true
				d.err = sets[i].Err()
				d.ws = sets[i].Warnings()
				return
			}
			var sr seriesResult
			var err error
			if chunk {
				s := sets[i].(storage.ChunkSeriesSet).At()
				sr.lset = s.Labels().Copy()
				sr.sm, err = drainChunkSeries(s)
			} else {
				s := sets[i].(storage.SeriesSet).At()
				sr.lset = s.Labels().Copy()
				sr.sm, err = drainIter(s.Iterator(nil))
			}
			if err != nil {
				d.done, d.err = true, err
				d.ws = sets[i].Warnings()
				return
			}
			d.series = append(d.series, sr)
		}
		if op.Inter {
			for {
				all := true
				for _, i := range order {
					if !drains[i].done {
						all = false
						step(i)
					}
				}
				if all {
					break
				}
			}
		} else {
			for _, i := range order {
				for !drains[i].done {
					step(i)
				}
			}
		}
		w.curOp = op.ID
		if chunk {
			closeErr = cq.Close()
		} else {
			closeErr = sq.Close()
		}
	}
	_ = closeErr

	// ---- judge
	fired := w.firedIn(op.ID)
	of := classify(fired)
	e.res.Evals++
	e.checkQueriersClosed(op, of, firstLog)

	var opErr error
	if qerr != nil {
		opErr = qerr
	} else {
		for _, d := range drains {
			if d.err != nil && opErr == nil {
				opErr = d.err
			}
		}
	}
	class := "ok"
	defer func() { e.kinds = append(e.kinds, op.K+":"+class) }()

	if len(of.primary) > 0 {
		class = "primary-failed"
		if opErr == nil {
			e.violate("primary-failure", "primary-failed-query-succeeded", "op %d (%s): the primary failed (%v) but the query reported no error", op.ID, op.K, of.primary[0])
		} else if !anyIs(opErr, fired) {
			e.violate("primary-failure", "foreign-error", "op %d (%s): the primary failed (%v) and the query failed with an unrelated error: %v", op.ID, op.K, of.primary[0], opErr)
		}
		return
	}
	if len(of.secNormal) > 0 || len(of.secKnown) > 0 {
		class = "secondary-failed"
		e.nontrivial = true
	}
	if opErr != nil {
		which := "unrelated"
		for _, st := range sortedStores(of.secNormal) {
			fs := of.secNormal[st]
			if anyIs(opErr, fs) {
				which = fmt.Sprintf("secondary %d %s", st, fs[0].f.Point)
			}
		}
		tags := map[string]bool{}
		for _, st := range sortedStores(of.secKnown) {
			for _, f := range of.secKnown[st] {
				if isInj(opErr, f) {
					which = fmt.Sprintf("secondary %d %s", st, f.f.Point)
					tags[kfTag(f)] = true
				}
			}
		}
		if len(tags) > 0 {
			class = "known-finding"
			e.known(tags, "secondary-failure", "op %d (%s): the primary did not fail but the query failed (%s): %v", op.ID, op.K, which, opErr)
			return
		}
		sig := "secondary-error-fails-query"
		if which == "unrelated" {
			sig = "query-failed-without-primary-failure"
		}
		e.violate("secondary-failure", sig, "op %d (%s): the primary did not fail but the query failed (%s): %v", op.ID, op.K, which, opErr)
		return
	}
	okStores, failedStores := e.healthy(of)
	var ws annotations.Annotations
	for i, sel := range op.Sels {
		var answers, failedAns [][]seriesResult
		for _, st := range okStores {
			answers = append(answers, e.refSelect(st, chunk, op.Mint, op.Maxt, sel))
		}
		for _, st := range failedStores {
			failedAns = append(failedAns, e.refSelect(st, chunk, op.Mint, op.Maxt, sel))
		}
		limit := 0
		if !sel.NoHint {
			limit = sel.Limit
		}
		merging := len(okStores)+len(failedStores) > 1
		want := mergeModel(answers, limit)
		if !merging {
			want = mergeModel(answers, 0) // a lone primary's answer passes through as is
		}
		if sig, detail := compareMerged(drains[i].series, want, sel.Sorted || merging, failedAns); sig != "" {
			e.violate("query-result", sig, "op %d (%s) select %d %v [%d,%d]: %s\nhealthy storages %v, failed secondaries %v", op.ID, op.K, i, sel.M, op.Mint, op.Maxt, detail, okStores, failedStores)
			return
		}
		ws.Merge(drains[i].ws)
		if len(want) > 0 {
			e.nontrivial = e.nontrivial || len(answers) > 1
		}
		// probes: how meaningful was this comparison
		for _, fa := range failedAns {
			if len(fa) > 0 {
				e.res.Count("failed-secondary-had-matching-data", 1)
				if len(op.Sels) > 1 {
					e.res.Count("multi-select-failed-secondary-had-data", 1)
				}
			}
		}
		if limit > 0 && merging {
			full := mergeModel(answers, 0)
			if len(full) > limit {
				e.res.Count("limit-truncated-merge", 1)
			}
		}
		dup, conflict := false, false
		for _, m := range want {
			for _, t := range m.ts {
				c := m.cand[t]
				if len(c) > 1 {
					dup = true
					for _, x := range c[1:] {
						if !tsdbmodel.ValueEqual(c[0], x) {
							conflict = true
						}
					}
				}
			}
		}
		if dup {
			e.res.Count("merged-duplicate-timestamps", 1)
		}
		if conflict {
			e.res.Count("merged-conflicting-values", 1)
		}
		if chunk && len(want) > 0 && len(answers) > 1 {
			e.res.Count("chunk-merge", 1)
		}
	}
	e.checkWarnings(of, ws, op, fired)
}

// checkQueriersClosed: every querier the fanout opened for this op has been closed exactly once.
func (e *exec) checkQueriersClosed(op Op, of opFaults, from int) {
	open := map[int]int{}
	var ids []int
	for _, ev := range e.w.log[from:] {
		if ev.op != op.ID {
			continue
		}
		switch ev.kind {
		case "querier.open":
			open[ev.obj] = 0
			ids = append(ids, ev.obj)
		case "querier.close":
			open[ev.obj]++
		}
	}
	for _, id := range ids {
		if n := open[id]; n != 1 {
			sig := "querier-leaked"
			if n > 1 {
				sig = "querier-closed-twice"
			}
			e.violate("querier-close", sig, "op %d (%s): querier #%d of a storage was closed %d times", op.ID, op.K, id, n)
			return
		}
	}
}

// ---------------------------------------------------------------------------------------------
// label ops

func (e *exec) runLabels(op Op) {
	w := e.w
	ctx := context.Background()
	w.curOp = op.ID
	firstLog := len(w.log)
	q, qerr := e.f.Querier(op.Mint, op.Maxt)
	var (
		vals []string
		ws   annotations.Annotations
		err  error
	)
	var hints *storage.LabelHints
	if op.Limit > 0 {
		hints = &storage.LabelHints{Limit: op.Limit}
	}
	ms := promMatchers(op.M)
	if qerr == nil {
		w.curOp = op.ID
		if op.K == "lnames" {
			vals, ws, err = q.LabelNames(ctx, hints, ms...)
		} else {
			vals, ws, err = q.LabelValues(ctx, op.Name, hints, ms...)
		}
		w.curOp = op.ID
		_ = q.Close()
	} else {
		err = qerr
	}
	fired := w.firedIn(op.ID)
	of := classify(fired)
	e.res.Evals++
	e.checkQueriersClosed(op, of, firstLog)
	class := "ok"
	defer func() { e.kinds = append(e.kinds, op.K+":"+class) }()
	if len(of.primary) > 0 {
		class = "primary-failed"
		if err == nil {
			e.violate("primary-failure", "primary-failed-label-query-succeeded", "op %d (%s): the primary failed (%v) but the label query reported no error", op.ID, op.K, of.primary[0])
		} else if !anyIs(err, fired) {
			e.violate("primary-failure", "foreign-error", "op %d (%s): the primary failed and the label query failed with an unrelated error: %v", op.ID, op.K, err)
		}
		return
	}
	if len(of.secNormal) > 0 || len(of.secKnown) > 0 {
		class = "secondary-failed"
		e.nontrivial = true
	}
	if err != nil {
		tags := map[string]bool{}
		for _, st := range sortedStores(of.secKnown) {
			for _, f := range of.secKnown[st] {
				if isInj(err, f) {
					tags[kfTag(f)] = true
				}
			}
		}
		if len(tags) > 0 {
			class = "known-finding"
			e.known(tags, "secondary-failure", "op %d (%s): the primary did not fail but the label query failed: %v", op.ID, op.K, err)
			return
		}
		e.violate("secondary-failure", "secondary-error-fails-label-query", "op %d (%s): the primary did not fail but the label query failed: %v", op.ID, op.K, err)
		return
	}
	okStores, failedStores := e.healthy(of)
	set := map[string]bool{}
	for _, st := range okStores {
		rq, rerr := e.stores[st].b.Querier(op.Mint, op.Maxt)
		if rerr != nil {
			panic("harness: " + rerr.Error())
		}
		var v []string
		if op.K == "lnames" {
			v, _, rerr = rq.LabelNames(ctx, hints, ms...)
		} else {
			v, _, rerr = rq.LabelValues(ctx, op.Name, hints, ms...)
		}
		rq.Close()
		if rerr != nil {
			panic("harness: " + rerr.Error())
		}
		for _, x := range v {
			set[x] = true
		}
	}
	want := sortedKeys(set)
	// a lone primary's answer is the result as it is; a merged result honours the limit
	if len(okStores)+len(failedStores) > 1 && op.Limit > 0 && len(want) > op.Limit {
		want = want[:op.Limit]
	}
	if strings.Join(vals, "\x00") != strings.Join(want, "\x00") {
		sig := "wrong-label-result"
		if !sort.StringsAreSorted(vals) {
			sig = "unsorted-label-result"
		}
		e.violate("label-result", sig, "op %d (%s %q %v limit %d): got %q, the healthy storages %v hold %q", op.ID, op.K, op.Name, op.M, op.Limit, vals, okStores, want)
		return
	}
	if len(okStores) > 1 && len(want) > 0 {
		e.nontrivial = true
	}
	e.checkWarnings(of, ws, op, fired)
}

// ---------------------------------------------------------------------------------------------
// append ops

type fanoutApp interface {
	Commit() error
	Rollback() error
}

func isPartial(err error) bool {
	var pe *storage.AppendPartialError
	return err != nil && errors.As(err, &pe)
}

func (e *exec) content(st int) map[string]map[int64]tsdbmodel.Sample {
	out := map[string]map[int64]tsdbmodel.Sample{}
	for _, s := range e.refSelect(st, false, math.MinInt64, math.MaxInt64, Sel{M: []Matcher{{T: 2, N: "__name__", V: ".*"}}, NoHint: true}) {
		m := map[int64]tsdbmodel.Sample{}
		for _, x := range s.sm {
			m[x.T] = x
		}
		out[s.lset.String()] = m
	}
	return out
}

func sameContent(a, b map[string]map[int64]tsdbmodel.Sample) string {
	keys := map[string]bool{}
	for k := range a {
		keys[k] = true
	}
	for k := range b {
		keys[k] = true
	}
	for _, k := range sortedKeys(keys) {
		x, y := a[k], b[k]
		if len(x) == 0 && len(y) == 0 {
			continue
		}
		ts := map[int64]bool{}
		for t := range x {
			ts[t] = true
		}
		for t := range y {
			ts[t] = true
		}
		for _, t := range tsdbmodel.SortedTimes(ts) {
			sx, okx := x[t]
			sy, oky := y[t]
			if !okx {
				return fmt.Sprintf("%s: unexpected sample %v", k, sy)
			}
			if !oky {
				return fmt.Sprintf("%s: sample %v missing", k, sx)
			}
			if !tsdbmodel.ValueEqual(sx, sy) {
				return fmt.Sprintf("%s: expected %v, stored %v", k, sx, sy)
			}
		}
	}
	return ""
}

func (e *exec) runAppend(op Op) {
	w := e.w
	ctx := context.Background()
	w.curOp = op.ID
	firstLog := len(w.log)
	var (
		a1 storage.Appender
		a2 storage.AppenderV2
		fa fanoutApp
	)
	if e.cfg.V2 {
		a2 = e.f.AppenderV2(ctx)
		fa = a2
	} else {
		a1 = e.f.Appender(ctx)
		fa = a1
	}
	type callOutcome struct {
		c   Call
		sm  tsdbmodel.Sample
		err error
		ok  bool // the fanout accepted the call (nil, or only a partial error)
	}
	var outcomes []callOutcome
	end := op.End
	for i, c := range op.Calls {
		w.call = i
		w.curOp = op.ID
		l := e.lsets[c.S]
		sm := mkSample(c.Sm)
		var err error
		switch {
		case e.cfg.V2:
			opts := storage.AppendV2Options{}
			switch c.K {
			case "exemplar":
				opts.Exemplars = []exemplar.Exemplar{{Labels: labels.FromStrings("trace", "t1"), Value: 1, Ts: sm.T, HasTs: true}}
			case "meta":
				opts.Metadata = metadata.Metadata{Type: "gauge", Help: "h"}
				opts.MetricFamilyName = l.Get("__name__")
			}
			_, err = a2.Append(0, l, 0, sm.T, sm.F, sm.H, sm.FH, opts)
		case c.K == "exemplar":
			_, err = a1.AppendExemplar(0, l, exemplar.Exemplar{Labels: labels.FromStrings("trace", "t1"), Value: 1, Ts: sm.T, HasTs: true})
		case c.K == "meta":
			_, err = a1.UpdateMetadata(0, l, metadata.Metadata{Type: "gauge", Help: "h"})
		case c.K == "stzero":
			_, err = a1.AppendSTZeroSample(0, l, sm.T, sm.T-1)
		case sm.Kind == tsdbmodel.KFloat:
			_, err = a1.Append(0, l, sm.T, sm.F)
		default:
			_, err = a1.AppendHistogram(0, l, sm.T, sm.H, sm.FH)
		}
		oc := callOutcome{c: c, sm: sm, err: err, ok: err == nil || isPartial(err)}
		outcomes = append(outcomes, oc)
		if !oc.ok && op.OnErr == "rollback" {
			end = "rollback"
			break
		}
	}
	w.curOp = op.ID
	var endErr error
	if end == "commit" {
		endErr = fa.Commit()
	} else {
		endErr = fa.Rollback()
	}

	// ---- judge
	e.res.Evals++
	fired := w.firedIn(op.ID)
	class := end
	defer func() { e.kinds = append(e.kinds, "append:"+class) }()
	nst := len(e.stores)
	// what every storage's appender saw
	type stSeen struct {
		accepted   map[int]event // by fanout call index
		failedCall map[int]event
		commits    []event
		rollbacks  []event
		opened     int
	}
	seen := make([]stSeen, nst)
	for i := range seen {
		seen[i].accepted, seen[i].failedCall = map[int]event{}, map[int]event{}
	}
	for _, ev := range w.log[firstLog:] {
		if ev.op != op.ID {
			continue
		}
		s := &seen[ev.store]
		switch ev.kind {
		case "app.open":
			s.opened++
		case "app.commit":
			s.commits = append(s.commits, ev)
		case "app.rollback":
			s.rollbacks = append(s.rollbacks, ev)
		default:
			if strings.HasPrefix(ev.kind, "app.") {
				if ev.ok {
					s.accepted[ev.call] = ev
				} else {
					s.failedCall[ev.call] = ev
				}
			}
		}
	}
	// A1: a call the fanout accepted was accepted, with the same arguments, by the primary and every secondary
	for i, oc := range outcomes {
		if !oc.ok {
			class += "+append-error"
			e.nontrivial = true
			if !anyIs(oc.err, fired) {
				e.res.Count("append-rejected-by-storage", 1)
			}
			continue
		}
		for st := 0; st < nst; st++ {
			ev, ok := seen[st].accepted[i]
			if !ok {
				why := "never received it"
				if fe, bad := seen[st].failedCall[i]; bad {
					why = fmt.Sprintf("rejected it: %v", fe.err)
				}
				e.violate("append-reach", "accepted-append-not-in-every-storage", "op %d call %d (%s %s t=%d): the fanout appender returned %v but storage %d %s", op.ID, i, oc.c.K, e.lsets[oc.c.S], oc.sm.T, oc.err, st, why)
				return
			}
			if ev.lset != e.lsets[oc.c.S].String() || (oc.c.K == "append" || oc.c.K == "hist") && (ev.sm.T != oc.sm.T || !tsdbmodel.ValueEqual(ev.sm, oc.sm)) {
				e.violate("append-reach", "append-arguments-changed", "op %d call %d: storage %d received %s %v instead of %s %v", op.ID, i, st, ev.lset, ev.sm, e.lsets[oc.c.S], oc.sm)
				return
			}
		}
	}
	// every appender the fanout opened is finished exactly once
	for st := 0; st < nst; st++ {
		n := len(seen[st].commits) + len(seen[st].rollbacks)
		if seen[st].opened != 1 || n != 1 {
			sig := "appender-not-finished"
			if n > 1 {
				sig = "appender-finished-twice"
			}
			e.violate("appender-finish", sig, "op %d (%s): storage %d: %d appenders opened, %d commits, %d rollbacks", op.ID, end, st, seen[st].opened, len(seen[st].commits), len(seen[st].rollbacks))
			return
		}
	}
	committed := func(st int) bool { return len(seen[st].commits) == 1 && seen[st].commits[0].err == nil }
	switch {
	case end == "rollback":
		e.res.Count("rollback", 1)
		// rollback reaches all, nothing is committed anywhere
		for st := 0; st < nst; st++ {
			if len(seen[st].rollbacks) != 1 {
				e.violate("rollback", "rollback-did-not-reach-storage", "op %d: Rollback on the fanout appender: storage %d saw %d rollbacks and %d commits", op.ID, st, len(seen[st].rollbacks), len(seen[st].commits))
				return
			}
		}
	case endErr == nil:
		class = "committed"
		e.res.Count("commit-ok", 1)
		// A3: a committed append reaches the primary and every secondary
		for st := 0; st < nst; st++ {
			if !committed(st) {
				e.violate("commit", "commit-ok-but-storage-not-committed", "op %d: Commit returned nil but storage %d did not commit (commits %d, rollbacks %d, err %v)", op.ID, st, len(seen[st].commits), len(seen[st].rollbacks), firstErr(seen[st].commits))
				return
			}
		}
		e.nontrivial = true
	default:
		class = "commit-failed"
		e.nontrivial = true
		if len(seen[0].commits) == 1 && seen[0].commits[0].err != nil {
			class = "primary-commit-failed"
			e.res.Count("primary-commit-failed", 1)
			// A4: the primary's commit failed: no secondary commits, all are rolled back
			for st := 1; st < nst; st++ {
				if len(seen[st].commits) != 0 || len(seen[st].rollbacks) != 1 {
					e.violate("commit", "secondary-committed-after-primary-commit-failure", "op %d: the primary's commit failed (%v) but secondary %d saw %d commits and %d rollbacks", op.ID, seen[0].commits[0].err, st, len(seen[st].commits), len(seen[st].rollbacks))
					return
				}
			}
			if !anyIs(endErr, fired) && !errors.Is(endErr, seen[0].commits[0].err) {
				e.violate("commit", "primary-commit-error-replaced", "op %d: the primary's commit failed with %v, Commit returned %v", op.ID, seen[0].commits[0].err, endErr)
				return
			}
		} else if len(seen[0].commits) != 1 {
			e.violate("commit", "primary-not-committed-first", "op %d: Commit failed with %v without the primary's commit having been attempted", op.ID, endErr)
			return
		}
	}
	if end == "commit" {
		// a failed commit of any storage must surface
		for st := 0; st < nst; st++ {
			if len(seen[st].commits) == 1 && seen[st].commits[0].err != nil && endErr == nil {
				e.violate("commit", "commit-error-swallowed", "op %d: storage %d failed to commit (%v) but Commit returned nil", op.ID, st, seen[st].commits[0].err)
				return
			}
		}
	}
	// contents: a storage holds what it held before plus, if it committed, what its appender accepted; by A1/A3
	// this includes every sample of an accepted call of a committed transaction
	for st := 0; st < nst; st++ {
		if committed(st) {
			idx := make([]int, 0, len(seen[st].accepted))
			for i := range seen[st].accepted {
				idx = append(idx, i)
			}
			sort.Ints(idx)
			for _, i := range idx {
				ev := seen[st].accepted[i]
				if ev.kind != "app.append" && ev.kind != "app.hist" {
					continue
				}
				m := e.model[st][ev.lset]
				if m == nil {
					m = map[int64]tsdbmodel.Sample{}
					e.model[st][ev.lset] = m
				}
				m[ev.sm.T] = ev.sm
			}
		}
		if d := sameContent(e.model[st], e.content(st)); d != "" {
			sig := "storage-content-after-" + end
			e.violate("content", sig, "op %d (%s, result %v): storage %d: %s", op.ID, end, endErr, st, d)
			return
		}
	}
}

func firstErr(evs []event) error {
	for _, ev := range evs {
		if ev.err != nil {
			return ev.err
		}
	}
	return nil
}

// ---------------------------------------------------------------------------------------------

// Execute runs one plan inside a synctest bubble.
func Execute(t *testing.T, prop string, plan *Plan) (res *runner.Result) {
	res = &runner.Result{Counters: map[string]int64{}}
	cfg := &plan.Cfg
	e := &exec{t: t, prop: prop, plan: plan, cfg: cfg, res: res}
	w := &world{cfg: cfg, res: res, faults: map[faultKey]Fault{}, quiet: true}
	e.w = w
	for _, f := range plan.Faults {
		w.faults[faultKey{f.Op, f.Store, f.Point, f.N}] = f
	}
	for _, ls := range plan.Series {
		e.lsets = append(e.lsets, labels.FromStrings(ls...))
	}
	start := time.Now()
	nst := cfg.NSec + 1
	root := filepath.Join(scratchRoot(), fmt.Sprintf("r%x", cfg.Seed))
	for st := 0; st < nst; st++ {
		var b backend
		if st < len(cfg.Backend) && cfg.Backend[st] == "head" {
			b = newHeadBackend(filepath.Join(root, fmt.Sprintf("s%d", st)))
		} else {
			b = newMemBackend(cfg)
		}
		e.stores = append(e.stores, &simStorage{w: w, idx: st, b: b, noop: st > 0 && st < len(cfg.Noop) && cfg.Noop[st]})
	}
	closed := false
	closeAll := func() {
		if closed {
			return
		}
		closed = true
		w.quiet = true
		for _, s := range e.stores {
			if s.closed == 0 {
				s.b.Close()
			}
		}
		// leave nothing behind: the run directory and, when empty, the per-process scratch root
		os.RemoveAll(root)
		os.Remove(scratchRoot())
	}
	defer closeAll()
	defer func() {
		if r := recover(); r != nil {
			msg := fmt.Sprint(r)
			if strings.HasPrefix(msg, "harness:") {
				panic(r)
			}
			res.Violate(prop, "panic", "panic", "panic: %v\n%s", r, trimStack(string(debug.Stack())))
		}
	}()

	// initial contents, written directly into the backends (not through the fanout)
	e.model = make([]map[string]map[int64]tsdbmodel.Sample, nst)
	for st := 0; st < nst; st++ {
		e.model[st] = map[string]map[int64]tsdbmodel.Sample{}
		if st >= len(plan.Init) {
			continue
		}
		for _, sd := range plan.Init[st] {
			if sd.S >= len(e.lsets) {
				continue
			}
			l := e.lsets[sd.S]
			m := map[int64]tsdbmodel.Sample{}
			last := int64(math.MinInt64)
			for _, ps := range sd.Sm {
				if ps.T <= last {
					continue
				}
				last = ps.T
				sm := mkSample(ps)
				var err error
				// one transaction per sample (see the note on staleness markers in plan.go)
				app := e.stores[st].b.Appender(context.Background())
				if sm.Kind == tsdbmodel.KFloat {
					_, err = app.Append(0, l, sm.T, sm.F)
				} else {
					_, err = app.AppendHistogram(0, l, sm.T, sm.H, sm.FH)
				}
				if err != nil {
					panic(fmt.Sprintf("harness: initial append to storage %d failed: %v", st, err))
				}
				if err := app.Commit(); err != nil {
					panic("harness: initial commit: " + err.Error())
				}
				m[sm.T] = sm
			}
			if len(m) > 0 {
				e.model[st][l.String()] = m
			}
		}
		if d := sameContent(e.model[st], e.content(st)); d != "" {
			panic("harness: storage does not return its initial content: " + d)
		}
	}

	var secs []storage.Storage
	for _, s := range e.stores[1:] {
		secs = append(secs, s)
	}
	e.f = storage.NewFanout(promslog.NewNopLogger(), e.stores[0], secs...)

	s := sched.New(cfg.SchedSeed, cfg.Pol)
	if cfg.UseReplay {
		s.Replay = append([]int{}, cfg.Replay...)
	}
	s.KeepTrace = true
	w.s = s
	w.quiet = false

	// rounds
	i := 0
	for i < len(plan.Ops) && len(res.Violations) == 0 {
		j := i
		for j < len(plan.Ops) && plan.Ops[j].Round == plan.Ops[i].Round {
			j++
		}
		for _, op := range plan.Ops[i:j] {
			op := op
			s.Go(fmt.Sprintf("op#%d", op.ID), func() {
				defer func() {
					if r := recover(); r != nil {
						msg := fmt.Sprint(r)
						if strings.HasPrefix(msg, "harness:") {
							panic(r)
						}
						res.Violate(prop, "panic", "panic", "panic in op %d (%s): %v\n%s", op.ID, op.K, r, trimStack(string(debug.Stack())))
					}
				}()
				w.curOp = op.ID
				switch op.K {
				case "query", "cquery":
					e.runQuery(op)
				case "lnames", "lvalues":
					e.runLabels(op)
				case "append":
					e.runAppend(op)
				}
			})
		}
		if err := s.Run(nil); err != nil {
			panic("harness: scheduler: " + err.Error())
		}
		i = j
	}
	s.Stop()
	plan.lastChoices = append([]int(nil), s.Choices...)
	w.quiet = true
	if err := e.f.Close(); err != nil {
		e.violate("close", "close-error", "closing the fanout storage failed: %v", err)
	}
	for st, ss := range e.stores {
		if ss.closed != 1 {
			e.violate("close", "storage-close-count", "fanout.Close closed storage %d %d times", st, ss.closed)
		}
	}
	closed = true
	os.RemoveAll(root)
	os.Remove(scratchRoot())

	res.NonTrivial = e.nontrivial
	var fk []string
	for _, f := range w.fired {
		fk = append(fk, fmt.Sprintf("%d:%s", f.f.Store, f.f.Point))
	}
	res.Key = strings.Join(e.kinds, ",") + "|" + strings.Join(fk, ",")
	res.StateKeys = []string{fmt.Sprintf("%x", s.TraceHash())}
	res.SimTimeMs = time.Since(start).Milliseconds()
	res.Trace = strings.Join(s.Trace, " ") + "|" + strings.Join(e.kinds, ",")
	res.Count("sched-steps", int64(s.Steps()))
	res.Sample = map[string]any{"storages": nst, "backends": cfg.Backend, "ops": e.kinds, "faults_planned": len(plan.Faults), "faults_fired": len(w.fired), "sched_steps": s.Steps(), "policy": cfg.Pol.Kind}
	return res
}

func trimStack(s string) string {
	lines := strings.Split(s, "\n")
	if len(lines) > 40 {
		lines = lines[:40]
	}
	return strings.Join(lines, "\n")
}
