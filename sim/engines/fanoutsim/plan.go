// Package fanoutsim is the E9 engine for property C54: the real storage.NewFanout (fanout.go, merge.go,
// secondary.go, lazy.go, generic.go) over simulated storages (a primary and 1-3 secondaries with generated
// contents, held in memory or in a real tsdb.Head). Every seam call of a simulated storage (querier creation,
// Select, Next, At, label queries, Appender, Append*, Commit, Rollback, Close) is a scheduler yield point and
// can be made to fail by the seeded fault plan; the concurrent Selects of the merge querier are therefore
// ordered by the simulator.
package fanoutsim

import (
	"encoding/json"
	"fmt"
	"math"
	"sort"

	"github.com/prometheus/prometheus/model/value"

	"verif/sim/core/prng"
	"verif/sim/core/sched"
)

// Known-finding tags (see known_findings.json).
const (
	KFCreate = "fanout-secondary-querier-creation-error-fails-query"
	KFLate   = "fanout-secondary-late-error-fails-query"
)

// Config is the swarm configuration of one run.
type Config struct {
	Seed      uint64       `json:"seed"`
	NSec      int          `json:"nsec"`               // number of secondaries (1..3)
	Backend   []string     `json:"backend"`            // per storage (0 = primary): "mem" | "head"
	Noop      []bool       `json:"noop,omitempty"`     // per storage: the secondary has no read side (returns storage.NoopQuerier)
	V2        bool         `json:"v2,omitempty"`       // use AppenderV2
	Fine      bool         `json:"fine,omitempty"`     // sample/chunk iterators of the simulated storages yield too
	ChunkLen  int          `json:"chunklen"`           // samples per chunk of the in-memory storages
	Scramble  bool         `json:"scramble,omitempty"` // in-memory storages return unsorted series when sorting is not requested
	Pol       sched.Policy `json:"pol"`
	SchedSeed uint64       `json:"sseed"`
	UseReplay bool         `json:"usereplay,omitempty"`
	Replay    []int        `json:"replay,omitempty"` // explicit schedule (set by shrinking; used when UseReplay)
	KF        string       `json:"kf,omitempty"`     // tag of the known finding this run may exercise ("" = none)
	// KFReport: report the known behaviour as a violation with signature known:<tag>. Set for very few runs only:
	// the runner stops a worker after three violating runs, so frequent known violations would truncate batches.
	// Every KF run counts the probe known-finding-observed:<tag>; `check` reproduces each finding from its replay.
	KFReport bool `json:"kfreport,omitempty"`
}

// Sample of a plan. Float values are carried as bits (NaN / Inf / stale marker survive JSON).
type Sample struct {
	T  int64  `json:"t"`
	K  int    `json:"k,omitempty"`  // 0 float, 1 histogram, 2 float histogram
	VB uint64 `json:"vb"`           // float bits (value, or histogram sum)
	HS uint64 `json:"hs,omitempty"` // histogram shape seed
}

func (s Sample) F() float64 { return math.Float64frombits(s.VB) }

// SeriesData is the initial content of one series in one storage.
type SeriesData struct {
	S  int      `json:"s"` // index into Plan.Series
	Sm []Sample `json:"sm"`
}

// Matcher in a plan.
type Matcher struct {
	T int    `json:"t"` // 0 =, 1 !=, 2 =~, 3 !~
	N string `json:"n"`
	V string `json:"v"`
}

// Sel is one Select call of a query op.
type Sel struct {
	M      []Matcher `json:"m"`
	Sorted bool      `json:"sorted,omitempty"`
	Limit  int       `json:"limit,omitempty"`
	NoHint bool      `json:"nohint,omitempty"`
}

// Call is one call on the fanout appender.
type Call struct {
	K  string `json:"k"` // append | hist | exemplar | meta | stzero
	S  int    `json:"s"` // series index
	Sm Sample `json:"sm"`
}

// Op is one workload operation; ops with the same Round run concurrently as scheduler tasks.
type Op struct {
	ID    int       `json:"id"`
	Round int       `json:"round"`
	K     string    `json:"k"` // query | cquery | lnames | lvalues | append
	Mint  int64     `json:"mint,omitempty"`
	Maxt  int64     `json:"maxt,omitempty"`
	Sels  []Sel     `json:"sels,omitempty"`
	Inter bool      `json:"inter,omitempty"` // drain the series sets of a multi-select op round-robin instead of one after the other
	Rev   bool      `json:"rev,omitempty"`   // drain the series sets in reverse order
	Name  string    `json:"name,omitempty"`  // lvalues
	M     []Matcher `json:"m,omitempty"`     // label query matchers
	Limit int       `json:"limit,omitempty"`
	Calls []Call    `json:"calls,omitempty"`
	End   string    `json:"end,omitempty"`   // commit | rollback
	OnErr string    `json:"onerr,omitempty"` // rollback | continue : what the caller does after a failed Append
}

// Fault makes one seam call fail. N is the ordinal of the call (per op and storage): for "select" the Select
// ordinal, for "next" selectOrdinal*100+nextOrdinal, for "iter" the ordinal of the iterator step, for
// "append" the index of the call in the transaction.
type Fault struct {
	Op    int    `json:"op"`
	Store int    `json:"store"`
	Point string `json:"point"` // querier | select | next | iter | lnames | lvalues | close | append | partial | commit | rollback
	N     int    `json:"n,omitempty"`
}

// Plan = configuration + label sets + initial contents + operations + fault plan.
type Plan struct {
	Cfg    Config         `json:"cfg"`
	Series [][]string     `json:"series"` // label sets (name, value, name, value, ...)
	Init   [][]SeriesData `json:"init"`   // per storage
	Ops    []Op           `json:"ops"`
	Faults []Fault        `json:"faults,omitempty"`

	lastChoices []int // schedule recorded by the last execution (used by Shrink)
}

func (p *Plan) String() string {
	b, _ := json.Marshal(p)
	return string(b)
}

func (p *Plan) clone() *Plan {
	b, _ := json.Marshal(p)
	var q Plan
	if err := json.Unmarshal(b, &q); err != nil {
		panic("harness: clone: " + err.Error())
	}
	return &q
}

var specialFloats = []float64{math.NaN(), math.Float64frombits(value.StaleNaN), math.Inf(1), math.Inf(-1), 0, -0.0}

func genSeriesUniverse(r *prng.R) [][]string {
	n := r.Range(3, 8)
	seen := map[string]bool{}
	var out [][]string
	for len(out) < n {
		ls := []string{"__name__", fmt.Sprintf("m%d", r.Intn(3)), "job", []string{"a", "b"}[r.Intn(2)]}
		if r.Chance(0.7) {
			ls = append(ls, "i", fmt.Sprint(r.Intn(3)))
		}
		if r.Chance(0.25) {
			ls = append(ls, "x", []string{"p", "q"}[r.Intn(2)])
		}
		k := fmt.Sprint(ls)
		if seen[k] {
			continue
		}
		seen[k] = true
		out = append(out, ls)
	}
	return out
}

// genValue draws the value of a sample of storage st. shared != nil is the table of replicated values.
func genSample(r *prng.R, st, series int, t int64, kind int) Sample {
	// values identify their storage so that provenance of every returned sample is visible
	v := float64(st+1)*1e6 + float64(series)*1e3 + float64(t%1000) + 0.25
	s := Sample{T: t, K: kind, VB: math.Float64bits(v)}
	if kind == 0 && r.Chance(0.06) {
		s.VB = math.Float64bits(specialFloats[r.Intn(len(specialFloats))])
		// Transactions (st == txnStore) do not append staleness markers: a real head converts a float marker
		// appended to a histogram series into a histogram marker and commits it after the floats of the same
		// transaction, which drops it (tsdb known finding stale-marker-commit-reorder; nothing to do with the fanout).
		if st == txnStore && value.IsStaleNaN(s.F()) {
			s.VB = math.Float64bits(math.NaN())
		}
	}
	if kind != 0 {
		s.HS = r.Uint64()>>1 | 1
	}
	return s
}

func genMatchers(r *prng.R) []Matcher {
	switch r.Intn(8) {
	case 0:
		return []Matcher{{T: 0, N: "__name__", V: fmt.Sprintf("m%d", r.Intn(3))}}
	case 1:
		return []Matcher{{T: 2, N: "__name__", V: "m.*"}}
	case 2:
		return []Matcher{{T: 0, N: "job", V: []string{"a", "b"}[r.Intn(2)]}}
	case 3:
		return []Matcher{{T: 2, N: "__name__", V: "m.*"}, {T: 1, N: "i", V: fmt.Sprint(r.Intn(3))}}
	case 4:
		return []Matcher{{T: 2, N: "job", V: "a|b"}, {T: 3, N: "__name__", V: fmt.Sprintf("m%d", r.Intn(3))}}
	case 5:
		return []Matcher{{T: 2, N: "x", V: ".+"}}
	case 6:
		return []Matcher{{T: 0, N: "__name__", V: "nosuch"}}
	default:
		return []Matcher{{T: 2, N: "__name__", V: ".+"}}
	}
}

const (
	txnStore = 9 // pseudo storage index used for the values of transaction samples
	tBase    = 1000
	tStep    = 10
	tGrid    = 40
	tAppend  = 5000 // transactions append above every initial sample
)

// Generate derives the plan of one run from its seed.
func Generate(prop, tier string, seed uint64) *Plan {
	rc := prng.New(prng.DeriveS(seed, "config"))
	p := &Plan{}
	c := &p.Cfg
	c.Seed = seed
	c.NSec = rc.Range(1, 3)
	nst := c.NSec + 1
	headRun := rc.Chance(0.3)
	for i := 0; i < nst; i++ {
		b := "mem"
		if headRun && rc.Chance(0.6) {
			b = "head"
		}
		c.Backend = append(c.Backend, b)
		c.Noop = append(c.Noop, i > 0 && rc.Chance(0.08))
	}
	c.V2 = rc.Chance(0.4)
	c.Fine = rc.Chance(0.35)
	c.ChunkLen = []int{1, 2, 3, 5, 120}[rc.Intn(5)]
	c.Scramble = rc.Chance(0.5)
	var starve []string
	for i := 0; i < nst; i++ {
		starve = append(starve, fmt.Sprintf("q.select#%d", i))
	}
	c.Pol = sched.DrawPolicy(rc, starve)
	c.SchedSeed = prng.DeriveS(seed, "sched")
	switch x := rc.Intn(100); {
	case x < 5:
		c.KF = KFCreate
	case x < 12:
		c.KF = KFLate
	}
	c.KFReport = c.KF != "" && rc.Intn(8000) == 0

	rd := prng.New(prng.DeriveS(seed, "data"))
	p.Series = genSeriesUniverse(rd)
	ns := len(p.Series)
	// kind of each series: mostly float, some histogram, some mixed
	kinds := make([]int, ns) // 0 float, 1 hist, 2 fhist, 3 mixed
	for i := range kinds {
		kinds[i] = []int{0, 0, 0, 0, 1, 2, 3}[rd.Intn(7)]
	}
	// replicated (identical) samples: per series a base table used by several storages
	replicate := rd.Chance(0.6)
	p.Init = make([][]SeriesData, nst)
	shared := map[[2]int64]Sample{}
	for st := 0; st < nst; st++ {
		for s := 0; s < ns; s++ {
			if !rd.Chance(0.55) {
				continue
			}
			n := rd.Range(1, 10)
			if rd.Chance(0.1) {
				n = 0
			}
			ts := map[int64]bool{}
			for len(ts) < n {
				ts[int64(tBase+tStep*rd.Intn(tGrid))] = true
			}
			var tl []int64
			for t := range ts {
				tl = append(tl, t)
			}
			sort.Slice(tl, func(i, j int) bool { return tl[i] < tl[j] })
			sd := SeriesData{S: s}
			for _, t := range tl {
				kind := kinds[s]
				if kind == 3 {
					kind = rd.Intn(3)
				}
				var sm Sample
				key := [2]int64{int64(s), t}
				if sh, ok := shared[key]; ok && replicate && rd.Chance(0.7) {
					sm = sh
				} else {
					sm = genSample(rd, st, s, t, kind)
					if _, ok := shared[key]; !ok {
						shared[key] = sm
					}
				}
				sd.Sm = append(sd.Sm, sm)
			}
			if len(sd.Sm) > 0 {
				p.Init[st] = append(p.Init[st], sd)
			}
		}
	}

	ro := prng.New(prng.DeriveS(seed, "ops"))
	nops := ro.Range(3, 9)
	if tier == "thorough" && ro.Chance(0.3) {
		nops = ro.Range(6, 16)
	}
	anyHead := false
	for _, b := range c.Backend {
		anyHead = anyHead || b == "head"
	}
	round, inRound := 0, 0
	appendT := int64(tAppend)
	id := 0
	for len(p.Ops) < nops {
		id++
		o := Op{ID: id, Round: round}
		switch ro.Pick([]int{30, 22, 10, 10, 22}) {
		case 0, 1:
			o.K = "query"
			if ro.Chance(0.42) {
				o.K = "cquery"
			}
			switch ro.Intn(4) {
			case 0:
				o.Mint, o.Maxt = math.MinInt64, math.MaxInt64
			case 1:
				o.Mint, o.Maxt = 0, 1_000_000
			default:
				a := int64(tBase + tStep*ro.Intn(tGrid))
				b := a + int64(tStep*ro.Intn(tGrid))
				if ro.Chance(0.3) {
					b = 1_000_000
				}
				o.Mint, o.Maxt = a, b
			}
			nsel := 1
			if ro.Chance(0.35) {
				nsel = ro.Range(2, 3)
			}
			for i := 0; i < nsel; i++ {
				sl := Sel{M: genMatchers(ro), Sorted: ro.Chance(0.7), NoHint: ro.Chance(0.2)}
				if !sl.NoHint && ro.Chance(0.2) {
					sl.Limit = ro.Range(1, 4)
				}
				o.Sels = append(o.Sels, sl)
			}
			o.Inter = nsel > 1 && ro.Chance(0.4)
			o.Rev = nsel > 1 && ro.Chance(0.4)
		case 2:
			o.K = "lnames"
			o.Mint, o.Maxt = 0, 1_000_000
			if ro.Chance(0.5) {
				o.M = genMatchers(ro)
			}
			if ro.Chance(0.3) {
				o.Limit = ro.Range(1, 3)
			}
		case 3:
			o.K = "lvalues"
			o.Mint, o.Maxt = 0, 1_000_000
			o.Name = []string{"__name__", "job", "i", "x", "nosuch"}[ro.Intn(5)]
			if ro.Chance(0.5) {
				o.M = genMatchers(ro)
			}
			if ro.Chance(0.3) {
				o.Limit = ro.Range(1, 3)
			}
		default:
			o.K = "append"
			n := ro.Range(1, 7)
			for i := 0; i < n; i++ {
				s := ro.Intn(ns)
				kind := kinds[s]
				if kind == 3 {
					kind = ro.Intn(3)
				}
				ck := "append"
				if kind != 0 {
					ck = "hist"
				}
				appendT += tStep
				t := appendT
				if ro.Chance(0.08) { // an old timestamp: a natural rejection by in-order storages
					t = int64(tBase + tStep*ro.Intn(tGrid))
				}
				cl := Call{K: ck, S: s, Sm: genSample(ro, txnStore, s, t, kind)}
				switch x := ro.Intn(20); {
				case x == 0:
					cl.K = "exemplar"
				case x == 1:
					cl.K = "meta"
				case x == 2 && !anyHead:
					cl.K = "stzero"
				}
				o.Calls = append(o.Calls, cl)
			}
			o.End = "commit"
			if ro.Chance(0.2) {
				o.End = "rollback"
			}
			o.OnErr = "rollback"
			if ro.Chance(0.35) {
				o.OnErr = "continue"
			}
		}
		// appends run alone; up to three reads may share a round (they run concurrently as scheduler tasks)
		if n := len(p.Ops); n > 0 {
			prev := p.Ops[n-1]
			if o.K == "append" || prev.K == "append" || inRound >= 3 || ro.Chance(0.45) {
				round++
				inRound = 0
			}
		}
		o.Round = round
		inRound++
		p.Ops = append(p.Ops, o)
	}

	// fault plan
	rf := prng.New(prng.DeriveS(seed, "faults"))
	faultFree := rf.Chance(0.15)
	if !faultFree {
		for _, o := range p.Ops {
			nf := 0
			switch rf.Pick([]int{25, 50, 20, 5}) {
			case 1:
				nf = 1
			case 2:
				nf = 2
			case 3:
				nf = 3
			}
			for i := 0; i < nf; i++ {
				f, ok := genFault(rf, c, o)
				if ok {
					p.Faults = append(p.Faults, f)
				}
			}
		}
	}
	return p
}

// genFault draws one fault for op o. Faults whose effect contradicts the statement on the unchanged tree
// (listed known findings) are only drawn in runs that carry the matching KF tag.
func genFault(r *prng.R, c *Config, o Op) (Fault, bool) {
	nst := c.NSec + 1
	st := r.Intn(nst)
	if r.Chance(0.55) && nst > 1 { // bias towards secondaries: that is where the interesting rules are
		st = 1 + r.Intn(c.NSec)
	}
	f := Fault{Op: o.ID, Store: st}
	sec := st > 0
	switch o.K {
	case "query", "cquery":
		nsel := len(o.Sels)
		switch r.Pick([]int{10, 30, 30, 12, 10, 8}) {
		case 0:
			f.Point = "querier"
			if sec && c.KF != KFCreate {
				f.Point = "select"
				f.N = r.Intn(nsel)
			}
		case 1:
			f.Point = "select"
			f.N = r.Intn(nsel)
		case 2:
			f.Point = "next"
			f.N = r.Intn(nsel) * 100 // first Next
		case 3:
			f.Point = "next"
			f.N = r.Intn(nsel)*100 + r.Range(1, 4) // later Next
			if sec && c.KF != KFLate {
				f.N = f.N / 100 * 100
			}
		case 4:
			f.Point = "iter"
			f.N = r.Intn(12)
			if sec && c.KF != KFLate {
				f.Point = "next"
				f.N = r.Intn(nsel) * 100
			}
		default:
			f.Point = "close"
		}
	case "lnames":
		f.Point = []string{"querier", "lnames", "lnames", "lnames", "close"}[r.Intn(5)]
		if f.Point == "querier" && sec && c.KF != KFCreate {
			f.Point = "lnames"
		}
	case "lvalues":
		f.Point = []string{"querier", "lvalues", "lvalues", "lvalues", "close"}[r.Intn(5)]
		if f.Point == "querier" && sec && c.KF != KFCreate {
			f.Point = "lvalues"
		}
	case "append":
		switch r.Pick([]int{40, 40, 20}) {
		case 0:
			f.Point = "append"
			if c.V2 && r.Chance(0.25) {
				f.Point = "partial"
			}
			f.N = r.Intn(len(o.Calls))
		case 1:
			f.Point = "commit"
		default:
			f.Point = "rollback"
		}
	default:
		return f, false
	}
	return f, true
}

// Shrink returns simpler candidate plans, most aggressive first.
func Shrink(p *Plan) []*Plan {
	var out []*Plan
	add := func(f func(q *Plan) bool) {
		q := p.clone()
		if f(q) {
			out = append(out, q)
		}
	}
	// pin the schedule first so that later candidates keep the interleaving
	if !p.Cfg.UseReplay && len(p.lastChoices) > 0 {
		add(func(q *Plan) bool {
			q.Cfg.UseReplay, q.Cfg.Replay = true, append([]int{}, p.lastChoices...)
			return true
		})
	}
	// drop chunks of ops
	n := len(p.Ops)
	for size := n / 2; size >= 1; size /= 2 {
		for start := 0; start+size <= n; start += size {
			start, size := start, size
			add(func(q *Plan) bool {
				q.Ops = append(q.Ops[:start], q.Ops[start+size:]...)
				q.dropOrphanFaults()
				return true
			})
		}
		if size == 1 {
			break
		}
	}
	// drop faults
	for i := range p.Faults {
		i := i
		add(func(q *Plan) bool { q.Faults = append(q.Faults[:i], q.Faults[i+1:]...); return true })
	}
	// drop the last secondary
	if p.Cfg.NSec > 1 {
		add(func(q *Plan) bool {
			last := q.Cfg.NSec
			q.Cfg.NSec--
			q.Cfg.Backend = q.Cfg.Backend[:last]
			q.Cfg.Noop = q.Cfg.Noop[:last]
			q.Init = q.Init[:last]
			var fs []Fault
			for _, f := range q.Faults {
				if f.Store < last {
					fs = append(fs, f)
				}
			}
			q.Faults = fs
			return true
		})
	}
	// drop series of a storage, then halve sample lists
	for st := range p.Init {
		for i := range p.Init[st] {
			st, i := st, i
			add(func(q *Plan) bool { q.Init[st] = append(q.Init[st][:i], q.Init[st][i+1:]...); return true })
		}
	}
	for st := range p.Init {
		for i := range p.Init[st] {
			st, i := st, i
			if len(p.Init[st][i].Sm) > 1 {
				add(func(q *Plan) bool { sm := q.Init[st][i].Sm; q.Init[st][i].Sm = sm[:len(sm)/2]; return true })
				add(func(q *Plan) bool { sm := q.Init[st][i].Sm; q.Init[st][i].Sm = sm[len(sm)/2:]; return true })
			}
		}
	}
	// simplify ops: fewer selects, fewer calls
	for i, o := range p.Ops {
		i := i
		if len(o.Sels) > 1 {
			for j := range o.Sels {
				j := j
				add(func(q *Plan) bool {
					if q.hasSelFault(q.Ops[i].ID) {
						return false
					}
					q.Ops[i].Sels = append(q.Ops[i].Sels[:j], q.Ops[i].Sels[j+1:]...)
					return true
				})
			}
		}
		if len(o.Calls) > 1 {
			for j := range o.Calls {
				j := j
				add(func(q *Plan) bool {
					for _, f := range q.Faults {
						if f.Op == q.Ops[i].ID && (f.Point == "append" || f.Point == "partial") {
							return false
						}
					}
					q.Ops[i].Calls = append(q.Ops[i].Calls[:j], q.Ops[i].Calls[j+1:]...)
					return true
				})
			}
		}
	}
	// configuration
	add(func(q *Plan) bool { v := q.Cfg.Fine; q.Cfg.Fine = false; return v })
	add(func(q *Plan) bool { v := q.Cfg.Scramble; q.Cfg.Scramble = false; return v })
	add(func(q *Plan) bool { v := q.Cfg.V2; q.Cfg.V2 = false; return v })
	for i, b := range p.Cfg.Backend {
		i := i
		if b == "head" {
			add(func(q *Plan) bool { q.Cfg.Backend[i] = "mem"; return true })
		}
	}
	// schedule: shorter explicit choice lists
	if l := len(p.Cfg.Replay); l > 0 && p.Cfg.UseReplay {
		add(func(q *Plan) bool { q.Cfg.Replay = q.Cfg.Replay[:l/2]; return true })
		add(func(q *Plan) bool { q.Cfg.Replay = q.Cfg.Replay[:l-1]; return true })
		add(func(q *Plan) bool {
			ch := false
			for i := range q.Cfg.Replay {
				if q.Cfg.Replay[i] != 0 {
					q.Cfg.Replay[i] = 0
					ch = true
				}
			}
			return ch
		})
	}
	return out
}

func (p *Plan) dropOrphanFaults() {
	ids := map[int]bool{}
	for _, o := range p.Ops {
		ids[o.ID] = true
	}
	var fs []Fault
	for _, f := range p.Faults {
		if ids[f.Op] {
			fs = append(fs, f)
		}
	}
	p.Faults = fs
}

func (p *Plan) hasSelFault(op int) bool {
	for _, f := range p.Faults {
		if f.Op == op && (f.Point == "select" || f.Point == "next") {
			return true
		}
	}
	return false
}
