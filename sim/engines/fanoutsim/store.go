package fanoutsim

import (
	"context"
	"errors"
	"fmt"
	"math"
	"os"
	"path/filepath"
	"sort"

	"github.com/prometheus/prometheus/model/exemplar"
	"github.com/prometheus/prometheus/model/histogram"
	"github.com/prometheus/prometheus/model/labels"
	"github.com/prometheus/prometheus/model/metadata"
	"github.com/prometheus/prometheus/storage"
	"github.com/prometheus/prometheus/tsdb"
	"github.com/prometheus/prometheus/tsdb/chunkenc"
	"github.com/prometheus/prometheus/tsdb/chunks"
	"github.com/prometheus/prometheus/util/annotations"

	"verif/sim/core/prng"
	"verif/sim/core/runner"
	"verif/sim/core/sched"
	"verif/sim/model/histgen"
	"verif/sim/model/tsdbmodel"
)

// ---------------------------------------------------------------------------------------------
// world: what the seams share during one run

// injErr is one injected failure; identity (pointer) comparison through errors.Is.
type injErr struct {
	f Fault
}

func (e *injErr) Error() string {
	return fmt.Sprintf("injected failure: storage %d %s #%d (op %d)", e.f.Store, e.f.Point, e.f.N, e.f.Op)
}

type faultKey struct {
	op, store int
	point     string
	n         int
}

// event is one entry of the seam call log.
type event struct {
	op, store int
	kind      string // querier.open, querier.close, app.open, app.append, app.commit, app.rollback, ...
	obj       int    // querier / appender ordinal
	call      int    // fanout-level call index (appends)
	err       error
	ok        bool // appends: the storage accepted the sample (no error, or only a partial error)
	lset      string
	sm        tsdbmodel.Sample
	ref       storage.SeriesRef
}

type world struct {
	s      *sched.Sched
	cfg    *Config
	res    *runner.Result
	faults map[faultKey]Fault
	fired  []*injErr
	log    []event
	curOp  int // op of the task that is running (restored by every seam after its yield)
	call   int // index of the current fanout appender call (append rounds run alone)
	nobj   int
	quiet  bool // no yields, no faults (set-up, reference queries, shutdown)
}

func (w *world) yield(op int, site string, store int) {
	if w.quiet || w.s == nil {
		return
	}
	w.s.Yield(site, store, op)
	w.curOp = op
}

// fault returns the injected error of (op, store, point, n) if the plan has one; it is recorded as fired.
func (w *world) fault(op, store int, point string, n int) error {
	if w.quiet {
		return nil
	}
	f, ok := w.faults[faultKey{op, store, point, n}]
	if !ok {
		return nil
	}
	e := &injErr{f: f}
	w.fired = append(w.fired, e)
	role := "pri"
	if store > 0 {
		role = "sec"
	}
	p := point
	if point == "next" {
		if n%100 == 0 {
			p = "first-next"
		} else {
			p = "later-next"
		}
	}
	w.res.Count("fault:"+role+"-"+p, 1)
	return e
}

func (w *world) firedIn(op int) []*injErr {
	var out []*injErr
	for _, e := range w.fired {
		if e.f.Op == op {
			out = append(out, e)
		}
	}
	return out
}

func (w *world) logf(e event) { w.log = append(w.log, e) }

// ---------------------------------------------------------------------------------------------
// sample construction

func mkSample(s Sample) tsdbmodel.Sample {
	switch s.K {
	case 0:
		return tsdbmodel.Sample{T: s.T, Kind: tsdbmodel.KFloat, F: s.F()}
	case 1:
		var st histgen.State
		h, _ := st.Next(prng.New(s.HS), histgen.Grow, s.F(), false)
		return tsdbmodel.Sample{T: s.T, Kind: tsdbmodel.KHist, H: h}
	default:
		var st histgen.State
		_, fh := st.Next(prng.New(s.HS), histgen.Grow, s.F(), true)
		return tsdbmodel.Sample{T: s.T, Kind: tsdbmodel.KFHist, FH: fh}
	}
}

// csample adapts a model sample to chunks.Sample.
type csample struct{ s tsdbmodel.Sample }

func (c csample) T() int64                      { return c.s.T }
func (c csample) ST() int64                     { return 0 }
func (c csample) F() float64                    { return c.s.F }
func (c csample) H() *histogram.Histogram       { return c.s.H }
func (c csample) FH() *histogram.FloatHistogram { return c.s.FH }
func (c csample) Type() chunkenc.ValueType {
	switch c.s.Kind {
	case tsdbmodel.KHist:
		return chunkenc.ValHistogram
	case tsdbmodel.KFHist:
		return chunkenc.ValFloatHistogram
	}
	return chunkenc.ValFloat
}
func (c csample) Copy() chunks.Sample {
	d := c.s
	if d.H != nil {
		d.H = d.H.Copy()
	}
	if d.FH != nil {
		d.FH = d.FH.Copy()
	}
	return csample{d}
}

// ---------------------------------------------------------------------------------------------
// backends: where a simulated storage keeps its data (fault-free, no yields)

type backend interface {
	Querier(mint, maxt int64) (storage.Querier, error)
	ChunkQuerier(mint, maxt int64) (storage.ChunkQuerier, error)
	Appender(ctx context.Context) storage.Appender
	AppenderV2(ctx context.Context) storage.AppenderV2
	Close() error
}

// --- in-memory backend

type memSeries struct {
	lset labels.Labels
	sm   []tsdbmodel.Sample // sorted by T, unique T
}

type memBackend struct {
	cfg    *Config
	series map[string]*memSeries
}

func newMemBackend(cfg *Config) *memBackend {
	return &memBackend{cfg: cfg, series: map[string]*memSeries{}}
}

func (b *memBackend) sorted() []*memSeries {
	out := make([]*memSeries, 0, len(b.series))
	for _, s := range b.series {
		out = append(out, s)
	}
	sort.Slice(out, func(i, j int) bool { return labels.Compare(out[i].lset, out[j].lset) < 0 })
	return out
}

func matches(l labels.Labels, ms []*labels.Matcher) bool {
	for _, m := range ms {
		if !m.Matches(l.Get(m.Name)) {
			return false
		}
	}
	return true
}

type memQuerier struct {
	b          *memBackend
	mint, maxt int64
	chunk      bool
}

func (q *memQuerier) sel(sortSeries bool, hints *storage.SelectHints, ms []*labels.Matcher) []*memSeries {
	var out []*memSeries
	for _, s := range q.b.sorted() {
		if !matches(s.lset, ms) {
			continue
		}
		var in []tsdbmodel.Sample
		for _, x := range s.sm {
			if x.T >= q.mint && x.T <= q.maxt {
				in = append(in, x)
			}
		}
		if len(in) == 0 {
			continue
		}
		out = append(out, &memSeries{lset: s.lset, sm: in})
	}
	if hints != nil && hints.Limit > 0 && len(out) > hints.Limit && len(ms)%2 == 1 {
		// a storage may or may not honour the limit hint; this one does for an odd number of matchers
		out = out[:hints.Limit]
	}
	if !sortSeries && q.b.cfg.Scramble {
		for i, j := 0, len(out)-1; i < j; i, j = i+1, j-1 {
			out[i], out[j] = out[j], out[i]
		}
	}
	return out
}

func toChunkSamples(sm []tsdbmodel.Sample) []chunks.Sample {
	out := make([]chunks.Sample, len(sm))
	for i, s := range sm {
		out[i] = csample{s}
	}
	return out
}

type listSeriesSet struct {
	ss []storage.Series
	i  int
}

func (s *listSeriesSet) Next() bool                      { s.i++; return s.i <= len(s.ss) }
func (s *listSeriesSet) At() storage.Series              { return s.ss[s.i-1] }
func (*listSeriesSet) Err() error                        { return nil }
func (*listSeriesSet) Warnings() annotations.Annotations { return nil }

type listChunkSeriesSet struct {
	ss []storage.ChunkSeries
	i  int
}

func (s *listChunkSeriesSet) Next() bool                      { s.i++; return s.i <= len(s.ss) }
func (s *listChunkSeriesSet) At() storage.ChunkSeries         { return s.ss[s.i-1] }
func (*listChunkSeriesSet) Err() error                        { return nil }
func (*listChunkSeriesSet) Warnings() annotations.Annotations { return nil }

func (q *memQuerier) Select(_ context.Context, sortSeries bool, hints *storage.SelectHints, ms ...*labels.Matcher) storage.SeriesSet {
	var ss []storage.Series
	for _, s := range q.sel(sortSeries, hints, ms) {
		ss = append(ss, storage.NewListSeries(s.lset, toChunkSamples(s.sm)))
	}
	return &listSeriesSet{ss: ss}
}

type memChunkQuerier struct{ memQuerier }

func (q *memChunkQuerier) Select(_ context.Context, sortSeries bool, hints *storage.SelectHints, ms ...*labels.Matcher) storage.ChunkSeriesSet {
	var ss []storage.ChunkSeries
	for _, s := range q.sel(sortSeries, hints, ms) {
		// cut the samples into pieces of ChunkLen, every piece is encoded by the real encoder (which cuts again on type changes)
		var metas []chunks.Meta
		cl := q.b.cfg.ChunkLen
		if cl <= 0 {
			cl = 120
		}
		for i := 0; i < len(s.sm); i += cl {
			j := min(i+cl, len(s.sm))
			it := storage.NewSeriesToChunkEncoder(storage.NewListSeries(s.lset, toChunkSamples(s.sm[i:j]))).Iterator(nil)
			for it.Next() {
				metas = append(metas, it.At())
			}
			if it.Err() != nil {
				panic("harness: chunk encoding failed: " + it.Err().Error())
			}
		}
		metas2 := metas
		ss = append(ss, &storage.ChunkSeriesEntry{Lset: s.lset, ChunkIteratorFn: func(chunks.Iterator) chunks.Iterator {
			return storage.NewListChunkSeriesIterator(metas2...)
		}})
	}
	return &listChunkSeriesSet{ss: ss}
}

func (q *memQuerier) labelSets(ms []*labels.Matcher) []labels.Labels {
	var out []labels.Labels
	for _, s := range q.b.sorted() {
		if matches(s.lset, ms) {
			out = append(out, s.lset)
		}
	}
	return out
}

func truncate(v []string, limit int, honour bool) []string {
	if honour && limit > 0 && len(v) > limit {
		return v[:limit]
	}
	return v
}

func (q *memQuerier) LabelValues(_ context.Context, name string, hints *storage.LabelHints, ms ...*labels.Matcher) ([]string, annotations.Annotations, error) {
	set := map[string]bool{}
	for _, l := range q.labelSets(ms) {
		if v := l.Get(name); v != "" {
			set[v] = true
		}
	}
	out := sortedKeys(set)
	lim := 0
	if hints != nil {
		lim = hints.Limit
	}
	return truncate(out, lim, len(name)%2 == 1), nil, nil
}

func (q *memQuerier) LabelNames(_ context.Context, hints *storage.LabelHints, ms ...*labels.Matcher) ([]string, annotations.Annotations, error) {
	set := map[string]bool{}
	for _, l := range q.labelSets(ms) {
		l.Range(func(lb labels.Label) { set[lb.Name] = true })
	}
	out := sortedKeys(set)
	lim := 0
	if hints != nil {
		lim = hints.Limit
	}
	return truncate(out, lim, len(ms)%2 == 1), nil, nil
}

func (*memQuerier) Close() error { return nil }

func sortedKeys(m map[string]bool) []string {
	out := make([]string, 0, len(m))
	for k := range m {
		out = append(out, k)
	}
	sort.Strings(out)
	return out
}

func (b *memBackend) Querier(mint, maxt int64) (storage.Querier, error) {
	return &memQuerier{b: b, mint: mint, maxt: maxt}, nil
}

func (b *memBackend) ChunkQuerier(mint, maxt int64) (storage.ChunkQuerier, error) {
	return &memChunkQuerier{memQuerier{b: b, mint: mint, maxt: maxt, chunk: true}}, nil
}

func (*memBackend) Close() error { return nil }

var errOutOfOrder = fmt.Errorf("mem storage: out of order sample")

type pendingSample struct {
	lset labels.Labels
	sm   tsdbmodel.Sample
}

// memAppender is in-order only, like a head without an out-of-order window.
type memAppender struct {
	b       *memBackend
	pending []pendingSample
	last    map[string]int64
}

func (a *memAppender) add(l labels.Labels, sm tsdbmodel.Sample) error {
	k := l.String()
	last, ok := a.last[k]
	if !ok {
		if s := a.b.series[k]; s != nil && len(s.sm) > 0 {
			last, ok = s.sm[len(s.sm)-1].T, true
		}
	}
	if ok && sm.T <= last {
		return errOutOfOrder
	}
	a.last[k] = sm.T
	a.pending = append(a.pending, pendingSample{l, sm})
	return nil
}

func (a *memAppender) Append(_ storage.SeriesRef, l labels.Labels, t int64, v float64) (storage.SeriesRef, error) {
	return 1, a.add(l, tsdbmodel.Sample{T: t, Kind: tsdbmodel.KFloat, F: v})
}

func (a *memAppender) AppendHistogram(_ storage.SeriesRef, l labels.Labels, t int64, h *histogram.Histogram, fh *histogram.FloatHistogram) (storage.SeriesRef, error) {
	if h != nil {
		return 1, a.add(l, tsdbmodel.Sample{T: t, Kind: tsdbmodel.KHist, H: h.Copy()})
	}
	return 1, a.add(l, tsdbmodel.Sample{T: t, Kind: tsdbmodel.KFHist, FH: fh.Copy()})
}

func (*memAppender) AppendExemplar(storage.SeriesRef, labels.Labels, exemplar.Exemplar) (storage.SeriesRef, error) {
	return 1, nil
}

func (*memAppender) AppendHistogramSTZeroSample(storage.SeriesRef, labels.Labels, int64, int64, *histogram.Histogram, *histogram.FloatHistogram) (storage.SeriesRef, error) {
	return 1, nil
}

func (*memAppender) UpdateMetadata(storage.SeriesRef, labels.Labels, metadata.Metadata) (storage.SeriesRef, error) {
	return 1, nil
}

func (*memAppender) AppendSTZeroSample(storage.SeriesRef, labels.Labels, int64, int64) (storage.SeriesRef, error) {
	return 1, nil
}

func (*memAppender) SetOptions(*storage.AppendOptions) {}

func (a *memAppender) Commit() error {
	for _, p := range a.pending {
		k := p.lset.String()
		s := a.b.series[k]
		if s == nil {
			s = &memSeries{lset: p.lset}
			a.b.series[k] = s
		}
		s.sm = append(s.sm, p.sm)
	}
	a.pending = nil
	return nil
}

func (a *memAppender) Rollback() error { a.pending = nil; return nil }

type memAppenderV2 struct{ a *memAppender }

func (a memAppenderV2) Append(_ storage.SeriesRef, l labels.Labels, _, t int64, v float64, h *histogram.Histogram, fh *histogram.FloatHistogram, _ storage.AppendV2Options) (storage.SeriesRef, error) {
	switch {
	case fh != nil:
		return 1, a.a.add(l, tsdbmodel.Sample{T: t, Kind: tsdbmodel.KFHist, FH: fh.Copy()})
	case h != nil:
		return 1, a.a.add(l, tsdbmodel.Sample{T: t, Kind: tsdbmodel.KHist, H: h.Copy()})
	}
	return 1, a.a.add(l, tsdbmodel.Sample{T: t, Kind: tsdbmodel.KFloat, F: v})
}
func (a memAppenderV2) Commit() error   { return a.a.Commit() }
func (a memAppenderV2) Rollback() error { return a.a.Rollback() }

func (b *memBackend) Appender(context.Context) storage.Appender {
	return &memAppender{b: b, last: map[string]int64{}}
}

func (b *memBackend) AppenderV2(context.Context) storage.AppenderV2 {
	return memAppenderV2{&memAppender{b: b, last: map[string]int64{}}}
}

// --- real head backend

type headBackend struct {
	h   *tsdb.Head
	dir string
}

func scratchRoot() string {
	r := os.Getenv("VERIF_SCRATCH")
	if r == "" {
		r = "/dev/shm/verif-sim"
	}
	return filepath.Join(r, fmt.Sprintf("fanoutsim-%d", os.Getpid()))
}

func newHeadBackend(dir string) *headBackend {
	if err := os.MkdirAll(dir, 0o777); err != nil {
		panic("harness: " + err.Error())
	}
	opts := tsdb.DefaultHeadOptions()
	opts.ChunkDirRoot = dir
	opts.ChunkRange = 1 << 40
	opts.ChunkWriteQueueSize = 0
	opts.EnableExemplarStorage = true
	opts.MaxExemplars.Store(100)
	h, err := tsdb.NewHead(nil, nil, nil, nil, opts, nil)
	if err != nil {
		panic("harness: NewHead: " + err.Error())
	}
	if err := h.Init(math.MinInt64); err != nil {
		panic("harness: Head.Init: " + err.Error())
	}
	return &headBackend{h: h, dir: dir}
}

func (b *headBackend) Querier(mint, maxt int64) (storage.Querier, error) {
	return tsdb.NewBlockQuerier(tsdb.NewRangeHead(b.h, mint, maxt), mint, maxt)
}

func (b *headBackend) ChunkQuerier(mint, maxt int64) (storage.ChunkQuerier, error) {
	return tsdb.NewBlockChunkQuerier(tsdb.NewRangeHead(b.h, mint, maxt), mint, maxt)
}

func (b *headBackend) Appender(ctx context.Context) storage.Appender     { return b.h.Appender(ctx) }
func (b *headBackend) AppenderV2(ctx context.Context) storage.AppenderV2 { return b.h.AppenderV2(ctx) }
func (b *headBackend) Close() error {
	err := b.h.Close()
	os.RemoveAll(b.dir)
	return err
}

// ---------------------------------------------------------------------------------------------
// simStorage: the seam. Every call yields to the scheduler and may fail by the fault plan.

type simStorage struct {
	w      *world
	idx    int
	b      backend
	noop   bool
	closed int
}

func (s *simStorage) StartTime() (int64, error) { return 0, nil }

func (s *simStorage) Close() error {
	s.closed++
	return s.b.Close()
}

func (s *simStorage) Querier(mint, maxt int64) (storage.Querier, error) {
	w, op := s.w, s.w.curOp
	w.yield(op, "q.create", s.idx)
	if s.noop {
		return storage.NoopQuerier(), nil
	}
	if err := w.fault(op, s.idx, "querier", 0); err != nil {
		return nil, err
	}
	q, err := s.b.Querier(mint, maxt)
	if err != nil {
		panic("harness: backend querier: " + err.Error())
	}
	w.nobj++
	sq := &simQuerier{w: w, st: s, op: op, id: w.nobj, q: q, lq: q}
	w.logf(event{op: op, store: s.idx, kind: "querier.open", obj: sq.id})
	return sq, nil
}

func (s *simStorage) ChunkQuerier(mint, maxt int64) (storage.ChunkQuerier, error) {
	w, op := s.w, s.w.curOp
	w.yield(op, "q.create", s.idx)
	if s.noop {
		return storage.NoopChunkedQuerier(), nil
	}
	if err := w.fault(op, s.idx, "querier", 0); err != nil {
		return nil, err
	}
	q, err := s.b.ChunkQuerier(mint, maxt)
	if err != nil {
		panic("harness: backend chunk querier: " + err.Error())
	}
	w.nobj++
	sq := &simQuerier{w: w, st: s, op: op, id: w.nobj, cq: q, lq: q}
	w.logf(event{op: op, store: s.idx, kind: "querier.open", obj: sq.id})
	return &simChunkQuerier{sq}, nil
}

// simQuerier wraps a sample or chunk querier of the backend.
type simQuerier struct {
	w    *world
	st   *simStorage
	op   int
	id   int
	q    storage.Querier
	cq   storage.ChunkQuerier
	lq   storage.LabelQuerier
	nsel int
	nit  int // iterator steps so far (all series of this querier)
}

func (q *simQuerier) LabelValues(ctx context.Context, name string, hints *storage.LabelHints, ms ...*labels.Matcher) ([]string, annotations.Annotations, error) {
	q.w.yield(q.op, "q.lvalues", q.st.idx)
	if err := q.w.fault(q.op, q.st.idx, "lvalues", 0); err != nil {
		return nil, nil, err
	}
	return q.lq.LabelValues(ctx, name, hints, ms...)
}

func (q *simQuerier) LabelNames(ctx context.Context, hints *storage.LabelHints, ms ...*labels.Matcher) ([]string, annotations.Annotations, error) {
	q.w.yield(q.op, "q.lnames", q.st.idx)
	if err := q.w.fault(q.op, q.st.idx, "lnames", 0); err != nil {
		return nil, nil, err
	}
	return q.lq.LabelNames(ctx, hints, ms...)
}

func (q *simQuerier) Close() error {
	q.w.yield(q.op, "q.close", q.st.idx)
	err := q.lq.Close()
	if err != nil {
		panic("harness: backend querier close: " + err.Error())
	}
	if ferr := q.w.fault(q.op, q.st.idx, "close", 0); ferr != nil {
		err = ferr
	}
	q.w.logf(event{op: q.op, store: q.st.idx, kind: "querier.close", obj: q.id, err: err})
	return err
}

func (q *simQuerier) Select(ctx context.Context, sortSeries bool, hints *storage.SelectHints, ms ...*labels.Matcher) storage.SeriesSet {
	// NOTE: called concurrently (one goroutine per storage) by the merge querier; the yield is what orders them.
	q.w.yield(q.op, "q.select", q.st.idx)
	ord := q.nsel
	q.nsel++
	q.w.logf(event{op: q.op, store: q.st.idx, kind: "querier.select", obj: q.id, call: ord})
	if err := q.w.fault(q.op, q.st.idx, "select", ord); err != nil {
		return storage.ErrSeriesSet(err)
	}
	in := q.q.Select(ctx, sortSeries, hints, ms...)
	scribble(ms)
	return &simSeriesSet{q: q, sel: ord, in: in}
}

// scribble overwrites the matcher slice a storage was given: queriers may alter the slice they receive
// (prometheus issue 14723), so a caller must not share one slice between concurrent Selects.
func scribble(ms []*labels.Matcher) {
	for i := range ms {
		ms[i] = labels.MustNewMatcher(labels.MatchEqual, "__name__", "scribbled-by-another-storage")
	}
}

type simChunkQuerier struct{ *simQuerier }

func (q *simChunkQuerier) Select(ctx context.Context, sortSeries bool, hints *storage.SelectHints, ms ...*labels.Matcher) storage.ChunkSeriesSet {
	q.w.yield(q.op, "q.select", q.st.idx)
	ord := q.nsel
	q.nsel++
	q.w.logf(event{op: q.op, store: q.st.idx, kind: "querier.select", obj: q.id, call: ord})
	if err := q.w.fault(q.op, q.st.idx, "select", ord); err != nil {
		return storage.ErrChunkSeriesSet(err)
	}
	in := q.cq.Select(ctx, sortSeries, hints, ms...)
	scribble(ms)
	return &simChunkSeriesSet{q: q.simQuerier, sel: ord, in: in}
}

type simSeriesSet struct {
	q    *simQuerier
	sel  int
	in   storage.SeriesSet
	n    int
	err  error
	done bool
}

func (s *simSeriesSet) Next() bool {
	s.q.w.yield(s.q.op, "ss.next", s.q.st.idx)
	if s.done {
		return false
	}
	n := s.n
	s.n++
	if err := s.q.w.fault(s.q.op, s.q.st.idx, "next", s.sel*100+n); err != nil {
		s.err, s.done = err, true
		return false
	}
	if !s.in.Next() {
		s.done = true
		return false
	}
	return true
}

func (s *simSeriesSet) At() storage.Series {
	s.q.w.yield(s.q.op, "ss.at", s.q.st.idx)
	return &simSeries{q: s.q, in: s.in.At()}
}

func (s *simSeriesSet) Err() error {
	if s.err != nil {
		return s.err
	}
	return s.in.Err()
}

func (s *simSeriesSet) Warnings() annotations.Annotations { return s.in.Warnings() }

type simSeries struct {
	q  *simQuerier
	in storage.Series
}

func (s *simSeries) Labels() labels.Labels { return s.in.Labels() }

func (s *simSeries) Iterator(it chunkenc.Iterator) chunkenc.Iterator {
	var inner chunkenc.Iterator
	if prev, ok := it.(*simIter); ok {
		inner = prev.in
	}
	return &simIter{q: s.q, in: s.in.Iterator(inner)}
}

type simIter struct {
	q   *simQuerier
	in  chunkenc.Iterator
	err error
}

func (it *simIter) step() error {
	if it.q.w.cfg.Fine {
		it.q.w.yield(it.q.op, "it.step", it.q.st.idx)
	}
	n := it.q.nit
	it.q.nit++
	if err := it.q.w.fault(it.q.op, it.q.st.idx, "iter", n); err != nil {
		it.err = err
		return err
	}
	return nil
}

func (it *simIter) Next() chunkenc.ValueType {
	if it.err != nil || it.step() != nil {
		return chunkenc.ValNone
	}
	return it.in.Next()
}

func (it *simIter) Seek(t int64) chunkenc.ValueType {
	if it.err != nil || it.step() != nil {
		return chunkenc.ValNone
	}
	return it.in.Seek(t)
}

func (it *simIter) At() (int64, float64) { return it.in.At() }
func (it *simIter) AtHistogram(h *histogram.Histogram) (int64, *histogram.Histogram) {
	return it.in.AtHistogram(h)
}
func (it *simIter) AtFloatHistogram(fh *histogram.FloatHistogram) (int64, *histogram.FloatHistogram) {
	return it.in.AtFloatHistogram(fh)
}
func (it *simIter) AtT() int64  { return it.in.AtT() }
func (it *simIter) AtST() int64 { return it.in.AtST() }
func (it *simIter) Err() error {
	if it.err != nil {
		return it.err
	}
	return it.in.Err()
}

type simChunkSeriesSet struct {
	q    *simQuerier
	sel  int
	in   storage.ChunkSeriesSet
	n    int
	err  error
	done bool
}

func (s *simChunkSeriesSet) Next() bool {
	s.q.w.yield(s.q.op, "ss.next", s.q.st.idx)
	if s.done {
		return false
	}
	n := s.n
	s.n++
	if err := s.q.w.fault(s.q.op, s.q.st.idx, "next", s.sel*100+n); err != nil {
		s.err, s.done = err, true
		return false
	}
	if !s.in.Next() {
		s.done = true
		return false
	}
	return true
}

func (s *simChunkSeriesSet) At() storage.ChunkSeries {
	s.q.w.yield(s.q.op, "ss.at", s.q.st.idx)
	return &simChunkSeries{q: s.q, in: s.in.At()}
}

func (s *simChunkSeriesSet) Err() error {
	if s.err != nil {
		return s.err
	}
	return s.in.Err()
}

func (s *simChunkSeriesSet) Warnings() annotations.Annotations { return s.in.Warnings() }

type simChunkSeries struct {
	q  *simQuerier
	in storage.ChunkSeries
}

func (s *simChunkSeries) Labels() labels.Labels { return s.in.Labels() }
func (s *simChunkSeries) Iterator(chunks.Iterator) chunks.Iterator {
	return &simChunkIter{q: s.q, in: s.in.Iterator(nil)}
}

type simChunkIter struct {
	q   *simQuerier
	in  chunks.Iterator
	err error
}

func (it *simChunkIter) Next() bool {
	if it.err != nil {
		return false
	}
	if it.q.w.cfg.Fine {
		it.q.w.yield(it.q.op, "it.step", it.q.st.idx)
	}
	n := it.q.nit
	it.q.nit++
	if err := it.q.w.fault(it.q.op, it.q.st.idx, "iter", n); err != nil {
		it.err = err
		return false
	}
	return it.in.Next()
}
func (it *simChunkIter) At() chunks.Meta { return it.in.At() }
func (it *simChunkIter) Err() error {
	if it.err != nil {
		return it.err
	}
	return it.in.Err()
}

// --- appenders

func (s *simStorage) Appender(ctx context.Context) storage.Appender {
	w, op := s.w, s.w.curOp
	w.yield(op, "a.create", s.idx)
	w.nobj++
	a := &simAppender{w: w, st: s, op: op, id: w.nobj, in: s.b.Appender(ctx)}
	w.logf(event{op: op, store: s.idx, kind: "app.open", obj: a.id})
	return a
}

func (s *simStorage) AppenderV2(ctx context.Context) storage.AppenderV2 {
	w, op := s.w, s.w.curOp
	w.yield(op, "a.create", s.idx)
	w.nobj++
	a := &simAppender{w: w, st: s, op: op, id: w.nobj, in2: s.b.AppenderV2(ctx)}
	w.logf(event{op: op, store: s.idx, kind: "app.open", obj: a.id})
	return simAppenderV2{a}
}

// simAppender wraps a v1 or v2 appender of the backend. Series references handed out identify the storage,
// so that a reference of another storage passed in by the fanout is noticed (counted, see probe "foreign-ref").
type simAppender struct {
	w    *world
	st   *simStorage
	op   int
	id   int
	in   storage.Appender
	in2  storage.AppenderV2
	last map[string]int64 // newest timestamp appended per series in this transaction
}

// inOrder is part of the simulated storage's contract: samples of one series must be appended in increasing
// timestamp order within a transaction (a real head accepts such a sample at Append and drops it at Commit; the
// simulated storages reject it at Append so that "accepted" means "will be stored by Commit").
func (a *simAppender) inOrder(l labels.Labels, t int64) error {
	if a.last == nil {
		a.last = map[string]int64{}
	}
	k := l.String()
	if last, ok := a.last[k]; ok && t <= last {
		return errOutOfOrder
	}
	a.last[k] = t
	return nil
}

func (a *simAppender) ref() storage.SeriesRef { return storage.SeriesRef((a.st.idx+1)<<20 | 1) }

func (a *simAppender) pre(kind string, ref storage.SeriesRef, l labels.Labels, sm tsdbmodel.Sample) (event, error) {
	a.w.yield(a.op, "a."+kind, a.st.idx)
	if ref != 0 && ref != a.ref() {
		a.w.res.Count("foreign-ref-passed-to-storage", 1)
	}
	ev := event{op: a.op, store: a.st.idx, kind: "app." + kind, obj: a.id, call: a.w.call, lset: l.String(), sm: sm, ref: ref}
	if err := a.w.fault(a.op, a.st.idx, "append", a.w.call); err != nil {
		ev.err = err
		a.w.logf(ev)
		return ev, err
	}
	return ev, nil
}

func (a *simAppender) post(ev event, err error) (storage.SeriesRef, error) {
	ev.err = err
	ev.ok = err == nil
	var pe *storage.AppendPartialError
	if err != nil && errors.As(err, &pe) {
		ev.ok = true
	}
	if ev.ok && err == nil && a.in2 != nil {
		// AppenderV2 only: the sample is stored but an attached exemplar is reported as rejected
		if ferr := a.w.fault(a.op, a.st.idx, "partial", a.w.call); ferr != nil {
			err = &storage.AppendPartialError{ExemplarErrors: []error{ferr}}
			ev.err = err
		}
	}
	a.w.logf(ev)
	if !ev.ok {
		return 0, err
	}
	return a.ref(), err
}

func (a *simAppender) Append(ref storage.SeriesRef, l labels.Labels, t int64, v float64) (storage.SeriesRef, error) {
	ev, err := a.pre("append", ref, l, tsdbmodel.Sample{T: t, Kind: tsdbmodel.KFloat, F: v})
	if err != nil {
		return 0, err
	}
	if err = a.inOrder(l, t); err == nil {
		_, err = a.in.Append(0, l, t, v)
	}
	return a.post(ev, err)
}

func (a *simAppender) AppendHistogram(ref storage.SeriesRef, l labels.Labels, t int64, h *histogram.Histogram, fh *histogram.FloatHistogram) (storage.SeriesRef, error) {
	sm := tsdbmodel.Sample{T: t, Kind: tsdbmodel.KHist, H: h}
	if h == nil {
		sm = tsdbmodel.Sample{T: t, Kind: tsdbmodel.KFHist, FH: fh}
	}
	ev, err := a.pre("hist", ref, l, sm)
	if err != nil {
		return 0, err
	}
	if err = a.inOrder(l, t); err == nil {
		_, err = a.in.AppendHistogram(0, l, t, h, fh)
	}
	return a.post(ev, err)
}

func (a *simAppender) AppendExemplar(ref storage.SeriesRef, l labels.Labels, e exemplar.Exemplar) (storage.SeriesRef, error) {
	ev, err := a.pre("exemplar", ref, l, tsdbmodel.Sample{T: e.Ts, F: e.Value})
	if err != nil {
		return 0, err
	}
	_, err = a.in.AppendExemplar(0, l, e)
	return a.post(ev, err)
}

func (a *simAppender) AppendHistogramSTZeroSample(ref storage.SeriesRef, l labels.Labels, t, st int64, h *histogram.Histogram, fh *histogram.FloatHistogram) (storage.SeriesRef, error) {
	ev, err := a.pre("hstzero", ref, l, tsdbmodel.Sample{T: t})
	if err != nil {
		return 0, err
	}
	_, err = a.in.AppendHistogramSTZeroSample(0, l, t, st, h, fh)
	return a.post(ev, err)
}

func (a *simAppender) UpdateMetadata(ref storage.SeriesRef, l labels.Labels, m metadata.Metadata) (storage.SeriesRef, error) {
	ev, err := a.pre("meta", ref, l, tsdbmodel.Sample{})
	if err != nil {
		return 0, err
	}
	_, err = a.in.UpdateMetadata(0, l, m)
	return a.post(ev, err)
}

func (a *simAppender) AppendSTZeroSample(ref storage.SeriesRef, l labels.Labels, t, st int64) (storage.SeriesRef, error) {
	ev, err := a.pre("stzero", ref, l, tsdbmodel.Sample{T: t})
	if err != nil {
		return 0, err
	}
	_, err = a.in.AppendSTZeroSample(0, l, t, st)
	return a.post(ev, err)
}

func (a *simAppender) SetOptions(o *storage.AppendOptions) {
	if a.in != nil {
		a.in.SetOptions(o)
	}
}

func (a *simAppender) Commit() error {
	a.w.yield(a.op, "a.commit", a.st.idx)
	ev := event{op: a.op, store: a.st.idx, kind: "app.commit", obj: a.id}
	var err error
	if ferr := a.w.fault(a.op, a.st.idx, "commit", 0); ferr != nil {
		// a failed commit rolls back (storage.AppenderTransaction contract)
		err = ferr
		if a.in != nil {
			_ = a.in.Rollback()
		} else {
			_ = a.in2.Rollback()
		}
	} else if a.in != nil {
		err = a.in.Commit()
	} else {
		err = a.in2.Commit()
	}
	ev.err = err
	a.w.logf(ev)
	return err
}

func (a *simAppender) Rollback() error {
	a.w.yield(a.op, "a.rollback", a.st.idx)
	ev := event{op: a.op, store: a.st.idx, kind: "app.rollback", obj: a.id}
	var err error
	if a.in != nil {
		err = a.in.Rollback()
	} else {
		err = a.in2.Rollback()
	}
	if ferr := a.w.fault(a.op, a.st.idx, "rollback", 0); ferr != nil {
		err = ferr
	}
	ev.err = err
	a.w.logf(ev)
	return err
}

type simAppenderV2 struct{ a *simAppender }

func (v simAppenderV2) Append(ref storage.SeriesRef, l labels.Labels, st, t int64, f float64, h *histogram.Histogram, fh *histogram.FloatHistogram, opts storage.AppendV2Options) (storage.SeriesRef, error) {
	sm := tsdbmodel.Sample{T: t, Kind: tsdbmodel.KFloat, F: f}
	kind := "append"
	switch {
	case fh != nil:
		sm, kind = tsdbmodel.Sample{T: t, Kind: tsdbmodel.KFHist, FH: fh}, "hist"
	case h != nil:
		sm, kind = tsdbmodel.Sample{T: t, Kind: tsdbmodel.KHist, H: h}, "hist"
	}
	ev, err := v.a.pre(kind, ref, l, sm)
	if err != nil {
		return 0, err
	}
	if err = v.a.inOrder(l, t); err == nil {
		_, err = v.a.in2.Append(0, l, st, t, f, h, fh, opts)
	}
	return v.a.post(ev, err)
}
func (v simAppenderV2) Commit() error   { return v.a.Commit() }
func (v simAppenderV2) Rollback() error { return v.a.Rollback() }
