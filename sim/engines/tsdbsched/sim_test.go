package tsdbsched

import (
	"testing"

	"verif/sim/core/runner"
)

func TestSim(t *testing.T) { runner.Main(t, Engine{}) }
