// Package tsdbsched is the scheduling engine for the TSDB head: the real Head/DB runs inside a synctest bubble while a
// seeded scheduler decides, at scheduling points inside Commit and inside the compaction protocol, which of the
// appender, reader, maintenance and compaction tasks proceeds. Properties: C05 (readers see whole transactions only)
// and C06 (queries racing with compaction see each sample exactly once; compaction finishes once queries close).
package tsdbsched

import (
	"encoding/json"
	"testing"

	"verif/sim/core/runner"
)

// Engine adapts tsdbsched to the runner.
type Engine struct{}

func (Engine) Name() string { return "tsdbsched" }

// Runs: fixed run counts per tier.
func (Engine) Runs(prop, tier string) int {
	n := map[string]int{"C05": 2400, "C06": 600}[prop]
	if n == 0 {
		n = 1000
	}
	if tier == "thorough" {
		n *= 40
	}
	return n
}

func (Engine) Generate(prop, tier string, seed uint64) any { return Generate(prop, tier, seed) }

func (Engine) DecodePlan(b []byte) (any, error) {
	var p Plan
	if err := json.Unmarshal(b, &p); err != nil {
		return nil, err
	}
	return &p, nil
}

func (Engine) Execute(t *testing.T, prop string, plan any) *runner.Result {
	return Execute(t, prop, plan.(*Plan))
}

func (Engine) Shrink(plan any) []any {
	var out []any
	for _, p := range Shrink(plan.(*Plan)) {
		out = append(out, p)
	}
	return out
}
