package tsdbsched

import (
	"context"
	"fmt"
	"math"
	"os"
	"path/filepath"
	"runtime/debug"
	"sort"
	"strings"
	"sync"
	"testing"
	"testing/synctest"
	"time"

	"github.com/prometheus/prometheus/model/histogram"
	"github.com/prometheus/prometheus/model/labels"
	"github.com/prometheus/prometheus/storage"
	"github.com/prometheus/prometheus/tsdb"
	"github.com/prometheus/prometheus/tsdb/chunkenc"
	"github.com/prometheus/prometheus/util/simhook"

	"verif/sim/core/prng"
	"verif/sim/core/runner"
	"verif/sim/core/sched"
)

// ---- hook ----

type hookT struct {
	mu sync.Mutex
	e  *exec
}

var theHook = &hookT{}

func init() { simhook.Install(theHook) }

func (h *hookT) cur() *exec {
	h.mu.Lock()
	defer h.mu.Unlock()
	return h.e
}

func (h *hookT) set(e *exec) {
	h.mu.Lock()
	h.e = e
	h.mu.Unlock()
}

// parkSites are the scheduling points this engine uses: all of them are reached with no lock held that another
// task of this engine takes (the compaction task may hold DB.cmtx and Head.chunkSnapshotMtx, which nobody else wants).
// Other hook sites of the tree (e.g. inside ChunkDiskMapper.Chunk, reached with a series lock held) are passed through.
func parkSite(site string) bool {
	return strings.HasPrefix(site, "tsdb.headAppender.Commit.") || strings.HasPrefix(site, "tsdb.Head.truncateMemory.") ||
		strings.HasPrefix(site, "tsdb.DB.compactHead.") || strings.HasPrefix(site, "tsdb.DB.compactOOOHead.") ||
		site == "tsdb.DB.reloadBlocks.swapped"
	// Not used here: the scheduling points inside ChunkDiskMapper.Truncate. Parking there lets a commit cut a new head
	// chunk file while the truncation is about to reset the file sequence - the listed finding
	// head-chunk-file-sequence-desync-after-all-files-truncated of the chunk disk mapper engine (cdmsim, C25), which
	// ends in a panic under the series lock. This engine treats Truncate as one step.
}

func (h *hookT) Yield(site string, keys ...int) {
	e := h.cur()
	if e == nil || !parkSite(site) {
		return
	}
	e.mu.Lock()
	e.sites[site]++
	s := e.s
	db := e.db
	e.mu.Unlock()
	if os.Getenv("VERIF_DEBUG") != "" && db != nil && !strings.HasPrefix(site, "tsdb.headAppender") {
		h := db.Head()
		fmt.Printf("DBG site %s: head series=%d [%d,%d] ooo[%d,%d] blocks=%d\n", site, h.NumSeries(), h.MinTime(), h.MaxTime(), h.MinOOOTime(), h.MaxOOOTime(), len(db.Blocks()))
	}
	if s != nil {
		s.Yield(site, keys...)
	}
}
func (h *hookT) Acquire(string, bool)           {} // mirrored locks of the chunk disk mapper: never held across a park point here
func (h *hookT) Release(string, bool)           {}
func (h *hookT) IO(string, string, string, int) {}
func (h *hookT) Event(string, ...any)           {}
func (h *hookT) ID16(b [16]byte) [16]byte {
	e := h.cur()
	if e == nil {
		return b
	}
	e.mu.Lock()
	defer e.mu.Unlock()
	e.ulidCtr++
	var out [16]byte
	copy(out[:6], b[:6])
	x := prng.Derive(e.cfg.Seed, 0xb10c, uint64(e.ulidCtr))
	for i := 0; i < 8; i++ {
		out[8+i] = byte(x >> (8 * uint(i)))
	}
	out[6], out[7] = byte(e.ulidCtr>>8), byte(e.ulidCtr)
	return out
}

// ---- run state ----

type smp struct {
	t  int64
	v  float64
	tx int
}

type exec struct {
	t    *testing.T
	prop string
	cfg  Config
	plan *Plan
	res  *runner.Result
	rng  *prng.R

	mu      sync.Mutex
	s       *sched.Sched
	db      *tsdb.DB
	dir     string
	ulidCtr int
	sites   map[string]int

	lsets []labels.Labels
	clock int64   // global tick: every in-order sample gets the next tick as timestamp
	lease []int   // series -> appender (1-based) holding uncommitted samples for it
	lastT []int64 // newest in-order timestamp handed out per series
	oooT  []int64 // next out-of-order timestamp per series (decreasing)
	txSeq int

	// committed[s]: in-order samples whose Commit has returned; ooo[s]: accepted out-of-order samples whose Commit has
	// returned; oooPending[s]: out-of-order samples of transactions that are committing or have committed (upper bound)
	committed  [][]smp
	ooo        [][]smp
	oooPending [][]smp

	hcnt     []int64 // per series: current bucket count of its histogram counter
	stopped  bool
	finished map[string]bool
	failed   bool
}

func scratchRoot() string {
	if d := os.Getenv("VERIF_SCRATCH"); d != "" {
		return filepath.Join(d, fmt.Sprintf("tsdbsched-%d", os.Getpid()))
	}
	return filepath.Join("/dev/shm/verif-sim", fmt.Sprintf("tsdbsched-%d", os.Getpid()))
}

func (e *exec) fail(oracle, sig, format string, a ...any) {
	e.mu.Lock()
	defer e.mu.Unlock()
	if e.failed || e.stopped {
		return
	}
	e.failed = true
	e.res.Violate(e.prop, oracle, sig, format, a...)
}

func (e *exec) isFailed() bool {
	e.mu.Lock()
	defer e.mu.Unlock()
	return e.failed || e.stopped
}

// yield is a harness scheduling point.
func (e *exec) yield(id string) {
	if !e.isFailed() {
		e.s.Yield(id)
	}
}

const tick = 1000 // milliseconds per tick

// stamp is the timestamp of tick t: t*tick, except that in half of the block ranges the last tick is moved to the last
// millisecond of the range (monotone in t), so that samples exist exactly at the edges that truncation and querier
// bounds compare against.
func (e *exec) stamp(t int64) int64 {
	if e.cfg.Windows && (t+1)%e.cfg.R == 0 && prng.Derive(e.cfg.Seed, 0x57a, uint64(t))%2 == 0 {
		return (t+1)*tick - 1
	}
	return t * tick
}

// ---- tasks ----

func (e *exec) appender(a int, txs []Tx) {
	ctx := context.Background()
	id := fmt.Sprintf("app%d", a)
	for _, tx := range txs {
		if e.isFailed() {
			return
		}
		e.yield(id)
		app := e.db.Appender(ctx)
		e.mu.Lock()
		e.txSeq++
		txid := e.txSeq
		e.mu.Unlock()
		var inord, outord [][2]int // (series, index into pending slices)
		var pend []smp
		var pendSeries []int
		for _, s := range tx.Series {
			// one writer per series at a time keeps every sample in order at commit time; wait a little for the
			// series to become free, then leave it out (two tasks waiting for each other's series must not stall)
			got := false
			for try := 0; try < 4 && !got; try++ {
				e.mu.Lock()
				if e.lease[s] == 0 || e.lease[s] == a+1 {
					e.lease[s] = a + 1
					got = true
				}
				e.mu.Unlock()
				if !got {
					e.yield(id)
				}
			}
			if !got {
				e.res.Count("lease_conflicts", 1)
				continue
			}
			for k := 0; k < tx.N; k++ {
				e.mu.Lock()
				var t int64
				isOOO := tx.OOO && e.lastT[s] != 0
				if isOOO {
					e.oooT[s]--
					t = e.oooT[s]
				} else {
					e.clock += 1 + int64(e.cfg.Stride)
					t = e.clock
					e.lastT[s] = t
				}
				e.mu.Unlock()
				v := float64(txid*1000 + len(pend))
				var err error
				if e.cfg.Hist && s%2 == 1 {
					// an integer histogram whose sum carries the value; the bucket counts grow, and drop now and then
					e.mu.Lock()
					if e.hcnt == nil {
						e.hcnt = make([]int64, e.cfg.NSeries)
					}
					if e.hcnt[s] > 3 && prng.Derive(e.cfg.Seed, 0x4e5e7, uint64(txid), uint64(len(pend)))%5 == 0 {
						e.hcnt[s] = 1 // counter reset: the head starts a new chunk for it
						e.res.Count("histogram_counter_resets", 1)
					} else {
						e.hcnt[s] += 2
					}
					c := e.hcnt[s]
					e.mu.Unlock()
					h := &histogram.Histogram{Schema: 0, Count: uint64(2*c + 1), Sum: v, PositiveSpans: []histogram.Span{{Offset: 0, Length: 2}}, PositiveBuckets: []int64{c, 1}}
					_, err = app.AppendHistogram(0, e.lsets[s], e.stamp(t), h, nil)
				} else {
					_, err = app.Append(0, e.lsets[s], e.stamp(t), v)
				}
				if err != nil {
					// too old / out of bounds for this appender's window: not part of the transaction
					e.res.Count("append_refused", 1)
					continue
				}
				if isOOO {
					outord = append(outord, [2]int{s, len(pend)})
				} else {
					inord = append(inord, [2]int{s, len(pend)})
				}
				pend = append(pend, smp{t: e.stamp(t), v: v, tx: txid})
				pendSeries = append(pendSeries, s)
				e.yield(id)
			}
		}
		if tx.Rollback {
			if err := app.Rollback(); err != nil {
				e.fail("appender-error", "rollback-error", "appender %d: Rollback failed: %v", a, err)
			}
			e.res.Count("rollbacks", 1)
		} else {
			// out-of-order samples have no isolation: from now on readers may see them
			e.mu.Lock()
			for _, x := range outord {
				e.oooPending[x[0]] = append(e.oooPending[x[0]], pend[x[1]])
			}
			e.mu.Unlock()
			err := app.Commit() // scheduling points inside
			if err != nil {
				e.fail("appender-error", "commit-error", "appender %d: Commit failed: %v", a, err)
			}
			// Commit has returned: from this instant every new querier must see the transaction (no yield in between)
			e.mu.Lock()
			for _, x := range inord {
				e.committed[x[0]] = append(e.committed[x[0]], pend[x[1]])
			}
			for _, x := range outord {
				e.ooo[x[0]] = append(e.ooo[x[0]], pend[x[1]])
			}
			e.mu.Unlock()
			e.res.Count("commits", 1)
			if os.Getenv("VERIF_DEBUG") != "" {
				fmt.Printf("DBG step %d: app%d tx %d committed: in-order %v ooo %v samples %v\n", e.s.Steps(), a, txid, inord, outord, pend)
			}
			if len(tx.Series) > 1 {
				e.res.Count("multi_series_commits", 1)
			}
		}
		e.mu.Lock()
		for _, s := range tx.Series {
			if e.lease[s] == a+1 {
				e.lease[s] = 0
			}
		}
		e.mu.Unlock()
		_ = pendSeries
	}
}

func (e *exec) maintenance() {
	for i := 0; i < e.cfg.Maint; i++ {
		if e.isFailed() {
			return
		}
		e.yield("maint")
		e.db.ForceHeadMMap()
		e.res.Count("mmap_rounds", 1)
	}
}

func (e *exec) compactor() {
	ctx := context.Background()
	for i := 0; i < e.cfg.Compacts; i++ {
		if e.isFailed() {
			return
		}
		e.yield("compact")
		// let the appenders fill at least one and a half block ranges first (bounded: they may have finished)
		for w := 0; w < 300 && !e.isFailed(); w++ {
			if h := e.db.Head(); h.MinTime() != math.MaxInt64 && h.MaxTime()-h.MinTime() > e.cfg.R*tick*3/2 {
				break
			}
			e.yield("compact.wait")
		}
		nb := len(e.db.Blocks())
		if err := e.db.Compact(ctx); err != nil {
			e.fail("compaction-error", "compact-error", "Compact failed: %v", err)
			return
		}
		e.res.Count("compact_calls", 1)
		if len(e.db.Blocks()) != nb {
			e.res.Count("compactions_that_changed_blocks", 1)
		}
	}
}

type snapshot struct {
	in, oo [][]smp
}

func (e *exec) snap() snapshot {
	e.mu.Lock()
	defer e.mu.Unlock()
	sn := snapshot{}
	for s := range e.committed {
		sn.in = append(sn.in, e.committed[s][:len(e.committed[s]):len(e.committed[s])])
		sn.oo = append(sn.oo, e.ooo[s][:len(e.ooo[s]):len(e.ooo[s])])
	}
	return sn
}

func (e *exec) reader(r int) {
	id := fmt.Sprintf("reader%d", r)
	rr := prng.New(prng.Derive(e.cfg.Seed, 0x7ead, uint64(r)))
	for i := 0; i < e.cfg.ReadOps; i++ {
		if e.isFailed() {
			return
		}
		e.yield(id)
		chunked := e.cfg.Chunked && rr.Chance(0.5)
		var q storage.Querier
		var cq storage.ChunkQuerier
		var err error
		// creation of the querier and the expectation are one step (no scheduling point in between)
		lo, hi := int64(math.MinInt64), int64(math.MaxInt64)
		if e.cfg.Windows && rr.Chance(0.6) {
			// a window that starts or ends on, just before or just behind a block boundary near the data
			e.mu.Lock()
			now := e.clock
			e.mu.Unlock()
			edge := func() int64 {
				b := (now/e.cfg.R - int64(rr.Intn(4))) * e.cfg.R * tick
				if hm := e.db.Head().MinTime(); hm != math.MaxInt64 && rr.Chance(0.5) {
					// the end of the range the next head compaction moves into a block
					rg := e.cfg.R * tick
					b = (hm/rg + 1) * rg
					if hm < 0 && hm%rg != 0 {
						b -= rg
					}
				}
				return b + int64([]int{-1, -1, 0, 0, 1}[rr.Intn(5)])
			}
			switch rr.Intn(3) {
			case 0:
				hi = edge()
			case 1:
				lo = edge()
			default:
				lo = edge()
				hi = lo + int64(rr.Range(0, 3))*e.cfg.R*tick + int64(rr.Intn(3)-1)
			}
			e.res.Count("windowed_queriers", 1)
		}
		if chunked {
			cq, err = e.db.ChunkQuerier(lo, hi)
		} else {
			q, err = e.db.Querier(lo, hi)
		}
		if err != nil {
			e.fail("reader-error", "querier-error", "reader %d: creating a querier failed: %v", r, err)
			return
		}
		want := e.snap()
		step := e.s.Steps()
		e.res.Count("queriers", 1)
		hold := 0
		if e.cfg.Hold > 0 {
			hold = rr.Intn(e.cfg.Hold + 1)
		}
		for j := 0; j < hold && !e.isFailed(); j++ {
			e.s.Yield(id + ".hold")
		}
		got, derr := e.drain(q, cq)
		if q != nil {
			q.Close()
		} else {
			cq.Close()
		}
		if derr != nil {
			e.fail("reader-error", "query-error", "reader %d: querier created at step %d: %v", r, step, derr)
			return
		}
		e.res.Evals++
		e.judgeWindow(r, step, want, got, chunked, lo, hi)
	}
}

func (e *exec) drain(q storage.Querier, cq storage.ChunkQuerier) (map[string][]smp, error) {
	m := labels.MustNewMatcher(labels.MatchEqual, "__name__", "m")
	out := map[string][]smp{}
	ctx := context.Background()
	if q != nil {
		ss := q.Select(ctx, true, nil, m)
		for ss.Next() {
			key := ss.At().Labels().String()
			it := ss.At().Iterator(nil)
			for vt := it.Next(); vt != chunkenc.ValNone; vt = it.Next() {
				out[key] = append(out[key], atSample(it, vt))
			}
			if it.Err() != nil {
				return nil, fmt.Errorf("iterating %s: %w", key, it.Err())
			}
		}
		return out, ss.Err()
	}
	ss := cq.Select(ctx, true, nil, m)
	for ss.Next() {
		key := ss.At().Labels().String()
		cit := ss.At().Iterator(nil)
		for cit.Next() {
			it := cit.At().Chunk.Iterator(nil)
			for vt := it.Next(); vt != chunkenc.ValNone; vt = it.Next() {
				out[key] = append(out[key], atSample(it, vt))
			}
			if it.Err() != nil {
				return nil, fmt.Errorf("iterating chunk of %s: %w", key, it.Err())
			}
		}
		if cit.Err() != nil {
			return nil, fmt.Errorf("chunks of %s: %w", key, cit.Err())
		}
	}
	return out, ss.Err()
}

// atSample reads the current sample of an iterator; a histogram is represented by its sum (which carries the value).
func atSample(it chunkenc.Iterator, vt chunkenc.ValueType) smp {
	switch vt {
	case chunkenc.ValHistogram:
		t, h := it.AtHistogram(nil)
		return smp{t: t, v: h.Sum}
	case chunkenc.ValFloatHistogram:
		t, h := it.AtFloatHistogram(nil)
		return smp{t: t, v: h.Sum}
	}
	t, v := it.At()
	return smp{t: t, v: v}
}

// judge compares what a querier returned with what had been committed when it was created.
func (e *exec) judge(r, step int, want snapshot, got map[string][]smp, chunked bool) {
	e.judgeWindow(r, step, want, got, chunked, math.MinInt64, math.MaxInt64)
}

// judgeWindow: the querier covered [lo, hi]. A chunk querier returns whole chunks that overlap the window: samples
// outside it are dropped before comparing.
func (e *exec) judgeWindow(r, step int, want snapshot, got map[string][]smp, chunked bool, lo, hi int64) {
	if lo != math.MinInt64 || hi != math.MaxInt64 {
		clipS := func(in []smp) []smp {
			var out []smp
			for _, x := range in {
				if x.t >= lo && x.t <= hi {
					out = append(out, x)
				}
			}
			return out
		}
		w2 := snapshot{}
		for s := range want.in {
			w2.in = append(w2.in, clipS(want.in[s]))
			w2.oo = append(w2.oo, clipS(want.oo[s]))
		}
		want = w2
		for k, v := range got {
			if !chunked {
				for _, x := range v {
					if x.t < lo || x.t > hi {
						e.fail("query-range", "sample-outside-queried-range", "reader %d: series %s returns t=%d outside the queried range [%d,%d]", r, k, x.t, lo, hi)
						return
					}
				}
			}
			got[k] = clipS(v)
			if len(got[k]) == 0 {
				delete(got, k)
			}
		}
	}
	oracle := "isolation"
	if e.cfg.Mode == "compact" {
		oracle = "query-during-compaction"
	}
	kind := "sample"
	if chunked {
		kind = "chunk"
	}
	e.mu.Lock()
	upper := make([]map[int64]float64, len(e.oooPending))
	for s := range e.oooPending {
		upper[s] = map[int64]float64{}
		for _, x := range e.oooPending[s] {
			upper[s][x.t] = x.v
		}
	}
	e.mu.Unlock()
	for s, l := range e.lsets {
		key := l.String()
		g := got[key]
		delete(got, key)
		seen := map[int64]float64{}
		prev := int64(math.MinInt64)
		for i, x := range g {
			if i > 0 && x.t <= prev {
				e.fail(oracle, "sample-returned-twice-or-out-of-order:"+kind, "reader %d, querier created at step %d: series %s returns t=%d after t=%d", r, step, key, x.t, prev)
				return
			}
			prev = x.t
			seen[x.t] = x.v
		}
		must := map[int64]float64{}
		for _, x := range want.in[s] {
			must[x.t] = x.v
		}
		for _, x := range want.oo[s] {
			must[x.t] = x.v
		}
		var ts []int64
		for t := range must {
			ts = append(ts, t)
		}
		sort.Slice(ts, func(i, j int) bool { return ts[i] < ts[j] })
		for _, t := range ts {
			v, ok := seen[t]
			if !ok {
				e.fail(oracle, "committed-sample-not-returned:"+kind, "reader %d, querier created at step %d: series %s lacks the sample at t=%d (value %v) of a transaction whose Commit had returned before", r, step, key, t, must[t])
				return
			}
			if v != must[t] {
				e.fail(oracle, "wrong-value:"+kind, "reader %d, querier created at step %d: series %s t=%d has value %v, committed %v", r, step, key, t, v, must[t])
				return
			}
		}
		ts = ts[:0]
		for t := range seen {
			ts = append(ts, t)
		}
		sort.Slice(ts, func(i, j int) bool { return ts[i] < ts[j] })
		for _, t := range ts {
			if _, ok := must[t]; ok {
				continue
			}
			if v, ok := upper[s][t]; ok && v == seen[t] {
				continue // out-of-order samples are not isolated
			}
			e.fail(oracle, "sample-of-unfinished-transaction-returned:"+kind, "reader %d, querier created at step %d: series %s returns t=%d (value %v, transaction %d), which belongs to no transaction whose Commit had returned when the querier was created", r, step, key, t, seen[t], int(seen[t])/1000)
			return
		}
		if len(must) > 0 {
			e.res.Count("series_compared", 1)
		}
	}
	for k := range got {
		e.fail(oracle, "unknown-series-returned", "reader %d: series %s returned but never written", r, k)
		return
	}
}

// ---- run ----

func Execute(t *testing.T, prop string, plan *Plan) (res *runner.Result) {
	res = &runner.Result{Counters: map[string]int64{}}
	e := &exec{t: t, prop: prop, plan: plan, cfg: plan.Cfg, res: res, sites: map[string]int{}, finished: map[string]bool{}}
	e.rng = prng.New(prng.DeriveS(plan.Cfg.Seed, "oracle"))
	root := filepath.Join(scratchRoot(), fmt.Sprintf("r%x", plan.Cfg.Seed))
	os.RemoveAll(root)
	if err := os.MkdirAll(root, 0o777); err != nil {
		panic(err)
	}
	defer os.RemoveAll(root)
	e.dir = filepath.Join(root, "data")
	c := e.cfg
	for i := 0; i < c.NSeries; i++ {
		e.lsets = append(e.lsets, labels.FromStrings("__name__", "m", "s", fmt.Sprint(i)))
	}
	e.lease = make([]int, c.NSeries)
	e.lastT = make([]int64, c.NSeries)
	e.oooT = make([]int64, c.NSeries)
	e.committed = make([][]smp, c.NSeries)
	e.ooo = make([][]smp, c.NSeries)
	e.oooPending = make([][]smp, c.NSeries)
	e.clock = 1000 // ticks; out-of-order timestamps count down from here
	for i := range e.oooT {
		e.oooT[i] = 1000 - int64(i)*0 // per-series counters, all start below the first in-order tick
	}

	o := tsdb.DefaultOptions()
	o.MinBlockDuration = c.R * tick
	o.MaxBlockDuration = c.R * tick * 3
	o.SamplesPerChunk = c.SPC
	o.OutOfOrderTimeWindow = c.OOO * tick
	o.OutOfOrderCapMax = 4
	o.WALSegmentSize = 128 * 1024
	o.NoLockfile = true
	o.HeadChunksWriteQueueSize = 0
	o.IsolationDisabled = false
	o.RetentionDuration = 0
	theHook.set(e)
	defer theHook.set(nil)
	defer func() {
		if r := recover(); r != nil {
			msg := fmt.Sprint(r)
			if strings.HasPrefix(msg, "harness:") {
				panic(r)
			}
			res.Violate(prop, "panic", "panic", "panic: %v\n%s", r, debug.Stack())
		}
		e.finish()
	}()
	db, err := tsdb.Open(e.dir, nil, nil, o, nil)
	if err != nil {
		panic("harness: open: " + err.Error())
	}
	db.DisableCompactions()
	e.db = db

	simStart := time.Now() // the bubble's fake clock
	defer func() { res.SimTimeMs = time.Since(simStart).Milliseconds() }()
	if c.Policy.Kind == "starve" {
		res.Count("fault:task-stalled-by-scheduler", 1) // one task (prefix in the policy) is held back for the first steps
	}
	e.s = sched.New(prng.DeriveS(c.Seed, "sched"), c.Policy)
	e.s.MaxSteps = c.MaxSteps
	e.s.KeepTrace = os.Getenv("VERIF_DEBUG") != ""
	var wg sync.WaitGroup
	start := func(name string, f func()) {
		wg.Add(1)
		e.s.Go(name, func() {
			defer wg.Done()
			defer func() {
				if r := recover(); r != nil {
					if strings.HasPrefix(fmt.Sprint(r), "harness:") {
						panic(r)
					}
					// a panic of the system under test inside a task: report it and end the run (locks it held stay
					// locked; the other tasks leave at their next scheduling point)
					e.fail("panic", "panic", "task %s: panic: %v\n%s", name, r, trimStack(string(debug.Stack())))
				}
				e.mu.Lock()
				e.finished[name] = true
				e.mu.Unlock()
			}()
			f()
		})
	}
	for a, txs := range plan.Apps {
		a, txs := a, txs
		start(fmt.Sprintf("app%d", a), func() { e.appender(a, txs) })
	}
	for r := 0; r < c.Readers; r++ {
		r := r
		start(fmt.Sprintf("reader%d", r), func() { e.reader(r) })
	}
	if c.Maint > 0 {
		start("maint", e.maintenance)
	}
	if c.Mode == "compact" && c.Compacts > 0 {
		start("compact", e.compactor)
	}
	rerr := e.s.Run(nil)
	steps := e.s.Steps()
	if st, ok := rerr.(*sched.ErrStall); ok {
		e.mu.Lock()
		var open []string
		for a := range plan.Apps {
			if n := fmt.Sprintf("app%d", a); !e.finished[n] {
				open = append(open, n)
			}
		}
		for r := 0; r < c.Readers; r++ {
			if n := fmt.Sprintf("reader%d", r); !e.finished[n] {
				open = append(open, n)
			}
		}
		compactOpen := c.Mode == "compact" && c.Compacts > 0 && !e.finished["compact"]
		e.mu.Unlock()
		if compactOpen && len(open) == 0 {
			e.fail("compaction-progress", "compaction-does-not-finish-after-queries-closed", "after %d steps every appender and reader has finished (no querier is open) but Compact has not returned for an hour of simulated time; parked: %v", steps, st.Parked)
		} else {
			panic(fmt.Sprintf("harness: stall after %d steps: %v (unfinished %v)", steps, st, open))
		}
	}
	e.mu.Lock()
	e.stopped = true
	e.mu.Unlock()
	e.s.Stop()
	wg.Wait()
	synctest.Wait()
	e.mu.Lock()
	e.stopped = false
	failed := e.failed
	e.mu.Unlock()
	res.Counters["sched_steps"] += int64(steps)
	if os.Getenv("VERIF_DEBUG") != "" {
		for _, b := range db.Blocks() {
			m := b.Meta()
			fmt.Printf("DBG block %s [%d,%d) level=%d ooo=%v sources=%d samples=%d series=%d\n", m.ULID, m.MinTime, m.MaxTime, m.Compaction.Level, m.Compaction.FromOutOfOrder(), len(m.Compaction.Sources), m.Stats.NumSamples, m.Stats.NumSeries)
		}
		h := db.Head()
		fmt.Printf("DBG head [%d,%d] ooo [%d,%d] series=%d\n", h.MinTime(), h.MaxTime(), h.MinOOOTime(), h.MaxOOOTime(), h.NumSeries())
	}
	if !failed && steps < c.MaxSteps {
		// quiescent end state: everything committed is there, exactly once
		q, err := db.Querier(math.MinInt64, math.MaxInt64)
		if err == nil {
			got, derr := e.drain(q, nil)
			q.Close()
			if derr != nil {
				e.fail("final-state", "query-error", "final query failed: %v", derr)
			} else {
				e.judge(-1, steps, e.snap(), got, false)
			}
		}
	}
	res.Trace = fmt.Sprintf("%016x", e.s.TraceHash())
	if e.s.KeepTrace {
		fmt.Println("DBG schedule:", strings.Join(e.s.Trace, " "))
	}
	return res
}

func trimStack(s string) string {
	var out []string
	for _, l := range strings.Split(s, "\n") {
		if strings.Contains(l, "prometheus/prometheus/") && !strings.HasPrefix(l, "\t") {
			out = append(out, strings.TrimSpace(l))
		}
		if len(out) >= 8 {
			break
		}
	}
	return strings.Join(out, "\n")
}

func (e *exec) finish() {
	if e.db != nil {
		func() {
			defer func() { recover() }()
			e.db.Close()
		}()
	}
	r := e.res
	for k, v := range e.sites {
		r.Counters["site:"+k] += int64(v)
	}
	multi := r.Counters["multi_series_commits"]
	midCommit := int64(e.sites["tsdb.headAppender.Commit.sample"])
	switch e.prop {
	case "C06":
		r.NonTrivial = r.Counters["compactions_that_changed_blocks"] > 0 && r.Counters["queriers"] >= 2
	default:
		r.NonTrivial = multi > 0 && midCommit > 0 && r.Counters["queriers"] >= 2
	}
	if e.s != nil {
		r.Key = fmt.Sprintf("%016x", e.s.TraceHash())
	}
	r.Sample = map[string]any{"seed": e.cfg.Seed, "config": e.cfg, "appenders": len(e.plan.Apps), "sched_steps": r.Counters["sched_steps"],
		"commits": r.Counters["commits"], "queriers": r.Counters["queriers"]}
}
