package tsdbsched

import (
	"encoding/json"

	"verif/sim/core/prng"
	"verif/sim/core/sched"
)

// Config of one run.
type Config struct {
	Seed     uint64       `json:"seed"`
	Mode     string       `json:"mode"` // "iso" (C05) | "compact" (C06)
	NSeries  int          `json:"nseries"`
	SPC      int          `json:"spc"`      // samples per chunk: small, so that commits cut chunks
	R        int64        `json:"r"`        // block range in ticks
	OOO      int64        `json:"ooo"`      // out-of-order window in ticks (compact mode)
	Readers  int          `json:"readers"`  // reader tasks
	ReadOps  int          `json:"readops"`  // queriers per reader task
	Hold     int          `json:"hold"`     // max scheduling steps a reader keeps a querier open before draining it
	Maint    int          `json:"maint"`    // m-map rounds of the maintenance task
	Compacts int          `json:"compacts"` // compaction rounds (compact mode)
	Policy   sched.Policy `json:"policy"`
	MaxSteps int          `json:"maxsteps"`
	Chunked  bool         `json:"chunkq"`            // readers use the chunk querier in half of their reads
	Stride   int          `json:"stride"`            // extra ticks between consecutive in-order samples (compact mode: fills block ranges faster)
	Hist     bool         `json:"hist,omitempty"`    // odd-numbered series carry integer native histograms (with counter resets)
	Windows  bool         `json:"windows,omitempty"` // readers also query windows that start / end at or next to block boundaries
}

// Tx is one transaction of an appender task.
type Tx struct {
	Series   []int `json:"s"`             // series written (each gets N samples)
	N        int   `json:"n"`             // samples per series
	Rollback bool  `json:"rb,omitempty"`  // roll back instead of committing
	OOO      bool  `json:"ooo,omitempty"` // write below the series' newest sample (compact mode, out-of-order window open)
}

// Plan is the replayable description of a run.
type Plan struct {
	Cfg  Config `json:"cfg"`
	Apps [][]Tx `json:"apps"` // one transaction list per appender task
}

// Generate draws a plan.
func Generate(prop, tier string, seed uint64) *Plan {
	r := prng.New(prng.DeriveS(seed, "config"))
	c := Config{Seed: seed, Mode: "iso", NSeries: r.Range(2, 5), SPC: r.Range(2, 5), R: int64(r.Range(16, 40)),
		Readers: r.Range(1, 3), ReadOps: r.Range(3, 8), Hold: r.Range(0, 12), Maint: r.Range(0, 6), MaxSteps: 6000, Chunked: r.Chance(0.5)}
	if prop == "C06" {
		c.Mode = "compact"
		c.Compacts = r.Range(2, 5)
		c.R = int64(r.Range(12, 30))
		if r.Chance(0.6) {
			c.OOO = c.R * int64(r.Range(2, 6))
		}
		c.Hold = r.Range(0, 40)
		c.Stride = r.Range(0, 2)
		c.NSeries = r.Range(2, 6)
	}
	c.Hist = r.Chance(0.5)
	c.Windows = r.Chance(0.5)
	c.Policy = sched.DrawPolicy(r, []string{"app", "reader", "compact", "tsdb."})
	p := &Plan{Cfg: c}
	napp := r.Range(2, 4)
	ro := prng.New(prng.DeriveS(seed, "ops"))
	for a := 0; a < napp; a++ {
		ntx := ro.Range(2, 6)
		if prop == "C06" {
			ntx = ro.Range(6, 14)
		}
		var txs []Tx
		for i := 0; i < ntx; i++ {
			k := ro.Range(1, c.NSeries)
			seen := map[int]bool{}
			var ss []int
			for len(ss) < k {
				s := ro.Intn(c.NSeries)
				if !seen[s] {
					seen[s] = true
					ss = append(ss, s)
				}
			}
			tx := Tx{Series: ss, N: ro.Range(1, 4), Rollback: ro.Chance(0.12)}
			if c.OOO > 0 && ro.Chance(0.25) {
				tx.OOO = true
			}
			txs = append(txs, tx)
		}
		p.Apps = append(p.Apps, txs)
	}
	return p
}

func clonePlan(p *Plan) *Plan {
	b, _ := json.Marshal(p)
	var q Plan
	_ = json.Unmarshal(b, &q)
	return &q
}

// Shrink proposes simpler plans: fewer tasks, fewer transactions, fewer series per transaction, fewer reads,
// shorter runs, simpler policy.
func Shrink(p *Plan) []*Plan {
	var out []*Plan
	add := func(f func(q *Plan) bool) {
		q := clonePlan(p)
		if f(q) {
			out = append(out, q)
		}
	}
	for a := range p.Apps {
		a := a
		add(func(q *Plan) bool {
			if len(q.Apps) <= 1 {
				return false
			}
			q.Apps = append(q.Apps[:a], q.Apps[a+1:]...)
			return true
		})
		for i := range p.Apps[a] {
			i := i
			add(func(q *Plan) bool {
				q.Apps[a] = append(q.Apps[a][:i], q.Apps[a][i+1:]...)
				return true
			})
			add(func(q *Plan) bool {
				t := &q.Apps[a][i]
				if len(t.Series) <= 1 {
					return false
				}
				t.Series = t.Series[:len(t.Series)-1]
				return true
			})
			add(func(q *Plan) bool {
				t := &q.Apps[a][i]
				if t.N <= 1 {
					return false
				}
				t.N--
				return true
			})
		}
	}
	add(func(q *Plan) bool { v := q.Cfg.Readers > 1; q.Cfg.Readers = 1; return v })
	add(func(q *Plan) bool { v := q.Cfg.ReadOps > 1; q.Cfg.ReadOps /= 2; return v && q.Cfg.ReadOps >= 1 })
	add(func(q *Plan) bool { v := q.Cfg.Maint > 0; q.Cfg.Maint = 0; return v })
	add(func(q *Plan) bool { v := q.Cfg.Compacts > 1; q.Cfg.Compacts--; return v })
	add(func(q *Plan) bool { v := q.Cfg.Hold > 0; q.Cfg.Hold /= 2; return v })
	add(func(q *Plan) bool { v := q.Cfg.MaxSteps > 50; q.Cfg.MaxSteps = q.Cfg.MaxSteps * 2 / 3; return v })
	add(func(q *Plan) bool {
		v := q.Cfg.Policy.Kind != "uniform"
		q.Cfg.Policy = sched.Policy{Kind: "uniform"}
		return v
	})
	add(func(q *Plan) bool { v := q.Cfg.Chunked; q.Cfg.Chunked = false; return v })
	add(func(q *Plan) bool { v := q.Cfg.Hist; q.Cfg.Hist = false; return v })
	add(func(q *Plan) bool { v := q.Cfg.Windows; q.Cfg.Windows = false; return v })
	return out
}
