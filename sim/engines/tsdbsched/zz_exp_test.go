package tsdbsched

import (
	"context"
	"fmt"
	"math"
	"os"
	"testing"

	"github.com/prometheus/prometheus/model/labels"
	"github.com/prometheus/prometheus/tsdb"
	"github.com/prometheus/prometheus/tsdb/chunkenc"
)

func TestExpOOOOnlySeries(t *testing.T) {
	dir := "/dev/shm/exp-ooo"
	os.RemoveAll(dir)
	defer os.RemoveAll(dir)
	o := tsdb.DefaultOptions()
	o.MinBlockDuration = 15000
	o.MaxBlockDuration = 45000
	o.OutOfOrderTimeWindow = 60000
	o.OutOfOrderCapMax = 4
	o.NoLockfile = true
	db, err := tsdb.Open(dir, nil, nil, o, nil)
	if err != nil {
		t.Fatal(err)
	}
	db.DisableCompactions()
	ctx := context.Background()
	a := labels.FromStrings("__name__", "m", "s", "0")
	b := labels.FromStrings("__name__", "m", "s", "2")
	if os.Getenv("WITH_RB") != "" {
		ap := db.Appender(ctx)
		if _, err := ap.Append(0, b, 1001000, 9); err != nil {
			t.Fatal(err)
		}
		ap.Rollback()
	}
	app := db.Appender(ctx)
	for _, ts := range []int64{1002000, 1004000, 1006000, 1008000, 1018000, 1020000, 1022000, 1024000, 1026000} {
		app.Append(0, a, ts, 1)
	}
	if err := app.Commit(); err != nil {
		t.Fatal(err)
	}
	app = db.Appender(ctx)
	for _, ts := range []int64{999000, 998000, 997000} {
		if _, err := app.Append(0, a, ts, 2); err != nil {
			t.Fatal(err)
		}
	}
	if os.Getenv("WITH_B") != "" {
		if _, err := app.Append(0, b, 999000, 3); err != nil {
			t.Fatal(err)
		}
	}
	if err := app.Commit(); err != nil {
		t.Fatal(err)
	}
	dump := func(when string) {
		q, _ := db.Querier(math.MinInt64, math.MaxInt64)
		ss := q.Select(ctx, true, nil, labels.MustNewMatcher(labels.MatchEqual, "__name__", "m"))
		for ss.Next() {
			fmt.Print(when, " ", ss.At().Labels(), ": ")
			it := ss.At().Iterator(nil)
			for vt := it.Next(); vt != chunkenc.ValNone; vt = it.Next() {
				fmt.Print(it.AtT(), " ")
			}
			fmt.Println()
		}
		q.Close()
	}
	dump("before")
	if err := db.Compact(ctx); err != nil {
		t.Fatal(err)
	}
	dump("after")
	for _, bl := range db.Blocks() {
		m := bl.Meta()
		fmt.Println("block", m.MinTime, m.MaxTime, m.Compaction.Level, m.Stats.NumSeries, m.Stats.NumSamples)
	}
	db.Close()
}
