// Package rulesim is engine E7: the real rules.Manager / rules.Group / AlertingRule / RecordingRule on the
// synctest fake clock, rule files written by the harness, a real tsdb.DB as storage, the query seam
// (scripted results for alerting rules, the real PromQL engine for recording rules) and the append seam
// owned by the simulator, concurrent rule evaluations interleaved by the seeded scheduler.
// Properties: C44 (alert state machine, ALERTS series, notifications, `for`-state restoration) and
// C45 (recording rule results, staleness markers, removal on reload, dependency order).
package rulesim

import (
	"encoding/json"
	"fmt"
	"sort"

	"verif/sim/core/prng"
	"verif/sim/model/rulemodel"
)

// Config is the swarm configuration of one run.
type Config struct {
	Prop string `json:"prop"`
	Seed uint64 `json:"seed"`

	// Mode "direct": the harness calls Group.Eval(ctx, ts) at generated (irregular) times, the groups' own
	// tickers are parked (interval 50 years). Mode "ticker": Manager.Run, the groups tick by themselves.
	Mode string `json:"mode"`

	Conc        bool `json:"conc,omitempty"`    // ManagerOptions.ConcurrentEvalsEnabled
	MaxConc     int  `json:"maxconc,omitempty"` // ManagerOptions.MaxConcurrentEvals
	CommitYield bool `json:"cyield,omitempty"`  // scheduling point between the appends of a rule and its commit

	SchedSeed   uint64  `json:"sseed"`
	PolKind     string  `json:"pol"`
	PolStick    float64 `json:"stick,omitempty"`
	PolStarve   string  `json:"starve,omitempty"`
	PolStarveN  int     `json:"starven,omitempty"`
	PolPCTDepth int     `json:"pct,omitempty"`

	OutageTolMs int64 `json:"tol"`
	GraceMs     int64 `json:"grace"`
	ResendMs    int64 `json:"resend"`
	RestoreNew  bool  `json:"restorenew,omitempty"`

	DefIntervalMs int64 `json:"defint"`
	LookbackMs    int64 `json:"lookback,omitempty"`
	ScrapeMs      int64 `json:"scrape,omitempty"`
	NSrc          int   `json:"nsrc,omitempty"`
	DelayedName   bool  `json:"delayedname,omitempty"` // promql.EngineOpts.EnableDelayedNameRemoval

	// KF: tag of the known finding this run is allowed to exercise ("" = the run is steered away from all of them).
	KF string `json:"kf,omitempty"`
}

// RuleSpec describes one rule of a rule file.
type RuleSpec struct {
	ID    int                `json:"id"`
	Alert bool               `json:"alert,omitempty"`
	Name  string             `json:"name"`
	Q     int                `json:"q,omitempty"`    // alerting rules: key of the scripted query (expression "q<Q>")
	Expr  *rulemodel.Expr    `json:"expr,omitempty"` // recording rules
	ForMs int64              `json:"for,omitempty"`
	KffMs int64              `json:"kff,omitempty"`
	Lbl   []rulemodel.LabelT `json:"lbl,omitempty"`
	Ann   []rulemodel.LabelT `json:"ann,omitempty"`
}

// GroupSpec describes one rule group. File is the index of the rule file it lives in.
type GroupSpec struct {
	File       int                `json:"file"`
	Name       string             `json:"name"`
	IntervalMs int64              `json:"int,omitempty"` // 0 = manager default
	OffsetMs   int64              `json:"off,omitempty"` // query_offset
	Limit      int                `json:"limit,omitempty"`
	Lbl        []rulemodel.LabelT `json:"lbl,omitempty"` // static group labels
	Rules      []RuleSpec         `json:"rules"`
}

func (g *GroupSpec) Key() string { return fmt.Sprintf("f%d;%s", g.File, g.Name) }

// Edit is one change of the configuration applied by a reload. Edits are tolerant: one that does not
// apply (rule or group gone after shrinking) is skipped.
type Edit struct {
	K     string             `json:"k"` // sethold setkff setq setexpr setlbl addrule delrule moverule setint setoff setlimit delgroup addgroup
	G     string             `json:"g,omitempty"`
	R     int                `json:"r,omitempty"`
	To    string             `json:"to,omitempty"`
	Pos   int                `json:"pos,omitempty"`
	Ms    int64              `json:"ms,omitempty"`
	N     int                `json:"n,omitempty"`
	Rule  *RuleSpec          `json:"rule,omitempty"`
	Group *GroupSpec         `json:"group,omitempty"`
	Lbl   []rulemodel.LabelT `json:"lbl,omitempty"`
	Expr  *rulemodel.Expr    `json:"expr,omitempty"`
}

// Op is one step of the control task. At is the offset from the start of the run in milliseconds.
type Op struct {
	At       int64  `json:"at"`
	K        string `json:"k"` // eval restore reload badreload restart stop
	G        string `json:"g,omitempty"`
	Edits    []Edit `json:"edits,omitempty"`
	OutageMs int64  `json:"outage,omitempty"`
}

// Ev is one change of the scripted world: from At on, series S of query key Q (C44) / of source metric Q
// (C45) is present with value V, or absent.
type Ev struct {
	At int64   `json:"at"`
	Q  int     `json:"q"`
	S  int     `json:"s"`
	On bool    `json:"on,omitempty"`
	V  float64 `json:"v,omitempty"`
}

// Fault applies to evaluations whose timestamp lies in [From, To) (offsets, ms).
type Fault struct {
	K    string `json:"k"` // qfail qslow cfail afail gcfail
	R    int    `json:"r"` // rule ID, -1 = every rule (gcfail: ignored)
	G    string `json:"g,omitempty"`
	From int64  `json:"from"`
	To   int64  `json:"to"`
	Ms   int64  `json:"ms,omitempty"`
	S    int    `json:"s,omitempty"`
}

// Plan = configuration + initial rule files + timeline. Execution is a pure function of the plan.
type Plan struct {
	Cfg    Config      `json:"cfg"`
	Groups []GroupSpec `json:"groups"`
	Ops    []Op        `json:"ops"`
	Script []Ev        `json:"script"`
	Faults []Fault     `json:"faults,omitempty"`
}

func (p *Plan) String() string {
	b, _ := json.Marshal(p)
	return string(b)
}

func clonePlan(p *Plan) *Plan {
	b, _ := json.Marshal(p)
	var q Plan
	if err := json.Unmarshal(b, &q); err != nil {
		panic("harness: clone plan: " + err.Error())
	}
	return &q
}

const (
	sec       = int64(1000)
	minute    = 60 * sec
	hour      = 60 * minute
	parkedInt = 50 * 365 * 24 * hour // interval that parks a group's ticker for the whole run (direct mode)
	retention = 15 * minute
)

type gen struct {
	r      *prng.R
	prop   string
	tier   string
	cfg    *Config
	nextID int
	nextQ  int
	groups []GroupSpec // current configuration while generating the timeline
	durs   []int64     // interesting durations
}

func (g *gen) pick64(xs ...int64) int64 { return xs[g.r.Intn(len(xs))] }

// Generate derives the plan of one run from its seed.
func Generate(prop, tier string, seed uint64) *Plan {
	g := &gen{r: prng.New(prng.DeriveS(seed, "plan")), prop: prop, tier: tier}
	rc := prng.New(prng.DeriveS(seed, "config"))
	cfg := Config{Prop: prop, Seed: seed}
	g.cfg = &cfg
	cfg.Mode = "direct"
	if rc.Chance(0.45) {
		cfg.Mode = "ticker"
	}
	concP := 0.35
	if prop == "C45" {
		concP = 0.6
	}
	if rc.Chance(concP) {
		cfg.Conc = true
		cfg.MaxConc = []int{1, 2, 4, 8}[rc.Intn(4)]
	}
	cfg.CommitYield = rc.Chance(0.6)
	cfg.SchedSeed = prng.DeriveS(seed, "sched")
	switch rc.Intn(4) {
	case 0:
		cfg.PolKind = "uniform"
	case 1:
		cfg.PolKind, cfg.PolStick = "sticky", []float64{0.5, 0.8, 0.95}[rc.Intn(3)]
	case 2:
		cfg.PolKind, cfg.PolStarve, cfg.PolStarveN = "starve", []string{"query", "commit", "iter", "ctl"}[rc.Intn(4)], rc.Range(5, 60)
	default:
		cfg.PolKind, cfg.PolPCTDepth = "pct", rc.Range(1, 4)
	}
	cfg.OutageTolMs = []int64{minute, 10 * minute, hour, hour}[rc.Intn(4)]
	cfg.GraceMs = []int64{0, 30 * sec, minute, 10 * minute}[rc.Intn(4)]
	cfg.ResendMs = []int64{0, 30 * sec, minute, minute, 5 * minute}[rc.Intn(5)]
	cfg.RestoreNew = rc.Chance(0.2)
	cfg.DefIntervalMs = []int64{5 * sec, 10 * sec, 15 * sec, 30 * sec, minute}[rc.Intn(5)]
	if cfg.Mode == "direct" {
		cfg.DefIntervalMs = parkedInt
	}
	if prop == "C45" {
		cfg.LookbackMs = []int64{20 * sec, minute, 5 * minute}[rc.Intn(3)]
		cfg.ScrapeMs = []int64{2 * sec, 5 * sec, 15 * sec}[rc.Intn(3)]
		cfg.NSrc = rc.Range(2, 4)
		cfg.DelayedName = rc.Chance(0.3)
	}
	// A small share of the runs exercises the input pattern of one listed known finding (known_findings.json);
	// all other runs are steered away from these patterns so that they keep exploring past them.
	// The share is small because every violating run is minimised (hundreds of re-executions); the committed
	// replay plans under /verif/known reproduce each finding deterministically on every check anyway.
	kfP := 0.002
	if tier == "thorough" {
		kfP = 0.0005
	}
	switch {
	case cfg.Mode == "ticker" && rc.Chance(kfP):
		// (formerly the share of runs dedicated to group-removed-before-first-eval, repaired in /repo; the draw is
		// kept so that the other choices of a seed do not move)
	case prop == "C44" && rc.Chance(kfP):
		// (formerly the share of runs dedicated to alerts-series-unexpanded-template-label, repaired in /repo; the
		// draw is kept so that the other choices of a seed do not move)
	}
	p := &Plan{Cfg: cfg}
	switch prop {
	case "C44":
		g.genAlertGroups()
	default:
		g.genRecordGroups()
	}
	p.Groups = cloneGroups(g.groups)
	if cfg.Mode == "direct" {
		g.timelineDirect(p)
	} else {
		g.timelineTicker(p)
	}
	p.Cfg = *g.cfg
	return p
}

func cloneGroups(gs []GroupSpec) []GroupSpec {
	b, _ := json.Marshal(gs)
	var out []GroupSpec
	if err := json.Unmarshal(b, &out); err != nil {
		panic("harness: " + err.Error())
	}
	return out
}

// ---- rule file generation: C44 ----

func (g *gen) holdChoices(interval int64) []int64 {
	if g.cfg.Mode == "ticker" {
		i := interval
		return []int64{0, 0, i, 2 * i, 3 * i, 5 * i, 2*i + sec, 10 * i, minute, 5 * minute, g.cfg.GraceMs + i, 10 * minute}
	}
	return []int64{0, 0, sec, 30 * sec, minute, 2 * minute, 5 * minute, 10 * minute, 20 * minute, g.cfg.GraceMs + 30*sec}
}

func (g *gen) kffChoices(interval int64) []int64 {
	if g.cfg.Mode == "ticker" {
		i := interval
		return []int64{0, 0, 0, i, 2 * i, 4 * i, 3*i + sec, minute, 5 * minute}
	}
	return []int64{0, 0, 0, 30 * sec, minute, 5 * minute, 10 * minute}
}

func (g *gen) intervalOf(gs *GroupSpec) int64 {
	if gs.IntervalMs != 0 {
		return gs.IntervalMs
	}
	return g.cfg.DefIntervalMs
}

func (g *gen) newAlertRule(interval int64) RuleSpec {
	r := g.r
	g.nextID++
	rs := RuleSpec{ID: g.nextID, Alert: true, Name: fmt.Sprintf("A%d", g.nextID)}
	// Most rules have their own scripted query; some share one (same result sets, different durations).
	if g.nextQ > 0 && r.Chance(0.2) {
		rs.Q = r.Range(1, g.nextQ)
	} else {
		g.nextQ++
		rs.Q = g.nextQ
	}
	hc := g.holdChoices(interval)
	rs.ForMs = hc[r.Intn(len(hc))]
	if rs.ForMs == g.cfg.GraceMs && rs.ForMs != 0 {
		rs.ForMs += sec // `for` exactly equal to the grace period is left open by the flag documentation; rarely exercised below
		if r.Chance(0.1) {
			rs.ForMs -= sec
		}
	}
	kc := g.kffChoices(interval)
	rs.KffMs = kc[r.Intn(len(kc))]
	switch r.Intn(6) {
	case 0:
		rs.Lbl = []rulemodel.LabelT{{N: "sev", V: "page"}}
	case 1:
		rs.Lbl = []rulemodel.LabelT{{N: "x", V: "ovr"}} // overrides label x of the result elements
	case 2:
		rs.Lbl = []rulemodel.LabelT{{N: "tier", K: "gt", C: 4.5}} // the label set depends on the value
	case 3:
		rs.Lbl = []rulemodel.LabelT{{N: "inst", K: "label", V: "s"}, {N: "sev", V: "warn"}}
	case 4:
		// expands to "" for elements without label x (the finding alerts-series-unexpanded-template-label was repaired
		// in /repo: ordinary workload now)
		rs.Lbl = []rulemodel.LabelT{{N: "inst", K: "label", V: "x"}}
	}
	if r.Chance(0.5) {
		rs.Ann = []rulemodel.LabelT{{N: "summary", K: "value"}}
		if r.Chance(0.3) {
			rs.Ann = append(rs.Ann, rulemodel.LabelT{N: "who", K: "label", V: "s"})
		}
	}
	return rs
}

func (g *gen) genAlertGroups() {
	r := g.r
	ng := r.Range(1, 3)
	nfiles := r.Range(1, 2)
	total := 0
	for i := 0; i < ng; i++ {
		gs := GroupSpec{File: r.Intn(nfiles), Name: fmt.Sprintf("g%d", i)}
		if g.cfg.Mode == "ticker" && r.Chance(0.5) {
			gs.IntervalMs = g.pick64(5*sec, 10*sec, 15*sec, 30*sec, minute)
		}
		if r.Chance(0.15) {
			gs.OffsetMs = g.pick64(sec, 5*sec, 30*sec)
		}
		if r.Chance(0.12) {
			gs.Limit = r.Range(1, 3)
		}
		if r.Chance(0.2) {
			gs.Lbl = []rulemodel.LabelT{{N: "team", V: "t" + fmt.Sprint(i)}}
		}
		nr := r.Range(1, 3)
		for j := 0; j < nr && total < 5; j++ {
			gs.Rules = append(gs.Rules, g.newAlertRule(g.intervalOf(&gs)))
			total++
		}
		g.groups = append(g.groups, gs)
	}
}

// ---- rule file generation: C45 ----

var srcNames = []string{"src_a", "src_b"}

func (g *gen) allRuleNames() (names []string) {
	for _, gs := range g.groups {
		for _, rs := range gs.Rules {
			names = append(names, rs.Name)
		}
	}
	return
}

// genExpr draws a recording rule expression. earlier: names of earlier rules of the same group
// (dependencies proper), others: any other rule names (other groups, later rules, the rule itself).
func (g *gen) genExpr(earlier, others, alerts []string) *rulemodel.Expr {
	r := g.r
	input := func() *rulemodel.Expr {
		var name string
		if len(alerts) > 0 && r.Chance(0.5) {
			// the synthetic series of an earlier alerting rule of the group
			e := &rulemodel.Expr{Op: "sel", Name: []string{"ALERTS", "ALERTS", "ALERTS_FOR_STATE"}[r.Intn(3)]}
			switch r.Intn(4) {
			case 0: // no alertname matcher: depends on every alerting rule
			case 1:
				e.M = []rulemodel.Matcher{{N: "alertname", V: alerts[r.Intn(len(alerts))] + "|zz", T: 2}}
			default:
				e.M = []rulemodel.Matcher{{N: "alertname", V: alerts[r.Intn(len(alerts))]}}
			}
			return e
		}
		switch {
		case len(earlier) > 0 && r.Chance(0.55):
			name = earlier[r.Intn(len(earlier))]
		case len(others) > 0 && r.Chance(0.25):
			name = others[r.Intn(len(others))]
		default:
			name = srcNames[r.Intn(2)]
		}
		e := &rulemodel.Expr{Op: "sel", Name: name}
		switch r.Intn(8) {
		case 0:
			e.M = []rulemodel.Matcher{{N: "s", V: fmt.Sprint(r.Intn(g.cfg.NSrc))}}
		case 1:
			e.M = []rulemodel.Matcher{{N: "s", V: "0", T: 1}}
		case 2:
			e.M = []rulemodel.Matcher{{N: "s", V: "0|1", T: 2}}
		case 3:
			// a regular expression on the metric name: two inputs at once
			o := srcNames[r.Intn(2)]
			if len(earlier) > 0 {
				o = earlier[r.Intn(len(earlier))]
			}
			if o != name {
				e.NameRe, e.Name = name+"|"+o, ""
			}
		}
		return e
	}
	switch r.Intn(10) {
	case 0, 1:
		return input()
	case 2:
		return &rulemodel.Expr{Op: "gt", A: input(), C: float64(r.Range(1, 6))}
	case 3:
		return &rulemodel.Expr{Op: "mul", A: input(), C: float64(r.Range(2, 3))}
	case 4:
		return &rulemodel.Expr{Op: "add", A: input(), C: float64(r.Range(1, 9))}
	case 5:
		return &rulemodel.Expr{Op: "sum", By: []string{"s"}, A: input()}
	case 6:
		return &rulemodel.Expr{Op: []string{"count", "max", "sum"}[r.Intn(3)], By: []string{"z"}, A: input()}
	case 7:
		by := []string{[]string{"s", "z"}[r.Intn(2)]}
		return &rulemodel.Expr{Op: "plus", A: &rulemodel.Expr{Op: "sum", By: by, A: input()}, B: &rulemodel.Expr{Op: "max", By: by, A: input()}}
	case 8:
		// no metric name at all: the dependency analysis cannot tell what this rule reads
		if r.Chance(0.5) {
			return &rulemodel.Expr{Op: "count", By: []string{"s"}, A: &rulemodel.Expr{Op: "sel", M: []rulemodel.Matcher{{N: "z", V: "e"}}}}
		}
		return &rulemodel.Expr{Op: "sum", By: []string{"s", "z"}, A: input()}
	default:
		return &rulemodel.Expr{Op: "sum", By: []string{"s", "z"}, A: input()}
	}
}

func (g *gen) newRecordRule(gs *GroupSpec, pos int) RuleSpec {
	r := g.r
	g.nextID++
	rs := RuleSpec{ID: g.nextID, Name: fmt.Sprintf("r%d", g.nextID)}
	var earlier, others, alerts []string
	for i, x := range gs.Rules {
		switch {
		case x.Alert && i < pos:
			alerts = append(alerts, x.Name)
		case x.Alert:
		case i < pos:
			earlier = append(earlier, x.Name)
		default:
			others = append(others, x.Name)
		}
	}
	for _, og := range g.groups {
		if og.Key() == gs.Key() {
			continue
		}
		for _, x := range og.Rules {
			if !x.Alert {
				others = append(others, x.Name)
			}
		}
	}
	if r.Chance(0.1) {
		others = append(others, rs.Name) // reads its own previous output
	}
	rs.Expr = g.genExpr(earlier, others, alerts)
	switch r.Intn(8) {
	case 0:
		rs.Lbl = []rulemodel.LabelT{{N: "k", V: "v"}}
	case 1:
		rs.Lbl = []rulemodel.LabelT{{N: "z", V: "all"}} // overrides a label of the result: label sets may collapse
	}
	return rs
}

func (g *gen) genRecordGroups() {
	r := g.r
	ng := r.Range(1, 3)
	nfiles := r.Range(1, 2)
	total := 0
	for i := 0; i < ng; i++ {
		gs := GroupSpec{File: r.Intn(nfiles), Name: fmt.Sprintf("g%d", i)}
		if g.cfg.Mode == "ticker" && r.Chance(0.5) {
			gs.IntervalMs = g.pick64(5*sec, 10*sec, 15*sec, 30*sec)
		}
		if r.Chance(0.12) {
			gs.OffsetMs = g.pick64(sec, 5*sec)
		}
		if r.Chance(0.1) {
			gs.Limit = r.Range(1, 3)
		}
		if r.Chance(0.15) {
			gs.Lbl = []rulemodel.LabelT{{N: "team", V: "t" + fmt.Sprint(i)}}
		}
		nr := r.Range(1, 4)
		alertAt := -1
		if r.Chance(0.3) {
			alertAt = r.Intn(nr) // an alerting rule whose ALERTS series later rules of the group may read
		}
		for j := 0; j < nr && total < 8; j++ {
			if j == alertAt {
				if g.nextQ < 10 {
					g.nextQ = 10 // scripted query keys 0 and 1 are the source metrics
				}
				gs.Rules = append(gs.Rules, g.newAlertRule(g.intervalOf(&gs)))
			}
			gs.Rules = append(gs.Rules, g.newRecordRule(&gs, len(gs.Rules)))
			total++
		}
		g.groups = append(g.groups, gs)
	}
}

// ---- reload edits ----

func (g *gen) findGroup(key string) *GroupSpec {
	for i := range g.groups {
		if g.groups[i].Key() == key {
			return &g.groups[i]
		}
	}
	return nil
}

func (g *gen) totalRules() int {
	n := 0
	for _, gs := range g.groups {
		n += len(gs.Rules)
	}
	return n
}

// genEdits draws 1-3 edits and applies them to g.groups (the generator's view of the configuration).
func (g *gen) genEdits() []Edit {
	r := g.r
	var out []Edit
	n := r.Range(1, 3)
	for k := 0; k < n; k++ {
		if len(g.groups) == 0 {
			e := g.editAddGroup()
			out = append(out, e)
			continue
		}
		gs := &g.groups[r.Intn(len(g.groups))]
		key := gs.Key()
		alert := g.prop == "C44"
		var alertIdx []int
		for i := range gs.Rules {
			if gs.Rules[i].Alert {
				alertIdx = append(alertIdx, i)
			}
		}
		var e Edit
		switch c := r.Intn(16); {
		case c <= 2 && len(alertIdx) > 0 && (alert || r.Chance(0.3)):
			ru := &gs.Rules[alertIdx[r.Intn(len(alertIdx))]]
			hc := g.holdChoices(g.intervalOf(gs))
			ms := hc[r.Intn(len(hc))]
			if ms == g.cfg.GraceMs && ms != 0 {
				ms += sec
			}
			if r.Chance(0.4) {
				ms = ru.ForMs * int64(r.Range(2, 4)) // a longer hold: firing alerts younger than it become pending again
				if ms == 0 {
					ms = g.pick64(30*sec, minute, 5*minute)
				}
			}
			e = Edit{K: "sethold", G: key, R: ru.ID, Ms: ms}
		case c == 3 && len(alertIdx) > 0:
			ru := &gs.Rules[alertIdx[r.Intn(len(alertIdx))]]
			kc := g.kffChoices(g.intervalOf(gs))
			e = Edit{K: "setkff", G: key, R: ru.ID, Ms: kc[r.Intn(len(kc))]}
		case c == 4 && len(gs.Rules) > 0:
			ru := &gs.Rules[r.Intn(len(gs.Rules))]
			if ru.Alert {
				if g.nextQ < 10 {
					g.nextQ = 10
				}
				g.nextQ++
				e = Edit{K: "setq", G: key, R: ru.ID, N: g.nextQ}
			} else {
				pos := 0
				for i := range gs.Rules {
					if gs.Rules[i].ID == ru.ID {
						pos = i
					}
				}
				tmp := g.newRecordRule(gs, pos)
				g.nextID--
				e = Edit{K: "setexpr", G: key, R: ru.ID, Expr: tmp.Expr}
			}
		case c == 5 && len(gs.Rules) > 0:
			ru := &gs.Rules[r.Intn(len(gs.Rules))]
			e = Edit{K: "setlbl", G: key, R: ru.ID, Lbl: []rulemodel.LabelT{{N: "rev", V: fmt.Sprint(r.Intn(3))}}}
		case c <= 7 && g.totalRules() < 9:
			pos := r.Intn(len(gs.Rules) + 1)
			var rs RuleSpec
			if alert {
				rs = g.newAlertRule(g.intervalOf(gs))
			} else {
				rs = g.newRecordRule(gs, pos)
			}
			e = Edit{K: "addrule", G: key, Pos: pos, Rule: &rs}
		case c <= 9 && len(gs.Rules) > 0:
			e = Edit{K: "delrule", G: key, R: gs.Rules[r.Intn(len(gs.Rules))].ID}
		case c <= 11 && len(gs.Rules) > 0 && len(g.groups) > 1:
			to := &g.groups[r.Intn(len(g.groups))]
			e = Edit{K: "moverule", G: key, R: gs.Rules[r.Intn(len(gs.Rules))].ID, To: to.Key(), Pos: r.Intn(len(to.Rules) + 1)}
		case c == 12 && g.cfg.Mode == "ticker":
			e = Edit{K: "setint", G: key, Ms: g.pick64(5*sec, 10*sec, 15*sec, 30*sec)}
		case c == 13:
			if r.Chance(0.5) {
				e = Edit{K: "setoff", G: key, Ms: g.pick64(0, sec, 5*sec)}
			} else {
				e = Edit{K: "setlimit", G: key, N: r.Intn(4)}
			}
		case c == 14 && len(g.groups) > 1:
			e = Edit{K: "delgroup", G: key}
		case c == 15 && len(g.groups) < 4 && g.totalRules() < 8:
			e = g.editAddGroup()
			out = append(out, e) // already applied
			continue
		default:
			continue
		}
		ApplyEdit(&g.groups, e)
		out = append(out, e)
	}
	return out
}

func (g *gen) editAddGroup() Edit {
	r := g.r
	gs := GroupSpec{File: r.Intn(2), Name: fmt.Sprintf("n%d", g.nextID+1)}
	if g.cfg.Mode == "ticker" && r.Chance(0.5) {
		gs.IntervalMs = g.pick64(5*sec, 10*sec, 15*sec, 30*sec)
	}
	g.groups = append(g.groups, gs)
	gp := &g.groups[len(g.groups)-1]
	nr := r.Range(1, 2)
	for j := 0; j < nr; j++ {
		if g.prop == "C44" {
			gp.Rules = append(gp.Rules, g.newAlertRule(g.intervalOf(gp)))
		} else {
			gp.Rules = append(gp.Rules, g.newRecordRule(gp, j))
		}
	}
	cp := cloneGroups([]GroupSpec{*gp})[0]
	return Edit{K: "addgroup", Group: &cp}
}

// ApplyEdit applies one edit to a configuration; it reports whether it applied.
func ApplyEdit(groups *[]GroupSpec, e Edit) bool {
	find := func(key string) *GroupSpec {
		for i := range *groups {
			if (*groups)[i].Key() == key {
				return &(*groups)[i]
			}
		}
		return nil
	}
	rule := func(gs *GroupSpec, id int) int {
		if gs == nil {
			return -1
		}
		for i := range gs.Rules {
			if gs.Rules[i].ID == id {
				return i
			}
		}
		return -1
	}
	gs := find(e.G)
	switch e.K {
	case "addgroup":
		if e.Group == nil || find(e.Group.Key()) != nil {
			return false
		}
		*groups = append(*groups, cloneGroups([]GroupSpec{*e.Group})[0])
		return true
	case "delgroup":
		for i := range *groups {
			if (*groups)[i].Key() == e.G {
				*groups = append((*groups)[:i:i], (*groups)[i+1:]...)
				return true
			}
		}
		return false
	}
	if gs == nil {
		return false
	}
	switch e.K {
	case "setint":
		gs.IntervalMs = e.Ms
		return true
	case "setoff":
		gs.OffsetMs = e.Ms
		return true
	case "setlimit":
		gs.Limit = e.N
		return true
	case "addrule":
		if e.Rule == nil {
			return false
		}
		for _, og := range *groups { // a rule name lives in one place only
			for _, x := range og.Rules {
				if x.Name == e.Rule.Name {
					return false
				}
			}
		}
		pos := e.Pos
		if pos > len(gs.Rules) {
			pos = len(gs.Rules)
		}
		rs := *e.Rule
		gs.Rules = append(gs.Rules[:pos:pos], append([]RuleSpec{rs}, gs.Rules[pos:]...)...)
		return true
	}
	ri := rule(gs, e.R)
	if ri < 0 {
		return false
	}
	switch e.K {
	case "sethold":
		gs.Rules[ri].ForMs = e.Ms
	case "setkff":
		gs.Rules[ri].KffMs = e.Ms
	case "setq":
		gs.Rules[ri].Q = e.N
	case "setexpr":
		if e.Expr == nil {
			return false
		}
		gs.Rules[ri].Expr = e.Expr
	case "setlbl":
		gs.Rules[ri].Lbl = e.Lbl
	case "delrule":
		gs.Rules = append(gs.Rules[:ri:ri], gs.Rules[ri+1:]...)
	case "moverule":
		to := find(e.To)
		if to == nil {
			return false
		}
		rs := gs.Rules[ri]
		gs.Rules = append(gs.Rules[:ri:ri], gs.Rules[ri+1:]...)
		to = find(e.To) // gs and to may be the same group
		pos := e.Pos
		if pos > len(to.Rules) {
			pos = len(to.Rules)
		}
		to.Rules = append(to.Rules[:pos:pos], append([]RuleSpec{rs}, to.Rules[pos:]...)...)
	default:
		return false
	}
	return true
}

// ---- timelines ----

func (g *gen) nEvals() int {
	if g.tier == "thorough" {
		return g.r.Range(20, 100)
	}
	return g.r.Range(20, 60)
}

func (g *gen) collectDurs() {
	d := map[int64]bool{retention: true, g.cfg.GraceMs: true, g.cfg.OutageTolMs: true, g.cfg.ResendMs: true}
	for _, gs := range g.groups {
		for _, rs := range gs.Rules {
			d[rs.ForMs] = true
			d[rs.KffMs] = true
		}
	}
	g.durs = g.durs[:0]
	for k := range d {
		if k > 0 {
			g.durs = append(g.durs, k)
		}
	}
	sort.Slice(g.durs, func(i, j int) bool { return g.durs[i] < g.durs[j] })
}

func (g *gen) gap() int64 {
	r := g.r
	switch c := r.Intn(20); {
	case c < 8:
		return int64(r.Range(1, 20)) * sec
	case c < 11:
		return int64(r.Range(1, 30000))
	case c < 15 && len(g.durs) > 0:
		d := g.durs[r.Intn(len(g.durs))]
		d += []int64{0, 0, 1, -1, sec, -sec}[r.Intn(6)]
		if d < 1 {
			d = 1
		}
		return d
	case c < 18:
		return int64(r.Range(30, 300)) * sec
	case c < 19:
		return int64(r.Range(14, 17)) * minute
	default:
		return int64(r.Range(20, 150)) * minute
	}
}

// world: the scripted state of the query results / source series while generating.
type world struct {
	on  map[[2]int]bool
	val map[[2]int]float64
}

type qkey struct{ q, n int }

// queryKeys lists the scripted worlds: source metrics (C45) and the queries of alerting rules.
func (g *gen) queryKeys() (qs []qkey) {
	if g.prop == "C45" {
		qs = append(qs, qkey{0, g.cfg.NSrc}, qkey{1, g.cfg.NSrc})
	}
	seen := map[int]bool{}
	var aq []int
	for _, gs := range g.groups {
		for _, rs := range gs.Rules {
			if rs.Alert && !seen[rs.Q] {
				seen[rs.Q] = true
				aq = append(aq, rs.Q)
			}
		}
	}
	sort.Ints(aq)
	for _, q := range aq {
		qs = append(qs, qkey{q, 6})
	}
	return qs
}

// flap toggles series of the scripted world at time at.
func (g *gen) flap(p *Plan, w *world, at int64, pToggle float64) {
	r := g.r
	for _, qk := range g.queryKeys() {
		q := qk.q
		for s := 0; s < qk.n; s++ {
			k := [2]int{q, s}
			pt := pToggle
			if qk.n == 6 && s >= 4 {
				// series 4 and 5 collide with others once the rule labels are applied (the whole evaluation
				// fails): they appear rarely and do not stay long
				pt = pToggle * 0.06
				if w.on[k] {
					pt = 0.6
				}
			}
			switch {
			case r.Chance(pt):
				w.on[k] = !w.on[k]
				if w.on[k] {
					w.val[k] = []float64{1, 2, 3, 4, 5, 5.5, 7, 9}[r.Intn(8)]
				}
				p.Script = append(p.Script, Ev{At: at, Q: q, S: s, On: w.on[k], V: w.val[k]})
			case w.on[k] && r.Chance(0.15):
				w.val[k] = []float64{1, 2, 3, 4, 5, 5.5, 7, 9}[r.Intn(8)]
				p.Script = append(p.Script, Ev{At: at, Q: q, S: s, On: true, V: w.val[k]})
			}
		}
	}
}

func (g *gen) genFaults(p *Plan, evalTimes []int64, span int64) {
	r := g.r
	if r.Chance(0.3) || len(evalTimes) == 0 {
		return // fault free run
	}
	ids := []int{-1}
	for _, gs := range p.Groups {
		for _, rs := range gs.Rules {
			ids = append(ids, rs.ID)
		}
	}
	n := r.Range(1, 5)
	for i := 0; i < n; i++ {
		t := evalTimes[r.Intn(len(evalTimes))]
		f := Fault{R: ids[r.Intn(len(ids))], From: t, To: t + 1}
		if r.Chance(0.4) {
			f.To = t + span*int64(r.Range(1, 3))
		}
		switch c := r.Intn(10); {
		case c < 4:
			f.K = "qfail"
		case c < 6:
			f.K = "qslow"
			f.Ms = g.pick64(1, 500, 2*sec, 7*sec, 31*sec, 2*minute)
			if g.cfg.Mode == "ticker" {
				f.Ms = g.pick64(500, span/2, span, span+sec, 2*span+sec, 3*span)
			}
		case c < 8:
			f.K = "cfail"
		case c < 9:
			f.K = "afail"
			f.S = r.Intn(4)
		default:
			f.K = "gcfail"
			f.G = p.Groups[r.Intn(len(p.Groups))].Key()
			f.To = t + span*int64(r.Range(1, 3))
		}
		p.Faults = append(p.Faults, f)
	}
}

func (g *gen) timelineDirect(p *Plan) {
	r := g.r
	g.collectDurs()
	w := &world{on: map[[2]int]bool{}, val: map[[2]int]float64{}}
	pToggle := []float64{0.05, 0.15, 0.3, 0.5}[r.Intn(4)]
	n := g.nEvals()
	now := int64(r.Range(1, 5000))
	var evalTimes []int64
	reloadP := []float64{0, 0.03, 0.06, 0.12}[r.Intn(4)]
	restartP := []float64{0, 0.02, 0.04}[r.Intn(3)]
	if g.prop == "C45" {
		reloadP *= 1.5
	}
	// bootAt[key] counts evaluations of a group since the last (re)start or restoring reload; the restore
	// op follows once every group had its evaluations.
	sinceBoot := 0
	needRestore := true
	restoreAfter := r.Range(1, 3) * len(g.groups)
	g.flap(p, w, now, 0.5)
	for i := 0; i < n; i++ {
		if len(g.groups) == 0 {
			break
		}
		gs := g.groups[r.Intn(len(g.groups))]
		g.flap(p, w, now, pToggle)
		p.Ops = append(p.Ops, Op{At: now, K: "eval", G: gs.Key()})
		evalTimes = append(evalTimes, now)
		sinceBoot++
		if needRestore && sinceBoot >= restoreAfter {
			now += int64(r.Range(0, 3))
			p.Ops = append(p.Ops, Op{At: now, K: "restore"})
			needRestore = false
		}
		switch {
		case r.Chance(reloadP):
			now += int64(r.Range(1, 2000))
			if r.Chance(0.1) {
				p.Ops = append(p.Ops, Op{At: now, K: "badreload"})
				now += int64(r.Range(1, 500))
			}
			p.Ops = append(p.Ops, Op{At: now, K: "reload", Edits: g.genEdits()})
			g.collectDurs()
			if g.cfg.RestoreNew {
				needRestore, sinceBoot, restoreAfter = true, 0, r.Range(1, 3)*len(g.groups)
			}
			if r.Chance(0.25) { // a second reload right behind the first
				now += int64(r.Range(1, 500))
				p.Ops = append(p.Ops, Op{At: now, K: "reload", Edits: g.genEdits()})
			}
		case r.Chance(restartP):
			now += int64(r.Range(1, 2000))
			out := g.pick64(sec, 30*sec, 5*minute, 9*minute, 11*minute, 30*minute, 59*minute, 61*minute, 2*hour,
				g.cfg.OutageTolMs-sec, g.cfg.OutageTolMs+sec)
			p.Ops = append(p.Ops, Op{At: now, K: "restart", OutageMs: out})
			now += out
			needRestore, sinceBoot, restoreAfter = true, 0, r.Range(1, 3)*len(g.groups)
			if r.Chance(0.1) {
				needRestore = false // this run never restores: no ALERTS series may be written
			}
		}
		now += g.gap()
	}
	p.Ops = append(p.Ops, Op{At: now, K: "stop"})
	g.genFaults(p, evalTimes, 20*sec)
}

func (g *gen) timelineTicker(p *Plan) {
	r := g.r
	g.collectDurs()
	w := &world{on: map[[2]int]bool{}, val: map[[2]int]float64{}}
	minInt := g.cfg.DefIntervalMs
	for _, gs := range g.groups {
		if gs.IntervalMs != 0 && gs.IntervalMs < minInt {
			minInt = gs.IntervalMs
		}
	}
	n := g.nEvals()
	active := int64(n) * minInt // simulated time with a running manager
	if r.Chance(0.3) && active < 40*minute && n >= 40 {
		active = int64(r.Range(20, 40)) * minute // long enough to see the end of a retention period
	}
	if active > 45*minute {
		active = 45 * minute
	}
	pToggle := []float64{0.05, 0.15, 0.3}[r.Intn(3)]
	// world changes at random instants
	nflaps := n
	var times []int64
	for i := 0; i < nflaps; i++ {
		times = append(times, r.Int63n(active))
	}
	sort.Slice(times, func(i, j int) bool { return times[i] < times[j] })
	// control ops at random instants of active time; outages stretch the absolute times behind them
	type cop struct {
		at int64
		k  string
	}
	var cops []cop
	nreload := []int{0, 1, 1, 2, 3}[r.Intn(5)]
	if g.prop == "C45" {
		nreload++
	}
	for i := 0; i < nreload; i++ {
		at := r.Int63n(active)
		cops = append(cops, cop{at, "reload"})
		if r.Chance(0.3) { // reloads in quick succession (shorter than an interval apart)
			cops = append(cops, cop{at + r.Int63n(minInt) + 1, "reload"})
		}
	}
	nrestart := []int{0, 0, 1, 1, 2}[r.Intn(5)]
	for i := 0; i < nrestart; i++ {
		cops = append(cops, cop{r.Int63n(active), "restart"})
	}
	sort.SliceStable(cops, func(i, j int) bool { return cops[i].at < cops[j].at })
	shift := int64(0)
	ti := 0
	g.flap(p, w, 0, 0.5)
	var evalTimes []int64
	for _, c := range cops {
		for ti < len(times) && times[ti] <= c.at {
			g.flap(p, w, times[ti]+shift, pToggle)
			evalTimes = append(evalTimes, times[ti]+shift)
			ti++
		}
		switch c.k {
		case "reload":
			if r.Chance(0.1) {
				p.Ops = append(p.Ops, Op{At: c.at + shift, K: "badreload"})
			}
			p.Ops = append(p.Ops, Op{At: c.at + shift, K: "reload", Edits: g.genEdits()})
		case "restart":
			out := g.pick64(sec, minInt, 3*minInt, 50*sec, 70*sec, 9*minute, 11*minute, 30*minute, 59*minute, 61*minute, 2*hour,
				g.cfg.OutageTolMs-minInt, g.cfg.OutageTolMs+minInt)
			if out < 1 {
				out = sec
			}
			p.Ops = append(p.Ops, Op{At: c.at + shift, K: "restart", OutageMs: out})
			shift += out
		}
	}
	for ; ti < len(times); ti++ {
		g.flap(p, w, times[ti]+shift, pToggle)
		evalTimes = append(evalTimes, times[ti]+shift)
	}
	p.Ops = append(p.Ops, Op{At: active + shift, K: "stop"})
	g.genFaults(p, evalTimes, minInt)
}

// ---- shrinking ----

func dropRange[T any](xs []T, from, to int) []T {
	out := make([]T, 0, len(xs)-(to-from))
	out = append(out, xs[:from]...)
	return append(out, xs[to:]...)
}

// Shrink returns simpler candidate plans, most aggressive first.
func Shrink(p *Plan) []*Plan {
	var out []*Plan
	add := func(f func(q *Plan)) {
		q := clonePlan(p)
		f(q)
		out = append(out, q)
	}
	// operations: chunks, then single ops (the final stop stays)
	nops := len(p.Ops)
	for size := nops / 2; size >= 1; size /= 2 {
		cnt := 0
		for from := 0; from+size <= nops && cnt < 24; from += size {
			f, s := from, size
			if p.Ops[f+s-1].K == "stop" && s == 1 {
				continue
			}
			add(func(q *Plan) { q.Ops = dropRange(q.Ops, f, f+s) })
			cnt++
		}
	}
	if len(p.Faults) > 0 {
		add(func(q *Plan) { q.Faults = nil })
		for i := range p.Faults {
			i := i
			add(func(q *Plan) { q.Faults = dropRange(q.Faults, i, i+1) })
		}
	}
	ns := len(p.Script)
	for size := ns / 2; size >= 1; size /= 2 {
		cnt := 0
		for from := 0; from+size <= ns && cnt < 12; from += size {
			f, s := from, size
			add(func(q *Plan) { q.Script = dropRange(q.Script, f, f+s) })
			cnt++
		}
	}
	for oi := range p.Ops {
		if len(p.Ops[oi].Edits) > 1 {
			for ei := range p.Ops[oi].Edits {
				oi, ei := oi, ei
				add(func(q *Plan) { q.Ops[oi].Edits = dropRange(q.Ops[oi].Edits, ei, ei+1) })
			}
		}
	}
	for gi := range p.Groups {
		gi := gi
		if len(p.Groups) > 1 {
			add(func(q *Plan) { q.Groups = dropRange(q.Groups, gi, gi+1) })
		}
		for ri := range p.Groups[gi].Rules {
			ri := ri
			if len(p.Groups[gi].Rules) > 1 {
				add(func(q *Plan) { q.Groups[gi].Rules = dropRange(q.Groups[gi].Rules, ri, ri+1) })
			}
		}
	}
	if p.Cfg.Conc {
		add(func(q *Plan) { q.Cfg.Conc = false })
	}
	if p.Cfg.CommitYield {
		add(func(q *Plan) { q.Cfg.CommitYield = false })
	}
	if p.Cfg.PolKind != "uniform" {
		add(func(q *Plan) { q.Cfg.PolKind = "uniform" })
	}
	if p.Cfg.RestoreNew {
		add(func(q *Plan) { q.Cfg.RestoreNew = false })
	}
	for gi := range p.Groups {
		gi := gi
		if p.Groups[gi].OffsetMs != 0 {
			add(func(q *Plan) { q.Groups[gi].OffsetMs = 0 })
		}
		if p.Groups[gi].Limit != 0 {
			add(func(q *Plan) { q.Groups[gi].Limit = 0 })
		}
	}
	return out
}
