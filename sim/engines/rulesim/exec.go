package rulesim

import (
	"context"
	"encoding/json"
	"errors"
	"fmt"
	"math"
	"os"
	"path/filepath"
	"sort"
	"strconv"
	"strings"
	"sync"
	"testing"
	"time"

	"github.com/prometheus/common/model"

	"github.com/prometheus/prometheus/model/labels"
	"github.com/prometheus/prometheus/model/rulefmt"
	"github.com/prometheus/prometheus/promql"
	"github.com/prometheus/prometheus/promql/parser"
	"github.com/prometheus/prometheus/rules"
	"github.com/prometheus/prometheus/storage"
	"github.com/prometheus/prometheus/tsdb"
	"github.com/prometheus/prometheus/tsdb/chunkenc"

	"verif/sim/core/prng"
	"verif/sim/core/runner"
	"verif/sim/core/sched"
	"verif/sim/model/rulemodel"
)

var debugOn = os.Getenv("VERIF_DEBUG") != ""

func scratchRoot() string {
	base := os.Getenv("VERIF_SCRATCH")
	if base == "" {
		base = "/dev/shm/verif-sim"
	}
	return filepath.Join(base, fmt.Sprintf("p%d", os.Getpid()))
}

type iterKey struct{}

// mRule is the model of one rule of one group generation.
type mRule struct {
	spec  RuleSpec
	lbl   []rulemodel.LabelT // group labels overridden by rule labels
	alert *rulemodel.AlertRule
	out   rulemodel.RuleOut
	ident string
}

// mGroup is the model of one generation of a rule group (a reload that changes a group starts a new one).
type mGroup struct {
	key     string // plan key  f<file>;<name>
	realKey string // rules.GroupKey(path, name)
	idx     int    // stable small integer for scheduler keys
	spec    GroupSpec
	rules   []*mRule

	// stale markers owed for rules a reload removed from the group (written at the end of the next evaluation)
	pendReq, pendOpt map[string]labels.Labels

	needRestore bool
	iters       int
	ptr         *rules.Group
	stopping    bool
	lastTs      time.Time
	started     bool
	running     *iter
	kfRemoval   string
	from        *mGroup // predecessor whose state is taken over at bind time
	entered     bool    // an evaluation has been entered (possibly still waiting for its first scheduling step)
	removed     bool
	finalized   bool
}

// ruleEval is one evaluation of one rule within an iteration.
type ruleEval struct {
	idx        int
	expectFail string // "" = the evaluation is expected to succeed
	vec        []rulemodel.OutSample
	plan       []rulemodel.Write
	failKeys   map[string]bool // series whose appends the fault plan refuses
	failCommit bool
	step       rulemodel.StepResult
	notified   int
	app        *simAppender
	done       bool
}

// iter is one evaluation of a group (one call of the group's evaluation function).
type iter struct {
	g       *mGroup
	ts      time.Time
	tMs     int64 // sample time: ts - query_offset, ms
	evals   map[int]*ruleEval
	cur     int // rule whose notify / appender calls come next in this atomic step (-1: none)
	cleanup *simAppender
}

type cleanup struct {
	key       string
	due       time.Time
	removedAt time.Time
	tMs       int64
	req, opt  map[string]labels.Labels
	seen      bool
	kf        string // the removal matches the pattern of this known finding
}

type exec struct {
	t    *testing.T
	prop string
	plan *Plan
	cfg  Config
	res  *runner.Result

	root, dataDir, rulesDir string
	T0                      time.Time
	ctx                     context.Context
	cancel                  context.CancelFunc

	s    *sched.Sched
	db   *tsdb.DB
	mgr  *rules.Manager
	eng  *promql.Engine
	engQ rules.QueryFunc

	mu       sync.Mutex
	cur      []GroupSpec
	groups   map[string]*mGroup // current generation by plan key
	pending  map[string]*mGroup // next generation while Manager.Update runs
	byPtr    map[*rules.Group]*mGroup
	gidx     map[string]int
	store    *rulemodel.Store
	cleanups []*cleanup
	restored bool // Manager has completed an Update (later groups are not restored unless RestoreNew)
	running  bool // manager running
	stopAll  bool

	script map[[2]int][]Ev
	srcOn  map[[2]int]bool // C45: source series currently exposed (to write staleness markers)

	failed  bool
	failCh  chan struct{}
	kfArmed string // the input pattern of this known finding has occurred in the run
	ctlDone bool

	// statistics / keys
	trace    uint64
	dtrace   uint64
	events   strings.Builder
	nEvalOK  int
	nEvalErr int
	counts   map[string]int64
}

func (e *exec) count(name string, n int64) { e.counts[name] += n }

func (e *exec) tr(format string, a ...any) {
	s := fmt.Sprintf(format, a...)
	e.trace = prng.Mix(e.trace ^ prng.DeriveS(0x7ace, s))
	if debugOn {
		fmt.Printf("DBG %8.3fs %s\n", time.Since(e.T0).Seconds(), s)
	}
}

func (e *exec) fail(oracle, sig, format string, a ...any) {
	if e.failed {
		return
	}
	e.failed = true
	close(e.failCh)
	if e.kfArmed != "" {
		sig = "known:" + e.kfArmed
	}
	e.res.Violate(e.prop, oracle, sig, format, a...)
	if debugOn {
		fmt.Printf("DBG VIOLATION %s %s: %s\n", oracle, sig, fmt.Sprintf(format, a...))
	}
}

func ms(t time.Time) int64 { return t.UnixMilli() }

func (e *exec) off(t time.Time) int64 { return t.Sub(e.T0).Milliseconds() }

func fmtT(e *exec, t time.Time) string {
	if t.IsZero() {
		return "-"
	}
	return fmt.Sprintf("+%s", t.Sub(e.T0))
}

// ---- rule files ----

func q(s string) string {
	b, _ := json.Marshal(s)
	return string(b)
}

func mergeLbl(group, rule []rulemodel.LabelT) []rulemodel.LabelT {
	m := map[string]rulemodel.LabelT{}
	for _, l := range group {
		m[l.N] = l
	}
	for _, l := range rule {
		m[l.N] = l
	}
	var out []rulemodel.LabelT
	for _, l := range m {
		out = append(out, l)
	}
	sort.Slice(out, func(i, j int) bool { return out[i].N < out[j].N })
	return out
}

func exprText(rs *RuleSpec) string {
	if rs.Alert {
		return fmt.Sprintf("q%d", rs.Q)
	}
	return rs.Expr.String()
}

// fileID is the identifier of a rule file as the manager sees it. It must not contain the per-process
// scratch path: the evaluation slot of a group is derived from a hash of file and group name. The loader
// below (ManagerOptions.GroupLoader seam) maps it to the real file on tmpfs and parses it with the stock parser.
func (e *exec) fileID(i int) string { return fmt.Sprintf("rules/f%d.yml", i) }

func (e *exec) filePath(i int) string { return filepath.Join(e.root, e.fileID(i)) }

type fileLoader struct {
	root string
	p    parser.Parser
}

func (l fileLoader) Load(id string, ignoreUnknownFields bool, scheme model.ValidationScheme) (*rulefmt.RuleGroups, []error) {
	return rulefmt.ParseFile(filepath.Join(l.root, id), ignoreUnknownFields, scheme, l.p, nil)
}

func (l fileLoader) Parse(query string) (parser.Expr, error) { return l.p.ParseExpr(query) }

func (e *exec) realKey(gs *GroupSpec) string { return rules.GroupKey(e.fileID(gs.File), gs.Name) }

// writeFiles writes the current configuration as rule files and returns the file list.
func (e *exec) writeFiles() []string {
	byFile := map[int][]*GroupSpec{}
	for i := range e.cur {
		byFile[e.cur[i].File] = append(byFile[e.cur[i].File], &e.cur[i])
	}
	var idx []int
	for f := range byFile {
		idx = append(idx, f)
	}
	sort.Ints(idx)
	old, _ := filepath.Glob(filepath.Join(e.rulesDir, "*.yml"))
	for _, f := range old {
		os.Remove(f)
	}
	var files []string
	for _, f := range idx {
		var sb strings.Builder
		sb.WriteString("groups:\n")
		for _, gs := range byFile[f] {
			fmt.Fprintf(&sb, "- name: %s\n", q(gs.Name))
			if gs.IntervalMs != 0 {
				fmt.Fprintf(&sb, "  interval: %dms\n", gs.IntervalMs)
			}
			if gs.OffsetMs != 0 {
				fmt.Fprintf(&sb, "  query_offset: %dms\n", gs.OffsetMs)
			}
			if gs.Limit != 0 {
				fmt.Fprintf(&sb, "  limit: %d\n", gs.Limit)
			}
			if len(gs.Lbl) > 0 {
				sb.WriteString("  labels:\n")
				for _, l := range gs.Lbl {
					fmt.Fprintf(&sb, "    %s: %s\n", l.N, q(l.Text()))
				}
			}
			if len(gs.Rules) == 0 {
				sb.WriteString("  rules: []\n")
				continue
			}
			sb.WriteString("  rules:\n")
			for i := range gs.Rules {
				rs := &gs.Rules[i]
				if rs.Alert {
					fmt.Fprintf(&sb, "  - alert: %s\n", q(rs.Name))
				} else {
					fmt.Fprintf(&sb, "  - record: %s\n", q(rs.Name))
				}
				fmt.Fprintf(&sb, "    expr: %s\n", q(exprText(rs)))
				if rs.Alert && rs.ForMs != 0 {
					fmt.Fprintf(&sb, "    for: %dms\n", rs.ForMs)
				}
				if rs.Alert && rs.KffMs != 0 {
					fmt.Fprintf(&sb, "    keep_firing_for: %dms\n", rs.KffMs)
				}
				if len(rs.Lbl) > 0 {
					sb.WriteString("    labels:\n")
					for _, l := range rs.Lbl {
						fmt.Fprintf(&sb, "      %s: %s\n", l.N, q(l.Text()))
					}
				}
				if rs.Alert && len(rs.Ann) > 0 {
					sb.WriteString("    annotations:\n")
					for _, l := range rs.Ann {
						fmt.Fprintf(&sb, "      %s: %s\n", l.N, q(l.Text()))
					}
				}
			}
		}
		p := e.filePath(f)
		if err := os.WriteFile(p, []byte(sb.String()), 0o644); err != nil {
			panic("harness: write rule file: " + err.Error())
		}
		files = append(files, e.fileID(f))
	}
	return files
}

// ---- model construction ----

func (e *exec) newRuleModel(gs *GroupSpec, rs RuleSpec, restored bool) *mRule {
	mr := &mRule{spec: rs, lbl: mergeLbl(gs.Lbl, rs.Lbl)}
	var sb strings.Builder
	sb.WriteString(rs.Name)
	for _, l := range mr.lbl {
		fmt.Fprintf(&sb, "|%s=%s", l.N, l.Text())
	}
	mr.ident = sb.String()
	if rs.Alert {
		mr.alert = &rulemodel.AlertRule{Name: rs.Name, For: time.Duration(rs.ForMs) * time.Millisecond, Kff: time.Duration(rs.KffMs) * time.Millisecond,
			Labels: mr.lbl, Ann: rs.Ann, Restored: restored, Alerts: map[string]*rulemodel.Alert{}}
	}
	return mr
}

func (e *exec) newGroupModel(gs GroupSpec, needRestore bool) *mGroup {
	mg := &mGroup{key: gs.Key(), realKey: e.realKey(&gs), spec: gs, needRestore: needRestore,
		pendReq: map[string]labels.Labels{}, pendOpt: map[string]labels.Labels{}}
	if i, ok := e.gidx[mg.key]; ok {
		mg.idx = i
	} else {
		mg.idx = len(e.gidx)
		e.gidx[mg.key] = mg.idx
	}
	for _, rs := range gs.Rules {
		mg.rules = append(mg.rules, e.newRuleModel(&gs, rs, !needRestore))
	}
	return mg
}

func (e *exec) interval(gs *GroupSpec) time.Duration {
	if gs.IntervalMs != 0 {
		return time.Duration(gs.IntervalMs) * time.Millisecond
	}
	return time.Duration(e.cfg.DefIntervalMs) * time.Millisecond
}

// sameSpec tells whether a reload leaves the group as it is (same name, file, effective interval, limit,
// query offset and rules).
func (e *exec) sameSpec(a, b *GroupSpec) bool {
	ca, cb := *a, *b
	ca.IntervalMs, cb.IntervalMs = int64(e.interval(a)/time.Millisecond), int64(e.interval(b)/time.Millisecond)
	x, _ := json.Marshal(&ca)
	y, _ := json.Marshal(&cb)
	return string(x) == string(y)
}

// copyState is the documented reload behaviour: rules are recognised by name and labels (duplicates in
// order); a recognised rule keeps its alerts and its previous-evaluation series; the series of rules that
// are gone are owed a staleness marker.
func copyState(newg, old *mGroup) {
	byIdent := map[string][]int{}
	for i, r := range old.rules {
		byIdent[r.ident] = append(byIdent[r.ident], i)
	}
	used := map[int]bool{}
	for _, r := range newg.rules {
		l := byIdent[r.ident]
		if len(l) == 0 {
			continue
		}
		oi := l[0]
		byIdent[r.ident] = l[1:]
		used[oi] = true
		or := old.rules[oi]
		r.out = or.out
		if r.alert != nil && or.alert != nil {
			for k, a := range or.alert.Alerts {
				r.alert.Alerts[k] = a
			}
		}
	}
	for k, l := range old.pendReq {
		newg.pendReq[k] = l
	}
	for k, l := range old.pendOpt {
		newg.pendOpt[k] = l
	}
	for i, r := range old.rules {
		if used[i] {
			continue
		}
		req, opt := r.out.All()
		for _, l := range req {
			newg.pendReq[rulemodel.Key(l)] = l
		}
		for _, l := range opt {
			newg.pendOpt[rulemodel.Key(l)] = l
		}
	}
	for k := range newg.pendReq {
		delete(newg.pendOpt, k)
	}
}

// ---- storage ----

func (e *exec) openDB() {
	o := tsdb.DefaultOptions()
	o.MinBlockDuration = int64(100000 * time.Hour / time.Millisecond)
	o.MaxBlockDuration = o.MinBlockDuration
	o.RetentionDuration = 0
	o.NoLockfile = true
	o.StripeSize = 16
	o.WALSegmentSize = 1 << 20
	o.HeadChunksWriteQueueSize = 0
	o.WALReplayConcurrency = 1
	o.OutOfOrderTimeWindow = 0
	db, err := tsdb.Open(e.dataDir, nil, nil, o, nil)
	if err != nil {
		panic("harness: tsdb open: " + err.Error())
	}
	db.DisableCompactions()
	e.db = db
}

func (e *exec) closeDB() {
	if e.db == nil {
		return
	}
	if err := e.db.Close(); err != nil {
		panic("harness: tsdb close: " + err.Error())
	}
	e.db = nil
}

// realAt reads the stored sample of exactly this series at exactly t.
func (e *exec) realAt(l labels.Labels, t int64) (float64, bool) {
	qr, err := e.db.Querier(t, t)
	if err != nil {
		panic("harness: querier: " + err.Error())
	}
	defer qr.Close()
	var ms []*labels.Matcher
	l.Range(func(x labels.Label) {
		ms = append(ms, labels.MustNewMatcher(labels.MatchEqual, x.Name, x.Value))
	})
	ss := qr.Select(context.Background(), false, nil, ms...)
	want := rulemodel.Key(l)
	var v float64
	found := false
	for ss.Next() {
		s := ss.At()
		if rulemodel.Key(s.Labels()) != want {
			continue
		}
		it := s.Iterator(nil)
		for it.Next() == chunkenc.ValFloat {
			t2, v2 := it.At()
			if t2 == t {
				v, found = v2, true
			}
		}
	}
	if ss.Err() != nil {
		panic("harness: select: " + ss.Err().Error())
	}
	return v, found
}

func fv(v float64) string {
	if rulemodel.IsStale(v) {
		return "STALE"
	}
	return strconv.FormatFloat(v, 'f', -1, 64)
}

// checkAt compares storage and model for the given series at time t.
func (e *exec) checkAt(where string, ls []labels.Labels, t int64) {
	for _, l := range ls {
		if e.failed {
			return
		}
		e.res.Evals++
		rv, rok := e.realAt(l, t)
		mv, mok := e.store.At(l, t)
		switch {
		case rok && !mok:
			e.fail("storage", "unexpected-sample:"+kindOf(l, rv), "%s: storage holds %s = %s at +%dms, the model expects no sample there", where, l, fv(rv), t-ms(e.T0))
		case !rok && mok:
			e.fail("storage", "missing-sample:"+kindOf(l, mv), "%s: storage holds no sample of %s at +%dms, expected %s", where, l, t-ms(e.T0), fv(mv))
		case rok && mok && !rulemodel.SameBits(rv, mv):
			e.fail("storage", "wrong-value:"+kindOf(l, mv), "%s: storage holds %s = %s at +%dms, expected %s", where, l, fv(rv), t-ms(e.T0), fv(mv))
		}
	}
}

func kindOf(l labels.Labels, v float64) string {
	n := l.Get(labels.MetricName)
	k := "record"
	if n == "ALERTS" || n == "ALERTS_FOR_STATE" {
		k = n
	}
	if rulemodel.IsStale(v) {
		return k + "/stale"
	}
	return k + "/value"
}

// compareAll compares the whole storage with the model.
func (e *exec) compareAll(where string) {
	if e.failed || e.db == nil {
		return
	}
	qr, err := e.db.Querier(math.MinInt64, math.MaxInt64)
	if err != nil {
		panic("harness: querier: " + err.Error())
	}
	defer qr.Close()
	ss := qr.Select(context.Background(), true, nil, labels.MustNewMatcher(labels.MatchRegexp, labels.MetricName, ".+"))
	seen := map[string]bool{}
	for ss.Next() {
		s := ss.At()
		k := rulemodel.Key(s.Labels())
		seen[k] = true
		var got []rulemodel.Sample
		it := s.Iterator(nil)
		for it.Next() == chunkenc.ValFloat {
			t, v := it.At()
			got = append(got, rulemodel.Sample{T: t, V: v})
		}
		var want []rulemodel.Sample
		if m := e.store.Get(k); m != nil {
			want = m.S
		}
		e.res.Evals++
		if d := diffSamples(e, got, want); d != "" {
			e.fail("storage-final", "series-differs:"+kindOf(s.Labels(), 0), "%s: series %s: %s", where, k, d)
			return
		}
	}
	if ss.Err() != nil {
		panic("harness: select: " + ss.Err().Error())
	}
	for _, k := range e.store.Keys() {
		if !seen[k] && len(e.store.Get(k).S) > 0 {
			e.fail("storage-final", "series-missing:"+kindOf(e.store.Get(k).L, 0), "%s: series %s is not in the storage, expected %d samples", where, k, len(e.store.Get(k).S))
			return
		}
	}
}

func diffSamples(e *exec, got, want []rulemodel.Sample) string {
	i, j := 0, 0
	for i < len(got) || j < len(want) {
		switch {
		case j >= len(want) || (i < len(got) && got[i].T < want[j].T):
			return fmt.Sprintf("unexpected sample %s at +%dms", fv(got[i].V), got[i].T-ms(e.T0))
		case i >= len(got) || want[j].T < got[i].T:
			return fmt.Sprintf("missing sample %s at +%dms", fv(want[j].V), want[j].T-ms(e.T0))
		default:
			if !rulemodel.SameBits(got[i].V, want[j].V) {
				return fmt.Sprintf("sample at +%dms is %s, expected %s", got[i].T-ms(e.T0), fv(got[i].V), fv(want[j].V))
			}
			i++
			j++
		}
	}
	return ""
}

// ---- the append seam ----

var errInjected = errors.New("simulated storage failure")

type appRec struct {
	l        labels.Labels
	t        int64
	v        float64
	err      error
	injected bool
}

type simAppender struct {
	storage.Appender
	e    *exec
	kind string // rule | groupend | detached
	it   *iter
	re   *ruleEval
	recs []appRec
	at   time.Time
}

// Appender implements storage.Appendable on top of the real DB.
func (e *exec) Appender(ctx context.Context) storage.Appender {
	a := &simAppender{Appender: e.db.Appender(ctx), e: e, at: time.Now()}
	it, _ := ctx.Value(iterKey{}).(*iter)
	e.mu.Lock()
	defer e.mu.Unlock()
	switch {
	case it == nil:
		a.kind = "detached"
	case it.cur >= 0:
		a.kind, a.it, a.re = "rule", it, it.evals[it.cur]
		a.re.app = a
		it.cur = -1
	default:
		a.kind, a.it = "groupend", it
		if it.cleanup != nil {
			e.fail("appends", "second-cleanup-appender", "group %s: a second appender outside rule evaluations in one iteration", it.g.key)
		}
		it.cleanup = a
	}
	return a
}

func (a *simAppender) Append(ref storage.SeriesRef, l labels.Labels, t int64, v float64) (storage.SeriesRef, error) {
	rec := appRec{l: l.Copy(), t: t, v: v}
	if a.re != nil && a.re.failKeys[rulemodel.Key(l)] {
		rec.err, rec.injected = errInjected, true
		a.e.mu.Lock()
		a.recs = append(a.recs, rec)
		a.e.mu.Unlock()
		return 0, errInjected
	}
	r, err := a.Appender.Append(ref, l, t, v)
	rec.err = err
	a.e.mu.Lock()
	a.recs = append(a.recs, rec)
	a.e.mu.Unlock()
	return r, err
}

func (a *simAppender) Commit() error {
	e := a.e
	if a.kind != "detached" && e.cfg.CommitYield {
		ri := -1
		if a.re != nil {
			ri = a.re.idx
		}
		e.s.Yield("commit", a.it.g.idx, ri+1)
	}
	failCommit := false
	e.mu.Lock()
	switch a.kind {
	case "rule":
		failCommit = a.re.failCommit
	case "groupend":
		failCommit = e.faultGC(a.it)
	}
	e.mu.Unlock()
	var err error
	if failCommit {
		_ = a.Appender.Rollback()
		err = errInjected
		e.count("fault:commit-error", 1)
	} else {
		err = a.Appender.Commit()
	}
	e.mu.Lock()
	defer e.mu.Unlock()
	e.onCommit(a, err)
	return err
}

func (a *simAppender) Rollback() error {
	err := a.Appender.Rollback()
	a.e.mu.Lock()
	defer a.e.mu.Unlock()
	a.e.fail("appends", "rollback", "the rule evaluation rolled an appender back (kind %s)", a.kind)
	return err
}

// compareAppends checks the appends of one appender against the expected writes.
func (e *exec) compareAppends(where string, a *simAppender, plan []rulemodel.Write) {
	type want struct {
		w             rulemodel.Write
		seen, refused bool
	}
	exp := map[string]*want{}
	for _, w := range plan {
		exp[rulemodel.Key(w.L)] = &want{w: w}
	}
	for _, r := range a.recs {
		k := rulemodel.Key(r.l)
		w := exp[k]
		e.res.Evals++
		switch {
		case w == nil:
			e.fail("appends", "unexpected-append:"+kindOf(r.l, r.v), "%s: appended %s = %s at +%dms, which the model does not expect", where, k, fv(r.v), r.t-ms(e.T0))
			return
		case w.seen && w.refused && rulemodel.IsStale(r.v) && r.t == w.w.T:
			// The storage refused the sample of this series; marking the series stale at the same time is
			// pointless but harmless (a storage that refuses the sample refuses the marker too).
			e.count("stale-marker-after-refused-sample", 1)
			continue
		case w.seen:
			e.fail("appends", "double-append:"+kindOf(r.l, r.v), "%s: appended %s twice in one evaluation", where, k)
			return
		case r.t != w.w.T:
			e.fail("appends", "wrong-timestamp:"+kindOf(r.l, r.v), "%s: appended %s = %s at +%dms, expected at +%dms", where, k, fv(r.v), r.t-ms(e.T0), w.w.T-ms(e.T0))
			return
		case !rulemodel.SameBits(r.v, w.w.V):
			e.fail("appends", "wrong-value:"+kindOf(r.l, w.w.V), "%s: appended %s = %s, expected %s", where, k, fv(r.v), fv(w.w.V))
			return
		}
		w.seen = true
		w.refused = r.err != nil
	}
	var ks []string
	for k := range exp {
		ks = append(ks, k)
	}
	sort.Strings(ks)
	for _, k := range ks {
		w := exp[k]
		if !w.seen && !w.w.Optional {
			e.fail("appends", "missing-append:"+kindOf(w.w.L, w.w.V), "%s: no append of %s = %s at +%dms", where, k, fv(w.w.V), w.w.T-ms(e.T0))
			return
		}
	}
}

// applyWrites mirrors a successful commit into the model store; it returns the keys the storage refused.
func (e *exec) applyWrites(a *simAppender) map[string]bool {
	refused := map[string]bool{}
	recs := append([]appRec(nil), a.recs...)
	sort.SliceStable(recs, func(i, j int) bool { return rulemodel.Key(recs[i].l) < rulemodel.Key(recs[j].l) })
	for _, r := range recs {
		k := rulemodel.Key(r.l)
		if r.err != nil {
			refused[k] = true
			if !r.injected {
				e.count("append-refused-by-storage", 1)
				if e.store.WouldAccept(r.l, r.t, r.v) {
					e.fail("storage", "append-refused:"+kindOf(r.l, r.v), "the storage refused %s = %s at +%dms (%v) although nothing at or after that time is stored for the series", k, fv(r.v), r.t-ms(e.T0), r.err)
				}
			}
			continue
		}
		if !e.store.Append(r.l, r.t, r.v) {
			refused[k] = true
			e.count("append-dropped-by-model", 1)
		}
	}
	return refused
}

func labelsOf(recs []appRec) []labels.Labels {
	var out []labels.Labels
	for _, r := range recs {
		out = append(out, r.l)
	}
	return out
}

// onCommit runs with e.mu held, right after the real commit (or the injected failure) of an appender.
func (e *exec) onCommit(a *simAppender, err error) {
	if e.failed {
		return
	}
	switch a.kind {
	case "rule":
		re, g := a.re, a.it.g
		mr := g.rules[re.idx]
		where := fmt.Sprintf("group %s rule %s evaluation at %s", g.key, mr.spec.Name, fmtT(e, a.it.ts))
		if re.done {
			e.fail("appends", "double-commit", "%s: committed twice", where)
			return
		}
		re.done = true
		if re.expectFail != "" {
			e.fail("evaluation", "succeeded-unexpectedly:"+re.expectFail, "%s: the evaluation must fail (%s) but results were appended", where, re.expectFail)
			return
		}
		e.compareAppends(where, a, re.plan)
		if e.failed {
			return
		}
		if err == nil {
			refused := e.applyWrites(a)
			mr.out.Commit(re.plan, re.vec, refused)
			e.nEvalOK++
			for _, w := range re.plan {
				if rulemodel.IsStale(w.V) && !w.Optional {
					e.count("stale-markers-expected", 1)
				}
			}
		} else {
			if !re.failCommit {
				e.fail("evaluation", "commit-error", "%s: commit failed: %v", where, err)
				return
			}
			e.nEvalErr++
		}
		e.tr("commit g=%s r=%s ts=%d n=%d err=%v", g.key, mr.spec.Name, e.off(a.it.ts), len(a.recs), err != nil)
		e.checkAt(where, labelsOf(a.recs), a.it.tMs)
	case "groupend":
		g := a.it.g
		where := fmt.Sprintf("group %s end of evaluation at %s", g.key, fmtT(e, a.it.ts))
		var plan []rulemodel.Write
		for _, k := range sortedLK(g.pendReq) {
			plan = append(plan, rulemodel.Write{L: g.pendReq[k], T: a.it.tMs, V: rulemodel.StaleNaN})
		}
		for _, k := range sortedLK(g.pendOpt) {
			plan = append(plan, rulemodel.Write{L: g.pendOpt[k], T: a.it.tMs, V: rulemodel.StaleNaN, Optional: true})
		}
		e.compareAppends(where, a, plan)
		if e.failed {
			return
		}
		if err == nil {
			e.applyWrites(a)
			e.count("removed-rule-stale-markers", int64(len(g.pendReq)))
			g.pendReq, g.pendOpt = map[string]labels.Labels{}, map[string]labels.Labels{}
		} else if !errors.Is(err, errInjected) {
			e.fail("evaluation", "commit-error", "%s: commit failed: %v", where, err)
			return
		}
		e.tr("gcommit g=%s ts=%d n=%d err=%v", g.key, e.off(a.it.ts), len(a.recs), err != nil)
		e.checkAt(where, labelsOf(a.recs), a.it.tMs)
	case "detached":
		now := time.Now()
		var c *cleanup
		for _, x := range e.cleanups {
			if !x.seen && x.due.Equal(now) && sameKeys(x, a.recs) {
				c = x
				break
			}
		}
		if c == nil {
			var ls []string
			for _, r := range a.recs {
				ls = append(ls, fmt.Sprintf("%s@+%dms", r.l, r.t-ms(e.T0)))
			}
			e.fail("appends", "unexpected-detached-append", "appends outside any group evaluation at %s that no removed group explains: %s", fmtT(e, now), strings.Join(ls, ", "))
			return
		}
		c.seen = true
		where := fmt.Sprintf("removed group %s clean-up at %s", c.key, fmtT(e, now))
		var plan []rulemodel.Write
		for _, k := range sortedLK(c.req) {
			plan = append(plan, rulemodel.Write{L: c.req[k], T: c.tMs, V: rulemodel.StaleNaN})
		}
		for _, k := range sortedLK(c.opt) {
			plan = append(plan, rulemodel.Write{L: c.opt[k], T: c.tMs, V: rulemodel.StaleNaN, Optional: true})
		}
		e.compareAppends(where, a, plan)
		if e.failed {
			return
		}
		if err != nil {
			e.fail("evaluation", "commit-error", "%s: commit failed: %v", where, err)
			return
		}
		e.applyWrites(a)
		e.count("removed-group-cleanups", 1)
		// The clean-up goroutines of groups removed by the same reload wake at the same instant and have no
		// scheduling point: their mutual order is not owned by the simulator (and does not matter, the model
		// follows the observed commit order), so they enter the trace order-insensitively.
		e.dtrace += prng.DeriveS(0xdc, fmt.Sprintf("dcommit g=%s n=%d at=%d", c.key, len(a.recs), e.off(now)))
		if debugOn {
			fmt.Printf("DBG %8.3fs dcommit g=%s n=%d\n", time.Since(e.T0).Seconds(), c.key, len(a.recs))
		}
		e.checkAt(where, labelsOf(a.recs), c.tMs)
	}
}

func sortedLK(m map[string]labels.Labels) []string {
	ks := make([]string, 0, len(m))
	for k := range m {
		ks = append(ks, k)
	}
	sort.Strings(ks)
	return ks
}

func sameKeys(c *cleanup, recs []appRec) bool {
	for _, r := range recs {
		k := rulemodel.Key(r.l)
		if _, ok := c.req[k]; ok {
			continue
		}
		if _, ok := c.opt[k]; ok {
			continue
		}
		return false
	}
	return true
}

// ---- faults ----

func (e *exec) faultsFor(id int, ts time.Time) (qfail bool, slow time.Duration, cfail bool, afail []int) {
	o := e.off(ts)
	for _, f := range e.plan.Faults {
		if f.K == "gcfail" || (f.R != -1 && f.R != id) || o < f.From || o >= f.To {
			continue
		}
		switch f.K {
		case "qfail":
			qfail = true
		case "qslow":
			if d := time.Duration(f.Ms) * time.Millisecond; d > slow {
				slow = d
			}
		case "cfail":
			cfail = true
		case "afail":
			afail = append(afail, f.S)
		}
	}
	return
}

func (e *exec) faultGC(it *iter) bool {
	o := e.off(it.ts)
	for _, f := range e.plan.Faults {
		if f.K == "gcfail" && f.G == it.g.key && o >= f.From && o < f.To {
			return true
		}
	}
	return false
}

// ---- the scripted world ----

func alertSeries(qk, s int) labels.Labels {
	n := fmt.Sprintf("q%d", qk)
	switch s {
	case 0:
		return labels.FromStrings(labels.MetricName, n, "s", "0")
	case 1:
		return labels.FromStrings(labels.MetricName, n, "s", "1", "x", "a")
	case 2:
		return labels.FromStrings(labels.MetricName, n, "s", "2", "x", "b")
	case 3:
		return labels.FromStrings(labels.MetricName, n, "s", "3")
	case 4:
		return labels.FromStrings(labels.MetricName, "other", "s", "0") // = series 0 once the metric name is dropped
	default:
		return labels.FromStrings(labels.MetricName, n, "s", "1", "x", "c") // = series 1 under a rule label x
	}
}

func srcSeries(m, s int) labels.Labels {
	z := "e"
	if s%2 == 1 {
		z = "o"
	}
	return labels.FromStrings(labels.MetricName, srcNames[m%2], "s", fmt.Sprint(s), "z", z)
}

// worldAt returns the state of series (qk, s) at offset o.
func (e *exec) worldAt(qk, s int, o int64) (float64, bool) {
	evs := e.script[[2]int{qk, s}]
	i := sort.Search(len(evs), func(i int) bool { return evs[i].At > o })
	if i == 0 {
		return 0, false
	}
	return evs[i-1].V, evs[i-1].On
}

func (e *exec) scriptedResult(qk int, t time.Time) []rulemodel.Point {
	var out []rulemodel.Point
	for s := 0; s < 6; s++ {
		if v, on := e.worldAt(qk, s, e.off(t)); on {
			out = append(out, rulemodel.Point{L: alertSeries(qk, s), V: v})
		}
	}
	return out
}

// scrape appends the state of the source series at time t (C45) and mirrors it into the model.
func (e *exec) scrape(t time.Time) {
	if e.prop != "C45" || e.db == nil {
		return
	}
	tm := ms(t)
	app := e.db.Appender(context.Background())
	type w struct {
		l labels.Labels
		v float64
	}
	var ws []w
	for m := 0; m < 2; m++ {
		for s := 0; s < e.cfg.NSrc; s++ {
			k := [2]int{m, s}
			v, on := e.worldAt(m, s, e.off(t))
			switch {
			case on:
				ws = append(ws, w{srcSeries(m, s), v})
				e.srcOn[k] = true
			case e.srcOn[k]:
				ws = append(ws, w{srcSeries(m, s), rulemodel.StaleNaN})
				e.srcOn[k] = false
			}
		}
	}
	for _, x := range ws {
		if !e.store.WouldAccept(x.l, tm, x.v) {
			continue
		}
		if _, err := app.Append(0, x.l, tm, x.v); err != nil {
			panic(fmt.Sprintf("harness: source append %s at %d: %v", x.l, tm, err))
		}
		e.store.Append(x.l, tm, x.v)
	}
	if err := app.Commit(); err != nil {
		panic("harness: source commit: " + err.Error())
	}
	e.tr("scrape t=%d n=%d", e.off(t), len(ws))
}

// ---- the query seam ----

func (e *exec) findRule(it *iter, rd rules.RuleDetail) int {
	for i, r := range it.g.ptr.Rules() {
		if r.Name() == rd.Name && r.Labels().String() == rd.Labels.String() && r.Query().String() == rd.Query {
			return i
		}
	}
	panic(fmt.Sprintf("harness: query for an unknown rule %q in group %s", rd.Name, it.g.key))
}

func toVector(ps []rulemodel.Point, tMs int64) promql.Vector {
	v := make(promql.Vector, 0, len(ps))
	for _, p := range ps {
		v = append(v, promql.Sample{Metric: p.L, T: tMs, F: p.V})
	}
	return v
}

func (e *exec) query(ctx context.Context, qs string, t time.Time) (promql.Vector, error) {
	it, _ := ctx.Value(iterKey{}).(*iter)
	if it == nil {
		panic("harness: query outside a group evaluation: " + qs)
	}
	ri := e.findRule(it, rules.FromOriginContext(ctx))
	g := it.g
	mr := g.rules[ri]
	e.s.Yield("query", g.idx, ri)
	qfail, slow, cfail, afail := e.faultsFor(mr.spec.ID, it.ts)
	if slow > 0 {
		time.Sleep(slow)
		e.s.Yield("query", g.idx, ri)
	}

	// From here to the return (and on through notification, appends, up to the commit yield) the calling
	// goroutine is the only released task: one atomic step.
	var real promql.Vector
	var realErr error
	if !mr.spec.Alert {
		real, realErr = e.engQ(ctx, qs, t)
	}

	e.mu.Lock()
	defer e.mu.Unlock()
	e.tick()
	if slow > 0 {
		e.count("fault:slow-query", 1)
	}
	where := fmt.Sprintf("group %s rule %s evaluation at %s", g.key, mr.spec.Name, fmtT(e, it.ts))
	if _, dup := it.evals[ri]; dup && !e.failed {
		e.fail("evaluation", "rule-evaluated-twice", "%s: the rule is evaluated twice in one group evaluation", where)
	}
	re := &ruleEval{idx: ri}
	it.evals[ri] = re
	it.cur = -1
	if t.UnixNano() != it.ts.Add(-time.Duration(g.spec.OffsetMs)*time.Millisecond).UnixNano() && !e.failed {
		e.fail("evaluation", "query-time", "%s: the query runs at %s, expected evaluation time minus query offset", where, fmtT(e, t))
	}
	// Dependency order: every earlier rule of the group whose output this rule reads must have finished
	// its evaluation of this round.
	if !mr.spec.Alert && !e.failed {
		for j := 0; j < ri; j++ {
			dep := g.rules[j]
			if dep.spec.Alert && !mr.spec.Expr.RefersToAlert(dep.spec.Name) {
				continue
			}
			if !dep.spec.Alert && !mr.spec.Expr.RefersTo(dep.spec.Name) {
				continue
			}
			e.res.Evals++
			e.count("dependent-rule-evals", 1)
			if dep.spec.Alert {
				e.count("alerts-series-dependency-evals", 1)
			}
			if de := it.evals[j]; de == nil || (!de.done && de.expectFail == "") {
				st := "has not started"
				if de != nil {
					st = "has queried but not committed"
				}
				e.fail("dependency-order", "dependent-before-dependency", "%s: reads %s (rule %d of the group), whose evaluation for this round %s", where, dep.spec.Name, j, st)
			}
		}
	}
	if qfail {
		re.expectFail, re.done = "query-error", true
		e.count("fault:query-error", 1)
		e.nEvalErr++
		e.tr("query g=%s r=%s ts=%d FAIL", g.key, mr.spec.Name, e.off(it.ts))
		return nil, errors.New("simulated query failure")
	}

	var vec []rulemodel.OutSample
	var out promql.Vector
	if mr.spec.Alert {
		res := e.scriptedResult(mr.spec.Q, t)
		out = toVector(res, ms(t))
		if e.cfg.KF == kfEmptyLabel {
			for _, l := range mr.lbl {
				for _, p := range res {
					if l.K == "label" && p.L.Get(l.V) == "" {
						e.kfArmed = kfEmptyLabel
					}
				}
			}
		}
		re.step = mr.alert.Step(it.ts, res, g.spec.Limit)
		re.expectFail = re.step.Err
		vec = re.step.Vector
		e.events.WriteString(re.step.Events)
		e.events.WriteByte('.')
	} else {
		exp, expErr := mr.spec.Expr.Eval(e.store, ms(t), e.cfg.LookbackMs)
		switch {
		case (expErr != nil) != (realErr != nil):
			if !e.failed {
				e.fail("query-result", "error-mismatch", "%s: query %q: engine error %v, model error %v", where, qs, realErr, expErr)
			}
		case realErr == nil:
			if d := diffVector(real, exp); d != "" && !e.failed {
				e.fail("query-result", "vector-mismatch", "%s: query %q at %s: %s", where, qs, fmtT(e, t), d)
			}
		}
		e.res.Evals++
		if realErr != nil {
			re.expectFail, re.done = "query-error", true
			e.count("engine-query-error", 1)
			e.nEvalErr++
			return nil, realErr
		}
		out = real
		seen := map[string]bool{}
		for _, p := range exp {
			b := labels.NewBuilder(p.L)
			b.Set(labels.MetricName, mr.spec.Name)
			for _, l := range mr.lbl {
				b.Set(l.N, l.V)
			}
			l := b.Labels()
			if seen[rulemodel.Key(l)] {
				re.expectFail = "dup"
			}
			seen[rulemodel.Key(l)] = true
			vec = append(vec, rulemodel.OutSample{L: l, V: p.V})
		}
		if re.expectFail == "" && g.spec.Limit > 0 && len(vec) > g.spec.Limit {
			re.expectFail = "limit"
		}
		e.events.WriteString(fmt.Sprintf("%d.", len(vec)))
	}
	if re.expectFail != "" {
		re.done = true
		e.nEvalErr++
		e.count("eval-error:"+re.expectFail, 1)
		e.tr("query g=%s r=%s ts=%d EVALFAIL %s", g.key, mr.spec.Name, e.off(it.ts), re.expectFail)
		return out, nil
	}
	re.vec = vec
	re.plan = mr.out.Plan(vec, it.tMs)
	re.failCommit = cfail
	if len(afail) > 0 && len(re.plan) > 0 {
		var ks []string
		for _, w := range re.plan {
			ks = append(ks, rulemodel.Key(w.L))
		}
		sort.Strings(ks)
		re.failKeys = map[string]bool{}
		for _, s := range afail {
			re.failKeys[ks[s%len(ks)]] = true
		}
		e.count("fault:append-error", int64(len(re.failKeys)))
	}
	it.cur = ri
	e.tr("query g=%s r=%s ts=%d n=%d plan=%d", g.key, mr.spec.Name, e.off(it.ts), len(out), len(re.plan))
	return out, nil
}

func diffVector(real promql.Vector, exp []rulemodel.Point) string {
	rm := map[string]float64{}
	for _, s := range real {
		if s.H != nil {
			return "histogram sample in result"
		}
		rm[rulemodel.Key(s.Metric)] = s.F
	}
	if len(rm) != len(real) {
		return "duplicate label set in engine result"
	}
	for _, p := range exp {
		k := rulemodel.Key(p.L)
		v, ok := rm[k]
		if !ok {
			return fmt.Sprintf("engine result lacks %s = %v", k, p.V)
		}
		if !rulemodel.SameBits(v, p.V) {
			return fmt.Sprintf("engine result %s = %v, the storage content gives %v", k, v, p.V)
		}
		delete(rm, k)
	}
	for k, v := range rm {
		return fmt.Sprintf("engine result has %s = %v, which the storage content does not give", k, v)
	}
	return ""
}

// ---- the notification seam ----

type obsAlert struct {
	state                                                      rulemodel.AState
	lbl, ann                                                   labels.Labels
	value                                                      float64
	activeAt, firedAt, resolvedAt, keepFiringSince, lastSentAt time.Time
}

func mapState(s rules.AlertState) rulemodel.AState {
	switch s {
	case rules.StateInactive:
		return rulemodel.Inactive
	case rules.StatePending:
		return rulemodel.Pending
	case rules.StateFiring:
		return rulemodel.Firing
	}
	return 0
}

func observe(ar *rules.AlertingRule) map[string]obsAlert {
	out := map[string]obsAlert{}
	ar.ForEachActiveAlert(func(a *rules.Alert) {
		out[rulemodel.Key(a.Labels)] = obsAlert{state: mapState(a.State), lbl: a.Labels.Copy(), ann: a.Annotations.Copy(), value: a.Value,
			activeAt: a.ActiveAt, firedAt: a.FiredAt, resolvedAt: a.ResolvedAt, keepFiringSince: a.KeepFiringSince, lastSentAt: a.LastSentAt}
	})
	return out
}

func (e *exec) realAlertRule(g *mGroup, ri int) *rules.AlertingRule {
	ar, ok := g.ptr.Rules()[ri].(*rules.AlertingRule)
	if !ok {
		panic("harness: rule kinds out of step")
	}
	return ar
}

// settle resolves the model's open points (restore candidates, end of retention) against the rule's state.
func (e *exec) settle(g *mGroup, ri int, obs map[string]obsAlert) {
	mr := g.rules[ri]
	act := map[string]time.Time{}
	for k, o := range obs {
		act[k] = o.activeAt
	}
	if d := mr.alert.Settle(act); d != "" && !e.failed {
		e.res.Evals++
		e.fail("restore", "restored-activation-time", "group %s rule %s: %s (for=%s grace=%s tolerance=%s)", g.key, mr.spec.Name, d,
			mr.alert.For, time.Duration(e.cfg.GraceMs)*time.Millisecond, time.Duration(e.cfg.OutageTolMs)*time.Millisecond)
	}
}

func teq(a, b time.Time) bool { return a.Equal(b) || (a.IsZero() && b.IsZero()) }

// compareAlerts compares the complete alert state of a rule with the model.
func (e *exec) compareAlerts(where string, g *mGroup, ri int, obs map[string]obsAlert) {
	if e.failed {
		return
	}
	mr := g.rules[ri]
	e.res.Evals++
	for _, k := range mr.alert.Keys() {
		m := mr.alert.Alerts[k]
		o, ok := obs[k]
		if !ok {
			if m.MayBeGone {
				continue
			}
			e.fail("alert-state", "alert-missing:"+m.State.String(), "%s: no alert %s, expected %s (active %s, fired %s, resolved %s)", where, k, m.State, fmtT(e, m.ActiveAt), fmtT(e, m.FiredAt), fmtT(e, m.ResolvedAt))
			return
		}
		var d []string
		var sig []string
		add := func(field, got, want string) {
			d = append(d, fmt.Sprintf("%s %s, expected %s", field, got, want))
			sig = append(sig, field)
		}
		if o.state != m.State {
			add("state", o.state.String(), m.State.String())
		}
		if !teq(o.activeAt, m.ActiveAt) {
			add("ActiveAt", fmtT(e, o.activeAt), fmtT(e, m.ActiveAt))
		}
		if !teq(o.firedAt, m.FiredAt) {
			add("FiredAt", fmtT(e, o.firedAt), fmtT(e, m.FiredAt))
		}
		if !teq(o.resolvedAt, m.ResolvedAt) {
			add("ResolvedAt", fmtT(e, o.resolvedAt), fmtT(e, m.ResolvedAt))
		}
		if !teq(o.keepFiringSince, m.KeepFiringSince) {
			add("KeepFiringSince", fmtT(e, o.keepFiringSince), fmtT(e, m.KeepFiringSince))
		}
		if !teq(o.lastSentAt, m.LastSentAt) {
			add("LastSentAt", fmtT(e, o.lastSentAt), fmtT(e, m.LastSentAt))
		}
		if !rulemodel.SameBits(o.value, m.Value) {
			add("Value", fmt.Sprint(o.value), fmt.Sprint(m.Value))
		}
		if rulemodel.Key(o.ann) != rulemodel.Key(m.Ann) {
			add("Annotations", o.ann.String(), m.Ann.String())
		}
		if len(d) > 0 {
			e.fail("alert-state", "alert-differs:"+strings.Join(sig, "+"), "%s: alert %s: %s [for=%s keep_firing_for=%s]", where, k, strings.Join(d, "; "), mr.alert.For, mr.alert.Kff)
			return
		}
	}
	var ks []string
	for k := range obs {
		ks = append(ks, k)
	}
	sort.Strings(ks)
	for _, k := range ks {
		if _, ok := mr.alert.Alerts[k]; !ok {
			o := obs[k]
			e.fail("alert-state", "alert-unexpected:"+o.state.String(), "%s: alert %s is %s (active %s, resolved %s), the model has no such alert", where, k, o.state, fmtT(e, o.activeAt), fmtT(e, o.resolvedAt))
			return
		}
	}
}

func (e *exec) notify(ctx context.Context, expr string, alerts ...*rules.Alert) {
	it, _ := ctx.Value(iterKey{}).(*iter)
	if it == nil {
		panic("harness: notification outside a group evaluation")
	}
	e.mu.Lock()
	defer e.mu.Unlock()
	if e.failed {
		return
	}
	g := it.g
	if it.cur < 0 {
		e.fail("notify", "unexpected-call", "group %s evaluation at %s: notify function called (expr %s) although no rule evaluation succeeded just before", g.key, fmtT(e, it.ts), expr)
		return
	}
	ri := it.cur
	mr := g.rules[ri]
	re := it.evals[ri]
	where := fmt.Sprintf("group %s rule %s evaluation at %s", g.key, mr.spec.Name, fmtT(e, it.ts))
	if !mr.spec.Alert {
		e.fail("notify", "unexpected-call", "%s: notify function called for a recording rule", where)
		return
	}
	re.notified++
	if re.notified > 1 {
		e.fail("notify", "called-twice", "%s: notify function called twice", where)
		return
	}
	if want := fmt.Sprintf("q%d", mr.spec.Q); expr != want {
		e.fail("notify", "wrong-expr", "%s: notify function called with expression %q, expected %q", where, expr, want)
		return
	}
	obs := observe(e.realAlertRule(g, ri))
	e.settle(g, ri, obs)
	if e.failed {
		return
	}
	resend := time.Duration(e.cfg.ResendMs) * time.Millisecond
	got := map[string]*rules.Alert{}
	for _, a := range alerts {
		k := rulemodel.Key(a.Labels)
		if got[k] != nil {
			e.fail("notify", "alert-sent-twice", "%s: alert %s is handed to the notify function twice", where, k)
			return
		}
		got[k] = a
	}
	e.res.Evals++
	for _, k := range mr.alert.Keys() {
		m := mr.alert.Alerts[k]
		dec := m.NeedsSending(it.ts, resend)
		a := got[k]
		delete(got, k)
		switch {
		case dec == rulemodel.MustSend && a == nil:
			e.fail("notify", "not-sent:"+m.State.String(), "%s: %s alert %s is not handed to the notify function (last sent %s, resolved %s, resend delay %s)", where, m.State, k, fmtT(e, m.LastSentAt), fmtT(e, m.ResolvedAt), resend)
			return
		case dec == rulemodel.NoSend && a != nil:
			e.fail("notify", "sent-unexpectedly:"+m.State.String(), "%s: %s alert %s is handed to the notify function (last sent %s, resend delay %s)", where, m.State, k, fmtT(e, m.LastSentAt), resend)
			return
		}
		if a == nil {
			continue
		}
		if dec == rulemodel.MaySend {
			e.count("resend-at-exact-delay", 1)
		}
		m.LastSentAt = it.ts
		e.count("alerts-sent:"+m.State.String(), 1)
		var d []string
		if mapState(a.State) != m.State {
			d = append(d, fmt.Sprintf("state %s, expected %s", a.State, m.State))
		}
		if !teq(a.ActiveAt, m.ActiveAt) {
			d = append(d, fmt.Sprintf("ActiveAt %s, expected %s", fmtT(e, a.ActiveAt), fmtT(e, m.ActiveAt)))
		}
		if !teq(a.FiredAt, m.FiredAt) {
			d = append(d, fmt.Sprintf("FiredAt %s, expected %s", fmtT(e, a.FiredAt), fmtT(e, m.FiredAt)))
		}
		if !teq(a.ResolvedAt, m.ResolvedAt) {
			d = append(d, fmt.Sprintf("ResolvedAt %s, expected %s", fmtT(e, a.ResolvedAt), fmtT(e, m.ResolvedAt)))
		}
		if !rulemodel.SameBits(a.Value, m.Value) {
			d = append(d, fmt.Sprintf("Value %v, expected %v", a.Value, m.Value))
		}
		if rulemodel.Key(a.Annotations) != rulemodel.Key(m.Ann) {
			d = append(d, fmt.Sprintf("Annotations %s, expected %s", a.Annotations, m.Ann))
		}
		if !a.ValidUntil.After(it.ts) {
			d = append(d, fmt.Sprintf("ValidUntil %s is not after the evaluation time", fmtT(e, a.ValidUntil)))
		}
		if len(d) > 0 {
			e.fail("notify", "sent-alert-differs", "%s: alert %s handed to the notify function: %s", where, k, strings.Join(d, "; "))
			return
		}
	}
	for k, a := range got {
		e.fail("notify", "sent-unknown-alert", "%s: alert %s (%s) is handed to the notify function, the model has no such alert", where, k, a.State)
		return
	}
	e.tr("notify g=%s r=%s ts=%d n=%d", g.key, mr.spec.Name, e.off(it.ts), len(alerts))
}

// ---- iterations ----

// tick runs with e.mu held: every removed group whose clean-up time has come must have written its markers.
func (e *exec) tick() {
	if e.failed {
		return
	}
	now := time.Now()
	for _, c := range e.cleanups {
		if !c.seen && !now.Before(c.due) && len(c.req) > 0 {
			c.seen = true
			e.res.Evals++
			sig := "removed-group-not-marked-stale"
			if c.kf != "" {
				sig = "known:" + c.kf
			}
			e.fail("group-removal", sig, "group %s was removed by a reload at %s; %s later (two evaluation intervals) none of its %d series has a staleness marker: %s",
				c.key, fmtT(e, c.removedAt), c.due.Sub(c.removedAt).Round(time.Millisecond), len(c.req), strings.Join(sortedLK(c.req), ", "))
			return
		}
	}
}

func (e *exec) bind(g *rules.Group) *mGroup {
	if mg := e.byPtr[g]; mg != nil {
		return mg
	}
	rk := rules.GroupKey(g.File(), g.Name())
	for _, m := range []map[string]*mGroup{e.pending, e.groups} {
		for _, k := range sortedGK(m) {
			mg := m[k]
			if mg.realKey != rk || mg.ptr != nil {
				continue
			}
			mg.ptr = g
			e.byPtr[g] = mg
			if len(g.Rules()) != len(mg.rules) {
				panic("harness: group " + mg.key + " has a different number of rules than its model")
			}
			if mg.from != nil {
				if mg.from.running != nil {
					panic("harness: group " + mg.key + " starts while its predecessor is still evaluating")
				}
				copyState(mg, mg.from)
				mg.from = nil
			}
			return mg
		}
	}
	panic("harness: evaluation of an unknown group " + rk)
}

// iterate is the GroupEvalIterationFunc handed to the manager (and called by the harness in direct mode).
func (e *exec) iterate(ctx context.Context, g *rules.Group, ts time.Time) {
	e.mu.Lock()
	mg := e.bind(g)
	mg.entered = true
	e.mu.Unlock()
	e.s.Yield("iter", mg.idx)
	e.mu.Lock()
	e.tick()
	it := &iter{g: mg, ts: ts, tMs: ms(ts.Add(-time.Duration(mg.spec.OffsetMs) * time.Millisecond)), evals: map[int]*ruleEval{}, cur: -1}
	if mg.running != nil && !e.failed {
		e.fail("evaluation", "overlapping-iterations", "group %s: an evaluation starts while the previous one is still running", mg.key)
	}
	if !ts.After(mg.lastTs) && !e.failed && !mg.lastTs.IsZero() {
		e.fail("evaluation", "time-not-increasing", "group %s: evaluation time %s does not follow %s", mg.key, fmtT(e, ts), fmtT(e, mg.lastTs))
	}
	mg.running, mg.started, mg.lastTs = it, true, ts
	e.tr("iter g=%s ts=%d", mg.key, e.off(ts))
	// state between evaluations (settles a restoration that ran after the previous evaluation)
	for ri, mr := range mg.rules {
		if mr.alert != nil && !e.failed {
			obs := observe(e.realAlertRule(mg, ri))
			e.settle(mg, ri, obs)
			e.compareAlerts(fmt.Sprintf("group %s rule %s before the evaluation at %s", mg.key, mr.spec.Name, fmtT(e, ts)), mg, ri, obs)
		}
	}
	e.mu.Unlock()

	rules.DefaultEvalIterationFunc(context.WithValue(ctx, iterKey{}, it), g, ts)

	e.mu.Lock()
	defer e.mu.Unlock()
	e.endIter(it)
}

func (e *exec) endIter(it *iter) {
	mg := it.g
	mg.running = nil
	mg.iters++
	mg.entered = false
	if mg.removed {
		e.finalizeRemoval(mg, time.Now())
	}
	e.tick()
	complete := len(it.evals) == len(mg.rules)
	if !e.failed {
		e.res.Evals++
		if !complete && !mg.stopping {
			var miss []string
			for i, mr := range mg.rules {
				if it.evals[i] == nil {
					miss = append(miss, mr.spec.Name)
				}
			}
			e.fail("evaluation", "rule-not-evaluated", "group %s evaluation at %s: rules %v were not evaluated although the group was not being stopped", mg.key, fmtT(e, it.ts), miss)
		}
		if !complete {
			e.count("evaluation-cut-short-by-stop", 1)
		}
	}
	for _, ri := range sortedInts(it.evals) {
		re := it.evals[ri]
		mr := mg.rules[ri]
		where := fmt.Sprintf("group %s rule %s evaluation at %s", mg.key, mr.spec.Name, fmtT(e, it.ts))
		if e.failed {
			break
		}
		if !re.done {
			e.fail("evaluation", "failed-unexpectedly", "%s: the evaluation was expected to succeed but no results were committed", where)
			break
		}
		if mr.alert != nil {
			want := 1
			if re.expectFail != "" {
				want = 0
			}
			if re.notified != want {
				e.fail("notify", "call-count", "%s: notify function called %d times, expected %d", where, re.notified, want)
				break
			}
			obs := observe(e.realAlertRule(mg, ri))
			e.settle(mg, ri, obs)
			e.compareAlerts(where, mg, ri, obs)
		}
	}
	if !e.failed && complete && len(mg.pendReq) > 0 && it.cleanup == nil {
		e.fail("rule-removal", "removed-rule-not-marked-stale", "group %s evaluation at %s: the series of rules removed by the last reload got no staleness markers: %s",
			mg.key, fmtT(e, it.ts), strings.Join(sortedLK(mg.pendReq), ", "))
	}
	if !e.failed && !complete && it.cleanup != nil {
		e.count("cleanup-in-cut-evaluation", 1)
	}
	// ticker mode: the restoration runs right after the second evaluation of a freshly started group
	if e.cfg.Mode == "ticker" && mg.needRestore && mg.iters == 2 {
		e.modelRestore(mg, time.Now())
	}
	e.tr("enditer g=%s ts=%d evals=%d", mg.key, e.off(it.ts), len(it.evals))
}

func sortedInts(m map[int]*ruleEval) []int {
	var ks []int
	for k := range m {
		ks = append(ks, k)
	}
	sort.Ints(ks)
	return ks
}

// modelRestore applies the documented restoration to every alerting rule of the group.
func (e *exec) modelRestore(mg *mGroup, ts time.Time) {
	mg.needRestore = false
	tol := time.Duration(e.cfg.OutageTolMs) * time.Millisecond
	grace := time.Duration(e.cfg.GraceMs) * time.Millisecond
	for _, mr := range mg.rules {
		if mr.alert == nil {
			continue
		}
		n := len(mr.alert.Alerts)
		mr.alert.Restore(ts, tol, grace, e.store.LastIn)
		for _, k := range mr.alert.Keys() {
			a := mr.alert.Alerts[k]
			for _, c := range a.Cands {
				if !c.Lo.Equal(a.ActiveAt) {
					e.count("restore-shifts-activation", 1)
					break
				}
			}
		}
		e.count("restored-rules", 1)
		e.count("restored-alerts", int64(n))
	}
	e.events.WriteString("S.")
	e.tr("restore g=%s at=%d", mg.key, e.off(ts))
}

// ---- manager life cycle ----

func (e *exec) startManager() {
	e.ctx, e.cancel = context.WithCancel(context.Background())
	opts := &rules.ManagerOptions{
		QueryFunc:              e.query,
		NotifyFunc:             e.notify,
		Context:                e.ctx,
		Appendable:             e,
		Queryable:              e.db,
		OutageTolerance:        time.Duration(e.cfg.OutageTolMs) * time.Millisecond,
		ForGracePeriod:         time.Duration(e.cfg.GraceMs) * time.Millisecond,
		ResendDelay:            time.Duration(e.cfg.ResendMs) * time.Millisecond,
		ConcurrentEvalsEnabled: e.cfg.Conc,
		MaxConcurrentEvals:     int64(e.cfg.MaxConc),
		RestoreNewRuleGroups:   e.cfg.RestoreNew,
		GroupLoader:            fileLoader{root: e.root, p: parser.NewParser(parser.Options{})},
	}
	e.mgr = rules.NewManager(opts)
	e.restored = false
	e.groups = map[string]*mGroup{}
	e.byPtr = map[*rules.Group]*mGroup{}
	e.cleanups = nil
	e.applyConfig()
	go e.mgr.Run()
	e.running = true
}

// applyConfig loads e.cur into the manager (initial load or reload) and moves the model along.
// Manager.Update can take simulated time (it waits for running evaluations of the groups it replaces), and
// new groups may start evaluating before it returns: the next generation is therefore prepared beforehand
// (e.pending) and takes over the state of its predecessor when the real group shows up (bind), which the
// manager guarantees to happen after the predecessor has finished.
func (e *exec) applyConfig() {
	files := e.writeFiles()
	e.mu.Lock()
	old := e.groups
	next := map[string]*mGroup{}
	shouldRestore := !e.restored || e.cfg.RestoreNew
	now := time.Now()
	for i := range e.cur {
		gs := cloneGroups([]GroupSpec{e.cur[i]})[0]
		og := old[gs.Key()]
		if og != nil && e.sameSpec(&og.spec, &gs) {
			next[gs.Key()] = og
			continue
		}
		mg := e.newGroupModel(gs, shouldRestore)
		next[gs.Key()] = mg
		if og != nil {
			og.stopping = true
			mg.from = og
		}
	}
	var removed []*mGroup
	for _, k := range sortedGK(old) {
		if _, ok := next[k]; !ok {
			og := old[k]
			og.stopping, og.removed = true, true
			removed = append(removed, og)
			if !og.entered {
				e.finalizeRemoval(og, now)
			}
		}
	}
	e.pending = next
	e.mu.Unlock()

	if err := e.mgr.Update(time.Duration(e.cfg.DefIntervalMs)*time.Millisecond, files, labels.EmptyLabels(), "", e.iterate); err != nil {
		panic("harness: Manager.Update: " + err.Error())
	}

	e.mu.Lock()
	defer e.mu.Unlock()
	e.restored = true
	for _, og := range removed {
		if !og.finalized {
			panic("harness: removed group " + og.key + " still running after Manager.Update")
		}
	}
	for _, g := range e.mgr.RuleGroups() {
		e.bind(g)
	}
	for _, k := range sortedGK(old) {
		if og := old[k]; next[k] != og && og.ptr != nil {
			delete(e.byPtr, og.ptr)
		}
	}
	e.groups, e.pending = next, nil
}

// finalizeRemoval registers the staleness markers a removed group owes: two evaluation intervals after
// its loop has ended, at the time the loop ended (minus the query offset, like every sample of the group).
func (e *exec) finalizeRemoval(og *mGroup, exit time.Time) {
	if og.finalized {
		return
	}
	og.finalized = true
	off := time.Duration(og.spec.OffsetMs) * time.Millisecond
	c := &cleanup{key: og.key, kf: og.kfRemoval, tMs: ms(exit.Add(-off)), removedAt: exit, due: exit.Add(2 * e.interval(&og.spec)),
		req: map[string]labels.Labels{}, opt: map[string]labels.Labels{}}
	for k, l := range og.pendReq {
		c.req[k] = l
	}
	for k, l := range og.pendOpt {
		c.opt[k] = l
	}
	for _, r := range og.rules {
		req, opt := r.out.All()
		for _, l := range req {
			c.req[rulemodel.Key(l)] = l
		}
		for _, l := range opt {
			c.opt[rulemodel.Key(l)] = l
		}
	}
	for k := range c.req {
		delete(c.opt, k)
	}
	if len(c.req)+len(c.opt) > 0 {
		e.cleanups = append(e.cleanups, c)
	}
	e.count("groups-removed", 1)
	e.tr("removed g=%s req=%d", og.key, len(c.req))
}

// Known finding group-removed-before-first-eval: a group generation created by a reload and removed by the
// next reload before its first evaluation never writes the staleness markers it owes. Ordinary runs do not
// remove such a group; runs with cfg.KF set do and report the violation under the finding's tag.
const kfRemovedEarly = "group-removed-before-first-eval"

// Known finding alerts-series-unexpanded-template-label: when a templated rule label expands to the empty
// string for an alert, the ALERTS / ALERTS_FOR_STATE series of that alert carry the template source text as
// the label value (and the `for` state of the alert cannot be restored). Only runs with cfg.KF set generate
// such templates; once the pattern has occurred, violations of the run are reported under the finding's tag.
const kfEmptyLabel = "alerts-series-unexpanded-template-label"

func (e *exec) steerDelGroup(key string) bool {
	if true {
		// The finding group-removed-before-first-eval was repaired in /repo (the stale-marking defer is now
		// registered before the initial wait): such removals are ordinary workload again and judged like any other.
		return false
	}
	e.mu.Lock()
	defer e.mu.Unlock()
	mg := e.groups[key]
	if mg == nil || mg.started || e.cfg.Mode != "ticker" {
		return false
	}
	owed := len(mg.pendReq)
	for _, r := range mg.rules {
		req, _ := r.out.All()
		owed += len(req)
	}
	if owed == 0 {
		return false
	}
	if e.cfg.KF == kfRemovedEarly {
		mg.kfRemoval = kfRemovedEarly
		return false
	}
	e.count("steered:"+kfRemovedEarly, 1)
	return true
}

func sortedGK(m map[string]*mGroup) []string {
	ks := make([]string, 0, len(m))
	for k := range m {
		ks = append(ks, k)
	}
	sort.Strings(ks)
	return ks
}

func (e *exec) stopManager() {
	if !e.running {
		return
	}
	e.mu.Lock()
	for _, mg := range e.groups {
		mg.stopping = true
	}
	e.mu.Unlock()
	e.mgr.Stop()
	e.cancel()
	e.running = false
	e.mu.Lock()
	e.tick()
	e.cleanups = nil // a stopping manager abandons the clean-ups of removed groups
	e.mu.Unlock()
}

// ---- control task ----

func (e *exec) sleepFor(d time.Duration) {
	if d > 0 {
		t := time.NewTimer(d)
		select {
		case <-t.C:
		case <-e.failCh: // a violation ends the run early
			t.Stop()
		}
	}
	e.s.Yield("ctl")
}

func (e *exec) sleepUntil(off int64) {
	e.sleepFor(time.Until(e.T0.Add(time.Duration(off) * time.Millisecond)))
}

func (e *exec) control() {
	defer func() { e.ctlDone = true }()
	for i, op := range e.plan.Ops {
		if e.failed {
			break
		}
		e.sleepUntil(op.At)
		e.tr("op %d %s", i, op.K)
		switch op.K {
		case "eval":
			if e.cfg.Mode != "direct" || !e.running {
				continue
			}
			e.mu.Lock()
			mg := e.groups[op.G]
			e.mu.Unlock()
			ts := e.T0.Add(time.Duration(op.At) * time.Millisecond)
			if mg == nil || mg.ptr == nil || !ts.After(mg.lastTs) {
				continue
			}
			e.scrape(ts)
			e.iterate(e.ctx, mg.ptr, ts)
		case "restore":
			if e.cfg.Mode != "direct" || !e.running {
				continue
			}
			ts := time.Now()
			for _, k := range sortedGK(e.groups) {
				mg := e.groups[k]
				if !mg.needRestore || mg.ptr == nil {
					continue
				}
				mg.ptr.RestoreForState(ts)
				e.mu.Lock()
				e.modelRestore(mg, ts)
				for ri, mr := range mg.rules {
					if mr.alert != nil && !e.failed {
						obs := observe(e.realAlertRule(mg, ri))
						e.settle(mg, ri, obs)
						e.compareAlerts(fmt.Sprintf("group %s rule %s after the restoration at %s", mg.key, mr.spec.Name, fmtT(e, ts)), mg, ri, obs)
					}
				}
				e.mu.Unlock()
			}
		case "reload":
			if !e.running {
				continue
			}
			n := 0
			for _, ed := range op.Edits {
				if ed.K == "delgroup" && e.steerDelGroup(ed.G) {
					continue
				}
				if ApplyEdit(&e.cur, ed) {
					n++
					e.count("edit:"+ed.K, 1)
				}
			}
			e.count("fault:config-reload", 1)
			e.events.WriteString("U.")
			e.applyConfig()
		case "badreload":
			if !e.running {
				continue
			}
			// a reload with an unparsable rule file must leave everything as it is
			files := e.writeFiles()
			if err := os.WriteFile(filepath.Join(e.root, "rules", "bad.yml"), []byte("groups:\n- name: bad\n  rules:\n  - record: x\n    expr: \"sum(\"\n"), 0o644); err != nil {
				panic("harness: " + err.Error())
			}
			err := e.mgr.Update(time.Duration(e.cfg.DefIntervalMs)*time.Millisecond, append(files, "rules/bad.yml"), labels.EmptyLabels(), "", e.iterate)
			e.mu.Lock()
			if err == nil {
				e.fail("reload", "bad-file-accepted", "Manager.Update accepted an unparsable rule file")
			}
			e.count("fault:bad-reload", 1)
			e.mu.Unlock()
		case "restart":
			if !e.running {
				continue
			}
			e.stopManager()
			e.mu.Lock()
			e.compareAll("before the restart")
			e.mu.Unlock()
			e.closeDB()
			e.count("fault:restart", 1)
			e.events.WriteString("Z.")
			e.sleepFor(time.Duration(op.OutageMs) * time.Millisecond)
			e.openDB()
			e.startManager()
		case "stop":
		}
	}
	e.stopManager()
	e.mu.Lock()
	e.compareAll("at the end of the run")
	e.stopAll = true
	e.mu.Unlock()
}

func (e *exec) scraper() {
	for {
		time.Sleep(time.Duration(e.cfg.ScrapeMs) * time.Millisecond)
		e.s.Yield("scrape")
		e.mu.Lock()
		stop, run := e.stopAll || e.failed, e.running && e.db != nil
		e.mu.Unlock()
		if stop {
			return
		}
		if run {
			e.mu.Lock()
			e.scrape(time.Now())
			e.mu.Unlock()
		}
	}
}

// Execute runs one plan inside a synctest bubble.
func Execute(t *testing.T, prop string, plan *Plan) (res *runner.Result) {
	res = &runner.Result{Counters: map[string]int64{}}
	e := &exec{t: t, prop: prop, plan: plan, cfg: plan.Cfg, res: res, T0: time.Now(), gidx: map[string]int{},
		failCh: make(chan struct{}), store: rulemodel.NewStore(), script: map[[2]int][]Ev{}, srcOn: map[[2]int]bool{}, counts: map[string]int64{}}
	e.root = filepath.Join(scratchRoot(), fmt.Sprintf("r%x", plan.Cfg.Seed))
	os.RemoveAll(e.root)
	e.dataDir = filepath.Join(e.root, "data")
	e.rulesDir = filepath.Join(e.root, "rules")
	if err := os.MkdirAll(e.rulesDir, 0o777); err != nil {
		panic("harness: " + err.Error())
	}
	defer func() {
		os.RemoveAll(e.root)
		os.Remove(scratchRoot()) // the per-process directory, once it is empty
	}()
	evs := append([]Ev(nil), plan.Script...)
	sort.SliceStable(evs, func(i, j int) bool { return evs[i].At < evs[j].At })
	for _, ev := range evs {
		k := [2]int{ev.Q, ev.S}
		e.script[k] = append(e.script[k], ev)
	}
	e.cur = cloneGroups(plan.Groups)
	e.eng = promql.NewEngine(promql.EngineOpts{MaxSamples: 1000000, Timeout: 10 * time.Minute,
		LookbackDelta: time.Duration(e.cfg.LookbackMs) * time.Millisecond, EnableDelayedNameRemoval: e.cfg.DelayedName})

	pol := sched.Policy{Kind: e.cfg.PolKind, Stick: e.cfg.PolStick, Starve: e.cfg.PolStarve, StarveSteps: e.cfg.PolStarveN, PCTDepth: e.cfg.PolPCTDepth}
	e.s = sched.New(e.cfg.SchedSeed, pol)
	e.s.Idle = 1000000 * time.Hour
	e.s.MaxSteps = 1000000

	e.openDB()
	e.engQ = func(ctx context.Context, qs string, t time.Time) (promql.Vector, error) {
		return rules.EngineQueryFunc(e.eng, e.db)(ctx, qs, t)
	}
	e.startManager()
	e.s.Go("ctl", e.control)
	if e.prop == "C45" && e.cfg.Mode == "ticker" {
		e.s.Go("scrape", e.scraper)
	}
	if err := e.s.Run(nil); err != nil {
		panic("harness: scheduler: " + err.Error())
	}
	if !e.ctlDone {
		panic("harness: scheduler step cap reached before the control task finished")
	}
	e.s.Stop()
	e.stopManager()
	e.closeDB()
	e.finish()
	return res
}

func (e *exec) finish() {
	r := e.res
	r.SimTimeMs = time.Since(e.T0).Milliseconds()
	for k, v := range e.counts {
		r.Count(k, v)
	}
	ev := e.events.String()
	r.Key = ev
	switch e.prop {
	case "C44":
		r.NonTrivial = e.nEvalOK >= 10 && strings.Contains(ev, "F") && strings.ContainsAny(ev, "RDKXB")
	default:
		r.NonTrivial = e.nEvalOK >= 10 && e.counts["stale-markers-expected"] > 0 && e.counts["dependent-rule-evals"] > 0
	}
	r.Count("evals-ok", int64(e.nEvalOK))
	r.Count("evals-failed", int64(e.nEvalErr))
	r.Count("sched-steps", int64(e.s.Steps()))
	r.Trace = fmt.Sprintf("%016x/%016x/%016x/%d/%d", e.trace, e.dtrace, e.s.TraceHash(), e.s.Steps(), len(r.Violations))
	nr := 0
	for _, g := range e.plan.Groups {
		nr += len(g.Rules)
	}
	if len(ev) > 200 {
		ev = ev[:200] + "..."
	}
	r.Sample = map[string]any{"seed": e.cfg.Seed, "config": e.cfg, "groups": len(e.plan.Groups), "rules": nr, "ops": len(e.plan.Ops),
		"script_events": len(e.plan.Script), "faults": len(e.plan.Faults), "evaluations_ok": e.nEvalOK, "evaluations_failed": e.nEvalErr,
		"model_samples": e.store.NumSamples(), "transitions": ev, "sim_seconds": r.SimTimeMs / 1000}
}
