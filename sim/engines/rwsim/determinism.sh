#!/bin/bash
# determinism.sh [runs] [reps]: runs the first <runs> seeds of C40 in fresh processes under GOMAXPROCS 1/4/16, <reps> times
# each, with -sim.trace (canonical trace = interleaving id + endpoint log hash + all counters + verdict) and compares.
# Needs the engine binary ($BIN/rwsim.test, default /verif/bin).
RUNS=${1:-40}; REPS=${2:-10}; BIN=${BIN:-/verif/bin}
T=$(mktemp -d /dev/shm/rwsim-det.XXXXXX)
export GODEBUG=randautoseed=0,asyncpreemptoff=1
n=0
for rep in $(seq 1 $REPS); do
  for p in 1 4 16; do
    ( GOMAXPROCS=$p VERIF_SCRATCH=$T/s$p-$rep $BIN/rwsim.test -test.run '^TestSim$' -test.cpu 1 -sim.prop C40 -sim.tier quick -sim.from 0 -sim.to $RUNS -sim.trace -sim.maxviol 1000 -sim.out $T/o-$p-$rep.json >/dev/null 2>&1 ) &
    n=$((n+1))
    if [ $((n % 4)) -eq 0 ]; then wait; fi
  done
done
wait
python3 - "$T" <<'PY'
import json,sys,glob
base=None; bad=0; files=sorted(glob.glob(sys.argv[1]+"/o-*.json"))
for f in files:
    d=json.load(open(f)); tr=d["traces"]
    if base is None: base=tr; continue
    for k,v in tr.items():
        if base.get(k)!=v:
            bad+=1
            if bad<=10: print("DIVERGED run",k,f)
print("processes=%d runs_each=%d diverged=%d" % (len(files), len(base or {}), bad))
sys.exit(1 if bad or not files else 0)
PY
rc=$?
rm -rf "$T"
exit $rc
