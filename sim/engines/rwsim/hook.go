package rwsim

import (
	"fmt"
	"runtime"
	"strings"
	"sync"
	"time"

	"github.com/prometheus/prometheus/util/simhook"
)

// goid returns the id of the calling goroutine. It is only used as a key of the name registry below: the
// names (not the ids) are what the scheduler orders tasks by, so the nondeterministic ids never influence a run.
func goid() uint64 {
	var b [40]byte
	n := runtime.Stack(b[:], false)
	var id uint64
	for _, c := range b[len("goroutine "):n] {
		if c < '0' || c > '9' {
			break
		}
		id = id*10 + uint64(c-'0')
	}
	return id
}

// hookT is the installed simhook.Simulator; it forwards to the exec of the run in progress.
type hookT struct {
	mu sync.Mutex
	e  *exec
}

var theHook = &hookT{}

func init() { simhook.Install(theHook) }

func (h *hookT) cur() *exec {
	h.mu.Lock()
	defer h.mu.Unlock()
	return h.e
}

func (h *hookT) set(e *exec) {
	h.mu.Lock()
	h.e = e
	h.mu.Unlock()
}

func (h *hookT) Yield(site string, keys ...int) {
	if e := h.cur(); e != nil {
		e.yield(site, keys...)
	}
}

func (h *hookT) Acquire(name string, excl bool) {
	if e := h.cur(); e != nil && e.s != nil {
		e.s.Acquire(name, excl)
	}
}

func (h *hookT) Release(name string, excl bool) {
	if e := h.cur(); e != nil && e.s != nil {
		e.s.Release(name, excl)
	}
}

func (h *hookT) Event(name string, kv ...any) {
	if e := h.cur(); e != nil {
		e.onEvent(name, kv...)
	}
}

func (h *hookT) ID16(b [16]byte) [16]byte { return b }

func (h *hookT) IO(op, site, path string, n int) {
	e := h.cur()
	if e == nil || !e.ioYield.Load() || !strings.HasPrefix(site, "wlog.") {
		return
	}
	// Only the writer task yields at WAL file operations. It holds wlog.WL.mtx (page flush, segment create/remove)
	// or Head.chunkSnapshotMtx (checkpoint) there; no other task of this engine ever takes those.
	if e.nameOf(goid()) == "writer" {
		e.count("io_yields", 1)
		e.s.Yield("io." + site + "@writer")
	}
}

// ---- goroutine names ----

func (e *exec) register(name string) {
	e.mu.Lock()
	e.names[goid()] = name
	e.mu.Unlock()
}

func (e *exec) nameOf(id uint64) string {
	e.mu.Lock()
	defer e.mu.Unlock()
	return e.names[id]
}

func (e *exec) myName() string { return e.nameOf(goid()) }

// yield parks the calling goroutine under the id "<site>@<goroutine name>": several goroutines share most
// sites (one runShard per shard, ...) and the scheduler needs a stable, distinct id for each.
func (e *exec) yield(site string, keys ...int) {
	if e.s == nil {
		return
	}
	if site == "wlog.Watcher.watch.tickerPhase" {
		// Keeps the three tickers of Watcher.watch off each other's grid (checkpoint: Tc mod 5000, segment: Tc+1 mod
		// 100, read: anything else mod 100) by letting fake time pass between their creation / before a reset.
		var d int64
		now := time.Now().UnixMilli()
		switch keys[0] {
		case 0:
			e.phaseTc, d = now, 1
		case 1:
			d = 1
		case 2:
			for (now+d)%100 == e.phaseTc%100 || (now+d)%100 == (e.phaseTc+1)%100 {
				d++
			}
		}
		if d == 0 {
			return
		}
		time.Sleep(time.Duration(d) * time.Millisecond)
	}
	name := e.myName()
	if name == "" {
		// single-instance goroutines of the queue manager are named after their loop
		for _, l := range []string{"qm.updateShardsLoop", "qm.reshardLoop"} {
			if strings.HasPrefix(site, l+".") {
				name = l[3:]
				e.register(name)
			}
		}
	}
	if name == "" {
		if !e.schedRunning.Load() {
			return // set-up / tear-down code on the root goroutine, no other task exists
		}
		panic(fmt.Sprintf("harness: Yield(%s) from a goroutine the simulator cannot name", site))
	}
	e.s.Yield(site+"@"+name, keys...)
}

// taskEvent names the calling goroutine ("sim.task" events are emitted first thing by every goroutine the queue
// manager and the watcher start).
func (e *exec) taskEvent(kv []any) {
	kind := kv[0].(string)
	e.mu.Lock()
	defer e.mu.Unlock()
	var name string
	switch kind {
	case "shard":
		id := kv[2].(int)
		gen := e.shardGen[id]
		e.shardGen[id] = gen + 1
		name = fmt.Sprintf("shard%d.%d", id, gen)
		e.queueName[kv[1]] = name
	case "flush":
		name = "flush." + e.queueName[kv[1]]
		if c := e.flushGen[name]; c > 0 {
			name = fmt.Sprintf("%s.%d", name, c)
		}
		e.flushGen["flush."+e.queueName[kv[1]]]++
	case "watcher":
		name = "watcher"
		if e.watcherGen > 0 {
			name = fmt.Sprintf("watcher.%d", e.watcherGen)
		}
		e.watcherGen++
	case "watcher-gc":
		name = fmt.Sprintf("watcher-gc.%d", e.gcGen)
		e.gcGen++
	default:
		panic("harness: unknown sim.task kind " + kind)
	}
	e.names[goid()] = name
}
