// Package rwsim is engine E4: a real tsdb.DB writing a real WAL on tmpfs, the real wlog.Watcher tailing
// it, the real remote.QueueManager (shards, batching, back-off, relabeling, external labels, age limit,
// resharding) and the real remote.Client request path in front of a simulated remote-write endpoint, all
// inside one synctest bubble under the seeded scheduler. Decides C40.
package rwsim

import (
	"encoding/json"

	"verif/sim/core/prng"
	"verif/sim/core/sched"
	"verif/sim/model/rwmodel"
)

// Outage is a window (relative to the queue start) in which every request gets the same bad outcome.
type Outage struct {
	AtMs  int64  `json:"at"`
	LenMs int64  `json:"len"`
	Kind  string `json:"kind"` // 5xx | 429 | neterr | lost
}

// Faults is the endpoint's fault plan. Per-request outcomes are drawn from Seed in arrival order.
type Faults struct {
	Seed        uint64   `json:"seed"`
	P5xx        float64  `json:"p5xx,omitempty"`
	P429        float64  `json:"p429,omitempty"`
	PNetErr     float64  `json:"pnet,omitempty"`
	PLost       float64  `json:"plost,omitempty"`    // request applied, connection error returned
	PTimeout    float64  `json:"ptimeout,omitempty"` // no answer before the client's remote timeout (applied or not: coin)
	P4xx        float64  `json:"p4xx,omitempty"`     // non-recoverable (only in NonRecov runs)
	PLat        float64  `json:"plat,omitempty"`
	LatMaxMs    int64    `json:"latmax,omitempty"`
	RetryAfterS int      `json:"retryafter,omitempty"` // 429: Retry-After up to this many seconds (0: no header)
	MaxStreak   int      `json:"streak"`               // bound on consecutive failed attempts of one sender outside outages
	UntilMs     int64    `json:"until"`                // faults stop this long after the queue start
	Outages     []Outage `json:"outages,omitempty"`
}

// Config is the swarm configuration of a run.
type Config struct {
	Seed      uint64 `json:"seed"`
	SchedSeed uint64 `json:"sseed"`

	Proto       int            `json:"proto"`           // remote write protocol version 1 | 2
	V1Headers   bool           `json:"v1hdr,omitempty"` // the endpoint returns the 2.0 "written" headers also for 1.0 requests
	MinShards   int            `json:"minsh"`
	MaxShards   int            `json:"maxsh"`
	MSS         int            `json:"mss"` // max_samples_per_send
	Capacity    int            `json:"cap"`
	DeadlineMs  int64          `json:"bsd"` // batch_send_deadline
	MinBackMs   int64          `json:"minbo"`
	MaxBackMs   int64          `json:"maxbo"`
	RetryOn429  bool           `json:"r429,omitempty"`
	AgeLimitMs  int64          `json:"age,omitempty"`
	FlushMs     int64          `json:"flush"`   // flush deadline
	TimeoutMs   int64          `json:"timeout"` // remote_timeout
	Exemplars   bool           `json:"ex,omitempty"`
	Histograms  bool           `json:"nh,omitempty"`
	Ext         [][2]string    `json:"ext,omitempty"`
	Rules       []rwmodel.Rule `json:"rules,omitempty"`
	NSeries     int            `json:"nseries"`
	OOOMs       int64          `json:"ooo,omitempty"` // out-of-order window of the head
	WALComp     string         `json:"walcomp,omitempty"`
	IOYield     bool           `json:"ioyield,omitempty"` // the writer yields at every WAL file operation (page flush, segment create/remove, checkpoint steps)
	NonRecov    bool           `json:"nonrecov,omitempty"`
	StopPending bool           `json:"stoppending,omitempty"` // Stop while the last commit still sits in partial batches
	// KF: this run deliberately exercises the input pattern of a listed known finding (known_findings.json); all other
	// runs are steered away from it so that they keep exploring past it.
	KF     string       `json:"kf,omitempty"`
	Policy sched.Policy `json:"policy"`
	Faults Faults       `json:"faults"`
}

// Sample of a commit.
type Sample struct {
	S     int   `json:"s"`
	K     int   `json:"k,omitempty"`   // 0 float 1 histogram 2 float histogram
	Off   int64 `json:"o,omitempty"`   // timestamp = now + Off ms (in-order samples are bumped above the series' newest sample)
	OOO   bool  `json:"ooo,omitempty"` // keep the timestamp (out-of-order / old sample)
	HM    int   `json:"hm,omitempty"`  // histogram evolution mode
	Ex    bool  `json:"ex,omitempty"`  // append an exemplar for the series as well
	Stale bool  `json:"st,omitempty"`  // staleness marker
}

// Op of the writer task.
type Op struct {
	K  string   `json:"k"` // commit | sleep | trunc | reshard | meta | start
	Ms int64    `json:"ms,omitempty"`
	S  []Sample `json:"s,omitempty"`
	N  int      `json:"n,omitempty"` // reshard: target; meta: series; trunc: 1 = garbage-collecting truncation at now-Ms
	V  int      `json:"v,omitempty"` // meta: variant
}

// Plan = config + operations. Execution is a pure function of the plan.
type Plan struct {
	Cfg Config `json:"cfg"`
	Ops []Op   `json:"ops"`
}

func (p *Plan) String() string { b, _ := json.Marshal(p); return string(b) }

func pickI(r *prng.R, xs ...int) int     { return xs[r.Intn(len(xs))] }
func pickL(r *prng.R, xs ...int64) int64 { return xs[r.Intn(len(xs))] }

// GenConfig draws the swarm configuration.
func GenConfig(tier string, seed uint64) Config {
	r := prng.New(prng.DeriveS(seed, "config"))
	c := Config{Seed: seed, SchedSeed: prng.DeriveS(seed, "sched")}
	c.Proto = pickI(r, 1, 2, 2)
	c.V1Headers = r.Chance(0.5)
	c.MinShards = pickI(r, 1, 1, 2, 3)
	c.MaxShards = c.MinShards + pickI(r, 0, 1, 2, 4)
	c.MSS = pickI(r, 1, 2, 3, 5, 8, 20)
	c.Capacity = c.MSS * pickI(r, 1, 1, 2, 4)
	if r.Chance(0.1) {
		c.Capacity = c.MSS/2 + 1 // capacity below max_samples_per_send: unbuffered-like single batch
	}
	c.DeadlineMs = pickL(r, 50, 100, 300, 1000, 2000, 5000)
	c.MinBackMs = pickL(r, 5, 30, 100)
	c.MaxBackMs = c.MinBackMs * pickL(r, 2, 8, 30)
	c.RetryOn429 = r.Chance(0.6)
	c.TimeoutMs = pickL(r, 300, 1000, 5000)
	c.Exemplars = r.Chance(0.6)
	c.Histograms = r.Chance(0.7)
	c.NSeries = r.Range(2, 10)
	if r.Chance(0.3) {
		c.OOOMs = pickL(r, 500, 5000)
	}
	c.WALComp = []string{"none", "snappy", "zstd"}[r.Intn(3)]
	c.IOYield = r.Chance(0.4)
	c.NonRecov = r.Chance(0.2)
	c.StopPending = r.Chance(0.35)
	if r.Chance(0.35) {
		c.AgeLimitMs = pickL(r, 1000, 3000, 10000, 60000)
	}
	// external labels and write relabeling
	if r.Chance(0.7) {
		c.Ext = append(c.Ext, [2]string{"region", "eu"})
		if r.Chance(0.5) {
			c.Ext = append(c.Ext, [2]string{"grp", "ext"}) // collides with a series label: the series' value wins
		}
		if r.Chance(0.3) {
			c.Ext = append(c.Ext, [2]string{"replica", "r1"})
		}
	}
	if r.Chance(0.75) {
		n := r.Range(1, 3)
		for i := 0; i < n; i++ {
			switch r.Intn(6) {
			case 0, 1:
				vals := []string{"g" + string(rune('0'+r.Intn(4)))}
				if r.Chance(0.4) {
					vals = append(vals, "g"+string(rune('0'+r.Intn(4))))
				}
				c.Rules = append(c.Rules, rwmodel.Rule{Action: "drop", Source: "grp", Values: vals})
			case 2:
				c.Rules = append(c.Rules, rwmodel.Rule{Action: "keep", Source: "__name__", Values: []string{"m0", "m1", "m2"}[:r.Range(2, 3)]})
			case 3:
				c.Rules = append(c.Rules, rwmodel.Rule{Action: "labeldrop", Values: []string{"tmp"}})
			case 4:
				// drops an external label again: only correct if external labels are applied before relabeling
				c.Rules = append(c.Rules, rwmodel.Rule{Action: "labeldrop", Values: []string{"replica"}})
			case 5:
				c.Rules = append(c.Rules, rwmodel.Rule{Action: "replace", Target: []string{"site", "region"}[r.Intn(2)], Replacement: "s1"})
			}
		}
		if r.Chance(0.2) {
			// a rule keyed on an external label value
			c.Rules = append(c.Rules, rwmodel.Rule{Action: "keep", Source: "region", Values: []string{"eu", "s1"}})
		}
	}

	// fault plan
	f := Faults{Seed: prng.DeriveS(seed, "faults"), MaxStreak: r.Range(1, 3)}
	mode := r.Intn(10) // 0,1: fault free; 2: latency only; else faults
	if mode >= 2 {
		f.PLat = []float64{0.2, 0.6, 1}[r.Intn(3)]
		f.LatMaxMs = pickL(r, 5, 50, 300, 1500)
	}
	if mode >= 3 {
		en := func(p float64) float64 {
			if r.Chance(0.5) {
				return p * []float64{0.3, 1, 2}[r.Intn(3)]
			}
			return 0
		}
		f.P5xx = en(0.08)
		f.PNetErr = en(0.05)
		f.PLost = en(0.06)
		f.PTimeout = en(0.03)
		if c.RetryOn429 || c.NonRecov {
			f.P429 = en(0.08)
			f.RetryAfterS = pickI(r, 0, 1, 2, 3)
		}
		if c.NonRecov {
			f.P4xx = []float64{0.02, 0.08, 0.2}[r.Intn(3)]
		}
		no := r.Intn(3)
		at := int64(r.Range(200, 6000))
		for i := 0; i < no; i++ {
			kinds := []string{"5xx", "neterr", "lost"}
			if c.RetryOn429 {
				kinds = append(kinds, "429")
			}
			o := Outage{AtMs: at, LenMs: pickL(r, 100, 800, 3000, 8000), Kind: kinds[r.Intn(len(kinds))]}
			f.Outages = append(f.Outages, o)
			at += o.LenMs + int64(r.Range(500, 15000))
		}
	}
	if r.Chance(0.01) {
		// known finding rw1-age-retry-empty-series: 1.0 protocol, small age limit, batches that collect samples of
		// different ages, an outage longer than the age limit
		c.KF = "rw1-age-retry-empty-series"
		c.Proto = 1
		c.AgeLimitMs = pickL(r, 1000, 3000)
		if c.MSS < 5 {
			c.MSS, c.Capacity = 8, 16
		}
		if c.DeadlineMs < 1000 {
			c.DeadlineMs = 2000
		}
		f.Outages = []Outage{{AtMs: int64(r.Range(500, 4000)), LenMs: 8000, Kind: "5xx"}}
	}
	c.Faults = f
	c.Policy = sched.DrawPolicy(r, []string{"shards.runShard", "wlog.Watcher", "writer", "qm.Append", "ep."})
	return c
}

// flushBound is the time (ms) within which, by construction of the fault plan, a shard can always flush everything it
// holds: the failures the plan injects "recover within the flush deadline" (statement). FlushMs is set to twice this.
func flushBound(c *Config) int64 {
	f := &c.Faults
	batches := int64(c.Capacity/c.MSS) + 3
	retry := c.MaxBackMs
	if ra := int64(f.RetryAfterS) * 1000; ra > retry {
		retry = ra
	}
	attempt := 2 * f.LatMaxMs
	if f.PTimeout > 0 && c.TimeoutMs > attempt {
		attempt = c.TimeoutMs
	}
	perBatch := int64(f.MaxStreak+1)*(attempt+retry) + attempt
	var out int64
	for _, o := range f.Outages {
		out += o.LenMs + retry + attempt
	}
	return batches*perBatch + out + 3000
}

var metaVariants = 3

// Generate draws a plan.
func Generate(prop, tier string, seed uint64) *Plan {
	c := GenConfig(tier, seed)
	r := prng.New(prng.DeriveS(seed, "ops"))
	p := &Plan{}
	active := make([]bool, c.NSeries)
	for i := range active {
		active[i] = r.Chance(0.7)
	}
	active[0] = true
	kindOf := make([]int, c.NSeries) // preferred kind per series
	for i := range kindOf {
		if c.Histograms && r.Chance(0.4) {
			kindOf[i] = 1 + r.Intn(2)
		}
	}
	commit := func(started bool) Op {
		op := Op{K: "commit"}
		burst := r.Chance(0.12)
		n := r.Range(1, 4)
		if burst {
			n = r.Range(8, 40)
		}
		for j := 0; j < n; j++ {
			s := r.Intn(c.NSeries)
			if !active[s] && !r.Chance(0.1) {
				continue
			}
			sm := Sample{S: s, K: kindOf[s]}
			if r.Chance(0.03) {
				sm.K = r.Intn(3) // a series may change its sample kind
			}
			if sm.K != 0 {
				sm.HM = r.Intn(5)
			} else if r.Chance(0.04) {
				sm.Stale = true
			}
			switch {
			case c.OOOMs > 0 && r.Chance(0.15):
				sm.OOO, sm.Off = true, -int64(r.Range(1, int(c.OOOMs)-1))
			case c.AgeLimitMs > 0 && c.OOOMs > 0 && r.Chance(0.05):
				sm.OOO, sm.Off = true, -c.AgeLimitMs-int64(r.Range(1, 400))
			case r.Chance(0.1):
				sm.Off = -int64(r.Range(0, 30))
			}
			if c.Exemplars && r.Chance(0.25) {
				sm.Ex = true
			}
			op.S = append(op.S, sm)
		}
		if len(op.S) == 0 {
			op.S = append(op.S, Sample{S: 0, K: kindOf[0]})
		}
		return op
	}
	sleep := func() Op {
		var ms int64
		switch x := r.Intn(20); {
		case x < 9:
			ms = int64(r.Range(1, 40))
		case x < 16:
			ms = int64(r.Range(40, 600))
		case x < 19:
			ms = int64(r.Range(600, 3000))
		default:
			ms = int64(r.Range(3000, 12000))
		}
		return Op{K: "sleep", Ms: ms}
	}
	trunc := func() Op {
		if r.Chance(0.45) {
			return Op{K: "trunc", N: 1, Ms: pickL(r, 200, 1000, 4000)}
		}
		return Op{K: "trunc"}
	}
	// history before the queue starts
	npre := r.Intn(14)
	if r.Chance(0.25) {
		npre = 0
	}
	for i := 0; i < npre; i++ {
		switch x := r.Intn(10); {
		case x < 5:
			p.Ops = append(p.Ops, commit(false))
		case x < 7:
			p.Ops = append(p.Ops, sleep())
		case x < 9:
			p.Ops = append(p.Ops, trunc())
		default:
			p.Ops = append(p.Ops, Op{K: "meta", N: r.Intn(c.NSeries), V: r.Intn(metaVariants)})
		}
	}
	p.Ops = append(p.Ops, Op{K: "sleep", Ms: int64(r.Range(1, 50))}, Op{K: "start"})
	nmain := r.Range(25, 90)
	if tier == "thorough" && r.Chance(0.3) {
		nmain = r.Range(90, 180)
	}
	var total int64
	for i := 0; i < nmain; i++ {
		switch x := r.Intn(100); {
		case x < 46:
			p.Ops = append(p.Ops, commit(true))
		case x < 76:
			o := sleep()
			total += o.Ms
			p.Ops = append(p.Ops, o)
		case x < 84:
			p.Ops = append(p.Ops, trunc())
		case x < 92:
			p.Ops = append(p.Ops, Op{K: "reshard", N: r.Range(1, c.MaxShards+1)})
		case x < 96:
			p.Ops = append(p.Ops, Op{K: "meta", N: r.Intn(c.NSeries), V: r.Intn(metaVariants)})
		default:
			// series churn: (de)activate a series
			s := r.Intn(c.NSeries)
			active[s] = !active[s]
			active[0] = true
			p.Ops = append(p.Ops, commit(true))
		}
	}
	// faults stop somewhere in the second half of the planned writing time (or never started)
	c.Faults.UntilMs = total/2 + int64(r.Intn(int(total/2+1)))
	var lastOut int64
	for _, o := range c.Faults.Outages {
		if e := o.AtMs + o.LenMs; e > lastOut {
			lastOut = e
		}
	}
	if lastOut > c.Faults.UntilMs && (c.Faults.P5xx+c.Faults.P429+c.Faults.PNetErr+c.Faults.PLost+c.Faults.PTimeout+c.Faults.P4xx > 0 || len(c.Faults.Outages) > 0) {
		c.Faults.UntilMs = lastOut
	}
	fb := flushBound(&c)
	c.FlushMs = ((2*fb + 999) / 1000) * 1000
	p.Cfg = c
	return p
}

func clonePlan(p *Plan) *Plan {
	q := &Plan{Cfg: p.Cfg}
	q.Cfg.Ext = append([][2]string(nil), p.Cfg.Ext...)
	q.Cfg.Rules = append([]rwmodel.Rule(nil), p.Cfg.Rules...)
	q.Cfg.Faults.Outages = append([]Outage(nil), p.Cfg.Faults.Outages...)
	q.Ops = make([]Op, len(p.Ops))
	for i, o := range p.Ops {
		o.S = append([]Sample(nil), o.S...)
		q.Ops[i] = o
	}
	return q
}

// Shrink returns simpler candidate plans, most aggressive first. The "start" op is never removed; the fault plan is
// only made smaller (fewer outages, zero probabilities), never larger, so the flush-deadline construction stays valid.
func Shrink(p *Plan) []*Plan {
	var out []*Plan
	n := len(p.Ops)
	dropRange := func(lo, hi int) *Plan {
		q := clonePlan(p)
		var ops []Op
		for i, o := range q.Ops {
			if i >= lo && i < hi && o.K != "start" {
				continue
			}
			ops = append(ops, o)
		}
		if len(ops) == len(q.Ops) {
			return nil
		}
		q.Ops = ops
		return q
	}
	for chunk := n / 2; chunk >= 1; chunk /= 2 {
		for lo := 0; lo < n; lo += chunk {
			if q := dropRange(lo, lo+chunk); q != nil {
				out = append(out, q)
			}
		}
		if chunk == 1 {
			break
		}
	}
	// faults
	f := p.Cfg.Faults
	for i := range f.Outages {
		q := clonePlan(p)
		q.Cfg.Faults.Outages = append(append([]Outage(nil), f.Outages[:i]...), f.Outages[i+1:]...)
		out = append(out, q)
	}
	zero := func(set func(*Faults)) {
		q := clonePlan(p)
		set(&q.Cfg.Faults)
		out = append(out, q)
	}
	if f.P5xx > 0 {
		zero(func(f *Faults) { f.P5xx = 0 })
	}
	if f.P429 > 0 {
		zero(func(f *Faults) { f.P429 = 0 })
	}
	if f.PNetErr > 0 {
		zero(func(f *Faults) { f.PNetErr = 0 })
	}
	if f.PLost > 0 {
		zero(func(f *Faults) { f.PLost = 0 })
	}
	if f.PTimeout > 0 {
		zero(func(f *Faults) { f.PTimeout = 0 })
	}
	if f.P4xx > 0 {
		zero(func(f *Faults) { f.P4xx = 0 })
	}
	if f.PLat > 0 {
		zero(func(f *Faults) { f.PLat = 0; f.LatMaxMs = 0 })
	}
	// config simplifications
	cfg := func(set func(*Config)) {
		q := clonePlan(p)
		set(&q.Cfg)
		out = append(out, q)
	}
	if p.Cfg.Policy.Kind != "uniform" {
		cfg(func(c *Config) { c.Policy = sched.Policy{Kind: "uniform"} })
	}
	if p.Cfg.IOYield {
		cfg(func(c *Config) { c.IOYield = false })
	}
	if len(p.Cfg.Rules) > 0 {
		for i := range p.Cfg.Rules {
			i := i
			cfg(func(c *Config) { c.Rules = append(append([]rwmodel.Rule(nil), c.Rules[:i]...), c.Rules[i+1:]...) })
		}
	}
	if len(p.Cfg.Ext) > 0 {
		cfg(func(c *Config) { c.Ext = nil })
	}
	if p.Cfg.AgeLimitMs > 0 {
		cfg(func(c *Config) { c.AgeLimitMs = 0 })
	}
	if p.Cfg.StopPending {
		cfg(func(c *Config) { c.StopPending = false })
	}
	if p.Cfg.MaxShards > p.Cfg.MinShards {
		cfg(func(c *Config) { c.MaxShards = c.MinShards })
	}
	// per-op: fewer samples in commits, shorter sleeps
	for i, o := range p.Ops {
		if o.K == "commit" && len(o.S) > 1 {
			q := clonePlan(p)
			q.Ops[i].S = q.Ops[i].S[:len(o.S)/2]
			out = append(out, q)
			q = clonePlan(p)
			q.Ops[i].S = q.Ops[i].S[len(o.S)/2:]
			out = append(out, q)
		}
		if o.K == "sleep" && o.Ms > 10 {
			q := clonePlan(p)
			q.Ops[i].Ms = o.Ms / 4
			out = append(out, q)
		}
	}
	return out
}
