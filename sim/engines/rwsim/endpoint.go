package rwsim

import (
	"bytes"
	"context"
	"errors"
	"fmt"
	"io"
	"math"
	"net/http"
	"strconv"
	"strings"
	"time"

	"github.com/golang/snappy"

	"github.com/prometheus/prometheus/model/histogram"
	"github.com/prometheus/prometheus/model/labels"
	"github.com/prometheus/prometheus/prompb"
	writev2 "github.com/prometheus/prometheus/prompb/io/prometheus/write/v2"

	"verif/sim/core/prng"
	"verif/sim/model/rwmodel"
)

// recvItem is one decoded item of a request.
type recvItem struct {
	key string // canonical label set of the time series
	it  rwmodel.Item
}

// request is one request as seen by the simulated endpoint.
type request struct {
	n       int
	sender  string // name of the sending goroutine (a shard)
	atMs    int64  // simulated arrival time
	attempt int    // Retry-Attempt header
	items   []recvItem
	junk    string // protocol-level complaint (empty label set, ...): answered with 400
	outcome string // ok | 5xx | 429 | neterr | lost | timeout-applied | timeout | 4xx | cancelled
	applied bool
}

// chain is the sequence of attempts of one sender for one batch.
type chain struct {
	applied map[string]bool // item ids ("key id") already applied by an earlier attempt of this chain
	first   map[string]bool // items of the first attempt
	fails   int             // consecutive failed attempts outside outages (bounded by Faults.MaxStreak)
	last    string          // outcome of the previous attempt
}

// endpoint is the simulated remote-write receiver behind the real remote.Client (its http.RoundTripper).
type endpoint struct {
	e      *exec
	rng    *prng.R
	f      Faults
	reqs   int
	chains map[string]*chain // open chain per sender
	// canonical accepted log per series (retransmissions after a lost response removed) and bookkeeping
	log             map[string][]rwmodel.Got
	rejected        map[string]bool // "key id" of items of requests answered with a non-recoverable status
	inflight        int
	applied         [4]int64 // distinct accepted items per kind
	dupLost         int64
	delivered       map[string]bool // "key id" of every accepted item
	junkRejected    map[string]bool // "key id" of items lost because their (malformed) request was answered with 400
	appliedRejected [3]int64        // per class: items applied by an attempt whose response was lost and later answered non-recoverably
}

func newEndpoint(e *exec) *endpoint {
	return &endpoint{e: e, rng: prng.New(e.cfg.Faults.Seed), f: e.cfg.Faults, chains: map[string]*chain{},
		log: map[string][]rwmodel.Got{}, rejected: map[string]bool{}, delivered: map[string]bool{}, junkRejected: map[string]bool{}}
}

func floatVal(v float64) string { return strconv.FormatUint(math.Float64bits(v), 16) }

func spansStr(s []histogram.Span) string {
	var sb strings.Builder
	for _, x := range s {
		fmt.Fprintf(&sb, "%d+%d,", x.Offset, x.Length)
	}
	return sb.String()
}

func histVal(h *histogram.Histogram) string {
	return fmt.Sprintf("i|%d|%x|%d|%d|%x|%s|%s|%v|%v|%v|%d", h.Schema, math.Float64bits(h.ZeroThreshold), h.ZeroCount, h.Count,
		math.Float64bits(h.Sum), spansStr(h.PositiveSpans), spansStr(h.NegativeSpans), h.PositiveBuckets, h.NegativeBuckets, h.CustomValues, h.CounterResetHint)
}

func fhistVal(h *histogram.FloatHistogram) string {
	return fmt.Sprintf("f|%d|%x|%x|%x|%x|%s|%s|%v|%v|%v|%d", h.Schema, math.Float64bits(h.ZeroThreshold), math.Float64bits(h.ZeroCount), math.Float64bits(h.Count),
		math.Float64bits(h.Sum), spansStr(h.PositiveSpans), spansStr(h.NegativeSpans), h.PositiveBuckets, h.NegativeBuckets, h.CustomValues, h.CounterResetHint)
}

func exVal(l labels.Labels, v float64) string { return l.String() + floatVal(v) }

func keyOf(l labels.Labels) string { return rwmodel.Key(l.Map()) }

// decode parses the snappy-compressed protobuf body according to the Content-Type.
func (ep *endpoint) decode(r *http.Request, rq *request) error {
	body, err := io.ReadAll(r.Body)
	if err != nil {
		return err
	}
	if ce := r.Header.Get("Content-Encoding"); ce != "snappy" {
		return fmt.Errorf("Content-Encoding %q", ce)
	}
	if len(body) == 0 {
		// Not a valid snappy block (an empty message encodes as one zero byte). Seen when the age limit filtered
		// every sample out of a retried request; a receiver answers 400 and nothing that was still owed is lost.
		rq.junk = "empty body"
		return nil
	}
	raw, err := snappy.Decode(nil, body)
	if err != nil {
		return fmt.Errorf("snappy: %w", err)
	}
	ct := r.Header.Get("Content-Type")
	ver := r.Header.Get("X-Prometheus-Remote-Write-Version")
	b := labels.NewScratchBuilder(8)
	switch {
	case ct == "application/x-protobuf" && ep.e.cfg.Proto == 1:
		if ver != "0.1.0" {
			return fmt.Errorf("version header %q with a 1.0 request", ver)
		}
		var wr prompb.WriteRequest
		if err := wr.Unmarshal(raw); err != nil {
			return fmt.Errorf("unmarshal v1: %w", err)
		}
		if len(wr.Metadata) > 0 {
			return fmt.Errorf("unexpected v1 metadata in a sample request")
		}
		for _, ts := range wr.Timeseries {
			if len(ts.Labels) == 0 {
				rq.junk = "time series without labels"
				continue
			}
			key := keyOf(ts.ToLabels(&b, nil))
			for _, s := range ts.Samples {
				rq.items = append(rq.items, recvItem{key, rwmodel.Item{Kind: rwmodel.Float, T: s.Timestamp, Val: floatVal(s.Value)}})
			}
			for _, h := range ts.Histograms {
				if h.IsFloatHistogram() {
					rq.items = append(rq.items, recvItem{key, rwmodel.Item{Kind: rwmodel.FHist, T: h.Timestamp, Val: fhistVal(h.ToFloatHistogram())}})
				} else {
					rq.items = append(rq.items, recvItem{key, rwmodel.Item{Kind: rwmodel.Hist, T: h.Timestamp, Val: histVal(h.ToIntHistogram())}})
				}
			}
			for _, x := range ts.Exemplars {
				ex := x.ToExemplar(&b, nil)
				rq.items = append(rq.items, recvItem{key, rwmodel.Item{Kind: rwmodel.Exemplar, T: ex.Ts, Val: exVal(ex.Labels, ex.Value)}})
			}
			if len(ts.Samples)+len(ts.Histograms)+len(ts.Exemplars) == 0 {
				rq.junk = "time series without samples"
			}
		}
	case ct == "application/x-protobuf;proto=io.prometheus.write.v2.Request" && ep.e.cfg.Proto == 2:
		if ver != "2.0.0" {
			return fmt.Errorf("version header %q with a 2.0 request", ver)
		}
		var wr writev2.Request
		if err := wr.Unmarshal(raw); err != nil {
			return fmt.Errorf("unmarshal v2: %w", err)
		}
		for _, ts := range wr.Timeseries {
			ls, err := ts.ToLabels(&b, wr.Symbols)
			if err != nil {
				return fmt.Errorf("v2 labels: %w", err)
			}
			if ls.Len() == 0 {
				rq.junk = "time series without labels"
				continue
			}
			key := keyOf(ls)
			md, err := ts.ToMetadata(wr.Symbols)
			if err != nil {
				return fmt.Errorf("v2 metadata: %w", err)
			}
			meta := fmt.Sprintf("%s|%s|%s", md.Type, md.Help, md.Unit)
			for _, s := range ts.Samples {
				rq.items = append(rq.items, recvItem{key, rwmodel.Item{Kind: rwmodel.Float, T: s.Timestamp, Val: floatVal(s.Value), Meta: meta}})
			}
			for _, h := range ts.Histograms {
				if h.IsFloatHistogram() {
					rq.items = append(rq.items, recvItem{key, rwmodel.Item{Kind: rwmodel.FHist, T: h.Timestamp, Val: fhistVal(h.ToFloatHistogram()), Meta: meta}})
				} else {
					rq.items = append(rq.items, recvItem{key, rwmodel.Item{Kind: rwmodel.Hist, T: h.Timestamp, Val: histVal(h.ToIntHistogram()), Meta: meta}})
				}
			}
			for _, x := range ts.Exemplars {
				ex, err := x.ToExemplar(&b, wr.Symbols)
				if err != nil {
					return fmt.Errorf("v2 exemplar: %w", err)
				}
				rq.items = append(rq.items, recvItem{key, rwmodel.Item{Kind: rwmodel.Exemplar, T: ex.Ts, Val: exVal(ex.Labels, ex.Value), Meta: meta}})
			}
			if len(ts.Samples)+len(ts.Histograms)+len(ts.Exemplars) == 0 {
				rq.junk = "time series without samples"
			}
		}
	default:
		return fmt.Errorf("Content-Type %q for configured protocol version %d", ct, ep.e.cfg.Proto)
	}
	return nil
}

// decide draws the outcome of a request (called with e.mu held, in arrival order) and the latencies before and
// after the request is applied.
func (ep *endpoint) decide(rq *request, ch *chain) (outcome string, pre, post time.Duration, retryAfter string) {
	f := &ep.f
	rel := rq.atMs - ep.e.t0Ms
	r := ep.rng
	// draw everything unconditionally so that the stream position does not depend on the branch taken
	u := r.Float()
	lat := r.Chance(f.PLat)
	d1, d2 := r.Float(), r.Float()
	coin := r.Intn(2)
	ra := r.Intn(f.RetryAfterS + 1)
	if rq.junk != "" {
		return "4xx", 0, 0, ""
	}
	if ep.e.rebuilt[rq.sender] {
		// Steering (see known_findings.json, rw1-age-retry-empty-series): in ordinary runs the attempt that carries a
		// request rebuilt by the age filter succeeds, so that no batch is rebuilt twice. Runs with cfg.KF set skip this.
		delete(ep.e.rebuilt, rq.sender)
		if ep.e.cfg.KF == "" && ep.e.cfg.Proto == 1 {
			ep.e.countL("steered_rebuilt_request_ok", 1)
			return "ok", pre0(lat, d1, ep), 0, ""
		}
	}
	if rel >= f.UntilMs {
		return "ok", 0, 0, ""
	}
	maxLat := float64(f.LatMaxMs)
	if lim := 0.4 * float64(ep.e.cfg.TimeoutMs); maxLat > lim {
		maxLat = lim // latency alone never exceeds the client's remote timeout; timeouts are a separate outcome
	}
	if lat {
		pre = time.Duration(d1*maxLat) * time.Millisecond
		post = time.Duration(d2*maxLat) * time.Millisecond
	}
	for _, o := range f.Outages {
		if rel >= o.AtMs && rel < o.AtMs+o.LenMs {
			if o.Kind == "429" && ra > 0 {
				retryAfter = strconv.Itoa(ra)
			}
			return o.Kind, pre, post, retryAfter
		}
	}
	outcome = "ok"
	switch {
	case u < f.P5xx:
		outcome = "5xx"
	case u < f.P5xx+f.P429:
		outcome = "429"
		if ra > 0 {
			retryAfter = strconv.Itoa(ra)
		}
	case u < f.P5xx+f.P429+f.PNetErr:
		outcome = "neterr"
	case u < f.P5xx+f.P429+f.PNetErr+f.PLost:
		outcome = "lost"
	case u < f.P5xx+f.P429+f.PNetErr+f.PLost+f.PTimeout:
		outcome = "timeout"
		if coin == 1 {
			outcome = "timeout-applied"
		}
	case u < f.P5xx+f.P429+f.PNetErr+f.PLost+f.PTimeout+f.P4xx:
		outcome = "4xx"
	}
	if outcome != "ok" && outcome != "4xx" && ch.fails >= f.MaxStreak {
		outcome = "ok" // failures recover: bounded number of consecutive failed attempts
	}
	return outcome, pre, post, retryAfter
}

func pre0(lat bool, d1 float64, ep *endpoint) time.Duration {
	if !lat {
		return 0
	}
	maxLat := float64(ep.f.LatMaxMs)
	if lim := 0.4 * float64(ep.e.cfg.TimeoutMs); maxLat > lim {
		maxLat = lim
	}
	return time.Duration(d1*maxLat) * time.Millisecond
}

var errConnReset = errors.New("simulated: connection reset by peer")

// sleepCtx sleeps on the fake clock; the wake-up is followed by a scheduling point.
func (ep *endpoint) sleepCtx(ctx context.Context, d time.Duration) error {
	if d <= 0 {
		return nil
	}
	t := time.NewTimer(d)
	defer t.Stop()
	ep.e.selectOrder()
	select {
	case <-ctx.Done():
		ep.e.yield("ep.cancelled")
		return ctx.Err()
	case <-t.C:
		ep.e.yield("ep.wake")
		return nil
	}
}

// RoundTrip implements http.RoundTripper. It runs on the sending shard's goroutine.
func (ep *endpoint) RoundTrip(r *http.Request) (*http.Response, error) {
	e := ep.e
	ctx := r.Context()
	e.yield("ep.arrive") // the request is on the wire: a scheduling point before the endpoint sees it
	sender := e.myName()
	rq := &request{sender: sender, atMs: time.Now().UnixMilli()}
	if a := r.Header.Get("Retry-Attempt"); a != "" {
		rq.attempt, _ = strconv.Atoi(a)
	}
	if err := ep.decode(r, rq); err != nil {
		e.mu.Lock()
		e.protoErrs = append(e.protoErrs, err.Error())
		e.mu.Unlock()
		return ep.response(r, 400, "", nil), nil
	}

	e.mu.Lock()
	ep.reqs++
	rq.n = ep.reqs
	ch := ep.chains[sender]
	if ch == nil {
		ch = &chain{applied: map[string]bool{}, first: map[string]bool{}}
		ep.chains[sender] = ch
		for _, it := range rq.items {
			ch.first[it.key+" "+it.it.ID()] = true
		}
		if rq.attempt != 0 {
			e.protoErrs = append(e.protoErrs, fmt.Sprintf("request %d of %s: first attempt of a batch carries Retry-Attempt %d", rq.n, sender, rq.attempt))
		}
	} else {
		if rq.attempt == 0 {
			e.protoErrs = append(e.protoErrs, fmt.Sprintf("request %d of %s: retry after outcome %s carries no Retry-Attempt header", rq.n, sender, ch.last))
		}
		for _, it := range rq.items {
			if !ch.first[it.key+" "+it.it.ID()] {
				e.protoErrs = append(e.protoErrs, fmt.Sprintf("request %d of %s: retry contains %s %s which was not part of the first attempt", rq.n, sender, it.key, it.it.ID()))
				break
			}
		}
		if ch.last == "429" {
			e.countL("retry_after_429", 1)
		}
	}
	outcome, pre, post, retryAfter := ep.decide(rq, ch)
	rq.outcome = outcome
	ep.inflight++
	e.mu.Unlock()

	finish := func(final string) {
		e.mu.Lock()
		ep.inflight--
		rq.outcome = final
		ch.last = final
		switch final {
		case "ok":
			delete(ep.chains, sender)
		case "4xx", "429-nonrecoverable":
			// the sender gives up on this batch: whatever was never applied is legitimately lost
			for _, it := range rq.items {
				id := it.key + " " + it.it.ID()
				switch {
				case ch.applied[id]:
					ep.appliedRejected[map[int]int{rwmodel.Float: 0, rwmodel.Hist: 1, rwmodel.FHist: 1, rwmodel.Exemplar: 2}[it.it.Kind]]++
				case rq.junk == "":
					ep.rejected[id] = true
				case !ep.delivered[id]:
					ep.junkRejected[id] = true
				}
			}
			delete(ep.chains, sender)
			if rq.junk == "" {
				e.countL("fault:send-4xx", 1)
			}
		case "cancelled":
			// hard shutdown or Stop: the sender will not retry
			delete(ep.chains, sender)
		default:
			ch.fails++
			e.countL("fault:send-"+final, 1)
		}
		if rq.junk == "empty body" {
			e.countL("empty_body_requests", 1)
		} else if rq.junk != "" {
			e.countL("junk_requests", 1)
			e.junk = append(e.junk, fmt.Sprintf("request %d of %s (attempt %d): %s", rq.n, sender, rq.attempt, rq.junk))
		}
		if pre+post > 0 {
			e.countL("fault:send-latency", 1)
		}
		e.mu.Unlock()
	}
	apply := func() {
		e.mu.Lock()
		now := time.Now().UnixMilli()
		rq.applied = true
		for _, it := range rq.items {
			id := it.key + " " + it.it.ID()
			if ch.applied[id] {
				ep.dupLost++ // retransmission of something applied by an attempt whose response was lost
				continue
			}
			ch.applied[id] = true
			if ep.delivered[id] {
				e.countL("duplicate_deliveries", 1)
			}
			ep.delivered[id] = true
			g := rwmodel.Got{Item: it.it, At: now}
			g.Op = rq.n
			ep.log[it.key] = append(ep.log[it.key], g)
			ep.applied[it.it.Kind]++
		}
		e.mu.Unlock()
	}

	if err := ep.sleepCtx(ctx, pre); err != nil {
		finish("cancelled")
		return nil, err
	}
	var ns, nh, nx int
	for _, it := range rq.items {
		switch it.it.Kind {
		case rwmodel.Float:
			ns++
		case rwmodel.Exemplar:
			nx++
		default:
			nh++
		}
	}
	switch outcome {
	case "ok", "lost", "timeout-applied":
		apply()
	}
	switch outcome {
	case "timeout", "timeout-applied":
		// no answer: the client's remote timeout (or a hard shutdown) ends the attempt
		<-ctx.Done()
		e.yield("ep.timeout")
		if errors.Is(ctx.Err(), context.DeadlineExceeded) {
			finish(outcome)
		} else {
			finish("cancelled")
		}
		return nil, ctx.Err()
	}
	if err := ep.sleepCtx(ctx, post); err != nil {
		if rq.applied {
			finish("lost")
		} else {
			finish("cancelled")
		}
		return nil, err
	}
	switch outcome {
	case "ok":
		finish("ok")
		return ep.response(r, 200, "", &[3]int{ns, nh, nx}), nil
	case "lost", "neterr":
		finish(outcome)
		return nil, errConnReset
	case "5xx":
		finish("5xx")
		return ep.response(r, []int{500, 502, 503}[rq.n%3], "", nil), nil
	case "429":
		if e.cfg.RetryOn429 {
			finish("429")
		} else {
			finish("429-nonrecoverable")
		}
		return ep.response(r, 429, retryAfter, nil), nil
	case "4xx":
		finish("4xx")
		return ep.response(r, 400, "", nil), nil
	}
	panic("harness: endpoint outcome " + outcome)
}

func (ep *endpoint) response(r *http.Request, code int, retryAfter string, written *[3]int) *http.Response {
	h := http.Header{}
	if retryAfter != "" {
		h.Set("Retry-After", retryAfter)
	}
	if written != nil && (ep.e.cfg.Proto == 2 || ep.e.cfg.V1Headers) {
		h.Set("X-Prometheus-Remote-Write-Samples-Written", strconv.Itoa(written[0]))
		h.Set("X-Prometheus-Remote-Write-Histograms-Written", strconv.Itoa(written[1]))
		h.Set("X-Prometheus-Remote-Write-Exemplars-Written", strconv.Itoa(written[2]))
	}
	body := ""
	if code/100 != 2 {
		body = "simulated " + strconv.Itoa(code)
	}
	return &http.Response{
		StatusCode: code, Status: strconv.Itoa(code) + " " + http.StatusText(code),
		Proto: "HTTP/1.1", ProtoMajor: 1, ProtoMinor: 1,
		Header: h, Body: io.NopCloser(bytes.NewReader([]byte(body))), ContentLength: int64(len(body)), Request: r,
	}
}
