package rwsim

import (
	"context"
	"fmt"
	"log/slog"
	"math"
	"os"
	"path/filepath"
	"runtime/debug"
	"sort"
	"strings"
	"sync"
	"sync/atomic"
	"testing"
	"time"

	"github.com/prometheus/client_golang/prometheus"
	dto "github.com/prometheus/client_model/go"
	"github.com/prometheus/common/model"

	"github.com/prometheus/prometheus/config"
	"github.com/prometheus/prometheus/model/exemplar"
	"github.com/prometheus/prometheus/model/histogram"
	"github.com/prometheus/prometheus/model/labels"
	"github.com/prometheus/prometheus/model/metadata"
	"github.com/prometheus/prometheus/model/value"
	"github.com/prometheus/prometheus/storage"
	"github.com/prometheus/prometheus/storage/remote"
	"github.com/prometheus/prometheus/tsdb"
	"github.com/prometheus/prometheus/tsdb/wlog"
	"github.com/prometheus/prometheus/util/compression"

	"verif/sim/core/prng"
	"verif/sim/core/runner"
	"verif/sim/core/sched"
	"verif/sim/model/histgen"
	"verif/sim/model/rwmodel"
)

var debugOn = os.Getenv("VERIF_DEBUG") != ""

// kfEmptySeries was the tag of the finding "remote write 1.0 request rebuilt twice by the age filter contains empty
// time series" (storage/remote/queue_manager.go, sendSamplesWithBackoff/buildTimeSeries), repaired in /repo; its
// minimised plan is in regress/rwsim and the loss is reported as an ordinary violation should it return.
const kfEmptySeries = "rw1-age-retry-empty-series"

func scratchRoot() string {
	base := os.Getenv("VERIF_SCRATCH")
	if base == "" {
		base = "/dev/shm/verif-sim"
	}
	return filepath.Join(base, fmt.Sprintf("p%d", os.Getpid()))
}

// keepReg is a prometheus.Registerer that never forgets a collector: QueueManager.Stop unregisters its metrics, the
// oracle still wants to read the final counter values afterwards.
type keepReg struct {
	mu   sync.Mutex
	cols []prometheus.Collector
}

func (r *keepReg) Register(c prometheus.Collector) error {
	r.mu.Lock()
	r.cols = append(r.cols, c)
	r.mu.Unlock()
	return nil
}

func (r *keepReg) MustRegister(cs ...prometheus.Collector) {
	for _, c := range cs {
		_ = r.Register(c)
	}
}

func (r *keepReg) Unregister(prometheus.Collector) bool { return true }

// gather sums every sample of every registered collector by "name{label=value,...}" and by bare name.
func (r *keepReg) gather() map[string]float64 {
	r.mu.Lock()
	cols := append([]prometheus.Collector(nil), r.cols...)
	r.mu.Unlock()
	out := map[string]float64{}
	for _, c := range cols {
		ch := make(chan prometheus.Metric, 256)
		done := make(chan struct{})
		var ms []prometheus.Metric
		go func() {
			for m := range ch {
				ms = append(ms, m)
			}
			close(done)
		}()
		c.Collect(ch)
		close(ch)
		<-done
		for _, m := range ms {
			var d dto.Metric
			if err := m.Write(&d); err != nil {
				continue
			}
			desc := m.Desc().String() // Desc{fqName: "...", ...}
			name := desc
			if i := strings.Index(desc, `fqName: "`); i >= 0 {
				rest := desc[i+len(`fqName: "`):]
				name = rest[:strings.Index(rest, `"`)]
			}
			var v float64
			switch {
			case d.Counter != nil:
				v = d.Counter.GetValue()
			case d.Gauge != nil:
				v = d.Gauge.GetValue()
			default:
				continue
			}
			var ls []string
			for _, lp := range d.Label {
				if lp.GetName() == "remote_name" || lp.GetName() == "url" || lp.GetName() == "consumer" {
					continue
				}
				ls = append(ls, lp.GetName()+"="+lp.GetValue())
			}
			out[name] += v
			if len(ls) > 0 {
				out[name+"{"+strings.Join(ls, ",")+"}"] += v
			}
		}
	}
	return out
}

// logHandler keeps warnings and errors of the system under test (diagnostics only).
type logHandler struct {
	e *exec
}

func (h logHandler) Enabled(_ context.Context, l slog.Level) bool {
	return debugOn || l >= slog.LevelWarn
}
func (h logHandler) Handle(_ context.Context, r slog.Record) error {
	var sb strings.Builder
	sb.WriteString(r.Level.String() + " " + r.Message)
	r.Attrs(func(a slog.Attr) bool {
		fmt.Fprintf(&sb, " %s=%v", a.Key, a.Value)
		return true
	})
	h.e.mu.Lock()
	if len(h.e.logs) < 200 {
		h.e.logs = append(h.e.logs, fmt.Sprintf("%d %s", time.Now().UnixMilli()-h.e.epochMs, sb.String()))
	}
	h.e.mu.Unlock()
	if debugOn {
		fmt.Printf("LOG %d [%s] %s\n", time.Now().UnixMilli()-h.e.epochMs, h.e.myName(), sb.String())
	}
	return nil
}
func (h logHandler) WithAttrs([]slog.Attr) slog.Handler { return h }
func (h logHandler) WithGroup(string) slog.Handler      { return h }

type serState struct {
	idx   int
	in    map[string]string
	lset  labels.Labels
	keep  bool
	key   string // canonical output label set
	ref   storage.SeriesRef
	last  int64 // newest in-order timestamp
	lastX int64 // newest exemplar timestamp
	hist  histgen.State
	meta  string
	kinds map[int]int // commit number -> sample kind used in it
}

type enqKey struct {
	ref  uint64
	t    int64
	kind int
}

// outItem is a Must item not yet seen at the endpoint.
type outItem struct {
	key string
	it  rwmodel.Item
	ref uint64
}

type exec struct {
	t    *testing.T
	prop string
	plan *Plan
	cfg  Config
	res  *runner.Result
	rng  *prng.R

	root, dir    string
	s            *sched.Sched
	schedRunning atomic.Bool
	ioYield      atomic.Bool

	mu                sync.Mutex
	names             map[uint64]string
	shardGen          map[int]int
	queueName         map[any]string
	flushGen          map[string]int
	watcherGen, gcGen int
	logs              []string
	protoErrs         []string
	junk              []string
	counters          map[string]int64

	db    *tsdb.DB
	reg   *keepReg
	q     *remote.SimQueue
	ep    *endpoint
	model *rwmodel.Model
	ser   []*serState
	byRef map[uint64]*serState

	epochMs  int64 // fake time at the start of the run
	started  bool
	stopped  bool
	t0Ms     int64 // QueueManager.Start() was called
	tailMs   int64 // the watcher began tailing
	tailing  atomic.Bool
	doneCh   chan struct{}
	valCtr   uint64
	mintCtr  int64
	commitNo int
	opIdx    int

	// observations from passive hooks (under mu)
	enq        map[enqKey]int  // hand-overs to a shard per (ref, timestamp, kind)
	wrote      map[enqKey]int  // Must items written per (ref, timestamp, kind): one commit may log two samples of one series at one timestamp
	ageOK      map[string]bool // "class@T" of samples the queue dropped as too old, validated
	ageByRef   map[enqKey]bool
	ageRetry   int64
	rebuilt    map[string]bool // sender -> its current request was rebuilt by the age filter
	selCtr     map[string]uint64
	phaseTc    int64 // creation time of the checkpoint ticker of the watcher's current watch() call
	watcherSeg int
	restarts   int
	hardShut   int
	resharding bool
	pending    []outItem         // Must items not yet accepted by the endpoint (writer task only)
	pendingMay []outItem         // May items not (yet) accepted by the endpoint (writer task only)
	refOf      map[string]uint64 // "key id" -> series ref the item was appended with
	prodLo     [3]int64          // per class (samples, histograms, exemplars): items certainly handed to the queue
	prodHi     [3]int64          // ... plus items possibly handed to it
	violated   bool
}

func (e *exec) count(name string, n int64) {
	e.mu.Lock()
	e.counters[name] += n
	e.mu.Unlock()
}

func (e *exec) countL(name string, n int64) { e.counters[name] += n }

func (e *exec) nowMs() int64 { return time.Now().UnixMilli() }

func (e *exec) fail(oracle, sig, format string, a ...any) {
	e.res.Violate(e.prop, oracle, sig, format, a...)
	e.violated = true
}

func classOf(kind int) string {
	switch kind {
	case rwmodel.Float:
		return "sample"
	case rwmodel.Exemplar:
		return "exemplar"
	}
	return "histogram"
}

// onEvent receives the passive hooks.
func (e *exec) onEvent(name string, kv ...any) {
	switch name {
	case "sim.select":
		e.selectOrder()
	case "sim.task":
		e.taskEvent(kv)
	case "shards.enqueue.ok":
		st := kv[2].(int) // seriesType: 0 sample 1 exemplar 2 histogram 3 float histogram
		kind := []int{rwmodel.Float, rwmodel.Exemplar, rwmodel.Hist, rwmodel.FHist}[st]
		e.mu.Lock()
		e.enq[enqKey{kv[0].(uint64), kv[1].(int64), kind}]++
		e.mu.Unlock()
	case "shards.enqueue.softShutdown":
		e.count("enqueue_refused_soft_shutdown", 1)
	case "qm.reshard.begin":
		e.mu.Lock()
		e.resharding = true
		e.countL("reshards_executed", 1)
		if e.ep != nil && (e.ep.inflight > 0 || len(e.ep.chains) > 0) {
			e.countL("reshard_while_batch_in_flight", 1)
		}
		e.mu.Unlock()
	case "qm.reshard.end":
		e.mu.Lock()
		e.resharding = false
		e.mu.Unlock()
	case "wlog.Watcher.Run.tailing":
		e.mu.Lock()
		e.watcherSeg = kv[0].(int)
		e.mu.Unlock()
		if !e.tailing.Load() {
			e.tailMs = e.nowMs()
			e.tailing.Store(true)
		}
	case "wlog.Watcher.Run.nextSegment":
		e.mu.Lock()
		e.watcherSeg = kv[0].(int)
		e.countL("segment_rotation_while_tailing", 1)
		e.mu.Unlock()
	case "wlog.Watcher.gc.checkpointRead":
		e.count("checkpoint_read_while_tailing", 1)
	case "wlog.Watcher.loop.restart":
		e.mu.Lock()
		e.restarts++
		e.mu.Unlock()
	case "shards.stop.hardShutdown":
		e.mu.Lock()
		e.hardShut++
		e.mu.Unlock()
	case "qm.tooOld", "qm.tooOld.retry":
		// The queue reports that it drops something because of the age limit. The report excuses the item only if
		// it really is older than the limit right now.
		var class string
		var ts int64
		var ref uint64
		if name == "qm.tooOld" {
			class, ref, ts = kv[0].(string), kv[1].(uint64), kv[2].(int64)
		} else {
			class, ts = kv[0].(string), kv[1].(int64)
		}
		now := e.nowMs()
		me := e.myName()
		e.mu.Lock()
		defer e.mu.Unlock()
		if name == "qm.tooOld.retry" {
			e.rebuilt[me] = true
		}
		if e.cfg.AgeLimitMs <= 0 || ts >= now-e.cfg.AgeLimitMs {
			if !e.violated {
				e.fail("age-limit", "dropped-young-"+class, "the queue dropped a %s with timestamp %d as too old at %d although the age limit is %d ms (age %d ms)", class, ts, now, e.cfg.AgeLimitMs, now-ts)
			}
			return
		}
		if name == "qm.tooOld" {
			e.ageByRef[enqKey{ref, ts, map[string]int{"sample": 0, "exemplar": 1, "histogram": 2}[class]}] = true
			e.countL("dropped_too_old_at_append", 1)
		} else {
			e.ageOK[fmt.Sprintf("%s@%d", class, ts)] = true
			e.ageRetry++
			e.countL("dropped_too_old_on_retry", 1)
		}
	}
}

// selectOrder makes the choice among several ready cases of the select that follows a function of the plan: the
// state of the runtime's per-thread generator is replaced by a value derived from (seed, goroutine name, ordinal).
func (e *exec) selectOrder() {
	name := e.myName()
	e.mu.Lock()
	n := e.selCtr[name]
	e.selCtr[name] = n + 1
	e.mu.Unlock()
	setSelectOrder(prng.Derive(prng.DeriveS(e.cfg.SchedSeed, name), n)) // last action: nothing may run between this and the select
}

func seriesLabels(i int) map[string]string {
	return map[string]string{"__name__": fmt.Sprintf("m%d", i%3), "id": fmt.Sprintf("%d", i), "grp": fmt.Sprintf("g%d", i%4), "tmp": "t"}
}

func ms(d int64) string { return fmt.Sprintf("%dms", d) }

// configYAML renders the plan's configuration as a Prometheus configuration file: the queue is configured through
// the same loader and validation as in production.
func (e *exec) configYAML() string {
	c := e.cfg
	var sb strings.Builder
	if len(c.Ext) > 0 {
		sb.WriteString("global:\n  external_labels:\n")
		for _, l := range c.Ext {
			fmt.Fprintf(&sb, "    %s: %q\n", l[0], l[1])
		}
	}
	sb.WriteString("remote_write:\n- url: http://endpoint.sim/api/v1/write\n  name: sim\n")
	fmt.Fprintf(&sb, "  remote_timeout: %s\n", ms(c.TimeoutMs))
	fmt.Fprintf(&sb, "  send_exemplars: %v\n  send_native_histograms: %v\n", c.Exemplars, c.Histograms)
	if c.Proto == 2 {
		sb.WriteString("  protobuf_message: io.prometheus.write.v2.Request\n")
	} else {
		sb.WriteString("  protobuf_message: prometheus.WriteRequest\n")
	}
	sb.WriteString("  metadata_config:\n    send: false\n")
	sb.WriteString("  queue_config:\n")
	fmt.Fprintf(&sb, "    capacity: %d\n    min_shards: %d\n    max_shards: %d\n    max_samples_per_send: %d\n", c.Capacity, c.MinShards, c.MaxShards, c.MSS)
	fmt.Fprintf(&sb, "    batch_send_deadline: %s\n    min_backoff: %s\n    max_backoff: %s\n    retry_on_http_429: %v\n", ms(c.DeadlineMs), ms(c.MinBackMs), ms(c.MaxBackMs), c.RetryOn429)
	if c.AgeLimitMs > 0 {
		fmt.Fprintf(&sb, "    sample_age_limit: %s\n", ms(c.AgeLimitMs))
	}
	if len(c.Rules) > 0 {
		sb.WriteString("  write_relabel_configs:\n")
		for _, r := range c.Rules {
			switch r.Action {
			case "drop", "keep":
				fmt.Fprintf(&sb, "  - action: %s\n    source_labels: [%s]\n    regex: %q\n", r.Action, r.Source, strings.Join(r.Values, "|"))
			case "labeldrop":
				fmt.Fprintf(&sb, "  - action: labeldrop\n    regex: %q\n", strings.Join(r.Values, "|"))
			case "replace":
				fmt.Fprintf(&sb, "  - action: replace\n    target_label: %s\n    replacement: %q\n", r.Target, r.Replacement)
			}
		}
	}
	return sb.String()
}

func (e *exec) openDB() {
	opts := tsdb.DefaultOptions()
	opts.WALSegmentSize = 32 * 1024
	switch e.cfg.WALComp {
	case "snappy":
		opts.WALCompression = compression.Snappy
	case "zstd":
		opts.WALCompression = compression.Zstd
	}
	opts.HeadChunksWriteQueueSize = 0
	opts.OutOfOrderTimeWindow = e.cfg.OOOMs
	opts.EnableExemplarStorage = true
	opts.MaxExemplars = 10000
	opts.NoLockfile = true
	opts.BlockReloadInterval = 100000 * time.Hour // DB.run only sleeps: no second goroutine touches the head
	db, err := tsdb.Open(e.dir, slog.New(logHandler{e}), nil, opts, nil)
	if err != nil {
		panic(fmt.Sprintf("harness: tsdb.Open: %v", err))
	}
	db.DisableCompactions()
	e.db = db
}

type notifier struct{ e *exec }

// Notify is what remote.Storage.Notify does for every queue.
func (n notifier) Notify() {
	if n.e.q != nil && n.e.started && !n.e.stopped {
		n.e.q.SimNotify()
	}
}

func (e *exec) startQueue() {
	cfg, err := config.Load(e.configYAML(), slog.New(logHandler{e}))
	if err != nil {
		panic(fmt.Sprintf("harness: config.Load: %v\n%s", err, e.configYAML()))
	}
	rw := cfg.RemoteWriteConfigs[0]
	wc, err := remote.NewWriteClient(rw.Name, &remote.ClientConfig{
		URL:              rw.URL,
		WriteProtoMsg:    rw.ProtobufMessage,
		Timeout:          rw.RemoteTimeout,
		HTTPClientConfig: rw.HTTPClientConfig,
		Headers:          rw.Headers,
		RetryOnRateLimit: rw.QueueConfig.RetryOnRateLimit,
	})
	if err != nil {
		panic(fmt.Sprintf("harness: NewWriteClient: %v", err))
	}
	e.ep = newEndpoint(e)
	wc.(*remote.Client).Client.Transport = e.ep // the real Client.Store builds the request and maps the answer
	e.q = remote.NewQueueManagerForSim(remote.SimQueueOptions{
		Reg: e.reg, Logger: slog.New(logHandler{e}), Dir: e.dir,
		QueueConfig: rw.QueueConfig, MetadataConfig: rw.MetadataConfig,
		ExternalLabels: cfg.GlobalConfig.ExternalLabels, RelabelConfigs: rw.WriteRelabelConfigs,
		Client: wc, FlushDeadline: time.Duration(e.cfg.FlushMs) * time.Millisecond,
		SendExemplars: rw.SendExemplars, SendNativeHistograms: rw.SendNativeHistograms,
		ProtoMsg: rw.ProtobufMessage,
	})
	// samples written before the start carry timestamps <= t0
	var maxT int64
	for _, st := range e.ser {
		if st.last > maxT {
			maxT = st.last
		}
	}
	for e.nowMs() <= maxT {
		time.Sleep(time.Millisecond)
	}
	e.t0Ms = e.nowMs()
	e.started = true
	e.q.Start()
	e.count("fault:start", 1)
	// "after the queue started": the watcher has listed the WAL and begun tailing
	for {
		e.s.Yield("writer@writer")
		if e.tailing.Load() {
			break
		}
		time.Sleep(time.Millisecond)
	}
	time.Sleep(time.Millisecond)
	e.s.Yield("writer@writer")
	if e.cfg.IOYield {
		e.ioYield.Store(true)
	}
	// what WriteStorage.run does
	e.s.Go("ticker", func() {
		e.register("ticker")
		for {
			e.selectOrder()
			select {
			case <-e.doneCh:
				e.s.Yield("ticker@ticker")
				return
			case <-time.After(remote.SimShardUpdateDuration):
				e.s.Yield("ticker@ticker")
				e.q.SimTick()
			}
		}
	})
}

func metaOf(v int) metadata.Metadata {
	return []metadata.Metadata{
		{Type: model.MetricTypeCounter, Help: "help a", Unit: "seconds"},
		{Type: model.MetricTypeGauge, Help: "help b", Unit: ""},
		{Type: model.MetricTypeHistogram, Help: "", Unit: "bytes"},
	}[v%3]
}

func metaStr(m metadata.Metadata) string { return fmt.Sprintf("%s|%s|%s", m.Type, m.Help, m.Unit) }

const noMeta = "unknown||"

// requirement of a sample per the statement: written after the queue started (the watcher is tailing), timestamp
// after the queue's start time, series kept, type enabled for remote write.
func (e *exec) requirement(kind int, t int64, custom bool) int {
	if kind == rwmodel.Exemplar {
		if !e.cfg.Exemplars {
			return rwmodel.MustNot
		}
		if !e.started {
			return rwmodel.May
		}
		return rwmodel.Must
	}
	if kind != rwmodel.Float && !e.cfg.Histograms {
		return rwmodel.MustNot
	}
	if !e.started || t <= e.t0Ms {
		return rwmodel.MustNot
	}
	if t <= e.tailMs {
		return rwmodel.May // the queue's start time lies somewhere between Start() and the first tailing step
	}
	return rwmodel.Must
}

func (e *exec) doCommit(o Op) {
	app := e.db.Appender(context.Background())
	now := e.nowMs()
	e.commitNo++
	type pend struct {
		st *serState
		it rwmodel.Item
	}
	var pends []pend
	var n, maxT int64
	for _, sm := range o.S {
		st := e.ser[sm.S%len(e.ser)]
		kind := sm.K
		if k, ok := st.kinds[e.commitNo]; ok && k != kind {
			kind = k // one sample kind per series and commit (the WAL orders records of one commit by type)
		}
		st.kinds = map[int]int{e.commitNo: kind}
		var t int64
		if sm.OOO {
			t = now + sm.Off
		} else {
			t = now + sm.Off
			if t <= st.last {
				t = st.last + 1
			}
		}
		e.valCtr++
		var ref storage.SeriesRef
		var err error
		it := rwmodel.Item{Kind: kind, T: t, Op: e.opIdx}
		custom := false
		switch kind {
		case rwmodel.Float:
			v := float64(e.valCtr)
			if sm.Stale {
				v = math.Float64frombits(value.StaleNaN)
			}
			ref, err = app.Append(st.ref, st.lset, t, v)
			it.Val = floatVal(v)
		default:
			hr := prng.New(prng.Derive(e.cfg.Seed, 0x4157, e.valCtr))
			h, fh := st.hist.Next(hr, sm.HM, float64(e.valCtr), kind == rwmodel.FHist)
			if h != nil {
				custom = h.Schema == histogram.CustomBucketsSchema
				it.Val = histVal(h)
			} else {
				custom = fh.Schema == histogram.CustomBucketsSchema
				it.Val = fhistVal(fh)
			}
			ref, err = app.AppendHistogram(st.ref, st.lset, t, h, fh)
		}
		if err != nil {
			e.count("append_rejected", 1)
			if debugOn {
				fmt.Printf("append rejected series %d t=%d: %v\n", st.idx, t, err)
			}
			continue
		}
		if ref != st.ref {
			if st.ref != 0 {
				e.count("series_recreated", 1)
				st.meta = noMeta
			}
			st.ref = ref
			e.byRef[uint64(ref)] = st
		}
		if t > st.last {
			st.last = t
		}
		if t > maxT {
			maxT = t
		}
		n++
		it.Req = e.requirement(kind, t, false)
		if it.Req == rwmodel.Must && custom && e.cfg.Proto == 1 {
			it.Req = rwmodel.Excluded // remote write 1.0 cannot carry custom-bucket histograms: handed to the queue, dropped there
			e.count("nhcb_with_v1", 1)
			e.prodHi[1]++
		}
		if e.cfg.Proto == 2 {
			it.Meta = st.meta
		}
		pends = append(pends, pend{st, it})
		if sm.Ex {
			xt := t
			if xt <= st.lastX {
				xt = st.lastX + 1
			}
			e.valCtr++
			ex := exemplar.Exemplar{Labels: labels.FromStrings("trace_id", fmt.Sprintf("t%d", e.valCtr)), Value: float64(e.valCtr), Ts: xt, HasTs: true}
			if _, err := app.AppendExemplar(ref, st.lset, ex); err != nil {
				e.count("exemplar_rejected", 1)
			} else {
				st.lastX = xt
				xi := rwmodel.Item{Kind: rwmodel.Exemplar, T: xt, Val: exVal(ex.Labels, ex.Value), Op: e.opIdx, Req: e.requirement(rwmodel.Exemplar, xt, false)}
				if e.cfg.Proto == 2 {
					xi.Meta = st.meta
				}
				pends = append(pends, pend{st, xi})
				n++
			}
		}
	}
	if err := app.Commit(); err != nil {
		panic(fmt.Sprintf("harness: commit failed: %v", err))
	}
	for _, p := range pends {
		// What the watcher hands to the queue (kept series or not): the counter identity is about these. Only items
		// of kept series are awaited before Stop, so only they are certain to have been handed over.
		ci := map[int]int{rwmodel.Float: 0, rwmodel.Hist: 1, rwmodel.FHist: 1, rwmodel.Exemplar: 2}[p.it.Kind]
		switch p.it.Req {
		case rwmodel.Must:
			if p.st.keep {
				e.prodLo[ci]++
			}
			e.prodHi[ci]++
		case rwmodel.May:
			if e.started || p.it.Kind == rwmodel.Exemplar {
				e.prodHi[ci]++
			}
		}
		if !p.st.keep {
			e.count("samples_of_dropped_series", 1)
			continue
		}
		e.model.Add(p.st.key, p.it)
		e.refOf[p.st.key+" "+p.it.ID()] = uint64(p.st.ref)
		switch p.it.Req {
		case rwmodel.Must:
			e.pending = append(e.pending, outItem{p.st.key, p.it, uint64(p.st.ref)})
			e.wrote[enqKey{uint64(p.st.ref), p.it.T, p.it.Kind}]++
		case rwmodel.May:
			e.pendingMay = append(e.pendingMay, outItem{p.st.key, p.it, uint64(p.st.ref)})
		}
	}
	if e.started && n > 0 {
		e.q.SimSamplesIn(n, maxT) // what the fanout's timestampTracker does on Commit
	}
	e.count("commits", 1)
}

func (e *exec) doMeta(o Op) {
	st := e.ser[o.N%len(e.ser)]
	if st.ref == 0 {
		return
	}
	m := metaOf(o.V)
	app := e.db.Appender(context.Background())
	if _, err := app.UpdateMetadata(st.ref, st.lset, m); err != nil {
		_ = app.Rollback()
		// the series was garbage-collected from the head
		e.count("meta_rejected", 1)
		return
	}
	if err := app.Commit(); err != nil {
		panic(fmt.Sprintf("harness: metadata commit failed: %v", err))
	}
	st.meta = metaStr(m)
	e.count("metadata_updates", 1)
}

func (e *exec) watcherSegment() int {
	g := e.reg.gather()
	return int(g["prometheus_wal_watcher_current_segment"])
}

// outstandingMay: items that may still be delivered (exemplars written before the start, samples stamped between
// Start() and the first tailing step) and have not been so far.
func (e *exec) outstandingMay() []outItem {
	e.mu.Lock()
	defer e.mu.Unlock()
	keep := e.pendingMay[:0]
	for _, p := range e.pendingMay {
		if !e.ep.delivered[p.key+" "+p.it.ID()] {
			keep = append(keep, p)
		}
	}
	e.pendingMay = keep
	return keep
}

func (e *exec) canonicalLog() map[string][]rwmodel.Got {
	e.mu.Lock()
	defer e.mu.Unlock()
	out := make(map[string][]rwmodel.Got, len(e.ep.log))
	for k, v := range e.ep.log {
		out[k] = v
	}
	return out
}

// excusedL (e.mu held): the item may legitimately be missing - its request was answered with a non-recoverable
// status, or the queue reported (and the harness validated) that it dropped it because of the age limit.
func (e *exec) excusedL(key string, it rwmodel.Item) bool {
	id := key + " " + it.ID()
	if e.ep.rejected[id] {
		return true
	}
	if e.ageOK[fmt.Sprintf("%s@%d", classOf(it.Kind), it.T)] {
		return true
	}
	cls := map[string]int{"sample": 0, "exemplar": 1, "histogram": 2}[classOf(it.Kind)]
	return e.ageByRef[enqKey{e.refOf[id], it.T, cls}]
}

func (e *exec) excused(key string, it rwmodel.Item) bool {
	e.mu.Lock()
	defer e.mu.Unlock()
	return e.excusedL(key, it)
}

// outstanding drops delivered and excused items from the pending list and returns what is left (writer task only).
func (e *exec) outstanding() []outItem {
	e.mu.Lock()
	defer e.mu.Unlock()
	keep := e.pending[:0]
	for _, p := range e.pending {
		if e.ep.delivered[p.key+" "+p.it.ID()] || e.excusedL(p.key, p.it) || e.ep.junkRejected[p.key+" "+p.it.ID()] {
			continue
		}
		keep = append(keep, p)
	}
	e.pending = keep
	return keep
}

// doTrunc is Head.Truncate: it always cuts a new WAL segment and, with >= 3 older segments, checkpoints the lower two
// thirds and deletes them. Assumption (a): only segments strictly older than the watcher's current segment are removed.
func (e *exec) doTrunc(o Op) {
	head := e.db.Head()
	walDir := filepath.Join(e.dir, "wal")
	wait := 0
	for {
		first, last, err := wlog.Segments(walDir)
		if err != nil {
			panic(fmt.Sprintf("harness: Segments: %v", err))
		}
		cpLast := first + (last-1-first)*2/3
		if !e.started || last-1 < 0 || cpLast <= first {
			break // no checkpoint will be taken
		}
		if seg := e.watcherSegment(); seg > cpLast {
			break
		}
		wait++
		if wait > 10 {
			e.count("trunc_skipped_watcher_behind", 1)
			return
		}
		time.Sleep(50 * time.Millisecond)
		e.s.Yield("writer@writer")
	}
	e.mintCtr++
	mint := e.epochMs - 1_000_000_000 + e.mintCtr
	if o.N == 1 {
		m := e.nowMs() - o.Ms
		if e.started {
			// assumption (d): the head garbage-collects a series only after everything written for it has been delivered
			for _, p := range e.outstanding() {
				if p.it.T <= m {
					m = p.it.T - 1
				}
			}
			for _, p := range e.outstandingMay() {
				if p.it.T <= m {
					m = p.it.T - 1
				}
			}
		}
		if m > mint && m > head.MinTime()-1 {
			mint = m
			e.count("gc_truncations", 1)
		}
	}
	before := head.NumSeries()
	if err := head.Truncate(mint); err != nil {
		panic(fmt.Sprintf("harness: Head.Truncate: %v", err))
	}
	if after := head.NumSeries(); after < before {
		e.count("series_garbage_collected", int64(before-after))
	}
	e.count("truncations", 1)
}

// allOutstandingEnqueued: every undelivered Must item has been handed to a shard (steering for the Stop-with-pending variant).
func (e *exec) allOutstandingEnqueued() bool {
	items := e.outstanding()
	if len(items) == 0 {
		return false
	}
	e.mu.Lock()
	defer e.mu.Unlock()
	for _, p := range items {
		if k := (enqKey{p.ref, p.it.T, p.it.Kind}); e.enq[k] < e.wrote[k] {
			return false
		}
	}
	return true
}

func (e *exec) runWriter() {
	for i, o := range e.plan.Ops {
		e.opIdx = i
		if debugOn {
			fmt.Printf("OP %d @%d %s ms=%d n=%d samples=%d\n", i, e.nowMs()-e.epochMs, o.K, o.Ms, o.N, len(o.S))
		}
		switch o.K {
		case "commit":
			e.doCommit(o)
		case "sleep":
			time.Sleep(time.Duration(o.Ms) * time.Millisecond)
		case "trunc":
			e.doTrunc(o)
		case "meta":
			e.doMeta(o)
		case "start":
			if !e.started {
				e.startQueue()
			}
		case "reshard":
			if e.started {
				// like calculateDesiredShards, a reshard request stays within [min_shards, max_shards]
				n := o.N
				if n < e.cfg.MinShards {
					n = e.cfg.MinShards
				}
				if n > e.cfg.MaxShards {
					n = e.cfg.MaxShards
				}
				if e.q.SimReshard(n) {
					e.count("fault:reshard", 1)
				} else {
					e.count("reshard_refused_busy", 1)
				}
			}
		default:
			panic("harness: unknown op " + o.K)
		}
		e.s.Yield("writer@writer")
	}
	e.ioYield.Store(false)
	if e.started {
		e.drainAndStop()
	}
	close(e.doneCh)
}

func (e *exec) drainAndStop() {
	c := e.cfg
	f := c.Faults
	// faults are over
	if end := e.t0Ms + f.UntilMs; e.nowMs() < end {
		time.Sleep(time.Duration(end-e.nowMs()) * time.Millisecond)
		e.s.Yield("writer@writer")
	}
	out := e.outstanding()
	retry := c.MaxBackMs
	if ra := int64(f.RetryAfterS) * 1000; ra > retry {
		retry = ra
	}
	// Liveness: after the last fault everything is delivered within a generous multiple of (BatchSendDeadline +
	// MaxBackoff), plus the watcher's read timeout (a skipped write notification is picked up by its 15 s read ticker)
	// and the time to push the backlog through.
	bound := 10*(c.DeadlineMs+retry) + 2*15000 + 10000 + int64(len(out))*(c.TimeoutMs/10+5)
	tq := e.nowMs()
	live := true
	polls := 0
	for {
		e.s.Yield("writer@writer")
		out = e.outstanding()
		if len(out) == 0 {
			break
		}
		if c.StopPending && e.allOutstandingEnqueued() {
			e.count("stop_with_pending_data", 1)
			break
		}
		if e.nowMs()-tq > bound {
			live = false
			e.mu.Lock()
			logs := strings.Join(e.logs, "\n")
			e.mu.Unlock()
			e.fail("liveness", "not-delivered-after-faults", "%d items still undelivered %d ms after the last fault (bound %d ms), first: {%s} %s\nlogs:\n%s", len(out), e.nowMs()-tq, bound, out[0].key, out[0].it.ID(), logs)
			break
		}
		polls++
		if polls < 400 {
			time.Sleep(5 * time.Millisecond)
		} else {
			time.Sleep(100 * time.Millisecond)
		}
	}
	e.res.SimTimeMs = e.nowMs() - e.epochMs
	ts := e.nowMs()
	e.q.Stop()
	e.stopped = true
	e.s.Yield("writer@writer")
	if d := e.nowMs() - ts; live && d > c.FlushMs+2000 {
		e.fail("liveness", "stop-exceeds-flush-deadline", "QueueManager.Stop took %d ms, flush deadline %d ms", d, c.FlushMs)
	}
	e.count("fault:stop", 1)
}

// Execute runs one plan. Must be called inside a synctest bubble.
func Execute(t *testing.T, prop string, plan *Plan) (res *runner.Result) {
	res = &runner.Result{Counters: map[string]int64{}}
	e := &exec{t: t, prop: prop, plan: plan, cfg: plan.Cfg, res: res,
		names: map[uint64]string{}, shardGen: map[int]int{}, queueName: map[any]string{}, flushGen: map[string]int{},
		counters: map[string]int64{}, byRef: map[uint64]*serState{}, refOf: map[string]uint64{}, enq: map[enqKey]int{}, wrote: map[enqKey]int{}, rebuilt: map[string]bool{}, selCtr: map[string]uint64{}, ageOK: map[string]bool{}, ageByRef: map[enqKey]bool{},
		doneCh: make(chan struct{}), reg: &keepReg{}, model: rwmodel.New()}
	e.epochMs = e.nowMs()
	e.root = filepath.Join(scratchRoot(), fmt.Sprintf("rw%x", plan.Cfg.Seed))
	os.RemoveAll(e.root)
	e.dir = filepath.Join(e.root, "data")
	if err := os.MkdirAll(e.dir, 0o777); err != nil {
		panic("harness: " + err.Error())
	}
	defer func() {
		os.RemoveAll(e.root)
		os.Remove(scratchRoot()) // leaves nothing behind once the last run of this process is over
	}()
	for i := 0; i < e.cfg.NSeries; i++ {
		in := seriesLabels(i)
		st := &serState{idx: i, in: in, lset: labels.FromMap(in), meta: noMeta}
		out, keep := rwmodel.Relabel(in, e.cfg.Ext, e.cfg.Rules)
		st.keep = keep
		if keep {
			st.key = rwmodel.Key(out)
		}
		e.ser = append(e.ser, st)
	}
	theHook.set(e)
	defer theHook.set(nil)
	e.s = sched.New(e.cfg.SchedSeed, e.cfg.Policy)
	e.s.MaxSteps = 2_000_000
	e.s.KeepTrace = debugOn || os.Getenv("VERIF_TRACEFILE") != ""

	defer func() {
		if r := recover(); r != nil {
			msg := fmt.Sprint(r)
			if strings.HasPrefix(msg, "harness:") {
				panic(r)
			}
			panic(fmt.Sprintf("harness: unexpected panic on the root goroutine: %v\n%s", r, debug.Stack()))
		}
	}()

	e.openDB()
	e.db.SetWriteNotified(notifier{e})
	var taskPanic any
	var taskStack string
	e.s.Go("writer", func() {
		e.register("writer")
		defer func() {
			if r := recover(); r != nil {
				taskPanic, taskStack = r, string(debug.Stack())
				e.s.Stop()
			}
		}()
		e.runWriter()
	})
	e.schedRunning.Store(true)
	err := e.s.Run(nil)
	e.schedRunning.Store(false)
	steps := e.s.Steps()
	e.s.Stop()
	if taskPanic != nil {
		panic(fmt.Sprintf("harness: writer task panicked: %v\n%s", taskPanic, taskStack))
	}
	if err != nil {
		panic(fmt.Sprintf("harness: scheduler: %v", err))
	}
	if steps >= e.s.MaxSteps {
		panic("harness: scheduler step cap reached")
	}
	if cerr := e.db.Close(); cerr != nil {
		panic(fmt.Sprintf("harness: db close: %v", cerr))
	}
	e.finalChecks(steps)
	if tf := os.Getenv("VERIF_TRACEFILE"); tf != "" {
		_ = os.WriteFile(tf, []byte(strings.Join(e.s.Trace, "\n")+"\n"+res.Trace+"\n"), 0o644)
	}
	return res
}

func (e *exec) finalChecks(steps int) {
	res := e.res
	defer func() {
		e.mu.Lock()
		for k, v := range e.counters {
			res.Count(k, v)
		}
		e.mu.Unlock()
	}()
	res.Count("sched_steps", int64(steps))
	if e.started {
		res.Count("requests", int64(e.ep.reqs))
		res.Count("retransmitted_after_lost_response", e.ep.dupLost)
	}
	tr := fmt.Sprintf("%016x", e.s.TraceHash())
	if e.started {
		// the canonical trace: interleaving id + the endpoint's accepted log
		var sb strings.Builder
		keys := make([]string, 0, len(e.ep.log))
		for k := range e.ep.log {
			keys = append(keys, k)
		}
		sort.Strings(keys)
		for _, k := range keys {
			sb.WriteString(k)
			for _, g := range e.ep.log[k] {
				fmt.Fprintf(&sb, " %s#%d@%d", g.ID(), g.Op, g.At)
			}
			sb.WriteByte('\n')
		}
		tr += fmt.Sprintf(" reqs=%d log=%016x sim=%d", e.ep.reqs, prng.DeriveS(1, sb.String()), res.SimTimeMs)
	}
	res.Key = tr
	// the canonical trace additionally carries every counter and the verdict
	cks := make([]string, 0, len(e.counters))
	for k := range e.counters {
		cks = append(cks, k)
	}
	sort.Strings(cks)
	for _, k := range cks {
		tr += fmt.Sprintf(" %s=%d", k, e.counters[k])
	}
	defer func() {
		for _, v := range res.Violations {
			res.Trace += " V:" + v.Class()
		}
	}()
	res.Trace = tr
	if !e.started {
		res.Sample = map[string]any{"note": "plan without a start op"}
		return
	}
	log := e.canonicalLog()
	var nitems int64
	for _, v := range log {
		nitems += int64(len(v))
	}
	res.Evals = nitems + int64(e.model.NMustNot) + 1
	var lostToJunk []string
	for _, f := range e.model.Check(log, func(key string, it rwmodel.Item) bool {
		if e.excused(key, it) {
			return true
		}
		if e.ep.junkRejected[key+" "+it.ID()] {
			lostToJunk = append(lostToJunk, "{"+key+"} "+it.ID())
			return true
		}
		return false
	}) {
		e.fail(f.Oracle, f.Sig, "%s", f.Detail)
	}
	if len(lostToJunk) > 0 {
		// (Formerly the listed finding rw1-age-retry-empty-series, repaired in /repo: a retried 1.0 request rebuilt twice
		// by the age filter carried label-less time series; the receiver answered 400 and the still-young samples of the
		// batch were lost.)
		e.fail("missing", "lost-to-a-request-with-empty-time-series", "%d samples within the age limit were never accepted by the endpoint because their request carried time series without labels and was answered with 400: %s\nmalformed requests: %s",
			len(lostToJunk), strings.Join(lostToJunk, ", "), strings.Join(e.junk, "; "))
	}
	for _, p := range e.protoErrs {
		e.fail("protocol", "protocol", "%s", p)
		break
	}
	if e.restarts > 0 {
		// Outside assumption (a)/(b): the watcher hit an error and restarted with a new start time.
		e.fail("watcher", "watcher-restarted", "the WAL watcher restarted %d times although no segment it had not read was removed and the WAL was not damaged\nlogs:\n%s", e.restarts, strings.Join(e.logs, "\n"))
	}
	if e.hardShut > 0 {
		e.fail("liveness", "hard-shutdown", "shards were hard shut down %d times (flush deadline %d ms) although every injected failure recovers within the flush deadline\nlogs:\n%s", e.hardShut, e.cfg.FlushMs, strings.Join(e.logs, "\n"))
	}
	// counters: received + failed + dropped == produced
	g := e.reg.gather()
	e.checkCounters(g, log)

	nfault := int64(0)
	for k, v := range e.counters {
		if strings.HasPrefix(k, "fault:send-") && k != "fault:send-latency" {
			nfault += v
		}
	}
	res.NonTrivial = e.model.NMust >= 10 && e.ep.reqs >= 3 && (e.counters["reshards_executed"] > 0 || nfault > 0 || e.counters["truncations"] > 0)
	// a readable excerpt of the case: configuration, the first operations, the head of one accepted per-series log
	nops := len(e.plan.Ops)
	if nops > 10 {
		nops = 10
	}
	var logHead []string
	for _, st := range e.ser {
		if st.keep && len(log[st.key]) > 0 {
			for i, g := range log[st.key] {
				if i >= 6 {
					break
				}
				logHead = append(logHead, fmt.Sprintf("req#%d@%dms %s", g.Op, g.At-e.t0Ms, g.ID()))
			}
			logHead = append([]string{"{" + st.key + "}"}, logHead...)
			break
		}
	}
	res.Sample = map[string]any{
		"config": e.cfg, "first_ops": e.plan.Ops[:nops], "n_ops": len(e.plan.Ops), "accepted_log_head": logHead,
		"proto": e.cfg.Proto, "shards": []int{e.cfg.MinShards, e.cfg.MaxShards}, "max_samples_per_send": e.cfg.MSS, "capacity": e.cfg.Capacity,
		"series": e.cfg.NSeries, "must_items": e.model.NMust, "must_not_items": e.model.NMustNot, "requests": e.ep.reqs,
		"send_failures": nfault, "reshards": e.counters["reshards_executed"], "truncations": e.counters["truncations"],
		"sim_ms": res.SimTimeMs, "steps": steps, "policy": e.cfg.Policy.Kind,
	}
}

// checkCounters: per class, items handed to the queue == accepted by the endpoint + failed + dropped (public counters).
func (e *exec) checkCounters(g map[string]float64, log map[string][]rwmodel.Got) {
	if e.violated {
		return
	}
	e.mu.Lock()
	retryAged := e.ageRetry
	e.mu.Unlock()
	if retryAged > 0 {
		// Age filtering on retry counts a sample as dropped once per rebuilt request (and, with confirmed response
		// statistics, also as failed): the identity is only claimed without it.
		e.count("counter_identity_skipped_retry_aging", 1)
		return
	}
	var recv [3]int64
	for _, v := range log {
		for _, it := range v {
			switch it.Kind {
			case rwmodel.Float:
				recv[0]++
			case rwmodel.Exemplar:
				recv[2]++
			default:
				recv[1]++
			}
		}
	}
	// May items (written between Start() and the first tailing step, pre-start exemplars, 1.0 custom buckets) make
	// "produced" uncertain: lower bound = Must items, upper bound = Must + May items, both including dropped series.
	type cls struct {
		name            string
		failed, dropped string
		i               int
	}
	for _, c := range []cls{{"samples", "prometheus_remote_storage_samples_failed_total", "prometheus_remote_storage_samples_dropped_total", 0},
		{"histograms", "prometheus_remote_storage_histograms_failed_total", "prometheus_remote_storage_histograms_dropped_total", 1},
		{"exemplars", "prometheus_remote_storage_exemplars_failed_total", "prometheus_remote_storage_exemplars_dropped_total", 2}} {
		failed, dropped := int64(g[c.failed]), int64(g[c.dropped])
		unintentional := int64(g[c.dropped+"{reason=unintentional_dropped_series}"])
		got := recv[c.i] + failed + dropped - e.ep.appliedRejected[c.i]
		lo, hi := e.prodLo[c.i], e.prodHi[c.i]
		e.res.Evals++
		if unintentional > 0 {
			e.fail("counters", "unintentional-drop-"+c.name, "%d %s were dropped for series the queue did not know (not dropped by relabeling)", unintentional, c.name)
			return
		}
		if got < lo || got > hi {
			e.fail("counters", "identity-"+c.name, "%s: accepted by the endpoint %d + failed %d + dropped %d - applied by an attempt whose response was lost and then rejected %d = %d, but between %d and %d were handed to the queue",
				c.name, recv[c.i], failed, dropped, e.ep.appliedRejected[c.i], got, lo, hi)
			return
		}
		if !e.cfg.NonRecov && failed != 0 && len(e.junk) == 0 {
			e.fail("counters", "failed-without-nonrecoverable-"+c.name, "%d %s counted as failed although no non-recoverable answer was given", failed, c.name)
			return
		}
	}
}
