package rwsim

import (
	"fmt"
	"runtime"
	"unsafe"
)

// Go's select picks among several ready cases with the per-thread generator runtime.cheaprand, which cannot be
// seeded. A deterministic simulation has to own that choice: right before every multi-case select of the system
// under test a passive hook ("sim.select") calls setSelectOrder, which overwrites the generator state of the
// current thread (m.cheaprand) with a value derived from the run's seed, so that the poll order of the select
// that follows is a function of the plan. Nothing else in the runtime's behaviour is touched.
//
// The field is found through g.m (offset 0x30 on amd64, "offset known to liblink") and m.cheaprand, whose offset
// is calibrated at start-up: runtime.cheaprand (wyrand) adds a known constant to exactly that word. If the
// calibration fails (another toolchain) the binary refuses to run (harness error), it never guesses.

func getg() uintptr

//go:linkname runtimeCheaprand runtime.cheaprand
func runtimeCheaprand() uint32

const (
	gmOffset     = 0x30
	wyrandAdd    = 0xa0761d6478bd642f
	cheapOffHint = 0x668 // go1.25.10 linux/amd64
)

var cheapOff uintptr

func mptr() uintptr { return *(*uintptr)(unsafe.Pointer(getg() + gmOffset)) }

func tryOffset(off uintptr) bool {
	p := (*uint64)(unsafe.Pointer(mptr() + off))
	before := *p
	runtimeCheaprand()
	return *p-before == wyrandAdd
}

func init() {
	runtime.LockOSThread()
	defer runtime.UnlockOSThread()
	ok := func(off uintptr) bool {
		for i := 0; i < 4; i++ {
			if !tryOffset(off) {
				return false
			}
		}
		return true
	}
	if ok(cheapOffHint) {
		cheapOff = cheapOffHint
	} else {
		for off := uintptr(0x500); off < 0x800; off += 8 {
			if ok(off) {
				cheapOff = off
				break
			}
		}
	}
	if cheapOff == 0 {
		panic("harness: cannot locate runtime.m.cheaprand with this toolchain (" + runtime.Version() + "); select order would not be reproducible")
	}
	// self-check: a written state must produce the wyrand output for it
	p := (*uint64)(unsafe.Pointer(mptr() + cheapOff))
	*p = 12345
	s := uint64(12345) + wyrandAdd
	hi, lo := mul64(s, s^0xe7037ed1a0b428db)
	if got := runtimeCheaprand(); got != uint32(hi^lo) {
		panic(fmt.Sprintf("harness: runtime.cheaprand self-check failed: %x != %x", got, uint32(hi^lo)))
	}
}

func mul64(x, y uint64) (hi, lo uint64) {
	const mask32 = 1<<32 - 1
	x0, x1 := x&mask32, x>>32
	y0, y1 := y&mask32, y>>32
	w0 := x0 * y0
	t := x1*y0 + w0>>32
	w1, w2 := t&mask32, t>>32
	w1 += x0 * y1
	hi = x1*y1 + w2 + w1>>32
	lo = x * y
	return
}

// setSelectOrder fixes the poll order of the next select executed by the calling goroutine.
//
//go:nosplit
func setSelectOrder(v uint64) {
	*(*uint64)(unsafe.Pointer(mptr() + cheapOff)) = v
}
