package scrapesim

import (
	"bytes"
	"compress/gzip"
	"encoding/binary"
	"fmt"
	"math"
	"sort"
	"strconv"
	"strings"

	dto "github.com/prometheus/prometheus/prompb/io/prometheus/client"

	sm "verif/sim/model/scrapemodel"
)

// Everything in this file is the simulated target's side: it renders what a (possibly misbehaving) exporter would
// send. It is trusted in the sense that a rendering mistake shows as a false alarm, not as a missed defect (the
// model works on the structured samples, the real parsers on the rendered bytes).

func contentType(f string) string {
	switch f {
	case "prom004":
		return "text/plain; version=0.0.4; charset=utf-8"
	case "prom100":
		return "text/plain; version=1.0.0; escaping=allow-utf-8"
	case "om100":
		return "application/openmetrics-text; version=1.0.0; charset=utf-8"
	case "om001":
		return "application/openmetrics-text; version=0.0.1; charset=utf-8"
	case "proto":
		return "application/vnd.google.protobuf; proto=io.prometheus.client.MetricFamily; encoding=delimited"
	}
	panic("harness: unknown format " + f)
}

// fmtOfFallback maps a fallback_scrape_protocol to the body format the target must use when it sends an unusable
// Content-Type and still wants to be understood.
func fmtOfFallback(fb string) string {
	switch fb {
	case "PrometheusText0.0.4":
		return "prom004"
	case "PrometheusText1.0.0":
		return "prom100"
	case "OpenMetricsText1.0.0":
		return "om100"
	case "OpenMetricsText0.0.1":
		return "om001"
	case "PrometheusProto":
		return "proto"
	}
	return ""
}

func escLabelValue(v string) string {
	v = strings.ReplaceAll(v, `\`, `\\`)
	v = strings.ReplaceAll(v, "\"", `\"`)
	v = strings.ReplaceAll(v, "\n", `\n`)
	return v
}

func fmtValue(bits uint64) string {
	f := math.Float64frombits(bits)
	switch {
	case math.IsNaN(f):
		return "NaN"
	case math.IsInf(f, 1):
		return "+Inf"
	case math.IsInf(f, -1):
		return "-Inf"
	}
	return strconv.FormatFloat(f, 'g', -1, 64)
}

func isLegacyName(s string) bool {
	if s == "" {
		return false
	}
	for i, b := range s {
		if !((b >= 'a' && b <= 'z') || (b >= 'A' && b <= 'Z') || b == '_' || b == ':' || (b >= '0' && b <= '9' && i > 0)) {
			return false
		}
	}
	return true
}

func seriesText(s *sm.Sample) string {
	var sb strings.Builder
	ls := append(sm.Labels(nil), s.Labels...)
	sort.Slice(ls, func(i, j int) bool { return ls[i].N < ls[j].N })
	if s.Form == 1 {
		for i, j := 0, len(ls)-1; i < j; i, j = i+1, j-1 {
			ls[i], ls[j] = ls[j], ls[i]
		}
	}
	quotedName := !isLegacyName(s.Name)
	if !quotedName {
		sb.WriteString(s.Name)
	}
	if len(ls) > 0 || quotedName {
		sb.WriteByte('{')
		first := true
		if quotedName {
			sb.WriteString(strconv.Quote(s.Name))
			first = false
		}
		for _, l := range ls {
			if !first {
				sb.WriteByte(',')
			}
			first = false
			if isLegacyName(l.N) && !strings.Contains(l.N, ":") {
				sb.WriteString(l.N)
			} else {
				sb.WriteString(strconv.Quote(l.N))
			}
			sb.WriteString(`="`)
			sb.WriteString(escLabelValue(l.V))
			sb.WriteByte('"')
		}
		sb.WriteByte('}')
	}
	return sb.String()
}

const garbageLine = "7&- this is not an exposition line {{{\n"

// renderText renders a Prometheus text or OpenMetrics body. breakAt >= 0 inserts an unparsable line before sample
// number breakAt; noEOF leaves out the OpenMetrics terminator.
func renderText(f string, samples []sm.Sample, meta bool, breakAt int, noEOF bool) []byte {
	om := f == "om100" || f == "om001"
	var b bytes.Buffer
	typed := map[string]bool{}
	for i := range samples {
		s := &samples[i]
		if i == breakAt {
			b.WriteString(garbageLine)
		}
		if meta && !typed[s.Name] && isLegacyName(s.Name) {
			typed[s.Name] = true
			fmt.Fprintf(&b, "# HELP %s help text of %s\n", s.Name, s.Name)
			if om {
				fmt.Fprintf(&b, "# TYPE %s unknown\n", s.Name)
			} else {
				fmt.Fprintf(&b, "# TYPE %s untyped\n", s.Name)
			}
		}
		b.WriteString(seriesText(s))
		b.WriteByte(' ')
		b.WriteString(fmtValue(s.Val))
		if s.HasTS {
			b.WriteByte(' ')
			if om {
				if s.TS%1000 != 0 {
					panic("harness: OpenMetrics timestamps are rendered in whole seconds")
				}
				b.WriteString(strconv.FormatInt(s.TS/1000, 10))
			} else {
				b.WriteString(strconv.FormatInt(s.TS, 10))
			}
		}
		b.WriteByte('\n')
	}
	if breakAt >= len(samples) {
		b.WriteString(garbageLine)
	}
	if om && !noEOF {
		b.WriteString("# EOF\n")
	}
	return b.Bytes()
}

func spansOf(m map[int32]int64) ([]dto.BucketSpan, []int64) {
	var idx []int
	for i, c := range m {
		if c != 0 {
			idx = append(idx, int(i))
		}
	}
	sort.Ints(idx)
	var spans []dto.BucketSpan
	var deltas []int64
	prev := int64(0)
	for n, i := range idx {
		c := m[int32(i)]
		if n > 0 && idx[n-1] == i-1 {
			spans[len(spans)-1].Length++
		} else {
			off := int32(i)
			if n > 0 {
				off = int32(i - idx[n-1] - 1)
			}
			spans = append(spans, dto.BucketSpan{Offset: off, Length: 1})
		}
		deltas = append(deltas, c-prev)
		prev = c
	}
	return spans, deltas
}

// renderProto renders a delimited protobuf body; breakAt >= 0 inserts bytes that cannot be decoded.
func renderProto(samples []sm.Sample, meta bool, breakAt int) []byte {
	var b bytes.Buffer
	for i := 0; i < len(samples); i++ {
		s := &samples[i]
		if i == breakAt {
			b.Write([]byte{0x0a, 0xff, 0xff, 0xff, 0xff, 0x0f, 0x01})
		}
		if s.Group > 0 {
			// the samples of one classic histogram travel as one message
			j := i
			for j < len(samples) && samples[j].Group == s.Group && samples[j].Src == s.Src {
				j++
			}
			writeDelimited(&b, classicFamily(samples[i:j], meta))
			i = j - 1
			continue
		}
		mf := dto.MetricFamily{Name: s.Name}
		if meta {
			mf.Help = "help text of " + s.Name
		}
		m := dto.Metric{}
		for _, l := range s.Labels {
			m.Label = append(m.Label, dto.LabelPair{Name: l.N, Value: l.V})
		}
		if i%3 == 1 {
			for x, y := 0, len(m.Label)-1; x < y; x, y = x+1, y-1 {
				m.Label[x], m.Label[y] = m.Label[y], m.Label[x]
			}
		}
		if s.HasTS {
			m.TimestampMs = s.TS
		}
		if s.Hist != nil {
			h := s.Hist
			mf.Type = dto.MetricType_HISTOGRAM
			if h.Gauge {
				mf.Type = dto.MetricType_GAUGE_HISTOGRAM
			}
			ph := &dto.Histogram{SampleCount: h.Count, SampleSum: h.Sum, Schema: h.Schema, ZeroThreshold: h.ZeroTh, ZeroCount: h.Zero}
			ph.PositiveSpan, ph.PositiveDelta = spansOf(h.Pos)
			ph.NegativeSpan, ph.NegativeDelta = spansOf(h.Neg)
			if len(ph.PositiveSpan) == 0 && len(ph.NegativeSpan) == 0 && h.ZeroTh == 0 && h.Zero == 0 {
				// a native histogram without any bucket needs a no-op span to be recognised as native
				ph.PositiveSpan = []dto.BucketSpan{{Offset: 0, Length: 0}}
			}
			m.Histogram = ph
		} else if !s.PU {
			mf.Type = dto.MetricType_GAUGE
			m.Gauge = &dto.Gauge{Value: math.Float64frombits(s.Val)}
		} else {
			mf.Type = dto.MetricType_UNTYPED
			m.Untyped = &dto.Untyped{Value: math.Float64frombits(s.Val)}
		}
		mf.Metric = []dto.Metric{m}
		writeDelimited(&b, &mf)
	}
	if breakAt >= len(samples) {
		b.Write([]byte{0x0a, 0xff, 0xff, 0xff, 0xff, 0x0f, 0x01})
	}
	return b.Bytes()
}

func writeDelimited(b *bytes.Buffer, mf *dto.MetricFamily) {
	raw, err := mf.Marshal()
	if err != nil {
		panic("harness: marshal metric family: " + err.Error())
	}
	var lb [binary.MaxVarintLen64]byte
	n := binary.PutUvarint(lb[:], uint64(len(raw)))
	b.Write(lb[:n])
	b.Write(raw)
}

// classicFamily folds the expanded samples of one classic histogram (count, sum, finite buckets, +Inf bucket)
// back into the protobuf message an exporter would send.
func classicFamily(ss []sm.Sample, meta bool) *dto.MetricFamily {
	base := strings.TrimSuffix(ss[0].Name, "_count")
	mf := &dto.MetricFamily{Name: base, Type: dto.MetricType_HISTOGRAM}
	if meta {
		mf.Help = "help text of " + base
	}
	m := dto.Metric{}
	for _, l := range ss[0].Labels {
		m.Label = append(m.Label, dto.LabelPair{Name: l.N, Value: l.V})
	}
	if ss[0].HasTS {
		m.TimestampMs = ss[0].TS
	}
	h := &dto.Histogram{SampleCount: uint64(math.Float64frombits(ss[0].Val)), SampleSum: math.Float64frombits(ss[1].Val)}
	for _, s := range ss[2 : len(ss)-1] {
		ub, err := strconv.ParseFloat(s.Labels.Get("le"), 64)
		if err != nil {
			panic("harness: le label: " + err.Error())
		}
		h.Bucket = append(h.Bucket, dto.Bucket{UpperBound: ub, CumulativeCount: uint64(math.Float64frombits(s.Val))})
	}
	m.Histogram = h
	mf.Metric = []dto.Metric{m}
	return mf
}

func renderBody(f string, samples []sm.Sample, meta bool, breakAt int, noEOF bool) []byte {
	if f == "proto" {
		return renderProto(samples, meta, breakAt)
	}
	return renderText(f, samples, meta, breakAt, noEOF)
}

func gzipBytes(b []byte) []byte {
	var out bytes.Buffer
	w := gzip.NewWriter(&out)
	w.Write(b)
	w.Close()
	return out.Bytes()
}

func durStr(ms int64) string { return fmt.Sprintf("%dms", ms) }

// renderConfig renders the Prometheus configuration file text for the given job versions.
func renderConfig(jobs []sm.JobCfg) string {
	var b strings.Builder
	b.WriteString("global:\n  scrape_interval: 15s\n  scrape_timeout: 10s\nscrape_configs:\n")
	q := func(s string) string { return strconv.Quote(s) }
	for _, j := range jobs {
		if j.Removed {
			continue
		}
		fmt.Fprintf(&b, "- job_name: %s\n", q(j.Name))
		fmt.Fprintf(&b, "  scrape_interval: %s\n  scrape_timeout: %s\n", durStr(j.IntervalMs), durStr(j.TimeoutMs))
		fmt.Fprintf(&b, "  honor_labels: %v\n  honor_timestamps: %v\n  track_timestamps_staleness: %v\n", j.HonorLabels, j.HonorTimestamps, j.TrackTS)
		fmt.Fprintf(&b, "  enable_compression: %v\n  extra_scrape_metrics: %v\n  scrape_native_histograms: %v\n", j.Compression, j.Extra, j.NativeHist)
		if j.SampleLimit > 0 {
			fmt.Fprintf(&b, "  sample_limit: %d\n", j.SampleLimit)
		}
		if j.LabelLimit > 0 {
			fmt.Fprintf(&b, "  label_limit: %d\n", j.LabelLimit)
		}
		if j.LabelNameLen > 0 {
			fmt.Fprintf(&b, "  label_name_length_limit: %d\n", j.LabelNameLen)
		}
		if j.LabelValueLen > 0 {
			fmt.Fprintf(&b, "  label_value_length_limit: %d\n", j.LabelValueLen)
		}
		if j.BucketLimit > 0 {
			fmt.Fprintf(&b, "  native_histogram_bucket_limit: %d\n", j.BucketLimit)
		}
		if j.BodySizeLimit > 0 {
			fmt.Fprintf(&b, "  body_size_limit: %dB\n", j.BodySizeLimit)
		}
		if j.Legacy {
			b.WriteString("  metric_name_validation_scheme: legacy\n")
		}
		if len(j.Protocols) > 0 {
			fmt.Fprintf(&b, "  scrape_protocols: [%s]\n", strings.Join(j.Protocols, ", "))
		}
		if j.Fallback != "" {
			fmt.Fprintf(&b, "  fallback_scrape_protocol: %s\n", j.Fallback)
		}
		if len(j.Relabel) > 0 {
			b.WriteString("  metric_relabel_configs:\n")
			for _, r := range j.Relabel {
				fmt.Fprintf(&b, "  - action: %s\n", r.Action)
				switch r.Action {
				case "labeldrop", "labelkeep":
					fmt.Fprintf(&b, "    regex: %s\n", q(r.Regex))
				case "labelmap":
					fmt.Fprintf(&b, "    regex: %s\n    replacement: %s\n", q(r.Regex), q(r.Repl))
				case "keepequal", "dropequal":
					fmt.Fprintf(&b, "    source_labels: [%s]\n    target_label: %s\n", strings.Join(r.Source, ", "), q(r.Target))
				case "lowercase", "uppercase":
					fmt.Fprintf(&b, "    source_labels: [%s]\n    separator: %s\n    target_label: %s\n", strings.Join(r.Source, ", "), q(r.Sep), q(r.Target))
				case "drop", "keep":
					fmt.Fprintf(&b, "    source_labels: [%s]\n    separator: %s\n    regex: %s\n", strings.Join(r.Source, ", "), q(r.Sep), q(r.Regex))
				case "replace":
					fmt.Fprintf(&b, "    source_labels: [%s]\n    separator: %s\n    regex: %s\n    target_label: %s\n    replacement: %s\n",
						strings.Join(r.Source, ", "), q(r.Sep), q(r.Regex), q(r.Target), q(r.Repl))
				default:
					panic("harness: renderConfig: action " + r.Action)
				}
			}
		}
		b.WriteString("  static_configs: []\n")
	}
	return b.String()
}
