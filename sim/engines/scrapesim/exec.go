package scrapesim

import (
	"flag"
	"fmt"
	"math"
	"os"
	"runtime"
	"sort"
	"strings"
	"testing"
	"testing/synctest"
	"time"

	"github.com/prometheus/client_golang/prometheus"
	config_util "github.com/prometheus/common/config"
	"github.com/prometheus/common/model"
	"github.com/prometheus/common/promslog"

	"github.com/prometheus/prometheus/config"
	"github.com/prometheus/prometheus/discovery/targetgroup"
	"github.com/prometheus/prometheus/scrape"
	"github.com/prometheus/prometheus/storage"

	"verif/sim/core/runner"
	sm "verif/sim/model/scrapemodel"
)

type ctrlEvent struct {
	atNs  int64
	endNs int64
	kind  string // tsets | apply | stop
	op    *Op
}

// lifetime is the harness-side record of one target incarnation (see scrapemodel.Lifetime).
type lifetime struct {
	target   int
	group    int
	startNs  int64
	closedNs int64
	endKind  string // "" (alive) | removed | reload | stop
	segs     []segment
	ivMs     int64 // scrape interval / timeout of this incarnation: fixed when the target object is created
	toMs     int64
	lt       *sm.Lifetime
	attempts []*sm.Served
	matched  int
	eorSeen  bool
}

type segment struct {
	fromNs int64
	cfg    sm.JobCfg
	eff    *sm.JobCfg
}

// cfgAt returns the scrape configuration in force for a scrape of this incarnation that starts at ns. A reload
// changes everything but scrape_interval / scrape_timeout at once; those two are properties of the target object
// (its __scrape_interval__ / __scrape_timeout__ labels) and change when the next target-set update re-creates the
// target (assumption listed in checks.json).
func (l *lifetime) cfgAt(ns int64) *sm.JobCfg {
	k := 0
	for i := range l.segs {
		if l.segs[i].fromNs <= ns {
			k = i
		}
	}
	sg := &l.segs[k]
	if sg.eff == nil {
		c := sg.cfg
		c.IntervalMs, c.TimeoutMs = l.ivMs, l.toMs
		sg.eff = &c
	}
	return sg.eff
}

// sameStoredData: two versions of a scrape config that differ only in when / how long a scrape may take and in the
// sample limit keep scraping "the same target" (its staleness state continues); any other change makes the new
// configuration a new incarnation whose predecessor ends like a removed target. (The implementation documents this
// split in scrape.reusableCache / zeroConfig; it is an assumption of the oracle, listed in checks.json.)
func sameStoredData(a, b *sm.JobCfg) bool {
	x, y := *a, *b
	x.IntervalMs, y.IntervalMs = 0, 0
	x.TimeoutMs, y.TimeoutMs = 0, 0
	x.SampleLimit, y.SampleLimit = 0, 0
	return fmt.Sprintf("%+v", x) == fmt.Sprintf("%+v", y)
}

func buildTsets(p *Plan, jobs []sm.JobCfg, present []Present) map[string][]*targetgroup.Group {
	out := map[string][]*targetgroup.Group{}
	for _, j := range jobs {
		if !j.Removed {
			out[j.Name] = []*targetgroup.Group{}
		}
	}
	for _, pr := range present {
		tp := &p.Targets[pr.T]
		if jobs[tp.Job].Removed {
			continue
		}
		g := &targetgroup.Group{Source: fmt.Sprintf("sim/%d", pr.T), Labels: model.LabelSet{}}
		g.Targets = []model.LabelSet{{model.AddressLabel: model.LabelValue(tp.Addr)}}
		if pr.G < len(tp.Groups) {
			for _, l := range tp.Groups[pr.G] {
				g.Labels[model.LabelName(l.N)] = model.LabelValue(l.V)
			}
		}
		jn := jobs[tp.Job].Name
		out[jn] = append(out[jn], g)
	}
	return out
}

type disc struct {
	kind  string
	known string
	text  string
}

type oracle struct {
	prop  string
	res   *runner.Result
	discs []disc
	keyb  strings.Builder
}

func (o *oracle) add(kind, known, format string, args ...any) {
	if len(o.discs) < 200 {
		o.discs = append(o.discs, disc{kind, known, fmt.Sprintf(format, args...)})
	}
}

func traceWanted() bool {
	f := flag.Lookup("sim.trace")
	return f != nil && f.Value.String() == "true"
}

// Execute runs one plan inside the bubble and judges it.
func Execute(t *testing.T, prop string, p *Plan) *runner.Result {
	res := &runner.Result{}
	start := time.Now()
	time.Sleep(time.Duration(p.Cfg.StartSkewNs))

	rec := newRecorder(p.Cfg.RefChurn)
	net := newSimNet(p)
	curJobs := append([]sm.JobCfg(nil), p.Jobs...)
	net.jobOf = func(t *simTarget) *sm.JobCfg { return &curJobs[t.plan.Job] } // called with net.mu held; curJobs only changes under net.mu

	curPresent := p.Initial
	net.labelsOf = func(t *simTarget) sm.Labels {
		g := 0
		for _, pr := range curPresent {
			if pr.T == t.idx {
				g = pr.G
			}
		}
		return targetLabels(curJobs[t.plan.Job].Name, t.plan, g)
	}

	opts := &scrape.Options{
		HTTPClientOptions:       []config_util.HTTPClientOption{config_util.WithDialContextFunc(net.Dial)},
		DiscoveryReloadInterval: model.Duration(time.Duration(p.Cfg.ReloadMs) * time.Millisecond),
		AppendMetadata:          p.Cfg.Metadata,
	}
	var app1 storage.Appendable
	var app2 storage.AppendableV2
	if p.Cfg.V2 {
		app2 = rec
	} else {
		app1 = rec
	}
	logger := promslog.NewNopLogger()
	mgr, err := scrape.NewManager(opts, logger, nil, app1, app2, prometheus.NewRegistry())
	if err != nil {
		panic("harness: NewManager: " + err.Error())
	}
	load := func(jobs []sm.JobCfg) *config.Config {
		c, err := config.Load(renderConfig(jobs), logger)
		if err != nil {
			panic("harness: config.Load: " + err.Error() + "\n" + renderConfig(jobs))
		}
		return c
	}
	if err := mgr.ApplyConfig(load(curJobs)); err != nil {
		panic("harness: ApplyConfig: " + err.Error())
	}
	ch := make(chan map[string][]*targetgroup.Group)
	runDone := make(chan struct{})
	go func() {
		mgr.Run(ch)
		close(runDone)
	}()

	var events []ctrlEvent
	now := func() int64 { return time.Now().UnixNano() }
	ev0 := ctrlEvent{atNs: now(), kind: "tsets", op: &Op{K: "tsets", Present: p.Initial}}
	ch <- buildTsets(p, curJobs, p.Initial)
	ev0.endNs = now()
	events = append(events, ev0)

	deadline := start.Add(time.Duration(p.Cfg.StartSkewNs) + time.Duration(p.Cfg.DurationMs)*time.Millisecond)
	for i := range p.Ops {
		op := &p.Ops[i]
		wake := time.Now().Add(time.Duration(op.AfterMs)*time.Millisecond + 131*time.Nanosecond)
		if !wake.Before(deadline) {
			break
		}
		time.Sleep(time.Until(wake))
		ev := ctrlEvent{atNs: now(), kind: op.K, op: op}
		switch op.K {
		case "tsets":
			// A scrape that is stuck connecting while its target is re-created would later be handed the new
			// loop's connection by net/http (any idle connection to the same host:port serves the oldest waiting
			// request), which mixes up which scrape got which response; the harness lets such a scrape time out first.
			if net.dialInProgress() {
				waitQuiescent(rec, net)
				ev.atNs = now()
			}
			net.mu.Lock()
			curPresent = op.Present
			net.mu.Unlock()
			ch <- buildTsets(p, curJobs, op.Present)
			res.Count("fault:target-set-change", 1)
		case "apply":
			if len(op.Jobs) != len(curJobs) {
				panic("harness: apply op must keep the job list")
			}
			// A reload while a scrape is in flight makes that one scrape use a mixture of both configurations
			// (the loops read the pool's current relabel rules when they append); which mixture is not specified
			// anywhere, so the harness reloads between scrapes.
			waitQuiescent(rec, net)
			ev.atNs = now()
			net.mu.Lock()
			curJobs = append([]sm.JobCfg(nil), op.Jobs...)
			net.mu.Unlock()
			if err := mgr.ApplyConfig(load(curJobs)); err != nil {
				panic("harness: ApplyConfig: " + err.Error())
			}
			res.Count("fault:config-reload", 1)
			// Like the discovery manager after a configuration reload, send the (unchanged) target groups again.
			ev.endNs = now()
			events = append(events, ev)
			time.Sleep(time.Duration(op.ResendMs)*time.Millisecond + 17*time.Nanosecond)
			if net.dialInProgress() {
				waitQuiescent(rec, net)
			}
			ev = ctrlEvent{atNs: now(), kind: "tsets", op: &Op{K: "tsets", Present: curPresent}}
			ch <- buildTsets(p, curJobs, curPresent)
		default:
			panic("harness: unknown op " + op.K)
		}
		ev.endNs = now()
		events = append(events, ev)
	}
	if d := time.Until(deadline); d > 0 {
		time.Sleep(d)
	}
	// Manager.Stop stops at most GOMAXPROCS scrape pools at a time, in map order; a pool that waits for a slow scrape
	// would let the pools behind it go on scraping, in an order that differs from process to process. The harness
	// therefore stops the manager between scrapes.
	waitQuiescent(rec, net)
	stopEv := ctrlEvent{atNs: now(), kind: "stop"}
	mgr.Stop()
	stopEv.endNs = now()
	events = append(events, stopEv)
	res.Count("fault:stop", 1)
	time.Sleep(time.Duration(p.Cfg.TailMs) * time.Millisecond)
	net.Close()
	<-runDone
	mgr.UnregisterMetrics()
	synctest.Wait()
	if os.Getenv("VERIF_DEBUG_GOROUTINES") != "" {
		buf := make([]byte, 1<<20)
		buf = buf[:runtime.Stack(buf, true)]
		for _, g := range strings.Split(string(buf), "\n\n") {
			if strings.Contains(g, "synctest bubble") && !strings.Contains(g, "scrapesim.Execute") && !strings.Contains(g, "synctest.Run") && !strings.Contains(g, "testingSynctestTest") {
				fmt.Println("LEFTOVER GOROUTINE:\n" + g)
			}
		}
	}
	res.SimTimeMs = time.Since(start).Milliseconds()

	judge(prop, p, res, rec, net, events)
	return res
}

// quiescent reports whether every scrape attempt the targets have seen has been reported to storage.
func quiescent(rec *recorder, net *simNet) bool {
	net.mu.Lock()
	attempts := 0
	for _, t := range net.targets {
		attempts += len(t.log)
	}
	net.mu.Unlock()
	rec.mu.Lock()
	defer rec.mu.Unlock()
	return rec.open == 0 && rec.reports == attempts
}

func waitQuiescent(rec *recorder, net *simNet) {
	for i := 0; !quiescent(rec, net); i++ {
		if i > 200000 {
			panic("harness: scrapes never quiesce")
		}
		time.Sleep(11*time.Millisecond + 7*time.Nanosecond)
	}
}

func isFloatKind(k string) bool { return k == "f" || k == "h" || k == "fh" }

func judge(prop string, p *Plan, res *runner.Result, rec *recorder, net *simNet, events []ctrlEvent) {
	o := &oracle{prop: prop, res: res}
	stopNs := events[len(events)-1].atNs
	stopEndNs := events[len(events)-1].endNs
	reloadNs := p.Cfg.ReloadMs * 1e6

	if os.Getenv("VERIF_DEBUG_DUMP") != "" {
		for _, ev := range events {
			fmt.Printf("EVENT %s at %s end %s\n", ev.kind, fmtNs(ev.atNs), fmtNs(ev.endNs))
		}
		for addr, st := range net.targets {
			for _, sv := range st.log {
				fmt.Printf("ATTEMPT %s #%d at %s class=%s fault=%s\n", addr, sv.K, fmtNs(sv.AtNs), sv.Class, sv.Fault)
			}
		}
	}
	// ---- lifetimes from the control events
	perTarget := make([][]*lifetime, len(p.Targets))
	open := map[int]*lifetime{}
	jobs := append([]sm.JobCfg(nil), p.Jobs...)
	for _, ev := range events {
		switch ev.kind {
		case "tsets":
			want := map[int]int{}
			for _, pr := range ev.op.Present {
				want[pr.T] = pr.G
			}
			for t := range p.Targets {
				l := open[t]
				g, ok := want[t]
				cur := jobs[p.Targets[t].Job]
				if cur.Removed {
					ok = false
				}
				if l != nil && (!ok || g != l.group || cur.IntervalMs != l.ivMs || cur.TimeoutMs != l.toMs) {
					l.endKind, l.closedNs = "removed", ev.atNs
					delete(open, t)
					l = nil
					if ok {
						res.Count("fault:target-recreated-by-label-change", 1)
					} else {
						res.Count("fault:target-removed", 1)
					}
				}
				if l == nil && ok {
					nl := &lifetime{target: t, group: g, startNs: ev.atNs, lt: sm.NewLifetime(), ivMs: cur.IntervalMs, toMs: cur.TimeoutMs, segs: []segment{{fromNs: ev.atNs, cfg: cur}}}
					open[t] = nl
					perTarget[t] = append(perTarget[t], nl)
				}
			}
		case "apply":
			for t := range p.Targets {
				l := open[t]
				if l == nil {
					continue
				}
				j := p.Targets[t].Job
				old := &l.segs[len(l.segs)-1].cfg
				nw := ev.op.Jobs[j]
				if fmt.Sprintf("%+v", *old) == fmt.Sprintf("%+v", nw) {
					continue
				}
				if nw.Removed {
					// the job is gone from the configuration: its targets are removed
					l.endKind, l.closedNs = "job-removed", ev.atNs
					delete(open, t)
					res.Count("fault:job-removed", 1)
					continue
				}
				if sameStoredData(old, &nw) {
					l.segs = append(l.segs, segment{fromNs: ev.atNs, cfg: nw})
					continue
				}
				l.endKind, l.closedNs = "reload", ev.atNs
				nl := &lifetime{target: t, group: l.group, startNs: ev.atNs, lt: sm.NewLifetime(), ivMs: l.ivMs, toMs: l.toMs, segs: []segment{{fromNs: ev.atNs, cfg: nw}}}
				open[t] = nl
				perTarget[t] = append(perTarget[t], nl)
			}
			jobs = append([]sm.JobCfg(nil), ev.op.Jobs...)
		case "stop":
			for t, l := range open {
				l.endKind, l.closedNs = "stop", ev.atNs
				delete(open, t)
			}
		}
	}

	// ---- attempts -> lifetimes
	byAddr := map[string]int{}
	for i := range p.Targets {
		byAddr[p.Targets[i].Addr] = i
	}
	attemptsTotal := 0
	var addrs []string
	for addr := range net.targets {
		addrs = append(addrs, addr)
	}
	sort.Strings(addrs)
	for _, addr := range addrs {
		st := net.targets[addr]
		ti := byAddr[addr]
		for k, f := range st.faults {
			res.Count("fault:"+k, f)
		}
		for _, sv := range st.log {
			attemptsTotal++
			var owner *lifetime
			for _, l := range perTarget[ti] {
				if l.startNs <= sv.AtNs {
					owner = l
				}
			}
			if owner == nil {
				o.add("scrape-of-absent-target", "", "target %s was scraped at %s before it was ever part of a target set", addr, fmtNs(sv.AtNs))
				continue
			}
			owner.attempts = append(owner.attempts, sv)
			switch owner.endKind {
			case "removed":
				if sv.AtNs > owner.closedNs+reloadNs+1e6 {
					o.add("scrape-after-removal", "", "target %s scraped at %s although it was removed at %s (reload interval %dms)", addr, fmtNs(sv.AtNs), fmtNs(owner.closedNs), p.Cfg.ReloadMs)
				}
			case "stop":
				if sv.AtNs > stopEndNs {
					o.add("scrape-after-stop", "", "target %s scraped at %s after Manager.Stop returned at %s", addr, fmtNs(sv.AtNs), fmtNs(stopEndNs))
				}
			}
		}
	}

	// ---- timing of the attempts of each lifetime
	for ti := range perTarget {
		for _, l := range perTarget[ti] {
			for i, sv := range l.attempts {
				cfg := l.cfgAt(sv.AtNs)
				ivNs := cfg.IntervalMs * 1e6
				if i == 0 {
					if sv.AtNs <= l.startNs || sv.AtNs > l.startNs+reloadNs+ivNs+cfg.TimeoutMs*1e6+1e6 {
						o.add("first-scrape-time", "", "target %d: first scrape at %s, incarnation created at %s (interval %dms, reload interval %dms)", ti, fmtNs(sv.AtNs), fmtNs(l.startNs), cfg.IntervalMs, p.Cfg.ReloadMs)
					}
					continue
				}
				prev := l.attempts[i-1]
				pcfg := l.cfgAt(prev.AtNs)
				if pcfg == cfg {
					if sv.AtNs-prev.AtNs != ivNs {
						o.add("scrape-spacing", "", "target %d: scrapes at %s and %s are not one interval (%dms) apart", ti, fmtNs(prev.AtNs), fmtNs(sv.AtNs), cfg.IntervalMs)
					}
				} else if d := sv.AtNs - prev.AtNs; d <= 0 || d > pcfg.IntervalMs*1e6+ivNs {
					o.add("scrape-spacing", "", "target %d: scrapes at %s and %s across a reload (intervals %dms -> %dms)", ti, fmtNs(prev.AtNs), fmtNs(sv.AtNs), pcfg.IntervalMs, cfg.IntervalMs)
				}
			}
		}
	}

	// ---- walk the committed transactions in commit order
	var committed []*txn
	rolled := 0
	for _, tx := range rec.txns {
		switch tx.state {
		case "committed":
			committed = append(committed, tx)
		case "rolledback":
			rolled++
		default:
			o.add("appender-left-open", "", "appender opened at %s was neither committed nor rolled back", fmtNs(tx.openNs))
		}
		if tx.openNs > stopEndNs {
			o.add("write-after-stop", "", "appender opened at %s after Manager.Stop returned at %s", fmtNs(tx.openNs), fmtNs(stopEndNs))
		}
	}
	sort.Slice(committed, func(i, j int) bool { return committed[i].ord < committed[j].ord })
	res.Count("rolled_back_appenders", int64(rolled))
	res.Count("ref_churn_events", rec.churned)

	nonTrivFail, nonTrivMarkers := 0, 0
	for _, tx := range committed {
		// which target?
		ti, upIdx, nUp := -1, -1, 0
		for i := range tx.calls {
			c := &tx.calls[i]
			if c.Kind == "f" && c.Labels.Get("__name__") == "up" {
				if t, ok := byAddr[c.Labels.Get("instance")]; ok {
					ti, upIdx = t, i
					nUp++
				}
			}
		}
		if nUp != 1 {
			o.add("commit-without-report", "", "committed appender (opened %s, %d calls) has %d 'up' samples", fmtNs(tx.openNs), len(tx.calls), nUp)
			continue
		}
		up := &tx.calls[upIdx]
		if up.V == sm.StaleNaN {
			o.endOfRun(p, perTarget[ti], tx, up, stopNs)
			continue
		}
		// the scrape this report belongs to: the oldest unreported attempt of the target that started at the
		// report's timestamp (two incarnations of a target can overlap for one scrape when a target is re-created
		// while a slow scrape of the old one is still in flight)
		var l *lifetime
		for _, c := range perTarget[ti] {
			if c.matched < len(c.attempts) && c.attempts[c.matched].AtNs/1e6 == up.T {
				l = c
				break
			}
		}
		if l == nil {
			for _, c := range perTarget[ti] {
				if c.matched < len(c.attempts) {
					l = c
					break
				}
			}
		}
		if l == nil {
			o.add("commit-without-scrape", "", "target %d: report committed at %s (up@%d) without a scrape attempt", ti, fmtNs(tx.endNs), up.T)
			continue
		}
		sv := l.attempts[l.matched]
		l.matched++
		cfg := l.cfgAt(sv.AtNs)
		tl := targetLabels(cfg.Name, &p.Targets[ti], l.group)
		T := sv.AtNs / 1e6
		x := l.lt.Step(cfg, tl, sv, T)
		if x.Ambiguous {
			panic(fmt.Sprintf("harness: target %d scrape #%d: the generator produced a body whose verdict the documentation leaves open (duplicates vs limits)", ti, sv.K))
		}
		res.Evals++
		if os.Getenv("VERIF_DEBUG_DUMP") != "" {
			fmt.Printf("== target %d scrape #%d at %s class=%s fault=%s T=%d up=%v fail=%q scraped=%v post=%v added=%v\n", ti, sv.K, fmtNs(sv.AtNs), sv.Class, sv.Fault, T, x.Up, x.FailKind, x.Scraped, x.Post, x.Added)
			for _, s := range sv.Samples {
				fmt.Printf("   exposed %s%s form=%d ts=%v/%d val=%s\n", s.Name, sm.Canon(s.Labels), s.Form, s.HasTS, s.TS, descVal(s.Val, s.Hist))
			}
			for _, c := range tx.calls {
				fmt.Printf("   call %s %s t=%d v=%s rej=%v err=%v\n", c.Kind, c.Series, c.T, descVal(c.V, c.H), c.Reject, c.Err)
			}
		}
		o.compareScrape(p, ti, l, cfg, tl, sv, x, tx)
		if !x.Up {
			nonTrivFail++
			res.Count("scrapes_failed:"+x.FailKind, 1)
		} else {
			res.Count("scrapes_ok", 1)
		}
		nonTrivMarkers += len(x.Markers)
		for k, v := range x.Stats {
			res.Count(k, int64(v))
		}
		fmt.Fprintf(&o.keyb, "%d:%s:%d:%d;", ti, x.FailKind, len(x.Samples), len(x.Markers))
	}

	// ---- what must have happened but did not
	for ti := range perTarget {
		for _, l := range perTarget[ti] {
			if l.matched < len(l.attempts) {
				sv := l.attempts[l.matched]
				o.add("scrape-without-report", "", "target %d: scrape attempt %d at %s never produced a committed report", ti, sv.K, fmtNs(sv.AtNs))
			}
			if (l.endKind == "removed" || l.endKind == "reload" || l.endKind == "job-removed") && len(l.attempts) > 0 && !l.eorSeen {
				last := l.attempts[len(l.attempts)-1]
				iv := l.cfgAt(last.AtNs).IntervalMs * 1e6
				due := last.AtNs + 2*iv + iv/10
				known := ""
				if len(l.segs) > 1 && l.segs[len(l.segs)-1].fromNs > last.AtNs && l.endKind == "removed" {
					// the loop had been restarted by a reload (keeping its cache) and was removed before it scraped once
					known = KFResync
				}
				if l.endKind == "job-removed" {
					known = KFJobRemoval
				}
				if due < stopNs-1e6 {
					o.add("end-of-run-staleness-missing", known, "target %d went away (%s at %s) after its last scrape at %s; no staleness markers were written by %s (stop at %s)",
						ti, l.endKind, fmtNs(l.closedNs), fmtNs(last.AtNs), fmtNs(due), fmtNs(stopNs))
				} else {
					res.Count("end_of_run_cut_by_stop", 1)
				}
			}
		}
	}

	// ---- result bookkeeping
	res.Count("scrape_attempts", int64(attemptsTotal))
	res.Count("stale_markers_expected", int64(nonTrivMarkers))
	res.NonTrivial = res.Evals >= 10 && nonTrivFail > 0 && nonTrivMarkers > 0
	res.Key = o.keyb.String()
	res.Sample = sampleOf(p, res, attemptsTotal)
	if traceWanted() {
		res.Trace = traceOf(rec, net)
	}
	o.finish()
}

func fmtNs(ns int64) string {
	base := time.Date(2000, 1, 1, 0, 0, 0, 0, time.UTC).UnixNano()
	return fmt.Sprintf("+%.6fs", float64(ns-base)/1e9)
}

func fmtBits(v uint64) string {
	if v == sm.StaleNaN {
		return "StaleNaN"
	}
	return fmt.Sprintf("%v(%#x)", math.Float64frombits(v), v)
}

type sampleKey struct {
	series string
	t      int64
}

func (o *oracle) compareScrape(p *Plan, ti int, l *lifetime, cfg *sm.JobCfg, tl sm.Labels, sv *sm.Served, x *sm.Expect, tx *txn) {
	where := fmt.Sprintf("target %d scrape #%d at %s (%s%s)", ti, sv.K, fmtNs(sv.AtNs), sv.Class, faultSuffix(sv))
	reportIdx := map[string]string{}
	for _, n := range sm.ReportNames(true) {
		reportIdx[sm.Canon(sm.ReportLabels(n, tl))] = n
	}
	wantReports := map[string]bool{}
	for _, n := range sm.ReportNames(cfg.Extra) {
		wantReports[n] = true
	}
	gotReports := map[string]int{}
	actual := map[sampleKey]string{}
	var actualOrder []sampleKey
	markers := map[string]*call{}
	for i := range tx.calls {
		c := &tx.calls[i]
		if !isFloatKind(c.Kind) {
			if c.Kind == "stz" {
				o.add("unexpected-call", "", "%s: start-timestamp zero sample appended for %s", where, c.Series)
			}
			continue
		}
		if c.Series != c.ByLabel {
			o.add("ref-labels-mismatch", "", "%s: append with a ref of series %s but labels %s", where, c.Series, c.ByLabel)
		}
		if name, ok := reportIdx[c.Series]; ok {
			gotReports[name]++
			if !wantReports[name] {
				o.add("report-unexpected", "", "%s: report series %s written although extra_scrape_metrics is off", where, name)
				continue
			}
			if c.T != x.T {
				o.add("report-time", "", "%s: %s written at %d, scrape time is %d", where, name, c.T, x.T)
			}
			if c.Err != nil {
				o.add("report-rejected", "", "%s: %s rejected by storage: %v", where, name, c.Err)
			}
			o.checkReport(where, name, math.Float64frombits(c.V), cfg, sv, x)
			continue
		}
		if c.Kind == "f" && c.V == sm.StaleNaN {
			if c.T != x.T {
				o.add("stale-marker-time", "", "%s: staleness marker for %s at %d, scrape time is %d", where, c.Series, c.T, x.T)
			}
			if c.Behind {
				o.add("stale-marker-behind-newer-sample", "", "%s: staleness marker for %s at %d stored although the series has a newer sample", where, c.Series, c.T)
			}
			markers[c.Series] = c
			continue
		}
		if c.Err != nil {
			o.add("sample-rejected", "", "%s: sample of %s at %d rejected by storage: %v", where, c.Series, c.T, c.Err)
			continue
		}
		k := sampleKey{c.Series, c.T}
		if _, dup := actual[k]; !dup {
			actual[k] = valueKey(c.V, c.H)
			actualOrder = append(actualOrder, k)
		}
	}
	// samples
	want := map[sampleKey]string{}
	exposedNow := map[string]bool{}
	for _, s := range x.Samples {
		exposedNow[s.Series] = true
		k := sampleKey{s.Series, s.T}
		want[k] = valueKey(s.Val, s.Hist)
		got, ok := actual[k]
		switch {
		case !ok:
			o.add("sample-missing", "", "%s: exposed sample %s @%d = %s was not stored", where, s.Series, s.T, descVal(s.Val, s.Hist))
		case got != want[k]:
			o.add("sample-wrong-value", s.Known, "%s: %s @%d stored with another value than the first exposed one (%s)", where, s.Series, s.T, descVal(s.Val, s.Hist))
		}
	}
	for _, k := range actualOrder {
		if _, ok := want[k]; !ok {
			kind := "sample-unexpected"
			if !x.Up {
				kind = "sample-of-failed-scrape-stored"
			}
			o.add(kind, "", "%s: stored %s @%d, which the scrape must not store (scrape time %d, fail kind %q)", where, k.series, k.t, x.T, x.FailKind)
		}
	}
	// markers
	for _, s := range sortedKeys(x.Markers) {
		if _, ok := markers[s]; !ok {
			o.add("stale-marker-missing", x.KnownMissing[s], "%s: series %s was tracked and is not exposed any more (fail kind %q) but got no staleness marker at %d", where, s, x.FailKind, x.T)
		}
	}
	var extra []string
	for s := range markers {
		if _, ok := x.Markers[s]; !ok {
			extra = append(extra, s)
		}
	}
	sort.Strings(extra)
	for _, s := range extra {
		known := x.KnownExtra[s]
		if exposedNow[s] && markers[s].RefGone && x.MultiEntry[s] && known == "" {
			// the storage had forgotten the ref under which the series was tracked and the series came back under
			// another exposition text: listed finding
			known = KFRefKey
		}
		o.add("stale-marker-unexpected", known, "%s: staleness marker for %s at %d although the series did not just stop being exposed", where, s, x.T)
	}
	for _, n := range sm.ReportNames(cfg.Extra) {
		if gotReports[n] != 1 {
			o.add("report-count", "", "%s: report series %s written %d times", where, n, gotReports[n])
		}
	}
	_ = l
	_ = p
}

func sortedKeys(m map[string]sm.Labels) []string {
	ks := make([]string, 0, len(m))
	for k := range m {
		ks = append(ks, k)
	}
	sort.Strings(ks)
	return ks
}

func descVal(v uint64, h *sm.Hist) string {
	if h != nil {
		return "hist{" + h.Key() + "}"
	}
	return fmtBits(v)
}

func faultSuffix(sv *sm.Served) string {
	if sv.Fault == "" {
		return ""
	}
	return ", fault " + sv.Fault
}

func (o *oracle) checkReport(where, name string, v float64, cfg *sm.JobCfg, sv *sm.Served, x *sm.Expect) {
	bad := func(want string) {
		o.add("report-value:"+name, "", "%s: %s = %v, expected %s", where, name, v, want)
	}
	switch name {
	case "up":
		if (x.Up && v != 1) || (!x.Up && v != 0) {
			bad(fmt.Sprintf("%v (fail kind %q)", x.Up, x.FailKind))
		}
	case "scrape_duration_seconds":
		if math.IsNaN(v) || math.IsInf(v, 0) || v < 0 {
			bad("a finite non-negative number")
		} else if v > float64(cfg.TimeoutMs)/1000+1e-6 {
			bad(fmt.Sprintf("at most the scrape timeout %dms", cfg.TimeoutMs))
		} else if sv.DelayNs > 0 && math.Abs(v-float64(sv.DelayNs)/1e9) > 1e-6 {
			bad(fmt.Sprintf("%.6f (the target took that long on the simulated clock)", float64(sv.DelayNs)/1e9))
		}
	case "scrape_samples_scraped":
		if !x.Scraped.Has(v) {
			bad(x.Scraped.String())
		}
	case "scrape_samples_post_metric_relabeling":
		if !x.Post.Has(v) {
			bad(x.Post.String())
		}
	case "scrape_series_added":
		if !x.Added.Has(v) {
			bad(x.Added.String())
		}
	case "scrape_timeout_seconds":
		if v != float64(cfg.TimeoutMs)/1000 {
			bad(fmt.Sprint(float64(cfg.TimeoutMs) / 1000))
		}
	case "scrape_sample_limit":
		if v != float64(cfg.SampleLimit) {
			bad(fmt.Sprint(cfg.SampleLimit))
		}
	case "scrape_body_size_bytes":
		ok := false
		for _, w := range x.BodyBytes {
			if v == w {
				ok = true
			}
		}
		if !ok {
			bad(fmt.Sprint(x.BodyBytes))
		}
	}
}

func (o *oracle) endOfRun(p *Plan, ls []*lifetime, tx *txn, up *call, stopNs int64) {
	var l *lifetime
	staleMs := func(c *lifetime) int64 {
		last := c.attempts[len(c.attempts)-1]
		return (last.AtNs + c.cfgAt(last.AtNs).IntervalMs*1e6) / 1e6
	}
	for pass := 0; pass < 2 && l == nil; pass++ {
		for _, c := range ls {
			if (c.endKind == "removed" || c.endKind == "reload" || c.endKind == "job-removed") && !c.eorSeen && len(c.attempts) > 0 && (pass == 1 || staleMs(c) == up.T) {
				l = c
				break
			}
		}
	}
	if l == nil {
		o.add("end-of-run-unexpected", "", "staleness report (up=StaleNaN @%d, committed %s) for a target that did not go away", up.T, fmtNs(tx.endNs))
		return
	}
	l.eorSeen = true
	o.res.Evals++
	o.res.Count("end_of_run_txns", 1)
	ti := l.target
	last := l.attempts[len(l.attempts)-1]
	cfg := l.cfgAt(last.AtNs)
	iv := cfg.IntervalMs * 1e6
	staleNs := last.AtNs + iv
	T := staleNs / 1e6
	where := fmt.Sprintf("target %d end-of-run staleness (last scrape %s, %s at %s, written %s)", ti, fmtNs(last.AtNs), l.endKind, fmtNs(l.closedNs), fmtNs(tx.endNs))
	if l.matched < len(l.attempts) {
		o.add("end-of-run-before-last-report", "", "%s: written before the report of the last scrape", where)
	}
	if tx.endNs < staleNs+iv || tx.endNs > staleNs+2*iv {
		o.add("end-of-run-delay", "", "%s: expected between one and two intervals (%dms) after the time of the next would-be scrape %s", where, cfg.IntervalMs, fmtNs(staleNs))
	}
	tl := targetLabels(cfg.Name, &p.Targets[ti], l.group)
	reportIdx := map[string]string{}
	for _, n := range sm.ReportNames(true) {
		reportIdx[sm.Canon(sm.ReportLabels(n, tl))] = n
	}
	wantReports := map[string]bool{}
	for _, n := range sm.ReportNames(cfg.Extra) {
		wantReports[n] = true
	}
	gotReports := map[string]int{}
	want, knownExtra := l.lt.EndOfRun()
	got := map[string]bool{}
	rejected := 0
	for i := range tx.calls {
		c := &tx.calls[i]
		if !isFloatKind(c.Kind) {
			continue
		}
		if c.Series != c.ByLabel {
			o.add("ref-labels-mismatch", "", "%s: append with a ref of series %s but labels %s", where, c.Series, c.ByLabel)
		}
		if c.Kind != "f" || c.V != sm.StaleNaN {
			o.add("end-of-run-sample", "", "%s: a non-marker sample for %s", where, c.Series)
			continue
		}
		if c.T != T {
			o.add("stale-marker-time", "", "%s: marker for %s at %d, expected the next would-be scrape time %d", where, c.Series, c.T, T)
		}
		if c.Behind {
			o.add("stale-marker-behind-newer-sample", "", "%s: marker for %s at %d stored although the series has a newer sample (target re-created in time)", where, c.Series, c.T)
		}
		if c.Err != nil {
			rejected++
		}
		if n, ok := reportIdx[c.Series]; ok {
			gotReports[n]++
			if !wantReports[n] {
				o.add("report-unexpected", "", "%s: report series %s marked stale although extra_scrape_metrics is off", where, n)
			}
			continue
		}
		got[c.Series] = true
	}
	if rejected > 0 {
		o.res.Count("end_of_run_markers_rejected_target_recreated", int64(rejected))
	}
	for _, s := range sortedKeys(want) {
		if !got[s] {
			o.add("stale-marker-missing", "", "%s: tracked series %s got no staleness marker", where, s)
		}
	}
	var extra []string
	for s := range got {
		if _, ok := want[s]; !ok {
			extra = append(extra, s)
		}
	}
	sort.Strings(extra)
	for _, s := range extra {
		o.add("stale-marker-unexpected", knownExtra[s], "%s: staleness marker for %s, which was not tracked", where, s)
	}
	for _, n := range sm.ReportNames(cfg.Extra) {
		if gotReports[n] != 1 {
			o.add("report-count", "", "%s: report series %s marked stale %d times", where, n, gotReports[n])
		}
	}
	o.res.Count("stale_markers_expected", int64(len(want)))
	_ = stopNs
}

func (o *oracle) finish() {
	if len(o.discs) == 0 {
		return
	}
	kinds := map[string]bool{}
	known := map[string]bool{}
	var firstUnknown, firstKnown *disc
	for i := range o.discs {
		d := &o.discs[i]
		if d.known != "" {
			known[d.known] = true
			if firstKnown == nil {
				firstKnown = d
			}
		} else {
			k := d.kind
			if i := strings.IndexByte(k, ':'); i > 0 {
				k = k[:i]
			}
			kinds[k] = true
			if firstUnknown == nil {
				firstUnknown = d
			}
		}
	}
	join := func(m map[string]bool) string {
		var ks []string
		for k := range m {
			ks = append(ks, k)
		}
		sort.Strings(ks)
		return strings.Join(ks, "+")
	}
	var lines []string
	for i, d := range o.discs {
		if i >= 12 {
			lines = append(lines, fmt.Sprintf("... %d more", len(o.discs)-i))
			break
		}
		tag := ""
		if d.known != "" {
			tag = " [known:" + d.known + "]"
		}
		lines = append(lines, "["+d.kind+"]"+tag+" "+d.text)
	}
	if len(kinds) == 0 {
		o.res.Violate(o.prop, "scrape-history", "known:"+join(known), "%s", strings.Join(lines, "\n"))
		return
	}
	o.res.Violate(o.prop, "scrape-history", join(kinds), "%s", strings.Join(lines, "\n"))
}

func sampleOf(p *Plan, res *runner.Result, attempts int) any {
	var jobs []string
	for _, j := range p.Jobs {
		jobs = append(jobs, fmt.Sprintf("%s: interval=%dms timeout=%dms honor_labels=%v honor_timestamps=%v track_ts=%v sample_limit=%d relabel_rules=%d", j.Name, j.IntervalMs, j.TimeoutMs, j.HonorLabels, j.HonorTimestamps, j.TrackTS, j.SampleLimit, len(j.Relabel)))
	}
	var ops []string
	for _, op := range p.Ops {
		ops = append(ops, fmt.Sprintf("+%dms %s", op.AfterMs, op.K))
	}
	var first []string
	if len(p.Targets) > 0 {
		tp := &p.Targets[0]
		for k := 0; k < len(tp.Scrapes) && k < 6; k++ {
			sc := &tp.Scrapes[k]
			first = append(first, fmt.Sprintf("#%d %s lines=%d fault=%q", k, sc.Fmt, len(sc.Lines), sc.Fault))
		}
	}
	return map[string]any{
		"appender_v2": p.Cfg.V2, "targets": len(p.Targets), "jobs": jobs, "ops": ops, "duration_ms": p.Cfg.DurationMs,
		"scrape_attempts": attempts, "transactions_judged": res.Evals, "target0_first_scrapes": first, "kf": p.Cfg.KF,
	}
}

// traceOf is the canonical event trace of a run (per target, order-insensitive inside a transaction).
func traceOf(rec *recorder, net *simNet) string {
	var sb strings.Builder
	var addrs []string
	for a := range net.targets {
		addrs = append(addrs, a)
	}
	sort.Strings(addrs)
	for _, a := range addrs {
		for _, sv := range net.targets[a].log {
			fmt.Fprintf(&sb, "A %s %d %d %s %s %d %d\n", a, sv.K, sv.AtNs, sv.Class, sv.Fault, len(sv.Samples), sv.DelayNs)
		}
	}
	var txs []string
	for _, tx := range rec.txns {
		var cs []string
		for _, c := range tx.calls {
			e := ""
			if c.Err != nil {
				e = c.Err.Error()
			}
			cs = append(cs, fmt.Sprintf("%s %s %d %x %v %s", c.Kind, c.Series, c.T, c.V, c.Reject, e))
		}
		sort.Strings(cs)
		up := ""
		for _, c := range tx.calls {
			if c.Labels.Get("__name__") == "up" {
				up = c.Labels.Get("instance")
			}
		}
		txs = append(txs, fmt.Sprintf("T %s %d %d %s [%s]", up, tx.openNs, tx.endNs, tx.state, strings.Join(cs, "|")))
	}
	sort.Strings(txs)
	sb.WriteString(strings.Join(txs, "\n"))
	return sb.String()
}
