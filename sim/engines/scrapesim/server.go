package scrapesim

import (
	"bufio"
	"context"
	"errors"
	"fmt"
	"io"
	"net"
	"net/http"
	"os"
	"strings"
	"sync"
	"time"

	sm "verif/sim/model/scrapemodel"
)

// simNet is the in-bubble network: a dial function for the scrape HTTP clients and one tiny HTTP/1.1 server loop
// per accepted connection. Every attempt of a target (a dial, or a request on a kept-alive connection) consumes the
// next Scrape of the target's plan and is logged as a scrapemodel.Served.
type simNet struct {
	mu       sync.Mutex
	targets  map[string]*simTarget // by address
	conns    map[net.Conn]struct{}
	wg       sync.WaitGroup
	closed   bool
	done     chan struct{} // closed by Close
	kf       string
	jobOf    func(t *simTarget) *sm.JobCfg // job config in force (for fallback format / body size verdicts)
	labelsOf func(t *simTarget) sm.Labels  // target labels in force
}

type simTarget struct {
	idx     int
	plan    *TargetPlan
	next    int
	log     []*sm.Served
	faults  map[string]int64
	dialing int // dials that are sleeping (slow connect)
}

func newSimNet(p *Plan) *simNet {
	n := &simNet{targets: map[string]*simTarget{}, conns: map[net.Conn]struct{}{}, done: make(chan struct{}), kf: p.Cfg.KF}
	for i := range p.Targets {
		tp := &p.Targets[i]
		n.targets[tp.Addr] = &simTarget{idx: i, plan: tp, faults: map[string]int64{}}
	}
	return n
}

var debugNet = os.Getenv("VERIF_DEBUG_NET") != ""

var errRefused = &net.OpError{Op: "dial", Net: "tcp", Err: errors.New("connect: connection refused (simulated)")}

func (t *simTarget) scrapeAt(k int) *Scrape {
	if k < len(t.plan.Scrapes) {
		return &t.plan.Scrapes[k]
	}
	return &Scrape{Fmt: "prom004"} // beyond the plan: empty 200 response
}

func (n *simNet) sleepCtx(ctx context.Context, d time.Duration) error {
	if d <= 0 {
		return nil
	}
	tm := time.NewTimer(d)
	defer tm.Stop()
	select {
	case <-tm.C:
		return nil
	case <-ctx.Done():
		return ctx.Err()
	case <-n.done:
		return errRefused
	}
}

// dialHangLimit plays the role of net.Dialer.Timeout: net/http does not cancel a dial when the request that
// wanted it is cancelled, so a connection attempt to a black-holed address ends by the dialer's own timeout.
const dialHangLimit = 30 * time.Second

var errDialTimeout = &net.OpError{Op: "dial", Net: "tcp", Err: errors.New("i/o timeout (simulated)")}

// attemptInfo carries a dial-time attempt over to the first request on the new connection.
type attemptInfo struct {
	k      int
	atNs   int64
	dialNs int64
}

// Dial is installed with config.WithDialContextFunc.
func (n *simNet) Dial(ctx context.Context, network, addr string) (net.Conn, error) {
	n.mu.Lock()
	t := n.targets[addr]
	if t == nil || n.closed {
		n.mu.Unlock()
		return nil, errRefused
	}
	k := t.next
	sc := t.scrapeAt(k)
	at := time.Now().UnixNano()
	if debugNet {
		fmt.Printf("NET dial %s k=%d fault=%q at %s\n", addr, k, sc.Fault, fmtNs(at))
	}
	switch sc.Fault {
	case "dial":
		t.next++
		sv := &sm.Served{K: k, AtNs: at, Class: sm.ServedHTTPFail, Fault: sc.Fault, DelayNs: sc.DialMs * 1e6}
		t.log = append(t.log, sv)
		t.faults["scrape-dial-error"]++
		n.mu.Unlock()
		if err := n.sleepCtx(ctx, time.Duration(sc.DialMs)*time.Millisecond); err != nil {
			return nil, err
		}
		return nil, errRefused
	case "dial-hang":
		t.next++
		sv := &sm.Served{K: k, AtNs: at, Class: sm.ServedHTTPFail, Fault: sc.Fault}
		t.log = append(t.log, sv)
		t.faults["scrape-timeout"]++
		n.mu.Unlock()
		n.sleepCtx(ctx, dialHangLimit)
		return nil, errDialTimeout
	}
	t.dialing++
	n.mu.Unlock()
	err := n.sleepCtx(ctx, time.Duration(sc.DialMs)*time.Millisecond)
	n.mu.Lock()
	t.dialing--
	n.mu.Unlock()
	if err != nil {
		// the scrape gave up while connecting: that was attempt k
		n.mu.Lock()
		if t.next == k {
			t.next++
			t.log = append(t.log, &sm.Served{K: k, AtNs: at, Class: sm.ServedHTTPFail, Fault: "dial-slow", DelayNs: time.Now().UnixNano() - at})
		}
		n.mu.Unlock()
		return nil, err
	}
	cli, srv := net.Pipe()
	n.mu.Lock()
	if n.closed {
		n.mu.Unlock()
		cli.Close()
		srv.Close()
		return nil, errRefused
	}
	n.conns[srv] = struct{}{}
	n.wg.Add(1)
	n.mu.Unlock()
	go n.serve(t, srv, &attemptInfo{k: k, atNs: at, dialNs: time.Now().UnixNano() - at})
	return cli, nil
}

func (n *simNet) serve(t *simTarget, c net.Conn, first *attemptInfo) {
	defer func() {
		c.Close()
		n.mu.Lock()
		delete(n.conns, c)
		n.mu.Unlock()
		n.wg.Done()
	}()
	br := bufio.NewReader(c)
	for {
		req, err := http.ReadRequest(br)
		if err != nil {
			return
		}
		io.Copy(io.Discard, req.Body)
		req.Body.Close()
		n.mu.Lock()
		k := t.next
		at := time.Now().UnixNano()
		dialNs := int64(0)
		if first != nil && first.k == k {
			at, dialNs = first.atNs, first.dialNs
		}
		if debugNet {
			fmt.Printf("NET request %s k=%d at %s first=%v\n", t.plan.Addr, k, fmtNs(time.Now().UnixNano()), first)
		}
		first = nil
		t.next++
		sc := t.scrapeAt(k)
		job := n.jobOf(t)
		tl := n.labelsOf(t)
		sv := &sm.Served{K: k, AtNs: at, Fault: sc.Fault}
		t.log = append(t.log, sv)
		nextFault := t.scrapeAt(k + 1).Fault
		n.mu.Unlock()

		closeAfter := sc.Close || nextFault == "dial" || nextFault == "dial-hang"
		keep := n.respond(t, c, req, sc, sv, job, tl, at, dialNs, closeAfter)
		if !keep || closeAfter {
			return
		}
	}
}

func (n *simNet) count(t *simTarget, kind string) {
	n.mu.Lock()
	t.faults[kind]++
	n.mu.Unlock()
}

// respond writes the response of one attempt; false = the connection is finished.
func (n *simNet) respond(t *simTarget, c net.Conn, req *http.Request, sc *Scrape, sv *sm.Served, job *sm.JobCfg, tl sm.Labels, atNs, dialNs int64, closeAfter bool) bool {
	waitClose := func() {
		// never answer: wait until the client gives up and closes the connection
		io.Copy(io.Discard, c)
		n.mu.Lock()
		sv.DelayNs = time.Now().UnixNano() - atNs
		n.mu.Unlock()
	}
	tMs := atNs / 1e6
	f := sc.Fmt
	ct := contentType(f)
	class := sm.ServedOK
	breakAt, noEOF := -1, false
	switch sc.Fault {
	case "timeout":
		sv.Class = sm.ServedHTTPFail
		n.count(t, "scrape-timeout")
		waitClose()
		return false
	case "garbage":
		class = sm.ServedGarbage
		breakAt = sc.BreakAt // in lines; converted to a sample position below
		if breakAt > len(sc.Lines) {
			breakAt = len(sc.Lines)
		}
	case "no-eof":
		if f == "om100" || f == "om001" {
			class = sm.ServedGarbage
			breakAt, noEOF = 1<<30, true
		}
	case "bad-ct":
		ct = sc.CT
		if fb := fmtOfFallback(job.Fallback); fb != "" {
			// the scrape config names a fallback protocol: the target is understood if it speaks that format
			f = fb
		} else {
			class = sm.ServedBadFormat
		}
	}
	lines := sc.Lines
	if f != "proto" {
		// native histograms only exist in protobuf bodies: a target answering in a text format leaves them out
		lines = nil
		nb := breakAt
		for i, l := range sc.Lines {
			if l.H == nil {
				lines = append(lines, l)
			} else if breakAt >= 0 && i < breakAt && breakAt < 1<<29 {
				nb--
			}
		}
		breakAt = nb
	}
	if breakAt > len(lines) && breakAt < 1<<29 {
		breakAt = len(lines)
	}
	lineBreak := breakAt
	samples := servedSamples(t.plan, &Scrape{Fmt: f, Lines: lines}, tMs, n.kf)
	if sm.DupAmbiguous(job, tl, samples) {
		// The verdict on this body would depend on whether duplicate lines count against a limit, which the
		// documentation leaves open. Generated plans do not contain such bodies; shrunk plans may: the target
		// then sends every series once.
		seen := map[int]bool{}
		var uniq []Line
		for _, l := range lines {
			if !seen[l.S] {
				seen[l.S] = true
				uniq = append(uniq, l)
			}
		}
		lines = uniq
		if lineBreak > len(lines) && lineBreak < 1<<29 {
			lineBreak = len(lines)
		}
		samples = servedSamples(t.plan, &Scrape{Fmt: f, Lines: lines}, tMs, n.kf)
	}
	// the unparsable point as a position in the samples
	switch {
	case lineBreak < 0:
		breakAt = -1
	case lineBreak >= 1<<29:
		breakAt = len(samples)
	default:
		breakAt = sampleIndexOfLine(samples, lineBreak)
	}
	var body []byte
	if noEOF {
		body = renderText(f, samples, sc.Meta, -1, true)
	} else {
		body = renderBody(f, samples, sc.Meta, breakAt, false)
	}
	sv.Samples = samples
	sv.BreakAt = breakAt
	if noEOF {
		sv.BreakAt = len(samples)
	}
	if job.BodySizeLimit > 0 && len(body) == job.BodySizeLimit {
		// exactly body_size_limit bytes: the documentation ("larger than") and the implementation (">=") disagree
		// about this single size; the target pads its body to stay out of it
		switch {
		case f == "proto":
			body = append(body, 0x00) // an empty metric family
		case f == "om100" || f == "om001":
			if noEOF {
				body = append(body, []byte("# HELP pad pad\n")...)
			} else {
				body = append(body[:len(body)-len("# EOF\n")], []byte("# HELP pad pad\n# EOF\n")...)
			}
		default:
			body = append(body, []byte("# pad\n")...)
		}
	}
	sv.BodyLen = len(body)
	if len(body) == 0 {
		class = sm.ServedOK // an empty body has no format that could be wrong and nothing that could fail to parse
	}

	if err := sleepConn(c, time.Duration(sc.LatencyMs)*time.Millisecond); err != nil {
		sv.Class = sm.ServedHTTPFail
		sv.DelayNs = time.Now().UnixNano() - atNs
		return false
	}
	delay := dialNs + sc.LatencyMs*1e6

	status := 200
	if sc.Fault == "status" {
		status = sc.Status
		if status == 0 || status == 200 {
			status = 500
		}
	}
	wire := body
	if status == 204 || status == 304 {
		wire = nil // responses without a body
	}
	gz := false
	if sc.Gzip && strings.Contains(req.Header.Get("Accept-Encoding"), "gzip") {
		wire = gzipBytes(body)
		gz = true
	}
	if sc.Fault == "bad-gzip" {
		// claims gzip, sends something that does not even start like a gzip stream
		gz = true
		wire = append([]byte("this is not gzip\n"), body...)
	}
	var hdr strings.Builder
	fmt.Fprintf(&hdr, "HTTP/1.1 %d %s\r\n", status, http.StatusText(status))
	if ct != "" {
		fmt.Fprintf(&hdr, "Content-Type: %s\r\n", ct)
	}
	if gz {
		hdr.WriteString("Content-Encoding: gzip\r\n")
	}
	if closeAfter || sc.Fault == "trunc-cl" || sc.Fault == "trunc-chunk" || sc.Fault == "body-timeout" {
		hdr.WriteString("Connection: close\r\n")
	}
	bw := bufio.NewWriter(c)
	if status == 204 || status == 304 {
		// no body, no framing headers
		sv.Class = sm.ServedHTTPFail
		n.count(t, "scrape-5xx")
		hdr.WriteString("\r\n")
		bw.WriteString(hdr.String())
		sv.DelayNs = delay
		return bw.Flush() == nil
	}
	switch {
	case sc.Fault == "trunc-cl":
		// announces more bytes than it sends
		sv.Class = sm.ServedHTTPFail
		sv.TooLargeMaybe = job.BodySizeLimit > 0 && len(body) >= job.BodySizeLimit
		n.count(t, "scrape-truncated-body")
		fmt.Fprintf(&hdr, "Content-Length: %d\r\n\r\n", len(wire)+17)
		bw.WriteString(hdr.String())
		bw.Write(wire[:len(wire)/2])
		bw.Flush()
		sv.DelayNs = delay
		return false
	case sc.Fault == "trunc-chunk":
		sv.Class = sm.ServedHTTPFail
		sv.TooLargeMaybe = job.BodySizeLimit > 0 && len(body) >= job.BodySizeLimit
		n.count(t, "scrape-truncated-body")
		hdr.WriteString("Transfer-Encoding: chunked\r\n\r\n")
		bw.WriteString(hdr.String())
		half := wire[:len(wire)/2]
		fmt.Fprintf(bw, "%x\r\n", len(half)+5)
		bw.Write(half)
		bw.Flush()
		sv.DelayNs = delay
		return false
	case sc.Fault == "body-timeout":
		sv.Class = sm.ServedHTTPFail
		sv.TooLarge = job.BodySizeLimit > 0 && len(body) >= job.BodySizeLimit
		n.count(t, "scrape-timeout")
		fmt.Fprintf(&hdr, "Content-Length: %d\r\n\r\n", len(wire)+1)
		bw.WriteString(hdr.String())
		bw.Write(wire)
		bw.Flush()
		waitClose()
		return false
	case sc.Chunked:
		hdr.WriteString("Transfer-Encoding: chunked\r\n\r\n")
		bw.WriteString(hdr.String())
		for off := 0; off < len(wire); {
			e := off + 97
			if e > len(wire) {
				e = len(wire)
			}
			fmt.Fprintf(bw, "%x\r\n", e-off)
			bw.Write(wire[off:e])
			bw.WriteString("\r\n")
			off = e
		}
		bw.WriteString("0\r\n\r\n")
	default:
		fmt.Fprintf(&hdr, "Content-Length: %d\r\n\r\n", len(wire))
		bw.WriteString(hdr.String())
		bw.Write(wire)
	}
	err := bw.Flush()
	sv.DelayNs = delay
	switch {
	case err != nil:
		// the client had given up (scrape timeout shorter than this target's latency) and closed the connection
		sv.Class = sm.ServedHTTPFail
		sv.DelayNs = 0
		n.count(t, "scrape-timeout")
	case status != 200:
		sv.Class = sm.ServedHTTPFail
		n.count(t, "scrape-5xx")
	case sc.Fault == "bad-gzip":
		sv.Class = sm.ServedHTTPFail
		n.count(t, "scrape-bad-gzip")
	case job.BodySizeLimit > 0 && len(body) >= job.BodySizeLimit:
		if len(body) == job.BodySizeLimit {
			panic("harness: body size equals body_size_limit (documentation and implementation disagree; the generator must avoid it)")
		}
		sv.Class = sm.ServedHTTPFail
		sv.TooLarge = true
		n.count(t, "scrape-body-size-limit")
	default:
		sv.Class = class
		switch class {
		case sm.ServedGarbage:
			n.count(t, "scrape-parse-error")
		case sm.ServedBadFormat:
			n.count(t, "scrape-bad-content-type")
		}
	}
	return err == nil
}

// sleepConn sleeps on the fake clock (the connection is not watched while sleeping; a client that gives up in the
// meantime is noticed at the next write).
func sleepConn(_ net.Conn, d time.Duration) error {
	if d > 0 {
		time.Sleep(d)
	}
	return nil
}

// dialInProgress reports whether the latest attempt of some target is (or was) a connection attempt that does not
// complete at once.
func (n *simNet) dialInProgress() bool {
	n.mu.Lock()
	defer n.mu.Unlock()
	for _, t := range n.targets {
		if len(t.log) > 0 {
			if f := t.log[len(t.log)-1].Fault; f == "dial-hang" || f == "dial-slow" {
				return true
			}
		}
		if t.dialing > 0 {
			return true
		}
	}
	return false
}

// Close closes every server-side connection and waits for the server loops.
func (n *simNet) Close() {
	n.mu.Lock()
	n.closed = true
	close(n.done)
	for c := range n.conns {
		c.Close()
	}
	n.mu.Unlock()
	n.wg.Wait()
}
