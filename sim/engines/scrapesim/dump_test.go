package scrapesim

import (
	"encoding/json"
	"fmt"
	"os"
	"strconv"
	"testing"

	"verif/sim/core/runner"
)

// TestDumpPlan prints the plan of run VERIF_DUMP_RUN (debug aid).
func TestDumpPlan(t *testing.T) {
	s := os.Getenv("VERIF_DUMP_RUN")
	if s == "" {
		t.Skip()
	}
	i, _ := strconv.Atoi(s)
	tier := os.Getenv("VERIF_DUMP_TIER")
	if tier == "" {
		tier = "quick"
	}
	p := Generate("C37", tier, runner.RunSeed(1, "scrapesim", "C37", i))
	for ti := range p.Targets {
		if os.Getenv("VERIF_DUMP_FULL") == "" {
			p.Targets[ti].Scrapes = nil
		}
	}
	b, _ := json.MarshalIndent(p, "", " ")
	fmt.Println(string(b))
}
