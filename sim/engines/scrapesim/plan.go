package scrapesim

import (
	"encoding/json"
	"fmt"
	"math"
	"os"
	"sort"

	"verif/sim/core/prng"
	sm "verif/sim/model/scrapemodel"
)

// Config is the per-run (swarm) configuration of the simulation.
type Config struct {
	V2          bool  `json:"v2"`                  // scrape.NewManager gets a storage.AppendableV2 instead of a storage.Appendable
	ReloadMs    int64 `json:"reload_ms"`           // scrape.Options.DiscoveryReloadInterval
	Metadata    bool  `json:"metadata,omitempty"`  // scrape.Options.AppendMetadata
	StartSkewNs int64 `json:"start_skew_ns"`       // fake time before the manager is created
	DurationMs  int64 `json:"duration_ms"`         // Manager.Stop at this fake time after start
	TailMs      int64 `json:"tail_ms"`             // observed time after Stop
	RefChurn    []int `json:"ref_churn,omitempty"` // the recording storage forgets all series refs after these commit ordinals
	// KF: this run deliberately exercises the input pattern of a listed known finding; all other runs steer away.
	KF string `json:"kf,omitempty"`
}

// SeriesDef is one series a simulated target can expose.
type SeriesDef struct {
	Name    string    `json:"name"`
	Labels  sm.Labels `json:"labels,omitempty"`
	TS      bool      `json:"ts,omitempty"`      // exposed with explicit timestamps
	Hist    bool      `json:"hist,omitempty"`    // native histogram series (protobuf bodies only)
	Classic bool      `json:"classic,omitempty"` // classic histogram: exposed as <name>_count, <name>_sum, <name>_bucket{le=...}
}

// Classic is the value of one classic histogram line.
type Classic struct {
	Sum    float64   `json:"sum"`
	Bounds []float64 `json:"bounds"` // finite upper bounds, ascending
	Cum    []uint64  `json:"cum"`    // cumulative counts per bound
	Count  uint64    `json:"count"`  // = +Inf bucket
}

// Line is one sample line of a body.
type Line struct {
	S    int      `json:"s"`              // index into the target's series
	V    uint64   `json:"v"`              // float64 bits
	Rel  int64    `json:"rel,omitempty"`  // explicit timestamp = scrape time (ms) + Rel, when the series has explicit timestamps
	Form int      `json:"form,omitempty"` // textual variant of the identifier
	Flip bool     `json:"flip,omitempty"` // use the other timestamp mode than the series' own (known-finding runs only)
	H    *sm.Hist `json:"h,omitempty"`
	C    *Classic `json:"c,omitempty"`
}

// Scrape is what the target does on its k-th scrape attempt.
type Scrape struct {
	Fault     string `json:"fault,omitempty"` // see server.go
	Status    int    `json:"status,omitempty"`
	Fmt       string `json:"fmt"`          // prom004 | prom100 | om100 | om001 | proto
	CT        string `json:"ct,omitempty"` // Content-Type override (fault bad-ct / fallback runs)
	Gzip      bool   `json:"gzip,omitempty"`
	Chunked   bool   `json:"chunked,omitempty"`
	Close     bool   `json:"close,omitempty"` // Connection: close after the response
	Meta      bool   `json:"meta,omitempty"`  // HELP / TYPE lines
	LatencyMs int64  `json:"latency_ms,omitempty"`
	DialMs    int64  `json:"dial_ms,omitempty"`
	BreakAt   int    `json:"break_at,omitempty"` // fault garbage: number of sample lines before the unparsable line
	Lines     []Line `json:"lines,omitempty"`
}

// TargetPlan is one simulated target.
type TargetPlan struct {
	Addr    string      `json:"addr"`
	Job     int         `json:"job"`
	Groups  []sm.Labels `json:"groups"` // versions of the target group's labels
	Series  []SeriesDef `json:"series"`
	Scrapes []Scrape    `json:"scrapes"`
}

// Present is one target in a target-set update.
type Present struct {
	T int `json:"t"`
	G int `json:"g,omitempty"` // group label version
}

// Op is one control operation.
type Op struct {
	AfterMs int64       `json:"after_ms"` // fake time since the previous op (or since start)
	K       string      `json:"k"`        // tsets | apply
	Present []Present   `json:"present,omitempty"`
	Jobs    []sm.JobCfg `json:"jobs,omitempty"`
	// apply: the target groups are sent again this long after ApplyConfig returned (what the discovery manager
	// does after a configuration reload).
	ResendMs int64 `json:"resend_ms,omitempty"`
}

// Plan is everything one run does.
type Plan struct {
	Cfg     Config       `json:"cfg"`
	Jobs    []sm.JobCfg  `json:"jobs"`
	Targets []TargetPlan `json:"targets"`
	Initial []Present    `json:"initial"`
	Ops     []Op         `json:"ops,omitempty"`
}

func (p *Plan) clone() *Plan {
	b, _ := json.Marshal(p)
	var q Plan
	if err := json.Unmarshal(b, &q); err != nil {
		panic("harness: plan clone: " + err.Error())
	}
	return &q
}

const (
	KFPartial    = sm.TagPartial
	KFModeSwitch = sm.TagModeSwitch
	// KFResync: a reload that changes scrape_interval / scrape_timeout restarts the loop with its cache (the old
	// loop's end-of-run staleness is disabled), and the target-set update that follows re-creates the target
	// (its labels changed); if that happens before the restarted loop has scraped once, nobody marks the
	// series stale that vanished in between.
	KFResync      = "reload-resync-loses-staleness"
	KFUntypedZero = sm.TagUntypedZero
	// KFRefKey: the storage forgets a series ref (refs are ephemeral by contract) while the stored series has, or
	// gets, more than one scrape-cache entry (it is exposed under another text - label order, other exposition
	// format - or relabeling maps several exposed series onto it): staleness is tracked per ref, only the entry
	// that is appended follows the series to its new ref, the other entry's old ref is not seen again, and the
	// series gets a staleness marker at the very scrape at which it is stored.
	KFRefKey = "ref-forgotten-with-several-cache-entries-spurious-marker"
	// KFJobRemoval: a reload that drops a scrape job stops its pool and cancels the pool's context at once, so the
	// loops' end-of-run staleness returns without writing markers: the series of the job's targets just end.
	KFJobRemoval = "job-removal-writes-no-staleness-markers"
)

var httpFaults = []string{"dial", "dial-hang", "timeout", "body-timeout", "status", "trunc-cl", "trunc-chunk", "bad-gzip"}
var bodyFaults = []string{"garbage", "bad-ct", "no-eof"}

func fbits(f float64) uint64 {
	if math.IsNaN(f) {
		return sm.NormalNaN
	}
	return math.Float64bits(f)
}

var specialVals = []float64{0, -1, 1e-9, 1e21, math.Inf(1), math.Inf(-1), math.NaN(), -0.0, 123456789.125, 4.9e-324, math.MaxFloat64}

func genValue(r *prng.R, counter *float64) uint64 {
	switch r.Intn(10) {
	case 0:
		return fbits(specialVals[r.Intn(len(specialVals))])
	case 1, 2:
		return fbits(float64(r.Intn(2000)-1000) / 8)
	default:
		*counter += float64(r.Range(1, 50))
		return fbits(*counter)
	}
}

var namePool = []string{"m_a", "m_b", "m_c", "http_requests_total", "proc:cpu:rate", "tmp_x", "tmp_y", "queue_len", "m_long_name_for_limits", "m_a", "m_b", "m.dotted.name"}
var labelPool = []sm.Labels{
	nil,
	{{N: "x", V: "1"}},
	{{N: "x", V: "2"}},
	{{N: "x", V: "1"}, {N: "y", V: "a"}},
	{{N: "x", V: "1"}, {N: "y", V: "b"}},
	{{N: "x", V: "2"}, {N: "y", V: "a"}, {N: "z", V: "q"}},
	{{N: "job", V: "exp_job"}},
	{{N: "instance", V: "exp_inst"}, {N: "x", V: "1"}},
	{{N: "env", V: "dev"}},
	{{N: "y", V: "a\\b\"c\nd"}},
	{{N: "y", V: "UPPER"}},
	{{N: "le", V: "+Inf"}},
	{{N: "path", V: "/a/very/long/label/value/for/limit/tests"}},
	{{N: "x", V: "1"}, {N: "y", V: "a"}, {N: "z", V: "q"}, {N: "w", V: "r"}, {N: "v", V: "s"}},
	{{N: "a_rather_long_label_name", V: "1"}},
	{{N: "l.dot", V: "ü"}},
}

func genSeries(r *prng.R, n int, explicitTSRate float64, hist bool) []SeriesDef {
	seen := map[string]bool{}
	var out []SeriesDef
	for len(out) < n {
		s := SeriesDef{Name: namePool[r.Intn(len(namePool))], Labels: labelPool[r.Intn(len(labelPool))]}
		k := s.Name + sm.Canon(s.Labels)
		if seen[k] {
			continue
		}
		seen[k] = true
		s.TS = r.Chance(explicitTSRate)
		if hist && r.Chance(0.3) {
			s.Hist = true
			s.Name = "h_" + s.Name
		} else if r.Chance(0.12) && s.Labels.Get("le") == "" && isLegacyText(s.Name) {
			s.Classic = true
			s.Name = "c_" + s.Name
		}
		out = append(out, s)
	}
	return out
}

func isLegacyText(n string) bool {
	for _, c := range n {
		if c == '.' {
			return false
		}
	}
	return true
}

var classicBounds = []float64{0.5, 1, 2.5, 10}

// leText is the text of an upper bound as a le label value (the form the protobuf parser produces).
func leText(b float64) string {
	switch b {
	case 0.5:
		return "0.5"
	case 1:
		return "1.0"
	case 2.5:
		return "2.5"
	case 10:
		return "10.0"
	}
	panic("harness: unknown classic bucket bound")
}

func genClassic(r *prng.R) *Classic {
	n := r.Range(1, len(classicBounds))
	c := &Classic{Bounds: append([]float64(nil), classicBounds[:n]...)}
	cum := uint64(0)
	for i := 0; i < n; i++ {
		cum += uint64(r.Intn(6))
		c.Cum = append(c.Cum, cum)
	}
	c.Count = cum + uint64(r.Intn(4))
	c.Sum = float64(r.Intn(5000)) / 4
	return c
}

func genRelabel(r *prng.R) []sm.Relabel {
	n := r.Pick([]int{5, 3, 2, 1})
	var out []sm.Relabel
	for i := 0; i < n; i++ {
		switch r.Intn(12) {
		case 0:
			out = append(out, sm.Relabel{Action: "drop", Source: []string{"__name__"}, Sep: ";", Regex: "tmp_.*", Repl: "$1"})
		case 1:
			out = append(out, sm.Relabel{Action: "keep", Source: []string{"__name__"}, Sep: ";", Regex: "m_.*|http_.*|queue_len|h_.*", Repl: "$1"})
		case 2:
			out = append(out, sm.Relabel{Action: "drop", Source: []string{"x", "y"}, Sep: ";", Regex: "2;.*", Repl: "$1"})
		case 3:
			out = append(out, sm.Relabel{Action: "replace", Source: []string{"x"}, Sep: ";", Regex: "(.+)", Target: "x2", Repl: "v${1}"})
		case 4:
			out = append(out, sm.Relabel{Action: "replace", Source: []string{"__name__"}, Sep: ";", Regex: "m_a", Target: "__name__", Repl: "m_renamed"})
		case 5:
			out = append(out, sm.Relabel{Action: "labeldrop", Sep: ";", Regex: "y", Repl: "$1"})
		case 6:
			out = append(out, sm.Relabel{Action: "labelmap", Sep: ";", Regex: "(x|z)", Repl: "copy_$1"})
		case 7:
			out = append(out, sm.Relabel{Action: "lowercase", Source: []string{"y"}, Sep: ";", Regex: "(.*)", Target: "y_lc", Repl: "$1"})
		case 8:
			out = append(out, sm.Relabel{Action: "replace", Source: []string{"y"}, Sep: ";", Regex: ".+", Target: "y", Repl: ""})
		case 9:
			out = append(out, sm.Relabel{Action: "replace", Source: []string{"__name__", "x"}, Sep: "@", Regex: "(m_[ab])@(.+)", Target: "combined", Repl: "$2-$1"})
		case 10:
			out = append(out, sm.Relabel{Action: "dropequal", Source: []string{"x"}, Sep: ";", Regex: "(.*)", Target: "copy_x", Repl: "$1"})
		case 11:
			out = append(out, sm.Relabel{Action: "labelkeep", Sep: ";", Regex: "__name__|job|instance|x|y|le|env|exported_.*", Repl: "$1"})
		}
	}
	return out
}

func genJob(r *prng.R, name string, baseInterval int64, kf string) sm.JobCfg {
	j := sm.JobCfg{Name: name, HonorTimestamps: true}
	j.IntervalMs = baseInterval
	j.TimeoutMs = []int64{baseInterval / 4, baseInterval / 2, baseInterval * 4 / 5}[r.Intn(3)]
	// (scrape_timeout == scrape_interval is not generated: a scrape that times out then ends at the very instant
	// of the next tick, and which of the two the loop's select sees first when it is being stopped is a coin flip
	// of the Go runtime, i.e. not replayable)
	j.HonorLabels = r.Chance(0.3)
	if r.Chance(0.25) {
		j.HonorTimestamps = false
	}
	j.TrackTS = r.Chance(0.35)
	if r.Chance(0.35) {
		j.SampleLimit = r.Range(1, 8)
	}
	if r.Chance(0.2) {
		j.LabelLimit = r.Range(4, 7)
	}
	if r.Chance(0.12) {
		j.LabelNameLen = r.Range(10, 20)
	}
	if r.Chance(0.12) {
		j.LabelValueLen = r.Range(8, 30)
	}
	if r.Chance(0.1) {
		j.BodySizeLimit = r.Range(150, 600)
	}
	if r.Chance(0.5) {
		j.Relabel = genRelabel(r)
	}
	j.Extra = r.Chance(0.4)
	j.Legacy = r.Chance(0.15)
	j.Compression = r.Chance(0.5)
	switch r.Intn(4) {
	case 0:
		j.Protocols = []string{"PrometheusText0.0.4"}
	case 1:
		j.Protocols = []string{"OpenMetricsText1.0.0", "PrometheusText1.0.0"}
	case 2:
		j.Protocols = []string{"PrometheusProto", "OpenMetricsText1.0.0", "PrometheusText0.0.4"}
	}
	if r.Chance(0.4) {
		j.Fallback = []string{"PrometheusText0.0.4", "OpenMetricsText1.0.0", "PrometheusText1.0.0", "PrometheusProto"}[r.Intn(4)]
	}
	_ = kf
	return j
}

// targetLabels returns the public labels of a target under a job and group version.
func targetLabels(job string, tp *TargetPlan, g int) sm.Labels {
	m := map[string]string{"job": job, "instance": tp.Addr}
	if g < len(tp.Groups) {
		for _, l := range tp.Groups[g] {
			m[l.N] = l.V
		}
	}
	return sm.FromMap(m)
}

type genTarget struct {
	tp         *TargetPlan
	present    map[int]bool
	counter    float64
	minTimeout int64 // smallest scrape timeout the target meets over the run
	stableText bool
}

// genScrape draws the k-th scrape of a target.
func genScrape(r, rf *prng.R, gt *genTarget, cfg *Config, job *sm.JobCfg, tl sm.Labels, churn, dupRate, faultRate float64, faults []string, fmts []string) Scrape {
	tp := gt.tp
	sc := Scrape{Fmt: fmts[r.Intn(len(fmts))]}
	// presence churn
	for i := range tp.Series {
		if r.Chance(churn) {
			gt.present[i] = !gt.present[i]
		}
	}
	if r.Chance(0.03) {
		for i := range tp.Series {
			gt.present[i] = false
		}
	}
	var order []int
	for i := range tp.Series {
		if gt.present[i] && (!tp.Series[i].Hist || sc.Fmt == "proto") {
			order = append(order, i)
		}
	}
	if r.Chance(0.5) {
		for i := len(order) - 1; i > 0; i-- {
			j := r.Intn(i + 1)
			order[i], order[j] = order[j], order[i]
		}
	}
	mkLine := func(si int) Line {
		sd := &tp.Series[si]
		l := Line{S: si, V: genValue(r, &gt.counter)}
		if sd.TS {
			switch r.Intn(6) {
			case 0:
				l.Rel = 0
			case 1:
				l.Rel = int64(r.Range(1, 60)) * 1000
			default:
				l.Rel = -int64(r.Range(0, 120)) * 1000
				if sc.Fmt != "om100" && sc.Fmt != "om001" {
					l.Rel -= int64(r.Intn(1000))
				}
			}
		}
		if cfg.KF == KFModeSwitch && r.Chance(0.15) {
			l.Flip = true
		}
		if len(sd.Labels) >= 2 && r.Chance(0.15) && !gt.stableText {
			l.Form = 1
		}
		if sd.Hist {
			l.H = genHist(r)
		}
		if sd.Classic {
			l.C = genClassic(r)
		}
		return l
	}
	for _, si := range order {
		sc.Lines = append(sc.Lines, mkLine(si))
		if r.Chance(dupRate) {
			d := mkLine(si)
			d.Flip = sc.Lines[len(sc.Lines)-1].Flip
			if r.Chance(0.3) {
				d.V = sc.Lines[len(sc.Lines)-1].V
			}
			if tp.Series[si].TS && r.Chance(0.5) {
				d.Rel = sc.Lines[len(sc.Lines)-1].Rel
			}
			if r.Chance(0.5) || len(sc.Lines) < 2 {
				sc.Lines = append(sc.Lines, d)
			} else {
				// put the duplicate somewhere else in the body
				p := r.Intn(len(sc.Lines))
				sc.Lines = append(sc.Lines, Line{})
				copy(sc.Lines[p+1:], sc.Lines[p:])
				sc.Lines[p] = d
			}
		}
	}
	// A sample_limit breach that stays clear of the listed finding: the samples that fit under the limit all carry
	// explicit timestamps (and timestamp staleness tracking is off), so nothing tracked is accepted before the limit hits.
	if job.SampleLimit > 0 && job.HonorTimestamps && !job.TrackTS && r.Chance(0.12) {
		tsSeries := -1
		for i := range tp.Series {
			if tp.Series[i].TS && !tp.Series[i].Hist {
				if _, keep := sm.Mutate(job, tl, &sm.Sample{Name: tp.Series[i].Name, Labels: tp.Series[i].Labels}); keep {
					tsSeries = i
				}
			}
		}
		if tsSeries >= 0 {
			var pre []Line
			for i := 0; i < job.SampleLimit; i++ {
				l := mkLine(tsSeries)
				l.Rel = -int64(i+1) * 1000
				l.Flip, l.Form = false, 0
				pre = append(pre, l)
			}
			sc.Lines = append(pre, sc.Lines...)
		}
	}
	// A bucket-limit breach that stays clear of it: nothing but histograms that cannot be reduced enough.
	if job.BucketLimit > 0 && job.BucketLimit <= 3 && sc.Fmt == "proto" && r.Chance(0.12) {
		hs := -1
		for i := range tp.Series {
			if tp.Series[i].Hist {
				hs = i
			}
		}
		if hs >= 0 {
			l := mkLine(hs)
			l.H = &sm.Hist{Schema: -3, Pos: map[int32]int64{-3: 2, 1: 1, 4: 5}, Neg: map[int32]int64{-2: 1, 2: 3}, Count: 12, Sum: 17.5}
			sc.Lines = []Line{l}
		}
	}
	sc.Meta = r.Chance(0.3)
	sc.Gzip = r.Chance(0.4)
	sc.Chunked = r.Chance(0.3)
	sc.Close = r.Chance(0.2)
	if r.Chance(0.15) {
		sc.LatencyMs = int64(r.Range(1, int(gt.minTimeout*3/4)))
	}
	if r.Chance(0.05) {
		sc.DialMs = int64(r.Range(1, int(gt.minTimeout/5)+1))
	}
	if len(faults) > 0 && rf.Chance(faultRate) {
		f := faults[rf.Intn(len(faults))]
		sc.Fault = f
		switch f {
		case "status":
			sc.Status = []int{500, 503, 404, 429, 204}[rf.Intn(5)]
		case "garbage":
			sc.BreakAt = rf.Intn(len(sc.Lines) + 1)
		case "bad-ct":
			sc.CT = []string{"", "application/json", "text/html; charset=utf-8", "text/plain; version=0.0.4; charset=\"utf-8"}[rf.Intn(4)]
			// the body format follows the job's fallback protocol at serving time: keep the lines format-neutral
			var keep []Line
			for _, l := range sc.Lines {
				if l.H == nil {
					if tp.Series[l.S].TS {
						l.Rel = l.Rel / 1000 * 1000
					}
					keep = append(keep, l)
				}
			}
			sc.Lines = keep
		case "no-eof":
			if sc.Fmt != "om100" && sc.Fmt != "om001" {
				// only OpenMetrics bodies have a terminator to leave out
				sc.Fault = "garbage"
				sc.BreakAt = rf.Intn(len(sc.Lines) + 1)
			}
		case "dial", "dial-hang":
			sc.DialMs = int64(rf.Intn(int(gt.minTimeout/4) + 1))
		}
	}
	steer(rf, gt, cfg, job, tl, &sc)
	return sc
}

// servedSamples turns plan lines into the samples the target renders for scrape time tMs.
func servedSamples(tp *TargetPlan, sc *Scrape, tMs int64, kf string) []sm.Sample {
	out := make([]sm.Sample, 0, len(sc.Lines))
	for li, l := range sc.Lines {
		sd := &tp.Series[l.S]
		s := sm.Sample{Name: sd.Name, Labels: sd.Labels, Val: l.V, Hist: l.H, Src: li}
		ts := sd.TS
		if l.Flip {
			ts = !ts
		}
		if ts {
			s.HasTS = true
			s.TS = tMs + l.Rel
			if sc.Fmt == "om100" || sc.Fmt == "om001" {
				s.TS = s.TS / 1000 * 1000 // OpenMetrics timestamps are rendered in whole seconds (see render.go)
			}
		}
		if l.Form == 1 && len(sd.Labels) >= 2 {
			s.Form = 1
		}
		if sc.Fmt == "proto" {
			s.Form = 2 // the protobuf parser identifies a series by its sorted labels; text parsers by the rendered text
			// gauge / untyped alternate; outside runs dedicated to that finding an UNTYPED metric never has the value +0
			s.PU = len(out)%2 == 1 // (an UNTYPED metric with the value +0 used to be steered around: finding repaired)
		}
		if l.C == nil {
			out = append(out, s)
			continue
		}
		// a classic histogram: <name>_count, <name>_sum, one <name>_bucket per bound and the +Inf bucket, in the
		// order in which the protobuf parser yields them
		s.PU, s.Hist, s.Group = false, nil, li+1
		sub := func(suffix, le string, v float64) {
			x := s
			x.Name = sd.Name + suffix
			x.Val = math.Float64bits(v)
			if le != "" {
				x.Labels = append(append(sm.Labels(nil), sd.Labels...), sm.Label{N: "le", V: le})
			}
			out = append(out, x)
		}
		sub("_count", "", float64(l.C.Count))
		sub("_sum", "", l.C.Sum)
		for i, b := range l.C.Bounds {
			sub("_bucket", leText(b), float64(l.C.Cum[i]))
		}
		sub("_bucket", "+Inf", float64(l.C.Count))
	}
	return out
}

// sampleIndexOfLine converts a position in the plan's lines into a position in the served samples.
func sampleIndexOfLine(samples []sm.Sample, line int) int {
	for i := range samples {
		if samples[i].Src >= line {
			return i
		}
	}
	return len(samples)
}

// steer keeps ordinary runs away from the input patterns of the listed known findings and from inputs whose
// expected outcome the documentation leaves open:
//   - a body that makes the scrape fail (parse error, limit, invalid name) must not contain a sample that is stored
//     and tracked for staleness before the failure point (finding failed-append-keeps-staleness-tracking);
//   - sample_limit verdicts that depend on whether duplicates count;
//   - body sizes equal to body_size_limit.
func steer(r *prng.R, gt *genTarget, cfg *Config, job *sm.JobCfg, tl sm.Labels, sc *Scrape) {
	tp := gt.tp
	if sc.Fault != "" && sc.Fault != "garbage" && sc.Fault != "no-eof" && !(sc.Fault == "bad-ct" && job.Fallback != "") {
		return // nothing is parsed
	}
	for iter := 0; iter < 64; iter++ {
		samples := servedSamples(tp, sc, 946684800000, cfg.KF)
		breakAt := -1
		if sc.Fault == "garbage" {
			if sc.BreakAt > len(sc.Lines) {
				sc.BreakAt = len(sc.Lines)
			}
			breakAt = sampleIndexOfLine(samples, sc.BreakAt)
		}
		if sc.Fault == "no-eof" {
			breakAt = len(samples)
		}
		if sm.DupAmbiguous(job, tl, samples) {
			// drop one duplicate line
			if !dropOneDuplicate(sc) {
				sc.Lines = sc.Lines[:len(sc.Lines)/2]
			}
			continue
		}
		ok, kind, failIdx, prefixTracked := sm.BodyVerdict(job, tl, samples, breakAt)
		if ok || cfg.KF == KFPartial {
			return
		}
		if failIdx >= 0 && failIdx < len(samples) {
			failIdx = samples[failIdx].Src // from here on an index into sc.Lines
		} else if failIdx >= len(samples) {
			failIdx = len(sc.Lines)
		}
		if prefixTracked == 0 {
			return
		}
		switch kind {
		case "parse":
			// move the unparsable point to the front (before anything is stored), or give up the fault
			if sc.Fault == "garbage" && sc.BreakAt > 0 {
				sc.BreakAt = 0
				continue
			}
			sc.Fault = ""
			continue
		case "bucket_limit":
			// every other sample of the body is accepted before the scrape turns out to be failed: take the
			// offending histogram out
			if failIdx >= 0 && failIdx < len(sc.Lines) {
				sc.Lines = append(sc.Lines[:failIdx], sc.Lines[failIdx+1:]...)
				if sc.BreakAt > len(sc.Lines) {
					sc.BreakAt = len(sc.Lines)
				}
				continue
			}
			sc.Lines = nil
			continue
		case "sample_limit":
			// Only possible without tracked prefix if the first samples are untracked: shorten the body below the limit.
			if len(sc.Lines) > 0 {
				sc.Lines = sc.Lines[:len(sc.Lines)-1]
				if sc.BreakAt > len(sc.Lines) {
					sc.BreakAt = len(sc.Lines)
				}
			}
			continue
		default:
			// label limits / invalid names: move the offending sample to the front
			if failIdx > 0 && failIdx < len(sc.Lines) {
				off := sc.Lines[failIdx]
				copy(sc.Lines[1:failIdx+1], sc.Lines[:failIdx])
				sc.Lines[0] = off
				if sc.Fault == "garbage" {
					sc.BreakAt = 0
				}
				continue
			}
			sc.Lines = nil
		}
	}
	sc.Lines = nil
	if sc.Fault == "garbage" {
		sc.BreakAt = 0
	}
}

func dropOneDuplicate(sc *Scrape) bool {
	seen := map[int]bool{}
	for i, l := range sc.Lines {
		if seen[l.S] {
			sc.Lines = append(sc.Lines[:i], sc.Lines[i+1:]...)
			return true
		}
		seen[l.S] = true
	}
	return false
}

func genHist(r *prng.R) *sm.Hist {
	h := &sm.Hist{Schema: int32(r.Range(-2, 3)), Pos: map[int32]int64{}, Neg: map[int32]int64{}}
	if r.Chance(0.5) {
		h.ZeroTh = []float64{0.001, 1e-128, 0.5}[r.Intn(3)]
		h.Zero = uint64(r.Intn(4))
	}
	n := r.Range(1, 6)
	base := int32(r.Range(-6, 6))
	for i := 0; i < n; i++ {
		h.Pos[base+int32(r.Intn(12))] = int64(r.Range(1, 9))
	}
	if r.Chance(0.4) {
		for i := 0; i < r.Range(1, 3); i++ {
			h.Neg[base+int32(r.Intn(8))] = int64(r.Range(1, 5))
		}
	}
	h.Count = h.Zero
	for _, c := range h.Pos {
		h.Count += uint64(c)
	}
	for _, c := range h.Neg {
		h.Count += uint64(c)
	}
	h.Sum = float64(r.Intn(100000)) / 16
	h.Gauge = r.Chance(0.2)
	return h
}

// Generate derives a plan from the seed.
func Generate(prop, tier string, seed uint64) *Plan {
	rc := prng.New(prng.DeriveS(seed, "config"))
	rw := prng.New(prng.DeriveS(seed, "workload"))
	rf := prng.New(prng.DeriveS(seed, "faults"))
	ro := prng.New(prng.DeriveS(seed, "ops"))

	p := &Plan{}
	c := &p.Cfg
	c.V2 = rc.Chance(0.5)
	c.ReloadMs = []int64{200, 1000, 5000}[rc.Intn(3)]
	c.Metadata = rc.Chance(0.3)
	c.StartSkewNs = int64(rc.Intn(2_000_000_000)) + 1
	kfDen := 300
	if tier == "thorough" {
		kfDen = 30000
	}
	if rc.Intn(kfDen) == 0 {
		c.KF = []string{KFPartial, KFPartial, KFModeSwitch, KFResync, KFModeSwitch, KFRefKey, KFJobRemoval}[rc.Intn(7)]
	}
	if f := os.Getenv("VERIF_FORCE_KF"); f != "" {
		c.KF = f // finding-hunting aid; replay files carry the plan, not the environment
	}

	base := []int64{1000, 2000, 5000, 10000, 15000, 30000}[rc.Intn(6)]
	nJobs := rc.Pick([]int{3, 2}) + 1
	for j := 0; j < nJobs; j++ {
		iv := base
		if j > 0 {
			iv = []int64{base, base * 2, base / 2}[rc.Intn(3)]
			if iv < 1000 {
				iv = 1000
			}
		}
		p.Jobs = append(p.Jobs, genJob(rc, fmt.Sprintf("job%d", j), iv, c.KF))
	}
	maxIv, maxTo := int64(0), int64(0)
	for _, j := range p.Jobs {
		if j.IntervalMs > maxIv {
			maxIv = j.IntervalMs
		}
		if j.TimeoutMs > maxTo {
			maxTo = j.TimeoutMs
		}
	}
	nScr := rc.Range(10, 50)
	if tier == "quick" && rc.Chance(0.5) {
		nScr = rc.Range(10, 25)
	}
	c.DurationMs = int64(nScr)*maxIv + maxIv
	c.TailMs = 3*maxIv + 1000

	nT := rc.Pick([]int{3, 3, 2}) + 1
	tsRate := []float64{0, 0.15, 0.4}[rc.Intn(3)]
	hasProto := false
	fmts := []string{"prom004"}
	switch rc.Intn(5) {
	case 0:
		fmts = []string{"prom004"}
	case 1:
		fmts = []string{"om100", "om001"}
	case 2:
		fmts = []string{"prom004", "prom100", "om100"}
	case 3:
		fmts = []string{"proto"}
		hasProto = true
	case 4:
		fmts = []string{"prom004", "om100", "proto"}
		hasProto = true
	}
	// Ref churn in the recording storage (the storage forgets every series ref at some commit). Outside the run
	// dedicated to KFRefKey every series then keeps one exposition text for the whole run: one format family, no
	// alternative label order, no Content-Type faults that switch to the fallback format.
	wantChurn := rc.Chance(0.25) || c.KF == KFRefKey
	stableText := wantChurn && c.KF != KFRefKey
	if stableText && len(fmts) == 3 {
		if hasProto {
			fmts = []string{"proto"}
		} else {
			fmts = []string{"prom004", "prom100", "om100"}
		}
	}
	for i := range p.Jobs {
		p.Jobs[i].NativeHist = hasProto && rc.Chance(0.8)
		if p.Jobs[i].NativeHist && rc.Chance(0.5) {
			p.Jobs[i].BucketLimit = rc.Range(1, 8)
		}
	}
	for t := 0; t < nT; t++ {
		tp := TargetPlan{Addr: fmt.Sprintf("t%d.sim:80", t), Job: rc.Intn(nJobs)}
		tp.Groups = []sm.Labels{nil}
		if rc.Chance(0.5) {
			tp.Groups[0] = sm.Labels{{N: "env", V: "prod"}}
		}
		if rc.Chance(0.4) {
			tp.Groups = append(tp.Groups, sm.Labels{{N: "env", V: "stage"}, {N: "zone", V: "z1"}})
		}
		tp.Series = genSeries(rw, rw.Range(3, 10), tsRate, hasProto && p.Jobs[tp.Job].NativeHist)
		p.Targets = append(p.Targets, tp)
	}

	// control ops
	type state struct {
		present map[int]int // target -> group version
		jobs    []sm.JobCfg
	}
	st := state{present: map[int]int{}, jobs: append([]sm.JobCfg(nil), p.Jobs...)}
	for t := range p.Targets {
		if ro.Chance(0.85) || t == 0 {
			st.present[t] = 0
		}
	}
	presentList := func() []Present {
		var ks []int
		for t := range st.present {
			ks = append(ks, t)
		}
		sort.Ints(ks)
		var out []Present
		for _, t := range ks {
			out = append(out, Present{T: t, G: st.present[t]})
		}
		return out
	}
	p.Initial = presentList()
	nOps := ro.Pick([]int{3, 3, 2, 2, 1})
	minGap := c.ReloadMs + 2*maxIv + maxTo + 10
	now := int64(0)
	for i := 0; i < nOps; i++ {
		gap := minGap + int64(ro.Intn(int(c.DurationMs/int64(nOps+1))+1))
		if i == 0 && gap < 2*c.ReloadMs+50 {
			// the manager applies the initial target set at its first reload tick; an update is applied at once
			// only when it comes at least one more reload interval later (assumption in checks.json)
			gap = 2*c.ReloadMs + 50
		}
		if now+gap >= c.DurationMs-minGap {
			break
		}
		now += gap
		op := Op{AfterMs: gap}
		switch ro.Intn(5) {
		case 0, 1: // remove a target / re-add a removed one
			op.K = "tsets"
			t := ro.Intn(len(p.Targets))
			if _, ok := st.present[t]; ok {
				delete(st.present, t)
			} else {
				st.present[t] = ro.Intn(len(p.Targets[t].Groups))
			}
			op.Present = presentList()
			p.Ops = append(p.Ops, op)
			// sometimes bring it back quickly ("re-created in time")
			if _, ok := st.present[t]; !ok && ro.Chance(0.5) {
				quick := c.ReloadMs + maxTo + 7 + int64(ro.Intn(int(maxIv)))
				if now+quick < c.DurationMs-minGap {
					now += quick
					g := 0
					if ro.Chance(0.3) {
						g = ro.Intn(len(p.Targets[t].Groups))
					}
					st.present[t] = g
					p.Ops = append(p.Ops, Op{AfterMs: quick, K: "tsets", Present: presentList()})
				}
			}
		default: // reload
			op.K = "apply"
			j := ro.Intn(len(st.jobs))
			nj := st.jobs[j]
			st0 := st
			kind := ro.Intn(6)
			if nj.Removed {
				kind = 100 // a removed job stays removed
			} else if c.KF == KFJobRemoval && ro.Chance(0.6) {
				kind = 6
			}
			switch kind {
			case 6:
				nj.Removed = true
			case 0: // only the interval / timeout change
				nj.IntervalMs = []int64{nj.IntervalMs, nj.IntervalMs * 2, max64(nj.IntervalMs/2, 1000)}[ro.Intn(3)]
				nj.TimeoutMs = nj.IntervalMs / 2
			case 1:
				nj.SampleLimit = []int{0, 2, 5, 100}[ro.Intn(4)]
			case 2:
				nj.HonorTimestamps = !nj.HonorTimestamps
			case 3:
				nj.TrackTS = !nj.TrackTS
			case 4:
				nj.Relabel = genRelabel(ro)
			case 5:
				nj.HonorLabels = !nj.HonorLabels
				nj.Extra = !nj.Extra
			}
			if kind == 100 {
				continue
			}
			st.jobs = append([]sm.JobCfg(nil), st.jobs...)
			st.jobs[j] = nj
			op.Jobs = append([]sm.JobCfg(nil), st.jobs...)
			op.ResendMs = int64(ro.Range(1, 2500))
			if old := st0.jobs[j]; (old.IntervalMs != nj.IntervalMs || old.TimeoutMs != nj.TimeoutMs) && c.KF != KFResync {
				// keep the re-creation of the targets away from the restarted loops' first scrape
				op.ResendMs += old.IntervalMs + maxTo + 10
			}
			now += op.ResendMs
			p.Ops = append(p.Ops, op)
		}
	}

	// per-target scrape sequences: generated against the job config / target labels in force over time is not
	// possible exactly (scrape times are hash-derived), so steering uses every config version the target can see.
	churn := []float64{0, 0.05, 0.15, 0.4}[rw.Intn(4)]
	dupRate := []float64{0, 0.05, 0.2}[rw.Intn(3)]
	faultRate := []float64{0, 0.1, 0.25, 0.5}[rf.Intn(4)]
	var faults []string
	for _, f := range append(append([]string{}, httpFaults...), bodyFaults...) {
		if rf.Chance(0.5) && !(stableText && f == "bad-ct") {
			faults = append(faults, f)
		}
	}
	collision := false
	for t := range p.Targets {
		tp := &p.Targets[t]
		gt := &genTarget{tp: tp, present: map[int]bool{}, stableText: stableText}
		for i := range tp.Series {
			gt.present[i] = rw.Chance(0.7)
		}
		// all (job version, group version) combinations this target can meet
		var combos []combo
		jobVersions := []sm.JobCfg{p.Jobs[tp.Job]}
		for _, op := range p.Ops {
			if op.K == "apply" {
				jobVersions = append(jobVersions, op.Jobs[tp.Job])
			}
		}
		for _, jv := range jobVersions {
			jv := jv
			for g := range tp.Groups {
				combos = append(combos, combo{&jv, targetLabels(jv.Name, tp, g)})
			}
		}
		// do two series of the target end up as one stored series under some configuration?
		for _, cb := range combos {
			seen := map[string]bool{}
			for i := range tp.Series {
				ls, keep := sm.Mutate(cb.job, cb.tl, &sm.Sample{Name: tp.Series[i].Name, Labels: tp.Series[i].Labels})
				if !keep {
					continue
				}
				if k := sm.Canon(ls); seen[k] {
					collision = true
				} else {
					seen[k] = true
				}
			}
		}
		minIv := jobVersions[0].IntervalMs
		gt.minTimeout = jobVersions[0].TimeoutMs
		for _, jv := range jobVersions {
			if jv.IntervalMs < minIv {
				minIv = jv.IntervalMs
			}
			if jv.TimeoutMs < gt.minTimeout {
				gt.minTimeout = jv.TimeoutMs
			}
		}
		n := int(c.DurationMs/minIv) + 3
		for k := 0; k < n; k++ {
			sc := genScrape(rw, rf, gt, c, combos[0].job, combos[0].tl, churn, dupRate, faultRate, faults, fmts)
			for _, cb := range combos[1:] {
				steer(rf, gt, c, cb.job, cb.tl, &sc)
			}
			// a later steer may have undone an earlier one's work; re-check until stable
			for pass := 0; pass < 4; pass++ {
				for _, cb := range combos {
					steer(rf, gt, c, cb.job, cb.tl, &sc)
				}
			}
			tp.Scrapes = append(tp.Scrapes, sc)
		}
	}
	if wantChurn && (!collision || c.KF == KFRefKey) {
		// (a storage that forgets refs while several exposed series share one stored series is the second input
		// pattern of KFRefKey)
		for i := 0; i < rc.Range(1, 4); i++ {
			c.RefChurn = append(c.RefChurn, rc.Intn(3*nScr+1))
		}
		sort.Ints(c.RefChurn)
	}
	return p
}

type combo struct {
	job *sm.JobCfg
	tl  sm.Labels
}

func max64(a, b int64) int64 {
	if a > b {
		return a
	}
	return b
}

// Shrink returns simpler candidate plans, most aggressive first.
func Shrink(p *Plan) []*Plan {
	var out []*Plan
	add := func(f func(q *Plan) bool) {
		q := p.clone()
		if f(q) {
			out = append(out, q)
		}
	}
	// shorter run
	add(func(q *Plan) bool {
		if q.Cfg.DurationMs < 4000 {
			return false
		}
		q.Cfg.DurationMs /= 2
		return true
	})
	add(func(q *Plan) bool {
		if q.Cfg.DurationMs < 4000 {
			return false
		}
		q.Cfg.DurationMs = q.Cfg.DurationMs * 3 / 4
		return true
	})
	// fewer ops
	for i := range p.Ops {
		i := i
		add(func(q *Plan) bool {
			if i+1 < len(q.Ops) {
				q.Ops[i+1].AfterMs += q.Ops[i].AfterMs
			}
			q.Ops = append(q.Ops[:i], q.Ops[i+1:]...)
			return true
		})
	}
	// fewer targets (only those not referenced by later ops are easy: drop from Initial and all Present lists)
	for t := range p.Targets {
		t := t
		add(func(q *Plan) bool {
			if len(q.Targets) < 2 {
				return false
			}
			used := len(q.Targets[t].Scrapes) > 0
			for _, x := range q.Initial {
				used = used || x.T == t
			}
			for i := range q.Ops {
				for _, x := range q.Ops[i].Present {
					used = used || x.T == t
				}
			}
			if !used {
				return false
			}
			drop := func(ps []Present) []Present {
				var o []Present
				for _, x := range ps {
					if x.T != t {
						o = append(o, x)
					}
				}
				return o
			}
			q.Initial = drop(q.Initial)
			for i := range q.Ops {
				if q.Ops[i].K == "tsets" {
					q.Ops[i].Present = drop(q.Ops[i].Present)
				}
			}
			q.Targets[t].Scrapes = nil
			return true
		})
	}
	// no ref churn, simpler config
	add(func(q *Plan) bool {
		if len(q.Cfg.RefChurn) == 0 {
			return false
		}
		q.Cfg.RefChurn = nil
		return true
	})
	add(func(q *Plan) bool {
		if !q.Cfg.Metadata {
			return false
		}
		q.Cfg.Metadata = false
		return true
	})
	for j := range p.Jobs {
		j := j
		add(func(q *Plan) bool {
			if len(q.Jobs[j].Relabel) == 0 {
				return false
			}
			q.Jobs[j].Relabel = nil
			return true
		})
		add(func(q *Plan) bool {
			jc := &q.Jobs[j]
			if jc.SampleLimit == 0 && jc.LabelLimit == 0 && jc.LabelNameLen == 0 && jc.LabelValueLen == 0 && jc.BodySizeLimit == 0 && jc.BucketLimit == 0 {
				return false
			}
			jc.SampleLimit, jc.LabelLimit, jc.LabelNameLen, jc.LabelValueLen, jc.BodySizeLimit, jc.BucketLimit = 0, 0, 0, 0, 0, 0
			return true
		})
		add(func(q *Plan) bool {
			jc := &q.Jobs[j]
			if !jc.Extra && !jc.HonorLabels && !jc.Compression {
				return false
			}
			jc.Extra, jc.HonorLabels, jc.Compression = false, false, false
			return true
		})
	}
	// per target: truncate scrapes, remove faults, remove lines
	for t := range p.Targets {
		t := t
		n := len(p.Targets[t].Scrapes)
		if n == 0 {
			continue
		}
		// drop chunks of scrapes (the attempts after a dropped one shift down)
		for c := n / 2; c >= 1; c /= 2 {
			c := c
			for st := 0; st < n; st += c {
				st := st
				if n > 24 && c == 1 && st > 24 {
					break
				}
				add(func(q *Plan) bool {
					e := st + c
					if e > n {
						e = n
					}
					q.Targets[t].Scrapes = append(q.Targets[t].Scrapes[:st:st], q.Targets[t].Scrapes[e:]...)
					return true
				})
			}
			if c == 1 {
				break
			}
		}
		add(func(q *Plan) bool {
			ch := false
			for k := range q.Targets[t].Scrapes {
				if q.Targets[t].Scrapes[k].Fault != "" {
					q.Targets[t].Scrapes[k].Fault = ""
					ch = true
				}
			}
			return ch
		})
		add(func(q *Plan) bool {
			ch := false
			for k := range q.Targets[t].Scrapes {
				s := &q.Targets[t].Scrapes[k]
				if s.Gzip || s.Chunked || s.Meta || s.LatencyMs != 0 || s.DialMs != 0 || s.Close {
					s.Gzip, s.Chunked, s.Meta, s.LatencyMs, s.DialMs, s.Close = false, false, false, 0, 0, false
					ch = true
				}
			}
			return ch
		})
		// drop one series from every body
		for si := range p.Targets[t].Series {
			si := si
			add(func(q *Plan) bool {
				ch := false
				for k := range q.Targets[t].Scrapes {
					s := &q.Targets[t].Scrapes[k]
					var keep []Line
					for _, l := range s.Lines {
						if l.S != si {
							keep = append(keep, l)
						} else {
							ch = true
						}
					}
					if s.BreakAt > len(keep) {
						s.BreakAt = len(keep)
					}
					s.Lines = keep
				}
				return ch
			})
		}
		lim := n
		if lim > 40 {
			lim = 40
		}
		for k := 0; k < lim; k++ {
			k := k
			add(func(q *Plan) bool {
				s := &q.Targets[t].Scrapes[k]
				if s.Fault == "" {
					return false
				}
				s.Fault = ""
				return true
			})
			add(func(q *Plan) bool {
				s := &q.Targets[t].Scrapes[k]
				if len(s.Lines) < 2 {
					return false
				}
				s.Lines = s.Lines[:len(s.Lines)/2]
				if s.BreakAt > len(s.Lines) {
					s.BreakAt = len(s.Lines)
				}
				return true
			})
		}
	}
	return out
}
