package scrapesim

import (
	"os"
	"runtime"
	"strconv"
	"testing"

	"github.com/prometheus/prometheus/util/osutil"

	"verif/sim/core/runner"
)

func TestSim(t *testing.T) {
	// Manager.ApplyConfig derives its offset seed from osutil.GetFQDN(), i.e. from the Go resolver. The resolver
	// keeps process-global state guarded by a channel semaphore that is created on first use; creating it inside
	// the first bubble would make it unusable from every later bubble ("send on synctest channel from outside
	// bubble"). Warm it up here, outside any bubble. The value only moves the hash-derived scrape offsets, which
	// no oracle looks at.
	_, _ = osutil.GetFQDN()
	// The check runs this binary with -test.cpu 1. VERIF_SCRAPESIM_PROCS raises GOMAXPROCS for the determinism
	// self-test (real parallelism inside the bubble; several times slower).
	if v, err := strconv.Atoi(os.Getenv("VERIF_SCRAPESIM_PROCS")); err == nil && v > 0 {
		runtime.GOMAXPROCS(v)
	}
	runner.Main(t, Engine{})
}
