package scrapesim

import (
	"context"
	"hash/fnv"
	"math"
	"sync"
	"time"

	"github.com/prometheus/prometheus/model/exemplar"
	"github.com/prometheus/prometheus/model/histogram"
	"github.com/prometheus/prometheus/model/labels"
	"github.com/prometheus/prometheus/model/metadata"
	"github.com/prometheus/prometheus/storage"

	sm "verif/sim/model/scrapemodel"
)

// recorder is the storage the scrape manager writes to: it records every call with the fake time and behaves
// like a storage as far as the storage.Appender contracts oblige it to:
//   - refs are ephemeral: a known ref selects its series (like the TSDB head does, without looking at the labels),
//     an unknown ref falls back to the labels and a new ref is returned;
//   - an append made with DiscardOutOfOrder / RejectOutOfOrder is rejected with ErrOutOfOrderSample when the series
//     already has a newer committed sample, and with ErrDuplicateSampleForTimestamp when it has a different value at
//     the same timestamp;
//   - everything else is accepted (the property is about what storage *receives*).
type recorder struct {
	mu      sync.Mutex
	txns    []*txn
	commits int
	epoch   uint64
	byRef   map[storage.SeriesRef]string // ref -> series (canonical labels), current epoch only
	last    map[string]lastSample
	churn   map[int]bool // commit ordinals after which all refs are forgotten
	churned int64
	open    int // appenders neither committed nor rolled back
	reports int // committed appenders that carry a (non-stale) 'up' sample, i.e. finished scrapes
}

type lastSample struct {
	t   int64
	key string
}

type call struct {
	Kind    string // f | h | fh | ex | meta | stz
	Series  string // the series the sample goes to (by ref when the ref is known, else by labels)
	ByLabel string // canonical text of the labels passed
	Labels  sm.Labels
	T       int64
	V       uint64
	H       *sm.Hist
	ST      int64
	Reject  bool
	Err     error
	AtNs    int64
	HasMeta bool
	Behind  bool // accepted although the series already had a newer committed sample
	RefGone bool // called with a ref the storage has forgotten (fell back to the labels)
}

type txn struct {
	id     int
	openNs int64
	endNs  int64
	state  string // open | committed | rolledback
	ord    int    // commit ordinal
	calls  []call
	rejOpt bool // V1 SetOptions state
	rec    *recorder
}

func newRecorder(churn []int) *recorder {
	r := &recorder{byRef: map[storage.SeriesRef]string{}, last: map[string]lastSample{}, churn: map[int]bool{}}
	for _, c := range churn {
		r.churn[c] = true
	}
	return r
}

func convLabels(l labels.Labels) sm.Labels {
	out := make(sm.Labels, 0, l.Len())
	l.Range(func(x labels.Label) {
		out = append(out, sm.Label{N: string([]byte(x.Name)), V: string([]byte(x.Value))})
	})
	return out
}

func (r *recorder) refFor(series string) storage.SeriesRef {
	h := fnv.New64a()
	h.Write([]byte(series))
	var e [8]byte
	for i := 0; i < 8; i++ {
		e[i] = byte(r.epoch >> (8 * i))
	}
	h.Write(e[:])
	ref := storage.SeriesRef(h.Sum64() | 1)
	if old, ok := r.byRef[ref]; ok && old != series {
		panic("harness: series ref hash collision")
	}
	r.byRef[ref] = series
	return ref
}

func (r *recorder) begin() *txn {
	r.mu.Lock()
	defer r.mu.Unlock()
	t := &txn{id: len(r.txns), openNs: time.Now().UnixNano(), state: "open", rec: r}
	r.txns = append(r.txns, t)
	r.open++
	return t
}

func (r *recorder) Appender(context.Context) storage.Appender     { return &appV1{t: r.begin()} }
func (r *recorder) AppenderV2(context.Context) storage.AppenderV2 { return &appV2{t: r.begin()} }

func valueKey(v uint64, h *sm.Hist) string {
	if h != nil {
		return h.Key()
	}
	return string([]byte{byte(v), byte(v >> 8), byte(v >> 16), byte(v >> 24), byte(v >> 32), byte(v >> 40), byte(v >> 48), byte(v >> 56)})
}

// append records one sample call and applies the storage contract.
func (t *txn) append(kind string, ref storage.SeriesRef, l labels.Labels, st, ts int64, v uint64, h *sm.Hist, reject, hasMeta bool) (storage.SeriesRef, error) {
	r := t.rec
	r.mu.Lock()
	defer r.mu.Unlock()
	if t.state != "open" {
		panic("harness: append on a finished appender")
	}
	ls := convLabels(l)
	byLabel := sm.Canon(ls)
	series := byLabel
	refGone := false
	if s, ok := r.byRef[ref]; ok && ref != 0 {
		series = s
	} else if ref != 0 {
		refGone = true
	}
	c := call{RefGone: refGone, Kind: kind, Series: series, ByLabel: byLabel, Labels: ls, T: ts, V: v, H: h, ST: st, Reject: reject, AtNs: time.Now().UnixNano(), HasMeta: hasMeta}
	if reject {
		if ls, ok := r.last[series]; ok {
			switch {
			case ts < ls.t:
				c.Err = storage.ErrOutOfOrderSample
			case ts == ls.t && ls.key != valueKey(v, h):
				c.Err = storage.ErrDuplicateSampleForTimestamp
			}
		}
	}
	if ls, ok := r.last[series]; ok && c.Err == nil && ts < ls.t && (kind == "f" || kind == "h" || kind == "fh") {
		c.Behind = true
	}
	t.calls = append(t.calls, c)
	if c.Err != nil {
		return 0, c.Err
	}
	return r.refFor(series), nil
}

func (t *txn) finish(state string) error {
	r := t.rec
	r.mu.Lock()
	defer r.mu.Unlock()
	if t.state != "open" {
		panic("harness: appender finished twice")
	}
	t.state = state
	t.endNs = time.Now().UnixNano()
	r.open--
	if state == "committed" {
		t.ord = r.commits
		r.commits++
		for _, c := range t.calls {
			if c.Kind == "f" && c.V != sm.StaleNaN && c.Labels.Get("__name__") == "up" {
				r.reports++
			}
			if c.Err != nil || (c.Kind != "f" && c.Kind != "h" && c.Kind != "fh") {
				continue
			}
			if ls, ok := r.last[c.Series]; !ok || c.T > ls.t {
				r.last[c.Series] = lastSample{t: c.T, key: valueKey(c.V, c.H)}
			}
		}
		if r.churn[t.ord] {
			// the storage garbage-collects: every ref handed out so far is forgotten
			r.epoch++
			r.byRef = map[storage.SeriesRef]string{}
			r.churned++
		}
	}
	return nil
}

func histFromInt(h *histogram.Histogram) *sm.Hist {
	out := &sm.Hist{Schema: h.Schema, ZeroTh: h.ZeroThreshold, Zero: h.ZeroCount, Count: h.Count, Sum: h.Sum, Pos: map[int32]int64{}, Neg: map[int32]int64{}}
	out.Gauge = h.CounterResetHint == histogram.GaugeType
	if h.CustomValues != nil {
		out.Custom = append([]float64(nil), h.CustomValues...)
	}
	fill := func(spans []histogram.Span, deltas []int64, m map[int32]int64) {
		idx := int32(0)
		cur := int64(0)
		k := 0
		for si, s := range spans {
			if si == 0 {
				idx = s.Offset
			} else {
				idx += s.Offset
			}
			for j := uint32(0); j < s.Length; j++ {
				cur += deltas[k]
				k++
				if cur != 0 {
					m[idx] += cur
				}
				idx++
			}
		}
	}
	fill(h.PositiveSpans, h.PositiveBuckets, out.Pos)
	fill(h.NegativeSpans, h.NegativeBuckets, out.Neg)
	return out
}

func histFromFloat(h *histogram.FloatHistogram) *sm.Hist {
	out := &sm.Hist{Schema: h.Schema, ZeroTh: h.ZeroThreshold, Zero: uint64(h.ZeroCount), Count: uint64(h.Count), Sum: h.Sum, Pos: map[int32]int64{}, Neg: map[int32]int64{}, Float: true}
	out.Gauge = h.CounterResetHint == histogram.GaugeType
	fill := func(spans []histogram.Span, vals []float64, m map[int32]int64) {
		idx := int32(0)
		k := 0
		for si, s := range spans {
			if si == 0 {
				idx = s.Offset
			} else {
				idx += s.Offset
			}
			for j := uint32(0); j < s.Length; j++ {
				if vals[k] != 0 {
					m[idx] += int64(vals[k])
				}
				k++
				idx++
			}
		}
	}
	fill(h.PositiveSpans, h.PositiveBuckets, out.Pos)
	fill(h.NegativeSpans, h.NegativeBuckets, out.Neg)
	return out
}

// ---- storage.Appender (V1)

type appV1 struct{ t *txn }

func (a *appV1) Append(ref storage.SeriesRef, l labels.Labels, t int64, v float64) (storage.SeriesRef, error) {
	return a.t.append("f", ref, l, 0, t, math.Float64bits(v), nil, a.t.rejOpt, false)
}

func (a *appV1) AppendHistogram(ref storage.SeriesRef, l labels.Labels, t int64, h *histogram.Histogram, fh *histogram.FloatHistogram) (storage.SeriesRef, error) {
	if h != nil {
		return a.t.append("h", ref, l, 0, t, math.Float64bits(h.Sum), histFromInt(h), a.t.rejOpt, false)
	}
	return a.t.append("fh", ref, l, 0, t, math.Float64bits(fh.Sum), histFromFloat(fh), a.t.rejOpt, false)
}

func (a *appV1) AppendExemplar(ref storage.SeriesRef, l labels.Labels, _ exemplar.Exemplar) (storage.SeriesRef, error) {
	return a.t.append("ex", ref, l, 0, 0, 0, nil, false, false)
}

func (a *appV1) UpdateMetadata(ref storage.SeriesRef, l labels.Labels, _ metadata.Metadata) (storage.SeriesRef, error) {
	return a.t.append("meta", ref, l, 0, 0, 0, nil, false, true)
}

func (a *appV1) AppendSTZeroSample(ref storage.SeriesRef, l labels.Labels, t, st int64) (storage.SeriesRef, error) {
	return a.t.append("stz", ref, l, st, t, 0, nil, false, false)
}

func (a *appV1) AppendHistogramSTZeroSample(ref storage.SeriesRef, l labels.Labels, t, st int64, _ *histogram.Histogram, _ *histogram.FloatHistogram) (storage.SeriesRef, error) {
	return a.t.append("stz", ref, l, st, t, 0, nil, false, false)
}

func (a *appV1) SetOptions(o *storage.AppendOptions) {
	a.t.rec.mu.Lock()
	a.t.rejOpt = o != nil && o.DiscardOutOfOrder
	a.t.rec.mu.Unlock()
}

func (a *appV1) Commit() error   { return a.t.finish("committed") }
func (a *appV1) Rollback() error { return a.t.finish("rolledback") }

// ---- storage.AppenderV2

type appV2 struct{ t *txn }

func (a *appV2) Append(ref storage.SeriesRef, l labels.Labels, st, t int64, v float64, h *histogram.Histogram, fh *histogram.FloatHistogram, o storage.AOptions) (storage.SeriesRef, error) {
	hasMeta := o.Metadata.Type != "" || o.Metadata.Help != "" || o.Metadata.Unit != ""
	switch {
	case h != nil:
		return a.t.append("h", ref, l, st, t, math.Float64bits(h.Sum), histFromInt(h), o.RejectOutOfOrder, hasMeta)
	case fh != nil:
		return a.t.append("fh", ref, l, st, t, math.Float64bits(fh.Sum), histFromFloat(fh), o.RejectOutOfOrder, hasMeta)
	}
	return a.t.append("f", ref, l, st, t, math.Float64bits(v), nil, o.RejectOutOfOrder, hasMeta)
}

func (a *appV2) Commit() error   { return a.t.finish("committed") }
func (a *appV2) Rollback() error { return a.t.finish("rolledback") }
