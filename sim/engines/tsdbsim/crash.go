package tsdbsim

import (
	"context"
	"fmt"
	"math"
	"os"
	"path/filepath"
	"sort"
	"strings"

	"github.com/prometheus/prometheus/model/labels"
	"github.com/prometheus/prometheus/storage"

	"verif/sim/core/simfs"
	"verif/sim/model/tsdbmodel"
)

// bounds returns the model bounds that a crash during op o must respect.
func bounds(o Op, pre, post *tsdbmodel.Model) (lower, upper *tsdbmodel.Model) {
	switch o.K {
	case "commit":
		return pre, post // the commit in flight may be recovered wholly or partly
	case "delete":
		return post, pre // an in-flight deletion may be applied per block or not at all
	default:
		// compactions, restarts, config changes do not change the logical content;
		// (closeApps inside them commits/rolls back before any IO of the op proper: treat like a commit)
		return pre, post
	}
}

// tornVariants derives torn-write images from a write image.
func (e *exec) tornVariants(im *image) []*image {
	if im.op != "write" || im.n <= 1 || e.cfg.TornMode == 0 {
		return nil
	}
	// Process-kill model: a write to the page cache is only interrupted (by the fatal signal) between pages,
	// so a torn write ends on a page boundary of the file. Writes within one page are atomic.
	const page = 4096
	var ks []int
	wstart := im.end - int64(im.n)
	for off := (wstart/page + 1) * page; off < im.end; off += page {
		ks = append(ks, int(off-wstart))
	}
	if e.cfg.TornMode == 1 && len(ks) > 3 {
		ks = []int{ks[0], ks[len(ks)/2], ks[len(ks)-1]}
	}
	sort.Ints(ks)
	var out []*image
	prev := -1
	for _, k := range ks {
		if k <= 0 || k >= im.n || k == prev {
			continue
		}
		prev = k
		e.imgSeq++
		v := &image{dir: filepath.Join(e.root, fmt.Sprintf("img%d", e.imgSeq)), site: im.site + "#torn", op: "torn", path: im.path, n: k, hit: im.hit}
		if err := simfs.CopyTree(im.dir, v.dir); err != nil {
			panic(fmt.Sprintf("harness: copy torn image: %v", err))
		}
		p := filepath.Join(v.dir, im.path)
		fi, err := os.Stat(p)
		if err != nil || fi.IsDir() {
			os.RemoveAll(v.dir)
			continue
		}
		start := im.end - int64(im.n) + int64(k)
		if start < 0 || im.end > fi.Size() {
			os.RemoveAll(v.dir)
			continue
		}
		if fi.Size() > im.end {
			// preallocated file: the unwritten tail of the write stays zero
			f, err := os.OpenFile(p, os.O_RDWR, 0)
			if err != nil {
				panic(fmt.Sprintf("harness: %v", err))
			}
			if _, err := f.WriteAt(make([]byte, im.end-start), start); err != nil {
				panic(fmt.Sprintf("harness: %v", err))
			}
			f.Close()
		} else if err := os.Truncate(p, start); err != nil {
			panic(fmt.Sprintf("harness: %v", err))
		}
		e.res.Count("fault:torn-write", 1)
		out = append(out, v)
	}
	return out
}

// partialRemove derives a partial-removeall image: the hook fires before RemoveAll, so the image still has the tree.
func (e *exec) partialRemove(im *image) *image {
	if im.op != "removeall" {
		return nil
	}
	src := filepath.Join(im.dir, im.path)
	ents, err := os.ReadDir(src)
	if err != nil || len(ents) == 0 {
		return nil
	}
	e.imgSeq++
	v := &image{dir: filepath.Join(e.root, fmt.Sprintf("img%d", e.imgSeq)), site: im.site + "#partial", op: "partial-removeall", path: im.path, hit: im.hit}
	if err := simfs.CopyTree(im.dir, v.dir); err != nil {
		panic(fmt.Sprintf("harness: copy: %v", err))
	}
	k := 1 + e.rng.Intn(len(ents))
	for _, en := range ents[:k] {
		os.RemoveAll(filepath.Join(v.dir, im.path, en.Name()))
	}
	e.res.Count("fault:partial-removeall", 1)
	return v
}

func (e *exec) judgeImages(o Op, imgs []*image, pre, post *tsdbmodel.Model) {
	lower, upper := bounds(o, pre, post)
	var all []*image
	for _, im := range imgs {
		all = append(all, im)
		all = append(all, e.tornVariants(im)...)
		if v := e.partialRemove(im); v != nil {
			all = append(all, v)
		}
	}
	defer func() {
		for _, im := range all {
			if im != e.crashImg {
				os.RemoveAll(im.dir)
			}
		}
	}()
	for _, im := range all {
		if e.failed {
			return
		}
		e.judgeImage(o, im, lower, upper)
	}
}

// judgeImage is the C03 oracle for one crash state.
func (e *exec) judgeImage(o Op, im *image, lower, upper *tsdbmodel.Model) {
	where := fmt.Sprintf("crash during op %d (%s) at IO hit %d %s(%s %s n=%d)", e.opIdx, o.K, im.hit, im.site, im.op, im.path, im.n)
	e.res.Count("images_judged", 1)
	e.res.StateKeys = append(e.res.StateKeys, im.site+"|"+simfs.Layout(im.dir))
	// the judge works on its own copy when the image is needed later for a dirty restart
	dir := im.dir
	if im == e.crashImg {
		dir = im.dir + ".judge"
		if err := simfs.CopyTree(im.dir, dir); err != nil {
			panic(fmt.Sprintf("harness: %v", err))
		}
		defer os.RemoveAll(dir)
	}
	if e.prop == "C09" {
		// retention profile: the reload inside this open is judged by the retention monitor (events); content is not
		db, _, err := e.open(dir)
		if err != nil {
			e.fail("crash-reopen", "reopen-failed:"+siteClass(im.site), "%s: reopen failed: %v", where, err)
			return
		}
		db.Close()
		return
	}
	tornWAL := im.op == "torn" && strings.HasPrefix(im.path, "wal/")
	if tornWAL {
		// known finding: WAL repair path skips the WBL replay
		lower = lower.Clone()
		lower.TagOOOHeadCells(tsdbmodel.TagWBLSkipped)
	}
	sbc := snapshotBehindCheckpoint(dir)
	if sbc {
		// listed finding (ooo-mmap-chunks-dropped-on-duplicate-series-record): recovery loads the series from a chunk
		// snapshot that is older than the last WAL checkpoint, and the series records replayed from that checkpoint
		// reset the m-mapped (out-of-order) chunks of the series just loaded
		lower = lower.Clone()
		lower.TagOOOHeadCells(tsdbmodel.TagOOODupRef)
		e.res.Count("images_with_snapshot_behind_checkpoint", 1)
	}
	saved := e.dir
	if debugOn {
		os.RemoveAll("/dev/shm/verif-pre")
		simfs.CopyTree(dir, "/dev/shm/verif-pre")
	}
	// IO hooks of the recovery run must not be attributed to the main data dir
	db, _, err := e.open(dir)
	if err != nil {
		e.fail("crash-reopen", "reopen-failed:"+siteClass(im.site), "%s: reopen failed: %v", where, err)
		return
	}
	_ = saved
	// The recovery is a new process lifetime: findings that need a restart apply (with the image's own replay
	// cut-off), and samples the head alone held below a merged block's MaxTime are at risk.
	lower, upper = lower.Clone(), upper.Clone()
	lower.Epoch++
	upper.Epoch++
	cut := replayCutoff(db)
	lower.OpenCutoff, upper.OpenCutoff = cut, cut
	tagAtRisk(db, lower)
	oracle := "crash-recovery"
	if im.startup && strings.HasPrefix(im.site, "chunks.ChunkDiskMapper.deleteFiles") {
		// listed finding: the start-up repair of head chunk files deletes them oldest first; a kill in the middle leaves
		// the newer files, which then load cleanly and make the WAL replay skip the samples of the deleted files
		e.res.Count("tolerated:"+TagRepairOrder, 1)
		if e.cfg.KF != TagRepairOrder {
			db.Close()
			return
		}
		oracle = "crash-during-head-chunk-repair"
	}
	ok := e.verify(db, lower, upper, oracle, where, math.MinInt64)
	if !ok && oracle == "crash-during-head-chunk-repair" {
		if n := len(e.res.Violations); n > 0 && e.res.Violations[n-1].Signature == "missing" {
			e.res.Violations[n-1].Signature = "known:" + TagRepairOrder
		}
	}
	if !ok && debugOn {
		keep := "/dev/shm/verif-keep"
		os.RemoveAll(keep)
		simfs.CopyTree(im.dir, keep)
		fmt.Printf("DBG kept failing image in %s (note: already opened once)\n", keep)
	}
	if !ok {
		e.failed = true
		db.Close()
		return
	}
	// recovery must leave a writable database: append to a fresh series beyond everything, commit, reopen
	probe := labels.FromStrings("__name__", "probe", "x", "1")
	h := db.Head()
	t := int64(0)
	if h.MinTime() != math.MaxInt64 {
		t = h.MaxTime() + 1
	}
	app := db.Appender(context.Background())
	_, aerr := app.Append(0, probe, t, 42)
	if aerr == nil {
		aerr = app.Commit()
	} else {
		_ = app.Rollback()
	}
	if aerr != nil {
		db.Close()
		e.fail("crash-writable", "append-after-recovery-failed", "%s: append after recovery failed: %v", where, aerr)
		return
	}
	// what was recovered (for the in-flight part) must stay after the next clean restart
	got, qerr := querySamples(db, math.MinInt64, math.MaxInt64, allMatcher)
	if cerr := db.Close(); cerr != nil || qerr != nil {
		e.fail("crash-writable", "close-after-recovery-failed", "%s: close after recovery failed: %v %v", where, cerr, qerr)
		return
	}
	db2, _, err := e.open(dir)
	if err != nil {
		e.fail("crash-reopen", "second-reopen-failed", "%s: second reopen failed: %v", where, err)
		return
	}
	defer db2.Close()
	got2, err := querySamples(db2, math.MinInt64, math.MaxInt64, allMatcher)
	if err != nil {
		e.fail("crash-recovery-query-error", "query-error", "%s: query after second reopen failed: %v", where, err)
		return
	}
	if d := diffResults(got, got2); d != "" && !tornWAL && e.cfg.Snapshot && e.onlyMultiRefSeriesDiffer(got, got2) {
		// listed finding: m-mapped chunks written under a duplicate series ref are orphaned by a snapshot restart
		e.res.Count("tolerated:"+TagDupRefSnapshot, 1)
		if e.cfg.KF == TagDupRefSnapshot {
			e.fail("crash-second-reopen", "known:"+TagDupRefSnapshot, "%s: data recovered after the crash changed after a further clean (snapshot) restart: %s", where, d)
			return
		}
	} else if d != "" && !tornWAL && sbc && e.cfg.Snapshot && e.subsetModuloCandidates(got2, got) == "" {
		// listed finding (ooo-mmap-chunks-dropped-on-duplicate-series-record, in-order shape): the recovery loaded the
		// series from a chunk snapshot not newer than the last checkpoint; the checkpoint's series records reset the
		// m-mapped chunks just attached, which stay on disk, and at the next snapshot restart such a chunk makes the
		// snapshot's (newer) head chunk of the series be discarded
		e.res.Count("tolerated:"+tsdbmodel.TagOOODupRef, 1)
		if e.cfg.KF == tsdbmodel.TagOOODupRef {
			e.fail("crash-second-reopen", "known:"+tsdbmodel.TagOOODupRef, "%s: data recovered after the crash is lost after a further clean (snapshot) restart: %s", where, d)
			return
		}
	} else if d2, _ := e.diffModuloCandidates(got, got2); d != "" && d2 != "" && !tornWAL {
		if debugOn {
			os.RemoveAll("/dev/shm/verif-keep")
			simfs.CopyTree("/dev/shm/verif-pre", "/dev/shm/verif-keep")
			fmt.Printf("DBG kept crash image (before recovery) in /dev/shm/verif-keep\nDBG state after the second reopen:\n")
			dumpDB(db2)
		}
		e.fail("crash-second-reopen", "recovered-data-changed-after-reopen", "%s: data recovered after the crash changed after a further clean restart: %s", where, d)
		return
	}
	pr, err := querySamples(db2, math.MinInt64, math.MaxInt64, labels.MustNewMatcher(labels.MatchEqual, "__name__", "probe"))
	if err != nil || len(pr[probe.String()]) != 1 || pr[probe.String()][0].F != 42 {
		e.fail("crash-writable", "write-after-recovery-lost", "%s: sample written after recovery not kept across restart (got %v, err %v)", where, pr, err)
	}
}

// TagRepairOrder is the known finding: when loading the head chunk files fails at start-up with an error that is not a
// CorruptionErr (e.g. "out of sequence m-mapped chunk", which duplicate series refs produce), all head chunk files are
// discarded with Truncate(MaxUint32), oldest first. A process kill in the middle leaves only newer files; the next start
// loads them without error, takes their MaxTime as already persisted and skips the WAL samples of the deleted files.
const TagRepairOrder = "kill-during-head-chunk-repair-leaves-newer-files-and-loses-wal-samples"

// TagDupRefSnapshot is the known finding: after a WAL replay that met duplicate series records (a series garbage
// collected and re-created under a new ref while the old record was still in the WAL) the surviving series keeps the
// old ref, but its m-mapped chunks are stored under the newer ref. A chunk snapshot records the surviving ref only;
// the next restart from that snapshot skips the WAL segment with the duplicate record, cannot map the chunk files'
// ref to the series and drops those chunks.
const TagDupRefSnapshot = "mmapped-chunks-of-duplicate-series-ref-lost-after-snapshot-restart"

// onlyMultiRefSeriesDiffer reports whether every series on which a and b differ has been known under several refs.
func (e *exec) onlyMultiRefSeriesDiffer(a, b qresult) bool {
	multi := map[string]bool{}
	for _, ms := range e.m.Series {
		if ms.MultiRef || ms.GCd {
			multi[ms.Labels.String()] = true
		}
	}
	keys := map[string]bool{}
	for k := range a {
		keys[k] = true
	}
	for k := range b {
		keys[k] = true
	}
	for k := range keys {
		if diffResults(qresult{k: a[k]}, qresult{k: b[k]}) != "" && !multi[k] {
			return false
		}
	}
	return true
}

// snapshotBehindCheckpoint reports whether dir holds a chunk snapshot whose WAL segment index is not beyond the last
// WAL checkpoint (a start from it replays the checkpoint's series records on top of the snapshot's series).
func snapshotBehindCheckpoint(dir string) bool {
	snaps, _ := filepath.Glob(filepath.Join(dir, "chunk_snapshot.*"))
	cps, _ := filepath.Glob(filepath.Join(dir, "wal", "checkpoint.*"))
	if len(snaps) == 0 || len(cps) == 0 {
		return false
	}
	maxCP := -1
	for _, c := range cps {
		var n int
		if _, err := fmt.Sscanf(filepath.Base(c), "checkpoint.%d", &n); err == nil && n > maxCP {
			maxCP = n
		}
	}
	return snapIndex(snaps) >= 0 && snapIndex(snaps) <= maxCP
}

func siteClass(s string) string {
	if i := strings.Index(s, "#"); i >= 0 {
		return s[:i]
	}
	return s
}

func diffResults(a, b qresult) string {
	keys := map[string]bool{}
	for k := range a {
		keys[k] = true
	}
	for k := range b {
		keys[k] = true
	}
	var ks []string
	for k := range keys {
		ks = append(ks, k)
	}
	sort.Strings(ks)
	for _, k := range ks {
		x, y := a[k], b[k]
		if len(x) != len(y) {
			return fmt.Sprintf("series %s: %d samples before, %d after", k, len(x), len(y))
		}
		for i := range x {
			if x[i].T != y[i].T || !tsdbmodel.ValueEqual(x[i], y[i]) {
				return fmt.Sprintf("series %s: sample %d differs: %s vs %s", k, i, x[i], y[i])
			}
		}
	}
	return ""
}

var _ = storage.ErrNotFound
