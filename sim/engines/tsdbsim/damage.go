package tsdbsim

import (
	"context"
	"fmt"
	"math"
	"os"
	"path/filepath"
	"sort"
	"strings"

	"github.com/prometheus/prometheus/model/labels"

	"github.com/prometheus/prometheus/storage"
	"github.com/prometheus/prometheus/tsdb"
	"github.com/prometheus/prometheus/tsdb/chunkenc"
	"github.com/prometheus/prometheus/tsdb/chunks"
	"github.com/prometheus/prometheus/tsdb/index"

	"github.com/prometheus/prometheus/tsdb/record"
	"github.com/prometheus/prometheus/tsdb/wlog"
	"verif/sim/core/simfs"
	"verif/sim/model/tsdbmodel"
	"verif/sim/model/walorder"
)

// ---- C24: a damaged chunk record or series index entry is reported, never returned as data ----

type realBytes []byte

func (b realBytes) Len() int                           { return len(b) }
func (b realBytes) Range(start, end int) []byte        { return b[start:end] }
func (b realBytes) Sub(start, end int) index.ByteSlice { return b[start:end] }

// readBlock returns sample-level and chunk-level content of one block directory (any error is returned).
func readBlock(dir string) (s, c qresult, err error) {
	s, c, serr, cerr := readBlockPaths(dir)
	if serr != nil {
		return nil, nil, serr
	}
	return s, c, cerr
}

// readBlockPaths reads a block through the sample querier and through the chunk querier and reports the outcome of
// each path on its own: a path that returns no error has returned data, whatever the other path says.
func readBlockPaths(dir string) (s, c qresult, serr, cerr error) {
	defer func() {
		if r := recover(); r != nil {
			serr = fmt.Errorf("panic while reading the block: %v", r)
			cerr = serr
		}
	}()
	b, err := tsdb.OpenBlock(nil, dir, nil, nil)
	if err != nil {
		return nil, nil, err, err
	}
	defer b.Close()
	s, serr = querySamples(blockSource{b}, math.MinInt64, math.MaxInt64, allMatcher)
	c, cerr = queryChunks(blockSource{b}, math.MinInt64, math.MaxInt64, allMatcher)
	return s, c, serr, cerr
}

// indexRoundTrip reads the index of a block back against itself: the series entries (reached through the all-postings
// list) are what was written; label names, the sorted values of every name, the postings of every name/value pair, the
// postings of "every value of a name" must be exactly what those series imply, and the sorted symbol table must hold
// every string they use. "" = consistent.
func indexRoundTrip(dir string) (verdict string, nseries int) {
	defer func() {
		if r := recover(); r != nil {
			verdict = fmt.Sprintf("panic while reading the index: %v", r)
		}
	}()
	ctx := context.Background()
	b, err := tsdb.OpenBlock(nil, dir, nil, nil)
	if err != nil {
		return "open: " + err.Error(), 0
	}
	defer b.Close()
	ir, err := b.Index()
	if err != nil {
		return "index: " + err.Error(), 0
	}
	defer ir.Close()
	k, v := index.AllPostingsKey()
	all, err := ir.Postings(ctx, k, v)
	if err != nil {
		return "all postings: " + err.Error(), 0
	}
	byPair := map[string]map[string][]storage.SeriesRef{}
	var bldr labels.ScratchBuilder
	var chks []chunks.Meta
	prev := labels.EmptyLabels()
	for all.Next() {
		ref := all.At()
		if err := ir.Series(ref, &bldr, &chks); err != nil {
			return fmt.Sprintf("series %d: %v", ref, err), nseries
		}
		l := bldr.Labels()
		if nseries > 0 && labels.Compare(prev, l) >= 0 {
			return fmt.Sprintf("series entries are not in label order: %s before %s", prev, l), nseries
		}
		prev = l.Copy()
		nseries++
		l.Range(func(x labels.Label) {
			if byPair[x.Name] == nil {
				byPair[x.Name] = map[string][]storage.SeriesRef{}
			}
			byPair[x.Name][x.Value] = append(byPair[x.Name][x.Value], ref)
		})
	}
	if all.Err() != nil {
		return "all postings: " + all.Err().Error(), nseries
	}
	drain := func(p index.Postings) ([]storage.SeriesRef, error) {
		var out []storage.SeriesRef
		for p.Next() {
			out = append(out, p.At())
		}
		return out, p.Err()
	}
	same := func(a, b []storage.SeriesRef) bool {
		if len(a) != len(b) {
			return false
		}
		for i := range a {
			if a[i] != b[i] {
				return false
			}
		}
		return true
	}
	var names []string
	for n := range byPair {
		names = append(names, n)
	}
	sort.Strings(names)
	gotNames, err := ir.LabelNames(ctx)
	if err != nil {
		return "label names: " + err.Error(), nseries
	}
	if strings.Join(gotNames, "\x00") != strings.Join(names, "\x00") {
		return fmt.Sprintf("label names read back as %v, the series entries hold %v", gotNames, names), nseries
	}
	syms := map[string]bool{}
	for _, n := range names {
		syms[n] = true
		var vals []string
		var union []storage.SeriesRef
		for val, refs := range byPair[n] {
			vals = append(vals, val)
			union = append(union, refs...)
			syms[val] = true
		}
		sort.Strings(vals)
		sort.Slice(union, func(i, j int) bool { return union[i] < union[j] })
		got, err := ir.SortedLabelValues(ctx, n, nil)
		if err != nil {
			return fmt.Sprintf("label values of %s: %v", n, err), nseries
		}
		if strings.Join(got, "\x00") != strings.Join(vals, "\x00") {
			return fmt.Sprintf("label values of %q read back as %v, the series entries hold %v", n, got, vals), nseries
		}
		for _, val := range vals {
			p, err := ir.Postings(ctx, n, val)
			if err != nil {
				return fmt.Sprintf("postings of %s=%q: %v", n, val, err), nseries
			}
			refs, err := drain(p)
			if err != nil {
				return fmt.Sprintf("postings of %s=%q: %v", n, val, err), nseries
			}
			if !same(refs, byPair[n][val]) {
				return fmt.Sprintf("postings of %s=%q read back as %v, the series entries with that label are %v", n, val, refs, byPair[n][val]), nseries
			}
		}
		refs, err := drain(ir.PostingsForAllLabelValues(ctx, n))
		if err != nil {
			return fmt.Sprintf("postings of every value of %s: %v", n, err), nseries
		}
		sort.Slice(refs, func(i, j int) bool { return refs[i] < refs[j] })
		if !same(refs, union) {
			return fmt.Sprintf("postings of every value of %q read back as %v, the series entries with that label are %v", n, refs, union), nseries
		}
	}
	si := ir.Symbols()
	prevSym, first := "", true
	for si.Next() {
		x := si.At()
		if !first && x <= prevSym {
			return fmt.Sprintf("symbols out of order: %q after %q", x, prevSym), nseries
		}
		prevSym, first = x, false
		delete(syms, x) // the table may hold more than the series use ("" always; symbols of series dropped while writing)
	}
	if si.Err() != nil {
		return "symbols: " + si.Err().Error(), nseries
	}
	for x := range syms {
		return fmt.Sprintf("symbol %q of a series entry is not in the symbol table", x), nseries
	}
	return "", nseries
}

// blockDamageCheck is the C24 oracle, run on the blocks a clean shutdown left behind: one byte of a chunk record or of
// the series section of the index is altered (bit flip or zeroed) in a copy of the block; reading the copy must either
// fail or return exactly what the undamaged block returns.
func (e *exec) blockDamageCheck(where string) {
	ents, _ := os.ReadDir(e.dir)
	var blocks []string
	for _, en := range ents {
		if en.IsDir() && len(en.Name()) == 26 {
			if _, err := os.Stat(filepath.Join(e.dir, en.Name(), "meta.json")); err == nil {
				blocks = append(blocks, en.Name())
			}
		}
	}
	if len(blocks) == 0 {
		return
	}
	sort.Strings(blocks)
	bn := blocks[e.rng.Intn(len(blocks))]
	src := filepath.Join(e.dir, bn)
	wantS, wantC, err := readBlock(src)
	if err != nil {
		e.fail("block-roundtrip", "undamaged-block-unreadable", "%s: block %s cannot be read: %v", where, bn, err)
		return
	}
	e.res.Count("blocks_read_back", 1)
	v, n := indexRoundTrip(src)
	e.res.Evals++
	e.res.Count("block_index_round_trips", 1)
	if n%32 == 1 && n > 1 {
		e.res.Count("block_index_round_trips_with_32k_plus_1_series", 1)
	}
	if v != "" {
		e.fail("block-roundtrip", "index-reads-back-differently", "%s: block %s (%d series): %s", where, bn, n, v)
		return
	}
	nDamage := 6
	for i := 0; i < nDamage && !e.failed; i++ {
		dst := e.scratch("blk")
		if err := simfs.CopyTree(src, dst); err != nil {
			panic("harness: " + err.Error())
		}
		var target string
		var lo, hi int // byte range eligible for damage
		if e.rng.Chance(0.5) {
			segs, _ := filepath.Glob(filepath.Join(dst, "chunks", "0*"))
			if len(segs) == 0 {
				os.RemoveAll(dst)
				continue
			}
			target = segs[e.rng.Intn(len(segs))]
			fi, _ := os.Stat(target)
			lo, hi = 8, int(fi.Size()) // everything behind the segment header is chunk records
		} else {
			target = filepath.Join(dst, "index")
			b, err := os.ReadFile(target)
			if err != nil {
				os.RemoveAll(dst)
				continue
			}
			toc, err := index.NewTOCFromByteSlice(realBytes(b))
			if err != nil {
				os.RemoveAll(dst)
				continue
			}
			lo, hi = int(toc.Series), int(toc.LabelIndices) // the series entries
		}
		if hi <= lo {
			os.RemoveAll(dst)
			continue
		}
		b, err := os.ReadFile(target)
		if err != nil || len(b) < hi {
			os.RemoveAll(dst)
			continue
		}
		pos := lo + e.rng.Intn(hi-lo)
		old := b[pos]
		if e.rng.Chance(0.7) {
			b[pos] ^= byte(1 << uint(e.rng.Intn(8)))
		} else {
			b[pos] = 0
		}
		if b[pos] == old {
			os.RemoveAll(dst)
			continue
		}
		if err := os.WriteFile(target, b, 0o666); err != nil {
			panic("harness: " + err.Error())
		}
		kind := "chunk-record"
		if filepath.Base(target) == "index" {
			kind = "series-entry"
		}
		e.res.Count("fault:block-byte-altered:"+kind, 1)
		gotS, gotC, serr, cerr := readBlockPaths(dst)
		os.RemoveAll(dst)
		e.res.Evals++
		if serr != nil && cerr != nil {
			e.res.Count("block_damage_reported", 1)
			continue
		}
		if serr != nil || cerr != nil {
			e.res.Count("block_damage_reported_by_one_read_path", 1)
		}
		if serr != nil {
			gotS = wantS
		}
		if cerr != nil {
			gotC = wantC
		}
		if d := diffResults(wantS, gotS); d != "" {
			e.fail("block-damage", "altered-"+kind+"-returned-as-data", "%s: block %s with byte %d of %s changed from %#x to %#x is read without error but returns other data: %s", where, bn, pos, kind, old, b[pos], d)
			return
		}
		if d := diffResults(wantC, gotC); d != "" {
			e.fail("block-damage", "altered-"+kind+"-returned-as-data", "%s: block %s with byte %d of %s changed from %#x to %#x is read without error but its chunks hold other data: %s", where, bn, pos, kind, old, b[pos], d)
			return
		}
		e.res.Count("block_damage_harmless", 1) // e.g. padding between series entries
	}
}

// ---- C04: damaged WAL / WBL / checkpoint / head chunk data never yields wrong samples ----

func newestFile(glob string, minSize int64) string {
	fs, _ := filepath.Glob(glob)
	sort.Strings(fs)
	for i := len(fs) - 1; i >= 0; i-- {
		if fi, err := os.Stat(fs[i]); err == nil && !fi.IsDir() && fi.Size() >= minSize {
			return fs[i]
		}
	}
	return ""
}

// usedLen is the length of b without its trailing zero bytes (preallocated / page-padded files).
func usedLen(b []byte) int {
	n := len(b)
	for n > 0 && b[n-1] == 0 {
		n--
	}
	return n
}

// logDamageCheck is the C04 oracle on a directory image (clean shutdown or process kill): one of the newest WAL
// segment, WBL segment, checkpoint segment or head chunk file of a copy is truncated at a drawn offset or gets one byte
// altered. Opening the copy must either fail and leave every other pre-existing file untouched, or succeed with
//   - nothing that an undamaged open of the same image does not return (no unwritten series, samples or values),
//   - everything the blocks hold,
//   - (damage outside WAL and checkpoint) every in-order head sample, because the intact WAL still holds it,
//
// and the repaired database must accept a new write and keep it, and its content, across another restart.
func (e *exec) logDamageCheck(img, where string) {
	if walRefReuse(img) {
		// listed finding series-ref-reused-after-snapshot-restart: the WAL uses one ref for two label sets; any damage
		// that makes recovery fall back to a full WAL replay shows that finding, not a property of damage handling
		e.res.Count("tolerated:"+TagRefReuseSnapshot, 1)
		return
	}
	refDir := e.scratch("dmgref")
	defer os.RemoveAll(refDir)
	if err := simfs.CopyTree(img, refDir); err != nil {
		panic("harness: " + err.Error())
	}
	ref, _, err := e.open(refDir)
	if err != nil {
		e.fail("damage-reference", "undamaged-open-failed", "%s: open of the undamaged image failed: %v", where, err)
		return
	}
	full, qerr := querySamples(ref, math.MinInt64, math.MaxInt64, allMatcher)
	inBlocks := qresult{}
	for _, b := range ref.Blocks() {
		if qerr != nil {
			break
		}
		var r qresult
		r, qerr = querySamples(blockSource{b}, math.MinInt64, math.MaxInt64, allMatcher)
		for k, v := range r {
			inBlocks[k] = append(inBlocks[k], v...)
		}
	}
	ref.Close()
	if qerr != nil {
		e.fail("damage-reference", "undamaged-query-failed", "%s: query of the undamaged image failed: %v", where, qerr)
		return
	}
	for round := 0; round < 3 && !e.failed; round++ {
		dir := e.scratch("dmg")
		if err := simfs.CopyTree(img, dir); err != nil {
			panic("harness: " + err.Error())
		}
		classes := []string{"wal", "wbl", "chunks_head", "checkpoint"}
		class := classes[e.rng.Intn(len(classes))]
		// C22 runs use this sweep for their first clause only (a sample is only ever returned under the labels it was
		// appended with, also when the tail of a log is lost and refs are handed out again afterwards): the fault is a
		// cut of the newest WAL or WBL segment, and only the attribution checks apply
		refOnly := e.prop == "C22"
		if refOnly {
			class = []string{"wal", "wal", "wbl"}[e.rng.Intn(3)]
		}
		var target string
		switch class {
		case "wal":
			target = newestFile(filepath.Join(dir, "wal", "0*"), 1)
		case "wbl":
			target = newestFile(filepath.Join(dir, "wbl", "0*"), 1)
		case "chunks_head":
			target = newestFile(filepath.Join(dir, "chunks_head", "0*"), 9)
		case "checkpoint":
			target = newestFile(filepath.Join(dir, "wal", "checkpoint.*", "0*"), 1)
		}
		if target == "" {
			os.RemoveAll(dir)
			continue
		}
		b, err := os.ReadFile(target)
		used := usedLen(b)
		if err != nil || used < 2 {
			os.RemoveAll(dir)
			continue
		}
		how := "truncate"
		pos := e.rng.Intn(used)
		if class == "chunks_head" && e.rng.Chance(0.4) {
			// cut exactly where a chunk record starts (uniform offsets almost never land there)
			if offs := headChunkOffsets(filepath.Join(dir, "chunks_head"), filepath.Base(target), e.scratch("hcoffs")); len(offs) > 0 {
				pos = offs[e.rng.Intn(len(offs))]
				b = b[:pos]
				e.res.Count("fault:chunks_head-cut-at-chunk-start", 1)
				how = "truncate"
				goto damaged
			}
		}
		if refOnly && e.rng.Chance(0.35) && used > 48 {
			pos = e.rng.Intn(48) // the label records of the series created since the last restart are the first to go
		}
		if refOnly || e.rng.Chance(0.5) {
			b = b[:pos]
		} else {
			how = "alter"
			old := b[pos]
			if e.rng.Chance(0.6) {
				b[pos] ^= byte(1 << uint(e.rng.Intn(8)))
			} else {
				b[pos] = 0
			}
			if b[pos] == old {
				b[pos] ^= 0x10
			}
		}
	damaged:
		if err := os.WriteFile(target, b, 0o666); err != nil {
			panic("harness: " + err.Error())
		}
		rel, _ := filepath.Rel(dir, target)
		e.res.Count("fault:"+class+"-"+how, 1)
		desc := fmt.Sprintf("%s: %s of %s at byte %d", where, how, rel, pos)
		hcClean := class == "chunks_head" && headChunkFilesReadCleanly(filepath.Join(dir, "chunks_head"), e.scratch("hcprobe"))
		before, _ := simfs.Digest(dir)
		if debugOn {
			os.RemoveAll("/dev/shm/verif-keep")
			simfs.CopyTree(dir, "/dev/shm/verif-keep")
			fmt.Printf("DBG damaged image kept in /dev/shm/verif-keep (%s)\n", desc)
		}
		db, _, oerr := e.open(dir)
		e.res.Evals++
		if oerr != nil {
			after, _ := simfs.Digest(dir)
			for _, d := range simfs.DiffDigest(before, after) {
				if (strings.HasPrefix(d, "changed ") || strings.HasPrefix(d, "removed ")) && !strings.Contains(d, rel) {
					e.fail("damage-open-failed", "failed-open-touched-undamaged-files", "%s: open failed (%v) and %s", desc, oerr, d)
				}
			}
			e.res.Count("damage_open_failed", 1)
			e.res.LeakedGoroutinesExpected = true // tsdb.Open does not stop the log writers it started when it fails
			os.RemoveAll(dir)
			continue
		}
		got, gerr := querySamples(db, math.MinInt64, math.MaxInt64, allMatcher)
		if gerr != nil {
			db.Close()
			os.RemoveAll(dir)
			e.fail("damage-query", "query-error-after-repair", "%s: query after the repairing open failed: %v", desc, gerr)
			return
		}
		// (a) nothing that was not written / that the undamaged image does not hold
		if d := e.notEverWritten(got); d != "" {
			db.Close()
			os.RemoveAll(dir)
			e.fail("damage-content", "damaged-"+class+"-yields-data-never-written", "%s: %s", desc, d)
			return
		}
		// (b) block data is untouched by log damage
		if d := e.subsetModuloCandidates(inBlocks, got); d != "" && !refOnly {
			db.Close()
			os.RemoveAll(dir)
			e.fail("damage-content", "damaged-"+class+"-loses-block-data", "%s: %s", desc, d)
			return
		}
		// (c) with WAL and checkpoint intact every in-order head sample is still in the WAL
		if (class == "wbl" || class == "chunks_head") && !refOnly {
			must := qresult{}
			for k, v := range full {
				for _, s := range v {
					// the intact out-of-order WAL holds the out-of-order head data as well when only a head chunk file is hurt
					if (!e.cellOOO(k, s.T) || class == "chunks_head") && e.cellKF(k, s.T) == "" {
						must[k] = append(must[k], s)
					}
				}
			}
			if d := e.subsetModuloCandidates(must, got); d != "" {
				if split := markerGroupSplit(img, filepath.Base(target), pos, e.scratch("mgs")); class == "chunks_head" && len(split) > 0 && e.onlyOOOOf(split, must, got) {
					// listed finding: out-of-order chunks m-mapped together (one marker record), the damage removes the later
					// one(s) only; the surviving marker makes the replay drop the WBL samples of all of them
					e.res.Count("tolerated:"+TagMarkerGroupSplit, 1)
					if e.cfg.KF == TagMarkerGroupSplit {
						db.Close()
						os.RemoveAll(dir)
						e.fail("damage-content", "known:"+TagMarkerGroupSplit, "%s: %s", desc, d)
						return
					}
				} else if hcClean && e.cfg.Snapshot {
					// listed finding (C23): the snapshot is kept when a head chunk file lost chunks but still reads cleanly
					e.res.Count("tolerated:"+TagSnapshotTrustsHeadChunks, 1)
				} else if walRefReuse(img) || e.anyMultiRef() {
					e.res.Count("tolerated:duplicate-series-ref-findings", 1)
				} else {
					db.Close()
					os.RemoveAll(dir)
					e.fail("damage-content", "damaged-"+class+"-loses-in-order-data-the-wal-holds", "%s: %s", desc, d)
					return
				}
			}
		}
		e.res.Count("damage_repaired_opens", 1)
		// in half of the cases a clean restart lies between the repair and the next write
		extraRestart := e.rng.Chance(0.5)
		if extraRestart {
			if cerr := db.Close(); cerr != nil {
				os.RemoveAll(dir)
				e.fail("damage-writable", "close-after-repair-failed", "%s: close after the repairing open failed: %v", desc, cerr)
				return
			}
			db, _, err = e.open(dir)
			if err != nil {
				os.RemoveAll(dir)
				e.fail("damage-writable", "second-open-failed", "%s: second open after repair failed: %v", desc, err)
				return
			}
		}
		// (d) writable, and stable across another restart
		probe := labels.FromStrings("__name__", "probe", "x", "1")
		// an in-order timestamp: above the head and above every block
		t := int64(0)
		if db.Head().MinTime() != math.MaxInt64 {
			t = db.Head().MaxTime() + 1
		}
		for _, b := range db.Blocks() {
			if b.Meta().MaxTime >= t {
				t = b.Meta().MaxTime + 1
			}
		}
		app := db.Appender(context.Background())
		_, aerr := app.Append(0, probe, t, 42)
		if aerr == nil {
			aerr = app.Commit()
		} else {
			_ = app.Rollback()
		}
		cerr := db.Close()
		if aerr != nil || cerr != nil {
			os.RemoveAll(dir)
			e.fail("damage-writable", "append-after-repair-failed", "%s: append / close after the repairing open failed: %v / %v", desc, aerr, cerr)
			return
		}
		db2, _, err := e.open(dir)
		if err != nil {
			os.RemoveAll(dir)
			e.fail("damage-writable", "second-open-failed", "%s: second open after repair failed: %v", desc, err)
			return
		}
		got2, _ := querySamples(db2, math.MinInt64, math.MaxInt64, allMatcher)
		pr, _ := querySamples(db2, math.MinInt64, math.MaxInt64, labels.MustNewMatcher(labels.MatchEqual, "__name__", "probe"))
		db2.Close()
		os.RemoveAll(dir)
		if debugOn {
			fmt.Printf("DBG probe t=%d after second open: %v (all: %v)\n", t, pr, got2)
		}
		kept := false
		for _, x := range pr[probe.String()] {
			if x.T == t && x.Kind == tsdbmodel.KFloat && x.F == 42 {
				kept = true
			}
		}
		if !kept && len(pr[probe.String()]) > 0 && (class == "wal" || class == "checkpoint") && !extraRestart {
			// listed finding (see below): the new series inherited an out-of-order WAL sample of another series at the very
			// timestamp of its own sample
			e.res.Count("tolerated:"+tsdbmodel.TagWBLSkipped, 1)
			if e.cfg.KF == tsdbmodel.TagWBLSkipped {
				e.fail("damage-content", "known:"+tsdbmodel.TagWBLSkipped, "%s: the series created after the repair returns %v instead of %d:42 (its ref is still used by out-of-order WAL records)", desc, pr[probe.String()], t)
				return
			}
			continue
		}
		if !kept && refOnly {
			continue // durability of the write after a repair is C04's clause
		}
		if !kept {
			e.fail("damage-writable", "write-after-repair-lost", "%s: the sample written after the repair is gone after the next restart", desc)
			return
		}
		if n := len(pr[probe.String()]); n != 1 {
			// the new series inherited samples of another series: its ref was reissued although a log still uses it
			if (class == "wal" || class == "checkpoint") && !extraRestart {
				// listed finding: the open that repairs the WAL does not replay the WBL, so WBL records of series whose
				// series record was cut off neither load nor reserve their ref
				e.res.Count("tolerated:"+tsdbmodel.TagWBLSkipped, 1)
				if e.cfg.KF == tsdbmodel.TagWBLSkipped {
					e.fail("damage-content", "known:"+tsdbmodel.TagWBLSkipped, "%s: the series created after the repair returns %d samples that were written to another series (its ref is still used by out-of-order WAL records)", desc, n-1)
					return
				}
			} else {
				e.fail("damage-content", "damaged-"+class+"-yields-data-never-written", "%s: the series created after the repair returns %v, of which only %d:42 was written to it", desc, pr[probe.String()], t)
				return
			}
		}
		delete(got2, probe.String())
		if d := e.notEverWritten(got2); d != "" {
			e.fail("damage-content", "damaged-"+class+"-yields-data-never-written", "%s (after the second restart): %s", desc, d)
			return
		}
	}
}

// notEverWritten returns a description of the first returned sample that no committed append ever wrote ("" if none).
// A log cut short legitimately shows an earlier state (a sample whose deletion record is lost comes back); it never
// shows a series, timestamp or value that was not written.
func (e *exec) notEverWritten(got qresult) string {
	keys := make([]string, 0, len(got))
	for k := range got {
		keys = append(keys, k)
	}
	sort.Strings(keys)
	for _, k := range keys {
		w := e.ever[k]
		if w == nil {
			return fmt.Sprintf("series %s was never written", k)
		}
		for _, s := range got[k] {
			ok := false
			for _, v := range w[s.T] {
				if tsdbmodel.ValueEqual(v, s) {
					ok = true
					break
				}
			}
			if !ok {
				return fmt.Sprintf("series %s: %s was never written (written at that timestamp: %v)", k, s, w[s.T])
			}
		}
	}
	return ""
}

// headChunkOffsets returns the file offsets at which the chunk records of one head chunk file start.
func headChunkOffsets(dir, file, scratch string) []int {
	defer os.RemoveAll(scratch)
	if err := simfs.CopyTree(dir, filepath.Join(scratch, "chunks_head")); err != nil {
		return nil
	}
	cdm, err := chunks.NewChunkDiskMapper(nil, filepath.Join(scratch, "chunks_head"), chunkenc.NewPool(), chunks.DefaultWriteBufferSize, chunks.DefaultWriteQueueSize)
	if err != nil {
		return nil
	}
	defer cdm.Close()
	var want int
	fmt.Sscanf(file, "%d", &want)
	var offs []int
	_ = cdm.IterateAllChunks(func(_ chunks.HeadSeriesRef, ref chunks.ChunkDiskMapperRef, _, _ int64, _ uint16, _ chunkenc.Encoding, _ bool) error {
		if seq, off := ref.Unpack(); seq == want {
			offs = append(offs, off)
		}
		return nil
	})
	return offs
}

// TagMarkerGroupSplit is the known finding (C04): an out-of-order head chunk that holds samples of several types is
// m-mapped as several chunks and logged as one WBL marker record; when damage to the head chunk file removes a later
// chunk of that group but not the first, the replay honours the surviving marker and drops the WBL samples that
// precede the record - including those of the lost chunk, which the intact WBL still holds.
const TagMarkerGroupSplit = "ooo-samples-lost-when-head-chunk-damage-splits-chunks-m-mapped-together"

// markerGroupSplit returns the label sets of the series for which the undamaged image img has a WBL marker record that
// names one chunk of head chunk file `file` before and one at or behind the chunk hit at byte pos.
func markerGroupSplit(img, file string, pos int, scratch string) map[string]bool {
	offs := headChunkOffsets(filepath.Join(img, "chunks_head"), file, scratch)
	lostFrom := -1
	for _, o := range offs {
		if o <= pos && o > lostFrom {
			lostFrom = o
		}
	}
	if lostFrom < 0 {
		return nil
	}
	var want int
	fmt.Sscanf(file, "%d", &want)
	sr, err := wlog.NewSegmentsReader(filepath.Join(img, "wbl"))
	if err != nil {
		return nil
	}
	defer sr.Close()
	refs := map[chunks.HeadSeriesRef]bool{}
	dec := record.NewDecoder(labels.NewSymbolTable(), nil)
	r := wlog.NewReader(sr)
	for r.Next() {
		rec := r.Record()
		if dec.Type(rec) != record.MmapMarkers {
			continue
		}
		ms, err := dec.MmapMarkers(rec, nil)
		if err != nil {
			break
		}
		before, behind := map[chunks.HeadSeriesRef]bool{}, map[chunks.HeadSeriesRef]bool{}
		for _, m := range ms {
			seq, off := m.MmapRef.Unpack()
			if seq != want {
				continue
			}
			if off < lostFrom {
				before[m.Ref] = true
			} else {
				behind[m.Ref] = true
			}
		}
		for ref := range before {
			if behind[ref] {
				refs[ref] = true
			}
		}
	}
	if len(refs) == 0 {
		return nil
	}
	out := map[string]bool{}
	for _, en := range walorder.ReadWAL(filepath.Join(img, "wal")).Entries {
		if en.What == "series" && refs[chunks.HeadSeriesRef(en.Ref)] {
			out[en.Labels] = true
		}
	}
	return out
}

// onlyOOOOf reports whether everything of must that got lacks is an out-of-order sample of one of the series in set.
func (e *exec) onlyOOOOf(set map[string]bool, must, got qresult) bool {
	rest := qresult{}
	for k, v := range must {
		for _, s := range v {
			if set[k] && e.cellOOO(k, s.T) {
				continue
			}
			rest[k] = append(rest[k], s)
		}
	}
	return e.subsetModuloCandidates(rest, got) == ""
}

// anyMultiRef reports whether some series has been known under several refs (duplicate series records: listed findings
// make head data of such series depend on which files survive).
func (e *exec) anyMultiRef() bool {
	for _, ms := range e.m.Series {
		if ms.MultiRef || ms.GCd || ms.OrphanTainted {
			return true
		}
	}
	return false
}

// subsetModuloCandidates returns a description of the first sample of a that b lacks or holds with another value
// (two writers of one timestamp: either stored value is accepted); "" if a is contained in b.
func (e *exec) subsetModuloCandidates(a, b qresult) string {
	keys := make([]string, 0, len(a))
	for k := range a {
		keys = append(keys, k)
	}
	sort.Strings(keys)
	cells := map[string]map[int64]*tsdbmodel.Cell{}
	for _, ms := range e.m.Series {
		cells[ms.Labels.String()] = ms.Cells
	}
	for _, k := range keys {
		have := map[int64]tsdbmodel.Sample{}
		for _, s := range b[k] {
			have[s.T] = s
		}
		for _, s := range a[k] {
			h, ok := have[s.T]
			if !ok {
				return fmt.Sprintf("series %s: %s is missing", k, s)
			}
			if !tsdbmodel.ValueEqual(h, s) {
				if c := cells[k][s.T]; c != nil && len(c.Cands) > 1 {
					continue
				}
				return fmt.Sprintf("series %s: %s where %s is expected", k, s, h)
			}
		}
	}
	return ""
}

// ---- C07: compaction preserves the union of its inputs ----

// blockContentStats walks every chunk of a block directory and returns what the statistics in its meta must say.
func blockContentStats(dir string) (series, chunksN, samples, floats, hists uint64, err error) {
	defer func() {
		if r := recover(); r != nil {
			err = fmt.Errorf("panic while reading the block: %v", r)
		}
	}()
	b, err := tsdb.OpenBlock(nil, dir, nil, nil)
	if err != nil {
		return 0, 0, 0, 0, 0, err
	}
	defer b.Close()
	q, err := tsdb.NewBlockChunkQuerier(b, math.MinInt64, math.MaxInt64)
	if err != nil {
		return 0, 0, 0, 0, 0, err
	}
	defer q.Close()
	ss := q.Select(context.Background(), true, nil, labels.MustNewMatcher(labels.MatchRegexp, "__name__", ".*"))
	for ss.Next() {
		series++
		it := ss.At().Iterator(nil)
		for it.Next() {
			chunksN++
			ci := it.At().Chunk.Iterator(nil)
			for vt := ci.Next(); vt != chunkenc.ValNone; vt = ci.Next() {
				samples++
				if vt == chunkenc.ValFloat {
					floats++
				} else {
					hists++
				}
			}
			if ci.Err() != nil {
				return 0, 0, 0, 0, 0, ci.Err()
			}
		}
		if it.Err() != nil {
			return 0, 0, 0, 0, 0, it.Err()
		}
	}
	return series, chunksN, samples, floats, hists, ss.Err()
}

// compactionCheck is the C07 oracle, run from the tagged compact.end event, i.e. after the compactor has written the
// new block and before its sources are deleted.
func (e *exec) compactionCheck(ev compactEvent) {
	var zero [16]byte
	if ev.err != nil || ev.meta.ULID == zero {
		return
	}
	where := fmt.Sprintf("compaction (%s) during op %d -> block %s [%d,%d)", ev.kind, e.opIdx, ev.meta.ULID, ev.meta.MinTime, ev.meta.MaxTime)
	dir := filepath.Join(ev.dest, ev.meta.ULID.String())
	if _, err := os.Stat(dir); err != nil {
		return // nothing written (empty result)
	}
	e.res.Evals++
	outS, _, err := readBlock(dir) // also checks chunk order, overlap and chunk metas against contents
	if err != nil {
		e.fail("compaction-output", "output-block-unreadable", "%s: the written block cannot be read back: %v", where, err)
		return
	}
	ns, nc, nsm, nf, nh, err := blockContentStats(dir)
	if err != nil {
		e.fail("compaction-output", "output-block-unreadable", "%s: %v", where, err)
		return
	}
	st := ev.meta.Stats
	if st.NumSeries != ns || st.NumChunks != nc || st.NumSamples != nsm || st.NumFloatSamples != nf || st.NumHistogramSamples != nh {
		e.fail("compaction-stats", "block-stats-differ-from-contents", "%s: meta says series=%d chunks=%d samples=%d (float %d, histogram %d), the block holds series=%d chunks=%d samples=%d (float %d, histogram %d)",
			where, st.NumSeries, st.NumChunks, st.NumSamples, st.NumFloatSamples, st.NumHistogramSamples, ns, nc, nsm, nf, nh)
		return
	}
	for k, v := range outS {
		for _, s := range v {
			if s.T < ev.meta.MinTime || s.T >= ev.meta.MaxTime {
				e.fail("compaction-output", "sample-outside-block-range", "%s: series %s holds %s outside the block's range", where, k, s)
				return
			}
		}
	}
	e.res.Count("compaction_outputs_checked", 1)
	if ev.kind != "compact" {
		return // a head range written to a block: its content is judged against the model by the query oracle
	}
	// union of the sources, deletions applied, within the output range
	union := map[string]map[int64][]tsdbmodel.Sample{}
	nsrc := 0
	for _, p := range ev.meta.Compaction.Parents {
		pd := filepath.Join(ev.dest, p.ULID.String())
		if _, err := os.Stat(pd); err != nil {
			continue
		}
		ps, _, err := readBlock(pd)
		if err != nil {
			e.fail("compaction-output", "source-block-unreadable", "%s: source %s cannot be read: %v", where, p.ULID, err)
			return
		}
		nsrc++
		for k, v := range ps {
			for _, s := range v {
				if s.T < ev.meta.MinTime || s.T >= ev.meta.MaxTime {
					continue
				}
				if union[k] == nil {
					union[k] = map[int64][]tsdbmodel.Sample{}
				}
				union[k][s.T] = append(union[k][s.T], s)
			}
		}
	}
	if nsrc < 2 && len(ev.meta.Compaction.Parents) >= 2 {
		return
	}
	keys := map[string]bool{}
	for k := range union {
		keys[k] = true
	}
	for k := range outS {
		keys[k] = true
	}
	var ks []string
	for k := range keys {
		ks = append(ks, k)
	}
	sort.Strings(ks)
	for _, k := range ks {
		have := map[int64]tsdbmodel.Sample{}
		for _, s := range outS[k] {
			have[s.T] = s
		}
		for _, t := range tsdbmodel.SortedTimes(union[k]) {
			h, ok := have[t]
			if !ok {
				e.fail("compaction-union", "output-lacks-input-sample", "%s: series %s: the sources hold %v at t=%d, the output holds nothing there", where, k, union[k][t], t)
				return
			}
			match := false
			for _, c := range union[k][t] {
				if tsdbmodel.ValueEqual(c, h) {
					match = true
				}
			}
			if !match {
				e.fail("compaction-union", "output-value-not-from-inputs", "%s: series %s t=%d: output %s, sources %v", where, k, t, h, union[k][t])
				return
			}
			delete(have, t)
		}
		for t, s := range have {
			e.fail("compaction-union", "output-holds-sample-not-in-inputs", "%s: series %s: output holds %s (t=%d), no source does (deleted samples must stay deleted)", where, k, s, t)
			return
		}
	}
	e.res.Count("compaction_unions_checked", 1)
	if nsrc >= 2 {
		e.res.Count("compaction_unions_multi_source", 1)
	}
}
