package tsdbsim

import (
	"fmt"
	"math"
	"os"
	"path/filepath"
	"sort"

	"github.com/prometheus/prometheus/tsdb"
	"github.com/prometheus/prometheus/tsdb/index"

	"verif/sim/core/simfs"
)

// ---- C24: a damaged chunk record or series index entry is reported, never returned as data ----

type realBytes []byte

func (b realBytes) Len() int                           { return len(b) }
func (b realBytes) Range(start, end int) []byte        { return b[start:end] }
func (b realBytes) Sub(start, end int) index.ByteSlice { return b[start:end] }

// readBlock returns sample-level and chunk-level content of one block directory (any error is returned).
func readBlock(dir string) (s, c qresult, err error) {
	defer func() {
		if r := recover(); r != nil {
			err = fmt.Errorf("panic while reading the block: %v", r)
		}
	}()
	b, err := tsdb.OpenBlock(nil, dir, nil, nil)
	if err != nil {
		return nil, nil, err
	}
	defer b.Close()
	s, err = querySamples(blockSource{b}, math.MinInt64, math.MaxInt64, allMatcher)
	if err != nil {
		return nil, nil, err
	}
	c, err = queryChunks(blockSource{b}, math.MinInt64, math.MaxInt64, allMatcher)
	return s, c, err
}

// blockDamageCheck is the C24 oracle, run on the blocks a clean shutdown left behind: one byte of a chunk record or of
// the series section of the index is altered (bit flip or zeroed) in a copy of the block; reading the copy must either
// fail or return exactly what the undamaged block returns.
func (e *exec) blockDamageCheck(where string) {
	ents, _ := os.ReadDir(e.dir)
	var blocks []string
	for _, en := range ents {
		if en.IsDir() && len(en.Name()) == 26 {
			if _, err := os.Stat(filepath.Join(e.dir, en.Name(), "meta.json")); err == nil {
				blocks = append(blocks, en.Name())
			}
		}
	}
	if len(blocks) == 0 {
		return
	}
	sort.Strings(blocks)
	bn := blocks[e.rng.Intn(len(blocks))]
	src := filepath.Join(e.dir, bn)
	wantS, wantC, err := readBlock(src)
	if err != nil {
		e.fail("block-roundtrip", "undamaged-block-unreadable", "%s: block %s cannot be read: %v", where, bn, err)
		return
	}
	e.res.Count("blocks_read_back", 1)
	nDamage := 6
	for i := 0; i < nDamage && !e.failed; i++ {
		dst := e.scratch("blk")
		if err := simfs.CopyTree(src, dst); err != nil {
			panic("harness: " + err.Error())
		}
		var target string
		var lo, hi int // byte range eligible for damage
		if e.rng.Chance(0.5) {
			segs, _ := filepath.Glob(filepath.Join(dst, "chunks", "0*"))
			if len(segs) == 0 {
				os.RemoveAll(dst)
				continue
			}
			target = segs[e.rng.Intn(len(segs))]
			fi, _ := os.Stat(target)
			lo, hi = 8, int(fi.Size()) // everything behind the segment header is chunk records
		} else {
			target = filepath.Join(dst, "index")
			b, err := os.ReadFile(target)
			if err != nil {
				os.RemoveAll(dst)
				continue
			}
			toc, err := index.NewTOCFromByteSlice(realBytes(b))
			if err != nil {
				os.RemoveAll(dst)
				continue
			}
			lo, hi = int(toc.Series), int(toc.LabelIndices) // the series entries
		}
		if hi <= lo {
			os.RemoveAll(dst)
			continue
		}
		b, err := os.ReadFile(target)
		if err != nil || len(b) < hi {
			os.RemoveAll(dst)
			continue
		}
		pos := lo + e.rng.Intn(hi-lo)
		old := b[pos]
		if e.rng.Chance(0.7) {
			b[pos] ^= byte(1 << uint(e.rng.Intn(8)))
		} else {
			b[pos] = 0
		}
		if b[pos] == old {
			os.RemoveAll(dst)
			continue
		}
		if err := os.WriteFile(target, b, 0o666); err != nil {
			panic("harness: " + err.Error())
		}
		kind := "chunk-record"
		if filepath.Base(target) == "index" {
			kind = "series-entry"
		}
		e.res.Count("fault:block-byte-altered:"+kind, 1)
		gotS, gotC, rerr := readBlock(dst)
		os.RemoveAll(dst)
		e.res.Evals++
		if rerr != nil {
			e.res.Count("block_damage_reported", 1)
			continue
		}
		if d := diffResults(wantS, gotS); d != "" {
			e.fail("block-damage", "altered-"+kind+"-returned-as-data", "%s: block %s with byte %d of %s changed from %#x to %#x is read without error but returns other data: %s", where, bn, pos, kind, old, b[pos], d)
			return
		}
		if d := diffResults(wantC, gotC); d != "" {
			e.fail("block-damage", "altered-"+kind+"-returned-as-data", "%s: block %s with byte %d of %s changed from %#x to %#x is read without error but its chunks hold other data: %s", where, bn, pos, kind, old, b[pos], d)
			return
		}
		e.res.Count("block_damage_harmless", 1) // e.g. padding between series entries
	}
}
