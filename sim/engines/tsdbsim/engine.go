package tsdbsim

import (
	"encoding/json"
	"testing"

	"verif/sim/core/runner"
)

// Engine adapts E1 to the runner.
type Engine struct{}

func (Engine) Name() string { return "tsdbsim" }

func (Engine) Runs(prop, tier string) int {
	q := map[string]int{"C01": 1500, "C02": 2500, "C03": 240, "C20": 1500, "C09": 1200, "C52": 1200, "C53": 400, "C23": 500,
		"C11": 1200, "C12": 1200, "C16": 800, "C18": 600, "C07": 800, "C08": 800, "C15": 1200, "C22": 800, "C04": 300, "C24": 600}
	n, ok := q[prop]
	if !ok {
		n = 500
	}
	if tier == "thorough" {
		n *= 40
	}
	return n
}

func (Engine) Generate(prop, tier string, seed uint64) any { return Generate(prop, tier, seed) }

func (Engine) DecodePlan(b []byte) (any, error) {
	var p Plan
	if err := json.Unmarshal(b, &p); err != nil {
		return nil, err
	}
	return &p, nil
}

func (Engine) Execute(t *testing.T, prop string, plan any) *runner.Result {
	return Execute(t, prop, plan.(*Plan))
}

func (Engine) Shrink(plan any) []any {
	var out []any
	for _, p := range Shrink(plan.(*Plan)) {
		out = append(out, p)
	}
	return out
}
