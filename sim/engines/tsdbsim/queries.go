package tsdbsim

import (
	"context"
	"fmt"
	"math"
	"sort"
	"strings"

	"github.com/cespare/xxhash/v2"

	"github.com/prometheus/prometheus/model/labels"
	"github.com/prometheus/prometheus/storage"

	"verif/sim/model/tsdbmodel"
)

// ---- C16: matcher semantics of Select / LabelNames / LabelValues ----

var (
	c16Names  = []string{"__name__", "job", "s", "odd", "env", "zone", "nosuch", "id", "id"}
	c16Values = []string{"", "m", "a", "b", "y", "0", "1", "2", "3", "prod", "dev", "eu-1", "eu-2", "us", "zz"}
	// runs with many series: the values at and next to the postings offset table's sampling points
	c16ValuesMany = append(append([]string{}, c16Values...), "v032", "v064", "v031", "v000", "v033")
	c16Regex      = []string{"", ".*", ".+", "a|b", "a|", "|b", "(a|b)", "[0-3]", "1|2|7", ".*1", "eu-.*", "eu-.+", "eu-[12]", "(?i:PROD)", "p.*|d.*", "m", "y?", ".", "..+", "prod|dev|", "[^a]*", "v0.*", "v03.|v06.", "v0[0-9]+"}
)

// genMatchers draws a matcher list (1-4 matchers, possibly several on one name).
func (e *exec) genMatchers() []Matcher {
	n := 1 + e.rng.Intn(4)
	var ms []Matcher
	for i := 0; i < n; i++ {
		m := Matcher{T: e.rng.Intn(4), N: c16Names[e.rng.Intn(len(c16Names))]}
		if i > 0 && e.rng.Chance(0.25) {
			m.N = ms[e.rng.Intn(len(ms))].N // duplicate matcher on one name
		}
		if m.T >= 2 {
			m.V = c16Regex[e.rng.Intn(len(c16Regex))]
		} else {
			vals := c16Values
			if e.cfg.NSeries >= 30 {
				vals = c16ValuesMany
			}
			m.V = vals[e.rng.Intn(len(vals))]
		}
		ms = append(ms, m)
	}
	return ms
}

func matchersString(ms []Matcher) string {
	var sb strings.Builder
	sb.WriteString("{")
	for i, m := range ms {
		if i > 0 {
			sb.WriteString(",")
		}
		sb.WriteString(m.N + []string{"=", "!=", "=~", "!~"}[m.T] + fmt.Sprintf("%q", m.V))
	}
	sb.WriteString("}")
	return sb.String()
}

// hasDataIn reports whether the model requires (lower) / allows (upper) a sample of ms in [a,b].
func hasDataIn(ms *tsdbmodel.Series, a, b int64) (must, may bool) {
	for t, c := range ms.Cells {
		if t < a || t > b {
			continue
		}
		if c.Deleted {
			if c.KF != "" {
				may = true // only a listed finding can bring it back
			}
			continue
		}
		may = true
		if !c.Optional && c.KF == "" {
			must = true
		}
	}
	return must, may
}

// labelQueryCheck is the C16 oracle, evaluated on the current database against the model.
func (e *exec) labelQueryCheck(where string) {
	if e.db == nil {
		return
	}
	ctx := context.Background()
	for round := 0; round < 3; round++ {
		ms := e.genMatchers()
		mf := matchFn(ms)
		pm := promMatchers(ms)
		a, b := int64(math.MinInt64), int64(math.MaxInt64)
		switch e.rng.Intn(4) {
		case 0:
			a = e.now - int64(e.rng.Intn(60))*e.cfg.Step
			b = a + int64(e.rng.Intn(40))*e.cfg.Step
		case 1:
			b = (e.now/e.cfg.R)*e.cfg.R - 1 // everything below the current block boundary
		}
		desc := fmt.Sprintf("%s: matchers %s range [%d,%d]", where, matchersString(ms), a, b)
		e.res.Evals++
		e.res.Count("label_query_rounds", 1)

		// Select
		q, err := e.db.Querier(a, b)
		if err != nil {
			e.fail("matcher-select", "querier-error", "%s: Querier failed: %v", desc, err)
			return
		}
		sorted := e.rng.Chance(0.7)
		ss := q.Select(ctx, sorted, nil, pm...)
		got := map[string]bool{}
		var order []labels.Labels
		for ss.Next() {
			l := ss.At().Labels()
			it := ss.At().Iterator(nil)
			smp, ierr := drainIterator(it)
			if ierr != nil {
				q.Close()
				e.fail("matcher-select", "iterate-error", "%s: iterating %s failed: %v", desc, l, ierr)
				return
			}
			if len(smp) == 0 {
				continue // a series without samples in the range carries no information
			}
			if got[l.String()] {
				q.Close()
				e.fail("matcher-select", "series-returned-twice", "%s: series %s returned twice", desc, l)
				return
			}
			got[l.String()] = true
			order = append(order, l.Copy())
		}
		if err := ss.Err(); err != nil {
			q.Close()
			e.fail("matcher-select", "select-error", "%s: Select failed: %v", desc, err)
			return
		}
		if sorted {
			for i := 1; i < len(order); i++ {
				if labels.Compare(order[i-1], order[i]) >= 0 {
					q.Close()
					e.fail("matcher-select", "select-not-sorted", "%s: sorted Select returned %s before %s", desc, order[i-1], order[i])
					return
				}
			}
		}
		nMatch := 0
		for _, s := range e.m.Series {
			key := s.Labels.String()
			must, may := hasDataIn(s, a, b)
			matches := mf(s.Labels)
			if matches && may {
				nMatch++
			}
			switch {
			case got[key] && !matches:
				q.Close()
				e.fail("matcher-select", "select-returned-non-matching-series", "%s: Select returned %s, which does not satisfy the matchers", desc, key)
				return
			case got[key] && !may:
				q.Close()
				e.fail("matcher-select", "select-returned-series-without-data", "%s: Select returned %s with samples, the model has none in the range", desc, key)
				return
			case !got[key] && matches && must:
				q.Close()
				e.fail("matcher-select", "select-missed-matching-series", "%s: Select did not return %s, which satisfies the matchers and has samples in the range", desc, key)
				return
			}
			delete(got, key)
		}
		if len(got) > 0 {
			var ks []string
			for k := range got {
				ks = append(ks, k)
			}
			sort.Strings(ks)
			q.Close()
			e.fail("matcher-select", "select-returned-unknown-series", "%s: Select returned %s, which was never written", desc, ks[0])
			return
		}
		if nMatch > 0 && nMatch < len(e.m.Series) {
			e.res.Count("label_queries_selective", 1)
		}

		// LabelNames / LabelValues with the same matchers (or none)
		lm := pm
		lmf := mf
		if e.rng.Chance(0.25) {
			lm, lmf = nil, func(labels.Labels) bool { return true }
		}
		lower, upper := map[string]map[string]bool{}, map[string]map[string]bool{} // name -> values
		add := func(m map[string]map[string]bool, l labels.Labels) {
			l.Range(func(x labels.Label) {
				if m[x.Name] == nil {
					m[x.Name] = map[string]bool{}
				}
				m[x.Name][x.Value] = true
			})
		}
		for _, s := range e.m.Series {
			if !lmf(s.Labels) {
				continue
			}
			must, _ := hasDataIn(s, a, b)
			if must {
				add(lower, s.Labels)
			}
			if s.EverCreated || len(s.Cells) > 0 {
				add(upper, s.Labels)
			}
		}
		checkList := func(kind string, got []string, lo, up map[string]bool, limit int, unlimited []string) bool {
			for i := 1; i < len(got); i++ {
				if got[i-1] >= got[i] {
					e.fail("label-query", kind+"-not-sorted-or-duplicate", "%s: %s returned %q before %q", desc, kind, got[i-1], got[i])
					return false
				}
			}
			have := map[string]bool{}
			for _, g := range got {
				have[g] = true
				if !up[g] {
					e.fail("label-query", kind+"-returned-unknown-entry", "%s: %s returned %q, which no stored matching series has", desc, kind, g)
					return false
				}
			}
			if limit == 0 {
				var los []string
				for v := range lo {
					los = append(los, v)
				}
				sort.Strings(los)
				for _, v := range los {
					if !have[v] {
						e.fail("label-query", kind+"-missed-entry", "%s: %s lacks %q of a matching series with samples in the range (got %v)", desc, kind, v, got)
						return false
					}
				}
				return true
			}
			want := len(unlimited)
			if limit < want {
				want = limit
			}
			if len(got) != want {
				e.fail("label-query", kind+"-limit-size", "%s: %s with limit %d returned %d entries, the unlimited result has %d", desc, kind, limit, len(got), len(unlimited))
				return false
			}
			un := map[string]bool{}
			for _, u := range unlimited {
				un[u] = true
			}
			for _, g := range got {
				if !un[g] {
					e.fail("label-query", kind+"-limit-not-subset", "%s: %s with limit %d returned %q, which the unlimited result lacks", desc, kind, limit, g)
					return false
				}
			}
			return true
		}
		names, _, err := q.LabelNames(ctx, nil, lm...)
		if err != nil {
			q.Close()
			e.fail("label-query", "labelnames-error", "%s: LabelNames failed: %v", desc, err)
			return
		}
		loN, upN := map[string]bool{}, map[string]bool{}
		for n := range lower {
			loN[n] = true
		}
		for n := range upper {
			upN[n] = true
		}
		if !checkList("LabelNames", names, loN, upN, 0, nil) {
			q.Close()
			return
		}
		if lim := 1 + e.rng.Intn(4); true {
			ln, _, err := q.LabelNames(ctx, &storage.LabelHints{Limit: lim}, lm...)
			if err != nil || !checkList("LabelNames", ln, loN, upN, lim, names) {
				q.Close()
				if err != nil {
					e.fail("label-query", "labelnames-error", "%s: LabelNames(limit) failed: %v", desc, err)
				}
				return
			}
		}
		name := c16Names[e.rng.Intn(len(c16Names))]
		vals, _, err := q.LabelValues(ctx, name, nil, lm...)
		if err != nil {
			q.Close()
			e.fail("label-query", "labelvalues-error", "%s: LabelValues(%s) failed: %v", desc, name, err)
			return
		}
		lo, up := lower[name], upper[name]
		if lo == nil {
			lo = map[string]bool{}
		}
		if up == nil {
			up = map[string]bool{}
		}
		if !checkList("LabelValues("+name+")", vals, lo, up, 0, nil) {
			q.Close()
			return
		}
		if lim := 1 + e.rng.Intn(3); true {
			lv, _, err := q.LabelValues(ctx, name, &storage.LabelHints{Limit: lim}, lm...)
			if err != nil || !checkList("LabelValues("+name+")", lv, lo, up, lim, vals) {
				q.Close()
				if err != nil {
					e.fail("label-query", "labelvalues-error", "%s: LabelValues(limit) failed: %v", desc, err)
				}
				return
			}
		}
		q.Close()
	}
}

// ---- C18: query sharding ----

func referenceStableHash(l labels.Labels) uint64 {
	var b []byte
	l.Range(func(x labels.Label) {
		b = append(b, x.Name...)
		b = append(b, 0xff)
		b = append(b, x.Value...)
		b = append(b, 0xff)
	})
	return xxhash.Sum64(b)
}

func shortKey(k string) string {
	if len(k) > 160 {
		return k[:160] + "..."
	}
	return k
}

// shardCheck is the C18 oracle: for a drawn shard count the shards partition the unsharded result; a series' shard
// is labels.StableHash(lset) % n wherever the series lives (head, blocks) and stays the same for the whole run.
func (e *exec) shardCheck(where string) {
	if e.db == nil {
		return
	}
	ctx := context.Background()
	n := uint64(1 + e.rng.Intn(64))
	if e.rng.Chance(0.3) {
		n = uint64(1 + e.rng.Intn(4))
	}
	a, b := int64(math.MinInt64), int64(math.MaxInt64)
	if e.rng.Chance(0.3) {
		b = (e.now/e.cfg.R)*e.cfg.R - 1 // block data only (once the head has been compacted)
	} else if e.rng.Chance(0.3) {
		a = (e.now / e.cfg.R) * e.cfg.R // mostly head data
	}
	desc := fmt.Sprintf("%s: shard count %d range [%d,%d]", where, n, a, b)
	full, err := querySamples(e.db, a, b, allMatcher)
	if err != nil {
		e.fail("shard-partition", "query-error", "%s: unsharded query failed: %v", desc, err)
		return
	}
	e.res.Evals++
	e.res.Count("shard_checks", 1)
	seen := map[string]uint64{}
	for idx := uint64(0); idx < n; idx++ {
		q, err := e.db.Querier(a, b)
		if err != nil {
			e.fail("shard-partition", "query-error", "%s: Querier failed: %v", desc, err)
			return
		}
		ss := q.Select(ctx, true, &storage.SelectHints{Start: a, End: b, ShardCount: n, ShardIndex: idx}, allMatcher)
		for ss.Next() {
			l := ss.At().Labels()
			key := l.String()
			smp, ierr := drainIterator(ss.At().Iterator(nil))
			if ierr != nil {
				q.Close()
				e.fail("shard-partition", "iterate-error", "%s: shard %d: iterating %s failed: %v", desc, idx, key, ierr)
				return
			}
			if prev, dup := seen[key]; dup {
				q.Close()
				e.fail("shard-partition", "series-in-two-shards", "%s: series %s returned by shard %d and shard %d", desc, key, prev, idx)
				return
			}
			seen[key] = idx
			if want := labels.StableHash(l) % n; want != idx {
				q.Close()
				e.fail("shard-partition", "shard-not-stable-hash", "%s: series %s returned by shard %d, StableHash %% n = %d", desc, key, idx, want)
				return
			}
			// the hash every label-set build variant is documented to compute: xxhash64 over name 0xff value 0xff ... in
			// label order, computed here without the labels package
			if want := referenceStableHash(l) % n; want != idx {
				q.Close()
				e.fail("shard-partition", "shard-differs-from-the-documented-hash", "%s: series %s returned by shard %d, xxhash64(name 0xff value 0xff ...) %% n = %d", desc, shortKey(key), idx, want)
				return
			}
			// (where two writers stored different values at one timestamp, either may be returned by either query)
			if d, tag := e.diffModuloCandidates(qresult{key: full[key]}, qresult{key: smp}); d != "" && tag == "" {
				q.Close()
				e.fail("shard-partition", "sharded-samples-differ", "%s: shard %d: %s", desc, idx, d)
				return
			}
			if e.shardOf == nil {
				e.shardOf = map[string]uint64{}
			}
			memo := fmt.Sprintf("%d|%s", n, key)
			if p, ok := e.shardOf[memo]; ok && p != idx {
				q.Close()
				e.fail("shard-partition", "shard-changed", "%s: series %s was in shard %d earlier in this run, now in shard %d", desc, key, p, idx)
				return
			}
			e.shardOf[memo] = idx
		}
		err = ss.Err()
		q.Close()
		if err != nil {
			e.fail("shard-partition", "select-error", "%s: shard %d: Select failed: %v", desc, idx, err)
			return
		}
	}
	var keys []string
	for k := range full {
		keys = append(keys, k)
	}
	sort.Strings(keys)
	for _, k := range keys {
		if _, ok := seen[k]; !ok && len(full[k]) > 0 {
			e.fail("shard-partition", "series-in-no-shard", "%s: series %s is in the unsharded result but in none of the %d shards", desc, k, n)
			return
		}
	}
	for k := range seen {
		if _, ok := full[k]; !ok {
			e.fail("shard-partition", "shard-returned-extra-series", "%s: series %s returned by a shard but not by the unsharded query", desc, k)
			return
		}
	}
	if len(seen) >= 2 && n >= 2 {
		e.res.Count("shard_checks_multi_series", 1)
	}
}
