package tsdbsim

import (
	"fmt"
	"math"
	"os"
	"path/filepath"
	"strings"

	"github.com/prometheus/prometheus/tsdb"

	"verif/sim/core/simfs"
)

// atCleanShutdown runs the copy-based oracles on the data directory a clean shutdown left behind.
func (e *exec) atCleanShutdown() {
	if e.cfg.ROCheck {
		e.readOnlyCheck(e.dir, fmt.Sprintf("clean shutdown at op %d", e.opIdx))
	}
	if e.cfg.SnapCheck && !e.failed {
		e.snapshotCheck(fmt.Sprintf("clean shutdown at op %d", e.opIdx))
	}
}

func (e *exec) scratch(name string) string {
	e.imgSeq++
	return filepath.Join(e.root, fmt.Sprintf("%s%d", name, e.imgSeq))
}

// queryBoth returns sample- and chunk-level results of a queryable over everything.
func queryBoth(q querierSource) (qresult, qresult, error) {
	s, err := querySamples(q, math.MinInt64, math.MaxInt64, allMatcher)
	if err != nil {
		return nil, nil, err
	}
	c, err := queryChunks(q, math.MinInt64, math.MaxInt64, allMatcher)
	if err != nil {
		return nil, nil, err
	}
	return s, c, nil
}

// readOnlyCheck is the C53 oracle on one directory state: a read-only open returns what a read-write open of a copy
// returns (sample and chunk queriers), FlushWAL produces a block with exactly the read-write open's head data, querying
// changes no pre-existing file, and after Close nothing new remains. The sandbox is placed inside the data directory or
// in a sibling directory.
func (e *exec) readOnlyCheck(src, where string) {
	rwDir, roDir := e.scratch("rw"), e.scratch("ro")
	defer os.RemoveAll(rwDir)
	defer os.RemoveAll(roDir)
	if err := simfs.CopyTree(src, rwDir); err != nil {
		panic("harness: " + err.Error())
	}
	if err := simfs.CopyTree(src, roDir); err != nil {
		panic("harness: " + err.Error())
	}
	sandboxRoot := ""
	if e.rng.Chance(0.5) {
		sandboxRoot = e.scratch("sandbox")
		os.MkdirAll(sandboxRoot, 0o777)
		defer os.RemoveAll(sandboxRoot)
	}
	before, _ := simfs.Digest(roDir)

	// read-write reference
	rw, _, err := e.open(rwDir)
	if err != nil {
		e.fail("ro-vs-rw", "rw-open-failed", "%s: read-write open of the copy failed: %v", where, err)
		return
	}
	rwS, rwC, err := queryBoth(rw)
	// head-only content of the read-write open (what FlushWAL must produce)
	var rwHead qresult
	if err == nil && rw.Head().MinTime() != math.MaxInt64 {
		rwHead, err = querySamples(blockSource{tsdb.NewRangeHead(rw.Head(), rw.Head().MinTime(), rw.Head().MaxTime())}, math.MinInt64, math.MaxInt64, allMatcher)
	}
	rw.Close()
	if err != nil {
		e.fail("ro-vs-rw", "rw-query-failed", "%s: query of the read-write copy failed: %v", where, err)
		return
	}
	e.res.Evals++

	check := func(kind string, got qresult, want qresult) bool {
		if d := diffResults(want, got); d != "" {
			e.fail("ro-vs-rw", "ro-differs-from-rw:"+kind, "%s: read-only open (%s query, sandbox %q) differs from read-write open of the same directory: %s", where, kind, sandboxRoot, d)
			return false
		}
		return true
	}
	// sample querier
	ro, err := tsdb.OpenDBReadOnly(roDir, sandboxRoot, nil)
	if err != nil {
		e.fail("ro-vs-rw", "ro-open-failed", "%s: OpenDBReadOnly failed: %v", where, err)
		return
	}
	roS, err := querySamples(ro, math.MinInt64, math.MaxInt64, allMatcher)
	during, _ := simfs.Digest(roDir)
	cerr := ro.Close()
	if err != nil || cerr != nil {
		e.fail("ro-vs-rw", "ro-query-failed", "%s: read-only query/close failed: %v / %v", where, err, cerr)
		return
	}
	if !check("sample", roS, rwS) {
		return
	}
	// pre-existing files unchanged while open
	for _, d := range simfs.DiffDigest(before, during) {
		if strings.HasPrefix(d, "changed ") || strings.HasPrefix(d, "removed ") {
			e.fail("ro-leaves-dir-unchanged", "preexisting-file-touched", "%s: read-only open %s", where, d)
			return
		}
	}
	after, _ := simfs.Digest(roDir)
	if d := simfs.DiffDigest(before, after); len(d) > 0 {
		e.fail("ro-leaves-dir-unchanged", "files-left-after-close", "%s: after closing the read-only open the directory differs: %v", where, d)
		return
	}
	if sandboxRoot != "" {
		if ents, _ := os.ReadDir(sandboxRoot); len(ents) > 0 {
			e.fail("ro-leaves-dir-unchanged", "sandbox-left-after-close", "%s: sandbox root not empty after Close: %d entries", where, len(ents))
			return
		}
	}
	// chunk querier (separate open: the read-only DB supports one querier)
	ro, err = tsdb.OpenDBReadOnly(roDir, sandboxRoot, nil)
	if err != nil {
		e.fail("ro-vs-rw", "ro-open-failed", "%s: OpenDBReadOnly failed: %v", where, err)
		return
	}
	roC, err := queryChunks(ro, math.MinInt64, math.MaxInt64, allMatcher)
	cerr = ro.Close()
	if err != nil || cerr != nil {
		e.fail("ro-vs-rw", "ro-query-failed", "%s: read-only chunk query/close failed: %v / %v", where, err, cerr)
		return
	}
	if !check("chunk", roC, rwC) {
		return
	}
	// FlushWAL
	ro, err = tsdb.OpenDBReadOnly(roDir, sandboxRoot, nil)
	if err != nil {
		e.fail("ro-vs-rw", "ro-open-failed", "%s: OpenDBReadOnly failed: %v", where, err)
		return
	}
	flushDir := e.scratch("flush")
	os.MkdirAll(flushDir, 0o777)
	defer os.RemoveAll(flushDir)
	ferr := ro.FlushWAL(flushDir)
	cerr = ro.Close()
	if ferr != nil || cerr != nil {
		e.fail("ro-flushwal", "flushwal-failed", "%s: FlushWAL/Close failed: %v / %v", where, ferr, cerr)
		return
	}
	flushed := qresult{}
	ents, _ := os.ReadDir(flushDir)
	for _, en := range ents {
		if !en.IsDir() || len(en.Name()) != 26 {
			continue
		}
		b, err := tsdb.OpenBlock(nil, filepath.Join(flushDir, en.Name()), nil, nil)
		if err != nil {
			e.fail("ro-flushwal", "flushed-block-unreadable", "%s: block written by FlushWAL cannot be opened: %v", where, err)
			return
		}
		r, err := querySamples(blockSource{b}, math.MinInt64, math.MaxInt64, allMatcher)
		b.Close()
		if err != nil {
			e.fail("ro-flushwal", "flushed-block-unreadable", "%s: block written by FlushWAL cannot be queried: %v", where, err)
			return
		}
		for k, v := range r {
			flushed[k] = append(flushed[k], v...)
		}
	}
	dropEmpty := func(q qresult) qresult {
		o := qresult{}
		for k, v := range q {
			if len(v) > 0 {
				o[k] = v
			}
		}
		return o
	}
	if d := diffResults(dropEmpty(rwHead), dropEmpty(flushed)); d != "" {
		e.fail("ro-flushwal", "flushed-block-differs-from-head", "%s: FlushWAL block differs from the head data of a read-write open: %s", where, d)
		return
	}
	after2, _ := simfs.Digest(roDir)
	if d := simfs.DiffDigest(before, after2); len(d) > 0 {
		e.fail("ro-leaves-dir-unchanged", "files-left-after-flushwal", "%s: after FlushWAL + Close the data directory differs: %v", where, d)
		return
	}
	e.res.Count("ro_checks", 1)
	if len(rwHead) > 0 {
		e.res.Count("ro_checks_with_head_data", 1)
	}
}

// snapshotCheck is the C23 oracle: restart from the memory snapshot equals restart from the WAL alone; a damaged or
// outdated snapshot is discarded in favour of WAL replay without losing data.
func (e *exec) snapshotCheck(where string) {
	snaps, _ := filepath.Glob(filepath.Join(e.dir, "chunk_snapshot.*"))
	if len(snaps) == 0 {
		e.res.Count("snapshot_absent_at_shutdown", 1)
		return
	}
	openAndQuery := func(dir string) (qresult, error) {
		db, _, err := e.open(dir)
		if err != nil {
			return nil, fmt.Errorf("open: %w", err)
		}
		defer db.Close()
		return querySamples(db, math.MinInt64, math.MaxInt64, allMatcher)
	}
	// reference: WAL only
	walDir := e.scratch("walonly")
	defer os.RemoveAll(walDir)
	simfs.CopyTree(e.dir, walDir)
	ws, _ := filepath.Glob(filepath.Join(walDir, "chunk_snapshot.*"))
	for _, s := range ws {
		os.RemoveAll(s)
	}
	want, err := openAndQuery(walDir)
	if err != nil {
		e.fail("snapshot-vs-wal", "wal-only-open-failed", "%s: open without snapshot failed: %v", where, err)
		return
	}
	variants := []string{"intact"}
	switch e.rng.Intn(4) {
	case 0:
		variants = append(variants, "truncated")
	case 1:
		variants = append(variants, "byteflip")
	case 2:
		variants = append(variants, "wal-behind")
	}
	for _, v := range variants {
		dir := e.scratch("snap")
		simfs.CopyTree(e.dir, dir)
		ref := want
		ss, _ := filepath.Glob(filepath.Join(dir, "chunk_snapshot.*"))
		var segs []string
		for _, s := range ss {
			g, _ := filepath.Glob(filepath.Join(s, "0*"))
			segs = append(segs, g...)
		}
		switch v {
		case "truncated":
			if len(segs) > 0 {
				if fi, err := os.Stat(segs[len(segs)-1]); err == nil && fi.Size() > 8 {
					os.Truncate(segs[len(segs)-1], int64(e.rng.Intn(int(fi.Size()))))
					e.res.Count("fault:snapshot-damage", 1)
				}
			}
		case "byteflip":
			if len(segs) > 0 {
				if b, err := os.ReadFile(segs[0]); err == nil && len(b) > 0 {
					// only within the used part (records), not the zero padding
					used := len(b)
					for used > 0 && b[used-1] == 0 {
						used--
					}
					if used > 0 {
						b[e.rng.Intn(used)] ^= byte(1 << uint(e.rng.Intn(8)))
						os.WriteFile(segs[0], b, 0o666)
						e.res.Count("fault:snapshot-damage", 1)
					}
				}
			}
		case "wal-behind":
			// remove the WAL segments at/after the snapshot index from this copy and from the reference copy:
			// the snapshot is then ahead of the WAL and must be discarded
			idx := snapIndex(ss)
			refDir := e.scratch("walbehindref")
			simfs.CopyTree(walDir, refDir)
			removed := false
			for _, d := range []string{dir, refDir} {
				g, _ := filepath.Glob(filepath.Join(d, "wal", "0*"))
				for _, f := range g {
					var n int
					fmt.Sscanf(filepath.Base(f), "%d", &n)
					if n >= idx && idx >= 0 {
						os.Remove(f)
						removed = true
					}
				}
			}
			var err error
			ref, err = openAndQuery(refDir)
			os.RemoveAll(refDir)
			if err != nil || !removed {
				os.RemoveAll(dir)
				continue
			}
			e.res.Count("fault:snapshot-outdated", 1)
		}
		got, err := openAndQuery(dir)
		os.RemoveAll(dir)
		e.res.Evals++
		if err != nil {
			e.fail("snapshot-vs-wal", "snapshot-open-failed:"+v, "%s: open with %s snapshot failed: %v", where, v, err)
			return
		}
		if d := diffResults(ref, got); d != "" {
			e.fail("snapshot-vs-wal", "snapshot-restart-differs:"+v, "%s: restart from the %s snapshot differs from restart from the WAL alone: %s", where, v, d)
			return
		}
		e.res.Count("snapshot_checks:"+v, 1)
	}
}

func snapIndex(snaps []string) int {
	best := -1
	for _, s := range snaps {
		var idx, off int
		if _, err := fmt.Sscanf(filepath.Base(s), "chunk_snapshot.%d.%d", &idx, &off); err == nil && idx > best {
			best = idx
		}
	}
	return best
}
