package tsdbsim

import (
	"fmt"
	"github.com/prometheus/prometheus/tsdb/chunkenc"
	"github.com/prometheus/prometheus/tsdb/chunks"
	"github.com/prometheus/prometheus/tsdb/wlog"
	"math"
	"os"
	"path/filepath"
	"sort"
	"strings"

	"github.com/prometheus/prometheus/tsdb"

	"verif/sim/core/simfs"
	"verif/sim/model/tsdbmodel"
)

// atCleanShutdown runs the copy-based oracles on the data directory a clean shutdown left behind.
func (e *exec) atCleanShutdown() {
	if e.cfg.ROCheck {
		e.readOnlyCheck(e.dir, fmt.Sprintf("clean shutdown at op %d", e.opIdx))
	}
	if e.cfg.SnapCheck && !e.failed {
		e.snapshotCheck(fmt.Sprintf("clean shutdown at op %d", e.opIdx))
	}
	if e.prop == "C15" && !e.failed {
		e.walTruncationCheck(fmt.Sprintf("clean shutdown at op %d", e.opIdx))
	}
	if e.cfg.Damage && !e.failed {
		e.logDamageCheck(e.dir, fmt.Sprintf("clean shutdown at op %d", e.opIdx))
	}
	if e.prop == "C24" && !e.failed {
		e.blockDamageCheck(fmt.Sprintf("clean shutdown at op %d", e.opIdx))
	}
}

func (e *exec) scratch(name string) string {
	e.imgSeq++
	return filepath.Join(e.root, fmt.Sprintf("%s%d", name, e.imgSeq))
}

// queryBoth returns sample- and chunk-level results of a queryable over everything.
func queryBoth(q querierSource) (qresult, qresult, error) {
	s, err := querySamples(q, math.MinInt64, math.MaxInt64, allMatcher)
	if err != nil {
		return nil, nil, err
	}
	c, err := queryChunks(q, math.MinInt64, math.MaxInt64, allMatcher)
	if err != nil {
		return nil, nil, err
	}
	return s, c, nil
}

// readOnlyCheck is the C53 oracle on one directory state: a read-only open returns what a read-write open of a copy
// returns (sample and chunk queriers), FlushWAL produces a block with exactly the read-write open's head data, querying
// changes no pre-existing file, and after Close nothing new remains. The sandbox is placed inside the data directory or
// in a sibling directory.
func (e *exec) readOnlyCheck(src, where string) {
	rwDir, roDir := e.scratch("rw"), e.scratch("ro")
	defer os.RemoveAll(rwDir)
	defer os.RemoveAll(roDir)
	if err := simfs.CopyTree(src, rwDir); err != nil {
		panic("harness: " + err.Error())
	}
	if err := simfs.CopyTree(src, roDir); err != nil {
		panic("harness: " + err.Error())
	}
	if snaps, _ := filepath.Glob(filepath.Join(src, "chunk_snapshot.*")); len(snaps) == 0 && e.rng.Chance(0.25) {
		// lost log tail: the newest WAL segment of both copies ends at an earlier record boundary (a state the disk can
		// be in after an unclean shutdown); data whose records are gone then exists only in the head chunk files
		if seg := newestFile(filepath.Join(src, "wal", "0*"), 1); seg != "" {
			if offs := recordOffsets(seg); len(offs) > 1 {
				cut := offs[e.rng.Intn(len(offs)-1)]
				for _, d := range []string{rwDir, roDir} {
					if err := os.Truncate(filepath.Join(d, "wal", filepath.Base(seg)), cut); err != nil {
						panic("harness: " + err.Error())
					}
				}
				e.res.Count("fault:wal-tail-lost-at-record-boundary", 1)
				where += fmt.Sprintf(" (WAL segment %s cut at record boundary %d)", filepath.Base(seg), cut)
			}
		}
	}
	if walRefReuse(src) {
		// listed finding: the WAL uses one ref for two label sets; a full WAL replay (which the read-only open does)
		// cannot agree with the snapshot-based read-write open
		e.res.Count("tolerated:"+TagRefReuseSnapshot, 1)
		if e.cfg.KF != TagRefReuseSnapshot {
			return
		}
	}
	sbc := snapshotBehindCheckpoint(src)
	sandboxRoot := ""
	if e.rng.Chance(0.5) {
		sandboxRoot = e.scratch("sandbox")
		os.MkdirAll(sandboxRoot, 0o777)
		defer os.RemoveAll(sandboxRoot)
	}
	before, _ := simfs.Digest(roDir)

	// read-write reference
	rw, _, err := e.open(rwDir)
	if err != nil {
		e.fail("ro-vs-rw", "rw-open-failed", "%s: read-write open of the copy failed: %v", where, err)
		return
	}
	rwS, rwC, err := queryBoth(rw)
	// windows ending / starting exactly at block boundaries (where the read-only open decides whether the WAL is needed)
	type window struct {
		a, b int64
		res  qresult
	}
	var wins []window
	if err == nil {
		bounds := map[int64]bool{}
		for _, b := range rw.Blocks() {
			bounds[b.Meta().MaxTime] = true
			bounds[b.Meta().MinTime] = true
		}
		var bl []int64
		for x := range bounds {
			bl = append(bl, x)
		}
		sort.Slice(bl, func(i, j int) bool { return bl[i] < bl[j] })
		for len(bl) > 3 {
			bl = append(bl[:e.rng.Intn(len(bl))], bl[e.rng.Intn(len(bl))+1:]...)
			if len(bl) > 3 {
				bl = bl[:len(bl)-1]
			}
		}
		for _, x := range bl {
			for _, w := range []window{{a: math.MinInt64, b: x}, {a: math.MinInt64, b: x - 1}, {a: x, b: math.MaxInt64}} {
				if err != nil {
					break
				}
				w.res, err = querySamples(rw, w.a, w.b, allMatcher)
				wins = append(wins, w)
			}
		}
	}
	// block content of the read-write open: everything else it returns is head data (WAL, WBL, head chunk files)
	rwBlocks := qresult{}
	for _, b := range rw.Blocks() {
		if err != nil {
			break
		}
		var r qresult
		r, err = querySamples(blockSource{b}, math.MinInt64, math.MaxInt64, allMatcher)
		for k, v := range r {
			rwBlocks[k] = append(rwBlocks[k], v...)
		}
	}
	bRW := replayCutoff(rw)
	rw.Close()
	if err != nil {
		e.fail("ro-vs-rw", "rw-query-failed", "%s: query of the read-write copy failed: %v", where, err)
		return
	}
	e.res.Evals++

	inBlk := map[string]map[int64]bool{}
	for k, v := range rwBlocks {
		inBlk[k] = map[int64]bool{}
		for _, smp := range v {
			inBlk[k][smp.T] = true
		}
	}
	multi := func(key string, t int64) bool {
		for _, ms := range e.m.Series {
			if ms.Labels.String() == key {
				if c := ms.Cells[t]; c != nil && len(c.Cands) > 1 {
					return true
				}
			}
		}
		return false
	}
	winEnd := int64(math.MaxInt64) // end of the window being compared (window queries only)
	check := func(kind string, got qresult, want qresult) bool {
		for k, v := range want {
			have := map[int64]tsdbmodel.Sample{}
			for _, smp := range got[k] {
				have[smp.T] = smp
			}
			for _, smp := range v {
				g, ok := have[smp.T]
				if !ok {
					if debugOn {
						os.RemoveAll("/dev/shm/verif-keep")
						simfs.CopyTree(src, "/dev/shm/verif-keep")
					}
					if winEnd < bRW && e.cellOOO(k, smp.T) {
						// listed finding: a read-only query that ends below the newest in-order block's MaxTime does not
						// load WAL and WBL at all, although out-of-order head data can lie in that range
						e.res.Count("tolerated:"+TagROWindowOOO, 1)
						if e.cfg.KF == TagROWindowOOO {
							e.fail("ro-vs-rw", "known:"+TagROWindowOOO, "%s: read-only query ending at %d (below the in-order blocks' MaxTime %d) lacks out-of-order head sample %s of series %s", where, winEnd, bRW, smp, k)
							return false
						}
						continue
					}
					if tag := e.cellKF(k, smp.T); tag != "" {
						// a listed finding of the write path already explains why a full WAL replay lacks this sample
						e.res.Count("tolerated:"+tag, 1)
						if e.cfg.KF == tag {
							e.fail("ro-vs-rw", "known:"+tag, "%s: read-only open (%s query) lacks %s of series %s", where, kind, smp, k)
							return false
						}
						continue
					}
					if walRefReuse(src) {
						e.fail("ro-vs-rw", "known:"+TagRefReuseSnapshot, "%s: read-only open (%s query) lacks %s of series %s; the WAL reuses a series ref for another label set", where, kind, smp, k)
						return false
					}
					e.fail("ro-vs-rw", "ro-misses-sample:"+kind, "%s: read-only open (%s query, sandbox %q) lacks %s of series %s that a read-write open of the same directory returns", where, kind, sandboxRoot, smp, k)
					return false
				}
				if !tsdbmodel.ValueEqual(g, smp) && !multi(k, smp.T) {
					e.fail("ro-vs-rw", "ro-wrong-value:"+kind, "%s: read-only open (%s query) returns %s for series %s, read-write open returns %s", where, kind, g, k, smp)
					return false
				}
			}
		}
		for k, v := range got {
			all := map[int64]bool{}
			for _, smp := range want[k] {
				all[smp.T] = true
			}
			for _, smp := range v {
				if !all[smp.T] && sbc && e.cellOOO(k, smp.T) {
					// listed finding (ooo-mmap-chunks-dropped-on-duplicate-series-record): the read-write open starts from a
					// chunk snapshot that is not newer than the last WAL checkpoint; the checkpoint's series records reset the
					// out-of-order chunks of the series just loaded. The read-only open replays the logs without a snapshot.
					e.res.Count("tolerated:"+tsdbmodel.TagOOODupRef, 1)
					if e.cfg.KF == tsdbmodel.TagOOODupRef {
						e.fail("ro-vs-rw", "known:"+tsdbmodel.TagOOODupRef, "%s: read-only open (%s query) returns out-of-order sample %s of series %s that the read-write open (from a snapshot behind the checkpoint) lost", where, kind, smp, k)
						return false
					}
					continue
				}
				if tag := e.cellKF(k, smp.T); !all[smp.T] && tag != "" {
					// a listed finding of the write path already explains why a full log replay (which is what the read-only
					// open does, where the read-write open may start from a snapshot) brings this sample back
					e.res.Count("tolerated:"+tag, 1)
					if e.cfg.KF == tag {
						e.fail("ro-vs-rw", "known:"+tag, "%s: read-only open (%s query) returns %s of series %s that the read-write open does not return", where, kind, smp, k)
						return false
					}
					continue
				}
				if !all[smp.T] {
					e.fail("ro-vs-rw", "ro-extra-sample:"+kind, "%s: read-only open (%s query) returns %s of series %s that a read-write open does not return", where, kind, smp, k)
					return false
				}
			}
		}
		return true
	}
	// sample querier
	ro, err := tsdb.OpenDBReadOnly(roDir, sandboxRoot, nil)
	if err != nil {
		e.fail("ro-vs-rw", "ro-open-failed", "%s: OpenDBReadOnly failed: %v", where, err)
		return
	}
	roS, err := querySamples(ro, math.MinInt64, math.MaxInt64, allMatcher)
	during, _ := simfs.Digest(roDir)
	cerr := ro.Close()
	if err != nil || cerr != nil {
		e.fail("ro-vs-rw", "ro-query-failed", "%s: read-only query/close failed: %v / %v", where, err, cerr)
		return
	}
	if !check("sample", roS, rwS) {
		return
	}
	for _, w := range wins {
		// one read-only handle per query (a handle links the head chunk files into its sandbox for each querier)
		rw1, err := tsdb.OpenDBReadOnly(roDir, sandboxRoot, nil)
		if err != nil {
			e.fail("ro-vs-rw", "ro-open-failed", "%s: OpenDBReadOnly failed: %v", where, err)
			return
		}
		got, err := querySamples(rw1, w.a, w.b, allMatcher)
		cerr := rw1.Close()
		if err != nil || cerr != nil {
			e.fail("ro-vs-rw", "ro-query-failed", "%s: read-only query [%d,%d] / close failed: %v / %v", where, w.a, w.b, err, cerr)
			return
		}
		e.res.Evals++
		e.res.Count("ro_window_queries", 1)
		winEnd = w.b
		ok := check("sample-window", got, w.res)
		winEnd = math.MaxInt64
		if !ok {
			return
		}
	}
	// pre-existing files unchanged while open
	for _, d := range simfs.DiffDigest(before, during) {
		if strings.HasPrefix(d, "changed ") || strings.HasPrefix(d, "removed ") {
			e.fail("ro-leaves-dir-unchanged", "preexisting-file-touched", "%s: read-only open %s", where, d)
			return
		}
	}
	after, _ := simfs.Digest(roDir)
	if d := simfs.DiffDigest(before, after); len(d) > 0 {
		e.fail("ro-leaves-dir-unchanged", "files-left-after-close", "%s: after closing the read-only open the directory differs: %v", where, d)
		return
	}
	if sandboxRoot != "" {
		if ents, _ := os.ReadDir(sandboxRoot); len(ents) > 0 {
			e.fail("ro-leaves-dir-unchanged", "sandbox-left-after-close", "%s: sandbox root not empty after Close: %d entries", where, len(ents))
			return
		}
	}
	// chunk querier (separate open: the read-only DB supports one querier)
	ro, err = tsdb.OpenDBReadOnly(roDir, sandboxRoot, nil)
	if err != nil {
		e.fail("ro-vs-rw", "ro-open-failed", "%s: OpenDBReadOnly failed: %v", where, err)
		return
	}
	roC, err := queryChunks(ro, math.MinInt64, math.MaxInt64, allMatcher)
	cerr = ro.Close()
	if err != nil || cerr != nil {
		e.fail("ro-vs-rw", "ro-query-failed", "%s: read-only chunk query/close failed: %v / %v", where, err, cerr)
		return
	}
	if !check("chunk", roC, rwC) {
		return
	}
	// FlushWAL
	ro, err = tsdb.OpenDBReadOnly(roDir, sandboxRoot, nil)
	if err != nil {
		e.fail("ro-vs-rw", "ro-open-failed", "%s: OpenDBReadOnly failed: %v", where, err)
		return
	}
	flushDir := e.scratch("flush")
	os.MkdirAll(flushDir, 0o777)
	defer os.RemoveAll(flushDir)
	ferr := ro.FlushWAL(flushDir)
	cerr = ro.Close()
	if ferr != nil || cerr != nil {
		e.fail("ro-flushwal", "flushwal-failed", "%s: FlushWAL/Close failed: %v / %v", where, ferr, cerr)
		return
	}
	flushed := qresult{}
	ents, _ := os.ReadDir(flushDir)
	for _, en := range ents {
		if !en.IsDir() || len(en.Name()) != 26 {
			continue
		}
		b, err := tsdb.OpenBlock(nil, filepath.Join(flushDir, en.Name()), nil, nil)
		if err != nil {
			e.fail("ro-flushwal", "flushed-block-unreadable", "%s: block written by FlushWAL cannot be opened: %v", where, err)
			return
		}
		r, err := querySamples(blockSource{b}, math.MinInt64, math.MaxInt64, allMatcher)
		b.Close()
		if err != nil {
			e.fail("ro-flushwal", "flushed-block-unreadable", "%s: block written by FlushWAL cannot be queried: %v", where, err)
			return
		}
		for k, v := range r {
			flushed[k] = append(flushed[k], v...)
		}
	}
	// FlushWAL must produce exactly the head data: everything the read-write open returns that is in none of its
	// blocks must be in the flushed block, and the flushed block must hold nothing the read-write open does not return.
	inBlocks := map[string]map[int64]bool{}
	for k, v := range rwBlocks {
		inBlocks[k] = map[int64]bool{}
		for _, smp := range v {
			inBlocks[k][smp.T] = true
		}
	}
	headData := 0
	for k, v := range rwS {
		have := map[int64]tsdbmodel.Sample{}
		for _, smp := range flushed[k] {
			have[smp.T] = smp
		}
		for _, smp := range v {
			if inBlocks[k][smp.T] {
				continue
			}
			headData++
			got, ok := have[smp.T]
			if !ok && e.cellOOO(k, smp.T) {
				// listed finding: FlushWAL writes the in-order head only
				e.res.Count("tolerated:"+TagFlushOOO, 1)
				if e.cfg.KF == TagFlushOOO {
					e.fail("ro-flushwal", "known:"+TagFlushOOO, "%s: FlushWAL block lacks out-of-order head sample %s of series %s", where, smp, k)
					return
				}
				continue
			}
			if !ok {
				e.fail("ro-flushwal", "flushed-block-misses-head-data", "%s: FlushWAL block lacks head sample %s of series %s that a read-write open returns (and no block holds)", where, smp, k)
				return
			}
			if !tsdbmodel.ValueEqual(got, smp) && !multi(k, smp.T) {
				e.fail("ro-flushwal", "flushed-block-wrong-value", "%s: FlushWAL block has %s for series %s, read-write open returns %s", where, got, k, smp)
				return
			}
		}
	}
	for k, v := range flushed {
		all := map[int64]bool{}
		for _, smp := range rwS[k] {
			all[smp.T] = true
		}
		for _, smp := range v {
			if tag := e.cellKF(k, smp.T); !all[smp.T] && tag != "" {
				// (as above: the read-only head is a full log replay)
				e.res.Count("tolerated:"+tag, 1)
				if e.cfg.KF == tag {
					e.fail("ro-flushwal", "known:"+tag, "%s: FlushWAL block holds %s of series %s that the read-write open does not return", where, smp, k)
					return
				}
				continue
			}
			if !all[smp.T] {
				e.fail("ro-flushwal", "flushed-block-has-extra-data", "%s: FlushWAL block holds %s of series %s that a read-write open does not return", where, smp, k)
				return
			}
		}
	}
	e.res.Count("ro_checks", 1)
	if headData > 0 {
		e.res.Count("ro_checks_with_head_data", 1)
	}
}

// Known findings of the read-only open (C53).
const (
	TagFlushOOO = "ro-flushwal-omits-out-of-order-head-data"
	// TagROWindowOOO: DBReadOnly.loadDataAsQueryable only replays WAL/WBL when the queried range reaches the newest
	// in-order block's MaxTime; out-of-order head data older than that is missing from narrower read-only queries.
	TagROWindowOOO = "ro-query-ending-below-newest-block-skips-ooo-head-data"
)

// cellKF returns the known-finding tag of the model cell (series key, t), if any.
func (e *exec) cellKF(key string, t int64) string {
	for _, ms := range e.m.Series {
		if ms.Labels.String() == key {
			if c := ms.Cells[t]; c != nil {
				return c.KF
			}
		}
	}
	return ""
}

// diffModuloCandidates compares two restarts of the same directory. It is diffResults, except that
//   - a timestamp for which the model holds several acceptable values (two writers of the same timestamp; which
//     one a reader sees is not defined) may differ as long as both sides return one of them;
//   - a sample only one side returns is attributed to a listed finding of the write path when the model has tagged
//     that cell (a deleted sample that only a restart can bring back, a sample only a finding can lose): the
//     returned tag is then non-empty and the caller tolerates / reports it as that finding.
func (e *exec) diffModuloCandidates(a, b qresult) (diff string, tag string) {
	d := diffResults(a, b)
	if d == "" {
		return "", ""
	}
	cells := map[string]map[int64]*tsdbmodel.Cell{}
	for _, ms := range e.m.Series {
		cells[ms.Labels.String()] = ms.Cells
	}
	okVal := func(c *tsdbmodel.Cell, s tsdbmodel.Sample) bool {
		for _, cand := range c.Cands {
			if tsdbmodel.ValueEqual(cand, s) {
				return true
			}
		}
		return false
	}
	var keys []string
	seen := map[string]bool{}
	for k := range a {
		seen[k] = true
		keys = append(keys, k)
	}
	for k := range b {
		if !seen[k] {
			keys = append(keys, k)
		}
	}
	sort.Strings(keys)
	multi := false
	for _, k := range keys {
		x, y := map[int64]tsdbmodel.Sample{}, map[int64]tsdbmodel.Sample{}
		ts := map[int64]bool{}
		for _, smp := range a[k] {
			x[smp.T] = smp
			ts[smp.T] = true
		}
		for _, smp := range b[k] {
			y[smp.T] = smp
			ts[smp.T] = true
		}
		if len(x) != len(a[k]) || len(y) != len(b[k]) {
			return d, "" // duplicate timestamps inside one result
		}
		for _, t := range tsdbmodel.SortedTimes(ts) {
			sx, okx := x[t]
			sy, oky := y[t]
			c := cells[k][t]
			switch {
			case okx && oky:
				if tsdbmodel.ValueEqual(sx, sy) {
					continue
				}
				if c == nil || len(c.Cands) < 2 || !okVal(c, sx) || !okVal(c, sy) {
					return d, ""
				}
				multi = true
			default:
				if c == nil || c.KF == "" {
					return fmt.Sprintf("series %s: t=%d returned by one restart only (%v / %v)", k, t, okx, oky), ""
				}
				if tag == "" || c.KF < tag {
					tag = c.KF
				}
			}
		}
	}
	if multi {
		e.res.Count("tolerated:multi-candidate-timestamp", 1)
	}
	if tag != "" {
		return d, tag
	}
	return "", ""
}

// cellOOO reports whether the model holds (series key, t) as out-of-order head data.
func (e *exec) cellOOO(key string, t int64) bool {
	for _, ms := range e.m.Series {
		if ms.Labels.String() == key {
			if c := ms.Cells[t]; c != nil && (c.OOOHead || c.Zombie) {
				return true
			}
		}
	}
	return false
}

// snapshotCheck is the C23 oracle: restart from the memory snapshot equals restart from the WAL alone; a damaged or
// outdated snapshot is discarded in favour of WAL replay without losing data.
func (e *exec) snapshotCheck(where string) {
	if walRefReuse(e.dir) && e.cfg.KF != TagRefReuseSnapshot {
		e.res.Count("tolerated:"+TagRefReuseSnapshot, 1)
		return
	}
	snaps, _ := filepath.Glob(filepath.Join(e.dir, "chunk_snapshot.*"))
	if len(snaps) == 0 {
		e.res.Count("snapshot_absent_at_shutdown", 1)
		return
	}
	openAndQuery := func(dir string) (qresult, error) {
		db, _, err := e.open(dir)
		if err != nil {
			return nil, fmt.Errorf("open: %w", err)
		}
		defer db.Close()
		return querySamples(db, math.MinInt64, math.MaxInt64, allMatcher)
	}
	// reference: WAL only
	walDir := e.scratch("walonly")
	defer os.RemoveAll(walDir)
	simfs.CopyTree(e.dir, walDir)
	ws, _ := filepath.Glob(filepath.Join(walDir, "chunk_snapshot.*"))
	for _, s := range ws {
		os.RemoveAll(s)
	}
	want, err := openAndQuery(walDir)
	if err != nil {
		e.fail("snapshot-vs-wal", "wal-only-open-failed", "%s: open without snapshot failed: %v", where, err)
		return
	}
	variants := []string{"intact"}
	switch e.rng.Intn(5) {
	case 0:
		variants = append(variants, "truncated")
	case 1:
		variants = append(variants, "byteflip")
	case 2:
		variants = append(variants, "wal-behind")
	case 3:
		variants = append(variants, "headchunk-damage")
	}
	for _, v := range variants {
		dir := e.scratch("snap")
		simfs.CopyTree(e.dir, dir)
		ref := want
		kfVariant := false
		ss, _ := filepath.Glob(filepath.Join(dir, "chunk_snapshot.*"))
		var segs []string
		for _, s := range ss {
			g, _ := filepath.Glob(filepath.Join(s, "0*"))
			segs = append(segs, g...)
		}
		switch v {
		case "truncated":
			if len(segs) > 0 {
				if fi, err := os.Stat(segs[len(segs)-1]); err == nil && fi.Size() > 8 {
					cut := int64(e.rng.Intn(int(fi.Size())))
					// half of the cuts land on or just behind a record boundary (a clean-looking short file, a record
					// header cut in the middle): uniformly random offsets almost never do
					if offs := recordOffsets(segs[len(segs)-1]); len(offs) > 0 && e.rng.Chance(0.5) {
						cut = offs[e.rng.Intn(len(offs))] + int64(e.rng.Intn(8))
						if cut >= fi.Size() {
							cut = fi.Size() - 1
						}
						e.res.Count("fault:snapshot-cut-near-record-boundary", 1)
					}
					os.Truncate(segs[len(segs)-1], cut)
					e.res.Count("fault:snapshot-damage", 1)
				}
			}
		case "byteflip":
			if len(segs) > 0 {
				if b, err := os.ReadFile(segs[0]); err == nil && len(b) > 0 {
					// only within the used part (records), not the zero padding
					used := len(b)
					for used > 0 && b[used-1] == 0 {
						used--
					}
					if used > 0 {
						b[e.rng.Intn(used)] ^= byte(1 << uint(e.rng.Intn(8)))
						os.WriteFile(segs[0], b, 0o666)
						e.res.Count("fault:snapshot-damage", 1)
					}
				}
			}
		case "wal-behind":
			// remove the WAL segments at/after the snapshot index from this copy and from the reference copy:
			// the snapshot is then ahead of the WAL and must be discarded
			idx := snapIndex(ss)
			refDir := e.scratch("walbehindref")
			// (from the pristine directory: walDir has been opened - and shut down with a new snapshot - already)
			simfs.CopyTree(e.dir, refDir)
			rs, _ := filepath.Glob(filepath.Join(refDir, "chunk_snapshot.*"))
			for _, s := range rs {
				os.RemoveAll(s)
			}
			removed := false
			for _, d := range []string{dir, refDir} {
				g, _ := filepath.Glob(filepath.Join(d, "wal", "0*"))
				for _, f := range g {
					var n int
					fmt.Sscanf(filepath.Base(f), "%d", &n)
					// Open always starts a new segment (last+1); for the WAL to end behind the snapshot index after
					// that, everything from idx-1 on has to go.
					if idx >= 1 && n >= idx-1 {
						os.Remove(f)
						removed = true
					}
				}
			}
			var err error
			ref, err = openAndQuery(refDir)
			os.RemoveAll(refDir)
			if err != nil || !removed {
				os.RemoveAll(dir)
				continue
			}
			e.res.Count("fault:snapshot-outdated", 1)
		case "headchunk-damage":
			// the same damage to a head chunk file in the copy with and in a copy without the snapshot
			hc, _ := filepath.Glob(filepath.Join(dir, "chunks_head", "0*"))
			if len(hc) == 0 {
				os.RemoveAll(dir)
				continue
			}
			target := hc[e.rng.Intn(len(hc))]
			b, err := os.ReadFile(target)
			used := len(b)
			for used > 0 && b[used-1] == 0 {
				used--
			}
			if err != nil || used <= 8 {
				os.RemoveAll(dir)
				continue
			}
			if e.rng.Chance(0.5) {
				b[8+e.rng.Intn(used-8)] ^= byte(1 << uint(e.rng.Intn(8)))
			} else {
				b = b[:8+e.rng.Intn(used-8)]
			}
			refDir := e.scratch("hcdamageref")
			simfs.CopyTree(e.dir, refDir)
			rs, _ := filepath.Glob(filepath.Join(refDir, "chunk_snapshot.*"))
			for _, s := range rs {
				os.RemoveAll(s)
			}
			os.WriteFile(target, b, 0o666)
			os.WriteFile(filepath.Join(refDir, "chunks_head", filepath.Base(target)), b, 0o666)
			cleanLooking := headChunkFilesReadCleanly(filepath.Join(refDir, "chunks_head"), e.scratch("hcprobe"))
			if cleanLooking {
				// listed finding: a head chunk file cut at a chunk boundary reads cleanly; the snapshot is kept, the WAL
				// is replayed from the snapshot offset only and the samples of the cut chunks are lost
				e.res.Count("tolerated:"+TagSnapshotTrustsHeadChunks, 1)
				if e.cfg.KF != TagSnapshotTrustsHeadChunks {
					os.RemoveAll(refDir)
					os.RemoveAll(dir)
					continue
				}
				kfVariant = true
			}
			ref, err = openAndQuery(refDir)
			os.RemoveAll(refDir)
			if err != nil {
				// a damaged head chunk file that makes the WAL-only open fail is C04's / C25's subject, not C23's
				e.res.Count("headchunk_damage_reference_open_failed", 1)
				os.RemoveAll(dir)
				continue
			}
			e.res.Count("fault:head-chunk-file-damage", 1)
		}
		got, err := openAndQuery(dir)
		os.RemoveAll(dir)
		e.res.Evals++
		if err != nil {
			e.fail("snapshot-vs-wal", "snapshot-open-failed:"+v, "%s: open with %s snapshot failed: %v", where, v, err)
			return
		}
		if d, tag := e.diffModuloCandidates(ref, got); d != "" {
			if debugOn {
				os.RemoveAll("/dev/shm/verif-keep")
				simfs.CopyTree(e.dir, "/dev/shm/verif-keep")
				fmt.Printf("DBG kept data dir in /dev/shm/verif-keep\n")
			}
			if tag != "" {
				// the two restarts differ only where a listed finding of the write path decides what a restart returns
				e.res.Count("tolerated:"+tag, 1)
				if e.cfg.KF == tag {
					e.fail("snapshot-vs-wal", "known:"+tag, "%s: restart from the %s snapshot differs from restart from the WAL alone: %s", where, v, d)
					return
				}
				e.res.Count("snapshot_checks:"+v, 1)
				continue
			}
			if kfVariant {
				e.fail("snapshot-vs-wal", "known:"+TagSnapshotTrustsHeadChunks, "%s: restart from the snapshot with a head chunk file cut at a chunk boundary differs from restart from the WAL alone: %s", where, d)
				return
			}
			if walRefReuse(e.dir) {
				e.fail("snapshot-vs-wal", "known:"+TagRefReuseSnapshot, "%s: restart from the %s snapshot differs from restart from the WAL alone (the WAL reuses a series ref for another label set): %s", where, v, d)
				return
			}
			e.fail("snapshot-vs-wal", "snapshot-restart-differs:"+v, "%s: restart from the %s snapshot differs from restart from the WAL alone: %s", where, v, d)
			return
		}
		e.res.Count("snapshot_checks:"+v, 1)
	}
}

// TagSnapshotTrustsHeadChunks is the known finding: the chunk snapshot holds only the open head chunk of each series and
// relies on the chunks_head files for the older ones, without recording which chunks it expects there. A head chunk
// file that lost its tail at a chunk boundary (or everything behind its header) reads without error, the snapshot is
// kept, the WAL is replayed from the snapshot offset only, and the samples of the missing chunks are gone although
// the WAL still holds them (a restart without the snapshot returns them).
const TagSnapshotTrustsHeadChunks = "snapshot-kept-when-head-chunk-file-lost-chunks-at-a-chunk-boundary"

// headChunkFilesReadCleanly reports whether the head chunk files in dir (copied to scratch first) iterate without error.
func headChunkFilesReadCleanly(dir, scratch string) bool {
	defer os.RemoveAll(scratch)
	if err := simfs.CopyTree(dir, filepath.Join(scratch, "chunks_head")); err != nil {
		panic("harness: " + err.Error())
	}
	cdm, err := chunks.NewChunkDiskMapper(nil, filepath.Join(scratch, "chunks_head"), chunkenc.NewPool(), chunks.DefaultWriteBufferSize, chunks.DefaultWriteQueueSize)
	if err != nil {
		return false
	}
	defer cdm.Close()
	err = cdm.IterateAllChunks(func(chunks.HeadSeriesRef, chunks.ChunkDiskMapperRef, int64, int64, uint16, chunkenc.Encoding, bool) error {
		return nil
	})
	return err == nil
}

// recordOffsets returns the offsets at which the records of one WAL-format segment file end.
func recordOffsets(path string) []int64 {
	f, err := os.Open(path)
	if err != nil {
		return nil
	}
	defer f.Close()
	r := wlog.NewReader(f)
	var offs []int64
	for r.Next() {
		offs = append(offs, r.Offset())
	}
	return offs
}

func snapIndex(snaps []string) int {
	best := -1
	for _, s := range snaps {
		var idx, off int
		if strings.HasSuffix(s, ".tmp") {
			continue // an unfinished snapshot is never loaded
		}
		if _, err := fmt.Sscanf(filepath.Base(s), "chunk_snapshot.%d.%d", &idx, &off); err == nil && idx > best {
			best = idx
		}
	}
	return best
}
