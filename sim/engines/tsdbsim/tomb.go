package tsdbsim

import (
	"fmt"
	"math"
	"sort"

	"github.com/prometheus/prometheus/storage"
	"github.com/prometheus/prometheus/tsdb/tombstones"
)

// checkIntervals verifies the canonical form C20 demands: sorted, non-overlapping, non-adjacent.
func checkIntervals(ivs tombstones.Intervals) string {
	for i, iv := range ivs {
		if iv.Mint > iv.Maxt {
			return fmt.Sprintf("interval %d is empty/inverted [%d,%d]", i, iv.Mint, iv.Maxt)
		}
		if i == 0 {
			continue
		}
		p := ivs[i-1]
		if iv.Mint <= p.Maxt {
			return fmt.Sprintf("intervals %d and %d overlap or are unsorted: [%d,%d] then [%d,%d]", i-1, i, p.Mint, p.Maxt, iv.Mint, iv.Maxt)
		}
		if p.Maxt != math.MaxInt64 && iv.Mint == p.Maxt+1 {
			return fmt.Sprintf("intervals %d and %d are adjacent and should have been merged: [%d,%d] then [%d,%d]", i-1, i, p.Mint, p.Maxt, iv.Mint, iv.Maxt)
		}
	}
	return ""
}

func checkReader(tr tombstones.Reader) (n int, bad string) {
	type kv struct {
		ref storage.SeriesRef
		ivs tombstones.Intervals
	}
	var all []kv
	_ = tr.Iter(func(ref storage.SeriesRef, ivs tombstones.Intervals) error {
		all = append(all, kv{ref, append(tombstones.Intervals(nil), ivs...)})
		return nil
	})
	sort.Slice(all, func(i, j int) bool { return all[i].ref < all[j].ref })
	for _, e := range all {
		n += len(e.ivs)
		if b := checkIntervals(e.ivs); b != "" && bad == "" {
			bad = fmt.Sprintf("series ref %d: %s", e.ref, b)
		}
	}
	return n, bad
}

// tombstoneInvariants is the structural half of C20: the deleted intervals of the head and of every block, in
// memory and as read back from the tombstones file, are in canonical form and the file equals the memory state;
// after CleanTombstones no block holds tombstones.
func (e *exec) tombstoneInvariants(where string, afterClean bool) {
	if tr, err := e.db.Head().Tombstones(); err == nil {
		e.res.Evals++
		if _, bad := checkReader(tr); bad != "" {
			e.fail("tombstone-form", "head-intervals-not-canonical", "%s: head tombstones: %s", where, bad)
			return
		}
	}
	for _, b := range e.db.Blocks() {
		tr, err := b.Tombstones()
		if err != nil {
			e.fail("tombstone-form", "block-tombstones-error", "%s: block %s Tombstones(): %v", where, b.Meta().ULID, err)
			return
		}
		nMem, bad := checkReader(tr)
		memDump := dumpReader(tr)
		tr.Close() // releases the block's pending-reader count
		e.res.Evals++
		if bad != "" {
			e.fail("tombstone-form", "block-intervals-not-canonical", "%s: block %s: %s", where, b.Meta().ULID, bad)
			return
		}
		fr, _, err := tombstones.ReadTombstones(b.Dir())
		if err != nil {
			e.fail("tombstone-file", "tombstone-file-unreadable", "%s: block %s tombstones file: %v", where, b.Meta().ULID, err)
			return
		}
		nFile, badF := checkReader(fr)
		if badF != "" {
			e.fail("tombstone-file", "file-intervals-not-canonical", "%s: block %s tombstones file: %s", where, b.Meta().ULID, badF)
			return
		}
		if d := diffDumps(memDump, dumpReader(fr)); d != "" {
			e.fail("tombstone-file", "file-differs-from-memory", "%s: block %s: tombstones file does not read back what the block holds: %s", where, b.Meta().ULID, d)
			return
		}
		if uint64(nMem) != b.Meta().Stats.NumTombstones {
			e.fail("tombstone-form", "numtombstones-stat-wrong", "%s: block %s meta says %d tombstones, block holds %d", where, b.Meta().ULID, b.Meta().Stats.NumTombstones, nMem)
			return
		}
		_ = nFile
		if afterClean && nMem != 0 {
			e.fail("tombstone-clean", "tombstones-left-after-clean", "%s: block %s still holds %d tombstone intervals after CleanTombstones", where, b.Meta().ULID, nMem)
			return
		}
		e.res.Count("tombstone_blocks_checked", 1)
		if nMem > 0 {
			e.res.Count("tombstone_blocks_nonempty", 1)
		}
	}
}

func dumpReader(tr tombstones.Reader) map[storage.SeriesRef]string {
	m := map[storage.SeriesRef]string{}
	_ = tr.Iter(func(ref storage.SeriesRef, ivs tombstones.Intervals) error {
		m[ref] = fmt.Sprint(ivs)
		return nil
	})
	return m
}

func diffDumps(ma, mb map[storage.SeriesRef]string) string {
	for k, v := range ma {
		if mb[k] != v {
			return fmt.Sprintf("ref %d: memory %s file %s", k, v, mb[k])
		}
	}
	for k, v := range mb {
		if _, ok := ma[k]; !ok {
			return fmt.Sprintf("ref %d: only in file %s", k, v)
		}
	}
	return ""
}
