package tsdbsim

import (
	"path/filepath"

	"github.com/prometheus/prometheus/model/labels"
	"github.com/prometheus/prometheus/tsdb/chunks"
	"github.com/prometheus/prometheus/tsdb/record"
	"github.com/prometheus/prometheus/tsdb/wlog"
)

// TagRefReuseSnapshot is the known finding: after a restart from a chunk snapshot taken with an empty head the WAL
// segments before the snapshot index are not replayed, the series records in them do not raise lastSeriesID, and new
// series get refs that older WAL records still use for other label sets. Any later full WAL replay (read-only open,
// discarded snapshot) attributes samples to the wrong series or drops them.
const TagRefReuseSnapshot = "series-ref-reused-after-snapshot-restart"

// walRefReuse reports whether the WAL of dir (last checkpoint + segments) holds two series records with the same ref
// and different label sets, or the same ref issued again after a tombstone record for it (the earlier incarnation was
// evicted or deleted; its tombstone then hides the samples of the new incarnation at a full replay).
func walRefReuse(dir string) bool {
	wdir := filepath.Join(dir, "wal")
	seen := map[chunks.HeadSeriesRef]string{}
	tombed := map[chunks.HeadSeriesRef]bool{}
	conflict := false
	scan := func(r *wlog.Reader) {
		dec := record.NewDecoder(labels.NewSymbolTable(), nil)
		for r.Next() {
			rec := r.Record()
			if dec.Type(rec) == record.Tombstones {
				if st, err := dec.Tombstones(rec, nil); err == nil {
					for _, x := range st {
						tombed[chunks.HeadSeriesRef(x.Ref)] = true
					}
				}
				continue
			}
			if dec.Type(rec) != record.Series {
				continue
			}
			ss, err := dec.Series(rec, nil)
			if err != nil {
				return
			}
			for _, s := range ss {
				l := s.Labels.String()
				if p, ok := seen[s.Ref]; ok && (p != l || tombed[s.Ref]) {
					conflict = true
				}
				seen[s.Ref] = l
			}
		}
	}
	cp, idx, err := wlog.LastCheckpoint(wdir)
	from := 0
	if err == nil {
		if sr, err := wlog.NewSegmentsReader(cp); err == nil {
			scan(wlog.NewReader(sr))
			sr.Close()
		}
		from = idx + 1
	}
	_, last, err := wlog.Segments(wdir)
	if err != nil || last < 0 {
		return conflict
	}
	if sr, err := wlog.NewSegmentsRangeReader(wlog.SegmentRange{Dir: wdir, First: from, Last: last}); err == nil {
		scan(wlog.NewReader(sr))
		sr.Close()
	}
	return conflict
}
