package tsdbsim

import (
	"encoding/json"
	"fmt"
	"os"
	"path/filepath"
	"sort"
)

// ---- C09: retention removes only whole expired blocks, oldest first; superseded blocks go, also after a crash ----

type blockOnDisk struct {
	ulid       string
	mint, maxt int64
	size       int64
	parents    []string
	deletable  bool
}

type diskState struct {
	blocks   map[string]blockOnDisk
	headSize int64 // WAL + out-of-order WAL + head chunk files
}

func dirSize(dir string) int64 {
	var n int64
	filepath.Walk(dir, func(_ string, fi os.FileInfo, err error) error {
		if err == nil && !fi.IsDir() {
			n += fi.Size()
		}
		return nil
	})
	return n
}

// scanDisk lists the readable blocks of a data directory and the size of the head's files.
func scanDisk(dir string) diskState {
	st := diskState{blocks: map[string]blockOnDisk{}}
	ents, _ := os.ReadDir(dir)
	for _, en := range ents {
		if !en.IsDir() || len(en.Name()) != 26 {
			continue
		}
		b, err := os.ReadFile(filepath.Join(dir, en.Name(), "meta.json"))
		if err != nil {
			continue
		}
		var m struct {
			ULID       string `json:"ulid"`
			MinTime    int64  `json:"minTime"`
			MaxTime    int64  `json:"maxTime"`
			Compaction struct {
				Deletable bool `json:"deletable"`
				Parents   []struct {
					ULID string `json:"ulid"`
				} `json:"parents"`
			} `json:"compaction"`
		}
		if json.Unmarshal(b, &m) != nil || m.ULID != en.Name() {
			continue
		}
		bd := blockOnDisk{ulid: m.ULID, mint: m.MinTime, maxt: m.MaxTime, deletable: m.Compaction.Deletable}
		for _, p := range m.Compaction.Parents {
			bd.parents = append(bd.parents, p.ULID)
		}
		bd.size = dirSize(filepath.Join(dir, en.Name()))
		st.blocks[m.ULID] = bd
	}
	st.headSize = dirSize(filepath.Join(dir, "wal")) + dirSize(filepath.Join(dir, "wbl")) + dirSize(filepath.Join(dir, "chunks_head"))
	return st
}

// judgeRetention is the C09 oracle for one block reload: pre is the directory when the reload began, post when it ended.
func (e *exec) judgeRetention(dir string, pre, post diskState) {
	c := e.cfg
	where := fmt.Sprintf("block reload during op %d", e.opIdx)
	e.res.Evals++
	e.res.Count("reloads_judged", 1)
	if debugOn {
		fmt.Printf("DBG reload in %s: pre head=%d\n", filepath.Base(dir), pre.headSize)
		for u, b := range pre.blocks {
			_, still := post.blocks[u]
			fmt.Printf("DBG    %s [%d,%d) %dB parents=%v deletable=%v still=%v\n", u, b.mint, b.maxt, b.size, b.parents, b.deletable, still)
		}
		for u, b := range post.blocks {
			if _, was := pre.blocks[u]; !was {
				fmt.Printf("DBG    new during reload: %s [%d,%d) parents=%v\n", u, b.mint, b.maxt, b.parents)
			}
		}
	}
	// superseded: parents of a block that is on disk, or marked deletable by a compaction that produced nothing
	superseded := map[string]bool{}
	for _, b := range pre.blocks {
		if b.deletable {
			superseded[b.ulid] = true
		}
		for _, p := range b.parents {
			if _, ok := pre.blocks[p]; ok {
				superseded[p] = true
			}
		}
	}
	var live []blockOnDisk
	for _, b := range pre.blocks {
		if !superseded[b.ulid] {
			live = append(live, b)
		}
	}
	sort.Slice(live, func(i, j int) bool {
		if live[i].maxt != live[j].maxt {
			return live[i].maxt > live[j].maxt
		}
		return live[i].ulid < live[j].ulid
	})
	must := map[string]string{} // ulid -> why it has to be gone
	may := map[string]bool{}    // removal allowed but not demanded (ties in MaxTime)
	for u := range superseded {
		must[u] = "superseded by a completed compaction"
	}
	// time retention
	if c.RetentionMs > 0 && len(live) > 0 {
		newest := live[0].maxt
		for _, b := range live[1:] {
			if newest-b.maxt >= c.RetentionMs {
				must[b.ulid] = fmt.Sprintf("MaxTime %d is %d older than the newest block's %d (retention %d)", b.maxt, newest-b.maxt, newest, c.RetentionMs)
			}
		}
	}
	// size retention over the newest-first run
	limit := c.MaxBytes
	if c.MaxPct > 0 && c.FsSize > 0 {
		limit = int64(float64(c.FsSize) * c.MaxPct / 100)
	}
	if limit > 0 && len(live) > 0 {
		cum := pre.headSize
		cut := false
		for i := 0; i < len(live); {
			j := i
			var sum, minSz int64
			minSz = live[i].size
			for j < len(live) && live[j].maxt == live[i].maxt {
				sum += live[j].size
				if live[j].size < minSz {
					minSz = live[j].size
				}
				j++
			}
			switch {
			case cut || cum+minSz > limit:
				for _, b := range live[i:j] {
					if _, ok := must[b.ulid]; !ok {
						must[b.ulid] = fmt.Sprintf("cumulative size %d (head files %d + newer blocks + itself) exceeds the limit %d", cum+b.size, pre.headSize, limit)
					}
				}
				cut = true
			case cum+sum > limit:
				// blocks with one MaxTime: which of them still fit depends on their order
				for _, b := range live[i:j] {
					may[b.ulid] = true
				}
				cut = true
			}
			cum += sum
			i = j
		}
		if cut {
			e.res.Count("size_retention_cuts", 1)
		}
	}
	for u := range must {
		if _, still := post.blocks[u]; still {
			if superseded[u] {
				e.fail("retention", "superseded-block-left-on-disk", "%s: block %s is still on disk although it is %s", where, u, must[u])
			} else {
				e.fail("retention", "expired-block-kept", "%s: block %s is still there although %s", where, u, must[u])
			}
			return
		}
		e.res.Count("blocks_removed_as_required", 1)
	}
	var gone []blockOnDisk
	for u, b := range pre.blocks {
		if _, still := post.blocks[u]; !still {
			gone = append(gone, b)
			if _, ok := must[u]; !ok && !may[u] && !e.cleaningTombstones {
				// (CleanTombstones removes the blocks it has rewritten - or found empty - itself)
				desc := ""
				for _, l := range live {
					desc += fmt.Sprintf(" %s[%d,%d)=%dB", l.ulid[18:], l.mint, l.maxt, l.size)
				}
				e.fail("retention", "block-removed-without-reason", "%s: block %s [%d,%d) size %d was removed, but it is neither superseded nor beyond the time retention (%d) nor beyond the size limit (%d; head files %d); blocks newest first:%s", where, u, b.mint, b.maxt, b.size, c.RetentionMs, limit, pre.headSize, desc)
				return
			}
		}
	}
	// never a block strictly newer than a retained one (retention removals only)
	for _, d := range gone {
		if superseded[d.ulid] || e.cleaningTombstones {
			continue
		}
		for u, r := range post.blocks {
			if _, was := pre.blocks[u]; was && d.maxt > r.maxt {
				e.fail("retention", "newer-block-removed-before-older", "%s: block %s (MaxTime %d) was removed while the older block %s (MaxTime %d) was kept", where, d.ulid, d.maxt, u, r.maxt)
				return
			}
		}
	}
	if len(gone) > 0 {
		e.res.Count("reloads_with_removals", 1)
	}
}
