package tsdbsim

import (
	"context"
	"errors"
	"fmt"
	"github.com/oklog/ulid/v2"
	"log/slog"
	"math"
	"os"
	"path/filepath"
	"regexp"
	"runtime/debug"
	"sort"
	"strings"
	"sync"
	"testing"
	"testing/synctest"
	"time"

	"github.com/prometheus/client_golang/prometheus"

	"github.com/prometheus/prometheus/config"
	"github.com/prometheus/prometheus/model/histogram"
	"github.com/prometheus/prometheus/model/labels"
	"github.com/prometheus/prometheus/model/value"
	"github.com/prometheus/prometheus/storage"
	"github.com/prometheus/prometheus/tsdb"
	"github.com/prometheus/prometheus/tsdb/chunkenc"
	"github.com/prometheus/prometheus/util/compression"
	"github.com/prometheus/prometheus/util/simhook"

	"verif/sim/core/prng"
	"verif/sim/core/runner"
	"verif/sim/core/simfs"
	"verif/sim/model/histgen"
	"verif/sim/model/tsdbmodel"
)

// scratchRoot is where simulated data directories live (tmpfs); removed per run.
func scratchRoot() string {
	base := os.Getenv("VERIF_SCRATCH")
	if base == "" {
		base = "/dev/shm/verif-sim"
	}
	return filepath.Join(base, fmt.Sprintf("p%d", os.Getpid()))
}

type slot struct {
	open    bool
	initApp bool // created while the head was uninitialised
	v1      storage.Appender
	v2      storage.AppenderV2
	m       *tsdbmodel.App
	held    []heldHist // histograms handed to this appender and their pristine copies (C11: the caller's stay unchanged)
}

type heldHist struct {
	t     int64
	h, h0 *histogram.Histogram
	f, f0 *histogram.FloatHistogram
}

type image struct {
	dir      string
	site, op string
	path     string // path of the touched file relative to data dir
	n        int
	end      int64 // logical end offset of the written region (write ops)
	hit      int
	startup  bool // taken during start-up (WAL replay, head chunk repair) rather than during normal operation
}

type exec struct {
	walArchive         string                                  // C15: every WAL segment ever written (the untruncated log)
	cleaningTombstones bool                                    // inside DB.CleanTombstones (it removes rewritten blocks itself)
	preReload          map[string]diskState                    // C09: directory state at the beginning of a block reload, per data dir
	ever               map[string]map[int64][]tsdbmodel.Sample // every sample a committed transaction carried, per series and timestamp (C04)
	failArm            int                                     // block writes / compactions that fail next (injected "disk full")
	starting           bool                                    // inside the reopen of a restart: IO seen now belongs to the start-up of the next process lifetime
	shardOf            map[string]uint64                       // C18: "<n>|<series>" -> shard index seen earlier in this run
	delTimes           map[string][]int64                      // C12: timestamps deleted so far, per series
	t                  *testing.T
	prop               string
	plan               *Plan
	cfg                Config
	res                *runner.Result
	rng                *prng.R // oracle-side choices (query windows); never influences the SUT

	root string
	dir  string
	gen  int // data dir generation (after dirty restarts)
	db   *tsdb.DB
	reg  *prometheus.Registry
	opts *tsdb.Options

	m      *tsdbmodel.Model
	lsets  []labels.Labels
	apps   [3]*slot
	refs   []storage.SeriesRef
	hist   []histgen.State
	uniq   int64
	now    int64
	curOOO int64
	opIdx  int
	kinds  []string // op kind sequence actually executed (distinctness key)
	// pendingCreator[s] = slot+1 of the open appender that created series s in the head and has not yet
	// logged its series record (commit or rollback does that); 0 if none.
	pendingCreator []int

	// crash machinery
	mu         sync.Mutex
	collecting bool
	images     []*image
	hits       int
	imgSeq     int
	logical    map[string]int64
	ulidCtr    uint64
	crashArm   int    // >0: arm crashAt for the next mutating op
	crashAt    int    // >0: switch to the image of this hit after the current op
	crashImg   *image // image selected for a dirty restart

	// probes
	sawBlockData, sawOOOData, sawHeadData bool
	compactions, restarts                 int
	evCompactEnd                          []compactEvent
	evPlans                               []planEvent
	evReload                              []string

	onReload func(string)

	oooCompactedThisEpoch bool
	stopAfterStep         bool
	mixedOOO              bool

	failed bool
}

type compactEvent struct {
	kind string
	dest string
	meta tsdb.BlockMeta
	err  error
}

type planEvent struct {
	dir  string
	plan []string
	err  error
}

// ---- simhook.Simulator ----

type hookT struct {
	mu sync.Mutex
	e  *exec
}

var theHook = &hookT{}

func init() { simhook.Install(theHook) }

func (h *hookT) cur() *exec {
	h.mu.Lock()
	defer h.mu.Unlock()
	return h.e
}
func (h *hookT) set(e *exec) {
	h.mu.Lock()
	h.e = e
	h.mu.Unlock()
}
func (h *hookT) Yield(string, ...int) {}
func (h *hookT) Acquire(string, bool) {}
func (h *hookT) Release(string, bool) {}
func (h *hookT) Event(name string, kv ...any) {
	if e := h.cur(); e != nil {
		e.onEvent(name, kv...)
	}
}
func (h *hookT) ID16(b [16]byte) [16]byte {
	e := h.cur()
	if e == nil {
		return b
	}
	e.mu.Lock()
	defer e.mu.Unlock()
	e.ulidCtr++
	// keep the (fake-clock) time part, replace entropy by a deterministic increasing counter
	var out [16]byte
	copy(out[:6], b[:6])
	x := prng.Derive(e.cfg.Seed, 0xb10c)
	out[6] = byte(e.ulidCtr >> 24)
	out[7] = byte(e.ulidCtr >> 16)
	out[8] = byte(e.ulidCtr >> 8)
	out[9] = byte(e.ulidCtr)
	for i := 10; i < 16; i++ {
		out[i] = byte(x >> (8 * (i - 10)))
	}
	return out
}

func (h *hookT) IO(op, site, path string, n int) {
	e := h.cur()
	if e == nil {
		return
	}
	e.onIO(op, site, path, n)
}

func (e *exec) onEvent(name string, kv ...any) {
	e.mu.Lock()
	defer e.mu.Unlock()
	switch name {
	case "compact.end":
		ce := compactEvent{kind: kv[0].(string), dest: kv[1].(string)}
		if m, ok := kv[2].(*tsdb.BlockMeta); ok && m != nil {
			ce.meta = *m
		}
		if err, ok := kv[3].(error); ok {
			ce.err = err
		}
		if strings.HasPrefix(ce.dest, e.root) {
			e.evCompactEnd = append(e.evCompactEnd, ce)
			if e.prop == "C07" && !e.failed {
				e.mu.Unlock()
				e.compactionCheck(ce)
				e.mu.Lock()
			}
		}
	case "compact.plan":
		pe := planEvent{dir: kv[0].(string)}
		if p, ok := kv[1].([]string); ok {
			pe.plan = append([]string(nil), p...)
		}
		if err, ok := kv[2].(error); ok {
			pe.err = err
		}
		if strings.HasPrefix(pe.dir, e.root) {
			e.evPlans = append(e.evPlans, pe)
		}
	case "db.reloadBlocks.begin", "db.reloadBlocks.end":
		if d, ok := kv[0].(string); ok && d == e.dir {
			e.evReload = append(e.evReload, name)
			if e.onReload != nil {
				e.onReload(name)
			}
		}
		if d, ok := kv[0].(string); ok && e.prop == "C09" && strings.HasPrefix(d, e.root) {
			// the retention monitor follows every reload, also those of crash images being reopened
			if name == "db.reloadBlocks.begin" {
				if e.preReload == nil {
					e.preReload = map[string]diskState{}
				}
				e.preReload[d] = scanDisk(d)
			} else if pre, ok := e.preReload[d]; ok {
				delete(e.preReload, d)
				failed := len(kv) > 1 && kv[1] != nil
				if err, isErr := kv[1].(error); isErr && err == nil {
					failed = false
				}
				if !failed {
					post := scanDisk(d)
					e.mu.Unlock()
					e.judgeRetention(d, pre, post)
					e.mu.Lock()
				}
			}
		}
	}
}

func (e *exec) onIO(op, site, path string, n int) {
	e.mu.Lock()
	defer e.mu.Unlock()
	if !strings.HasPrefix(path, e.dir+"/") {
		return
	}
	rel := path[len(e.dir)+1:]
	e.res.Count("io:"+site, 1)
	if e.prop == "C15" && op == "create" && site == "wlog.CreateSegment" && strings.HasPrefix(rel, "wal/") {
		e.mu.Unlock()
		e.archiveWAL()
		e.mu.Lock()
	}
	if debugIO {
		fmt.Printf("DBG   io op=%d %s %s %s n=%d collecting=%v hits=%d\n", e.opIdx, op, site, rel, n, e.collecting, e.hits)
	}
	switch op {
	case "create":
		e.logical[rel] = int64(n)
	case "write":
		e.logical[rel] += int64(n)
	case "remove", "removeall":
		delete(e.logical, rel)
	}
	if !e.collecting {
		return
	}
	e.hits++
	take := false
	replace := -1
	if e.crashAt > 0 && e.hits == e.crashAt {
		take = true
	} else if len(e.images) < e.cfg.ImgCap {
		take = true
	} else {
		// reservoir sampling over the hits of this op, decided by the oracle-side PRNG
		j := e.rng.Intn(e.hits)
		if j < e.cfg.ImgCap {
			// never evict the image selected for a dirty restart
			if e.images[j] != e.crashImg {
				take, replace = true, j
			}
		}
	}
	if !take {
		return
	}
	e.imgSeq++
	img := &image{dir: filepath.Join(e.root, fmt.Sprintf("img%d", e.imgSeq)), site: site, op: op, path: rel, n: n, end: e.logical[rel], hit: e.hits, startup: e.starting}
	if err := simfs.CopyTree(e.dir, img.dir); err != nil {
		panic(fmt.Sprintf("harness: copy image: %v", err))
	}
	e.res.Count("fault:kill@io", 1)
	if e.crashAt > 0 && e.hits == e.crashAt {
		e.crashImg = img
	}
	if replace >= 0 {
		os.RemoveAll(e.images[replace].dir)
		e.images[replace] = img
	} else {
		e.images = append(e.images, img)
	}
}

// onReload is set by the retention monitor (C09).
func (e *exec) setOnReload(f func(string)) { e.onReload = f }

// ---- setup ----

// richLabels gives the C16 / C18 profiles label sets with shared and absent labels; "id" has one value per series
// (the postings offset table of a block samples every 32nd value of a label: runs with 30-70 series cross that).
func richLabels(i int) labels.Labels {
	l := []string{"__name__", "m", "s", fmt.Sprint(i % 4), "job", []string{"a", "b"}[i%2], "id", fmt.Sprintf("v%03d", i)}
	if i%2 == 1 {
		l = append(l, "odd", "y")
	}
	if e := []string{"prod", "dev", ""}[i%3]; e != "" {
		l = append(l, "env", e)
	}
	if i >= 4 {
		l = append(l, "zone", []string{"eu-1", "eu-2", "us"}[(i/2)%3])
	}
	return labels.FromStrings(l...)
}

func seriesLabels(i int) labels.Labels {
	if i%2 == 1 {
		return labels.FromStrings("__name__", "m", "s", fmt.Sprint(i), "job", "b", "odd", "y")
	}
	return labels.FromStrings("__name__", "m", "s", fmt.Sprint(i), "job", "a")
}

// faultyCompactor fails the next failArm block writes / compactions the way a full disk would (before anything is
// written); everything else goes to the real LeveledCompactor.
type faultyCompactor struct {
	tsdb.Compactor
	e *exec
}

var errInjectedNoSpace = errors.New("injected fault: no space left on device")

func (c *faultyCompactor) Write(dest string, b tsdb.BlockReader, mint, maxt int64, base *tsdb.BlockMeta) ([]ulid.ULID, error) {
	if c.e.failArm > 0 {
		c.e.failArm--
		c.e.res.Count("fault:compaction-write-error", 1)
		return nil, errInjectedNoSpace
	}
	return c.Compactor.Write(dest, b, mint, maxt, base)
}

func (c *faultyCompactor) Compact(dest string, dirs []string, open []*tsdb.Block) ([]ulid.ULID, error) {
	if c.e.failArm > 0 {
		c.e.failArm--
		c.e.res.Count("fault:compaction-write-error", 1)
		return nil, errInjectedNoSpace
	}
	return c.Compactor.Compact(dest, dirs, open)
}

func (e *exec) buildOpts() *tsdb.Options {
	c := e.cfg
	o := tsdb.DefaultOptions()
	o.MinBlockDuration = c.R
	o.MaxBlockDuration = c.R * c.MaxMul
	o.WALSegmentSize = c.WALSegKB * 1024
	switch c.WALComp {
	case "snappy":
		o.WALCompression = compression.Snappy
	case "zstd":
		o.WALCompression = compression.Zstd
	default:
		o.WALCompression = compression.None
	}
	o.SamplesPerChunk = c.SamplesPerChunk
	o.OutOfOrderTimeWindow = e.curOOO
	o.OutOfOrderCapMax = c.OOOCapMax
	o.HeadChunksWriteQueueSize = c.Queue
	o.IsolationDisabled = c.IsoOff
	o.EnableOverlappingCompaction = c.Overlap
	o.EnableMemorySnapshotOnShutdown = c.Snapshot
	o.EnableFastStartup = c.FastStart
	o.EnableSTStorage = c.ST
	if c.XOR2 {
		o.FloatChunkEncoding = chunkenc.EncXOR2
	}
	o.EnableHistogramSTEncoding = c.HistST
	o.EnableSharding = c.Sharding
	o.NewCompactorFunc = func(ctx context.Context, r prometheus.Registerer, l *slog.Logger, ranges []int64, pool chunkenc.Pool, opts *tsdb.Options) (tsdb.Compactor, error) {
		lc, err := tsdb.NewLeveledCompactorWithOptions(ctx, r, l, ranges, pool, tsdb.LeveledCompactorOptions{
			MaxBlockChunkSegmentSize:    opts.MaxBlockChunkSegmentSize,
			EnableOverlappingCompaction: opts.EnableOverlappingCompaction,
			PD:                          opts.PostingsDecoderFactory,
			UseUncachedIO:               opts.UseUncachedIO,
		})
		if err != nil {
			return nil, err
		}
		return &faultyCompactor{Compactor: lc, e: e}, nil
	}
	o.EnableExemplarStorage = c.Exemplars
	if c.Exemplars {
		o.MaxExemplars = 16
	}
	o.RetentionDuration = c.RetentionMs
	o.MaxBytes = c.MaxBytes
	o.MaxPercentage = c.MaxPct
	if c.FsSize > 0 {
		fs := uint64(c.FsSize)
		o.FsSizeFunc = func(string) uint64 { return fs }
	}
	o.MaxBlockChunkSegmentSize = 256 * 1024
	o.NoLockfile = true
	o.StripeSize = 16
	o.WALReplayConcurrency = c.ReplayConc
	return o
}

func (e *exec) open(dir string) (*tsdb.DB, *prometheus.Registry, error) {
	reg := prometheus.NewRegistry()
	db, err := tsdb.Open(dir, nil, reg, e.buildOpts(), nil)
	if err != nil {
		// tsdb.Open does not stop the goroutines it started (log writers, series state ticker) when it fails: every
		// caller reports the failed open; the runner must not take the leak for a harness deadlock
		e.res.LeakedGoroutinesExpected = true
		return nil, nil, err
	}
	db.DisableCompactions()
	synctest.Wait()
	return db, reg, nil
}

// ---- value generation ----

func (e *exec) mkValue(o Op, series int, t int64) tsdbmodel.Sample {
	s := e.m.Series[series]
	if o.VM == 1 && s.Last != nil {
		v := *s.Last
		v.T = t
		return v
	}
	e.uniq++
	u := float64(int64(series)*10_000_000 + e.uniq)
	switch o.VK {
	case 1, 2:
		r := prng.New(prng.Derive(o.HS, uint64(series)))
		h, fh := e.hist[series].Next(r, o.HM, u, o.VK == 2)
		if h != nil {
			return tsdbmodel.Sample{T: t, Kind: tsdbmodel.KHist, H: h}
		}
		return tsdbmodel.Sample{T: t, Kind: tsdbmodel.KFHist, FH: fh}
	case 3:
		return tsdbmodel.Sample{T: t, Kind: tsdbmodel.KFloat, F: math.Float64frombits(value.StaleNaN)}
	}
	return tsdbmodel.Sample{T: t, Kind: tsdbmodel.KFloat, F: u}
}

// ---- time resolution ----

func (e *exec) headInit() bool { return e.db.Head().MinTime() != math.MaxInt64 }

func (e *exec) hmax() int64 {
	if e.headInit() {
		return e.db.Head().MaxTime()
	}
	return e.now
}

func (e *exec) resolveT(o Op, sl *slot) int64 {
	var base int64
	switch o.TB {
	case "abs":
		return o.TO
	case "edge":
		// the first block boundary at or behind the current time
		base = e.now - ((e.now%e.cfg.R)+e.cfg.R)%e.cfg.R
		if base < e.now {
			base += e.cfg.R
		}
	case "hmax":
		base = e.hmax()
	case "slast":
		if l := e.m.Series[o.S].Last; l != nil {
			base = l.T
		} else {
			base = e.now
		}
	case "minv":
		if sl != nil && sl.m != nil && sl.m.W.Init {
			base = sl.m.W.MinValid
		} else {
			base = e.hmax() - e.cfg.R/2
		}
	case "oooe":
		if sl != nil && sl.m != nil && sl.m.W.Init {
			base = sl.m.W.HeadMaxt - sl.m.W.OOOWindow
		} else {
			base = e.hmax() - e.curOOO
		}
	default:
		base = e.now
	}
	t := base + o.TO*e.cfg.Step + o.TF
	// keep the span bounded: head compaction walks the span in chunk-range steps
	lo, hi := e.cfg.Start-80*e.cfg.R, e.cfg.Start+400*e.cfg.R
	if t < lo {
		t = lo
	}
	if t > hi {
		t = hi
	}
	return t
}

func (e *exec) resolveBound(b string, off int64) int64 {
	switch b {
	case "min":
		return math.MinInt64
	case "max":
		return math.MaxInt64
	case "abs":
		return off
	case "now":
		return e.now + off*e.cfg.Step
	default:
		return e.hmax() + off*e.cfg.Step
	}
}

// ---- matchers (independent evaluation) ----

func matchFn(ms []Matcher) func(labels.Labels) bool {
	type cm struct {
		Matcher
		re *regexp.Regexp
	}
	var cms []cm
	for _, m := range ms {
		c := cm{Matcher: m}
		if m.T >= 2 {
			c.re = regexp.MustCompile("^(?s:" + m.V + ")$")
		}
		cms = append(cms, c)
	}
	return func(l labels.Labels) bool {
		for _, c := range cms {
			v := l.Get(c.N)
			var ok bool
			switch c.T {
			case 0:
				ok = v == c.V
			case 1:
				ok = v != c.V
			case 2:
				ok = c.re.MatchString(v)
			default:
				ok = !c.re.MatchString(v)
			}
			if !ok {
				return false
			}
		}
		return true
	}
}

func promMatchers(ms []Matcher) []*labels.Matcher {
	var out []*labels.Matcher
	for _, m := range ms {
		out = append(out, labels.MustNewMatcher(labels.MatchType(m.T), m.N, m.V))
	}
	return out
}

// ---- querying ----

type qresult map[string][]tsdbmodel.Sample

func drainIterator(it chunkenc.Iterator) ([]tsdbmodel.Sample, error) {
	var out []tsdbmodel.Sample
	for {
		vt := it.Next()
		switch vt {
		case chunkenc.ValNone:
			return out, it.Err()
		case chunkenc.ValFloat:
			t, f := it.At()
			out = append(out, tsdbmodel.Sample{T: t, Kind: tsdbmodel.KFloat, F: f})
		case chunkenc.ValHistogram:
			t, h := it.AtHistogram(nil)
			out = append(out, tsdbmodel.Sample{T: t, Kind: tsdbmodel.KHist, H: h})
		case chunkenc.ValFloatHistogram:
			t, fh := it.AtFloatHistogram(nil)
			out = append(out, tsdbmodel.Sample{T: t, Kind: tsdbmodel.KFHist, FH: fh})
		default:
			return out, fmt.Errorf("unknown value type %v", vt)
		}
	}
}

type querierSource interface {
	Querier(mint, maxt int64) (storage.Querier, error)
	ChunkQuerier(mint, maxt int64) (storage.ChunkQuerier, error)
}

func querySamples(q querierSource, mint, maxt int64, ms ...*labels.Matcher) (qresult, error) {
	qr, err := q.Querier(mint, maxt)
	if err != nil {
		return nil, fmt.Errorf("Querier: %w", err)
	}
	defer qr.Close()
	ss := qr.Select(context.Background(), true, nil, ms...)
	res := qresult{}
	var it chunkenc.Iterator
	prev := ""
	for ss.Next() {
		s := ss.At()
		key := s.Labels().String()
		if _, dup := res[key]; dup {
			return nil, fmt.Errorf("series %s returned twice", key)
		}
		if prev != "" && labels.Compare(labels.EmptyLabels(), s.Labels()) == 0 {
			return nil, fmt.Errorf("empty label set returned")
		}
		prev = key
		it = s.Iterator(it)
		samples, err := drainIterator(it)
		if err != nil {
			return nil, fmt.Errorf("iterate %s: %w", key, err)
		}
		res[key] = samples
	}
	if err := ss.Err(); err != nil {
		return nil, fmt.Errorf("select: %w", err)
	}
	return res, nil
}

func queryChunks(q querierSource, mint, maxt int64, ms ...*labels.Matcher) (qresult, error) {
	qr, err := q.ChunkQuerier(mint, maxt)
	if err != nil {
		return nil, fmt.Errorf("ChunkQuerier: %w", err)
	}
	defer qr.Close()
	ss := qr.Select(context.Background(), true, nil, ms...)
	res := qresult{}
	for ss.Next() {
		s := ss.At()
		key := s.Labels().String()
		if _, dup := res[key]; dup {
			return nil, fmt.Errorf("series %s returned twice", key)
		}
		var samples []tsdbmodel.Sample
		cit := s.Iterator(nil)
		prevMax := int64(math.MinInt64)
		first := true
		for cit.Next() {
			meta := cit.At()
			if meta.Chunk == nil {
				return nil, fmt.Errorf("nil chunk for %s", key)
			}
			cs, err := drainIterator(meta.Chunk.Iterator(nil))
			if err != nil {
				return nil, fmt.Errorf("decode chunk of %s: %w", key, err)
			}
			if len(cs) == 0 {
				return nil, fmt.Errorf("empty chunk for %s", key)
			}
			if cs[0].T != meta.MinTime || cs[len(cs)-1].T != meta.MaxTime {
				return nil, fmt.Errorf("chunk meta [%d,%d] of %s does not match contents [%d,%d]", meta.MinTime, meta.MaxTime, key, cs[0].T, cs[len(cs)-1].T)
			}
			if !first && meta.MinTime <= prevMax {
				return nil, fmt.Errorf("chunks of %s overlap or are out of order: chunk starts at %d, previous ended at %d", key, meta.MinTime, prevMax)
			}
			first = false
			prevMax = meta.MaxTime
			samples = append(samples, cs...)
		}
		if err := cit.Err(); err != nil {
			return nil, fmt.Errorf("chunk iterate %s: %w", key, err)
		}
		res[key] = samples
	}
	if err := ss.Err(); err != nil {
		return nil, fmt.Errorf("chunk select: %w", err)
	}
	return res, nil
}

var allMatcher = labels.MustNewMatcher(labels.MatchEqual, "__name__", "m")

// clip restricts chunk-level results (whole chunks are returned) to the queried range.
func clip(in []tsdbmodel.Sample, mint, maxt int64) []tsdbmodel.Sample {
	var out []tsdbmodel.Sample
	for _, s := range in {
		if s.T >= mint && s.T <= maxt {
			out = append(out, s)
		}
	}
	return out
}

// compareAll judges a query result against model bounds. Returns violation details.
func compareAll(lower, upper *tsdbmodel.Model, res qresult, mint, maxt int64, minReq int64) []string {
	var errs []string
	known := map[string]bool{}
	for i, us := range upper.Series {
		key := us.Labels.String()
		known[key] = true
		for _, d := range tsdbmodel.Compare(lower.Series[i], us, res[key], mint, maxt, minReq, upper.Epoch, upper.OpenCutoff) {
			errs = append(errs, fmt.Sprintf("series %s: %s", key, d))
		}
	}
	var extra []string
	for k, v := range res {
		if !known[k] {
			extra = append(extra, fmt.Sprintf("series %s returned (%d samples) but never written", k, len(v)))
		}
	}
	sort.Strings(extra)
	return append(errs, extra...)
}

func joinSome(d []string) string {
	if len(d) > 8 {
		return strings.Join(d[:8], "; ") + fmt.Sprintf("; ... and %d more", len(d)-8)
	}
	return strings.Join(d, "; ")
}

func sigOf(details []string) string {
	// structural signature: the kinds of discrepancy, without numbers
	kinds := map[string]bool{}
	known := map[string]bool{}
	for _, d := range details {
		if i := strings.Index(d, "KNOWN["); i >= 0 {
			j := strings.Index(d[i:], "]")
			known[d[i+6:i+j]] = true
			continue
		}
		if strings.HasPrefix(d, "... and ") {
			continue
		}
		switch {
		case strings.Contains(d, "missing sample"):
			kinds["missing"] = true
		case strings.Contains(d, "it was deleted"):
			kinds["deleted-returned"] = true
		case strings.Contains(d, "unexpected sample"):
			kinds["unexpected"] = true
		case strings.Contains(d, "wrong value"):
			kinds["wrong-value"] = true
		case strings.Contains(d, "not strictly increasing"):
			kinds["order"] = true
		case strings.Contains(d, "never written"):
			kinds["unknown-series"] = true
		case strings.Contains(d, "outside queried range"):
			kinds["out-of-range"] = true
		default:
			kinds["other"] = true
		}
	}
	var ks []string
	prefix := ""
	if len(kinds) == 0 {
		// every discrepancy is explained by a listed finding
		prefix = "known:"
		kinds = known
	}
	for k := range kinds {
		ks = append(ks, k)
	}
	sort.Strings(ks)
	return prefix + strings.Join(ks, "+")
}

// verify runs the C01 oracle on db against [lower, upper].
func (e *exec) verify(db querierSource, lower, upper *tsdbmodel.Model, oracle, where string, minReq int64) bool {
	type win struct{ a, b int64 }
	wins := []win{{math.MinInt64, math.MaxInt64}}
	hm := e.now
	// windows around block / chunk boundaries and random ones
	R := e.cfg.R
	b := (hm / R) * R
	switch e.rng.Intn(5) {
	case 0:
		wins = append(wins, win{b, math.MaxInt64})
	case 1:
		wins = append(wins, win{math.MinInt64, b - 1})
	case 2:
		a := hm - int64(e.rng.Intn(40))*e.cfg.Step
		wins = append(wins, win{a, a + int64(e.rng.Intn(20))*e.cfg.Step})
	case 3:
		wins = append(wins, win{b - R, b})
	}
	ok := true
	for wi, w := range wins {
		res, err := querySamples(db, w.a, w.b, allMatcher)
		e.res.Evals++
		if err != nil {
			e.res.Violate(e.prop, oracle+"-query-error", "query-error", "%s: query [%d,%d] failed: %v", where, w.a, w.b, err)
			return false
		}
		if e.prop == "C12" {
			// (a predecessor is only demanded for the first sample of a series when the query covers everything:
			// a window that starts inside a chunk returns that chunk's later samples with their stored hints)
			if d, sig := e.hintUnsound(res, wi == 0); d != "" {
				e.res.Violate(e.prop, "counter-reset-hint", hintSig(sig, "sample-query"), "%s: query [%d,%d]: %s", where, w.a, w.b, d)
				return false
			}
		}
		if d := compareAll(lower, upper, res, w.a, w.b, minReq); len(d) > 0 {
			if debugOn {
				if rdb, ok := db.(*tsdb.DB); ok {
					dumpDB(rdb)
				}
			}
			e.res.Violate(e.prop, oracle, sigOf(d), "%s: query [%d,%d]: %s", where, w.a, w.b, joinSome(d))
			ok = false
			break
		}
		if wi == 0 || e.rng.Chance(0.3) {
			cres, err := queryChunks(db, w.a, w.b, allMatcher)
			e.res.Evals++
			if err != nil {
				e.res.Violate(e.prop, oracle+"-chunk-query-error", "chunk-query-error", "%s: chunk query [%d,%d] failed: %v", where, w.a, w.b, err)
				return false
			}
			if e.prop == "C12" {
				if d, sig := e.hintUnsound(cres, wi == 0); d != "" {
					e.res.Violate(e.prop, "counter-reset-hint", hintSig(sig, "chunk-query"), "%s: chunk query [%d,%d]: %s", where, w.a, w.b, d)
					return false
				}
			}
			for k, v := range cres {
				cres[k] = clip(v, w.a, w.b)
			}
			if d := compareAll(lower, upper, cres, w.a, w.b, minReq); len(d) > 0 {
				e.res.Violate(e.prop, oracle+"-chunks", sigOf(d), "%s: chunk query [%d,%d]: %s", where, w.a, w.b, joinSome(d))
				ok = false
				break
			}
		}
	}
	return ok
}

// hintUnsound is the C12 oracle over one query result: a counter histogram sample marked NotCounterReset must have a
// preceding sample in the same result that is a non-stale histogram of the same layout and nowhere above it.
// firstToo: also demand a predecessor for the first sample of a series (the result starts where the data starts).
func (e *exec) hintUnsound(res qresult, firstToo bool) (detail, sig string) {
	d, k, lo, hi := e.hintUnsound1(res, firstToo)
	if d == "" {
		return "", ""
	}
	for _, t := range e.delTimes[k] {
		if t > lo && t < hi {
			// listed finding: the stored predecessor of the marked sample was deleted
			return d + fmt.Sprintf(" (the sample at t=%d between them was deleted)", t), "known:" + TagHintAfterDelete
		}
	}
	return d, "unsound-not-counter-reset-hint"
}

// TagHintAfterDelete is the known finding (C12): tombstones are applied sample by sample (DeletedIterator) and the
// surviving samples keep the counter-reset hint they had in their chunk, so a sample whose stored predecessor was
// deleted is still returned as NotCounterReset although the sample now preceding it may be higher (a reset lay in
// the deleted range). The behaviour is pinned by TestPopulateWithTombSeriesIterators, so it is listed, not repaired.
const TagHintAfterDelete = "not-counter-reset-hint-kept-after-deleted-predecessor"

// hintUnsound1 returns the first unsound hint: description, series key and the open interval (lo, hi) in which the
// stored predecessor must have been.
func (e *exec) hintUnsound1(res qresult, firstToo bool) (string, string, int64, int64) {
	keys := make([]string, 0, len(res))
	for k := range res {
		keys = append(keys, k)
	}
	sort.Strings(keys)
	toF := func(s tsdbmodel.Sample) *histogram.FloatHistogram {
		switch s.Kind {
		case tsdbmodel.KHist:
			return s.H.ToFloat(nil)
		case tsdbmodel.KFHist:
			return s.FH
		}
		return nil
	}
	for _, k := range keys {
		v := res[k]
		for i, smp := range v {
			cur := toF(smp)
			if cur == nil || smp.IsStale() {
				continue
			}
			e.res.Count("hist_samples_hint_checked", 1)
			if cur.CounterResetHint != histogram.NotCounterReset {
				continue
			}
			e.res.Count("hint_not_counter_reset_seen", 1)
			if i == 0 {
				if firstToo {
					return fmt.Sprintf("series %s: first returned sample %s is marked NotCounterReset but has no preceding sample", k, smp), k, math.MinInt64, smp.T
				}
				continue
			}
			prev := toF(v[i-1])
			if prev == nil || v[i-1].IsStale() {
				return fmt.Sprintf("series %s: %s is marked NotCounterReset but the preceding sample %s is not a histogram value", k, smp, v[i-1]), k, v[i-1].T, smp.T
			}
			if prev.Schema != cur.Schema || math.Float64bits(prev.ZeroThreshold) != math.Float64bits(cur.ZeroThreshold) || !eqF64s(prev.CustomValues, cur.CustomValues) {
				return fmt.Sprintf("series %s: %s is marked NotCounterReset but the preceding sample %s has another bucket layout", k, smp, v[i-1]), k, v[i-1].T, smp.T
			}
			if cur.Count < prev.Count || cur.ZeroCount < prev.ZeroCount || bucketBelow(cur.PositiveSpans, cur.PositiveBuckets, prev.PositiveSpans, prev.PositiveBuckets) ||
				bucketBelow(cur.NegativeSpans, cur.NegativeBuckets, prev.NegativeSpans, prev.NegativeBuckets) {
				return fmt.Sprintf("series %s: %s is marked NotCounterReset but some count is lower than in the preceding sample %s", k, smp, v[i-1]), k, v[i-1].T, smp.T
			}
		}
	}
	return "", "", 0, 0
}

func hintSig(sig, kind string) string {
	if strings.HasPrefix(sig, "known:") {
		return sig
	}
	return sig + ":" + kind
}

func eqF64s(a, b []float64) bool {
	if len(a) != len(b) {
		return false
	}
	for i := range a {
		if math.Float64bits(a[i]) != math.Float64bits(b[i]) {
			return false
		}
	}
	return true
}

func absBuckets(spans []histogram.Span, vals []float64) map[int32]float64 {
	m := map[int32]float64{}
	var idx int32
	bi := 0
	for si, sp := range spans {
		if si == 0 {
			idx = sp.Offset
		} else {
			idx += sp.Offset
		}
		for j := uint32(0); j < sp.Length && bi < len(vals); j++ {
			m[idx] = vals[bi]
			bi++
			idx++
		}
	}
	return m
}

// bucketBelow reports whether any bucket of cur is lower than the same bucket of prev (absent = 0).
func bucketBelow(cs []histogram.Span, cv []float64, ps []histogram.Span, pv []float64) bool {
	c := absBuckets(cs, cv)
	for i, x := range absBuckets(ps, pv) {
		if c[i] < x {
			return true
		}
	}
	return false
}

// ---- run ----

func classify(err error) tsdbmodel.Outcome {
	switch {
	case err == nil:
		return tsdbmodel.OK
	case errors.Is(err, storage.ErrOutOfBounds):
		return tsdbmodel.OutOfBounds
	case errors.Is(err, storage.ErrOutOfOrderSample):
		return tsdbmodel.OutOfOrder
	case errors.Is(err, storage.ErrTooOldSample):
		return tsdbmodel.TooOld
	case errors.Is(err, storage.ErrDuplicateSampleForTimestamp):
		return tsdbmodel.Duplicate
	}
	return tsdbmodel.Invalid
}

func (e *exec) fail(oracle, sig, format string, a ...any) {
	e.res.Violate(e.prop, oracle, sig, format, a...)
	e.failed = true
}

// Execute runs one plan. Must be called inside a synctest bubble.
func Execute(t *testing.T, prop string, plan *Plan) (res *runner.Result) {
	res = &runner.Result{Counters: map[string]int64{}}
	e := &exec{t: t, prop: prop, plan: plan, cfg: plan.Cfg, res: res, logical: map[string]int64{}}
	e.rng = prng.New(prng.DeriveS(plan.Cfg.Seed, "oracle"))
	e.root = filepath.Join(scratchRoot(), fmt.Sprintf("r%x", plan.Cfg.Seed))
	os.RemoveAll(e.root)
	if err := os.MkdirAll(e.root, 0o777); err != nil {
		panic(err)
	}
	defer os.RemoveAll(e.root)
	e.dir = filepath.Join(e.root, "data0")
	e.curOOO = e.cfg.OOOWindow
	e.now = e.cfg.Start
	for i := 0; i < e.cfg.NSeries; i++ {
		if e.cfg.RichLabels {
			l := richLabels(i)
			if e.cfg.LongLabels && i%3 == 0 {
				// more than 1 KiB of labels, the long part in the middle and, for some, spread over several labels
				b := labels.NewBuilder(l)
				if i%2 == 0 {
					b.Set("pad", strings.Repeat(fmt.Sprintf("%02d", i), 600))
				} else {
					for k := 0; k < 6; k++ {
						b.Set(fmt.Sprintf("pad%d", k), strings.Repeat(fmt.Sprintf("%d", (i+k)%10), 200))
					}
				}
				l = b.Labels()
			}
			e.lsets = append(e.lsets, l)
		} else {
			e.lsets = append(e.lsets, seriesLabels(i))
		}
	}
	e.m = tsdbmodel.New(e.lsets)
	e.m.OpenCutoff = math.MinInt64
	e.m.KFRun = e.cfg.KF != ""
	e.refs = make([]storage.SeriesRef, e.cfg.NSeries)
	e.pendingCreator = make([]int, e.cfg.NSeries)
	e.hist = make([]histgen.State, e.cfg.NSeries)
	if e.cfg.Profile == "C15" || e.cfg.Profile == "C03" {
		for i := range e.hist {
			e.hist[i].PreferCustom = i%2 == 0 // custom-bucket histograms have WAL record types of their own
		}
	}
	for i := range e.apps {
		e.apps[i] = &slot{}
	}
	theHook.set(e)
	defer theHook.set(nil)
	defer func() {
		if r := recover(); r != nil {
			msg := fmt.Sprint(r)
			if strings.HasPrefix(msg, "harness:") {
				panic(r)
			}
			st := string(debug.Stack())
			res.Violate(prop, "panic", "panic", "panic during op %d: %v\n%s", e.opIdx, r, trimStack(st))
			if e.db != nil {
				func() {
					defer func() { recover() }()
					e.db.Close()
				}()
			}
		}
		e.finish()
	}()

	var err error
	e.db, e.reg, err = e.open(e.dir)
	if err != nil {
		e.fail("open", "open-error", "initial open failed: %v", err)
		return res
	}
	for i, op := range plan.Ops {
		if i >= e.cfg.NSeries*0+len(plan.Ops) {
			break
		}
		e.opIdx = i
		e.step(op)
		if e.failed || e.stopAfterStep {
			break
		}
		if e.cfg.Damage && e.db != nil && e.rng.Chance(0.08) {
			// damage applied to the directory a process kill leaves (nothing flushed or closed by a shutdown)
			img := e.scratch("killimg")
			if err := simfs.CopyTree(e.dir, img); err != nil {
				panic("harness: " + err.Error())
			}
			e.res.Count("fault:process-kill-image", 1)
			e.logDamageCheck(img, fmt.Sprintf("process kill after op %d", i))
			os.RemoveAll(img)
			if e.failed {
				break
			}
		}
		if e.cfg.ROCheck && e.db != nil && e.rng.Chance(0.05) {
			// unclean shutdown: the directory as a process kill between two operations leaves it (nothing closed,
			// open appenders lost), compared the same way as after a clean shutdown
			img := e.scratch("killimg")
			if err := simfs.CopyTree(e.dir, img); err != nil {
				panic("harness: " + err.Error())
			}
			e.res.Count("fault:process-kill-image", 1)
			e.readOnlyCheck(img, fmt.Sprintf("process kill after op %d", i))
			os.RemoveAll(img)
			if e.failed {
				break
			}
		}
	}
	if !e.failed {
		e.closeApps(false)
		e.finalChecks()
	}
	if e.db != nil {
		if err := e.db.Close(); err != nil && !e.failed {
			e.fail("close", "close-error", "final close failed: %v", err)
		}
		e.db = nil
	}
	return res
}

var debugOn = os.Getenv("VERIF_DEBUG") != ""
var debugIO = os.Getenv("VERIF_DEBUG_IO") != ""

type blockSource struct{ b tsdb.BlockReader }

func (s blockSource) Querier(mint, maxt int64) (storage.Querier, error) {
	return tsdb.NewBlockQuerier(s.b, mint, maxt)
}
func (s blockSource) ChunkQuerier(mint, maxt int64) (storage.ChunkQuerier, error) {
	return tsdb.NewBlockChunkQuerier(s.b, mint, maxt)
}

func dumpDB(db *tsdb.DB) {
	for _, b := range db.Blocks() {
		m := b.Meta()
		res, err := querySamples(blockSource{b}, math.MinInt64, math.MaxInt64, allMatcher)
		fmt.Printf("DBG block %s [%d,%d) ooo=%v stale=%v sel=%v level=%d tomb=%d err=%v\n", m.ULID, m.MinTime, m.MaxTime, m.Compaction.FromOutOfOrder(), m.Compaction.FromStaleSeries(), m.Compaction.FromSelectedSeries(), m.Compaction.Level, m.Stats.NumTombstones, err)
		for k, v := range res {
			fmt.Printf("DBG    %s %v\n", k, v)
		}
	}
	h := db.Head()
	fmt.Printf("DBG head min=%d max=%d minooo=%d maxooo=%d series=%d\n", h.MinTime(), h.MaxTime(), h.MinOOOTime(), h.MaxOOOTime(), h.NumSeries())
	res, err := querySamples(blockSource{tsdb.NewRangeHead(h, math.MinInt64, math.MaxInt64)}, math.MinInt64, math.MaxInt64, allMatcher)
	cres, cerr := queryChunks(db, math.MinInt64, math.MaxInt64, allMatcher)
	fmt.Printf("DBG db chunk-level content err=%v\n", cerr)
	for k, v := range cres {
		fmt.Printf("DBG    %s %v\n", k, v)
	}
	fmt.Printf("DBG head in-order content err=%v\n", err)
	for k, v := range res {
		fmt.Printf("DBG    %s %v\n", k, v)
	}
}

func trimStack(s string) string {
	lines := strings.Split(s, "\n")
	var keep []string
	for _, l := range lines {
		if strings.Contains(l, "prometheus/prometheus") {
			keep = append(keep, strings.TrimSpace(l))
		}
		if len(keep) >= 8 {
			break
		}
	}
	return strings.Join(keep, "\n")
}

func (e *exec) finish() {
	r := e.res
	r.SimTimeMs = time.Since(time.Date(2000, 1, 1, 0, 0, 0, 0, time.UTC)).Milliseconds()
	r.Key = strings.Join(e.kinds, ",")
	r.NonTrivial = e.nonTrivial()
	sample := map[string]any{"seed": e.cfg.Seed, "config": e.cfg, "ops": len(e.plan.Ops), "op_kinds": r.Key, "model_samples": e.m.NumSamples(),
		"compactions": e.compactions, "restarts": e.restarts}
	if len(e.plan.Ops) > 0 {
		n := len(e.plan.Ops)
		if n > 12 {
			n = 12
		}
		sample["first_ops"] = e.plan.Ops[:n]
	}
	r.Sample = sample
}

func (e *exec) nonTrivial() bool {
	switch e.prop {
	case "C03":
		return e.res.Counters["images_judged"] > 0
	case "C02":
		return e.res.Counters["append_decisions"] >= 5
	case "C20":
		return e.res.Counters["samples_deleted"] > 0 && e.compactions > 0 && e.restarts > 0
	case "C52":
		return e.res.Counters["counter_checks"] > 10 && e.restarts > 0
	case "C15":
		return e.res.Counters["wal_truncation_comparisons"] > 0
	case "C07":
		return e.res.Counters["compaction_unions_multi_source"] > 0
	case "C09":
		return e.res.Counters["reloads_with_removals"] > 0
	case "C04":
		return e.res.Counters["damage_repaired_opens"] > 0
	case "C24":
		return e.res.Counters["block_damage_reported"] > 0 && e.res.Counters["blocks_read_back"] > 0
	case "C22":
		return e.res.Counters["stale_ref_appends"] > 0 && e.res.Counters["series_recreated_appends"] > 0 && e.restarts > 0
	case "C16":
		return e.res.Counters["label_queries_selective"] >= 3 && e.compactions > 0
	case "C18":
		return e.res.Counters["shard_checks_multi_series"] >= 3 && e.compactions > 0 && e.restarts > 0
	case "C11":
		return e.res.Counters["caller_histograms_tracked"] >= 8 && e.compactions > 0 && e.restarts > 0
	case "C12":
		return e.res.Counters["hint_not_counter_reset_seen"] > 0 && e.compactions > 0
	case "C53":
		return e.res.Counters["ro_checks_with_head_data"] > 0
	case "C23":
		return e.res.Counters["snapshot_checks:intact"] > 0
	}
	return e.compactions > 0 && e.restarts > 0 && e.m.NumSamples() > 0
}

func (e *exec) closeApps(commit bool) {
	for i, s := range e.apps {
		if s.open {
			if commit {
				e.doCommit(i)
			} else {
				e.doRollback(i)
			}
		}
	}
}

func (e *exec) openSlot(i int) *slot {
	s := e.apps[i]
	if s.open {
		return s
	}
	ctx := context.Background()
	init := e.headInit()
	w := tsdbmodel.Window{Init: init, OOOWindow: e.curOOO}
	if init {
		w.HeadMaxt = e.db.Head().MaxTime()
		w.MinValid, _ = e.db.Head().AppendableMinValidTime()
	}
	if e.cfg.V2 {
		s.v2 = e.db.AppenderV2(ctx)
	} else {
		s.v1 = e.db.Appender(ctx)
	}
	s.m = &tsdbmodel.App{W: w, Covered: e.covered}
	s.initApp = !init
	s.open = true
	e.res.Count("appenders_opened", 1)
	return s
}

func (e *exec) doAdd(o Op) {
	if o.S >= e.cfg.NSeries {
		o.S %= e.cfg.NSeries
	}
	if e.m.NumSamples() > 700 {
		return
	}
	s := e.openSlot(o.Slot % 3)
	if s.initApp {
		// an appender created on an empty head is a lazy wrapper that forgets options set before its first append
		o.Rej = false
	}
	t := e.resolveT(o, s)
	v := e.mkValue(o, o.S, t)
	var ref storage.SeriesRef
	if o.Ref == 1 {
		ref = e.refs[o.S]
	}
	lset := e.lsets[o.S]
	// private copies to check that the caller's histograms stay unchanged (C11)
	// The head gets its own objects ("the caller's"); the model keeps v, which nothing else can touch (C11).
	var hPass *histogram.Histogram
	var fhPass *histogram.FloatHistogram
	if v.H != nil {
		hPass = v.H.Copy()
	}
	if v.FH != nil {
		fhPass = v.FH.Copy()
	}
	slotID := o.Slot%3 + 1
	ms := e.m.Series[o.S]
	kf := ""
	if e.pendingCreator[o.S] != 0 && e.pendingCreator[o.S] != slotID {
		// Known finding: another open appender created this series and has not logged its series record yet;
		// samples committed now precede the series record in the WAL and are dropped on replay.
		if e.cfg.KF != TagOrphan {
			e.res.Count("skipped:wal-sample-before-series-record", 1)
			return
		}
		kf = TagOrphan
	}
	{
		// Known finding (C02): a float staleness marker pending in this transaction for a series whose newest
		// sample is a histogram is converted at commit and committed after the other samples of the batch,
		// i.e. not in append order. Any later sample of the same series in the same transaction is affected.
		for _, p := range s.m.Pending {
			if p.Series == o.S && p.S.Kind == tsdbmodel.KFloat && p.S.IsStale() {
				if e.cfg.KF != TagStaleReorder {
					e.res.Count("skipped:stale-marker-commit-reorder", 1)
					return
				}
				s.m.ReorderSeries = append(s.m.ReorderSeries, o.S)
			}
		}
	}
	widened := false
	if l := ms.Last; l != nil && t == l.T && v.Kind != tsdbmodel.KFloat && !v.IsStale() && tsdbmodel.ValueEqual(v, *l) {
		// Known finding (C02): when the chunk's bucket layout is wider than the appended histogram's, the head widens
		// its own copy in place (empty buckets inserted); re-appending the bit-identical histogram at the same timestamp
		// is then answered "duplicate" because the comparison is exact about empty buckets. Whether that happened shows
		// in what the chunk returns for that timestamp.
		if cur, err := querySamples(e.db, t, t, labels.MustNewMatcher(labels.MatchEqual, "s", lset.Get("s")), allMatcher); err == nil {
			for _, x := range cur[lset.String()] {
				if x.T == t && x.NumBuckets() != v.NumBuckets() {
					widened = true
				}
			}
		}
		if widened && e.cfg.KF != TagGaugeReappend {
			e.res.Count("skipped:"+TagGaugeReappend, 1)
			return
		}
	}
	if e.cfg.KF != tsdbmodel.TagTombHides && (e.covered(o.S, t) || ms.InHeadDeleted(t)) {
		// Known finding: a head tombstone hides samples appended into its range after the deletion.
		e.res.Count("skipped:"+tsdbmodel.TagTombHides, 1)
		return
	}
	if e.m.Epoch > 0 && e.oooCompactedThisEpoch && e.curOOO > 0 {
		// Known finding: after a restart, an out-of-order compaction that empties chunks_head makes the chunk
		// disk mapper restart its file sequence; new out-of-order chunks then get refs at or below the stale
		// garbage-collection markers and are hidden from queries (and later dropped).
		if l := ms.Last; l == nil || t <= l.T || s.m.W.Init && t < s.m.W.MinValid {
			if e.cfg.KF != tsdbmodel.TagRefReuse {
				e.res.Count("skipped:"+tsdbmodel.TagRefReuse, 1)
				return
			}
		}
	}
	if e.prop == "C52" && e.cfg.KF != TagGaugeOOOMixed && e.curOOO > 0 && (v.Kind != tsdbmodel.KFloat || v.IsStale()) {
		// Known finding (C52): an out-of-order head chunk holding several sample types is m-mapped as several
		// chunks but was counted once, so the chunks gauge under-reports after their garbage collection. While
		// the out-of-order window is open, ordinary C52 runs therefore append plain floats only (any sample can
		// end up in the out-of-order chunk at commit time); histogram gauges are exercised with the window closed.
		e.res.Count("skipped:"+TagGaugeOOOMixed, 1)
		return
	}
	if e.cfg.KF != tsdbmodel.TagReplayOrder {
		// Known finding: an in-order sample older than an out-of-order sample of the same series that is already
		// in the WAL is dropped at replay (replay takes the out-of-order sample for the in-order one).
		if l := ms.Last; (l == nil || t > l.T) && (!s.m.W.Init || t >= s.m.W.MinValid) && ms.MaxOOOHeadT() > t {
			e.res.Count("skipped:"+tsdbmodel.TagReplayOrder, 1)
			return
		}
	}
	if e.cfg.KF != tsdbmodel.TagOOODupRef && (ms.MultiRef || ms.GCd) && e.curOOO > 0 {
		// Known finding: out-of-order chunks of a series with a duplicate series record are dropped at replay.
		if l := ms.Last; l == nil || t <= l.T || s.m.W.Init && t < s.m.W.MinValid {
			e.res.Count("skipped:"+tsdbmodel.TagOOODupRef, 1)
			return
		}
	}
	var gotRef storage.SeriesRef
	var err error
	if e.cfg.V2 {
		gotRef, err = s.v2.Append(ref, lset, 0, t, v.F, hPass, fhPass, storage.AOptions{RejectOutOfOrder: o.Rej})
	} else {
		if o.Rej {
			s.v1.SetOptions(&storage.AppendOptions{DiscardOutOfOrder: true})
		} else {
			s.v1.SetOptions(nil)
		}
		switch v.Kind {
		case tsdbmodel.KFloat:
			gotRef, err = s.v1.Append(ref, lset, t, v.F)
		default:
			gotRef, err = s.v1.AppendHistogram(ref, lset, t, hPass, fhPass)
		}
	}
	if v.H != nil && !histSame(hPass, v.H) || v.FH != nil && !fhistSame(fhPass, v.FH) {
		e.fail("caller-histogram-mutated", "append-mutated-histogram", "op %d: Append changed the histogram passed by the caller at t=%d", e.opIdx, t)
		return
	}
	if v.H != nil || v.FH != nil {
		s.held = append(s.held, heldHist{t: t, h: hPass, h0: v.H, f: fhPass, f0: v.FH})
		e.res.Count("caller_histograms_tracked", 1)
	}
	// Window of an appender created on an uninitialised head is fixed by its first append.
	if !s.m.W.Init {
		s.m.W.Init = true
		s.m.W.HeadMaxt = e.db.Head().MaxTime()
		s.m.W.MinValid, _ = e.db.Head().AppendableMinValidTime()
		s.m.W.OOOWindow = e.curOOO // an appender created on an empty head takes its whole window at its first append
		if !e.headInit() {
			// the append was refused before initialising the head; judge against the unconstrained window
			s.m.W.Init = false
			s.m.W.HeadMaxt, s.m.W.MinValid = t, math.MinInt64
		}
	}
	w := s.m.W
	if !w.Init {
		w.Init = true
	}
	if !ms.InHead && e.pendingCreator[o.S] == 0 && !(w.OOOWindow == 0 && t < w.MinValid) {
		// this call created the series in the head (even if the sample itself is refused)
		e.pendingCreator[o.S] = slotID
		if ms.GCd {
			ms.MultiRef = true // re-created under a new ref while the old series record may still be in the WAL
		}
		ms.EverCreated = true
	}
	d := tsdbmodel.Judge(w, e.m.Series[o.S].Last, v, o.Rej)
	out := classify(err)
	if debugOn {
		fmt.Printf("DBG   append slot=%d s=%d %s ref=%d -> %v (model %s/%s) window=%+v last=%s\n", o.Slot%3, o.S, v, ref, err, d.Out, d.Cell, w, lastStr(e.m.Series[o.S].Last))
	}
	e.res.Count("append_decisions", 1)
	e.res.Count("cell:"+d.Cell, 1)
	agree := out == d.Out || d.Either && out == d.Alt
	// With the reject option a too-old sample may be reported as out-of-order or too-old (the statement names both classes).
	if !agree && o.Rej && (d.Out == tsdbmodel.TooOld && out == tsdbmodel.OutOfOrder) {
		agree = true
	}
	// A float staleness marker is turned into a histogram marker when the same appender already holds a histogram
	// for the series; whether it is then still "bit-identical" to a stored float marker is not pinned by the statement.
	if !agree && v.IsStale() && d.NoOp && out == tsdbmodel.Duplicate {
		for _, p := range s.m.Pending {
			if p.Series == o.S && p.S.Kind != tsdbmodel.KFloat {
				agree = true
			}
		}
	}
	if !agree && widened && e.cfg.KF == TagGaugeReappend && out == tsdbmodel.Duplicate {
		e.res.Count("admission_mismatch", 1)
		if e.prop == "C02" {
			e.fail("admission", "known:"+TagGaugeReappend, "op %d: re-append of the bit-identical gauge histogram %s at the newest timestamp of series %d answered %q", e.opIdx, v, o.S, out)
			return
		}
		agree = true
	}
	if !agree {
		e.res.Count("admission_mismatch", 1)
		if e.prop == "C02" {
			e.fail("admission", "admission:"+d.Cell+":got-"+out.String(),
				"op %d: append series %d t=%d value %s under window{minValid=%d headMaxt=%d ooo=%d} newest-in-order=%v: implementation answered %q (%v), rules give %q (cell %s)",
				e.opIdx, o.S, t, v, w.MinValid, w.HeadMaxt, w.OOOWindow, lastStr(e.m.Series[o.S].Last), out, err, d.Out, d.Cell)
			return
		}
	}
	if ref != 0 && !ms.InHead {
		e.res.Count("stale_ref_appends", 1) // the cached reference outlived its series (garbage collection / eviction)
	}
	if err == nil {
		if gotRef == 0 {
			e.fail("append-ref", "zero-ref", "op %d: accepted append returned series ref 0", e.opIdx)
			return
		}
		if e.prop == "C22" {
			// the reference handed back must be the one the label set resolves to, whatever reference was passed in
			la := e.db.Appender(context.Background())
			if gr, ok := la.(storage.GetRef); ok {
				if r2, _ := gr.GetRef(lset, lset.Hash()); r2 != gotRef {
					_ = la.Rollback()
					e.fail("ref-attribution", "returned-ref-not-the-series", "op %d: Append(ref=%d, %s) returned ref %d, but the label set resolves to ref %d", e.opIdx, ref, lset, gotRef, r2)
					return
				}
				e.res.Count("ref_resolution_checks", 1)
			}
			_ = la.Rollback()
			if ms.GCd {
				e.res.Count("series_recreated_appends", 1)
			}
		}
		s.m.Accept(o.S, v, o.Rej, kf)
		if e.refs[o.S] != 0 && e.refs[o.S] != gotRef || ms.GCd {
			// re-created under a new ref while the old series record may still be in the WAL
			ms.MultiRef = true
		}
		ms.EverCreated = true
		e.refs[o.S] = gotRef
		if o.TB == "now" || t > e.now {
			if t > e.now {
				e.now = t
			}
		}
	}
}

// histSame: semantically unchanged including the counter-reset hint.
func histSame(a, b *histogram.Histogram) bool {
	return tsdbmodel.HistEqual(a, b) && a.CounterResetHint == b.CounterResetHint
}

func fhistSame(a, b *histogram.FloatHistogram) bool {
	return tsdbmodel.FHistEqual(a, b) && a.CounterResetHint == b.CounterResetHint
}

// checkHeld verifies that the histograms handed to an appender are still what the caller passed (C11).
func (e *exec) checkHeld(s *slot, when string) bool {
	held := s.held
	s.held = nil
	for _, x := range held {
		if x.h != nil && !histSame(x.h, x.h0) || x.f != nil && !fhistSame(x.f, x.f0) {
			e.fail("caller-histogram-mutated", "commit-mutated-histogram", "op %d: %s changed the histogram the caller passed for t=%d", e.opIdx, when, x.t)
			return false
		}
	}
	return true
}

func lastStr(l *tsdbmodel.Sample) string {
	if l == nil {
		return "none"
	}
	return l.String()
}

func (e *exec) doCommit(i int) {
	s := e.apps[i]
	if !s.open {
		return
	}
	var err error
	if e.cfg.V2 {
		err = s.v2.Commit()
	} else {
		err = s.v1.Commit()
	}
	s.open, s.v1, s.v2 = false, nil, nil
	e.creatorDone(i)
	synctest.Wait()
	if err != nil {
		e.fail("commit-error", "commit-error", "op %d: Commit failed: %v", e.opIdx, err)
		return
	}
	if !e.checkHeld(s, "Commit") {
		return
	}
	if e.m.Epoch > 0 && e.oooCompactedThisEpoch {
		s.m.OOOTag = tsdbmodel.TagRefReuse
	}
	if e.curOOO > 0 {
		for _, p := range s.m.Pending {
			if p.S.Kind != tsdbmodel.KFloat || p.S.IsStale() {
				e.mixedOOO = true // may have put a non-float sample into an out-of-order chunk
			}
		}
	}
	if len(s.m.ReorderSeries) > 0 {
		e.stopAfterStep = true // the model cannot follow the implementation's order past this commit
	}
	if e.cfg.Damage {
		if e.ever == nil {
			e.ever = map[string]map[int64][]tsdbmodel.Sample{}
		}
		for _, p := range s.m.Pending {
			k := e.m.Series[p.Series].Labels.String()
			if e.ever[k] == nil {
				e.ever[k] = map[int64][]tsdbmodel.Sample{}
			}
			e.ever[k][p.S.T] = append(e.ever[k][p.S.T], p.S)
		}
	}
	eff := e.m.Commit(s.m)
	e.res.Count("commits", 1)
	e.res.Count("samples_inorder", int64(eff.InOrder))
	e.res.Count("samples_ooo", int64(eff.OOO))
	e.res.Count("samples_dropped_at_commit", int64(eff.Dropped))
	e.res.Count("samples_noop", int64(eff.NoOp))
}

// TagGaugeReappend is the known finding (C02): identical re-append of a histogram rejected as duplicate after the head
// widened its stored copy in place (backward inserts: the chunk has buckets the histogram lacks).
const TagGaugeReappend = "identical-histogram-reappend-rejected-after-in-place-widening"

// Known-finding tags (see known_findings.json).
const (
	TagOrphan        = "wal-sample-before-series-record"
	TagStaleReorder  = "stale-marker-commit-reorder"
	TagGaugeOOOMixed = "head-chunks-gauge-miscounts-mixed-type-ooo-chunks"
)

// creatorDone: the appender in slot i logged its series records (commit and rollback both do).
func (e *exec) creatorDone(i int) {
	for si, c := range e.pendingCreator {
		if c == i+1 {
			e.pendingCreator[si] = 0
			e.m.Series[si].InHead = true
		}
	}
}

// covered reports whether a head tombstone of series si currently covers t.
func (e *exec) covered(si int, t int64) bool {
	if e.db == nil {
		return false
	}
	ref := e.refs[si]
	if ref == 0 {
		app := e.db.Appender(context.Background())
		if gr, ok := app.(storage.GetRef); ok {
			ref, _ = gr.GetRef(e.lsets[si], e.lsets[si].Hash())
		}
		_ = app.Rollback()
	}
	if ref == 0 {
		return false
	}
	tr, err := e.db.Head().Tombstones()
	if err != nil {
		return false
	}
	ivs, _ := tr.Get(ref)
	for _, iv := range ivs {
		if t >= iv.Mint && t <= iv.Maxt {
			return true
		}
	}
	return false
}

// pendingFor reports whether any open appender holds uncommitted samples for a series selected by match.
func (e *exec) pendingFor(match func(labels.Labels) bool) bool {
	for _, s := range e.apps {
		if !s.open {
			continue
		}
		for _, p := range s.m.Pending {
			if match(e.lsets[p.Series]) {
				return true
			}
		}
	}
	return false
}

func (e *exec) doRollback(i int) {
	s := e.apps[i]
	if !s.open {
		return
	}
	var err error
	if e.cfg.V2 {
		err = s.v2.Rollback()
	} else {
		err = s.v1.Rollback()
	}
	s.open, s.v1, s.v2 = false, nil, nil
	s.m.Pending = nil
	e.creatorDone(i)
	e.res.Count("rollbacks", 1)
	e.checkHeld(s, "Rollback")
	if err != nil {
		e.fail("rollback-error", "rollback-error", "op %d: Rollback failed: %v", e.opIdx, err)
	}
}

// syncPresence observes which series the head currently holds (via the public GetRef lookup) and
// resets the newest-in-order sample of series that left the head (garbage collection / eviction).
func (e *exec) syncPresence() {
	app := e.db.Appender(context.Background())
	gr, _ := app.(storage.GetRef)
	for i, s := range e.m.Series {
		var ref storage.SeriesRef
		if gr != nil {
			ref, _ = gr.GetRef(s.Labels, s.Labels.Hash())
		}
		if ref == 0 {
			if s.EverCreated {
				s.GCd = true
			}
			s.InHead = false
			s.Last = nil
			s.OOOOpen = map[int64]bool{}
		} else {
			s.InHead = true
			_ = i
		}
	}
	_ = app.Rollback()
}

func (e *exec) isMutating(k string) bool {
	switch k {
	case "app", "add", "rollback", "tick", "crashnext":
		return false
	}
	return true
}

// alignedEnd returns the end of the width-aligned range containing t (floor semantics for negative t).
func alignedEnd(t, width int64) int64 {
	q := t / width
	if t < 0 && t%width != 0 {
		q--
	}
	return q*width + width
}

func needsClosedApps(k string) bool {
	switch k {
	case "compact", "compacthead", "compactooo", "compactstale", "compactsel", "cleantomb", "restart", "compactfail":
		return true
	}
	return false
}

func (e *exec) step(o Op) {
	if needsClosedApps(o.K) {
		// open appenders are committed / rolled back as separate steps so that crash bounds stay exact
		for i, s := range e.apps {
			if s.open {
				k := "commit"
				if o.N%2 == 1 {
					k = "rollback"
				}
				e.step(Op{K: k, Slot: i})
				if e.failed {
					return
				}
			}
		}
	}
	e.kinds = append(e.kinds, o.K)
	if debugOn {
		fmt.Printf("DBG op %d %s %+v\n", e.opIdx, o.K, o)
	}
	var pre *tsdbmodel.Model
	crash := e.cfg.Crash && e.isMutating(o.K)
	if crash {
		pre = e.m.Clone()
		e.mu.Lock()
		e.collecting, e.hits, e.images = true, 0, nil
		e.crashAt, e.crashImg = 0, nil
		if e.crashArm > 0 && o.K != "crashnext" {
			e.crashAt, e.crashArm = e.crashArm, 0
		}
		e.mu.Unlock()
	}
	ctx := context.Background()
	switch o.K {
	case "app":
		e.openSlot(o.Slot % 3)
	case "add":
		e.doAdd(o)
		for i := 1; i < o.Rep && !e.failed; i++ {
			r := o
			r.TB, r.TO, r.TF, r.VK, r.VM = "now", 0, 1, 0, 0
			e.doAdd(r)
		}
	case "commit":
		e.doCommit(o.Slot % 3)
	case "rollback":
		e.doRollback(o.Slot % 3)
	case "delete":
		mint, maxt := e.resolveBound(o.MB, o.MO), e.resolveBound(o.XB, o.XO)
		if mint > maxt {
			mint, maxt = maxt, mint
		}
		if e.prop == "C12" && e.cfg.KF != TagHintAfterDelete {
			// Known finding (C12): a sample whose predecessor was deleted keeps its NotCounterReset hint.
			e.res.Count("skipped:"+TagHintAfterDelete, 1)
			break
		}
		if e.cfg.KF != tsdbmodel.TagTombHides && e.pendingFor(matchFn(o.M)) {
			// Known finding: samples committed after the deletion into its range are hidden by the head tombstone.
			e.res.Count("skipped:"+tsdbmodel.TagTombHides, 1)
			break
		}
		if e.cfg.KF != tsdbmodel.TagDeleteMissesOOO && e.m.DeleteTouchesOOOHead(mint, maxt, matchFn(o.M)) {
			// Known finding: Head.Delete does not reach samples held in the out-of-order head.
			e.res.Count("skipped:"+tsdbmodel.TagDeleteMissesOOO, 1)
			break
		}
		if err := e.db.Delete(ctx, mint, maxt, promMatchers(o.M)...); err != nil {
			e.fail("delete-error", "delete-error", "op %d: Delete failed: %v", e.opIdx, err)
			break
		}
		hmin := int64(math.MaxInt64)
		if e.headInit() {
			hmin = e.db.Head().MinTime()
		}
		if e.prop == "C12" {
			mf := matchFn(o.M)
			for _, ms := range e.m.Series {
				if !mf(ms.Labels) {
					continue
				}
				for t, c := range ms.Cells {
					if t >= mint && t <= maxt && !c.Deleted {
						if e.delTimes == nil {
							e.delTimes = map[string][]int64{}
						}
						e.delTimes[ms.Labels.String()] = append(e.delTimes[ms.Labels.String()], t)
					}
				}
			}
		}
		n := e.m.Delete(mint, maxt, matchFn(o.M), hmin)
		e.res.Count("deletes", 1)
		e.res.Count("samples_deleted", int64(n))
	case "compact":
		e.closeApps(o.N%2 == 0)
		if e.failed {
			break
		}
		if err := e.db.Compact(ctx); err != nil {
			e.fail("compact-error", "compact-error", "op %d: Compact failed: %v", e.opIdx, err)
			break
		}
		e.afterCompaction()
	case "compactfail":
		// a compaction whose first block write fails: Compact must report the error and nothing may be lost, now or
		// after the next restart / crash
		e.closeApps(o.N%2 == 0)
		if e.failed {
			break
		}
		e.failArm = 1
		err := e.db.Compact(ctx)
		if e.failArm == 0 && err == nil {
			e.fail("compact-error", "failed-block-write-not-reported", "op %d: a block write failed (injected) but Compact returned nil", e.opIdx)
			break
		}
		if err != nil && !strings.Contains(err.Error(), "injected fault") {
			e.fail("compact-error", "compact-error", "op %d: Compact failed: %v", e.opIdx, err)
			break
		}
		e.failArm = 0
		e.afterCompaction()
	case "compacthead":
		e.closeApps(true)
		if e.failed || !e.headInit() {
			break
		}
		// Flush the whole head into range-aligned blocks (what Compact does per range, without waiting for the
		// head to span 1.5 ranges). Unaligned ranges are not used: no caller in Prometheus passes them.
		h := e.db.Head()
		hmaxt := h.MaxTime()
		for guard := 0; guard < 500 && h.MinTime() <= hmaxt && h.MinTime() != math.MaxInt64; guard++ {
			mint := h.MinTime()
			end := alignedEnd(mint, e.cfg.R)
			if err := e.db.CompactHead(tsdb.NewRangeHead(h, mint, end-1)); err != nil {
				e.fail("compact-error", "compacthead-error", "op %d: CompactHead failed: %v", e.opIdx, err)
				break
			}
			if h.MinTime() <= mint {
				break
			}
		}
		if e.failed {
			break
		}
		if h.MinTime() != math.MaxInt64 && h.MinTime() > e.now {
			e.now = h.MinTime()
		}
		e.afterCompaction()
	case "compactooo":
		e.closeApps(true)
		if e.failed {
			break
		}
		if err := e.db.CompactOOOHead(ctx); err != nil {
			e.fail("compact-error", "compactooo-error", "op %d: CompactOOOHead failed: %v", e.opIdx, err)
			break
		}
		e.afterCompaction()
	case "compactstale":
		e.closeApps(true)
		if e.failed {
			break
		}
		if err := e.db.CompactStaleHead(); err != nil {
			e.fail("compact-error", "compactstale-error", "op %d: CompactStaleHead failed: %v", e.opIdx, err)
			break
		}
		e.afterCompaction()
	case "compactsel":
		e.closeApps(true)
		if e.failed {
			break
		}
		var refs []storage.SeriesRef
		for _, si := range o.Sel {
			if r := e.refs[si%e.cfg.NSeries]; r != 0 && e.m.Series[si%e.cfg.NSeries].InHead {
				refs = append(refs, r)
			}
		}
		if err := e.db.CompactSelectedSeries(refs); err != nil {
			e.fail("compact-error", "compactsel-error", "op %d: CompactSelectedSeries failed: %v", e.opIdx, err)
			break
		}
		e.afterCompaction()
	case "cleantomb":
		e.closeApps(true)
		if e.failed {
			break
		}
		e.cleaningTombstones = true
		err := e.db.CleanTombstones()
		e.cleaningTombstones = false
		if err != nil {
			e.fail("compact-error", "cleantomb-error", "op %d: CleanTombstones failed: %v", e.opIdx, err)
			break
		}
		e.afterCompaction()
	case "mmap":
		e.db.ForceHeadMMap()
	case "setooo":
		w := o.N * e.cfg.R
		cfg := &config.Config{StorageConfig: config.StorageConfig{TSDBConfig: &config.TSDBConfig{OutOfOrderTimeWindow: w}}}
		if err := e.db.ApplyConfig(cfg); err != nil {
			e.fail("applyconfig-error", "applyconfig-error", "op %d: ApplyConfig failed: %v", e.opIdx, err)
			break
		}
		e.curOOO = w
	case "restart":
		e.closeApps(o.N%2 == 0)
		if e.failed {
			break
		}
		e.restart()
	case "tick":
		time.Sleep(time.Duration(o.N)*time.Second + 7*time.Millisecond)
		synctest.Wait()
	case "crashnext":
		// the next mutating op is "killed" at its N-th IO boundary: the run continues on that crash image
		if e.cfg.Crash {
			e.crashArm = int(o.N%40) + 1
		}
	case "snapshot":
		// reserved
	}
	if crash {
		e.mu.Lock()
		e.collecting = false
		imgs := e.images
		e.images = nil
		e.mu.Unlock()
		if !e.failed {
			e.judgeImages(o, imgs, pre, e.m)
		}
		ci := e.crashImg
		for _, im := range imgs {
			if im != ci {
				os.RemoveAll(im.dir)
			}
		}
		if ci != nil && !e.failed {
			lower, upper := bounds(o, pre, e.m)
			e.adoptCrash(ci, lower, upper)
			return
		}
	}
	if e.failed {
		return
	}
	if e.prop == "C52" && e.db != nil && !e.failed {
		e.countersVsContents(fmt.Sprintf("after op %d (%s)", e.opIdx, o.K))
		if e.failed {
			return
		}
	}
	if e.prop == "C20" && (o.K == "delete" || o.K == "cleantomb" || o.K == "compact" || o.K == "restart") && e.db != nil {
		e.tombstoneInvariants(fmt.Sprintf("after op %d (%s)", e.opIdx, o.K), o.K == "cleantomb")
		if e.failed {
			return
		}
	}
	if e.isMutating(o.K) && o.K != "restart" && e.prop != "C09" {
		e.verify(e.db, e.m, e.m, "query-vs-model", fmt.Sprintf("after op %d (%s)", e.opIdx, o.K), math.MinInt64)
		if len(e.res.Violations) > 0 {
			e.failed = true
		}
	}
	if !e.failed && e.db != nil && (e.isMutating(o.K) || o.K == "restart") {
		e.extraQueryChecks(fmt.Sprintf("after op %d (%s)", e.opIdx, o.K))
	}
}

// extraQueryChecks runs the query-shape oracles of the C16 / C18 profiles.
func (e *exec) extraQueryChecks(where string) {
	switch e.prop {
	case "C16":
		e.labelQueryCheck(where)
	case "C18":
		e.shardCheck(where)
	}
}

func (e *exec) afterCompaction() {
	e.compactions++
	e.syncPresence()
	e.mu.Lock()
	evs := e.evCompactEnd
	e.evCompactEnd = nil
	e.mu.Unlock()
	for _, ev := range evs {
		if debugOn {
			fmt.Printf("DBG   compact.end %s ulid=%s [%d,%d) ooo=%v samples=%d err=%v\n", ev.kind, ev.meta.ULID, ev.meta.MinTime, ev.meta.MaxTime, ev.meta.Compaction.FromOutOfOrder(), ev.meta.Stats.NumSamples, ev.err)
		}
		if ev.err == nil && ev.meta.Compaction.FromOutOfOrder() && ev.kind == "write" {
			// the out-of-order head was written to blocks (and is garbage collected afterwards)
			e.m.ClearOOOHead()
			e.oooCompactedThisEpoch = true
		}
	}
	e.blockEvents(evs)
}

// blockEvents is the hook for the compaction monitors (C07/C08).
func (e *exec) blockEvents(evs []compactEvent) {}

// replayCutoff is the highest MaxTime of the in-order-class blocks (what Open uses as the head's minValidTime).
func replayCutoff(db *tsdb.DB) int64 {
	B := int64(math.MinInt64)
	for _, b := range db.Blocks() {
		c := b.Meta().Compaction
		if !c.FromOutOfOrder() && !c.FromStaleSeries() && !c.FromSelectedSeries() && b.Meta().MaxTime > B {
			B = b.Meta().MaxTime
		}
	}
	return B
}

// tagAtRisk finds cells that only the head/WAL holds although an in-order-class block already ends after them
// (known finding TagMixedBlock): a restart will drop them. It returns their number and tags them in m.
func tagAtRisk(db *tsdb.DB, m *tsdbmodel.Model) int {
	B := int64(math.MinInt64)
	level := 0
	for _, b := range db.Blocks() {
		c := b.Meta().Compaction
		if !c.FromOutOfOrder() && !c.FromStaleSeries() && !c.FromSelectedSeries() && b.Meta().MaxTime > B {
			B = b.Meta().MaxTime
			level = c.Level
		}
	}
	if B == math.MinInt64 || level < 2 {
		// the cut-off comes from a block written straight from the head: no merged out-of-order block involved
		return 0
	}
	inBlocks := map[string]map[int64]bool{}
	for _, b := range db.Blocks() {
		res, err := querySamples(blockSource{b}, math.MinInt64, math.MaxInt64, allMatcher)
		if err != nil {
			return 0
		}
		for k, v := range res {
			if inBlocks[k] == nil {
				inBlocks[k] = map[int64]bool{}
			}
			for _, smp := range v {
				inBlocks[k][smp.T] = true
			}
		}
	}
	n := 0
	for _, s := range m.Series {
		key := s.Labels.String()
		for t, c := range s.Cells {
			if t < B && !c.Deleted && !c.OOOHead && !inBlocks[key][t] {
				if c.KF == "" {
					c.KF = tsdbmodel.TagMixedBlock
				}
				n++
			}
		}
	}
	return n
}

func (e *exec) restart() {
	if debugOn {
		dumpDB(e.db)
		filepath.Walk(e.dir, func(p string, fi os.FileInfo, err error) error {
			if err == nil && !fi.IsDir() {
				fmt.Printf("DBG file %s %d\n", p[len(e.dir):], fi.Size())
			}
			return nil
		})
	}
	if e.cfg.KF != tsdbmodel.TagMixedBlock {
		probe := e.m.Clone()
		if tagAtRisk(e.db, probe) > 0 {
			e.res.Count("skipped:"+tsdbmodel.TagMixedBlock, 1)
			return
		}
	} else {
		tagAtRisk(e.db, e.m)
	}
	if err := e.db.Close(); err != nil {
		e.fail("close", "close-error", "op %d: Close failed: %v", e.opIdx, err)
		e.db = nil
		return
	}
	e.db = nil
	e.restarts++
	e.res.Count("fault:clean-restart", 1)
	e.atCleanShutdown()
	if e.failed {
		return
	}
	var err error
	e.starting = true
	e.db, e.reg, err = e.open(e.dir)
	e.starting = false
	if err != nil {
		e.fail("open", "reopen-error", "op %d: reopen after clean shutdown failed: %v", e.opIdx, err)
		return
	}
	// series references are only meaningful within one process lifetime
	for i := range e.refs {
		e.refs[i] = 0
	}
	e.syncPresence()
	e.m.Restarted()
	e.m.OpenCutoff = replayCutoff(e.db)
	e.oooCompactedThisEpoch = false
	if e.prop == "C09" {
		return
	}
	e.verify(e.db, e.m, e.m, "query-vs-model-after-restart", fmt.Sprintf("after restart at op %d", e.opIdx), math.MinInt64)
	if len(e.res.Violations) > 0 {
		e.failed = true
	}
}

// adoptCrash continues the run on a crash image (dirty restart): the process is considered killed at that IO
// boundary, everything in memory is gone, and the model keeps of the in-flight operation exactly what was recovered.
func (e *exec) adoptCrash(ci *image, lower, upper *tsdbmodel.Model) {
	for _, s := range e.apps {
		s.open, s.v1, s.v2, s.m = false, nil, nil, nil
	}
	for i := range e.pendingCreator {
		e.pendingCreator[i] = 0
	}
	_ = e.db.Close() // the abandoned process; its directory is dropped
	old := e.dir
	e.dir = ci.dir
	e.mu.Lock()
	e.logical = map[string]int64{}
	e.mu.Unlock()
	os.RemoveAll(old)
	e.crashImg = nil
	var err error
	e.db, e.reg, err = e.open(e.dir)
	if err != nil {
		e.fail("crash-reopen", "reopen-failed:"+siteClass(ci.site), "dirty restart at op %d on image of %s: reopen failed: %v", e.opIdx, ci.site, err)
		return
	}
	res, err := querySamples(e.db, math.MinInt64, math.MaxInt64, allMatcher)
	if err != nil {
		e.fail("crash-recovery-query-error", "query-error", "dirty restart at op %d: query failed: %v", e.opIdx, err)
		return
	}
	nm := upper.Clone()
	for i, us := range nm.Series {
		got := map[int64]bool{}
		for _, smp := range res[us.Labels.String()] {
			got[smp.T] = true
		}
		ls := lower.Series[i]
		for t, c := range us.Cells {
			lc := ls.Cells[t]
			if lc != nil && !lc.Deleted {
				continue // acknowledged before the crash
			}
			if got[t] != !c.Deleted {
				// in-flight: keep what recovery shows
				if got[t] {
					c.Deleted, c.KF = false, ""
				} else {
					delete(us.Cells, t)
				}
			}
		}
	}
	// the newest in-order sample of a series is the one recovery kept, not the one the killed commit would have left
	hmin := int64(math.MaxInt64)
	if e.headInit() {
		hmin = e.db.Head().MinTime()
	}
	for i, us := range nm.Series {
		if us.Last == nil {
			continue
		}
		if c := us.Cells[us.Last.T]; c != nil && !c.Deleted && c.Has(*us.Last) {
			continue
		}
		us.Last = nil
		if l := lower.Series[i].Last; l != nil {
			if c := us.Cells[l.T]; c != nil && !c.Deleted {
				cp := *l
				us.Last = &cp
			}
		}
		// a commit recovered in part: the newest surviving in-order sample above that
		for _, t := range tsdbmodel.SortedTimes(us.Cells) {
			c := us.Cells[t]
			if c.Deleted || c.OOOHead || c.Zombie || t < hmin || len(c.Cands) == 0 {
				continue
			}
			if us.Last == nil || t > us.Last.T {
				cp := c.Cands[len(c.Cands)-1]
				us.Last = &cp
			}
		}
	}
	e.m = nm
	e.restarts++
	e.res.Count("fault:dirty-restart", 1)
	for i := range e.refs {
		e.refs[i] = 0
	}
	e.syncPresence()
	e.m.Restarted()
	e.m.OpenCutoff = replayCutoff(e.db)
	e.oooCompactedThisEpoch = false
	if e.headInit() && e.db.Head().MaxTime() > e.now {
		e.now = e.db.Head().MaxTime()
	}
}

func (e *exec) finalChecks() {}
