// Package tsdbsim is engine E1: a whole tsdb.DB (real WAL, WBL, head, chunk mapper, compactor,
// blocks, index, tombstones, checkpoints, snapshots; real files on tmpfs) driven by one workload
// task through the public API inside a synctest bubble, with the reference model updated in
// lock step, crash images taken at IO hooks, and per-property oracles.
package tsdbsim

import (
	"encoding/json"
	"fmt"
	"os"

	"verif/sim/core/prng"
	"verif/sim/model/histgen"
)

// Config is the swarm configuration of one run (drawn from the seed).
type Config struct {
	Profile string `json:"profile"`
	Seed    uint64 `json:"seed"`

	R               int64   `json:"r"`    // chunk range == min block duration
	MaxMul          int64   `json:"mul"`  // max block duration = R*MaxMul
	Step            int64   `json:"step"` // time unit of relative offsets
	Start           int64   `json:"start"`
	NSeries         int     `json:"nseries"`
	SamplesPerChunk int     `json:"spc"`
	OOOWindow       int64   `json:"ooo"`
	OOOCapMax       int64   `json:"ooocap"`
	WALSegKB        int     `json:"walkb"`
	WALComp         string  `json:"walcomp"`
	Queue           int     `json:"queue"`
	IsoOff          bool    `json:"isooff,omitempty"`
	Overlap         bool    `json:"overlap,omitempty"`
	Snapshot        bool    `json:"snap,omitempty"`
	FastStart       bool    `json:"fast,omitempty"`
	ST              bool    `json:"st,omitempty"`
	XOR2            bool    `json:"xor2,omitempty"`
	HistST          bool    `json:"histst,omitempty"`
	Sharding        bool    `json:"shard,omitempty"`
	LongLabels      bool    `json:"longlabels,omitempty"` // every third series carries a label set of more than 1 KiB
	RichLabels      bool    `json:"rich,omitempty"`       // C16 / C18: label sets with shared, absent and extra labels
	Exemplars       bool    `json:"ex,omitempty"`
	V2              bool    `json:"v2,omitempty"`
	ReplayConc      int     `json:"rc,omitempty"`
	RetentionMs     int64   `json:"ret,omitempty"`
	MaxBytes        int64   `json:"maxb,omitempty"`
	MaxPct          float64 `json:"maxpct,omitempty"`
	FsSize          int64   `json:"fssize,omitempty"`

	// KF: this run deliberately exercises the input patterns of listed known findings (see known_findings.json);
	// all other runs avoid them so that they keep exploring past those patterns.
	KF string `json:"kf,omitempty"` // tag of the one finding this run is allowed to trigger ("" = none)

	Crash     bool `json:"crash,omitempty"`     // take crash images at IO hooks and judge them (C03)
	ImgCap    int  `json:"imgcap,omitempty"`    // max images judged per op
	TornMode  int  `json:"torn,omitempty"`      // 0 none, 1 three prefixes, 2 many prefixes
	Damage    bool `json:"damage,omitempty"`    // C04 damage sweeps at restarts
	ROCheck   bool `json:"ro,omitempty"`        // C53 read-only open comparison at restarts
	SnapCheck bool `json:"snapcheck,omitempty"` // C23 snapshot vs WAL restart comparison
}

// Matcher in a plan.
type Matcher struct {
	T int    `json:"t"` // 0 =, 1 !=, 2 =~, 3 !~
	N string `json:"n"`
	V string `json:"v"`
}

// Op is one workload operation. Timestamps are relative descriptors resolved at execution
// time so that shrinking (dropping ops) leaves the remaining ops meaningful.
type Op struct {
	K    string    `json:"k"`
	Slot int       `json:"slot,omitempty"`
	S    int       `json:"s,omitempty"`
	TB   string    `json:"tb,omitempty"` // time base: now|hmax|slast|minv|oooe|abs
	TO   int64     `json:"to,omitempty"` // offset in Steps
	TF   int64     `json:"tf,omitempty"` // fine offset in ms
	VK   int       `json:"vk,omitempty"` // 0 float 1 hist 2 fhist 3 stale
	VM   int       `json:"vm,omitempty"` // 0 fresh unique value, 1 repeat the series' newest value
	HM   int       `json:"hm,omitempty"`
	HS   uint64    `json:"hs,omitempty"`
	Ref  int       `json:"ref,omitempty"` // 0 no ref, 1 cached ref
	Rej  bool      `json:"rej,omitempty"` // reject-out-of-order option
	M    []Matcher `json:"m,omitempty"`
	MB   string    `json:"mb,omitempty"` // delete/query mint base: min|abs|now|hmax
	MO   int64     `json:"mo,omitempty"`
	XB   string    `json:"xb,omitempty"`
	XO   int64     `json:"xo,omitempty"`
	N    int64     `json:"n,omitempty"`
	Rep  int       `json:"rep,omitempty"` // add: repeat count (one sample per millisecond), for multi-page WAL records
	Sel  []int     `json:"sel,omitempty"` // series indexes (compactsel)
}

// Plan = config + operations. Execution is a pure function of the plan.
type Plan struct {
	Cfg Config `json:"cfg"`
	Ops []Op   `json:"ops"`
}

func (p *Plan) String() string {
	b, _ := json.Marshal(p)
	return string(b)
}

type weights struct {
	app, add, burst, commit, rollback, del, compact, compactHead, compactOOO, compactStale, compactSel,
	cleanTomb, mmap, setOOO, restart, tick, snapshot, compactFail int
}

func (w weights) list() []int {
	return []int{w.app, w.add, w.burst, w.commit, w.rollback, w.del, w.compact, w.compactHead, w.compactOOO, w.compactStale,
		w.compactSel, w.cleanTomb, w.mmap, w.setOOO, w.restart, w.tick, w.snapshot, w.compactFail}
}

var opNames = []string{"app", "add", "burst", "commit", "rollback", "delete", "compact", "compacthead", "compactooo", "compactstale",
	"compactsel", "cleantomb", "mmap", "setooo", "restart", "tick", "snapshot", "compactfail"}

// GenConfig draws the swarm configuration.
func GenConfig(prop, tier string, seed uint64) Config {
	r := prng.New(prng.DeriveS(seed, "config"))
	c := Config{Profile: prop, Seed: seed}
	c.R = []int64{100, 1000, 1000, 7200000}[r.Intn(4)]
	c.MaxMul = []int64{1, 3, 9, 27}[r.Intn(4)]
	c.Step = c.R / int64([]int{4, 8, 10, 20}[r.Intn(4)])
	// Start time: negative, around zero, positive.
	c.Start = []int64{-7 * c.R, -c.R - c.R/3, 0, 3*c.R + 7, 1700000000000}[r.Intn(5)]
	c.NSeries = r.Range(2, 6)
	c.SamplesPerChunk = []int{3, 5, 120}[r.Intn(3)]
	c.OOOWindow = []int64{0, 0, 2 * c.R, 30 * c.R}[r.Intn(4)]
	c.OOOCapMax = []int64{1, 2, 4, 32}[r.Intn(4)]
	c.WALSegKB = []int{32, 32, 64, 128}[r.Intn(4)]
	c.WALComp = []string{"none", "snappy", "zstd"}[r.Intn(3)]
	_ = r.Intn(4) // E1 keeps head-chunk writes synchronous: every IO then happens in the workload task and runs replay exactly; the asynchronous queue is E3's subject
	c.Queue = 0
	c.IsoOff = r.Chance(0.3)
	c.Overlap = r.Chance(0.6)
	c.Snapshot = r.Chance(0.3)
	c.FastStart = r.Chance(0.3)
	c.XOR2 = r.Chance(0.4)
	c.ST = c.XOR2 && r.Chance(0.5)
	c.HistST = r.Chance(0.3)
	c.Sharding = r.Chance(0.3)
	c.V2 = r.Chance(0.4)
	c.ReplayConc = 1
	if r.Chance(0.25) {
		c.ReplayConc = r.Range(2, 4)
	}
	kfTags := []string{"wal-sample-before-series-record", "delete-misses-ooo-head", "head-tombstone-hides-later-append",
		"ooo-mmap-chunks-dropped-on-duplicate-series-record", "restart-drops-head-samples-below-merged-ooo-block-maxt",
		"ooo-chunk-ref-reuse-after-all-head-chunk-files-deleted", "inorder-sample-lost-at-replay-after-newer-ooo-sample"}
	kfPick := kfTags[r.Intn(len(kfTags))]
	if r.Chance(0.05) || os.Getenv("VERIF_FORCE_KF") != "" { // the env var is a finding-hunting aid; replay files carry the plan
		c.KF = kfPick
		if f := os.Getenv("VERIF_FORCE_KF"); f != "" && f != "1" {
			c.KF = f
		}
	}
	if prop == "C53" && c.KF != "" && r.Chance(0.6) {
		c.KF = []string{"ro-flushwal-omits-out-of-order-head-data", "series-ref-reused-after-snapshot-restart", "ro-query-ending-below-newest-block-skips-ooo-head-data"}[r.Intn(3)]
	}
	if prop == "C23" && c.KF != "" && r.Chance(0.6) {
		c.KF = []string{"series-ref-reused-after-snapshot-restart", "snapshot-kept-when-head-chunk-file-lost-chunks-at-a-chunk-boundary"}[r.Intn(2)]
	}
	if (prop == "C22" || prop == "C03") && c.KF != "" && r.Chance(0.4) {
		c.KF = []string{"mmapped-chunks-of-duplicate-series-ref-lost-after-snapshot-restart", "kill-during-head-chunk-repair-leaves-newer-files-and-loses-wal-samples"}[r.Intn(2)]
	}
	if prop == "C04" && c.KF != "" && r.Chance(0.4) {
		c.KF = "ooo-samples-lost-when-head-chunk-damage-splits-chunks-m-mapped-together"
	}
	if prop == "C15" && c.KF != "" && r.Chance(0.5) {
		c.KF = "wal-keeps-records-of-series-whose-label-record-was-dropped"
	}
	if prop == "C12" && (c.KF != "" && r.Chance(0.6) || c.KF == "" && r.Chance(0.1)) {
		c.KF = "not-counter-reset-hint-kept-after-deleted-predecessor"
	}
	if prop == "C52" && c.KF != "" && r.Chance(0.4) {
		c.KF = "head-chunks-gauge-miscounts-mixed-type-ooo-chunks"
	}
	if prop == "C02" && c.KF != "" && r.Chance(0.5) {
		c.KF = []string{"stale-marker-commit-reorder", "identical-histogram-reappend-rejected-after-in-place-widening"}[r.Intn(2)]
	}
	switch prop {
	case "C03":
		c.Crash = true
		c.Queue = 0 // asynchronous head-chunk writes are exercised by E3; here every IO is in the workload task
		c.ImgCap = 24
		c.TornMode = 1
		if tier == "thorough" {
			c.ImgCap = 60
			c.TornMode = 2
		}
		if r.Chance(0.5) {
			c.OOOWindow = []int64{2 * c.R, 30 * c.R}[r.Intn(2)]
		}
		c.WALSegKB = 32
	case "C02":
		c.NSeries = r.Range(1, 3)
	case "C09":
		switch r.Intn(3) {
		case 0:
			c.RetentionMs = c.R * int64(r.Range(1, 6))
		case 1:
			c.MaxBytes = int64(r.Range(1, 40)) * 4096
		default:
			c.MaxPct = float64(r.Range(1, 50))
			c.FsSize = int64(r.Range(10, 400)) * 4096
			if r.Chance(0.3) {
				c.MaxBytes = int64(r.Range(1, 40)) * 4096
			}
		}
		if r.Chance(0.3) {
			c.RetentionMs = c.R * int64(r.Range(1, 6))
		}
		if r.Chance(0.3) {
			c.Crash, c.ImgCap, c.TornMode, c.Queue = true, 8, 0, 0
		}
	case "C15":
		c.WALSegKB = 32
		c.NSeries = r.Range(3, 8)
	case "C22":
		c.FastStart = r.Chance(0.5)
		c.NSeries = r.Range(3, 8)
		if r.Chance(0.3) {
			c.Crash, c.ImgCap, c.TornMode, c.Queue = true, 6, 0, 0
		} else if r.Chance(0.35) {
			// lost log tail: restarts on copies whose newest WAL / WBL segment is cut, then a new series (damage.go, refOnly)
			c.Damage, c.Queue, c.WALSegKB = true, 0, 32
			c.OOOWindow = 30 * c.R
		}
	case "C16":
		c.RichLabels = true
		c.NSeries = r.Range(4, 12)
		if r.Chance(0.25) {
			c.NSeries = r.Range(30, 70) // many values of one label (postings offset table sampling in blocks)
			if r.Chance(0.5) {
				c.NSeries = []int{33, 65}[r.Intn(2)] // one more than a multiple of the table's sampling rate
			}
		}
	case "C18":
		c.RichLabels = true
		c.NSeries = r.Range(4, 12)
		c.Sharding = true
		c.LongLabels = r.Chance(0.3)
	case "C24":
		if r.Chance(0.15) {
			// a block whose "id" label has one more value than a multiple of the postings offset table's sampling rate
			c.RichLabels = true
			c.NSeries = []int{33, 65}[r.Intn(2)]
		}
	case "C53":
		c.ROCheck = true
	case "C23":
		c.Snapshot = true
		c.SnapCheck = true
	case "C04":
		c.Damage = true
		c.Queue = 0
		c.WALSegKB = 32
	}
	return c
}

func profileWeights(prop string, c Config, r *prng.R) weights {
	w := weights{app: 10, add: 40, burst: 14, commit: 14, rollback: 2, del: 3, compact: 6, compactHead: 1, compactOOO: 2,
		compactStale: 1, compactSel: 1, cleanTomb: 1, mmap: 2, setOOO: 1, restart: 3, tick: 1, snapshot: 0}
	if prop == "C01" {
		w.compactFail = 1
	}
	switch prop {
	case "C02":
		w.add, w.burst, w.app, w.commit, w.rollback = 60, 4, 14, 14, 4
		w.del, w.cleanTomb, w.compactStale, w.compactSel = 0, 0, 0, 0
		w.compact, w.restart = 3, 2
	case "C03":
		w.compact, w.restart, w.del, w.cleanTomb, w.tick = 8, 5, 4, 2, 4
		w.compactFail = 3
	case "C20":
		w.del, w.cleanTomb, w.compact = 12, 5, 8
	case "C09", "C07", "C08":
		w.compact, w.compactHead, w.compactOOO, w.burst = 12, 2, 4, 20
		if prop == "C07" {
			w.del, w.compactStale, w.compactSel = 6, 2, 2
		}
	case "C15", "C22":
		w.compact, w.restart, w.compactStale, w.compactSel = 10, 6, 3, 3
	case "C52":
		w.compactStale, w.compactSel, w.restart, w.rollback = 3, 3, 4, 4
		w.setOOO = 0 // the window decides which sample kinds C52 runs may append (see TagGaugeOOOMixed)
	case "C24":
		w.compact, w.compactHead, w.compactOOO, w.restart, w.burst, w.del = 12, 3, 4, 6, 24, 3
	case "C53", "C23":
		w.restart = 6
	case "C11", "C12":
		w.mmap, w.compact, w.compactOOO, w.restart, w.del, w.burst = 6, 8, 4, 4, 2, 24
	}
	if c.OOOWindow == 0 && prop != "C02" && prop != "C52" {
		w.setOOO = 2
	}
	// swarm: knock out some op kinds per run
	l := []*int{&w.del, &w.compactHead, &w.compactOOO, &w.compactStale, &w.compactSel, &w.cleanTomb, &w.mmap, &w.setOOO, &w.rollback, &w.tick}
	for _, p := range l {
		if r.Chance(0.2) {
			*p = 0
		}
	}
	return w
}

// Generate builds a plan.
func Generate(prop, tier string, seed uint64) *Plan {
	cfg := GenConfig(prop, tier, seed)
	r := prng.New(prng.DeriveS(seed, "ops"))
	w := profileWeights(prop, cfg, r)
	nops := r.Range(20, 90)
	if prop == "C03" || prop == "C04" {
		nops = r.Range(12, 50)
	}
	p := &Plan{Cfg: cfg}
	openSlots := 0
	if (prop == "C16" || prop == "C24") && cfg.RichLabels && (cfg.NSeries == 33 || cfg.NSeries == 65) {
		// every series gets a sample in one block range and the range is compacted: a block whose "id" label has one
		// more value than a multiple of the postings offset table's sampling rate
		p.Ops = append(p.Ops, Op{K: "app", Slot: 0})
		for i := 0; i < cfg.NSeries; i++ {
			p.Ops = append(p.Ops, Op{K: "add", Slot: 0, S: i, TB: "now", TO: 0, VK: genKind(r, prop), HM: r.Intn(histgen.NModes), HS: r.Uint64() >> 1})
		}
		p.Ops = append(p.Ops, Op{K: "commit", Slot: 0}, Op{K: "app", Slot: 0},
			Op{K: "add", Slot: 0, S: r.Intn(cfg.NSeries), TB: "now", TO: int64(r.Range(30, 60))}, Op{K: "commit", Slot: 0}, Op{K: "compact"})
		nops += len(p.Ops)
	}
	if prop == "C15" && r.Chance(0.3) || prop == "C03" && r.Chance(0.15) {
		// samples of every kind exactly on a block boundary, two restarts (two more WAL segments), a jump that makes the
		// head compactable and a compaction: the first truncation cuts at that boundary and checkpoints their segment
		p.Ops = append(p.Ops, Op{K: "app", Slot: 0}, Op{K: "add", Slot: 0, S: 0, TB: "now", TO: 1})
		for i := 0; i < cfg.NSeries; i++ {
			p.Ops = append(p.Ops, Op{K: "add", Slot: 0, S: i, TB: "edge", VK: []int{1, 2, 0}[i%3], HM: r.Intn(histgen.NModes), HS: r.Uint64() >> 1})
		}
		// (a checkpoint needs four segments; the jump of one and a half block ranges makes exactly the range below the
		// boundary compactable, so that the boundary is the truncation time and its samples stay in the head)
		p.Ops = append(p.Ops, Op{K: "commit", Slot: 0}, Op{K: "restart"}, Op{K: "restart"}, Op{K: "restart"})
		if prop == "C03" && cfg.Crash && r.Chance(0.6) {
			// one more segment without a new chunk snapshot (a kill, not a shutdown): the checkpoint of the compaction
			// below then gets the very index the last snapshot was taken at
			p.Ops = append(p.Ops, Op{K: "app", Slot: 0}, Op{K: "add", Slot: 0, S: r.Intn(cfg.NSeries), TB: "now", TO: 0},
				Op{K: "crashnext", N: int64(r.Range(0, 3))}, Op{K: "commit", Slot: 0})
		}
		p.Ops = append(p.Ops, Op{K: "app", Slot: 0},
			Op{K: "add", Slot: 0, S: r.Intn(cfg.NSeries), TB: "now", TO: 3 * cfg.R / (2 * cfg.Step)},
			Op{K: "commit", Slot: 0}, Op{K: "compact"})
		if prop == "C03" && cfg.Crash {
			p.Ops = append(p.Ops, Op{K: "app", Slot: 0}, Op{K: "add", Slot: 0, S: r.Intn(cfg.NSeries), TB: "now", TO: 1},
				Op{K: "crashnext", N: int64(r.Range(0, 3))}, Op{K: "commit", Slot: 0})
		}
		if r.Chance(0.5) {
			p.Ops = append(p.Ops, Op{K: "restart"})
		}
		nops += len(p.Ops)
	}
	for len(p.Ops) < nops {
		k := opNames[r.Pick(w.list())]
		switch k {
		case "app":
			p.Ops = append(p.Ops, Op{K: "app", Slot: r.Intn(3)})
			openSlots++
		case "add":
			p.Ops = append(p.Ops, genAdd(r, cfg, prop, r.Intn(3)))
		case "burst":
			// a whole in-order transaction advancing time: app, n adds, commit
			slot := r.Intn(3)
			p.Ops = append(p.Ops, Op{K: "app", Slot: slot})
			n := r.Range(1, 6)
			for i := 0; i < n; i++ {
				o := Op{K: "add", Slot: slot, S: r.Intn(cfg.NSeries), TB: "now", TO: int64(r.Range(0, 3)), VK: genKind(r, prop), HM: r.Intn(histgen.NModes), HS: r.Uint64() >> 1, Ref: r.Intn(2)}
				if r.Chance(0.08) {
					o.TO = int64(r.Range(4, 30)) // jump: makes the head compactable
				}
				p.Ops = append(p.Ops, o)
			}
			p.Ops = append(p.Ops, Op{K: "commit", Slot: slot})
		case "commit":
			if (prop == "C03" || prop == "C04") && r.Chance(0.15) {
				// a big transaction: its WAL record spans several pages, so a kill can tear it
				slot := r.Intn(3)
				p.Ops = append(p.Ops, Op{K: "add", Slot: slot, S: r.Intn(cfg.NSeries), TB: "now", TO: 1, Rep: r.Range(150, 320)})
				p.Ops = append(p.Ops, Op{K: "commit", Slot: slot})
				break
			}
			p.Ops = append(p.Ops, Op{K: "commit", Slot: r.Intn(3)})
		case "rollback":
			p.Ops = append(p.Ops, Op{K: "rollback", Slot: r.Intn(3)})
		case "delete":
			p.Ops = append(p.Ops, genDelete(r, cfg))
		case "compactsel":
			n := r.Range(1, cfg.NSeries)
			var sel []int
			for i := 0; i < n; i++ {
				sel = append(sel, r.Intn(cfg.NSeries))
			}
			p.Ops = append(p.Ops, Op{K: k, Sel: sel})
		case "setooo":
			p.Ops = append(p.Ops, Op{K: k, N: []int64{0, 2, 30}[r.Intn(3)]})
		case "tick":
			if cfg.Crash && r.Chance(0.7) {
				p.Ops = append(p.Ops, Op{K: "crashnext", N: int64(r.Intn(40))})
				break
			}
			p.Ops = append(p.Ops, Op{K: k, N: int64(r.Range(1, 130))}) // seconds of simulated time
		default:
			p.Ops = append(p.Ops, Op{K: k})
		}
	}
	if prop == "C22" && cfg.Damage && cfg.NSeries > 2 && r.Chance(0.6) {
		// the newest series is created in the newest WAL segment, gets out-of-order samples that are m-mapped and compacted
		// (which truncates the out-of-order WAL while the head chunk file stays), then the database is shut down: the
		// damage sweep cuts that segment, creates a new series on the copy and restarts it
		last := cfg.NSeries - 1
		for i := range p.Ops {
			if p.Ops[i].K == "add" && p.Ops[i].S == last {
				p.Ops[i].S = r.Intn(last)
			}
		}
		p.Ops = append(p.Ops, Op{K: "restart"}, Op{K: "app", Slot: 0}, Op{K: "add", Slot: 0, S: last, TB: "now", TO: 1}, Op{K: "commit", Slot: 0}, Op{K: "app", Slot: 0})
		for i, n := 0, r.Range(1, 4); i < n; i++ {
			p.Ops = append(p.Ops, Op{K: "add", Slot: 0, S: last, TB: "hmax", TO: -int64(r.Range(2, 30))})
		}
		p.Ops = append(p.Ops, Op{K: "commit", Slot: 0}, Op{K: "mmap"}, Op{K: "compactooo"}, Op{K: "restart"})
	}
	return p
}

func genKind(r *prng.R, prop string) int {
	switch prop {
	case "C11", "C12":
		return []int{1, 1, 2, 2, 3, 0}[r.Intn(6)]
	case "C15":
		return []int{0, 0, 0, 1, 1, 2, 2, 3}[r.Intn(8)] // every record type a checkpoint filters by time
	}
	return []int{0, 0, 0, 0, 0, 1, 2, 3}[r.Intn(8)]
}

func genAdd(r *prng.R, cfg Config, prop string, slot int) Op {
	o := Op{K: "add", Slot: slot, S: r.Intn(cfg.NSeries), VK: genKind(r, prop), HM: r.Intn(histgen.NModes), HS: r.Uint64() >> 1, Ref: r.Intn(2)}
	if (prop == "C11" || prop == "C12") && r.Chance(0.55) {
		o.HM = histgen.Grow // long reset-free stretches make NotCounterReset hints (and forward inserts) frequent
	}
	switch r.Intn(10) {
	case 0, 1, 2, 3:
		o.TB, o.TO = "now", int64(r.Range(0, 3))
	case 4:
		o.TB, o.TO, o.TF = "slast", 0, int64(r.Range(-1, 1)) // at / around the series' newest sample
		if r.Chance(0.5) {
			o.VM = 1
		}
	case 5:
		o.TB, o.TF = "minv", int64(r.Range(-1, 1)) // appendable window edge
	case 6:
		o.TB, o.TF = "oooe", int64(r.Range(-1, 1)) // out-of-order window edge
	case 7:
		o.TB, o.TO = "hmax", -int64(r.Range(1, 40)) // older data
	case 8:
		o.TB, o.TO = "slast", -int64(r.Range(1, 6))
	default:
		o.TB, o.TO = "hmax", int64(r.Range(0, 2))
	}
	if (prop == "C15" || prop == "C03") && r.Chance(0.2) {
		// exactly on (or next to) the next block boundary: the time a head truncation and its WAL checkpoint cut at
		o.TB, o.TO, o.TF = "edge", 0, []int64{0, 0, 0, 0, -1, 1}[r.Intn(6)]
		if prop == "C15" {
			o.VK = []int{0, 1, 1, 2, 2}[r.Intn(5)]
		}
	}
	if r.Chance(0.1) {
		o.Rej = true
	}
	return o
}

func genDelete(r *prng.R, cfg Config) Op {
	o := Op{K: "delete"}
	switch r.Intn(4) {
	case 0:
		o.M = []Matcher{{T: 0, N: "__name__", V: "m"}} // all series
	case 1:
		o.M = []Matcher{{T: 0, N: "s", V: fmt.Sprint(r.Intn(cfg.NSeries))}}
	case 2:
		o.M = []Matcher{{T: 2, N: "s", V: fmt.Sprintf("%d|%d", r.Intn(cfg.NSeries), r.Intn(cfg.NSeries))}}
	default:
		o.M = []Matcher{{T: 0, N: "__name__", V: "m"}, {T: 1, N: "s", V: fmt.Sprint(r.Intn(cfg.NSeries))}}
	}
	switch r.Intn(5) {
	case 0:
		o.MB, o.XB = "min", "max" // int64 extremes
	case 1:
		o.MB, o.XB, o.XO = "min", "hmax", -int64(r.Range(0, 20))
	case 2:
		o.MB, o.MO, o.XB = "hmax", -int64(r.Range(0, 30)), "max"
	default:
		a := -int64(r.Range(0, 40))
		o.MB, o.MO, o.XB, o.XO = "hmax", a, "hmax", a+int64(r.Range(0, 15))
	}
	return o
}

// Shrink returns simpler candidate plans: drop chunks of ops, then single ops, then simplify configuration flags.
func Shrink(p *Plan) []*Plan {
	var out []*Plan
	n := len(p.Ops)
	for size := n / 2; size >= 1; size /= 2 {
		for start := 0; start+size <= n; start += size {
			q := &Plan{Cfg: p.Cfg}
			q.Ops = append(q.Ops, p.Ops[:start]...)
			q.Ops = append(q.Ops, p.Ops[start+size:]...)
			out = append(out, q)
		}
		if size == 1 {
			break
		}
	}
	// configuration simplifications
	simpl := func(f func(c *Config) bool) {
		c := p.Cfg
		if f(&c) {
			out = append(out, &Plan{Cfg: c, Ops: p.Ops})
		}
	}
	simpl(func(c *Config) bool { v := c.WALComp != "none"; c.WALComp = "none"; return v })
	simpl(func(c *Config) bool {
		v := c.Snapshot && !c.SnapCheck
		if v {
			c.Snapshot = false
		}
		return v
	})
	simpl(func(c *Config) bool { v := c.FastStart; c.FastStart = false; return v })
	simpl(func(c *Config) bool { v := c.V2; c.V2 = false; return v })
	simpl(func(c *Config) bool { v := c.Sharding; c.Sharding = false; return v })
	simpl(func(c *Config) bool { v := c.LongLabels; c.LongLabels = false; return v })
	simpl(func(c *Config) bool { v := c.HistST; c.HistST = false; return v })
	simpl(func(c *Config) bool { v := c.ST; c.ST = false; return v })
	simpl(func(c *Config) bool {
		v := c.XOR2 && !c.ST
		if v {
			c.XOR2 = false
		}
		return v
	})
	simpl(func(c *Config) bool { v := c.IsoOff; c.IsoOff = false; return v })
	simpl(func(c *Config) bool { v := c.Queue != 0; c.Queue = 0; return v })
	simpl(func(c *Config) bool { v := c.ReplayConc != 1; c.ReplayConc = 1; return v })
	simpl(func(c *Config) bool { v := c.SamplesPerChunk != 120; c.SamplesPerChunk = 120; return v })
	// op simplifications: histogram -> float
	for i, o := range p.Ops {
		if o.K == "add" && o.VK != 0 {
			q := &Plan{Cfg: p.Cfg, Ops: append([]Op(nil), p.Ops...)}
			q.Ops[i].VK = 0
			out = append(out, q)
		}
	}
	return out
}
