package tsdbsim

import (
	"fmt"
	"math"
	"os"

	"verif/sim/core/simfs"

	dto "github.com/prometheus/client_model/go"

	"github.com/prometheus/prometheus/tsdb"
	"github.com/prometheus/prometheus/tsdb/tombstones"
)

// noTombstones shows a block reader's raw contents (deleted samples still count as head contents).
type noTombstones struct{ tsdb.BlockReader }

func (noTombstones) Tombstones() (tombstones.Reader, error) {
	return tombstones.NewMemTombstones(), nil
}

func (e *exec) gauge(name string) (float64, bool) {
	mfs, err := e.reg.Gather()
	if err != nil {
		return 0, false
	}
	for _, mf := range mfs {
		if mf.GetName() != name {
			continue
		}
		var sum float64
		for _, m := range mf.GetMetric() {
			switch mf.GetType() {
			case dto.MetricType_GAUGE:
				sum += m.GetGauge().GetValue()
			case dto.MetricType_COUNTER:
				sum += m.GetCounter().GetValue()
			}
		}
		return sum, true
	}
	return 0, false
}

// countersVsContents is the C52 oracle: the head's reported numbers equal a recount of its contents.
//   - series: walk of the series stripes (tagged shim Head.SimRecount) and, independently, the postings of the head index;
//   - stale / native-histogram series and buckets: the newest in-order sample of every head series as returned by a
//     head-only querier (public API); series without in-order data in the head count as neither;
//   - head chunks: m-mapped + in-memory chunks, in-order and out-of-order, from the walk;
//   - active appenders: the number of appenders the workload holds open.
func (e *exec) countersVsContents(where string) {
	h := e.db.Head()
	walk := h.SimRecount()
	if debugOn {
		fmt.Printf("DBG   gauges: series=%d stale=%d hist=%d buckets=%d\n", h.NumSeries(), h.NumStaleSeries(), h.NumNativeHistogramSeries(), h.NumNativeHistogramBuckets())
		for _, s := range walk {
			fmt.Printf("DBG     %s hist=%v stale=%v buckets=%d chunks=%d/%d/%d/%d\n", s.Labels, s.LastIsHist, s.LastIsStale, s.LastBuckets, s.InOrderMmap, s.InOrderHead, s.OOOMmap, s.OOOHead)
		}
	}
	e.res.Evals++
	fail := func(sig, format string, a ...any) {
		if debugOn {
			os.RemoveAll("/dev/shm/verif-keep")
			simfs.CopyTree(e.dir, "/dev/shm/verif-keep")
		}
		e.fail("counters-vs-contents", sig, "%s: "+format, append([]any{where}, a...)...)
	}
	if got := h.NumSeries(); got != uint64(len(walk)) {
		fail("num-series", "NumSeries()=%d but the head holds %d series", got, len(walk))
		return
	}
	if g, ok := e.gauge("prometheus_tsdb_head_series"); ok && g != float64(len(walk)) {
		fail("num-series-gauge", "prometheus_tsdb_head_series=%v but the head holds %d series", g, len(walk))
		return
	}
	chunks := 0
	pending := false
	for _, s := range walk {
		chunks += s.InOrderMmap + s.InOrderHead + s.OOOMmap + s.OOOHead
		pending = pending || s.PendingCount
	}
	if g, ok := e.gauge("prometheus_tsdb_head_chunks"); ok && g != float64(chunks) {
		if g < float64(chunks) && e.mixedOOO {
			// listed finding: an out-of-order chunk with several sample types was counted once, subtracted per type
			fail("known:"+TagGaugeOOOMixed, "prometheus_tsdb_head_chunks=%v but the head holds %d chunks (after out-of-order chunks with mixed sample types)", g, chunks)
			return
		}
		fail("head-chunks", "prometheus_tsdb_head_chunks=%v but the head holds %d chunks", g, chunks)
		return
	}
	// newest in-order sample per series through the public query path
	res, err := querySamples(blockSource{noTombstones{tsdb.NewRangeHead(h, math.MinInt64, math.MaxInt64)}}, math.MinInt64, math.MaxInt64, allMatcher)
	if err != nil {
		fail("query-error", "head query failed: %v", err)
		return
	}
	stale, hist, buckets, bucketsLo := 0, 0, 0, 0
	amb := false
	for _, s := range walk {
		smp := res[s.Labels.String()]
		if len(smp) == 0 {
			// no in-order data visible: the series' remembered last value is all the head has; take its view
			if s.HasLast || s.LastIsStale || s.LastIsHist {
				amb = true
			}
			if s.LastIsStale {
				stale++
			}
			if s.LastIsHist {
				hist++
				buckets += s.LastBuckets
				bucketsLo += s.LastBuckets
			}
			continue
		}
		last := smp[len(smp)-1]
		if last.IsStale() {
			stale++
		}
		if last.Kind != 0 {
			hist++
			// The statement does not say whether explicitly stored empty buckets count: the recount gives the
			// range [populated buckets, bucket slots of the stored sample or of the sample as appended].
			hi := last.NumBuckets()
			for _, ms := range e.m.Series {
				if ms.Labels.String() == s.Labels.String() && ms.Last != nil && ms.Last.T == last.T && ms.Last.Kind == last.Kind && ms.Last.NumBuckets() > hi {
					hi = ms.Last.NumBuckets()
				}
			}
			buckets += hi
			bucketsLo += last.NonZeroBuckets()
		}
	}
	_ = amb
	if got := h.NumStaleSeries(); got != uint64(stale) {
		fail("stale-series", "NumStaleSeries()=%d but %d head series end in a staleness marker", got, stale)
		return
	}
	if got := h.NumNativeHistogramSeries(); got != uint64(hist) {
		fail("histogram-series", "NumNativeHistogramSeries()=%d but %d head series end in a native histogram", got, hist)
		return
	}
	if got := h.NumNativeHistogramBuckets(); got > uint64(buckets) || got < uint64(bucketsLo) {
		fail("histogram-buckets", "NumNativeHistogramBuckets()=%d but the newest histograms of the head series hold between %d (populated) and %d (slots) buckets", got, bucketsLo, buckets)
		return
	}
	open := 0
	for _, s := range e.apps {
		if s.open {
			open++
		}
	}
	if g, ok := e.gauge("prometheus_tsdb_head_active_appenders"); ok && g != float64(open) {
		fail("active-appenders", "prometheus_tsdb_head_active_appenders=%v but %d appenders are open", g, open)
		return
	}
	e.res.Count("counter_checks", 1)
	if stale > 0 {
		e.res.Count("counter_checks_with_stale", 1)
	}
	if hist > 0 {
		e.res.Count("counter_checks_with_hist", 1)
	}
	_ = fmt.Sprint
}
