package tsdbsim

import (
	"fmt"
	"math"
	"os"
	"path/filepath"
	"strings"

	"verif/sim/core/simfs"
	"verif/sim/model/walorder"
)

// ---- C15: WAL truncation keeps everything replay still needs ----

// TagDroppedSeriesRecords is the known finding (C15, second clause): a WAL checkpoint keeps samples, exemplars and
// tombstones by timestamp only, while it drops the label record of a series that has left the head (garbage collection,
// stale-/selected-series eviction) once its in-memory expiry has passed or was forgotten by a restart; eviction
// tombstones are logged for refs whose label record sits in a segment that is truncated first. Such records refer to a
// series without a label record in the log. Replay counts them as unknown references and skips them.
const TagDroppedSeriesRecords = "wal-keeps-records-of-series-whose-label-record-was-dropped"

// archiveWAL copies the current WAL segment files (not the checkpoints) into the run's archive: the untruncated log.
// It is called whenever a new segment is created (truncateWAL starts a new segment before it checkpoints and deletes)
// and at every shutdown, so every segment is archived in its final state before a truncation can delete it.
func (e *exec) archiveWAL() {
	if e.walArchive == "" {
		e.walArchive = filepath.Join(e.root, "wal-archive")
		os.MkdirAll(e.walArchive, 0o777)
	}
	segs, _ := filepath.Glob(filepath.Join(e.dir, "wal", "0*"))
	for _, s := range segs {
		fi, err := os.Stat(s)
		if err != nil || fi.IsDir() || strings.HasSuffix(s, ".repair") {
			continue
		}
		b, err := os.ReadFile(s)
		if err != nil {
			continue
		}
		dst := filepath.Join(e.walArchive, filepath.Base(s))
		if old, err := os.ReadFile(dst); err == nil && len(old) > len(b) {
			continue // never replace an archived segment by a shorter one
		}
		os.WriteFile(dst, b, 0o666)
	}
}

// walTruncationCheck is the C15 oracle at a clean shutdown: a restart from the truncated log (last checkpoint plus
// remaining segments) returns what a restart from the retained untruncated log (every segment ever written, no
// checkpoint) returns, with the same blocks and head chunk files; and every record left in the truncated log refers to
// a series whose label record precedes it in replay order.
func (e *exec) walTruncationCheck(where string) {
	e.archiveWAL()
	cps, _ := filepath.Glob(filepath.Join(e.dir, "wal", "checkpoint.*"))
	if len(cps) == 0 {
		e.res.Count("shutdowns_without_checkpoint", 1)
	} else {
		e.res.Count("shutdowns_with_checkpoint", 1)
	}
	// reference-order clause on the log as it is
	view := walorder.ReadWAL(filepath.Join(e.dir, "wal"))
	e.res.Evals++
	if view.Err != nil {
		e.fail("wal-ref-order", "wal-unreadable", "%s: reading the WAL failed: %v", where, view.Err)
		return
	}
	_, orphans := walorder.RefOrder(view)
	hasRecord := map[uint64]bool{}
	cpHasRecord := map[uint64]bool{} // series records inside the checkpoint itself
	for _, en := range view.Entries {
		if en.What == "series" && en.InCP {
			cpHasRecord[en.Ref] = true
		}
		if en.What == "series" {
			hasRecord[en.Ref] = true
		} else {
			e.res.Count("wal_entries_checked", 1)
		}
	}
	// what the retained untruncated log says about the same entries: an entry that had its label record before it
	// there lost it to a truncation, even when the same ref number is issued again later in the log (listed finding:
	// refs are reissued after a snapshot restart)
	hadRecord := map[string]bool{}
	entryKey := func(en walorder.Entry) string {
		return fmt.Sprintf("%d/%s/%d/%d/%s", en.Seg, en.What, en.Ref, en.T, en.Key)
	}
	cpKey := func(en walorder.Entry) string {
		return fmt.Sprintf("cp/%s/%d/%d/%s", en.What, en.Ref, en.T, en.Key)
	}
	if len(orphans) > 0 {
		full := walorder.ReadWAL(e.walArchive)
		res, _ := walorder.RefOrder(full)
		for i, en := range full.Entries {
			if en.What != "series" && res[i] != "" {
				hadRecord[entryKey(en)] = true
				hadRecord[cpKey(en)] = true // a checkpoint re-writes the entry: its segment is not kept
			}
		}
	}
	var late, dropped []walorder.Orphan
	for _, o := range orphans {
		switch {
		case !hasRecord[o.Entry.Ref]:
			dropped = append(dropped, o) // no label record anywhere in the log
		case !o.Entry.InCP && hadRecord[entryKey(o.Entry)], o.Entry.InCP && hadRecord[cpKey(o.Entry)] && !cpHasRecord[o.Entry.Ref]:
			dropped = append(dropped, o) // its label record was dropped; the ref was issued again afterwards
			e.res.Count("orphans_of_a_reissued_ref", 1)
		default:
			late = append(late, o) // the label record exists but comes later in replay order
		}
	}
	if len(dropped) > 0 {
		// listed finding: records of series that left the head (garbage collection, eviction) stay in checkpoint and
		// segments after their label record was dropped; replay skips them as unknown references
		e.res.Count("tolerated:"+TagDroppedSeriesRecords, 1)
		if e.cfg.KF == TagDroppedSeriesRecords {
			e.fail("wal-ref-order", "known:"+TagDroppedSeriesRecords, "%s: %d entries refer to a series without any label record in the log, e.g. %s", where, len(dropped), dropped[0])
			return
		}
	}
	if len(late) > 0 {
		tainted := e.cfg.KF == TagOrphan
		for _, ms := range e.m.Series {
			if ms.OrphanTainted {
				tainted = true
			}
		}
		if !tainted {
			e.fail("wal-ref-order", "record-precedes-its-series-label-record", "%s: %d entries precede the label record of their series, e.g. %s", where, len(late), late[0])
			return
		}
		e.res.Count("tolerated:"+TagOrphan, 1)
		if e.cfg.KF == TagOrphan {
			e.fail("wal-ref-order", "known:"+TagOrphan, "%s: %d entries precede the label record of their series, e.g. %s", where, len(late), late[0])
			return
		}
	}
	if walRefReuse(e.dir) {
		// listed finding: after a snapshot restart the WAL reuses a series ref; no full replay of such a log is well defined
		e.res.Count("tolerated:"+TagRefReuseSnapshot, 1)
		return
	}
	if len(cps) == 0 {
		return // nothing was truncated: the two logs are the same
	}
	openAndQuery := func(dir string) (qresult, error) {
		db, _, err := e.open(dir)
		if err != nil {
			return nil, fmt.Errorf("open: %w", err)
		}
		defer db.Close()
		return querySamples(db, math.MinInt64, math.MaxInt64, allMatcher)
	}
	a := e.scratch("waltrunc")
	b := e.scratch("walfull")
	defer os.RemoveAll(a)
	defer os.RemoveAll(b)
	if err := simfs.CopyTree(e.dir, a); err != nil {
		panic("harness: " + err.Error())
	}
	if err := simfs.CopyTree(e.dir, b); err != nil {
		panic("harness: " + err.Error())
	}
	for _, d := range []string{a, b} {
		snaps, _ := filepath.Glob(filepath.Join(d, "chunk_snapshot.*"))
		for _, s := range snaps {
			os.RemoveAll(s) // both restarts replay their log
		}
	}
	os.RemoveAll(filepath.Join(b, "wal"))
	if err := simfs.CopyTree(e.walArchive, filepath.Join(b, "wal")); err != nil {
		panic("harness: " + err.Error())
	}
	if walRefReuse(b) {
		// once a truncation has dropped a label record its ref may be issued again: the concatenation of everything
		// ever logged is then not a log any single process could have written, and no reference exists
		e.res.Count("untruncated_log_has_reissued_refs", 1)
		return
	}
	got, err := openAndQuery(a)
	if err != nil {
		e.fail("wal-truncation", "truncated-log-open-failed", "%s: restart from the truncated log failed: %v", where, err)
		return
	}
	want, err := openAndQuery(b)
	if err != nil {
		e.fail("wal-truncation", "untruncated-log-open-failed", "%s: restart from the retained untruncated log failed: %v", where, err)
		return
	}
	e.res.Evals++
	e.res.Count("wal_truncation_comparisons", 1)
	if d, tag := e.diffModuloCandidates(want, got); d != "" {
		if tag != "" {
			e.res.Count("tolerated:"+tag, 1)
			if e.cfg.KF == tag {
				e.fail("wal-truncation", "known:"+tag, "%s: restart from checkpoint + remaining segments differs from restart from the untruncated log: %s", where, d)
			}
			return
		}
		if e.anyMultiRef() {
			// listed findings around duplicate series records (which only the untruncated log still holds)
			e.res.Count("tolerated:duplicate-series-ref-findings", 1)
			return
		}
		e.fail("wal-truncation", "truncated-log-replays-differently", "%s: restart from checkpoint + remaining segments differs from restart from the untruncated log: %s", where, d)
	}
}
