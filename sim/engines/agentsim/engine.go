package agentsim

import (
	"encoding/json"
	"testing"

	"verif/sim/core/runner"
)

// Engine adapts E8 to the runner.
type Engine struct{}

func (Engine) Name() string { return "agentsim" }

func (Engine) Runs(prop, tier string) int {
	n := 1200
	if tier == "thorough" {
		n *= 25
	}
	return n
}

func (Engine) Generate(prop, tier string, seed uint64) any { return Generate(prop, tier, seed) }

func (Engine) DecodePlan(b []byte) (any, error) {
	var p Plan
	if err := json.Unmarshal(b, &p); err != nil {
		return nil, err
	}
	return &p, nil
}

func (Engine) Execute(t *testing.T, prop string, plan any) *runner.Result {
	return Execute(t, prop, plan.(*Plan))
}

func (Engine) Shrink(plan any) []any {
	var out []any
	for _, p := range Shrink(plan.(*Plan)) {
		out = append(out, p)
	}
	return out
}
