package agentsim

import (
	"runtime/debug"
	"testing"

	"verif/sim/core/runner"
)

func TestSim(t *testing.T) {
	// every log decode and every replay allocates large read buffers; a lazier collector halves the run time
	debug.SetGCPercent(400)
	runner.Main(t, Engine{})
}
