#!/bin/bash
# determinism.sh [FROM TO] : runs the same seeds in fresh processes under GOMAXPROCS 1/4/16 (x REPS) and compares
# canonical trace hashes, verdicts, counters and evaluation counts. Prints DETERMINISTIC or the differing runs.
# env: BIN (dir with agentsim.test, default /verif/bin), REPS (default 5 per GOMAXPROCS value => 15 processes per chunk)
BIN=${BIN:-/verif/bin}
FROM=${1:-0}; TO=${2:-40}; REPS=${REPS:-5}
OUT=$(mktemp -d /dev/shm/verif-det.XXXXXX)
trap 'rm -rf "$OUT"' EXIT
n=0
for rep in $(seq 1 $REPS); do
  for p in 1 4 16; do
    n=$((n+1))
    GODEBUG=randautoseed=0,asyncpreemptoff=1 GOMAXPROCS=$p VERIF_SCRATCH=/dev/shm/verif-sim "$BIN/agentsim.test" -test.run '^TestSim$' -test.cpu 1 \
      -sim.prop C48 -sim.from "$FROM" -sim.to "$TO" -sim.trace -sim.out "$OUT/o$n.json" > "$OUT/l$n.log" 2>&1 &
    if [ $((n % 4)) -eq 0 ]; then wait; fi
  done
done
wait
python3 - "$OUT" "$n" <<'PY'
import json,sys
out,n=sys.argv[1],int(sys.argv[2])
ref=None; bad=0
for i in range(1,n+1):
    try: d=json.load(open("%s/o%d.json"%(out,i)))
    except Exception as e:
        print("process %d produced no output: %s"%(i,e)); bad+=1; continue
    key={"traces":d["traces"],"evals":d["evals"],"counters":d["counters"],"viol":[(v["run"],v["oracle"],v["signature"]) for v in (d["violations"] or [])],
         "keys":d["keys"],"state_keys":d["state_keys"],"nontrivial":d["nontrivial_runs"],"sim_ms":d["sim_time_ms"]}
    if ref is None: ref=key; continue
    if key!=ref:
        bad+=1
        for k in key:
            if key[k]!=ref[k]:
                if k=="traces":
                    diff=[r for r in key[k] if key[k][r]!=ref[k].get(r)]
                    print("process %d: traces differ for runs %s"%(i,diff[:10]))
                elif k=="counters":
                    print("process %d: counters differ: %s"%(i,{c:(key[k].get(c),ref[k].get(c)) for c in set(key[k])|set(ref[k]) if key[k].get(c)!=ref[k].get(c)}))
                else: print("process %d: %s differs"%(i,k))
print("%d processes, %d runs each, %d differing"%(n,len(ref["traces"]) if ref else 0,bad))
print("DETERMINISTIC" if bad==0 and ref else "NONDETERMINISTIC")
sys.exit(0 if bad==0 and ref else 1)
PY
