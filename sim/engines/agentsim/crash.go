package agentsim

import (
	"fmt"
	"os"
	"path/filepath"
	"sort"
	"strings"

	"github.com/prometheus/prometheus/tsdb/wlog"

	"verif/sim/core/simfs"
	"verif/sim/model/agentmodel"
)

func lastCheckpoint(dir string) (string, int, error) {
	return wlog.LastCheckpoint(filepath.Join(dir, "wal"))
}

// tornVariants derives torn-write images from a write image.
func (e *exec) tornVariants(im *image) []*image {
	if im.op != "write" || im.n <= 1 || e.cfg.Torn == 0 || im.end < int64(im.n) {
		return nil
	}
	// Process-kill model: a write to the page cache is only interrupted (by the fatal signal) between pages,
	// so a torn write ends on a 4 KiB boundary of the file. Writes within one page are atomic.
	const page = 4096
	var ks []int
	wstart := im.end - int64(im.n)
	for off := (wstart/page + 1) * page; off < im.end; off += page {
		ks = append(ks, int(off-wstart))
	}
	if e.cfg.Torn == 1 && len(ks) > 3 {
		ks = []int{ks[0], ks[len(ks)/2], ks[len(ks)-1]}
	}
	sort.Ints(ks)
	var out []*image
	prev := -1
	for _, k := range ks {
		if k <= 0 || k >= im.n || k == prev {
			continue
		}
		prev = k
		p := filepath.Join(im.dir, im.path)
		fi, err := os.Stat(p)
		if err != nil || fi.IsDir() || fi.Size() != im.end {
			continue // WAL segments are append-only and not preallocated; anything else is not torn here
		}
		e.imgSeq++
		v := &image{dir: filepath.Join(e.root, fmt.Sprintf("img%d", e.imgSeq)), site: im.site + "#torn", op: "torn", path: im.path, n: k, hit: im.hit}
		if err := simfs.CopyTree(im.dir, v.dir); err != nil {
			panic(fmt.Sprintf("harness: copy torn image: %v", err))
		}
		if err := os.Truncate(filepath.Join(v.dir, im.path), wstart+int64(k)); err != nil {
			panic(fmt.Sprintf("harness: %v", err))
		}
		e.res.Count("fault:torn-write", 1)
		out = append(out, v)
	}
	return out
}

// partialRemove derives a partial-removeall image: the hook fires before RemoveAll, so the image still has the tree.
func (e *exec) partialRemove(im *image) *image {
	if im.op != "removeall" {
		return nil
	}
	ents, err := os.ReadDir(filepath.Join(im.dir, im.path))
	if err != nil || len(ents) == 0 {
		return nil
	}
	e.imgSeq++
	v := &image{dir: filepath.Join(e.root, fmt.Sprintf("img%d", e.imgSeq)), site: im.site + "#partial", op: "partial-removeall", path: im.path, hit: im.hit}
	if err := simfs.CopyTree(im.dir, v.dir); err != nil {
		panic(fmt.Sprintf("harness: copy: %v", err))
	}
	k := 1 + e.rng.Intn(len(ents))
	for _, en := range ents[:k] {
		os.RemoveAll(filepath.Join(v.dir, im.path, en.Name()))
	}
	e.res.Count("fault:partial-removeall", 1)
	return v
}

// judgeImages recovers every crash image of op o and compares the recovered log with the model.
func (e *exec) judgeImages(o Op, imgs []*image, inflight []*agentmodel.Item) {
	var all []*image
	for _, im := range imgs {
		all = append(all, im)
		all = append(all, e.tornVariants(im)...)
		if v := e.partialRemove(im); v != nil {
			all = append(all, v)
		}
	}
	defer func() {
		for _, im := range all {
			if im != e.crashImg {
				os.RemoveAll(im.dir)
			}
		}
	}()
	for _, im := range all {
		if e.failed {
			return
		}
		e.judgeImage(o, im, inflight)
	}
}

func siteClass(s string) string {
	if i := strings.Index(s, "#"); i >= 0 {
		return s[:i]
	}
	return s
}

// judgeImage: the process is considered killed at that IO boundary. A new process opens the directory (replay and,
// if needed, repair), and the log it leaves must contain everything acknowledged before the kill that no truncation
// has released, nothing that was never committed, and every entry after its series record.
func (e *exec) judgeImage(o Op, im *image, inflight []*agentmodel.Item) {
	where := fmt.Sprintf("crash during op %d (%s) at IO hit %d %s(%s %s n=%d)", e.opIdx, o.K, im.hit, im.site, im.op, im.path, im.n)
	e.res.Count("images_judged", 1)
	e.res.StateKeys = append(e.res.StateKeys, im.site+"|"+layoutOf(im.dir))
	dir := im.dir
	if im == e.crashImg {
		// the judge works on its own copy when the image is needed later for the dirty restart
		dir = im.dir + ".judge"
		if err := simfs.CopyTree(im.dir, dir); err != nil {
			panic(fmt.Sprintf("harness: %v", err))
		}
		defer os.RemoveAll(dir)
	}
	db, err := e.open(dir)
	if err != nil {
		e.fail("crash-reopen", "reopen-failed:"+siteClass(im.site), "%s: reopen failed: %v", where, err)
		return
	}
	if err := db.Close(); err != nil {
		e.fail("crash-reopen", "close-after-reopen-failed", "%s: close after reopen failed: %v", where, err)
		return
	}
	e.checkWAL(dir, where, inflight)
}

// adoptCrash continues the run on a crash image (dirty restart): the process is considered killed at that IO
// boundary, everything in memory is gone, and the model keeps of the in-flight commit exactly what was recovered.
func (e *exec) adoptCrash(ci *image, o Op, inflight []*agentmodel.Item) {
	where := fmt.Sprintf("dirty restart at op %d (%s) on the image of IO hit %d %s", e.opIdx, o.K, ci.hit, ci.site)
	for _, s := range e.apps {
		s.open, s.v1, s.v2 = false, nil, nil // appenders die with the process
	}
	if e.db != nil {
		_ = e.db.Close() // the abandoned process; its directory is dropped
		e.db = nil
	}
	old := e.dir
	e.mu.Lock()
	e.dir = ci.dir
	e.crashImg = nil
	e.mu.Unlock()
	os.RemoveAll(old)
	if err := e.openMain(); err != nil {
		e.fail("crash-reopen", "reopen-failed:"+siteClass(ci.site), "%s: reopen failed: %v", where, err)
		return
	}
	cr := e.checkWAL(e.dir, where, inflight)
	if e.failed {
		return
	}
	// keep of the interrupted commit what recovery shows
	avail := map[string]int{}
	for k, refs := range cr.observed {
		avail[k] = len(refs)
	}
	in := map[*agentmodel.Item]bool{}
	for _, it := range inflight {
		in[it] = true
	}
	for _, it := range e.m.Items {
		if !in[it] {
			if mu, _ := it.Expect(); mu > 0 {
				avail[e.itemKey(it)]--
			}
		}
	}
	lost := 0
	for _, it := range inflight {
		k := e.itemKey(it)
		if avail[k] > 0 {
			avail[k]--
			continue
		}
		it.State = agentmodel.RolledBack
		lost++
	}
	if lost > 0 {
		e.m.Recompute()
		e.res.Count("inflight_items_lost", int64(lost))
	}
	e.res.Count("inflight_items_recovered", int64(len(inflight)-lost))
	e.tagDupRefs(e.dir)
	e.m.Restart()
	e.forgetProcess()
	e.restarts++
	e.res.Count("fault:dirty-restart", 1)
	fmt.Fprintf(&e.trace, "%d dirty-restart hit=%d lost=%d\n", e.opIdx, ci.hit, lost)
	e.afterOpen(where)
}
