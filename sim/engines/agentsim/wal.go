package agentsim

import (
	"github.com/prometheus/prometheus/model/histogram"
	"github.com/prometheus/prometheus/model/labels"

	"verif/sim/model/agentmodel"
	"verif/sim/model/walorder"
)

// The WAL decoding and the reference-order walk live in the hook-free package model/walorder so that other engines
// can use them (importing this package would install this engine's simulator hooks).

type (
	Entry  = walorder.Entry
	View   = walorder.View
	Orphan = walorder.Orphan
)

// ReadWAL decodes a WAL directory in replay order (last checkpoint, then the later segments).
func ReadWAL(walDir string) *View { return walorder.ReadWAL(walDir) }

// RefOrder resolves every data entry to the label set of the latest earlier series record for its reference.
func RefOrder(v *View) ([]string, []Orphan) { return walorder.RefOrder(v) }

// CheckRefOrder is the agent half of C15 as a stand-alone function: one line per sample, histogram, exemplar,
// metadata or tombstone entry of walDir (checkpoint + later segments, replay order) that refers to a series whose
// label record does not precede it. Engines that must not load agentsim's hooks call walorder.CheckRefOrder.
func CheckRefOrder(walDir string) (violations []string, entries int, err error) {
	return walorder.CheckRefOrder(walDir)
}

func valueKeyFloat(v float64, st int64) string                   { return walorder.KeyFloat(v, st) }
func valueKeyHist(h *histogram.Histogram, st int64) string       { return walorder.KeyHist(h, st) }
func valueKeyFHist(h *histogram.FloatHistogram, st int64) string { return walorder.KeyFHist(h, st) }
func valueKeyExemplar(v float64, l labels.Labels) string         { return walorder.KeyExemplar(v, l) }
func whatOf(k agentmodel.Kind) string                            { return k.String() }
func layoutOf(dir string) string                                 { return walorder.Layout(dir) }
