package agentsim

import (
	"context"
	"errors"
	"fmt"
	"log/slog"
	"math"
	"os"
	"path/filepath"
	"runtime/debug"
	"sort"
	"strings"
	"sync"
	"testing"
	"testing/synctest"
	"time"

	"github.com/prometheus/common/model"

	"github.com/prometheus/prometheus/model/exemplar"
	"github.com/prometheus/prometheus/model/histogram"
	"github.com/prometheus/prometheus/model/labels"
	"github.com/prometheus/prometheus/model/metadata"
	"github.com/prometheus/prometheus/model/value"
	"github.com/prometheus/prometheus/storage"
	"github.com/prometheus/prometheus/storage/remote"
	"github.com/prometheus/prometheus/tsdb/agent"
	"github.com/prometheus/prometheus/util/compression"
	"github.com/prometheus/prometheus/util/simhook"

	"verif/sim/core/prng"
	"verif/sim/core/runner"
	"verif/sim/core/simfs"
	"verif/sim/model/agentmodel"
	"verif/sim/model/histgen"
)

// scratchRoot is where simulated data directories live (tmpfs); removed per run.
func scratchRoot() string {
	base := os.Getenv("VERIF_SCRATCH")
	if base == "" {
		base = "/dev/shm/verif-sim"
	}
	return filepath.Join(base, fmt.Sprintf("p%d", os.Getpid()))
}

var debugOn = os.Getenv("VERIF_DEBUG") != ""

type slot struct {
	open bool
	v1   storage.Appender
	v2   storage.AppenderV2
}

type image struct {
	dir      string
	site, op string
	path     string // path of the touched file relative to data dir
	n        int
	end      int64 // file size right after the write (write ops)
	hit      int
}

type exec struct {
	t    *testing.T
	prop string
	plan *Plan
	cfg  Config
	res  *runner.Result
	rng  *prng.R // harness-side choices (image reservoir); never influences the system under test

	root string
	dir  string
	db   *agent.DB
	rs   *remote.Storage

	m      *agentmodel.Model
	lsets  []labels.Labels
	lstr   []string
	apps   [3]*slot
	refs   []storage.SeriesRef
	hist   []histgen.State
	lastEx []*exemplar.Exemplar // last exemplar offered per series (for the "repeat" exemplar kind)
	uniq   int64
	// creator[s] = slot+1 of the open appender that created series s in memory and has not yet logged its series
	// record (its Commit or Rollback does that); 0 if none.
	creator []int
	queues  [2]int64 // highest sent timestamp of the stand-in queues, seconds; -1 = queue absent

	start    int64 // fake clock at the beginning of the run, ms
	nextFire int64 // fake-clock instant of the next truncation-loop wake-up, ms
	opIdx    int
	kinds    []string
	trace    strings.Builder

	truncs, checkpoints, restarts, gcs int
	lastCP                             int

	// crash machinery
	mu         sync.Mutex
	collecting bool
	images     []*image
	hits       int
	imgSeq     int
	crashArm   int    // >0: arm crashAt for the next mutating op
	crashAt    int    // >0: continue on the image of this IO hit after the current op
	crashImg   *image // image selected for a dirty restart

	failed bool
}

// ---- simhook.Simulator ----

type hookT struct {
	mu sync.Mutex
	e  *exec
}

var theHook = &hookT{}

func init() { simhook.Install(theHook) }

func (h *hookT) cur() *exec {
	h.mu.Lock()
	defer h.mu.Unlock()
	return h.e
}

func (h *hookT) set(e *exec) {
	h.mu.Lock()
	h.e = e
	h.mu.Unlock()
}
func (h *hookT) Yield(string, ...int)     {}
func (h *hookT) Acquire(string, bool)     {}
func (h *hookT) Release(string, bool)     {}
func (h *hookT) Event(string, ...any)     {}
func (h *hookT) ID16(b [16]byte) [16]byte { return b }
func (h *hookT) IO(op, site, path string, n int) {
	if e := h.cur(); e != nil {
		e.onIO(op, site, path, n)
	}
}

// onIO is called synchronously from the goroutine doing the file operation: the workload task, or the
// truncation loop while the workload task sleeps on the fake clock. Nothing else runs at that moment.
func (e *exec) onIO(op, site, path string, n int) {
	e.mu.Lock()
	defer e.mu.Unlock()
	if !strings.HasPrefix(path, e.dir+"/") {
		return
	}
	rel := path[len(e.dir)+1:]
	e.res.Count("io:"+site, 1)
	if !e.collecting {
		return
	}
	e.hits++
	take := false
	replace := -1
	if e.crashAt > 0 && e.hits == e.crashAt {
		take = true
	} else if len(e.images) < e.cfg.ImgCap {
		take = true
	} else {
		// reservoir sampling over the hits of this op, decided by the harness-side PRNG
		j := e.rng.Intn(e.hits)
		if j < e.cfg.ImgCap && e.images[j] != e.crashImg {
			take, replace = true, j
		}
	}
	if !take {
		return
	}
	e.imgSeq++
	img := &image{dir: filepath.Join(e.root, fmt.Sprintf("img%d", e.imgSeq)), site: site, op: op, path: rel, n: n, hit: e.hits}
	if op == "write" {
		if fi, err := os.Stat(path); err == nil {
			img.end = fi.Size()
		}
	}
	if err := simfs.CopyTree(e.dir, img.dir); err != nil {
		panic(fmt.Sprintf("harness: copy image: %v", err))
	}
	e.res.Count("fault:kill@io", 1)
	if e.crashAt > 0 && e.hits == e.crashAt {
		e.crashImg = img
	}
	if replace >= 0 {
		os.RemoveAll(e.images[replace].dir)
		e.images[replace] = img
	} else {
		e.images = append(e.images, img)
	}
}

// ---- setup ----

func seriesLabels(i int) labels.Labels {
	if i%2 == 1 {
		return labels.FromStrings("__name__", "m", "s", fmt.Sprint(i), "job", "b")
	}
	return labels.FromStrings("__name__", "m", "s", fmt.Sprint(i), "job", "a")
}

func (e *exec) buildOpts() *agent.Options {
	c := e.cfg
	o := agent.DefaultOptions()
	o.WALSegmentSize = c.SegKB * 1024
	switch c.Comp {
	case "snappy":
		o.WALCompression = compression.Snappy
	case "zstd":
		o.WALCompression = compression.Zstd
	default:
		o.WALCompression = compression.None
	}
	o.StripeSize = c.Stripe
	o.TruncateFrequency = time.Duration(c.FreqS) * time.Second
	o.MinWALTime = c.MinWAL
	o.MaxWALTime = c.MaxWAL
	o.NoLockfile = true
	o.OutOfOrderTimeWindow = c.OOO
	o.EnableSTAsZeroSample = c.STZero
	o.EnableSTStorage = c.STStore
	o.CheckpointFromInMemorySeries = c.CPInMem
	o.CheckpointBatchSize = c.CPBatch
	return o
}

var nopLogger = slog.New(slog.DiscardHandler)

func nowMs() int64 { return time.Now().UnixMilli() }

func (e *exec) open(dir string) (*agent.DB, error) {
	db, err := agent.Open(nopLogger, nil, e.rs, dir, e.buildOpts())
	if err != nil {
		return nil, err
	}
	synctest.Wait() // the truncation loop has reached its timer
	return db, nil
}

func (e *exec) openMain() error {
	db, err := e.open(e.dir)
	if err != nil {
		return err
	}
	e.db = db
	e.nextFire = nowMs() + e.cfg.FreqS*1000
	return nil
}

// ---- the stand-in remote storage ----

func qname(i int) string { return fmt.Sprintf("simq%d", i) }

func (e *exec) setQueue(i int, sec int64) {
	if sec < 0 {
		if e.queues[i] >= 0 {
			e.rs.SimRemoveQueue(qname(i))
		}
		e.queues[i] = -1
		return
	}
	e.rs.SimSetSentTimestamp(qname(i), float64(sec))
	e.queues[i] = sec
}

// lowestSent is the model's reading of "the lowest sent timestamp across all queues" (ms; 0 without queues).
func (e *exec) lowestSent() int64 {
	lowest := int64(math.MaxInt64)
	n := 0
	for _, q := range e.queues {
		if q >= 0 {
			n++
			if q*1000 < lowest {
				lowest = q * 1000
			}
		}
	}
	if n == 0 {
		return 0
	}
	return lowest
}

// truncTime is the truncation time of a timer-driven truncation at fake-clock instant at, from the documentation
// of agent.Options: data is kept for MinWALTime after the remote write queues have sent it (never before time 0),
// but not longer than MaxWALTime.
func (e *exec) truncTime(at int64) int64 {
	ts := e.lowestSent() - e.cfg.MinWAL
	if ts < 0 {
		ts = 0
	}
	if oldest := at - e.cfg.MaxWAL; ts < oldest {
		ts = oldest
	}
	return ts
}

// ---- time resolution ----

func (e *exec) resolveT(o Op) int64 {
	sr := e.m.Series[o.S%e.cfg.NSeries]
	now := nowMs()
	base := now
	switch o.TB {
	case "slast":
		if sr.HasAll {
			base = sr.LastAll
		}
	case "oooe":
		switch {
		case sr.HasCur:
			base = sr.LastCur - e.cfg.OOO
		case sr.HasAll:
			base = sr.LastAll - e.cfg.OOO
		}
	case "mint":
		if e.m.HasMint {
			base = e.m.LastMint
		}
	case "nmint":
		base = e.truncTime(e.nextFire)
	}
	return base + o.TO*e.cfg.Step + o.TF
}

func (e *exec) fail(oracle, sig, format string, a ...any) {
	if e.failed {
		return
	}
	e.res.Violate(e.prop, oracle, sig, format, a...)
	e.failed = true
}

// ---- Execute ----

// Execute runs one plan. Must be called inside a synctest bubble.
func Execute(t *testing.T, prop string, plan *Plan) (res *runner.Result) {
	res = &runner.Result{Counters: map[string]int64{}}
	e := &exec{t: t, prop: prop, plan: plan, cfg: plan.Cfg, res: res, lastCP: -1}
	e.rng = prng.New(prng.DeriveS(plan.Cfg.Seed, "oracle"))
	e.root = filepath.Join(scratchRoot(), fmt.Sprintf("r%x", plan.Cfg.Seed))
	os.RemoveAll(e.root)
	if err := os.MkdirAll(e.root, 0o777); err != nil {
		panic("harness: " + err.Error())
	}
	defer os.RemoveAll(e.root)
	e.dir = filepath.Join(e.root, "data0")
	e.start = nowMs()
	if e.cfg.NSeries < 1 {
		e.cfg.NSeries = 1
	}
	for i := 0; i < e.cfg.NSeries; i++ {
		l := seriesLabels(i)
		e.lsets = append(e.lsets, l)
		e.lstr = append(e.lstr, l.String())
	}
	e.m = agentmodel.New(e.lstr, e.cfg.OOO)
	e.refs = make([]storage.SeriesRef, e.cfg.NSeries)
	e.hist = make([]histgen.State, e.cfg.NSeries)
	e.lastEx = make([]*exemplar.Exemplar, e.cfg.NSeries)
	e.creator = make([]int, e.cfg.NSeries)
	for i := range e.apps {
		e.apps[i] = &slot{}
	}
	e.queues = [2]int64{-1, -1}
	e.rs = remote.NewStorage(nopLogger, nil, func() (int64, error) { return 0, nil }, e.root, time.Second, nil, false)
	theHook.set(e)
	defer theHook.set(nil)
	defer func() {
		if r := recover(); r != nil {
			msg := fmt.Sprint(r)
			if strings.HasPrefix(msg, "harness:") {
				panic(r)
			}
			st := string(debug.Stack())
			if !strings.Contains(st, "prometheus/prometheus") {
				panic(fmt.Sprintf("harness: panic outside Prometheus code: %v\n%s", r, st))
			}
			res.Violate(prop, "panic", "panic", "panic during op %d: %v\n%s", e.opIdx, r, trimStack(st))
		}
		e.shutdown()
		e.finish()
	}()
	for i := 0; i < e.cfg.Queues && i < 2; i++ {
		e.setQueue(i, e.start/1000-e.cfg.Lag0)
	}
	if err := e.openMain(); err != nil {
		e.fail("open", "open-error", "initial open failed: %v", err)
		return res
	}
	e.checkQueries("after the initial open")
	for i, op := range plan.Ops {
		e.opIdx = i
		e.step(op)
		if e.failed {
			break
		}
	}
	if !e.failed {
		// finish like a clean shutdown: open appenders are rolled back, the closed log is judged once more
		e.opIdx = len(plan.Ops)
		for i, s := range e.apps {
			if s.open {
				e.step(Op{K: "rollback", Slot: i})
			}
		}
		if !e.failed {
			if err := e.db.Close(); err != nil {
				e.fail("close", "close-error", "final close failed: %v", err)
			}
			e.db = nil
			if !e.failed {
				e.checkWAL(e.dir, "after the final close", nil)
			}
		}
	}
	return res
}

// shutdown stops everything that still runs so that the bubble can end.
func (e *exec) shutdown() {
	for _, s := range e.apps {
		if s.open {
			func() {
				defer func() { recover() }()
				if s.v1 != nil {
					s.v1.Rollback()
				} else {
					s.v2.Rollback()
				}
			}()
			s.open = false
		}
	}
	if e.db != nil {
		func() {
			defer func() { recover() }()
			e.db.Close()
		}()
		e.db = nil
	}
	for i := range e.queues {
		e.setQueue(i, -1)
	}
	e.rs.Close()
}

func trimStack(s string) string {
	lines := strings.Split(s, "\n")
	var keep []string
	for _, l := range lines {
		if strings.Contains(l, "prometheus/prometheus") {
			keep = append(keep, strings.TrimSpace(l))
		}
		if len(keep) >= 8 {
			break
		}
	}
	return strings.Join(keep, "\n")
}

func (e *exec) finish() {
	r := e.res
	r.SimTimeMs = nowMs() - e.start
	committed, must, drop := e.m.Counts()
	r.Key = fmt.Sprintf("%s|t%d.c%d.g%d.r%d", strings.Join(e.kinds, ","), e.truncs, e.checkpoints, e.gcs, e.restarts)
	r.NonTrivial = e.checkpoints > 0 && committed > 0 && e.res.Counters["wal_checks"] > 0
	r.Trace = e.trace.String()
	sample := map[string]any{"seed": e.cfg.Seed, "config": e.cfg, "ops": len(e.plan.Ops), "op_kinds": strings.Join(e.kinds, ","),
		"committed_items": committed, "must_keep_items": must, "droppable_items": drop,
		"truncations": e.truncs, "checkpoints": e.checkpoints, "series_collected": e.gcs, "restarts": e.restarts}
	if n := len(e.plan.Ops); n > 0 {
		if n > 12 {
			n = 12
		}
		sample["first_ops"] = e.plan.Ops[:n]
	}
	r.Sample = sample
}

// ---- appenders ----

func (e *exec) openSlot(i int) *slot {
	s := e.apps[i]
	if s.open {
		return s
	}
	if e.cfg.V2 {
		s.v1, s.v2 = nil, e.db.AppenderV2(context.Background())
	} else {
		s.v1, s.v2 = e.db.Appender(context.Background()), nil
	}
	s.open = true
	e.res.Count("appenders_opened", 1)
	return s
}

type sampleVal struct {
	kind agentmodel.Kind
	f    float64
	h    *histogram.Histogram
	fh   *histogram.FloatHistogram
}

func (v sampleVal) key(st int64) string {
	switch v.kind {
	case agentmodel.KHist:
		return valueKeyHist(v.h, st)
	case agentmodel.KFHist:
		return valueKeyFHist(v.fh, st)
	}
	return valueKeyFloat(v.f, st)
}

func (e *exec) mkValue(o Op, series int) sampleVal {
	e.uniq++
	u := float64(int64(series+1)*10_000_000 + e.uniq)
	switch o.VK {
	case 1, 2:
		r := prng.New(prng.Derive(o.HS, uint64(series)))
		h, fh := e.hist[series].Next(r, o.HM, u, o.VK == 2)
		if h != nil {
			return sampleVal{kind: agentmodel.KHist, h: h}
		}
		return sampleVal{kind: agentmodel.KFHist, fh: fh}
	case 3:
		return sampleVal{kind: agentmodel.KFloat, f: math.Float64frombits(value.StaleNaN)}
	}
	return sampleVal{kind: agentmodel.KFloat, f: u}
}

func (e *exec) mkExemplar(o Op, series int, t int64) exemplar.Exemplar {
	switch o.EK {
	case 1:
		if p := e.lastEx[series]; p != nil {
			return *p
		}
	case 2:
		e.uniq++
		return exemplar.Exemplar{Labels: labels.FromStrings("trace_id", strings.Repeat("x", 140)), Value: float64(e.uniq), Ts: t, HasTs: true}
	}
	e.uniq++
	return exemplar.Exemplar{Labels: labels.FromStrings("trace_id", fmt.Sprintf("t%d", e.uniq)), Value: float64(int64(series+1)*10_000_000 + e.uniq), Ts: t, HasTs: true}
}

// exIdent identifies an exemplar for the "repeat of the previous exemplar of the series" rule.
func exIdent(x exemplar.Exemplar) string {
	return fmt.Sprintf("%s@%d", valueKeyExemplar(x.Value, x.Labels), x.Ts)
}

func exemplarTooLong(x exemplar.Exemplar) bool {
	n := 0
	x.Labels.Range(func(l labels.Label) { n += len([]rune(l.Name)) + len([]rune(l.Value)) })
	return n > exemplar.ExemplarMaxLabelSetLength
}

// noteRef checks what an appender returned as the series reference of label set s.
func (e *exec) noteRef(s int, ref storage.SeriesRef, where string) {
	sr := e.m.Series[s]
	if ref == 0 {
		e.fail("series-ref", "zero-ref", "%s: accepted append for %s returned reference 0", where, sr.Labels)
		return
	}
	for i, o := range e.m.Series {
		if i != s && o.RefKnown && o.Ref == uint64(ref) {
			e.fail("series-ref", "ref-shared", "%s: reference %d returned for %s is the reference of %s", where, ref, sr.Labels, o.Labels)
			return
		}
	}
	if sr.RefKnown && sr.Ref != uint64(ref) {
		e.fail("series-ref", "ref-changed", "%s: live series %s changed its reference from %d to %d", where, sr.Labels, sr.Ref, ref)
		return
	}
	sr.Ref, sr.RefKnown = uint64(ref), true
	e.refs[s] = ref
}

func (e *exec) doAdd(o Op) {
	s := o.S % e.cfg.NSeries
	o.S = s
	t := e.resolveT(o)
	n := o.Rep
	if n < 1 {
		n = 1
	}
	for i := 0; i < n && !e.failed; i++ {
		oo := o
		if i > 0 {
			oo.VK, oo.NE, oo.STO, oo.MD = 0, 0, 0, false
		}
		e.addOne(oo, s, t+int64(i))
	}
}

// steerSlot keeps the input pattern of known finding TagSampleBeforeSeries out of ordinary runs: data for a series
// whose record is still pending in another open appender goes through that appender.
func (e *exec) steerSlot(slotIdx, s int) int {
	if c := e.creator[s]; c != 0 && c-1 != slotIdx && e.apps[c-1].open {
		if e.cfg.KF != TagSampleBeforeSeries {
			e.res.Count("steered:"+TagSampleBeforeSeries, 1)
			return c - 1
		}
	}
	return slotIdx
}

func (e *exec) addOne(o Op, s int, t int64) {
	slotIdx := e.steerSlot(o.Slot%3, s)
	sl := e.openSlot(slotIdx)
	sr := e.m.Series[s]
	where := fmt.Sprintf("op %d (add %s t=%d)", e.opIdx, sr.Labels, t)
	v := e.mkValue(o, s)
	var ref storage.SeriesRef
	if o.Ref == 1 {
		ref = e.refs[s]
	}
	verdict := e.m.Admit(s, t)
	rej := o.Rej && e.cfg.KF == TagIgnoresRejectOOO
	rejMust := rej && sr.HasCur && t < sr.LastCur // the caller demands rejection of an out-of-order append
	var (
		got storage.SeriesRef
		err error
		st  int64
		exs []exemplar.Exemplar
	)
	if rej && !e.cfg.V2 {
		sl.v1.SetOptions(&storage.AppendOptions{DiscardOutOfOrder: true})
		defer sl.v1.SetOptions(nil)
	}
	if e.cfg.V2 {
		if o.STO > 0 {
			st = t - o.STO
		}
		opts := storage.AOptions{RejectOutOfOrder: rej}
		if o.MD {
			opts.Metadata = metadata.Metadata{Type: model.MetricTypeGauge, Unit: "u", Help: fmt.Sprintf("help %d", e.opIdx)}
			opts.MetricFamilyName = "m"
		}
		if o.VK != 3 {
			for i := 0; i < o.NE; i++ {
				x := e.mkExemplar(o, s, t)
				if x.Ts > t && e.cfg.KF != TagCheckpointOrphans {
					x.Ts = t // not newer than the sample it is attached to (known finding TagCheckpointOrphans)
				}
				exs = append(exs, x)
			}
			sort.SliceStable(exs, func(i, j int) bool { return exs[i].Ts < exs[j].Ts })
			opts.Exemplars = append([]exemplar.Exemplar(nil), exs...)
		}
		got, err = sl.v2.Append(ref, e.lsets[s], st, t, v.f, v.h, v.fh, opts)
	} else {
		switch v.kind {
		case agentmodel.KFloat:
			got, err = sl.v1.Append(ref, e.lsets[s], t, v.f)
		default:
			got, err = sl.v1.AppendHistogram(ref, e.lsets[s], t, v.h, v.fh)
		}
	}
	var perr *storage.AppendPartialError
	accepted := err == nil
	switch {
	case err == nil:
	case errors.Is(err, storage.ErrOutOfOrderSample):
	case errors.As(err, &perr):
		accepted = true
	default:
		e.fail("append-error", "unexpected-error", "%s: unexpected error %v (model: %s)", where, err, verdict)
		return
	}
	e.res.Evals++
	e.res.Count("append_decisions", 1)
	fmt.Fprintf(&e.trace, "%d add s%d t%d k%d acc=%v ref=%d\n", e.opIdx, s, t, v.kind, accepted, got)
	if debugOn {
		fmt.Printf("DBG   add s%d t=%d kind=%s st=%d -> ref=%d err=%v (model %s, lastCur=%v/%d lastAll=%v/%d)\n", s, t, v.kind, st, got, err, verdict, sr.HasCur, sr.LastCur, sr.HasAll, sr.LastAll)
	}
	switch {
	case rejMust && accepted:
		e.fail("admission", "known:"+TagIgnoresRejectOOO, "%s: accepted although the caller set RejectOutOfOrder / DiscardOutOfOrder and the append is out of order (series' last written sample %s): \"An OOO append MUST be rejected with storage.ErrOutOfOrderSample\" KNOWN[%s]",
			where, lastStr(sr), TagIgnoresRejectOOO)
		return
	case verdict == agentmodel.MustAccept && !accepted && !rej:
		e.fail("admission", "rejected-newer-sample", "%s: rejected with %v although it is newer than the series' last written sample (%s) minus the out-of-order window %d",
			where, err, lastStr(sr), e.cfg.OOO)
		return
	case verdict == agentmodel.MustReject && accepted:
		e.fail("admission", "accepted-too-old-sample", "%s: accepted although it is not newer than the series' last written sample (%s) minus the out-of-order window %d",
			where, lastStr(sr), e.cfg.OOO)
		return
	case verdict == agentmodel.MayEither:
		e.res.Count("admission_may_either", 1)
	}
	keySt := int64(0)
	if e.cfg.STStore {
		keySt = st
	}
	if !accepted {
		e.res.Count("ooo_rejected", 1)
		e.m.Add(slotIdx, s, v.kind, t, v.key(keySt), 0, false)
		for _, x := range exs {
			e.m.Add(slotIdx, s, agentmodel.KExemplar, x.Ts, valueKeyExemplar(x.Value, x.Labels), 0, false)
		}
		return
	}
	if sr.HasCur && t <= sr.LastCur {
		e.res.Count("ooo_accepted_in_window", 1)
	}
	created := !sr.InMem
	if created {
		e.res.Count("series_created", 1)
		e.creator[s] = slotIdx + 1
	}
	risk := ""
	if c := e.creator[s]; c != 0 && c-1 != slotIdx {
		risk = TagSampleBeforeSeries // only reachable in runs that are allowed to exercise it
	}
	mark := len(e.m.Items)
	defer func() {
		for _, it := range e.m.Items[mark:] {
			if it.State == agentmodel.Pending && it.Risk == "" {
				it.Risk = risk
			}
		}
	}()
	e.noteRef(s, got, where)
	if e.failed {
		return
	}
	if e.cfg.V2 && e.cfg.STZero && st != 0 && st < t {
		// documented as best effort: a zero sample at the start timestamp may precede the sample
		z := e.m.Add(slotIdx, s, v.kind, st, "zero", uint64(got), true)
		z.Optional = true
	}
	e.m.Add(slotIdx, s, v.kind, t, v.key(keySt), uint64(got), true)
	nbad := 0
	for i := range exs {
		x := exs[i]
		key := valueKeyExemplar(x.Value, x.Labels)
		if exemplarTooLong(x) {
			nbad++
			e.m.Add(slotIdx, s, agentmodel.KExemplar, x.Ts, key, 0, false)
			continue
		}
		it := e.m.Add(slotIdx, s, agentmodel.KExemplar, x.Ts, key, uint64(got), true)
		if sr.LastEx == exIdent(x) {
			it.Optional = true // "Duplicate exemplars errors MUST be ignored by implementations"
			e.res.Count("exemplar_repeats", 1)
		}
		sr.LastEx = exIdent(x)
		e.lastEx[s] = &exs[i]
		e.res.Count("exemplars_offered", 1)
	}
	nerr := 0
	if perr != nil {
		nerr = len(perr.ExemplarErrors)
	}
	if nerr != nbad {
		e.fail("exemplar", "partial-error-mismatch", "%s: %d invalid exemplars attached, but the appender reported %d exemplar errors (%v)", where, nbad, nerr, err)
	}
}

func lastStr(sr *agentmodel.Series) string {
	if !sr.HasAll {
		return "none"
	}
	if sr.HasCur {
		return fmt.Sprintf("t=%d", sr.LastCur)
	}
	return fmt.Sprintf("t=%d, series since garbage collected", sr.LastAll)
}

// doEx appends exemplars through the v1 interface.
func (e *exec) doEx(o Op) {
	if e.cfg.V2 {
		return
	}
	s := o.S % e.cfg.NSeries
	o.S = s
	slotIdx := e.steerSlot(o.Slot%3, s)
	sl := e.openSlot(slotIdx)
	sr := e.m.Series[s]
	t := e.resolveT(o)
	if e.cfg.KF != TagCheckpointOrphans {
		// an exemplar newer than every sample of its series would outlive the series at a truncation (known finding)
		has, newest := sr.HasCur, sr.LastCur
		for _, it := range e.m.PendingOf(slotIdx) {
			if it.Series == s && it.Kind != agentmodel.KExemplar && (!has || it.T > newest) {
				has, newest = true, it.T
			}
		}
		if !has {
			e.res.Count("steered:"+TagCheckpointOrphans+":exemplar-without-sample", 1)
			return
		}
		if t > newest {
			e.res.Count("steered:"+TagCheckpointOrphans+":exemplar-newer-than-samples", 1)
			t = newest
		}
	}
	for i := 0; i < o.NE && !e.failed; i++ {
		x := e.mkExemplar(o, s, t)
		if x.Ts > t {
			x.Ts = t // a repeated exemplar keeps its own timestamp; see the steering above
		}
		key := valueKeyExemplar(x.Value, x.Labels)
		ref := e.refs[s]
		got, err := sl.v1.AppendExemplar(ref, e.lsets[s], x)
		where := fmt.Sprintf("op %d (exemplar %s t=%d)", e.opIdx, sr.Labels, x.Ts)
		fmt.Fprintf(&e.trace, "%d ex s%d t%d ref=%d err=%v\n", e.opIdx, s, x.Ts, got, err != nil)
		e.res.Evals++
		switch {
		case err != nil:
			if !exemplarTooLong(x) && sr.InMem && sr.RefKnown && uint64(ref) == sr.Ref {
				e.fail("exemplar", "valid-exemplar-refused", "%s: valid exemplar for live series (ref %d) refused: %v", where, ref, err)
				return
			}
			e.m.Add(slotIdx, s, agentmodel.KExemplar, x.Ts, key, 0, false)
		case got == 0:
			// dropped without error: only legitimate for a repeat of the previous exemplar of the series
			if sr.LastEx != exIdent(x) {
				e.fail("exemplar", "dropped-non-duplicate", "%s: exemplar silently dropped although it does not repeat the previous exemplar of the series", where)
				return
			}
			e.res.Count("exemplar_repeats", 1)
			e.m.Add(slotIdx, s, agentmodel.KExemplar, x.Ts, key, 0, false).State = agentmodel.RolledBack
		default:
			if exemplarTooLong(x) {
				e.fail("exemplar", "invalid-exemplar-accepted", "%s: exemplar with a label set longer than %d accepted", where, exemplar.ExemplarMaxLabelSetLength)
				return
			}
			it := e.m.Add(slotIdx, s, agentmodel.KExemplar, x.Ts, key, uint64(got), true)
			if sr.LastEx == exIdent(x) {
				it.Optional = true
			}
			sr.LastEx = exIdent(x)
			xx := x
			e.lastEx[s] = &xx
			e.res.Count("exemplars_offered", 1)
		}
	}
}

func (e *exec) doMeta(o Op) {
	if e.cfg.V2 {
		return
	}
	s := o.S % e.cfg.NSeries
	sl := e.openSlot(o.Slot % 3)
	_, err := sl.v1.UpdateMetadata(e.refs[s], e.lsets[s], metadata.Metadata{Type: model.MetricTypeCounter, Unit: "u", Help: fmt.Sprintf("help %d", e.opIdx)})
	if err != nil {
		e.fail("append-error", "metadata-error", "op %d: UpdateMetadata failed: %v", e.opIdx, err)
	}
}

func (e *exec) doCommit(i int) {
	sl := e.apps[i]
	if !sl.open {
		return
	}
	var err error
	if sl.v1 != nil {
		err = sl.v1.Commit()
	} else {
		err = sl.v2.Commit()
	}
	sl.open, sl.v1, sl.v2 = false, nil, nil
	if err != nil {
		e.fail("commit-error", "commit-error", "op %d: Commit failed: %v", e.opIdx, err)
		return
	}
	its := e.m.Commit(i)
	e.creatorDone(i)
	e.res.Count("commits", 1)
	e.res.Count("items_committed", int64(len(its)))
	fmt.Fprintf(&e.trace, "%d commit slot%d n=%d\n", e.opIdx, i, len(its))
}

func (e *exec) doRollback(i int) {
	sl := e.apps[i]
	if !sl.open {
		return
	}
	var err error
	if sl.v1 != nil {
		err = sl.v1.Rollback()
	} else {
		err = sl.v2.Rollback()
	}
	sl.open, sl.v1, sl.v2 = false, nil, nil
	if err != nil {
		e.fail("commit-error", "rollback-error", "op %d: Rollback failed: %v", e.opIdx, err)
		return
	}
	its := e.m.Rollback(i)
	e.creatorDone(i)
	e.res.Count("rollbacks", 1)
	e.res.Count("items_rolled_back", int64(len(its)))
	fmt.Fprintf(&e.trace, "%d rollback slot%d n=%d\n", e.opIdx, i, len(its))
}

func (e *exec) creatorDone(i int) {
	for s, c := range e.creator {
		if c == i+1 {
			e.creator[s] = 0
		}
	}
}

// forgetProcess drops what only lives in one process lifetime.
func (e *exec) forgetProcess() {
	for i := range e.refs {
		e.refs[i] = 0
		e.creator[i] = 0
	}
}

// ---- queries ----

func (e *exec) checkQueries(where string) {
	e.res.Evals++
	q, err := e.db.Querier(math.MinInt64, math.MaxInt64)
	if q != nil || !errors.Is(err, agent.ErrUnsupported) {
		e.fail("no-queries", "querier", "%s: Querier returned (%v, %v), want the unsupported-operation error", where, q, err)
	}
	cq, err := e.db.ChunkQuerier(0, nowMs())
	if cq != nil || !errors.Is(err, agent.ErrUnsupported) {
		e.fail("no-queries", "chunk-querier", "%s: ChunkQuerier returned (%v, %v), want the unsupported-operation error", where, cq, err)
	}
	eq, err := e.db.ExemplarQuerier(context.Background())
	if eq != nil || !errors.Is(err, agent.ErrUnsupported) {
		e.fail("no-queries", "exemplar-querier", "%s: ExemplarQuerier returned (%v, %v), want the unsupported-operation error", where, eq, err)
	}
}

// probe checks the admission rule at its edge for every series with a written sample, through a throw-away
// appender that is rolled back (so it must leave nothing in the log either).
func (e *exec) probe(where string) {
	const probeSlot = 9
	alive := e.m.AliveSeries()
	if len(alive) == 0 {
		return
	}
	var v1 storage.Appender
	var v2 storage.AppenderV2
	if e.cfg.V2 {
		v2 = e.db.AppenderV2(context.Background())
	} else {
		v1 = e.db.Appender(context.Background())
	}
	for _, s := range alive {
		sr := e.m.Series[s]
		for _, t := range []int64{sr.LastCur - e.cfg.OOO, sr.LastCur - e.cfg.OOO + 1} {
			verdict := e.m.Admit(s, t)
			e.uniq++
			val := float64(int64(s+1)*10_000_000 + e.uniq)
			var err error
			var got storage.SeriesRef
			if v2 != nil {
				got, err = v2.Append(0, e.lsets[s], 0, t, val, nil, nil, storage.AOptions{})
			} else {
				got, err = v1.Append(0, e.lsets[s], t, val)
			}
			accepted := err == nil
			if err != nil && !errors.Is(err, storage.ErrOutOfOrderSample) {
				e.fail("append-error", "unexpected-error", "%s: probe append %s t=%d: unexpected error %v", where, sr.Labels, t, err)
				break
			}
			e.res.Evals++
			e.res.Count("probe_decisions", 1)
			fmt.Fprintf(&e.trace, "%d probe s%d t%d acc=%v\n", e.opIdx, s, t, accepted)
			if verdict == agentmodel.MustReject && accepted {
				e.fail("admission", "accepted-too-old-sample", "%s: probe append %s t=%d accepted although the series' last written sample is t=%d and the out-of-order window %d",
					where, sr.Labels, t, sr.LastCur, e.cfg.OOO)
			}
			if verdict == agentmodel.MustAccept && !accepted {
				e.fail("admission", "rejected-newer-sample", "%s: probe append %s t=%d rejected although the series' last written sample is t=%d and the out-of-order window %d",
					where, sr.Labels, t, sr.LastCur, e.cfg.OOO)
			}
			it := e.m.Add(probeSlot, s, agentmodel.KFloat, t, valueKeyFloat(val, 0), uint64(got), accepted)
			_ = it
			if accepted && !e.failed {
				e.noteRef(s, got, where)
			}
		}
		if e.failed {
			break
		}
	}
	var err error
	if v2 != nil {
		err = v2.Rollback()
	} else {
		err = v1.Rollback()
	}
	e.m.Rollback(probeSlot)
	if err != nil {
		e.fail("commit-error", "rollback-error", "%s: probe Rollback failed: %v", where, err)
	}
}

// ---- steps ----

func isMutating(k string) bool {
	switch k {
	case "commit", "rollback", "tick", "trunc", "restart":
		return true
	}
	return false
}

// closeSlotsAtRisk keeps the input pattern of known finding "series-gc-under-open-appender" out of ordinary runs:
// a truncation at mint would garbage collect a series for which an open appender holds pending data.
func (e *exec) closeSlotsAtRisk(mint int64, parity int64) (closed bool) {
	for i, s := range e.apps {
		if !s.open {
			continue
		}
		risk := false
		for _, it := range e.m.PendingOf(i) {
			if e.m.WouldCollect(it.Series, mint) {
				risk = true
			}
		}
		if !risk {
			continue
		}
		e.res.Count("steered:"+TagGCUnderAppender, 1)
		k := "commit"
		if parity%2 == 1 {
			k = "rollback"
		}
		closed = true
		e.step(Op{K: k, Slot: i})
		if e.failed {
			return
		}
	}
	return closed
}

func (e *exec) step(o Op) {
	switch o.K {
	case "restart":
		// open appenders are committed / rolled back as separate steps so that crash bounds stay exact
		for i, s := range e.apps {
			if s.open {
				k := "commit"
				if o.N%2 == 1 {
					k = "rollback"
				}
				e.step(Op{K: k, Slot: i})
				if e.failed {
					return
				}
			}
		}
	}
	var fires []int64 // truncation times of this op, in order
	var fireAt []int64
	plan := func() {
		fires, fireAt = nil, nil
		switch o.K {
		case "tick":
			end := nowMs() + o.N*1000 + o.TF
			for f := e.nextFire; f <= end; f += e.cfg.FreqS * 1000 {
				fireAt = append(fireAt, f)
				fires = append(fires, e.truncTime(f))
			}
		case "trunc":
			fires = []int64{e.resolveT(o)}
		}
	}
	for iter := 0; iter < 4; iter++ {
		plan()
		if len(fires) == 0 {
			break
		}
		if e.cfg.KF != TagCheckpointOrphans {
			risky := false
			for _, f := range fires {
				risky = risky || e.riskyDecrease(f)
			}
			if risky {
				// keep the truncation time from decreasing below data of collected series (known finding)
				e.res.Count("steered:"+TagCheckpointOrphans+":truncation-time-decrease", 1)
				if o.K == "trunc" {
					fires[0] = e.m.MaxMint
				} else {
					need := (e.m.MaxMint + e.cfg.MinWAL + 999) / 1000
					any := false
					for i, q := range e.queues {
						if q >= 0 {
							any = true
							if q < need {
								e.setQueue(i, need)
							}
						}
					}
					if !any {
						e.setQueue(0, need)
					}
					for i := range fires {
						fires[i] = e.truncTime(fireAt[i])
					}
				}
			}
		}
		maxMint := fires[0]
		for _, f := range fires {
			if f > maxMint {
				maxMint = f
			}
		}
		if e.cfg.KF == TagGCUnderAppender {
			break
		}
		// the inserted commits / rollbacks may end in a dirty restart, which restarts the truncation loop: plan again
		if !e.closeSlotsAtRisk(maxMint, o.N) {
			break
		}
		if e.failed {
			return
		}
	}
	e.kinds = append(e.kinds, o.K)
	if debugOn {
		fmt.Printf("DBG op %d %+v now=%d\n", e.opIdx, o, nowMs())
	}
	crash := e.cfg.Crash && isMutating(o.K)
	var inflight []*agentmodel.Item
	if crash {
		e.mu.Lock()
		e.collecting, e.hits, e.images = true, 0, nil
		e.crashAt, e.crashImg = 0, nil
		if e.crashArm > 0 {
			e.crashAt, e.crashArm = e.crashArm, 0
		}
		e.mu.Unlock()
	}
	switch o.K {
	case "app":
		e.openSlot(o.Slot % 3)
	case "add":
		e.doAdd(o)
	case "ex":
		e.doEx(o)
	case "meta":
		e.doMeta(o)
	case "commit":
		inflight = e.m.PendingOf(o.Slot % 3)
		e.doCommit(o.Slot % 3)
	case "rollback":
		e.doRollback(o.Slot % 3)
	case "tick":
		d := time.Duration(o.N)*time.Second + time.Duration(o.TF)*time.Millisecond
		if d <= 0 {
			break
		}
		time.Sleep(d)
		synctest.Wait() // a truncation that fired at this very instant has finished
		if o.N > 3*e.cfg.FreqS {
			e.res.Count("fault:clock-jump", 1)
		} else {
			e.res.Count("fault:clock-advance", 1)
		}
		for i, mint := range fires {
			e.truncated(mint, fmt.Sprintf("timer at %d", fireAt[i]))
			e.nextFire = fireAt[i] + e.cfg.FreqS*1000
		}
		fmt.Fprintf(&e.trace, "%d tick %d fires=%v\n", e.opIdx, o.N, fires)
	case "trunc":
		if err := e.db.SimTruncate(fires[0]); err != nil {
			e.fail("truncate-error", "truncate-error", "op %d: truncate(%d) failed: %v", e.opIdx, fires[0], err)
			break
		}
		e.truncated(fires[0], "explicit")
		fmt.Fprintf(&e.trace, "%d trunc %d\n", e.opIdx, fires[0])
	case "rs":
		q := o.Q % 2
		before := e.lowestSent()
		switch o.TB {
		case "remove":
			e.setQueue(q, -1)
		case "zero":
			e.setQueue(q, 0)
		default:
			sec := nowMs()/1000 - o.N
			if sec < 0 {
				sec = 0
			}
			e.setQueue(q, sec)
		}
		after := e.lowestSent()
		switch {
		case after < before:
			e.res.Count("fault:rs-jump-back", 1)
		case after > before+e.cfg.FreqS*3000:
			e.res.Count("fault:rs-jump-forward", 1)
		case after == before:
			e.res.Count("fault:rs-stall", 1)
		}
		fmt.Fprintf(&e.trace, "%d rs %d\n", e.opIdx, after)
	case "restart":
		if e.cfg.KF != TagCheckpointOrphans && len(e.dupRefs(e.dir)) > 0 {
			// a replay would find two series records for one label set (known finding)
			e.res.Count("steered:"+TagCheckpointOrphans+":restart-with-duplicate-series-records", 1)
			break
		}
		e.restart()
	case "crashnext":
		// the next state-changing op is "killed" at its N-th IO boundary: the run continues on that crash image
		if e.cfg.Crash {
			e.crashArm = int(o.N%30) + 1
		}
	case "probe":
		e.probe(fmt.Sprintf("op %d (probe)", e.opIdx))
	case "query":
		e.checkQueries(fmt.Sprintf("op %d", e.opIdx))
	}
	if crash {
		e.mu.Lock()
		e.collecting = false
		imgs := e.images
		e.images = nil
		e.mu.Unlock()
		if !e.failed {
			e.judgeImages(o, imgs, inflight)
		}
		ci := e.crashImg
		for _, im := range imgs {
			if im != ci {
				os.RemoveAll(im.dir)
			}
		}
		if ci != nil {
			switch {
			case e.failed:
				os.RemoveAll(ci.dir)
				return
			case e.cfg.KF != TagCheckpointOrphans && len(e.dupRefs(ci.dir)) > 0:
				e.res.Count("steered:"+TagCheckpointOrphans+":restart-with-duplicate-series-records", 1)
				os.RemoveAll(ci.dir)
				e.crashImg = nil
			default:
				e.adoptCrash(ci, o, inflight)
				return
			}
		}
	}
	if e.failed {
		return
	}
	if isMutating(o.K) && o.K != "restart" {
		e.checkWAL(e.dir, fmt.Sprintf("after op %d (%s)", e.opIdx, o.K), nil)
	}
}

// riskyDecrease: a truncation at mint would retain (by timestamp) data of a series incarnation that an earlier
// truncation ended; for samples that needs a truncation time below an earlier one.
func (e *exec) riskyDecrease(mint int64) bool {
	for _, it := range e.m.Items {
		if it.State == agentmodel.Committed && it.Inc != e.m.Series[it.Series].Inc && it.T >= mint {
			return true
		}
	}
	return false
}

// dupRefs returns the references of label sets that have series records under more than one reference in the log
// of dir (all but the first in replay order).
func (e *exec) dupRefs(dir string) map[uint64]bool {
	v := ReadWAL(filepath.Join(dir, "wal"))
	first := map[string]uint64{}
	dups := map[uint64]bool{}
	for _, en := range v.Entries {
		if en.What != "series" {
			continue
		}
		if r, ok := first[en.Labels]; !ok {
			first[en.Labels] = en.Ref
		} else if r != en.Ref {
			dups[en.Ref] = true
		}
	}
	return dups
}

// truncated applies one truncation to the model.
func (e *exec) truncated(mint int64, how string) {
	if e.m.HasMint && mint < e.m.LastMint {
		e.res.Count("truncation_time_decreased", 1)
	}
	gc := e.m.Truncate(mint)
	for _, it := range e.m.Items {
		if it.State == agentmodel.Committed && it.Inc != e.m.Series[it.Series].Inc && it.T >= mint && it.Risk == "" {
			it.Risk = TagCheckpointOrphans // retained by timestamp although its series was collected
		}
	}
	for _, s := range gc {
		for _, it := range e.m.Items {
			if it.State == agentmodel.Pending && it.Series == s && it.Risk == "" {
				it.Risk = TagGCUnderAppender
			}
		}
	}
	if e.cfg.CPInMem && e.cfg.KF == TagInMemCheckpoint {
		// judged by the property statement: what the in-memory checkpoint releases beyond the truncation time is a
		// (listed) violation
		for _, it := range e.m.Items {
			if it.State == agentmodel.Committed && !it.Droppable && it.Risk == "" {
				it.Risk = TagInMemCheckpoint
			}
		}
	} else if e.cfg.CPInMem {
		// CheckpointFromInMemorySeries is documented to build checkpoints from in-memory series data only; the agent
		// keeps no samples in memory, so such a checkpoint replaces the checkpointed segments by series records and
		// last timestamps: everything written before the truncation may be gone (see known finding
		// "inmem-checkpoint-drops-retained-samples" for the strict reading).
		for _, it := range e.m.Items {
			if it.State == agentmodel.Committed {
				it.Droppable = true
			}
		}
	}
	for _, s := range gc {
		e.creator[s] = 0
	}
	e.truncs++
	e.gcs += len(gc)
	e.res.Count("truncations", 1)
	e.res.Count("series_collected", int64(len(gc)))
	if debugOn {
		fmt.Printf("DBG   truncation (%s) mint=%d collected=%v\n", how, mint, gc)
	}
	_, idx, err := lastCheckpoint(e.dir)
	if err == nil && idx != e.lastCP {
		e.lastCP = idx
		e.checkpoints++
		e.res.Count("checkpoints", 1)
		e.res.StateKeys = append(e.res.StateKeys, "cp|"+layoutOf(e.dir))
	}
}

func (e *exec) restart() {
	where := fmt.Sprintf("op %d (restart)", e.opIdx)
	if err := e.db.Close(); err != nil {
		e.fail("close", "close-error", "%s: Close failed: %v", where, err)
		e.db = nil
		return
	}
	e.db = nil
	e.restarts++
	e.res.Count("fault:clean-restart", 1)
	e.checkWAL(e.dir, where+" after Close", nil)
	if e.failed {
		return
	}
	e.tagDupRefs(e.dir)
	e.m.Restart()
	e.forgetProcess()
	if err := e.openMain(); err != nil {
		e.fail("open", "reopen-error", "%s: reopen after clean shutdown failed: %v", where, err)
		return
	}
	fmt.Fprintf(&e.trace, "%d restart\n", e.opIdx)
	e.afterOpen(where)
}

// tagDupRefs marks the items written under a reference that a replay of dir maps onto another one (only reachable
// in runs that are allowed to exercise the known finding).
func (e *exec) tagDupRefs(dir string) {
	dups := e.dupRefs(dir)
	if len(dups) == 0 {
		return
	}
	e.res.Count("replay_duplicate_series_refs", int64(len(dups)))
	for _, it := range e.m.Items {
		if dups[it.Ref] && it.Risk == "" {
			it.Risk = TagCheckpointOrphans
		}
	}
}

// afterOpen runs the checks that follow every (clean or dirty) re-open.
func (e *exec) afterOpen(where string) {
	e.checkWAL(e.dir, where+" after Open", nil)
	if e.failed {
		return
	}
	e.checkQueries(where)
	if e.failed {
		return
	}
	e.probe(where + " after Open")
	if e.failed {
		return
	}
	e.checkWAL(e.dir, where+" after the admission probe", nil)
}

// ---- the WAL oracle ----

type cmpResult struct {
	view     *View
	observed map[string][]uint64 // full key -> references it was written under
}

func fullKey(lbls, what string, t int64, key string) string {
	return lbls + "|" + what + "|" + fmt.Sprint(t) + "|" + key
}

func (e *exec) itemKey(it *agentmodel.Item) string {
	return fullKey(e.lstr[it.Series], whatOf(it.Kind), it.T, it.Key)
}

func itemStr(e *exec, it *agentmodel.Item) string {
	extra := ""
	if it.Droppable {
		extra += " droppable"
	}
	if it.Optional {
		extra += " optional"
	}
	return fmt.Sprintf("%s %s t=%d ref=%d (%s, commit #%d%s)", it.Kind, e.lstr[it.Series], it.T, it.Ref, it.State, it.Seq, extra)
}

// checkWAL decodes the log of dir as a replay would read it and compares it with the model. inflight are the items
// of a commit that a process kill interrupted (they may or may not be there). It returns the comparison for the
// dirty-restart adoption.
func (e *exec) checkWAL(dir, where string, inflight []*agentmodel.Item) *cmpResult {
	v := ReadWAL(filepath.Join(dir, "wal"))
	e.res.Evals++
	e.res.Count("wal_checks", 1)
	e.res.Count("wal_entries_decoded", int64(len(v.Entries)))
	cr := &cmpResult{view: v, observed: map[string][]uint64{}}
	if v.Err != nil {
		e.fail("wal-decode", "decode-error", "%s: the log does not decode: %v", where, v.Err)
		return cr
	}
	for _, it := range inflight {
		it.InFlight = true
	}
	defer func() {
		for _, it := range inflight {
			it.InFlight = false
		}
	}()
	if debugOn && os.Getenv("VERIF_DEBUG") == "2" {
		fmt.Printf("DBG check %s\n", where)
		dumpView(v)
	}
	resolved, orphans := RefOrder(v)
	writtenTs := map[string]map[int64]bool{} // label set -> timestamps of committed samples (for the in-memory checkpoint's last-timestamp samples)
	if e.cfg.CPInMem {
		for _, it := range e.m.Items {
			if it.State == agentmodel.Committed && it.Kind != agentmodel.KExemplar {
				l := e.lstr[it.Series]
				if writtenTs[l] == nil {
					writtenTs[l] = map[int64]bool{}
				}
				writtenTs[l][it.T] = true
			}
		}
	}
	nData := 0
	var synthetic []Entry
	for i, en := range v.Entries {
		if en.What == "series" {
			continue
		}
		nData++
		if resolved[i] == "" {
			continue
		}
		if e.cfg.CPInMem && en.InCP && en.What == "float" && en.Key == "zero" && (writtenTs[resolved[i]][en.T] || en.T == math.MinInt64 || en.T == 0) {
			// the in-memory checkpoint's "last timestamp" sample of a series (value irrelevant by its documentation)
			e.res.Count("inmem_checkpoint_last_ts_samples", 1)
			if e.cfg.KF == TagInMemCheckpoint {
				synthetic = append(synthetic, en)
			}
			continue
		}
		k := fullKey(resolved[i], en.What, en.T, en.Key)
		cr.observed[k] = append(cr.observed[k], en.Ref)
	}
	e.res.Count("c15_agent_records_checked", int64(nData))

	type exp struct {
		must, may int
		items     []*agentmodel.Item
	}
	expected := map[string]*exp{}
	for _, it := range e.m.Items {
		k := e.itemKey(it)
		x := expected[k]
		if x == nil {
			x = &exp{}
			expected[k] = x
		}
		mu, ma := it.Expect()
		x.must += mu
		x.may += ma
		x.items = append(x.items, it)
	}
	var details []string
	kinds := map[string]bool{}
	known := map[string]bool{}
	// addK records one discrepancy; tag is the listed known finding that explains it ("" = none).
	addK := func(tag, kind, format string, a ...any) {
		msg := fmt.Sprintf(format, a...)
		if tag != "" {
			known[tag] = true
			msg += " KNOWN[" + tag + "]"
		} else {
			kinds[kind] = true
		}
		if len(details) < 12 {
			details = append(details, msg)
		}
	}
	add := func(kind, format string, a ...any) { addK("", kind, format, a...) }
	// C15 (agent half): every data entry refers to a series whose label record precedes it in replay order
	for _, o := range orphans {
		addK(e.orphanTag(o), "orphan-"+o.Entry.What, "%s", o.String())
	}
	for _, en := range synthetic {
		addK(TagInMemCheckpoint, "unknown-entry", "checkpoint %d holds float sample ref=%d t=%d v=0, which no appender was given", en.Seg, en.Ref, en.T)
	}
	keys := make([]string, 0, len(expected))
	for k := range expected {
		keys = append(keys, k)
	}
	sort.Strings(keys)
	for _, k := range keys {
		x := expected[k]
		n := len(cr.observed[k])
		if n < x.must {
			var it *agentmodel.Item
			for _, c := range x.items {
				if mu, _ := c.Expect(); mu > 0 {
					it = c
					break
				}
			}
			orphaned := false
			for _, o := range orphans {
				if o.Entry.What == whatOf(it.Kind) && o.Entry.T == it.T && o.Entry.Key == it.Key && o.Entry.Ref == it.Ref {
					orphaned = true
				}
			}
			if orphaned {
				addK(it.Risk, "no-series-record", "committed %s is in the log but no series record for its reference precedes it", itemStr(e, it))
			} else {
				addK(e.missingTag(it), "missing", "committed %s is not in the log (latest truncation time %s)", itemStr(e, it), e.mintStr())
			}
			continue
		}
		if n > x.must+x.may {
			e.classifyExtra(add, k, n, x.must+x.may, x.items, v)
			continue
		}
		// written under the reference the appender returned
		for _, it := range x.items {
			if mu, _ := it.Expect(); mu == 0 {
				continue
			}
			ok := false
			for _, r := range cr.observed[k] {
				if r == it.Ref {
					ok = true
				}
			}
			if !ok {
				add("other-reference", "committed %s is in the log under reference(s) %v, not the one the appender returned", itemStr(e, it), cr.observed[k])
			}
		}
	}
	okeys := make([]string, 0, len(cr.observed))
	for k := range cr.observed {
		if expected[k] == nil {
			okeys = append(okeys, k)
		}
	}
	sort.Strings(okeys)
	for _, k := range okeys {
		add("unknown-entry", "the log holds %q (%d times), which no appender was given", k, len(cr.observed[k]))
	}
	if e.trace.Len() < 1<<20 {
		fmt.Fprintf(&e.trace, "%d wal %016x\n", e.opIdx, prng.DeriveS(7, v.Summary()))
	}
	if len(details) == 0 {
		return cr
	}
	var ks []string
	for k := range kinds {
		ks = append(ks, k)
	}
	sort.Strings(ks)
	if len(ks) == 0 {
		// every discrepancy is explained by a listed known finding
		var ts []string
		for k := range known {
			ts = append(ts, k)
		}
		sort.Strings(ts)
		if debugOn {
			dumpView(v)
		}
		e.fail("wal-vs-model", "known:"+strings.Join(ts, "+"), "%s: %s", where, strings.Join(details, "; "))
		return cr
	}
	oracle := "wal-vs-model"
	onlyOrphans := true
	for _, k := range ks {
		if !strings.HasPrefix(k, "orphan-") {
			onlyOrphans = false
		}
	}
	if onlyOrphans {
		oracle = "c15-agent-ref-order"
	}
	if debugOn {
		dumpView(v)
	}
	e.fail(oracle, e.signature(ks), "%s: %s", where, strings.Join(details, "; "))
	return cr
}

// signature turns the discrepancy kinds into the violation signature; listed known findings get "known:<tag>".
func (e *exec) signature(kinds []string) string {
	return strings.Join(kinds, "+")
}

// orphanTag finds the model item behind an orphaned entry and returns the known-finding tag it carries.
func (e *exec) orphanTag(o Orphan) string {
	for _, it := range e.m.Items {
		if it.Risk != "" && it.Ref == o.Entry.Ref && it.T == o.Entry.T && it.Key == o.Entry.Key && whatOf(it.Kind) == o.Entry.What {
			return it.Risk
		}
	}
	return ""
}

// missingTag: known-finding tag explaining why a committed, retained item is not in the log.
func (e *exec) missingTag(it *agentmodel.Item) string {
	if it.Risk == TagInMemCheckpoint {
		return it.Risk
	}
	return ""
}

func (e *exec) mintStr() string {
	if !e.m.HasMint {
		return "none"
	}
	return fmt.Sprint(e.m.LastMint)
}

func (e *exec) classifyExtra(add func(kind, format string, a ...any), k string, n, allowed int, items []*agentmodel.Item, v *View) {
	var rb, rej, pend, comm *agentmodel.Item
	for _, it := range items {
		switch it.State {
		case agentmodel.RolledBack:
			rb = it
		case agentmodel.Rejected:
			rej = it
		case agentmodel.Pending:
			pend = it
		case agentmodel.Committed:
			comm = it
		}
	}
	switch {
	case comm != nil && allowed > 0:
		add("duplicate", "%s is in the log %d times (at most %d expected)", itemStr(e, comm), n, allowed)
	case rb != nil:
		add("rolled-back-data", "%s is in the log although its appender was rolled back (or died)", itemStr(e, rb))
	case rej != nil:
		add("rejected-data", "%s is in the log although Append rejected it", itemStr(e, rej))
	case pend != nil:
		add("uncommitted-data", "%s is in the log although its appender is still open", itemStr(e, pend))
	default:
		add("duplicate", "%q is in the log %d times (at most %d expected)", k, n, allowed)
	}
}

func dumpView(v *View) {
	fmt.Printf("DBG wal cp=%d first=%d last=%d ignored=%d err=%v\n", v.CP, v.First, v.Last, v.Ignored, v.Err)
	for _, en := range v.Entries {
		loc := "seg"
		if en.InCP {
			loc = "cp"
		}
		fmt.Printf("DBG   %s%d rec%d %s ref=%d t=%d %s %s\n", loc, en.Seg, en.Rec, en.What, en.Ref, en.T, en.Key, en.Labels)
	}
}
