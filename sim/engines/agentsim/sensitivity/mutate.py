#!/usr/bin/env python3
"""e8-mutate.py NAME FILE  <<< 'OLD\n=====\nNEW'  : applies one mutation (exact, unique string replacement) to a file in the
worktree, builds, runs check C48 quick, replays the violation, reverts. Prints a summary."""
import sys, subprocess, os, time, shutil, re, json
WT='/dev/shm/wt-e8'
name, rel = sys.argv[1], sys.argv[2]
runs = os.environ.get('MUT_RUNS','1600')
old, new = sys.stdin.read().split('\n=====\n')
old=old.strip('\n'); new=new.rstrip('\n').lstrip('\n')
path=os.path.join(WT, rel)
orig=open(path).read()
if orig.count(old)!=1:
    print('MUTATION %s: pattern occurs %d times'%(name, orig.count(old))); sys.exit(2)
open(path,'w').write(orig.replace(old,new,1))
try:
    diff=subprocess.run(['git','-C',WT,'diff','--',rel],capture_output=True,text=True).stdout
    env=dict(os.environ, REPO=WT, BIN='/dev/shm/bin-e8-mut', VERIF_WORKERS='4', VERIF_RUNS=runs, GOFLAGS='-mod=mod', GOPROXY='off', GOSUMDB='off', GOTOOLCHAIN='local')
    t0=time.time()
    p=subprocess.run(['/verif/check','C48','quick'],env=env,capture_output=True,text=True)
    dt=time.time()-t0
    out=p.stdout+p.stderr
    print('=== MUTATION',name,'exit',p.returncode,'wall %.0fs'%dt)
    print('\n'.join(out.splitlines()[-8:])[:3000])
    m=re.findall(r'VIOLATION property=C48 replay=(\S+)',out)
    res={'name':name,'file':rel,'exit':p.returncode,'wall_s':round(dt),'violations':len(m)}
    sm=re.search(r'check C48 quick: runs=(\d+) .*wall=([0-9.]+)s \(build ([0-9.]+)s\)',out)
    if sm: res['runs_executed']=int(sm.group(1)); res['run_wall_s']=round(float(sm.group(2))-float(sm.group(3)),1); res['build_s']=float(sm.group(3))
    fr=re.findall(r'violation oracle=(\S+) signature=(\S+) run=(\d+)',out)
    if fr: res['first_violations']=[(a,b,int(c)) for a,b,c in fr[:4]]
    if m:
        keep=os.environ.get('MUT_KEEP','/dev/shm/e8-mut-replays'); os.makedirs(keep,exist_ok=True)
        for i,r in enumerate(m[:2]):
            dst=os.path.join(keep,'%s-%d.json'%(name,i)); shutil.copy(r,dst)
            q=subprocess.run(['/verif/check','C48','--replay',dst],env=env,capture_output=True,text=True)
            print('replay',dst,'exit',q.returncode, (q.stdout.strip().splitlines() or [''])[-1][:200])
            res['replay_exit_%d'%i]=q.returncode
            d=json.load(open(dst)); res['oracle_%d'%i]=d['violation']['oracle']+'/'+d['violation']['signature']; res['ops_%d'%i]=len(d['plan']['ops'])
    keep=os.environ.get('MUT_KEEP','/dev/shm/e8-mut-replays'); os.makedirs(keep,exist_ok=True); json.dump({'res':res,'diff':diff},open(os.path.join(keep,'%s.result.json'%name),'w'),indent=1)
finally:
    open(path,'w').write(orig)
    print('reverted', rel)
