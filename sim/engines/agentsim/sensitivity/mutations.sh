#!/bin/bash
export MUT_KEEP=/verif/sim/engines/agentsim/sensitivity MUT_RUNS=1200
M=$(dirname "$0")/mutate.py
$M M01-keepfn-off-by-one tsdb/agent/db.go <<'EOF'
		return ok && meta.lastSegment > last
=====
		return ok && meta.lastSegment > last+1
EOF
$M M02-gc-no-lastsegment tsdb/agent/db.go <<'EOF'
	for ref, lset := range deleted {
		db.deleted[ref] = deletedRefMeta{lastSegment: last, labels: lset}
	}
=====
	for ref, lset := range deleted {
		_, _, _ = ref, lset, last
	}
EOF
$M M03-samples-before-series tsdb/agent/db.go <<'EOF'
	if len(a.pendingSeries) > 0 {
		buf = encoder.Series(a.pendingSeries, buf)
		if err := a.wal.Log(buf); err != nil {
			return err
		}
		buf = buf[:0]
	}

	if len(a.pendingSamples) > 0 {
		buf = encoder.Samples(a.pendingSamples, buf)
		if err := a.wal.Log(buf); err != nil {
			return err
		}
		buf = buf[:0]
	}
=====
	if len(a.pendingSamples) > 0 {
		buf = encoder.Samples(a.pendingSamples, buf)
		if err := a.wal.Log(buf); err != nil {
			return err
		}
		buf = buf[:0]
	}

	if len(a.pendingSeries) > 0 {
		buf = encoder.Series(a.pendingSeries, buf)
		if err := a.wal.Log(buf); err != nil {
			return err
		}
		buf = buf[:0]
	}
EOF
$M M04-rollback-logs-samples tsdb/agent/db.go <<'EOF'
	if err := a.logSeries(); err != nil {
		return err
	}

	a.clearData()
	return nil
=====
	if err := a.log(); err != nil {
		return err
	}

	a.clearData()
	return nil
EOF
$M M05-ooo-off-by-one-v1 tsdb/agent/db.go <<'EOF'
	series.Lock()
	defer series.Unlock()

	if t <= a.minValidTime(series.lastTs) {
		a.metrics.totalOutOfOrderSamples.Inc()
		return 0, storage.ErrOutOfOrderSample
	}

	// NOTE: always modify pendingSamples and sampleSeries together.
	a.pendingSamples = append(a.pendingSamples, record.RefSample{
		Ref: series.ref,
		T:   t,
		V:   v,
	})
=====
	series.Lock()
	defer series.Unlock()

	if t < a.minValidTime(series.lastTs) {
		a.metrics.totalOutOfOrderSamples.Inc()
		return 0, storage.ErrOutOfOrderSample
	}

	// NOTE: always modify pendingSamples and sampleSeries together.
	a.pendingSamples = append(a.pendingSamples, record.RefSample{
		Ref: series.ref,
		T:   t,
		V:   v,
	})
EOF
$M M06-truncate-ignores-minwaltime tsdb/agent/db.go <<'EOF'
			ts := max(db.rs.LowestSentTimestamp()-db.opts.MinWALTime, 0)
=====
			ts := max(db.rs.LowestSentTimestamp(), 0)
EOF
$M M07-replay-no-lastts-float tsdb/agent/db.go <<'EOF'
				series := db.series.GetByID(entry.Ref)
				if series == nil {
					nonExistentSeriesRefs.Inc()
					continue
				}

				// Update the lastTs for the series if this sample is newer.
				if entry.T > series.lastTs {
					series.lastTs = entry.T
				}
			}
			db.walReplaySamplesPool.Put(v)
=====
				series := db.series.GetByID(entry.Ref)
				if series == nil {
					nonExistentSeriesRefs.Inc()
					continue
				}
			}
			db.walReplaySamplesPool.Put(v)
EOF
$M M08-checkpoint-drops-sample-at-mint tsdb/wlog/checkpoint.go <<'EOF'
			repl := samples[:0]
			for _, s := range samples {
				if s.T >= mint {
=====
			repl := samples[:0]
			for _, s := range samples {
				if s.T > mint {
EOF
$M M09-gc-collects-series-at-mint tsdb/agent/series.go <<'EOF'
		if series.lastTs >= mint {
=====
		if series.lastTs > mint {
EOF
$M M10-open-skips-repair tsdb/agent/db.go <<'EOF'
		if err := w.Repair(err); err != nil {
=====
		if err := error(nil); err != nil {
EOF
$M M11-truncate-one-segment-too-many tsdb/agent/db.go <<'EOF'
	if err := db.wal.Truncate(last + 1); err != nil {
=====
	if err := db.wal.Truncate(last + 2); err != nil {
EOF
$M M12-single-exemplar-not-logged tsdb/agent/db.go <<'EOF'
	if len(a.pendingExamplars) > 0 {
=====
	if len(a.pendingExamplars) > 1 {
EOF
$M M13-inmem-checkpoint-omits-deleted-series tsdb/agent/checkpoint.go <<'EOF'
	if err := flusher.writeDeletedRecords(deletedSeries); err != nil {
		return err
	}
=====
	if false {
		if err := flusher.writeDeletedRecords(deletedSeries); err != nil {
			return err
		}
	}
EOF
$M M14-ooo-off-by-one-v2 tsdb/agent/db_append_v2.go <<'EOF'
	if t <= a.minValidTime(lastTS) {
=====
	if t < a.minValidTime(lastTS) {
EOF
$M M16-commit-no-lastts-for-histograms tsdb/agent/db.go <<'EOF'
	for i, s := range a.pendingHistograms {
		series = a.histogramSeries[i]
		if !series.updateTimestamp(s.T) {
			a.metrics.totalOutOfOrderSamples.Inc()
		}
	}
=====
	for i, s := range a.pendingHistograms {
		series = a.histogramSeries[i]
		_ = s
	}
EOF
$M M17-single-custom-bucket-histogram-not-logged tsdb/agent/db.go <<'EOF'
		if len(customBucketsHistograms) > 0 {
=====
		if len(customBucketsHistograms) > 1 {
EOF
$M M18-checkpoint-drops-exemplar-at-mint tsdb/wlog/checkpoint.go <<'EOF'
			for _, e := range exemplars {
				if e.T >= mint {
=====
			for _, e := range exemplars {
				if e.T > mint {
EOF
