// Package agentsim is engine E8: the real agent.DB (appender v1/v2, WAL, series GC, truncation loop on the fake
// clock, both checkpoint implementations, replay) driven by one workload task inside a synctest bubble, with the
// reference model of model/agentmodel updated in lock step, crash images taken at IO hooks, and the WAL decoded
// and compared with the model after every state-changing operation (C48, agent half of C15).
package agentsim

import (
	"encoding/json"
	"os"

	"verif/sim/core/prng"
	"verif/sim/model/histgen"
)

// Config is the swarm configuration of one run (drawn from the seed).
type Config struct {
	Profile string `json:"profile"`
	Seed    uint64 `json:"seed"`

	NSeries int    `json:"nseries"`
	V2      bool   `json:"v2,omitempty"`      // AppenderV2 instead of Appender
	OOO     int64  `json:"ooo,omitempty"`     // out-of-order window, ms
	SegKB   int    `json:"segkb"`             // WAL segment size
	Comp    string `json:"comp"`              // none|snappy|zstd
	Stripe  int    `json:"stripe"`            // series hash map stripes (power of two)
	FreqS   int64  `json:"freq_s"`            // TruncateFrequency, seconds
	MinWAL  int64  `json:"minwal"`            // MinWALTime, ms
	MaxWAL  int64  `json:"maxwal"`            // MaxWALTime, ms (>= MinWAL, >= FreqS*1000 so that option validation is the identity)
	Step    int64  `json:"step"`              // unit of coarse time offsets, ms
	STStore bool   `json:"ststore,omitempty"` // EnableSTStorage
	STZero  bool   `json:"stzero,omitempty"`  // EnableSTAsZeroSample
	CPInMem bool   `json:"cpinmem,omitempty"` // CheckpointFromInMemorySeries
	CPBatch int    `json:"cpbatch,omitempty"` // CheckpointBatchSize
	Queues  int    `json:"queues"`            // stand-in remote-write queues at start
	Lag0    int64  `json:"lag0"`              // their initial lag behind the clock, seconds

	// KF: tag of the one listed known finding whose input pattern this run may exercise ("" = none: the executor
	// steers around all of them). See known_findings.json.
	KF string `json:"kf,omitempty"`

	Crash  bool `json:"crash,omitempty"`  // take crash images at IO hooks and judge them
	ImgCap int  `json:"imgcap,omitempty"` // max images judged per op
	Torn   int  `json:"torn,omitempty"`   // 0 none, 1 three page-aligned prefixes, 2 all
}

// Op is one workload operation. Timestamps are relative descriptors resolved at execution time so that
// shrinking (dropping ops) leaves the remaining ops meaningful.
type Op struct {
	K    string `json:"k"`
	Slot int    `json:"slot,omitempty"`
	S    int    `json:"s,omitempty"`
	TB   string `json:"tb,omitempty"` // time base: now|slast|oooe|mint|nmint (add, ex, trunc); lag|remove|zero (rs)
	TO   int64  `json:"to,omitempty"` // offset in Steps
	TF   int64  `json:"tf,omitempty"` // fine offset, ms
	VK   int    `json:"vk,omitempty"` // 0 float 1 hist 2 fhist 3 stale marker
	HM   int    `json:"hm,omitempty"`
	HS   uint64 `json:"hs,omitempty"`
	Ref  int    `json:"ref,omitempty"` // 1: pass the cached series reference
	STO  int64  `json:"sto,omitempty"` // start timestamp = t - STO (0: none); v2 only
	NE   int    `json:"ne,omitempty"`  // exemplars attached (v2 add) / appended (v1 ex)
	EK   int    `json:"ek,omitempty"`  // exemplar kind: 0 fresh, 1 repeat of the previous one, 2 label set too long
	MD   bool   `json:"md,omitempty"`  // attach metadata (v2) / UpdateMetadata (v1 meta op)
	Rej  bool   `json:"rej,omitempty"` // add: AOptions.RejectOutOfOrder (v2) / AppendOptions.DiscardOutOfOrder (v1); only honoured in runs with KF = TagIgnoresRejectOOO
	Rep  int    `json:"rep,omitempty"` // add: repeat count (one sample per ms): multi-page WAL records
	N    int64  `json:"n,omitempty"`   // tick: seconds; rs: lag seconds; crashnext: IO hit; restart: parity = commit/rollback open appenders
	Q    int    `json:"q,omitempty"`   // rs: queue index
}

// Plan = config + operations. Execution is a pure function of the plan.
type Plan struct {
	Cfg Config `json:"cfg"`
	Ops []Op   `json:"ops"`
}

func (p *Plan) String() string {
	b, _ := json.Marshal(p)
	return string(b)
}

// KFTags are the listed known findings a run may be allowed to exercise.
var KFTags = []string{TagSampleBeforeSeries, TagGCUnderAppender, TagCheckpointOrphans, TagInMemCheckpoint, TagIgnoresRejectOOO}

// Tags of the listed known findings (known_findings.json).
const (
	// Samples committed by one appender for a series that another, still open appender created are logged
	// before (or without) the series record.
	TagSampleBeforeSeries = "agent-sample-before-series-record"
	// A truncation garbage collects a series for which an open appender holds accepted data; the data is then
	// committed under a reference whose series record the next checkpoints drop.
	TagGCUnderAppender = "agent-series-gc-under-open-appender"
	// The checkpoint drops the series record of a collected / duplicate reference by segment number but keeps
	// that reference's samples by timestamp (reached when the truncation time decreases, or when a restart finds
	// two series records for one label set).
	TagCheckpointOrphans = "agent-checkpoint-keeps-samples-of-dropped-series-record"
	// With CheckpointFromInMemorySeries a checkpoint replaces the checkpointed segments by series records and one
	// synthetic (t = last timestamp, v = 0) sample per series: accepted samples at or after the truncation time are
	// gone and samples that no appender was given appear. Ordinary runs use the option's documented reading
	// (everything written before the truncation is released); runs with this tag judge it by the property statement.
	TagInMemCheckpoint = "agent-inmem-checkpoint-drops-retained-samples"
	// The agent appenders ignore AOptions.RejectOutOfOrder / AppendOptions.DiscardOutOfOrder: with an out-of-order
	// window, an out-of-order append that the caller asked to be rejected (the scrape loop does so for staleness
	// markers) is accepted. (Interface contract of storage.AppenderV2 / storage.Appender, outside the C48 statement.)
	TagIgnoresRejectOOO = "agent-ignores-reject-out-of-order"
)

// GenConfig draws the swarm configuration.
func GenConfig(prop, tier string, seed uint64) Config {
	r := prng.New(prng.DeriveS(seed, "config"))
	c := Config{Profile: prop, Seed: seed}
	c.NSeries = r.Range(2, 6)
	c.V2 = r.Chance(0.5)
	c.FreqS = []int64{1, 2, 5, 30, 120}[r.Intn(5)]
	f := c.FreqS * 1000
	c.Step = f / int64([]int{2, 4, 10}[r.Intn(3)])
	c.OOO = []int64{0, 0, c.Step / 2, 3 * c.Step, 20 * f}[r.Intn(5)]
	c.SegKB = []int{32, 32, 64}[r.Intn(3)]
	c.Comp = []string{"none", "snappy", "zstd"}[r.Intn(3)]
	c.Stripe = []int{1, 2, 16, 64}[r.Intn(4)]
	c.MinWAL = []int64{1, f / 2, f, 3 * f, 10 * f}[r.Intn(5)]
	c.MaxWAL = []int64{f, 2 * f, 6 * f, 40 * f, 1000 * f}[r.Intn(5)]
	if c.MaxWAL < c.MinWAL {
		c.MaxWAL = c.MinWAL
	}
	c.STStore = r.Chance(0.3)
	c.STZero = r.Chance(0.3)
	c.CPInMem = r.Chance(0.2)
	c.CPBatch = []int{0, 1, 2, 1000}[r.Intn(4)]
	c.Queues = []int{0, 1, 1, 1, 2}[r.Intn(5)]
	c.Lag0 = []int64{0, 1, c.FreqS, 3 * c.FreqS}[r.Intn(4)]
	c.Crash = r.Chance(0.4)
	c.ImgCap = 10
	c.Torn = 1
	if tier == "thorough" {
		c.ImgCap = 24
		c.Torn = 2
	}
	kfPick := ""
	if len(KFTags) > 0 {
		kfPick = KFTags[r.Intn(len(KFTags))]
	}
	if f := os.Getenv("VERIF_FORCE_KF"); f != "" { // finding-hunting aid; replay files carry the plan, not the environment
		c.KF = kfPick
		if f != "1" {
			c.KF = f
		}
	} else if r.Chance(1.0 / 8000) {
		// Rare on purpose: the runner stops a worker after three violating runs and every listed finding is
		// reproduced from its committed replay plan by the check script anyway.
		c.KF = kfPick
	}
	if c.KF == TagInMemCheckpoint {
		c.CPInMem = true
	}
	if c.KF == TagIgnoresRejectOOO && c.OOO == 0 {
		c.OOO = 3 * c.Step
	}
	return c
}

var opNames = []string{"app", "add", "burst", "ex", "meta", "commit", "rollback", "tick", "jump", "rs", "trunc", "restart", "crashnext", "big", "probe", "query"}

type weights struct {
	app, add, burst, ex, meta, commit, rollback, tick, jump, rs, trunc, restart, crashnext, big, probe, query int
}

func (w weights) list() []int {
	return []int{w.app, w.add, w.burst, w.ex, w.meta, w.commit, w.rollback, w.tick, w.jump, w.rs, w.trunc, w.restart, w.crashnext, w.big, w.probe, w.query}
}

func genWeights(c Config, r *prng.R) weights {
	w := weights{app: 8, add: 36, burst: 14, ex: 5, meta: 2, commit: 12, rollback: 4, tick: 10, jump: 1, rs: 5, trunc: 6, restart: 4, crashnext: 0, big: 1, probe: 2, query: 1}
	if c.Crash {
		w.crashnext, w.big = 4, 3
	}
	// swarm: knock out some op kinds per run
	for _, p := range []*int{&w.ex, &w.meta, &w.rollback, &w.jump, &w.rs, &w.trunc, &w.tick, &w.restart, &w.probe, &w.big} {
		if r.Chance(0.2) {
			*p = 0
		}
	}
	if w.tick == 0 && w.trunc == 0 {
		w.tick = 10
	}
	return w
}

func genKind(r *prng.R) int { return []int{0, 0, 0, 0, 0, 1, 1, 2, 2, 3}[r.Intn(10)] }

func genAdd(r *prng.R, c Config, slot int) Op {
	o := Op{K: "add", Slot: slot, S: r.Intn(c.NSeries), VK: genKind(r), HM: r.Intn(histgen.NModes), HS: r.Uint64() >> 1, Ref: r.Intn(2)}
	switch r.Intn(12) {
	case 0, 1, 2, 3, 4:
		o.TB, o.TO = "now", int64(r.Range(-1, 2))
		if r.Chance(0.3) {
			o.TF = int64(r.Range(-3, 3))
		}
	case 5:
		o.TB, o.TF = "slast", int64(r.Range(-1, 1)) // at / around the series' newest written sample
	case 6, 7:
		o.TB, o.TF = "oooe", int64(r.Range(-1, 1)) // out-of-order window edge
	case 8:
		o.TB, o.TO = "slast", -int64(r.Range(1, 6)) // older data
	case 9:
		o.TB, o.TF = "mint", int64(r.Range(-1, 1)) // around the latest truncation time
	case 10:
		o.TB, o.TF = "nmint", int64(r.Range(-1, 1)) // around the next timer-driven truncation time
	default:
		o.TB, o.TO = "slast", int64(r.Range(0, 2))
	}
	if c.KF == TagIgnoresRejectOOO && r.Chance(0.4) {
		o.Rej = true
	}
	if c.V2 {
		if r.Chance(0.3) {
			o.STO = int64(r.Range(1, 5)) * c.Step / 2
			if r.Chance(0.2) {
				o.STO = 1
			}
		}
		if o.VK != 3 && r.Chance(0.2) {
			o.NE = r.Range(1, 2)
			o.EK = []int{0, 0, 0, 1, 2}[r.Intn(5)]
		}
		o.MD = r.Chance(0.1)
	}
	return o
}

// Generate builds a plan.
func Generate(prop, tier string, seed uint64) *Plan {
	cfg := GenConfig(prop, tier, seed)
	r := prng.New(prng.DeriveS(seed, "ops"))
	w := genWeights(cfg, r)
	nops := r.Range(20, 90)
	p := &Plan{Cfg: cfg}
	for len(p.Ops) < nops {
		switch k := opNames[r.Pick(w.list())]; k {
		case "app":
			p.Ops = append(p.Ops, Op{K: "app", Slot: r.Intn(3)})
		case "add":
			p.Ops = append(p.Ops, genAdd(r, cfg, r.Intn(3)))
		case "burst":
			// a scrape-like transaction at the current time: app, n adds, commit
			slot := r.Intn(3)
			p.Ops = append(p.Ops, Op{K: "app", Slot: slot})
			n := r.Range(1, 5)
			for i := 0; i < n; i++ {
				o := genAdd(r, cfg, slot)
				o.TB, o.TO, o.TF = "now", int64(r.Range(0, 1)), 0
				p.Ops = append(p.Ops, o)
			}
			p.Ops = append(p.Ops, Op{K: "commit", Slot: slot})
		case "ex":
			p.Ops = append(p.Ops, Op{K: "ex", Slot: r.Intn(3), S: r.Intn(cfg.NSeries), TB: []string{"now", "slast", "mint"}[r.Intn(3)], TF: int64(r.Range(-1, 1)),
				NE: r.Range(1, 2), EK: []int{0, 0, 0, 1, 2}[r.Intn(5)]})
		case "meta":
			p.Ops = append(p.Ops, Op{K: "meta", Slot: r.Intn(3), S: r.Intn(cfg.NSeries), MD: true})
		case "commit", "rollback":
			p.Ops = append(p.Ops, Op{K: k, Slot: r.Intn(3)})
		case "tick":
			n := int64(r.Range(1, int(2*cfg.FreqS)))
			if r.Chance(0.3) {
				n = cfg.FreqS
			}
			o := Op{K: "tick", N: n}
			if r.Chance(0.3) {
				o.TF = int64(r.Range(1, 999))
			}
			p.Ops = append(p.Ops, o)
		case "jump":
			p.Ops = append(p.Ops, Op{K: "tick", N: cfg.FreqS * int64(r.Range(3, 12))}) // clock jump: several truncations fire back to back
		case "rs":
			o := Op{K: "rs", Q: r.Intn(2)}
			switch r.Intn(8) {
			case 0:
				o.TB = "remove"
			case 1:
				o.TB = "zero" // a freshly (re)created queue has sent nothing yet
			case 2:
				o.TB, o.N = "lag", -int64(r.Range(1, 5))*cfg.FreqS // ahead of the clock
			default:
				o.TB, o.N = "lag", []int64{0, 0, 1, cfg.FreqS, 2 * cfg.FreqS, 10 * cfg.FreqS}[r.Intn(6)]
			}
			p.Ops = append(p.Ops, o)
		case "trunc":
			o := Op{K: "trunc", S: r.Intn(cfg.NSeries)}
			switch r.Intn(6) {
			case 0, 1:
				o.TB, o.TF = "slast", int64(r.Range(-1, 1)) // series GC / sample retention edge
			case 2:
				o.TB, o.TO = "now", -int64(r.Range(0, 6))
			case 3:
				o.TB, o.TO, o.TF = "mint", int64(r.Range(0, 3)), int64(r.Range(0, 1))
			case 4:
				o.TB, o.TO = "mint", -int64(r.Range(1, 4)) // going back in time
			default:
				o.TB, o.TF = "nmint", int64(r.Range(-1, 1))
			}
			p.Ops = append(p.Ops, o)
		case "restart":
			p.Ops = append(p.Ops, Op{K: "restart", N: int64(r.Intn(2))})
		case "crashnext":
			p.Ops = append(p.Ops, Op{K: "crashnext", N: int64(r.Intn(30))})
		case "big":
			// a big transaction: its WAL record spans several pages, so a kill can tear it
			slot := r.Intn(3)
			p.Ops = append(p.Ops, Op{K: "add", Slot: slot, S: r.Intn(cfg.NSeries), TB: "slast", TO: 1, Rep: r.Range(200, 900)})
			p.Ops = append(p.Ops, Op{K: "commit", Slot: slot})
		default:
			p.Ops = append(p.Ops, Op{K: k})
		}
	}
	return p
}

// Shrink returns simpler candidate plans: drop chunks of ops, then single ops, then simplify configuration and ops.
func Shrink(p *Plan) []*Plan {
	var out []*Plan
	n := len(p.Ops)
	for size := n / 2; size >= 1; size /= 2 {
		for start := 0; start+size <= n; start += size {
			q := &Plan{Cfg: p.Cfg}
			q.Ops = append(q.Ops, p.Ops[:start]...)
			q.Ops = append(q.Ops, p.Ops[start+size:]...)
			out = append(out, q)
		}
		if size == 1 {
			break
		}
	}
	simpl := func(f func(c *Config) bool) {
		c := p.Cfg
		if f(&c) {
			out = append(out, &Plan{Cfg: c, Ops: p.Ops})
		}
	}
	simpl(func(c *Config) bool { v := c.Comp != "none"; c.Comp = "none"; return v })
	simpl(func(c *Config) bool { v := c.Crash; c.Crash = false; return v })
	simpl(func(c *Config) bool { v := c.STStore; c.STStore = false; return v })
	simpl(func(c *Config) bool { v := c.STZero; c.STZero = false; return v })
	simpl(func(c *Config) bool { v := c.V2; c.V2 = false; return v })
	simpl(func(c *Config) bool { v := c.CPInMem; c.CPInMem = false; return v })
	simpl(func(c *Config) bool { v := c.Stripe != 16; c.Stripe = 16; return v })
	simpl(func(c *Config) bool { v := c.Queues != 1; c.Queues = 1; return v })
	simpl(func(c *Config) bool { v := c.NSeries > 2; c.NSeries = 2; return v })
	for i, o := range p.Ops {
		mod := func(f func(o *Op)) {
			q := &Plan{Cfg: p.Cfg, Ops: append([]Op(nil), p.Ops...)}
			f(&q.Ops[i])
			out = append(out, q)
		}
		if o.K == "add" && o.VK != 0 {
			mod(func(o *Op) { o.VK = 0 })
		}
		if o.K == "add" && o.Rep > 1 {
			mod(func(o *Op) { o.Rep = 0 })
		}
		if o.K == "add" && (o.NE > 0 || o.STO != 0 || o.MD) {
			mod(func(o *Op) { o.NE, o.STO, o.MD = 0, 0, false })
		}
		if o.K == "tick" && o.N > 1 {
			mod(func(o *Op) { o.N = (o.N + 1) / 2 })
		}
	}
	return out
}
