package cdmsim

import (
	"github.com/anishathalye/porcupine"
)

const (
	porcOK = iota
	porcIllegal
	porcUnknown
)

type porcIn struct {
	write bool
	ref   uint64
	h     uint64
}

// porcModel is the sequential specification: a map ref -> hash of the bytes handed to WriteChunk; partitioned by ref,
// so that the per-partition state is the hash (0 = never written).
var porcModel = porcupine.Model{
	Partition: func(history []porcupine.Operation) [][]porcupine.Operation {
		idx := map[uint64]int{}
		var out [][]porcupine.Operation
		for _, op := range history {
			ref := op.Input.(porcIn).ref
			i, ok := idx[ref]
			if !ok {
				i = len(out)
				idx[ref] = i
				out = append(out, nil)
			}
			out[i] = append(out[i], op)
		}
		return out
	},
	Init: func() interface{} { return uint64(0) },
	Step: func(state, input, output interface{}) (bool, interface{}) {
		in := input.(porcIn)
		if in.write {
			return true, in.h
		}
		// a read returns the bytes last written under that ref; a read of a ref never written cannot succeed
		return state.(uint64) != 0 && output.(uint64) == state.(uint64), state
	},
	Equal: func(a, b interface{}) bool { return a.(uint64) == b.(uint64) },
}

// porcupineCheck checks the history (call / return stamps are the harness's logical clock, one tick per invocation
// and per return). No wall-clock timeout can be used inside a synctest bubble; partitions hold one write and a few
// reads, so the search is bounded by construction. An Unknown result is counted as inconclusive, never as a violation.
func porcupineCheck(h []hop) (int, int) {
	ops := make([]porcupine.Operation, 0, len(h))
	for _, x := range h {
		var out interface{} = x.h
		ops = append(ops, porcupine.Operation{ClientId: x.client, Input: porcIn{write: x.write, ref: x.ref, h: x.h}, Call: x.call, Output: out, Return: x.ret})
	}
	switch porcupine.CheckOperationsTimeout(porcModel, ops, 0) {
	case porcupine.Ok:
		return porcOK, len(ops)
	case porcupine.Illegal:
		return porcIllegal, len(ops)
	default:
		return porcUnknown, len(ops)
	}
}
