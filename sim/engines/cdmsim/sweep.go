package cdmsim

import (
	"fmt"
	"os"
	"path/filepath"
	"sort"
	"strconv"

	"github.com/prometheus/prometheus/tsdb/chunks"
)

// sweeps damages the newest head chunk file of the closed directory (and of one crash image) at every offset
// (small files) or at sampled offsets and restarts on each damaged copy.
func (e *exec) sweeps(pi int, clean *expect) {
	if e.cfg.Sweep == 0 {
		return
	}
	e.sweepDir(e.dir, clean, fmt.Sprintf("phase %d, closed directory", pi))
	if len(e.images) > 0 && !e.isFailed() && e.rng.Intn(2) == 0 {
		im := e.images[e.rng.Intn(len(e.images))]
		e.sweepDir(im.dir, im.exp, fmt.Sprintf("phase %d, crash image of IO hit %d %s", pi, im.hit, im.site))
	}
}

func (e *exec) sweepDir(src string, exp *expect, where string) {
	ents, err := os.ReadDir(src)
	if err != nil {
		panic("harness: " + err.Error())
	}
	newest := 0
	for _, en := range ents {
		if seq, err := strconv.Atoi(en.Name()); err == nil && seq > newest {
			newest = seq
		}
	}
	if newest == 0 {
		return
	}
	name := fmt.Sprintf("%06d", newest)
	pristine, err := os.ReadFile(filepath.Join(src, name))
	if err != nil {
		panic("harness: " + err.Error())
	}
	L := contentEnd(exp, newest)
	if L > len(pristine) {
		L = len(pristine)
	}
	if len(pristine) < chunks.SegmentHeaderSize {
		return // the file holds no complete header (a crash image taken while the file was being created)
	}
	// chunk starts in the newest file
	var starts []int
	for _, s := range exp.recs {
		if s.r.seq == newest && s.durable {
			starts = append(starts, s.r.off)
		}
	}
	sort.Ints(starts)
	exhaustive := e.cfg.Sweep == 2 && L <= e.cfg.SweepMax
	set := map[int]bool{}
	add := func(t int) {
		if t >= 0 && t < len(pristine) {
			set[t] = true
		}
	}
	if exhaustive {
		for t := 0; t <= L+48; t++ {
			add(t)
		}
		e.cnt("sweeps_exhaustive", 1)
	} else {
		for t := 0; t <= 9; t++ {
			add(t)
		}
		bs := append([]int(nil), starts...)
		bs = append(bs, L)
		if len(bs) > 4 {
			// a few boundaries: the first, one in between and the last two
			bs = append(append(bs[:1:1], bs[len(bs)/2]), bs[len(bs)-2:]...)
		}
		for _, b := range bs {
			for d := -3; d <= 3; d++ {
				add(b + d)
			}
			add(b + 12) // inside the chunk meta data
			add(b + 30) // around the start of the chunk data
		}
		for i := 0; i < 8 && L > chunks.SegmentHeaderSize; i++ {
			add(chunks.SegmentHeaderSize + e.rng.Intn(L-chunks.SegmentHeaderSize))
		}
		add(L + 17)
		add(L + 33)
		add(L + 34)
		add(L + 40)
		e.cnt("sweeps_sampled", 1)
	}
	add(len(pristine) - 1)
	add(4096)
	var offs []int
	for t := range set {
		offs = append(offs, t)
	}
	sort.Ints(offs)

	// the damaged copies hold the newest file and the one before it (every restart maps every file, which is what costs)
	w := src + ".sw"
	os.RemoveAll(w)
	if err := os.MkdirAll(w, 0o777); err != nil {
		panic("harness: " + err.Error())
	}
	defer os.RemoveAll(w)
	keepFiles := map[int]bool{newest: true}
	if b, err := os.ReadFile(filepath.Join(src, fmt.Sprintf("%06d", newest-1))); err == nil {
		if err := os.WriteFile(filepath.Join(w, fmt.Sprintf("%06d", newest-1)), b, 0o666); err != nil {
			panic("harness: " + err.Error())
		}
		keepFiles[newest-1] = true
	}
	sub := &expect{files: map[int]int64{}}
	for f, v := range exp.files {
		if keepFiles[f] {
			sub.files[f] = v
		}
	}
	for _, s := range exp.recs {
		if keepFiles[s.r.seq] {
			sub.recs = append(sub.recs, s)
		}
	}
	sub.inflight = exp.inflight // a chunk as large as the write buffer is written through before its WriteChunk call returns
	sub.index()
	exp = sub
	e.mu.Lock()
	e.judging = true
	e.mu.Unlock()
	defer func() {
		e.mu.Lock()
		e.judging = false
		e.knownSig = ""
		e.mu.Unlock()
	}()
	var zbuf []byte
	for _, variant := range []string{"truncate", "zero"} {
		for ti, t := range offs {
			if e.isFailed() {
				return
			}
			if variant == "zero" && t >= L {
				continue
			}
			// Offsets that tear the 8-byte file header so that a recognisable magic number is left make the mapper
			// refuse to open (listed known finding): ordinary runs skip them.
			tornHeader := (variant == "truncate" && t >= 4 && t < chunks.SegmentHeaderSize) || (variant == "zero" && t >= 1 && t <= 4)
			if tornHeader && e.cfg.KF != TagTornHeader {
				e.cnt("steered:torn-file-header", 1)
				continue
			}
			e.mu.Lock()
			e.knownSig = ""
			if tornHeader {
				e.knownSig = "known:" + TagTornHeader
			}
			e.mu.Unlock()
			var now []byte
			if variant == "truncate" {
				now = pristine[:t]
			} else {
				// a torn write into the preallocated (zero) file: everything from t on is still zero. Most offsets are judged
				// with a shortened zero tail (the mapper stops at the first all-zero chunk header), every 8th with the whole file.
				tail := len(pristine)
				if L+256 < tail && ti%8 != 0 {
					tail = L + 256
				}
				now = append(zbuf[:0], pristine[:tail]...)
				zbuf = now
				for i := t; i < L; i++ {
					now[i] = 0
				}
			}
			if err := os.WriteFile(filepath.Join(w, name), now, 0o666); err != nil {
				panic("harness: " + err.Error())
			}
			_, cdm, ok := e.judgeDir(w, exp, &damage{seq: newest, pristine: pristine, now: now}, fmt.Sprintf("%s, newest file %d (%d bytes of content) %s at offset %d", where, newest, L, map[string]string{"truncate": "truncated", "zero": "zero-filled from"}[variant], t), 0)
			if cdm != nil {
				cdm.Close()
			}
			if !ok {
				return
			}
			e.cnt("sweep_offsets_judged", 1)
			e.cnt("fault:"+map[string]string{"truncate": "truncate@offset", "zero": "torn-write"}[variant], 1)
			// class of the offset: header / chunk boundary / inside chunk k / tail
			class := "tail"
			switch {
			case t < chunks.SegmentHeaderSize:
				class = "header"
			case t < L:
				k := sort.SearchInts(starts, t+1) - 1
				if k >= 0 && starts[k] == t {
					class = "boundary"
				} else {
					class = "inside"
				}
				if k > 3 {
					k = 3
				}
				class += strconv.Itoa(k)
			}
			e.mu.Lock()
			e.res.StateKeys = append(e.res.StateKeys, "sweep|"+variant+"|"+class+"|"+layout(exp))
			e.mu.Unlock()
		}
	}
}
