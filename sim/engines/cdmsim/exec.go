package cdmsim

import (
	"bytes"
	"encoding/binary"
	"errors"
	"fmt"
	"math"
	"os"
	"path/filepath"
	"regexp"
	"runtime/debug"
	"sort"
	"strconv"
	"strings"
	"sync"
	"testing"
	"time"

	"github.com/prometheus/prometheus/model/histogram"
	"github.com/prometheus/prometheus/tsdb/chunkenc"
	"github.com/prometheus/prometheus/tsdb/chunks"
	"github.com/prometheus/prometheus/util/simhook"

	"verif/sim/core/prng"
	"verif/sim/core/runner"
	"verif/sim/core/sched"
	"verif/sim/core/simfs"
	"verif/sim/model/histgen"
)

func scratchRoot() string {
	base := os.Getenv("VERIF_SCRATCH")
	if base == "" {
		base = "/dev/shm/verif-sim"
	}
	return filepath.Join(base, fmt.Sprintf("p%d", os.Getpid()))
}

var debugOn = os.Getenv("VERIF_DEBUG") != ""

// chunkRec is the model's record of one chunk handed to WriteChunk (the reference model is the map ref -> chunkRec
// plus the write order).
type chunkRec struct {
	ref      chunks.ChunkDiskMapperRef
	seq, off int
	series   chunks.HeadSeriesRef
	mint     int64
	maxt     int64
	n        uint16
	enc      chunkenc.Encoding
	ooo      bool
	data     []byte
	hash     uint64
	order    int
	dead     bool // a Truncate that may remove its file has been invoked: nobody may rely on it any more
	cbCalled bool // the write completed (callback ran)
	cbErr    error
	durable  bool // known to have reached the file (a flush happened after the write completed)
}

func (c *chunkRec) String() string {
	return fmt.Sprintf("ref %d:%d series=%d [%d,%d] n=%d enc=%s ooo=%v len=%d", c.seq, c.off, c.series, c.mint, c.maxt, c.n, c.enc, c.ooo, len(c.data))
}

// recSnap is the state of a chunkRec at the moment a crash image was taken.
type recSnap struct {
	r       *chunkRec
	durable bool
	dead    bool
}

// expect describes what a directory must contain.
type expect struct {
	inflight *chunkRec     // the chunk whose WriteChunk call was in progress (its ref is not known yet)
	recs     []recSnap     // in write order
	files    map[int]int64 // files on disk -> logical size (header + flushed bytes)
	byRef    map[chunks.ChunkDiskMapperRef]int
}

func (x *expect) index() {
	x.byRef = map[chunks.ChunkDiskMapperRef]int{}
	for i, s := range x.recs {
		x.byRef[s.r.ref] = i
	}
}

type image struct {
	dir      string
	site, op string
	seq      int
	n        int
	hit      int
	exp      *expect
}

// hop is one entry of the recorded history (porcupine).
type hop struct {
	write     bool
	ref       uint64
	h         uint64 // write: hash written; read: hash observed (0 = error)
	call, ret int64
	client    int
}

type exec struct {
	prop string
	plan *Plan
	cfg  Config
	res  *runner.Result
	rng  *prng.R // oracle-side choices (image reservoir, sampled offsets); never influences the mapper
	root string
	dir  string
	gen  int

	s   *sched.Sched
	cdm *chunks.ChunkDiskMapper

	mu      sync.Mutex
	recs    []*chunkRec
	byRef   map[chunks.ChunkDiskMapperRef]*chunkRec
	files   map[int]int64 // files of e.dir -> logical size, maintained from IO events
	curFile int           // newest file created in this mapper lifetime (0 = none yet)
	prevCur int           // the file that was current before curFile was created: the mapper switches to the new file a little after creating it
	order   int
	failed  bool
	judging bool

	// truncation in progress (truncator task)
	truncActive bool
	truncNo     uint32

	// worker phase for read classification: 0 idle/unknown, 1 popped (before the write), 2 written (before leaving the queue map)
	workerPhase int

	collecting bool
	images     []*image
	hits       int
	imgSeq     int

	hist   []hop
	clock  int64
	hstate []histgen.State

	inflight       *chunkRec                 // the record of the WriteChunk call in progress (only the writer task writes)
	everRef        chunks.ChunkDiskMapperRef // the greatest ref ever handed out in this run
	kfTriggered    bool
	knownSig       string // set while judging a directory damaged in a way a listed known finding covers
	writesThisLife int
	sutPanicked    bool // a task panicked inside the mapper
	floodDone      bool // the writer has queued its flood (readers of flood runs wait for it before their last reads)
	writerActive   bool

	readClasses []byte
	opKinds     []string
	phaseHashes []string
	restarts    int
	readQueued  int
}

// ---- simhook.Simulator ----

type hookT struct {
	mu sync.Mutex
	e  *exec
}

var theHook = &hookT{}

func init() { simhook.Install(theHook) }

func (h *hookT) cur() *exec {
	h.mu.Lock()
	defer h.mu.Unlock()
	return h.e
}
func (h *hookT) set(e *exec) {
	h.mu.Lock()
	h.e = e
	h.mu.Unlock()
}
func (h *hookT) Event(string, ...any)     {}
func (h *hookT) ID16(b [16]byte) [16]byte { return b }
func (h *hookT) Yield(site string, keys ...int) {
	e := h.cur()
	if e == nil {
		return
	}
	e.mu.Lock()
	s := e.s
	switch site {
	case "chunks.chunkWriteQueue.worker.popped":
		e.workerPhase = 1
	case "chunks.chunkWriteQueue.processJob.written":
		e.workerPhase = 2
	}
	e.mu.Unlock()
	if s != nil {
		s.Yield(site, keys...)
	}
	if site == "chunks.chunkWriteQueue.processJob.written" {
		e.mu.Lock()
		e.workerPhase = 0
		e.mu.Unlock()
	}
}
func (h *hookT) sched() *sched.Sched {
	e := h.cur()
	if e == nil {
		return nil
	}
	e.mu.Lock()
	defer e.mu.Unlock()
	return e.s
}
func (h *hookT) Acquire(name string, excl bool) {
	if s := h.sched(); s != nil {
		s.Acquire(name, excl)
	}
}
func (h *hookT) Release(name string, excl bool) {
	if s := h.sched(); s != nil {
		s.Release(name, excl)
	}
}
func (h *hookT) IO(op, site, path string, n int) {
	if e := h.cur(); e != nil {
		e.onIO(op, site, path, n)
	}
}

func (e *exec) fail(oracle, sig, format string, a ...any) {
	e.mu.Lock()
	defer e.mu.Unlock()
	e.failLocked(oracle, sig, format, a...)
}

func (e *exec) failLocked(oracle, sig, format string, a ...any) {
	if e.failed {
		return
	}
	e.failed = true
	for i := range a {
		if err, ok := a[i].(error); ok && err != nil {
			a[i] = strings.ReplaceAll(err.Error(), e.root, "<root>") // process-specific scratch paths do not belong into a verdict
		}
	}
	if e.kfTriggered {
		sig = "known:" + TagTruncAll
	} else if e.knownSig != "" {
		sig = e.knownSig
	}
	e.res.Violate(e.prop, oracle, sig, format, a...)
}

func (e *exec) cnt(name string, n int64) {
	e.mu.Lock()
	e.res.Count(name, n)
	e.mu.Unlock()
}

func (e *exec) eval() {
	e.mu.Lock()
	e.res.Evals++
	e.mu.Unlock()
}

func (e *exec) isFailed() bool {
	e.mu.Lock()
	defer e.mu.Unlock()
	return e.failed
}

// onIO maintains the model of the directory from the mapper's passive IO hooks, checks that Truncate removes only
// files older than requested and takes crash images. It runs in the goroutine doing the IO (the only released task).
func (e *exec) onIO(op, site, path string, n int) {
	e.mu.Lock()
	defer e.mu.Unlock()
	if e.judging {
		if strings.HasPrefix(path, e.root+"/") {
			e.res.Count("io:"+site, 1) // IO of a restart on a copy: counted, not part of the model
		}
		return
	}
	if !strings.HasPrefix(path, e.dir+"/") {
		return
	}
	seq, err := strconv.Atoi(filepath.Base(path))
	if err != nil {
		return
	}
	e.res.Count("io:"+site, 1)
	switch {
	case op == "create":
		e.files[seq] = 0
		e.prevCur, e.curFile = e.curFile, seq
	case op == "write":
		e.files[seq] += int64(n)
		if site == "chunks.ChunkDiskMapper.flushBuffer" {
			for _, r := range e.recs {
				if r.seq == seq && r.cbCalled && r.cbErr == nil {
					r.durable = true
				}
			}
		}
	case op == "remove":
		if !e.truncActive || uint32(seq) >= e.truncNo {
			e.failLocked("truncate-removes-only-older", "removed-file-not-older-than-requested", "head chunk file %d was removed; Truncate in progress: %v, requested file number %d (only files with a smaller number may be removed)", seq, e.truncActive, e.truncNo)
		}
		delete(e.files, seq)
		// the chunks of a removed file are gone for good; if the mapper later restarts its file sequence the same refs
		// denote new chunks
		kept := e.recs[:0]
		for _, r := range e.recs {
			if r.seq == seq {
				if !r.dead {
					e.failLocked("truncate-removes-only-older", "removed-file-held-live-chunks", "head chunk file %d was removed although chunk %s in it was not covered by any truncation request", seq, r)
				}
				if e.byRef[r.ref] == r {
					delete(e.byRef, r.ref)
				}
				continue
			}
			kept = append(kept, r)
		}
		for i := len(kept); i < len(e.recs); i++ {
			e.recs[i] = nil
		}
		e.recs = kept
	}
	if !e.collecting || e.cfg.ImgCap == 0 {
		return
	}
	e.hits++
	replace := -1
	if len(e.images) >= e.cfg.ImgCap {
		j := e.rng.Intn(e.hits)
		if j >= e.cfg.ImgCap {
			return
		}
		replace = j
	}
	e.imgSeq++
	im := &image{dir: filepath.Join(e.root, fmt.Sprintf("img%d", e.imgSeq)), site: site, op: op, seq: seq, n: n, hit: e.hits, exp: e.snapshotLocked()}
	if err := simfs.CopyTree(e.dir, im.dir); err != nil {
		panic(fmt.Sprintf("harness: copy image: %v", err))
	}
	e.res.Count("fault:kill@io", 1)
	if replace >= 0 {
		os.RemoveAll(e.images[replace].dir)
		e.images[replace] = im
	} else {
		e.images = append(e.images, im)
	}
}

func (e *exec) snapshotLocked() *expect {
	x := &expect{files: map[int]int64{}}
	for k, v := range e.files {
		x.files[k] = v
	}
	for _, r := range e.recs {
		x.recs = append(x.recs, recSnap{r: r, durable: r.durable, dead: r.dead})
	}
	x.inflight = e.inflight
	x.index()
	return x
}

// ---- chunk construction ----

func fnv(b []byte) uint64 {
	h := uint64(1469598103934665603)
	for _, c := range b {
		h ^= uint64(c)
		h *= 1099511628211
	}
	if h == 0 {
		h = 1
	}
	return h
}

// buildChunk encodes a real chunk of the requested encoding.
func (e *exec) buildChunk(o Op) (chunkenc.Chunk, int64, int64) {
	r := prng.New(o.Seed)
	n := o.N
	if n < 1 {
		n = 1
	}
	t := o.T
	mint, maxt := t, t
	var c chunkenc.Chunk
	switch o.Enc {
	case 0, 1:
		if o.Enc == 0 {
			c = chunkenc.NewXORChunk()
		} else {
			c = chunkenc.NewXOR2Chunk()
		}
		app, err := c.Appender()
		if err != nil {
			panic("harness: appender: " + err.Error())
		}
		mode := r.Intn(3)
		v := float64(r.Intn(1000))
		for i := 0; i < n; i++ {
			switch mode {
			case 0:
				v += float64(r.Intn(10))
			case 1:
				v = math.Float64frombits(r.Uint64())
			}
			st := int64(0)
			if o.Enc == 1 && r.Chance(0.5) {
				st = t - int64(r.Intn(1000))
			}
			app.Append(st, t, v)
			maxt = t
			if mode == 1 {
				t += int64(1 + r.Intn(1<<20))
			} else {
				t += int64(1 + r.Intn(30))
			}
		}
	default:
		float := o.Enc == 3 || o.Enc == 5
		switch o.Enc {
		case 2:
			c = chunkenc.NewHistogramChunk()
		case 3:
			c = chunkenc.NewFloatHistogramChunk()
		case 4:
			c = chunkenc.NewHistogramSTChunk()
		default:
			c = chunkenc.NewFloatHistogramSTChunk()
		}
		app, err := c.Appender()
		if err != nil {
			panic("harness: appender: " + err.Error())
		}
		var hs histgen.State
		for i := 0; i < n; i++ {
			mode := histgen.Grow
			if r.Chance(0.1) {
				mode = r.Intn(histgen.NModes)
			}
			h, fh := hs.Next(r, mode, float64(i), float)
			st := int64(0)
			if o.Enc >= 4 && r.Chance(0.5) {
				st = t - int64(r.Intn(1000))
			}
			var nc chunkenc.Chunk
			var recoded bool
			var napp chunkenc.Appender
			if float {
				nc, recoded, napp, err = app.AppendFloatHistogram(nil, st, t, fh, false)
			} else {
				nc, recoded, napp, err = app.AppendHistogram(nil, st, t, h, false)
			}
			if err != nil {
				break
			}
			if nc != nil {
				if !recoded {
					break // the sample opened a fresh chunk: keep what we have
				}
				c = nc
			}
			app = napp
			maxt = t
			t += int64(1 + r.Intn(30))
		}
		if c.NumSamples() == 0 {
			panic("harness: empty histogram chunk")
		}
		// ST histogram chunks keep the counter reset header in the top bits of their first two bytes; IterateAllChunks
		// reports those bits as part of the sample count (listed known finding): ordinary runs use the non-ST encoding
		// for such chunks.
		if o.Enc >= 4 && int(binary.BigEndian.Uint16(c.Bytes())) != c.NumSamples() {
			if e.cfg.KF != TagSTCount {
				e.cnt("steered:st-histogram-chunk-with-counter-reset-header", 1)
				o.Enc -= 2
				return e.buildChunk(o)
			}
			e.cnt("kf:st-histogram-chunk-with-counter-reset-header", 1)
		}
	}
	_ = histogram.CustomBucketsSchema
	return c, mint, maxt
}

// diskLen is the number of bytes a chunk occupies in a head chunk file according to the documented format
// (tsdb/docs/format/head_chunks.md: series ref 8, mint 8, maxt 8, encoding 1, uvarint data length, data, CRC32 4).
// The oracles use it only to know where the last chunk of a file ends (to decide whether a deliberate damage touched it).
func diskLen(r *chunkRec) int {
	n := len(r.data)
	u := 1
	for x := uint64(n); x >= 0x80; x >>= 7 {
		u++
	}
	return 8 + 8 + 8 + 1 + u + n + 4
}

// contentEnd returns where the content of file seq ends as far as the expectation knows (durable chunks only).
func contentEnd(x *expect, seq int) int {
	end := chunks.SegmentHeaderSize
	for _, s := range x.recs {
		if s.r.seq == seq && s.durable && s.r.off+diskLen(s.r) > end {
			end = s.r.off + diskLen(s.r)
		}
	}
	return end
}

// ---- mapper lifetime ----

func (e *exec) bufBytes() int { return e.cfg.BufKB * 1024 }

type yielded struct {
	series chunks.HeadSeriesRef
	ref    chunks.ChunkDiskMapperRef
	mint   int64
	maxt   int64
	n      uint16
	enc    chunkenc.Encoding
	ooo    bool
}

func iterate(cdm *chunks.ChunkDiskMapper) ([]yielded, error) {
	var ys []yielded
	err := cdm.IterateAllChunks(func(seriesRef chunks.HeadSeriesRef, chunkRef chunks.ChunkDiskMapperRef, mint, maxt int64, numSamples uint16, encoding chunkenc.Encoding, isOOO bool) error {
		ys = append(ys, yielded{seriesRef, chunkRef, mint, maxt, numSamples, encoding, isOOO})
		return nil
	})
	return ys, err
}

func normErr(err error) string {
	// structural form of an error message: numbers, hex values and scratch paths are replaced
	out := rePath.ReplaceAllString(err.Error(), "<path>")
	out = reNum.ReplaceAllString(out, "N")
	if len(out) > 100 {
		out = out[:100]
	}
	return out
}

var (
	rePath = regexp.MustCompile(`/dev/shm/[^ :]*`)
	reNum  = regexp.MustCompile(`\b(0x)?[0-9a-fA-F]*[0-9][0-9a-fA-F]*\b`)
)

// required says which chunks a directory must yield: damage == nil: every durable chunk; otherwise the maximal
// prefix (per file) of durable chunks whose bytes are unchanged by the damage.
type damage struct {
	seq      int    // damaged file
	pristine []byte // its original content
	now      []byte // its damaged content (may be shorter)
}

func (d *damage) intact(from, to int) bool {
	if to > len(d.pristine) {
		return false
	}
	if to > len(d.now) {
		return false
	}
	return bytes.Equal(d.pristine[from:to], d.now[from:to])
}

// judgeDir opens dir the way the head does after a restart (open, iterate, on corruption delete the corrupt file and
// everything after it and iterate again) and compares with exp. It returns the yielded records.
func (e *exec) judgeDir(dir string, exp *expect, dmg *damage, where string, queue int) (survivors []*chunkRec, cdm *chunks.ChunkDiskMapper, ok bool) {
	e.eval()
	cdm, err := chunks.NewChunkDiskMapper(nil, dir, chunkenc.NewPool(), e.bufBytes(), queue)
	if err != nil {
		e.fail("restart-open", "open-error:"+normErr(err), "%s: NewChunkDiskMapper failed: %v", where, err)
		return nil, nil, false
	}
	closeOnFail := func() {
		cdm.Close()
		cdm = nil
	}
	ys, err := iterate(cdm)
	corrupt := math.MaxInt
	if err != nil {
		var cerr *chunks.CorruptionErr
		if !errors.As(err, &cerr) {
			e.fail("restart-iterate", "non-corruption-error:"+normErr(err), "%s: IterateAllChunks failed with an error that is not a CorruptionErr (the head then discards every head chunk file): %v", where, err)
			closeOnFail()
			return nil, nil, false
		}
		if dmg == nil {
			e.fail("restart-iterate", "corruption-reported-on-undamaged-directory", "%s: IterateAllChunks reported corruption although no write was torn: %v", where, err)
			closeOnFail()
			return nil, nil, false
		}
		if cerr.FileIndex != dmg.seq {
			e.fail("restart-iterate", "corruption-reported-for-wrong-file", "%s: only file %d was damaged but IterateAllChunks reported %v", where, dmg.seq, err)
			closeOnFail()
			return nil, nil, false
		}
		corrupt = cerr.FileIndex
		e.cnt("corruption_detected", 1)
		if derr := cdm.DeleteCorrupted(err); derr != nil {
			e.fail("restart-iterate", "delete-corrupted-failed", "%s: DeleteCorrupted(%v) failed: %v", where, err, derr)
			closeOnFail()
			return nil, nil, false
		}
		ys, err = iterate(cdm)
		if err != nil {
			e.fail("restart-iterate", "error-after-repair:"+normErr(err), "%s: IterateAllChunks still fails after DeleteCorrupted: %v", where, err)
			closeOnFail()
			return nil, nil, false
		}
	}
	// every yielded chunk is one that was written, with its attributes, in write order and without holes
	lastIdx := map[int]int{} // per file: index (in the file's list) of the last yielded chunk
	perFile := map[int][]int{}
	for i, s := range exp.recs {
		perFile[s.r.seq] = append(perFile[s.r.seq], i)
	}
	var prev chunks.ChunkDiskMapperRef
	seen := map[int]bool{}
	for yi, y := range ys {
		if yi > 0 && !y.ref.GreaterThan(prev) {
			e.fail("restart-iterate", "not-in-write-order", "%s: IterateAllChunks yielded ref %v after %v", where, refStr(y.ref), refStr(prev))
			closeOnFail()
			return nil, nil, false
		}
		prev = y.ref
		i, known := exp.byRef[y.ref]
		if !known && exp.inflight != nil && exp.inflight.ref == y.ref {
			// the chunk being written when the image was taken: its ref had not been returned yet
			r := exp.inflight
			if y.series == r.series && y.mint == r.mint && y.maxt == r.maxt && y.n == r.n && y.enc == r.enc && y.ooo == r.ooo {
				chk, err := cdm.Chunk(y.ref)
				if err != nil || !bytes.Equal(chk.Bytes(), r.data) {
					e.fail("restart-read", "in-flight-chunk-wrong", "%s: the chunk in flight at the kill (%s) was yielded at %s but does not read back (%v)", where, r, refStr(y.ref), err)
					closeOnFail()
					return nil, nil, false
				}
				e.cnt("inflight_chunk_recovered", 1)
				survivors = append(survivors, r) // it was the newest write: it is the last chunk of the directory
				continue
			}
		}
		if !known {
			e.fail("restart-iterate", "unknown-chunk-yielded", "%s: IterateAllChunks yielded a chunk that was never written: ref %s series=%d [%d,%d] n=%d enc=%s ooo=%v", where, refStr(y.ref), y.series, y.mint, y.maxt, y.n, y.enc, y.ooo)
			closeOnFail()
			return nil, nil, false
		}
		r := exp.recs[i].r
		if y.series != r.series || y.mint != r.mint || y.maxt != r.maxt || y.n != r.n || y.enc != r.enc || y.ooo != r.ooo {
			sig := "wrong-attributes"
			if e.cfg.KF == TagSTCount && y.series == r.series && y.mint == r.mint && y.maxt == r.maxt && y.enc == r.enc && y.ooo == r.ooo &&
				(r.enc == chunkenc.EncHistogramST || r.enc == chunkenc.EncFloatHistogramST) && y.n&0x3fff == r.n {
				sig = "known:" + TagSTCount
			}
			e.fail("restart-iterate", sig, "%s: IterateAllChunks yielded ref %s series=%d [%d,%d] n=%d enc=%s ooo=%v but the chunk written there was %s", where, refStr(y.ref), y.series, y.mint, y.maxt, y.n, y.enc, y.ooo, r)
			closeOnFail()
			return nil, nil, false
		}
		// position within its file
		pos := -1
		for k, idx := range perFile[r.seq] {
			if idx == i {
				pos = k
			}
		}
		want := 0
		if l, ok := lastIdx[r.seq]; ok {
			want = l + 1
		}
		if pos != want {
			e.fail("restart-iterate", "chunk-skipped", "%s: IterateAllChunks yielded %s as entry %d of file %d, skipping %d earlier chunk(s) of that file", where, r, want, r.seq, pos-want)
			closeOnFail()
			return nil, nil, false
		}
		lastIdx[r.seq] = pos
		seen[i] = true
		survivors = append(survivors, r)
	}
	// completeness: every durable chunk of the retained files
	for i, s := range exp.recs {
		if seen[i] || !s.durable || s.r.cbErr != nil {
			continue
		}
		if _, onDisk := exp.files[s.r.seq]; !onDisk {
			continue // its file was removed by a truncation before the image was taken
		}
		if s.r.seq >= corrupt {
			e.cnt("durable_chunks_dropped_with_corrupt_file", 1)
			continue
		}
		if dmg != nil && s.r.seq == dmg.seq {
			// required only if its bytes (and those of every earlier chunk of the file) survived the damage
			end := s.r.off + diskLen(s.r)
			if !dmg.intact(chunks.SegmentHeaderSize, end) {
				continue
			}
		}
		e.fail("restart-iterate", "completed-chunk-missing", "%s: IterateAllChunks succeeded but did not yield the completed chunk %s (file %d is on disk with %d bytes of content)", where, s.r, s.r.seq, contentEnd(exp, s.r.seq))
		closeOnFail()
		return nil, nil, false
	}
	// after the restart every yielded chunk reads back with the bytes written
	for _, r := range survivors {
		e.eval()
		chk, err := cdm.Chunk(r.ref)
		if err != nil {
			e.fail("restart-read", "error:"+normErr(err), "%s: Chunk(%s) after restart failed: %v", where, refStr(r.ref), err)
			closeOnFail()
			return nil, nil, false
		}
		if chk.Encoding() != r.enc || !bytes.Equal(chk.Bytes(), r.data) {
			e.fail("restart-read", "wrong-bytes", "%s: Chunk(%s) after restart returned %d bytes enc=%s, written were %d bytes enc=%s", where, refStr(r.ref), len(chk.Bytes()), chk.Encoding(), len(r.data), r.enc)
			closeOnFail()
			return nil, nil, false
		}
	}
	return survivors, cdm, true
}

func refStr(r chunks.ChunkDiskMapperRef) string {
	s, o := r.Unpack()
	return fmt.Sprintf("%d:%d", s, o)
}

// ---- tasks ----

func (e *exec) recoverTask(name string) {
	if r := recover(); r != nil {
		msg := fmt.Sprint(r)
		if strings.HasPrefix(msg, "harness:") {
			panic(r)
		}
		st := string(debug.Stack())
		if !strings.Contains(st, "prometheus/prometheus/tsdb") {
			panic(r)
		}
		e.fail("panic", "panic:"+normErr(errors.New(msg)), "panic in %s task: %v\n%s", name, r, trimStack(st))
		e.mu.Lock()
		e.sutPanicked = true // the mapper may hold its locks for good: nothing of it is called any more (not even Close)
		e.mu.Unlock()
	}
}

func trimStack(s string) string {
	var keep []string
	for _, l := range strings.Split(s, "\n") {
		if strings.Contains(l, "prometheus/prometheus") {
			keep = append(keep, strings.TrimSpace(l))
		}
		if len(keep) >= 8 {
			break
		}
	}
	return strings.Join(keep, "\n")
}

func (e *exec) tick() int64 {
	e.mu.Lock()
	defer e.mu.Unlock()
	e.clock++
	return e.clock
}

func (e *exec) writer(ops []Op) {
	debug.SetPanicOnFault(true)
	defer func() {
		e.mu.Lock()
		e.writerActive = false
		e.mu.Unlock()
	}()
	defer e.recoverTask("writer")
	// a flood is N one-sample writes (no other task is meant to make progress in between: the worker is starved)
	var xs []Op
	for _, o := range ops {
		if o.K != "flood" {
			xs = append(xs, o)
			continue
		}
		for k := 0; k < o.N; k++ {
			xs = append(xs, Op{K: "write", S: k % e.cfg.NSeries, Enc: k % 2, N: 1, T: int64(k), Seed: uint64(k)*2654435761 + 1})
		}
		xs = append(xs, Op{K: "endstarve"})
	}
	ops = xs
	for i, o := range ops {
		if e.isFailed() {
			return
		}
		switch o.K {
		case "sleep":
			time.Sleep(time.Duration(o.N) * time.Second)
		case "endstarve":
			e.mu.Lock()
			e.floodDone = true
			e.mu.Unlock()
			e.s.EndStarve()
			e.cnt("floods", 1)
		case "write":
			chk, mint, maxt := e.buildChunk(o)
			rec := &chunkRec{series: chunks.HeadSeriesRef(o.S + 1), mint: mint, maxt: maxt, n: uint16(chk.NumSamples()), enc: chk.Encoding(), ooo: o.OOO}
			rec.data = append([]byte(nil), chk.Bytes()...)
			rec.hash = fnv(rec.data)
			e.mu.Lock()
			e.writesThisLife++
			e.inflight = rec
			e.mu.Unlock()
			call := e.tick()
			ref := e.cdm.WriteChunk(rec.series, mint, maxt, chk, o.OOO, func(err error) {
				e.mu.Lock()
				rec.cbCalled, rec.cbErr = true, err
				if err != nil {
					e.failLocked("write-completes", "write-error:"+normErr(err), "the write of chunk %s (writer op %d) failed: %v", rec, i, err)
				}
				e.mu.Unlock()
			})
			ret := e.tick()
			if debugOn {
				fmt.Printf("DBG WriteChunk -> %s\n", refStr(ref))
			}
			rec.ref = ref
			rec.seq, rec.off = ref.Unpack()
			e.mu.Lock()
			e.inflight = nil
			e.order++
			rec.order = e.order
			// refs handed out are never reused and grow with the write order as long as an older ref may still be read
			for _, old := range e.recs {
				if old.dead {
					continue
				}
				if old.ref == ref {
					e.failLocked("ref-unique", "ref-reused", "WriteChunk returned ref %s for %s, but that ref was already returned for %s which may still be read", refStr(ref), rec, old)
					break
				}
				if old.seq == rec.seq && rec.off < old.off+diskLen(old) {
					e.failLocked("ref-unique", "ref-overlaps-earlier-chunk", "WriteChunk returned ref %s for %s which lies inside the bytes of the earlier chunk %s (%d bytes on disk)", refStr(ref), rec, old, diskLen(old))
					break
				}
				if !ref.GreaterThan(old.ref) {
					e.failLocked("ref-unique", "ref-not-increasing", "WriteChunk returned ref %s for %s although the earlier ref %s (%s) may still be read: file sequence numbers went backwards", refStr(ref), rec, refStr(old.ref), old)
					break
				}
			}
			if e.everRef != 0 && !ref.GreaterThan(e.everRef) {
				// refs restarted below one handed out earlier (whose file a truncation removed)
				e.res.Count("ref_reused_after_truncation", 1)
				if e.cfg.KF == TagRefReuse && !e.failed {
					e.failed = true
					e.res.Violate(e.prop, "ref-unique", "known:"+TagRefReuse, "WriteChunk returned ref %s for %s although ref %s had been handed out before: after a truncation removed every head chunk file the mapper restarted its file sequence (holders of ref-ordered markers see refs going backwards)", refStr(ref), rec, refStr(e.everRef))
				}
			}
			if ref.GreaterThan(e.everRef) {
				e.everRef = ref
			}
			e.recs = append(e.recs, rec)
			e.byRef[ref] = rec
			e.hist = append(e.hist, hop{write: true, ref: uint64(ref), h: rec.hash, call: call, ret: ret})
			e.opKinds = append(e.opKinds, "w")
			e.mu.Unlock()
			e.cnt("writes", 1)
			if len(rec.data) >= e.bufBytes()-chunks.MaxHeadChunkMetaSize {
				e.cnt("chunk_larger_than_buffer", 1)
			}
		case "cut":
			e.cdm.CutNewFile()
			e.cnt("cuts", 1)
			e.mu.Lock()
			e.opKinds = append(e.opKinds, "c")
			e.mu.Unlock()
		case "idle":
			for k := 0; k < o.N; k++ {
				e.s.Yield("writer")
			}
		}
		e.s.Yield("writer")
	}
}

func (e *exec) truncator(ops []Op) {
	debug.SetPanicOnFault(true)
	defer e.recoverTask("trunc")
	for _, o := range ops {
		if e.isFailed() {
			return
		}
		if o.K == "idle" {
			for k := 0; k < o.N; k++ {
				e.s.Yield("trunc")
			}
			continue
		}
		e.doTruncate(o, true)
		e.s.Yield("trunc")
	}
}

// doTruncate resolves the file number, marks the refs it covers as no longer reliable, calls Truncate and checks its effect.
func (e *exec) doTruncate(o Op, concurrent bool) {
	if concurrent && e.cfg.KF != TagTruncAll {
		// ordinary runs: give the first write of this mapper lifetime a chance to complete first (see the steering below)
		for i := 0; i < 48; i++ {
			e.mu.Lock()
			wait := e.hazardLocked() && e.writerActive
			e.mu.Unlock()
			if !wait {
				break
			}
			e.s.Yield("trunc")
		}
	}
	e.mu.Lock()
	oldest, newest := math.MaxInt, 0
	for f := range e.files {
		if f < oldest {
			oldest = f
		}
		if f > newest {
			newest = f
		}
	}
	var no int64
	switch o.TB {
	case "old":
		if oldest == math.MaxInt {
			oldest = 0
		}
		no = int64(oldest + o.TO)
	case "new":
		no = int64(newest + o.TO)
	case "abs":
		no = int64(o.TO)
	default:
		no = math.MaxUint32
	}
	if no < 0 {
		no = 0
	}
	// Until the first write into the first file cut in this mapper lifetime has completed, the mapper may still have no
	// "file being written": a truncation covering every older file then removes all files it knows, and concludes that
	// the directory is empty. With a write pending or concurrent that runs into the listed known finding (sequence reset /
	// cut of a file whose number was derived before the removal): ordinary runs keep the newest older file.
	hazard := e.hazardLocked()
	oldNewest := 0
	for f := range e.files {
		if f != e.curFile && f > oldNewest {
			oldNewest = f
		}
	}
	all := hazard && (oldNewest == 0 || no > int64(oldNewest))
	if all && concurrent && (e.writerActive || e.writesThisLife > 0) {
		if e.cfg.KF != TagTruncAll {
			e.res.Count("steered:truncate-all-with-writer-active", 1)
			if oldNewest == 0 {
				e.mu.Unlock()
				return
			}
			no = int64(oldNewest)
		} else {
			e.kfTriggered = true
			e.res.Count("kf:truncate-all-with-writer-active", 1)
		}
	}
	fileNo := uint32(no)
	// files that must be gone afterwards: older than requested and not the file being written. While no write into the
	// newest file has completed the mapper may still regard the previous file as the one being written.
	confirmed := false
	for _, r := range e.recs {
		if e.curFile != 0 && r.seq == e.curFile && r.cbCalled {
			confirmed = true
		}
	}
	var mustGo []int
	for f := range e.files {
		if uint32(f) < fileNo && f != e.curFile && (confirmed || f != e.prevCur) {
			mustGo = append(mustGo, f)
		}
	}
	sort.Ints(mustGo)
	var mustStay []int
	for f := range e.files {
		if uint32(f) >= fileNo {
			mustStay = append(mustStay, f)
		}
	}
	sort.Ints(mustStay)
	for _, r := range e.recs {
		if uint32(r.seq) < fileNo {
			r.dead = true
		}
	}
	e.truncActive, e.truncNo = true, fileNo
	e.opKinds = append(e.opKinds, "t")
	e.mu.Unlock()
	e.cnt("truncates", 1)
	if all {
		e.cnt("truncate_all_files", 1)
	}

	if debugOn {
		fmt.Printf("DBG Truncate(%d) all=%v concurrent=%v files=%v cur=%d prev=%d writerActive=%v writes=%d\n", fileNo, all, concurrent, e.files, e.curFile, e.prevCur, e.writerActive, e.writesThisLife)
	}
	err := e.cdm.Truncate(fileNo)

	e.mu.Lock()
	e.truncActive = false
	e.mu.Unlock()
	if err != nil {
		e.fail("truncate-error", "truncate-error:"+normErr(err), "Truncate(%d) failed: %v", fileNo, err)
		return
	}
	e.eval()
	for _, f := range mustStay {
		if _, err := os.Stat(filepath.Join(e.dir, fmt.Sprintf("%06d", f))); err != nil {
			e.fail("truncate-removes-only-older", "file-not-older-than-requested-missing", "after Truncate(%d) head chunk file %d is gone (%v)", fileNo, f, err)
			return
		}
	}
	for _, f := range mustGo {
		if _, err := os.Stat(filepath.Join(e.dir, fmt.Sprintf("%06d", f))); err == nil {
			e.fail("truncate-removes-older", "older-file-kept", "Truncate(%d) returned nil but head chunk file %d (older than requested, not the file being written) still exists", fileNo, f)
			return
		}
	}
	if len(mustGo) > 0 {
		e.cnt("truncate_removed_files", int64(len(mustGo)))
	}
}

func (e *exec) reader(id int, steps []Read) {
	debug.SetPanicOnFault(true)
	defer e.recoverTask("reader")
	name := fmt.Sprintf("reader%d", id)
	for _, st := range steps {
		if e.isFailed() {
			return
		}
		if st.P == "afterflood" {
			// wait (in scheduling steps) until the writer has queued its flood
			for {
				e.mu.Lock()
				done := e.floodDone || !e.writerActive
				e.mu.Unlock()
				if done || e.isFailed() {
					break
				}
				e.s.Yield(name)
			}
			continue
		}
		e.mu.Lock()
		var live []*chunkRec
		for _, r := range e.recs {
			if !r.dead {
				live = append(live, r)
			}
		}
		var rec *chunkRec
		if len(live) > 0 {
			switch st.P {
			case "new":
				rec = live[len(live)-1]
			case "back":
				k := st.K
				if k >= len(live) {
					k = len(live) - 1
				}
				rec = live[len(live)-1-k]
			default:
				rec = live[st.K%len(live)]
			}
		}
		var class byte
		if rec != nil {
			switch {
			case !rec.cbCalled:
				class = 'q'
				oldest := true
				for _, r := range e.recs {
					if r.order < rec.order && !r.cbCalled {
						oldest = false
					}
				}
				if oldest && e.workerPhase == 1 {
					class = 'p'
				}
			case e.workerPhase == 2 && e.lastCompletedLocked() == rec:
				class = 'w'
			case !rec.durable:
				class = 'b'
			default:
				class = 'f'
			}
		}
		e.mu.Unlock()
		if rec == nil {
			e.s.Yield(name)
			continue
		}
		call := e.tick()
		chk, err := e.cdm.Chunk(rec.ref)
		ret := e.tick()
		e.mu.Lock()
		raced := rec.dead
		e.mu.Unlock()
		if raced {
			// a truncation covering this ref was requested while the read was in flight: the result means nothing
			e.cnt("read:raced-with-truncate", 1)
			e.s.Yield(name)
			continue
		}
		e.eval()
		e.cnt("read:"+string(class), 1)
		var h uint64
		switch {
		case err != nil:
			e.fail("chunk-read", "error:"+normErr(err), "Chunk(%s) failed while the chunk was in state %q (q queued, p popped by the worker, w written but still in the queue map, b in the write buffer, f flushed): %v; written was %s", refStr(rec.ref), class, err, rec)
		case chk.Encoding() != rec.enc:
			e.fail("chunk-read", "wrong-encoding", "Chunk(%s) in state %q returned encoding %s, written was %s", refStr(rec.ref), class, chk.Encoding(), rec)
		case !bytes.Equal(chk.Bytes(), rec.data):
			e.fail("chunk-read", "wrong-bytes", "Chunk(%s) in state %q returned %d bytes that differ from the %d bytes written (%s)", refStr(rec.ref), class, len(chk.Bytes()), len(rec.data), rec)
		default:
			h = rec.hash
		}
		e.mu.Lock()
		e.hist = append(e.hist, hop{ref: uint64(rec.ref), h: h, call: call, ret: ret, client: id + 1})
		e.readClasses = append(e.readClasses, class)
		if class == 'q' || class == 'p' {
			e.readQueued++
		}
		e.mu.Unlock()
		e.s.Yield(name)
	}
}

// hazardLocked: no write into a file cut in this mapper lifetime has completed yet, so the mapper may still have no
// "file being written".
func (e *exec) hazardLocked() bool {
	if e.curFile == 0 {
		return true
	}
	if e.prevCur != 0 {
		return false
	}
	for _, r := range e.recs {
		if r.seq == e.curFile && r.cbCalled {
			return false
		}
	}
	return true
}

func (e *exec) lastCompletedLocked() *chunkRec {
	var last *chunkRec
	for _, r := range e.recs {
		if r.cbCalled {
			last = r
		}
	}
	return last
}

// ---- phases ----

// openLive opens the mapper on e.dir (this is a restart whenever the directory is not empty), checks what it yields
// against exp and makes the yielded chunks the model.
func (e *exec) openLive(exp *expect, where string) bool {
	e.mu.Lock()
	e.judging = true
	e.mu.Unlock()
	surv, cdm, ok := e.judgeDir(e.dir, exp, nil, where, e.cfg.Queue)
	e.mu.Lock()
	e.judging = false
	e.mu.Unlock()
	if !ok {
		return false
	}
	e.cdm = cdm
	e.mu.Lock()
	keep := map[*chunkRec]bool{}
	for _, r := range surv {
		keep[r] = true
	}
	e.recs = e.recs[:0]
	e.byRef = map[chunks.ChunkDiskMapperRef]*chunkRec{}
	for _, s := range exp.recs {
		if keep[s.r] {
			r := s.r
			r.dead, r.durable, r.cbCalled = s.dead, true, true
			e.recs = append(e.recs, r)
			e.byRef[r.ref] = r
		}
	}
	if r := exp.inflight; r != nil && keep[r] {
		// the write in flight when the image was taken made it to the disk completely
		if _, listed := exp.byRef[r.ref]; !listed {
			r.dead, r.durable, r.cbCalled, r.cbErr = false, true, true, nil
			e.recs = append(e.recs, r)
			e.byRef[r.ref] = r
		}
	}
	// the directory as it is now
	e.files = map[int]int64{}
	ents, _ := os.ReadDir(e.dir)
	for _, en := range ents {
		if seq, err := strconv.Atoi(en.Name()); err == nil {
			e.files[seq] = exp.files[seq]
		}
	}
	e.curFile, e.prevCur = 0, 0
	e.writesThisLife = 0
	e.workerPhase = 0
	// the history of this mapper lifetime starts with the chunks the restart handed over
	e.hist = e.hist[:0]
	e.everRef = 0 // a restart legitimately continues after the newest surviving file
	for _, r := range e.recs {
		if r.ref.GreaterThan(e.everRef) {
			e.everRef = r.ref
		}
		e.clock++
		e.hist = append(e.hist, hop{write: true, ref: uint64(r.ref), h: r.hash, call: e.clock, ret: e.clock})
	}
	e.mu.Unlock()
	return true
}

func (e *exec) runPhase(pi int, ph Phase) bool {
	if ph.PreTruncAll {
		e.doTruncate(Op{K: "trunc", TB: "all"}, false)
		if e.isFailed() {
			return false
		}
		e.cnt("pre_truncate_all", 1)
	}
	if pi == 0 && e.cfg.Flood > 0 {
		// the queue may re-create its ref map ten minutes after it was started at the earliest (simulated time; no task
		// exists yet that could spin while the clock has to move)
		time.Sleep(11 * time.Minute)
	}
	s := sched.New(prng.Derive(e.cfg.SchedSeed, uint64(pi)), e.cfg.policy())
	s.MaxSteps = 200000
	e.mu.Lock()
	e.s = s
	e.collecting = true
	e.images = nil
	e.hits = 0
	e.writerActive = len(ph.W) > 0
	e.mu.Unlock()
	s.Go("writer", func() { e.writer(ph.W) })
	if len(ph.T) > 0 {
		s.Go("trunc", func() { e.truncator(ph.T) })
	}
	for i, rs := range ph.R {
		i, rs := i, rs
		s.Go(fmt.Sprintf("reader%d", i), func() { e.reader(i, rs) })
	}
	err := s.Run(nil)
	steps := s.Steps()
	s.Stop()
	if err != nil {
		panic(fmt.Sprintf("harness: scheduler: %v", err))
	}
	if steps >= s.MaxSteps {
		panic("harness: step cap reached")
	}
	e.cnt("sched_steps", int64(steps))
	e.phaseHashes = append(e.phaseHashes, fmt.Sprintf("%016x", s.TraceHash()))
	e.mu.Lock()
	abandoned := e.sutPanicked
	e.mu.Unlock()
	if abandoned {
		// a task panicked inside the mapper (reported): Close could block on a lock the panic left held
		e.cdm = nil
		e.mu.Lock()
		e.s = nil
		e.collecting = false
		e.mu.Unlock()
		return false
	}
	// Close drains the queue (the worker runs freely now) and flushes; crash images are still taken
	cerr := e.cdm.Close()
	e.cdm = nil
	e.mu.Lock()
	e.s = nil
	e.collecting = false
	e.mu.Unlock()
	if cerr != nil {
		e.fail("close-error", "close-error:"+normErr(cerr), "Close failed: %v", cerr)
	}
	return !e.isFailed()
}

// checkHistory checks the recorded Write/Chunk history for linearizability against the map model ref -> bytes.
func (e *exec) checkHistory() {
	if !e.cfg.Porc || len(e.hist) == 0 {
		return
	}
	res, n := porcupineCheck(e.hist)
	e.eval()
	e.cnt("porcupine_ops", int64(n))
	switch res {
	case porcIllegal:
		if debugOn {
			for _, h := range e.hist {
				fmt.Printf("DBG hist %+v\n", h)
			}
		}
		e.fail("linearizability", "history-not-linearizable", "the recorded history of %d WriteChunk/Chunk operations is not linearizable against the map model ref -> bytes", n)
	case porcUnknown:
		e.cnt("porcupine_inconclusive", 1)
	default:
		e.cnt("porcupine_ok", 1)
	}
	e.hist = e.hist[:0]
}

func (e *exec) judgeImages(pi int) {
	for _, im := range e.images {
		if e.isFailed() {
			return
		}
		where := fmt.Sprintf("phase %d, process killed at IO hit %d %s(%s file %d n=%d)", pi, im.hit, im.site, im.op, im.seq, im.n)
		e.mu.Lock()
		e.judging = true
		e.mu.Unlock()
		_, cdm, ok := e.judgeDir(im.dir+".j", e.copyOf(im.dir, im.dir+".j"), nil, where, 0)
		_ = ok
		if cdm != nil {
			cdm.Close()
		}
		os.RemoveAll(im.dir + ".j")
		e.mu.Lock()
		e.judging = false
		e.mu.Unlock()
		e.cnt("images_judged", 1)
		e.res.StateKeys = append(e.res.StateKeys, "img|"+im.site+"|"+layout(im.exp))
	}
}

// copyOf copies src to dst and returns the expectation attached to src (helper so that the call reads in one line).
func (e *exec) copyOf(src, dst string) *expect {
	os.RemoveAll(dst)
	if err := simfs.CopyTree(src, dst); err != nil {
		panic(fmt.Sprintf("harness: copy: %v", err))
	}
	for _, im := range e.images {
		if im.dir == src {
			return im.exp
		}
	}
	panic("harness: no expectation for " + src)
}

func layout(x *expect) string {
	var fs []int
	for f := range x.files {
		fs = append(fs, f)
	}
	sort.Ints(fs)
	var sb strings.Builder
	for _, f := range fs {
		n, d := 0, 0
		for _, s := range x.recs {
			if s.r.seq == f {
				n++
				if s.durable {
					d++
				}
			}
		}
		fmt.Fprintf(&sb, "f%d:%d/%d ", f-fs[0], d, n)
	}
	return sb.String()
}

// Execute runs one plan inside a synctest bubble.
func Execute(t *testing.T, prop string, plan *Plan) (res *runner.Result) {
	res = &runner.Result{Counters: map[string]int64{}}
	if plan.Cfg.BufKB == 0 || len(plan.Phases) == 0 {
		// not a cdmsim plan (e.g. another engine's replay file handed to this binary): nothing to execute
		return res
	}
	e := &exec{prop: prop, plan: plan, cfg: plan.Cfg, res: res, byRef: map[chunks.ChunkDiskMapperRef]*chunkRec{}, files: map[int]int64{}}
	e.rng = prng.New(prng.DeriveS(plan.Cfg.Seed, "oracle"))
	e.root = filepath.Join(scratchRoot(), fmt.Sprintf("c%x", plan.Cfg.Seed))
	os.RemoveAll(e.root)
	e.dir = filepath.Join(e.root, "data0", "chunks_head")
	if err := os.MkdirAll(e.dir, 0o777); err != nil {
		panic("harness: " + err.Error())
	}
	defer os.RemoveAll(e.root)
	theHook.set(e)
	defer theHook.set(nil)
	debug.SetPanicOnFault(true)
	defer func() {
		if r := recover(); r != nil {
			msg := fmt.Sprint(r)
			st := string(debug.Stack())
			if strings.HasPrefix(msg, "harness:") || !strings.Contains(st, "prometheus/prometheus/tsdb") {
				panic(r)
			}
			e.fail("panic", "panic:"+normErr(errors.New(msg)), "panic: %v\n%s", r, trimStack(st))
			if e.cdm != nil {
				func() {
					defer func() { recover() }()
					e.cdm.Close()
				}()
			}
		}
		e.finish()
	}()

	exp := &expect{files: map[int]int64{}}
	exp.index()
	for pi, ph := range plan.Phases {
		where := "initial open"
		if pi > 0 {
			where = fmt.Sprintf("restart before phase %d", pi)
		}
		if !e.openLive(exp, where) {
			return res
		}
		if pi > 0 {
			e.restarts++
		}
		if !e.runPhase(pi, ph) {
			return res
		}
		e.checkHistory()
		if e.isFailed() {
			return res
		}
		// the cleanly closed directory
		e.mu.Lock()
		for _, r := range e.recs {
			if r.cbCalled && r.cbErr == nil {
				r.durable = true
			}
		}
		clean := e.snapshotLocked()
		e.mu.Unlock()
		e.judgeImages(pi)
		if e.isFailed() {
			return res
		}
		if pi == e.cfg.SweepPhase%len(plan.Phases) {
			e.sweeps(pi, clean)
		}
		if e.isFailed() {
			return res
		}
		// continue on the closed directory or on one of the crash images
		exp = clean
		if ph.End == "crash" && len(e.images) > 0 && pi+1 < len(plan.Phases) {
			im := e.images[ph.Img%len(e.images)]
			e.gen++
			nd := filepath.Join(e.root, fmt.Sprintf("data%d", e.gen), "chunks_head")
			if err := os.MkdirAll(filepath.Dir(nd), 0o777); err != nil {
				panic("harness: " + err.Error())
			}
			if err := simfs.CopyTree(im.dir, nd); err != nil {
				panic(fmt.Sprintf("harness: copy: %v", err))
			}
			e.dir = nd
			exp = im.exp
			// the model continues from what the image holds: make it the list the restart check prunes
			e.mu.Lock()
			e.recs = e.recs[:0]
			for _, s := range exp.recs {
				e.recs = append(e.recs, s.r)
			}
			e.mu.Unlock()
			res.Count("fault:dirty-restart", 1)
		} else {
			res.Count("fault:clean-restart", 1)
		}
		for _, im := range e.images {
			os.RemoveAll(im.dir)
		}
		e.images = nil
	}
	// final restart on what the last phase left
	e.mu.Lock()
	e.judging = true
	e.mu.Unlock()
	_, cdm, _ := e.judgeDir(e.dir, exp, nil, "final restart", 0)
	if cdm != nil {
		if err := cdm.Close(); err != nil {
			e.fail("close-error", "close-error:"+normErr(err), "Close after the final restart failed: %v", err)
		}
	}
	e.restarts++
	return res
}

func (e *exec) finish() {
	r := e.res
	r.SimTimeMs = time.Since(time.Date(2000, 1, 1, 0, 0, 0, 0, time.UTC)).Milliseconds()
	rc := compress(e.readClasses)
	r.NonTrivial = e.readQueued > 0 && e.restarts > 0
	r.Key = fmt.Sprintf("q%d/b%d|%s|%s|%s", e.cfg.Queue, e.cfg.BufKB, strings.Join(e.opKinds, ""), strings.Join(e.phaseHashes, ","), rc)
	var first []Op
	if len(e.plan.Phases) > 0 {
		first = e.plan.Phases[0].W
		if len(first) > 8 {
			first = first[:8]
		}
	}
	r.Sample = map[string]any{"seed": e.cfg.Seed, "config": e.cfg, "phases": len(e.plan.Phases), "ops": strings.Join(e.opKinds, ""),
		"read_states": rc, "interleavings": e.phaseHashes, "restarts": e.restarts, "first_writer_ops": first,
		"images_judged": r.Counters["images_judged"], "offsets_judged": r.Counters["sweep_offsets_judged"]}
	r.Trace = fmt.Sprintf("%s/%s/%s/%d", strings.Join(e.phaseHashes, ","), rc, strings.Join(e.opKinds, ""), r.Evals)
}

func compress(b []byte) string {
	var sb strings.Builder
	for i := 0; i < len(b); {
		j := i
		for j < len(b) && b[j] == b[i] {
			j++
		}
		sb.WriteByte(b[i])
		if j-i > 1 {
			sb.WriteString(strconv.Itoa(j - i))
		}
		i = j
	}
	return sb.String()
}
