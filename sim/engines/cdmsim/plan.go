// Package cdmsim is engine E3/cdmsim: the real chunks.ChunkDiskMapper with its asynchronous write queue.
// A writer task (WriteChunk, CutNewFile), a truncator task (Truncate) and reader tasks (Chunk) run under the
// seeded scheduler together with the mapper's own queue worker goroutine (parked at simhook.Yield points);
// every IO hook of the mapper yields a crash image; runs consist of phases separated by restarts (clean
// Close + reopen, or reopen on a crash image); the newest file of closed / crashed directories is truncated
// (and, separately, zero-filled) at every offset and reopened. Decides C25.
package cdmsim

import (
	"encoding/json"
	"os"

	"verif/sim/core/prng"
	"verif/sim/core/sched"
)

// Tags of the known findings this engine can exercise (see known_findings.json).
const (
	TagTruncAll   = "head-chunk-file-sequence-desync-after-all-files-truncated"
	TagTornHeader = "head-chunk-file-torn-header-fails-open"
	TagSTCount    = "head-chunk-iteration-sample-count-includes-st-histogram-header-bits"
	// TagRefReuse is listed by the tsdb engines (top-level known_findings.json, also for C25): at the mapper level it shows as
	// refs that restart at 1:8 after a truncation removed every file.
	TagRefReuse = "ooo-chunk-ref-reuse-after-all-head-chunk-files-deleted"
)

// Config is the swarm configuration of one run.
type Config struct {
	Seed    uint64 `json:"seed"`
	Queue   int    `json:"queue"` // 0 (synchronous) | 1 | 4
	BufKB   int    `json:"bufkb"` // write buffer, 64 (minimum) or 128
	NSeries int    `json:"nseries"`
	Readers int    `json:"readers"`

	SchedSeed   uint64  `json:"sseed"`
	PolKind     string  `json:"pol"`
	PolStick    float64 `json:"stick,omitempty"`
	PolStarve   string  `json:"starve,omitempty"`
	PolStarveN  int     `json:"starven,omitempty"`
	PolPCTDepth int     `json:"pct,omitempty"`

	ImgCap     int  `json:"imgcap"`               // crash images kept (reservoir) per phase
	Sweep      int  `json:"sweep,omitempty"`      // 0 no offset sweep, 1 sampled offsets, 2 every offset when the newest file is small
	SweepMax   int  `json:"sweepmax,omitempty"`   // "small": content of the newest file up to this many bytes
	SweepPhase int  `json:"sweepphase,omitempty"` // the phase (modulo their number) after which the sweep runs
	Porc       bool `json:"porc,omitempty"`       // check the recorded history with porcupine

	// Flood > 0: the first phase starts after a pause of more than ten minutes and first writes this many one-sample
	// chunks while the queue worker is starved (queue capacity Flood+100): the queue's ref map reaches its shrink
	// threshold with every chunk still pending.
	Flood int `json:"flood,omitempty"`

	// KF: tag of the one listed known finding this run is allowed to exercise ("" = the run steers around them).
	KF string `json:"kf,omitempty"`
}

func (c Config) policy() sched.Policy {
	return sched.Policy{Kind: c.PolKind, Stick: c.PolStick, Starve: c.PolStarve, StarveSteps: c.PolStarveN, PCTDepth: c.PolPCTDepth}
}

// Op is one operation of the writer or the truncator task.
type Op struct {
	K string `json:"k"` // write | cut | trunc | idle

	// write
	S    int    `json:"s,omitempty"`    // series index
	Enc  int    `json:"enc,omitempty"`  // 0 XOR 1 XOR2 2 histogram 3 float histogram 4 histogram+ST 5 float histogram+ST
	N    int    `json:"n,omitempty"`    // samples
	OOO  bool   `json:"ooo,omitempty"`  // out-of-order flag
	T    int64  `json:"t,omitempty"`    // first timestamp
	Seed uint64 `json:"seed,omitempty"` // sample values

	// trunc: file number = base + TO where base is the oldest existing file ("old"), the newest ("new") or absolute 0 ("abs"); "all" = beyond every file
	TB string `json:"tb,omitempty"`
	TO int    `json:"to,omitempty"`
}

// Read is one step of a reader task: which of the refs returned so far (and not covered by a truncation) to read.
type Read struct {
	P string `json:"p"`           // new (the newest ref) | back (K-th newest) | any (K modulo the number of refs)
	K int    `json:"k,omitempty"` //
}

// Phase is one concurrent section, ended by a restart.
type Phase struct {
	PreTruncAll bool     `json:"pretruncall,omitempty"` // right after the (re)open, with nothing else running: Truncate beyond every file (the mapper restarts its file sequence)
	W           []Op     `json:"w"`
	T           []Op     `json:"t,omitempty"`
	R           [][]Read `json:"r,omitempty"`
	End         string   `json:"end"`           // clean (Close + reopen) | crash (continue on a crash image taken in this phase)
	Img         int      `json:"img,omitempty"` // crash: which of the kept images (modulo their number)
}

// Plan = config + phases. Execution is a pure function of the plan.
type Plan struct {
	Cfg    Config  `json:"cfg"`
	Phases []Phase `json:"phases"`
}

func (p *Plan) String() string {
	b, _ := json.Marshal(p)
	return string(b)
}

func genWrite(r *prng.R, cfg Config, fat bool) Op {
	o := Op{K: "write", S: r.Intn(cfg.NSeries), Enc: r.Intn(6), OOO: r.Chance(0.3), Seed: r.Uint64() >> 1}
	o.N = []int{1, 1, 2, 3, 5, 12, 30, 120}[r.Intn(8)]
	if fat {
		o.N = r.Range(100, 900)
		if o.Enc >= 2 && o.N > 200 {
			o.N = 200
		}
	}
	switch r.Intn(6) {
	case 0:
		o.T = 0
	case 1:
		o.T = -int64(r.Range(1, 100000))
	default:
		o.T = int64(r.Intn(1 << 30))
	}
	if r.Chance(0.015) {
		// a chunk at least as large as the write buffer (written through, flushed at once)
		o.Enc, o.N = 0, 7000*cfg.BufKB/64
	}
	return o
}

func genTrunc(r *prng.R) Op {
	o := Op{K: "trunc"}
	switch r.Intn(8) {
	case 0, 1:
		o.TB, o.TO = "old", r.Range(0, 2)
	case 2, 3, 4:
		o.TB, o.TO = "new", r.Range(-2, 1)
	case 5:
		o.TB, o.TO = "abs", r.Range(0, 6)
	default:
		o.TB = "all"
	}
	return o
}

func genPhase(r *prng.R, cfg Config, first bool) Phase {
	ph := Phase{}
	fat := r.Chance(0.2)
	nw := r.Range(4, 40)
	if fat {
		nw = r.Range(10, 60)
	}
	cutW := []int{0, 4, 10, 25}[r.Intn(4)]
	for i := 0; i < nw; i++ {
		switch r.Pick([]int{100, cutW, 6}) {
		case 0:
			ph.W = append(ph.W, genWrite(r, cfg, fat))
		case 1:
			ph.W = append(ph.W, Op{K: "cut"})
		default:
			ph.W = append(ph.W, Op{K: "idle", N: r.Range(1, 4)})
		}
	}
	if r.Chance(0.75) {
		nt := r.Range(1, 5)
		for i := 0; i < nt; i++ {
			if r.Chance(0.7) {
				ph.T = append(ph.T, Op{K: "idle", N: r.Range(1, 12)})
			}
			ph.T = append(ph.T, genTrunc(r))
		}
	}
	for i := 0; i < cfg.Readers; i++ {
		var rs []Read
		n := r.Range(nw/2, 3*nw)
		for j := 0; j < n; j++ {
			switch r.Intn(10) {
			case 0, 1, 2, 3, 4:
				rs = append(rs, Read{P: "new"})
			case 5, 6, 7:
				rs = append(rs, Read{P: "back", K: r.Range(1, 6)})
			default:
				rs = append(rs, Read{P: "any", K: r.Intn(1000)})
			}
		}
		ph.R = append(ph.R, rs)
	}
	if !first && r.Chance(0.15) {
		ph.PreTruncAll = true
	}
	ph.End = "clean"
	if r.Chance(0.4) {
		ph.End, ph.Img = "crash", r.Intn(1000)
	}
	return ph
}

// Generate builds a plan from the seed.
func Generate(prop, tier string, seed uint64) *Plan {
	rc := prng.New(prng.DeriveS(seed, "config"))
	cfg := Config{Seed: seed}
	cfg.Queue = []int{0, 1, 1, 4, 4}[rc.Intn(5)]
	cfg.BufKB = []int{64, 64, 64, 128}[rc.Intn(4)]
	cfg.NSeries = rc.Range(1, 5)
	cfg.Readers = rc.Range(1, 3)
	cfg.SchedSeed = prng.DeriveS(seed, "sched")
	pol := sched.DrawPolicy(rc, []string{"chunks.chunkWriteQueue", "writer", "reader", "trunc", "chunks.ChunkDiskMapper.Truncate"})
	cfg.PolKind, cfg.PolStick, cfg.PolStarve, cfg.PolStarveN, cfg.PolPCTDepth = pol.Kind, pol.Stick, pol.Starve, pol.StarveSteps, pol.PCTDepth
	cfg.ImgCap = []int{2, 4, 4, 6}[rc.Intn(4)]
	cfg.SweepMax = 500
	switch rc.Intn(32) {
	case 0:
		cfg.Sweep = 2
	case 1, 2, 3, 4:
		cfg.Sweep = 1
	}
	cfg.SweepPhase = rc.Intn(3)
	if tier == "thorough" {
		cfg.ImgCap *= 2
		cfg.SweepMax = 2000
	}
	cfg.Porc = rc.Chance(0.5)
	kf := []string{TagTruncAll, TagTornHeader, TagSTCount, TagRefReuse}[rc.Intn(4)]
	// Known findings are reproduced deterministically by `check` from their committed replay plans; only a very small
	// fraction of ordinary runs exercises them in addition (a worker stops after three violating runs, listed or not).
	kfFrac := 0.004
	if tier == "thorough" {
		kfFrac = 0.0002
	}
	if rc.Chance(kfFrac) || os.Getenv("VERIF_FORCE_KF") != "" { // the env var is a finding-hunting aid; replay files carry the plan
		cfg.KF = kf
		if f := os.Getenv("VERIF_FORCE_KF"); f != "" && f != "1" {
			cfg.KF = f
		}
	}
	if cfg.KF == TagTornHeader && cfg.Sweep == 0 {
		cfg.Sweep = 1
	}
	if cfg.KF == "" && rc.Chance(0.03) {
		cfg.Flood = 1000 + rc.Intn(80)
		cfg.Queue = cfg.Flood + 100
		cfg.PolKind, cfg.PolStarve, cfg.PolStarveN = "starve", "chunks.chunkWriteQueue", 1<<30
		cfg.Sweep, cfg.Porc, cfg.ImgCap = 0, false, 2
	}
	r := prng.New(prng.DeriveS(seed, "ops"))
	p := &Plan{Cfg: cfg}
	np := []int{1, 2, 2, 3}[r.Intn(4)]
	for i := 0; i < np; i++ {
		p.Phases = append(p.Phases, genPhase(r, cfg, i == 0))
	}
	if cfg.Flood > 0 {
		ph := &p.Phases[0]
		ph.W = append([]Op{{K: "flood", N: cfg.Flood}}, ph.W...)
		ph.T = nil // no truncation takes the queued chunks away before they are read
		for i := range ph.R {
			ph.R[i] = append(ph.R[i], Read{P: "afterflood"})
			for j := 0; j < 80; j++ {
				ph.R[i] = append(ph.R[i], Read{P: "any", K: r.Intn(100000)})
			}
		}
	}
	return p
}

func clonePlan(p *Plan) *Plan {
	b, _ := json.Marshal(p)
	var q Plan
	_ = json.Unmarshal(b, &q)
	return &q
}

// Shrink returns simpler candidates: fewer phases, fewer ops / reads, simpler configuration.
func Shrink(p *Plan) []*Plan {
	var out []*Plan
	// cheap-to-run configurations first: later candidates then execute fast
	simpl := func(f func(c *Config) bool) {
		q := clonePlan(p)
		if f(&q.Cfg) {
			out = append(out, q)
		}
	}
	if p.Cfg.Flood > 0 {
		q := clonePlan(p)
		q.Cfg.Flood, q.Cfg.Queue, q.Cfg.PolKind, q.Cfg.PolStarve, q.Cfg.PolStarveN = 0, 4, "uniform", "", 0
		var w []Op
		for _, o := range q.Phases[0].W {
			if o.K != "flood" && o.K != "sleep" {
				w = append(w, o)
			}
		}
		q.Phases[0].W = w
		out = append(out, q)
	}
	simpl(func(c *Config) bool { v := c.Sweep != 0; c.Sweep = 0; return v })
	simpl(func(c *Config) bool { v := c.Sweep == 2; c.Sweep = 1; return v })
	simpl(func(c *Config) bool { v := c.ImgCap > 0; c.ImgCap = 0; return v })
	simpl(func(c *Config) bool { v := c.Porc; c.Porc = false; return v })
	simpl(func(c *Config) bool { v := c.PolKind != "uniform"; c.PolKind = "uniform"; return v })
	simpl(func(c *Config) bool {
		v := c.Queue > 1 && c.Flood == 0
		return v && func() bool { c.Queue = 1; return true }()
	}) // a flood needs its queue capacity
	simpl(func(c *Config) bool { v := c.BufKB != 64; c.BufKB = 64; return v })
	// drop phases (keep at least one)
	for i := range p.Phases {
		if len(p.Phases) > 1 {
			q := clonePlan(p)
			q.Phases = append(q.Phases[:i], q.Phases[i+1:]...)
			out = append(out, q)
		}
	}
	dropOps := func(get func(ph *Phase) *[]Op) {
		for pi := range p.Phases {
			n := len(*get(&p.Phases[pi]))
			for size := n / 2; size >= 1; size /= 2 {
				for start := 0; start+size <= n; start += size {
					q := clonePlan(p)
					l := get(&q.Phases[pi])
					*l = append((*l)[:start], (*l)[start+size:]...)
					out = append(out, q)
				}
			}
		}
	}
	dropOps(func(ph *Phase) *[]Op { return &ph.W })
	dropOps(func(ph *Phase) *[]Op { return &ph.T })
	for pi := range p.Phases {
		for ri := range p.Phases[pi].R {
			n := len(p.Phases[pi].R[ri])
			// drop a whole reader, halves, quarters, then singles when short
			q := clonePlan(p)
			q.Phases[pi].R = append(q.Phases[pi].R[:ri], q.Phases[pi].R[ri+1:]...)
			out = append(out, q)
			for size := n / 2; size >= 1; size /= 2 {
				if size < 2 && n > 24 {
					break
				}
				for start := 0; start+size <= n; start += size {
					q := clonePlan(p)
					l := &q.Phases[pi].R[ri]
					*l = append((*l)[:start], (*l)[start+size:]...)
					out = append(out, q)
				}
			}
		}
		if p.Phases[pi].End == "crash" {
			q := clonePlan(p)
			q.Phases[pi].End = "clean"
			out = append(out, q)
		}
		if p.Phases[pi].PreTruncAll {
			q := clonePlan(p)
			q.Phases[pi].PreTruncAll = false
			out = append(out, q)
		}
	}
	// simpler chunks
	for pi := range p.Phases {
		for oi, o := range p.Phases[pi].W {
			if o.K == "write" && (o.N > 1 || o.Enc != 0) {
				q := clonePlan(p)
				q.Phases[pi].W[oi].N, q.Phases[pi].W[oi].Enc = 1, 0
				out = append(out, q)
			}
		}
	}
	return out
}
