// Package notifysim is engine E5/notifysim: the real notifier.Manager (send loops, alertmanager sets,
// relabeling, ApplyConfig, SD-driven set changes, Stop with / without drain) with simulated
// Alertmanagers behind notifier.Options.Do, every goroutine scheduled by core/sched inside one
// synctest bubble. It decides property C46.
package notifysim

import (
	"encoding/json"
	"fmt"
	"os"
	"sort"

	"verif/sim/core/prng"
	"verif/sim/core/sched"
)

// Policy mirrors sched.Policy (JSON-able).
type Policy struct {
	Kind        string  `json:"kind"`
	Stick       float64 `json:"stick,omitempty"`
	Starve      string  `json:"starve,omitempty"`
	StarveSteps int     `json:"starve_steps,omitempty"`
	PCTDepth    int     `json:"pct_depth,omitempty"`
}

// Config is the swarm configuration of one run.
type Config struct {
	Seed      uint64 `json:"seed"`
	SchedSeed uint64 `json:"sched_seed"`
	Pol       Policy `json:"policy"`
	QueueCap  int    `json:"queue_cap"`
	MaxBatch  int    `json:"max_batch"`
	Drain     bool   `json:"drain"`
	// Settle: before Stop, wait until all workload tasks are done, give the send loops a generous
	// simulated time and check that nothing is stuck in a queue.
	Settle bool `json:"settle,omitempty"`
	// CloseSD: close the target-set channel before Stop (the discovery manager went away first).
	CloseSD  bool `json:"close_sd,omitempty"`
	StopAtMs int  `json:"stop_at_ms"`
	// NetDelay (known-finding mode, see known_findings.json): requests spend Resp.PreMs on the network before
	// the Alertmanager receives them, so two requests that the notifier has in flight at once may arrive swapped.
	NetDelay bool `json:"net_delay,omitempty"`
	// Choices, if non-nil, replaces the seeded scheduler choices (index into the sorted runnable list).
	Choices []int `json:"choices,omitempty"`
}

// Rule is one relabel rule of the tiny rule language used for alert relabeling. The model
// implements exactly these; the real side gets the equivalent relabel_config YAML.
//
//	drop    : drop alerts whose label `class` equals Arg
//	keep    : keep only alerts whose label `class` is one of the letters in Arg (e.g. "ab")
//	replace : set label Target to "<Target>-<class>"
type Rule struct {
	Kind   string `json:"kind"`
	Arg    string `json:"arg,omitempty"`
	Target string `json:"target,omitempty"`
}

// AMCfg is one alertmanager_config entry. (Fam,Var) identifies its content: the path prefix is
// "/f<Fam>v<Var>", so the URL of a request tells which configuration produced the send loop.
type AMCfg struct {
	Fam       int    `json:"fam"`
	Var       int    `json:"var"`
	TimeoutMs int    `json:"timeout_ms"`
	Rules     []Rule `json:"rules,omitempty"`     // alert_relabel_configs of this alertmanager config
	DropHost  string `json:"drop_host,omitempty"` // relabel_configs: drop this discovered address
}

// CfgVersion is one configuration handed to ApplyConfig.
type CfgVersion struct {
	Ext   string  `json:"ext,omitempty"` // external label value ("" = none); label name "ext"
	Rules []Rule  `json:"rules,omitempty"`
	AMs   []AMCfg `json:"ams"`
}

// AlertSpec is one numbered alert.
type AlertSpec struct {
	ID    int    `json:"id"`
	Class string `json:"class"`
	Ext   bool   `json:"ext,omitempty"` // alert already carries its own "ext" label (external label must not override)
}

// Op is one step of a workload task.
//
//	send  : Manager.Send(Alerts...)
//	sleep : advance (this task's) simulated time by Ms
//	sd    : send a target-set update {config-<Key>: Groups} (+ {config-<Key2>: Groups2} if Key2 >= 0) on the SD channel
//	cfg   : Manager.ApplyConfig(Cfgs[Cfg])
//	ams   : Manager.Alertmanagers() must list exactly the Alertmanagers that have a running send loop
type Op struct {
	K       string      `json:"k"`
	Ms      int         `json:"ms,omitempty"`
	Alerts  []AlertSpec `json:"alerts,omitempty"`
	Key     int         `json:"key,omitempty"`
	Groups  [][]string  `json:"groups,omitempty"`
	Key2    int         `json:"key2,omitempty"` // -1 / 0 with nil Groups2 = single-key update
	Groups2 [][]string  `json:"groups2,omitempty"`
	Cfg     int         `json:"cfg,omitempty"`
}

// Task is a harness task: "sender<i>", "sd", "cfg".
type Task struct {
	Name string `json:"name"`
	Ops  []Op   `json:"ops"`
}

// Resp is the scripted behaviour of a simulated Alertmanager for one request (by arrival ordinal per host).
type Resp struct {
	Code  int  `json:"code"`             // HTTP status (0 = 200)
	LatMs int  `json:"lat_ms,omitempty"` // time between reception and response; >= timeout => the client gives up
	PreMs int  `json:"pre_ms,omitempty"` // Config.NetDelay only: time between Options.Do and reception
	Err   bool `json:"err,omitempty"`    // transport error instead of a response (connection refused/reset)
}

// AMScript is the behaviour of one simulated Alertmanager host.
type AMScript struct {
	Host  string `json:"host"`
	Resps []Resp `json:"resps,omitempty"` // request i gets Resps[i]; afterwards 200 without latency
}

// Plan = config + configuration versions + workload tasks + Alertmanager scripts.
type Plan struct {
	Cfg   Config       `json:"cfg"`
	Cfgs  []CfgVersion `json:"cfgs"` // Cfgs[0] is applied before Run starts
	Tasks []Task       `json:"tasks"`
	AMs   []AMScript   `json:"ams"`
}

func (p *Plan) String() string {
	b, _ := json.Marshal(p)
	return string(b)
}

func hostName(fam, k int) string { return fmt.Sprintf("f%dh%d:9093", fam, k) }

const classes = "abcd"

func genRules(r *prng.R, target string) []Rule {
	var out []Rule
	n := []int{0, 0, 1, 1, 2}[r.Intn(5)]
	for i := 0; i < n; i++ {
		switch r.Intn(3) {
		case 0:
			out = append(out, Rule{Kind: "drop", Arg: string(classes[r.Intn(len(classes))])})
		case 1:
			// keep 2-3 classes
			perm := []byte(classes)
			for j := len(perm) - 1; j > 0; j-- {
				k := r.Intn(j + 1)
				perm[j], perm[k] = perm[k], perm[j]
			}
			keep := perm[:r.Range(2, 3)]
			sort.Slice(keep, func(a, b int) bool { return keep[a] < keep[b] })
			out = append(out, Rule{Kind: "keep", Arg: string(keep)})
		default:
			out = append(out, Rule{Kind: "replace", Target: target})
		}
	}
	return out
}

// Generate derives a plan from the seed (pure).
func Generate(prop, tier string, seed uint64) *Plan {
	rc := prng.New(prng.DeriveS(seed, "config"))
	p := &Plan{}
	c := &p.Cfg
	c.Seed = seed
	c.SchedSeed = prng.DeriveS(seed, "sched")
	c.QueueCap = []int{1, 2, 3, 3, 4, 5, 6, 8, 12, 20, 10000}[rc.Intn(11)]
	c.MaxBatch = []int{1, 1, 2, 2, 3, 4, 5, 8, 256}[rc.Intn(9)]
	c.Drain = rc.Chance(0.5)
	c.Settle = rc.Chance(0.3)
	c.CloseSD = rc.Chance(0.2)

	nFam := 1
	if rc.Chance(0.4) {
		nFam = 2
	}
	nSenders := rc.Range(1, 3)
	starve := []string{"notifier.sendLoop.loop", "notifier.Manager.targetUpdateLoop", "sender0", "am:", "sd"}
	sp := sched.DrawPolicy(rc, starve)
	c.Pol = Policy{Kind: sp.Kind, Stick: sp.Stick, Starve: sp.Starve, StarveSteps: sp.StarveSteps, PCTDepth: sp.PCTDepth}

	// --- configuration versions
	rv := prng.New(prng.DeriveS(seed, "cfgs"))
	baseTimeout := []int{100, 200, 500, 1000, 2000}[rv.Intn(5)]
	nextVar := map[int]int{}
	mkAM := func(fam int) AMCfg {
		a := AMCfg{Fam: fam, Var: nextVar[fam], TimeoutMs: baseTimeout * []int{1, 1, 2}[rv.Intn(3)]}
		nextVar[fam]++
		a.Rules = genRules(rv, "p")
		if rv.Chance(0.15) {
			a.DropHost = hostName(fam, rv.Intn(3))
		}
		return a
	}
	v0 := CfgVersion{Rules: genRules(rv, "g")}
	if rv.Chance(0.4) {
		v0.Ext = "E0"
	}
	for f := 0; f < nFam; f++ {
		v0.AMs = append(v0.AMs, mkAM(f))
	}
	p.Cfgs = append(p.Cfgs, v0)
	nVers := []int{1, 1, 2, 3, 4}[rv.Intn(5)]
	for i := 1; i < nVers; i++ {
		prev := p.Cfgs[i-1]
		nv := CfgVersion{Ext: prev.Ext, Rules: prev.Rules}
		nv.AMs = append(nv.AMs, prev.AMs...)
		switch rv.Intn(7) {
		case 0: // identical reload: send loops are transferred
		case 1: // global relabeling / external labels change only
			nv.Rules = genRules(rv, "g")
			if rv.Chance(0.5) {
				nv.Ext = fmt.Sprintf("E%d", i)
			} else {
				nv.Ext = ""
			}
		case 2: // one alertmanager config changes (new hash): its loops are stopped and rebuilt by the next SD update
			if len(nv.AMs) > 0 {
				k := rv.Intn(len(nv.AMs))
				nv.AMs[k] = mkAM(nv.AMs[k].Fam)
			}
		case 3: // swap positions: loops move to another key by config hash
			if len(nv.AMs) == 2 {
				nv.AMs[0], nv.AMs[1] = nv.AMs[1], nv.AMs[0]
			} else {
				nv.Rules = genRules(rv, "g")
			}
		case 4: // remove a config
			if len(nv.AMs) > 1 {
				k := rv.Intn(len(nv.AMs))
				nv.AMs = append(append([]AMCfg{}, nv.AMs[:k]...), nv.AMs[k+1:]...)
			} else if len(nv.AMs) == 1 && rv.Chance(0.3) {
				nv.AMs = nil
			}
		case 5: // add a config of a family that is not present
			present := map[int]bool{}
			for _, a := range nv.AMs {
				present[a.Fam] = true
			}
			for f := 0; f < nFam; f++ {
				if !present[f] {
					nv.AMs = append(nv.AMs, mkAM(f))
					break
				}
			}
		default: // insert a config in front: every key shifts
			present := map[int]bool{}
			for _, a := range nv.AMs {
				present[a.Fam] = true
			}
			for f := 0; f < nFam; f++ {
				if !present[f] {
					nv.AMs = append([]AMCfg{mkAM(f)}, nv.AMs...)
					break
				}
			}
		}
		p.Cfgs = append(p.Cfgs, nv)
	}

	// --- simulated Alertmanagers
	ra := prng.New(prng.DeriveS(seed, "ams"))
	faulty := ra.Chance(0.75)
	// With drain and two alertmanager configs the order in which Manager.Run / ApplyConfig / reload walk
	// their Go maps of sets decides the order of blocking drain sends: keep the fake Alertmanagers
	// latency-free there so that a stop is one atomic step and the run stays a function of the plan.
	noLatency := c.Drain && nFam > 1
	// a very small fraction of runs exercises the known finding (every violating run counts towards the
	// runner's -sim.maxviol cap, so it has to stay rare); VERIF_FORCE_KF=1 is a finding-hunting aid
	c.NetDelay = !noLatency && (ra.Intn(8000) == 0 || os.Getenv("VERIF_FORCE_KF") != "")
	if c.NetDelay {
		faulty = true
	}
	maxTimeout := 0
	for _, v := range p.Cfgs {
		for _, a := range v.AMs {
			if a.TimeoutMs > maxTimeout {
				maxTimeout = a.TimeoutMs
			}
		}
	}
	if maxTimeout == 0 {
		maxTimeout = baseTimeout
	}
	for f := 0; f < nFam; f++ {
		for k := 0; k < 3; k++ {
			s := AMScript{Host: hostName(f, k)}
			if faulty {
				n := ra.Range(0, 30)
				mode := ra.Intn(4) // 0 healthy-ish, 1 flaky, 2 slow, 3 down for a while
				for i := 0; i < n; i++ {
					var rp Resp
					x := ra.Intn(100)
					switch mode {
					case 0:
						if x < 8 {
							rp.Code = 500
						}
					case 1:
						switch {
						case x < 20:
							rp.Code = []int{500, 503, 400, 429}[ra.Intn(4)]
						case x < 30:
							rp.Err = true
						case x < 40:
							rp.Code = 202
						}
					case 2:
						rp.LatMs = []int{1, 10, baseTimeout / 3, baseTimeout/2 + 7, maxTimeout * 3}[ra.Intn(5)]
						if x < 15 {
							rp.Code = 500
						}
					default:
						if i < n/2 {
							if x < 50 {
								rp.Err = true
							} else {
								rp.LatMs = maxTimeout*2 + 13
							}
						}
					}
					if mode != 2 && ra.Chance(0.25) {
						rp.LatMs = []int{1, 5, 30, baseTimeout/2 + 7}[ra.Intn(4)]
					}
					if noLatency {
						rp.LatMs = 0
					}
					if c.NetDelay && ra.Chance(0.5) {
						rp.PreMs = []int{1, 7, 40, baseTimeout / 3, baseTimeout/2 + 3}[ra.Intn(5)]
					}
					s.Resps = append(s.Resps, rp)
				}
			}
			p.AMs = append(p.AMs, s)
		}
	}

	// --- workload
	rw := prng.New(prng.DeriveS(seed, "workload"))
	burst := rw.Chance(0.4) // senders rarely sleep: queues overflow
	for si := 0; si < nSenders; si++ {
		t := Task{Name: fmt.Sprintf("sender%d", si)}
		nOps := rw.Range(3, 25)
		id := si*100000 + 1
		for i := 0; i < nOps; i++ {
			if rw.Chance(map[bool]float64{true: 0.1, false: 0.45}[burst]) {
				t.Ops = append(t.Ops, Op{K: "sleep", Ms: []int{1, 5, 20, 50, 100, 300, baseTimeout}[rw.Intn(7)]})
			}
			if rw.Chance(0.15) {
				t.Ops = append(t.Ops, Op{K: "ams"})
			}
			n := []int{1, 1, 1, 2, 2, 3, 4, 6, 9}[rw.Intn(9)]
			op := Op{K: "send"}
			for j := 0; j < n; j++ {
				op.Alerts = append(op.Alerts, AlertSpec{ID: id, Class: string(classes[rw.Intn(len(classes))]), Ext: rw.Chance(0.1)})
				id++
			}
			t.Ops = append(t.Ops, op)
		}
		p.Tasks = append(p.Tasks, t)
	}

	// SD task: the initial update comes early; later updates change the sets.
	rs := prng.New(prng.DeriveS(seed, "sd"))
	sd := Task{Name: "sd"}
	genGroups := func(fam int) [][]string {
		var gs [][]string
		switch rs.Intn(8) {
		case 0: // everything gone
			return [][]string{{}}
		case 1: // no groups at all
			return nil
		}
		ng := rs.Range(1, 2)
		for g := 0; g < ng; g++ {
			var hs []string
			for k := 0; k < 3; k++ {
				if rs.Chance(0.55) {
					hs = append(hs, hostName(fam, k))
				}
			}
			gs = append(gs, hs)
		}
		return gs
	}
	famAt := func(ver, key int) int {
		if ver < len(p.Cfgs) && key < len(p.Cfgs[ver].AMs) {
			return p.Cfgs[ver].AMs[key].Fam
		}
		return rs.Intn(nFam)
	}
	full := func(fam int) [][]string {
		return [][]string{{hostName(fam, 0), hostName(fam, 1)}, {hostName(fam, 2), hostName(fam, 0)}}
	}
	multiKey := !c.Drain || noLatency
	// initial update
	{
		op := Op{K: "sd", Key: 0, Key2: -1}
		if rs.Chance(0.7) {
			op.Groups = full(famAt(0, 0))
		} else {
			op.Groups = genGroups(famAt(0, 0))
		}
		if len(p.Cfgs[0].AMs) > 1 && multiKey {
			op.Key2 = 1
			op.Groups2 = full(famAt(0, 1))
		}
		sd.Ops = append(sd.Ops, op)
		if len(p.Cfgs[0].AMs) > 1 && !multiKey {
			sd.Ops = append(sd.Ops, Op{K: "sd", Key: 1, Key2: -1, Groups: full(famAt(0, 1))})
		}
	}
	nSD := []int{0, 1, 2, 3, 5, 8}[rs.Intn(6)]
	curVerGuess := 0
	for i := 0; i < nSD; i++ {
		sd.Ops = append(sd.Ops, Op{K: "sleep", Ms: []int{1, 10, 50, 100, 200, 400}[rs.Intn(6)]})
		if rs.Chance(0.3) && curVerGuess+1 < len(p.Cfgs) {
			curVerGuess++
		}
		key := rs.Intn(2)
		if len(p.Cfgs[curVerGuess].AMs) < 2 || rs.Chance(0.6) {
			key = 0
		}
		op := Op{K: "sd", Key: key, Key2: -1, Groups: genGroups(famAt(curVerGuess, key))}
		if multiKey && rs.Chance(0.4) {
			op.Key2 = 1 - key
			op.Groups2 = genGroups(famAt(curVerGuess, 1-key))
		}
		sd.Ops = append(sd.Ops, op)
	}
	p.Tasks = append(p.Tasks, sd)

	if len(p.Cfgs) > 1 {
		ct := Task{Name: "cfg"}
		for i := 1; i < len(p.Cfgs); i++ {
			ct.Ops = append(ct.Ops, Op{K: "sleep", Ms: []int{5, 30, 100, 250, 500}[rs.Intn(5)]})
			ct.Ops = append(ct.Ops, Op{K: "cfg", Cfg: i})
		}
		p.Tasks = append(p.Tasks, ct)
	}

	// Stop somewhere inside, at the end of, or after the workload.
	dur := 0
	for _, t := range p.Tasks {
		d := 0
		for _, op := range t.Ops {
			d += op.Ms
		}
		if d > dur {
			dur = d
		}
	}
	c.StopAtMs = dur*[]int{10, 30, 60, 90, 100, 120, 200}[rc.Intn(7)]/100 + []int{0, 1, 7, 40, baseTimeout}[rc.Intn(5)]
	return p
}

// Shrink returns simpler candidate plans, most aggressive first.
func Shrink(p *Plan) []*Plan {
	var out []*Plan
	clone := func() *Plan {
		b, _ := json.Marshal(p)
		var q Plan
		if err := json.Unmarshal(b, &q); err != nil {
			panic("harness: clone: " + err.Error())
		}
		return &q
	}
	// drop whole tasks (never the sd task's first op: without it nothing is ever sent)
	for i := range p.Tasks {
		if p.Tasks[i].Name == "sd" || len(p.Tasks[i].Ops) == 0 {
			continue
		}
		q := clone()
		q.Tasks[i].Ops = nil
		out = append(out, q)
	}
	// drop halves / quarters / single ops of each task
	for i := range p.Tasks {
		n := len(p.Tasks[i].Ops)
		for _, chunk := range []int{n / 2, n / 4, 1} {
			if chunk < 1 {
				continue
			}
			for from := 0; from < n; from += chunk {
				to := from + chunk
				if to > n {
					to = n
				}
				if to-from == n && p.Tasks[i].Name == "sd" {
					continue
				}
				q := clone()
				q.Tasks[i].Ops = append(append([]Op{}, q.Tasks[i].Ops[:from]...), q.Tasks[i].Ops[to:]...)
				out = append(out, q)
			}
			if chunk == 1 {
				break
			}
		}
	}
	// fewer alerts per send
	for i := range p.Tasks {
		for j := range p.Tasks[i].Ops {
			if a := p.Tasks[i].Ops[j].Alerts; len(a) > 1 {
				q := clone()
				q.Tasks[i].Ops[j].Alerts = q.Tasks[i].Ops[j].Alerts[:len(a)/2]
				out = append(out, q)
			}
		}
	}
	// healthy Alertmanagers
	for i := range p.AMs {
		if len(p.AMs[i].Resps) > 0 {
			q := clone()
			q.AMs[i].Resps = nil
			out = append(out, q)
			if n := len(p.AMs[i].Resps); n > 1 {
				q = clone()
				q.AMs[i].Resps = q.AMs[i].Resps[:n/2]
				out = append(out, q)
			}
		}
	}
	// no relabeling
	for i := range p.Cfgs {
		if len(p.Cfgs[i].Rules) > 0 || p.Cfgs[i].Ext != "" {
			q := clone()
			q.Cfgs[i].Rules, q.Cfgs[i].Ext = nil, ""
			out = append(out, q)
		}
		for k := range p.Cfgs[i].AMs {
			if len(p.Cfgs[i].AMs[k].Rules) > 0 || p.Cfgs[i].AMs[k].DropHost != "" {
				q := clone()
				// (Fam,Var) names the content, so simplify every occurrence of this (Fam,Var)
				f, v := p.Cfgs[i].AMs[k].Fam, p.Cfgs[i].AMs[k].Var
				for a := range q.Cfgs {
					for b := range q.Cfgs[a].AMs {
						if q.Cfgs[a].AMs[b].Fam == f && q.Cfgs[a].AMs[b].Var == v {
							q.Cfgs[a].AMs[b].Rules, q.Cfgs[a].AMs[b].DropHost = nil, ""
						}
					}
				}
				out = append(out, q)
			}
		}
	}
	// simpler scheduling / shutdown
	if p.Cfg.Pol.Kind != "uniform" {
		q := clone()
		q.Cfg.Pol = Policy{Kind: "uniform"}
		out = append(out, q)
	}
	if p.Cfg.Settle {
		q := clone()
		q.Cfg.Settle = false
		out = append(out, q)
	}
	if p.Cfg.CloseSD {
		q := clone()
		q.Cfg.CloseSD = false
		out = append(out, q)
	}
	if p.Cfg.StopAtMs > 0 {
		q := clone()
		q.Cfg.StopAtMs /= 2
		out = append(out, q)
	}
	// sleeps to zero
	for i := range p.Tasks {
		for j := range p.Tasks[i].Ops {
			if p.Tasks[i].Ops[j].K == "sleep" && p.Tasks[i].Ops[j].Ms > 1 {
				q := clone()
				q.Tasks[i].Ops[j].Ms = 1
				out = append(out, q)
			}
		}
	}
	return out
}
