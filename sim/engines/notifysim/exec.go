package notifysim

import (
	"context"
	"encoding/json"
	"fmt"
	"io"
	"net/http"
	"os"
	"runtime"
	"sort"
	"strconv"
	"strings"
	"sync"
	"testing"
	"testing/synctest"
	"time"

	"github.com/prometheus/client_golang/prometheus"
	dto "github.com/prometheus/client_model/go"
	"github.com/prometheus/common/model"
	"github.com/prometheus/common/promslog"

	"github.com/prometheus/prometheus/config"
	"github.com/prometheus/prometheus/discovery/targetgroup"
	"github.com/prometheus/prometheus/model/labels"
	"github.com/prometheus/prometheus/notifier"
	"github.com/prometheus/prometheus/util/simhook"

	"verif/sim/core/runner"
	"verif/sim/core/sched"
)

var debugOn = os.Getenv("VERIF_DEBUG") != ""

// ---------------------------------------------------------------------------------------------
// simhook.Simulator: one process-wide hook that forwards to the world of the run in progress.

type hookT struct {
	mu sync.Mutex
	w  *world
}

var theHook = &hookT{}

func init() { simhook.Install(theHook) }

func (h *hookT) cur() *world {
	h.mu.Lock()
	defer h.mu.Unlock()
	return h.w
}

func (h *hookT) set(w *world) {
	h.mu.Lock()
	h.w = w
	h.mu.Unlock()
}

func (h *hookT) Yield(site string, keys ...int) {
	if w := h.cur(); w != nil {
		w.sch.Yield(site, keys...)
	}
}

func (h *hookT) Acquire(name string, excl bool) {
	if w := h.cur(); w != nil {
		w.sch.Acquire(name, excl)
	}
}

func (h *hookT) Release(name string, excl bool) {
	if w := h.cur(); w != nil {
		w.sch.Release(name, excl)
	}
}

func (h *hookT) Event(name string, kv ...any) {
	if w := h.cur(); w != nil {
		w.onEvent(name, kv...)
	}
}
func (h *hookT) IO(string, string, string, int) {}
func (h *hookT) ID16(b [16]byte) [16]byte       { return b }

// ---------------------------------------------------------------------------------------------
// metrics capture: a Registerer that remembers the three per-Alertmanager counter vectors.

type capReg struct {
	sent, dropped, errors *prometheus.CounterVec
}

func (r *capReg) note(c prometheus.Collector) {
	cv, ok := c.(*prometheus.CounterVec)
	if !ok {
		return
	}
	ch := make(chan *prometheus.Desc, 4)
	cv.Describe(ch)
	close(ch)
	for d := range ch {
		s := d.String()
		switch {
		case strings.Contains(s, `"prometheus_notifications_sent_total"`):
			r.sent = cv
		case strings.Contains(s, `"prometheus_notifications_dropped_total"`):
			r.dropped = cv
		case strings.Contains(s, `"prometheus_notifications_errors_total"`):
			r.errors = cv
		}
	}
}
func (r *capReg) Register(c prometheus.Collector) error { r.note(c); return nil }
func (r *capReg) MustRegister(cs ...prometheus.Collector) {
	for _, c := range cs {
		r.note(c)
	}
}
func (r *capReg) Unregister(prometheus.Collector) bool { return true }

// read returns the current value of cv{alertmanager=url} without creating the series.
func readCounter(cv *prometheus.CounterVec, url string) float64 {
	ch := make(chan prometheus.Metric, 4096)
	cv.Collect(ch)
	close(ch)
	for m := range ch {
		var d dto.Metric
		if err := m.Write(&d); err != nil {
			panic("harness: metric write: " + err.Error())
		}
		for _, lp := range d.Label {
			if lp.GetName() == "alertmanager" && lp.GetValue() == url {
				return d.GetCounter().GetValue()
			}
		}
	}
	return 0
}

// ---------------------------------------------------------------------------------------------
// the model

// inc is one send-loop incarnation (one Alertmanager URL between "new" and "stop").
type inc struct {
	url       string
	queue     []int // alert ids, oldest first (reference model of the queue, written from the statement)
	stopping  bool
	stopped   bool
	undrained int // alerts left in the queue when it was stopped without drain
}

type urlStats struct {
	url      string
	recv     []int // ids in arrival order over all requests
	recvSet  map[int]bool
	enqSet   map[int]bool
	expected map[int]map[string]string
	overSet  map[int]bool
	enq      int // alerts enqueued for this URL (relabel survivors while a send loop existed)
	overflow int
	acked    int // alerts in requests answered 2xx
	failed   int // alerts in requests that failed
	staleN   int // alerts sent from a queue that had already been counted as dropped (stop without drain)
	requests int
	incs     int
	broken   bool // the queue model lost lock step: no further prefix checks for this URL
	// cumulative counter values (sum of the values read right before each deletion + final value)
	mSent, mDropped, mErrors float64
}

type sendCall struct {
	inv, ret int
}

type alertInfo struct {
	spec AlertSpec
	call *sendCall
	idx  int
	glob map[string]string // labels after external labels + global relabeling (nil = dropped globally / never sent)
}

type attempt struct {
	us  *urlStats
	ids []int
}

type world struct {
	mu   sync.Mutex
	prop string
	plan *Plan
	res  *runner.Result
	sch  *sched.Sched
	t0   time.Time

	mgr     *notifier.Manager
	reg     *capReg
	tsets   chan map[string][]*targetgroup.Group
	sdStop  chan struct{}
	runDone chan struct{}

	amRules    map[string]AMCfg // "/f<fam>v<var>" -> config
	scripts    map[string][]Resp
	maxTimeout time.Duration
	totalSent  int

	curCfg      int
	stopCalled  bool
	sdClosed    bool
	clock       int
	alerts      map[int]*alertInfo
	live        map[string]*inc
	staleIncs   map[string][]*inc
	stats       map[string]*urlStats
	hostReq     map[string]int
	openReq     map[string]int
	inflight    int
	tasksLeft   int
	runReturned bool

	feat map[string]bool
}

func (w *world) tick() int { w.clock++; return w.clock }

func (w *world) us(url string) *urlStats {
	s := w.stats[url]
	if s == nil {
		s = &urlStats{url: url, recvSet: map[int]bool{}, enqSet: map[int]bool{}, expected: map[int]map[string]string{}, overSet: map[int]bool{}}
		w.stats[url] = s
	}
	return s
}

func (w *world) violate(oracle, sig, format string, a ...any) {
	w.res.Violate(w.prop, oracle, sig, format, a...)
	if debugOn {
		fmt.Printf("VIOL %s/%s: %s\n", oracle, sig, fmt.Sprintf(format, a...))
	}
}

func applyRules(l map[string]string, rules []Rule) bool {
	for _, r := range rules {
		switch r.Kind {
		case "drop":
			if l["class"] == r.Arg {
				return false
			}
		case "keep":
			if l["class"] == "" || !strings.Contains(r.Arg, l["class"]) {
				return false
			}
		case "replace":
			l[r.Target] = r.Target + "-" + l["class"]
		default:
			panic("harness: unknown rule kind " + r.Kind)
		}
	}
	return true
}

func copyMap(m map[string]string) map[string]string {
	o := make(map[string]string, len(m)+1)
	for k, v := range m {
		o[k] = v
	}
	return o
}

func prefixOfURL(url string) string {
	// http://host/f0v1/api/v2/alerts
	i := strings.Index(url, "://")
	rest := url[i+3:]
	j := strings.Index(rest, "/")
	rest = rest[j:]
	k := strings.Index(rest, "/api/")
	return rest[:k]
}

func sortedKeys[V any](m map[string]V) []string {
	ks := make([]string, 0, len(m))
	for k := range m {
		ks = append(ks, k)
	}
	sort.Strings(ks)
	return ks
}

// modelSend is the reference semantics of Manager.Send at its linearisation point (the call returned).
func (w *world) modelSend(call *sendCall, specs []AlertSpec) {
	ver := w.plan.Cfgs[w.curCfg]
	for i, sp := range specs {
		ai := &alertInfo{spec: sp, call: call, idx: i}
		w.alerts[sp.ID] = ai
		l := map[string]string{"alertname": "sim", "id": strconv.Itoa(sp.ID), "class": sp.Class}
		if sp.Ext {
			l["ext"] = "own"
		}
		if ver.Ext != "" && l["ext"] == "" {
			l["ext"] = ver.Ext
		}
		if !applyRules(l, ver.Rules) {
			w.res.Count("alerts_dropped_by_global_relabel", 1)
			continue
		}
		ai.glob = l
		for _, url := range sortedKeys(w.live) {
			in := w.live[url]
			am, ok := w.amRules[prefixOfURL(url)]
			if !ok {
				panic("harness: unknown path prefix in " + url)
			}
			ll := copyMap(l)
			if !applyRules(ll, am.Rules) {
				w.res.Count("alerts_dropped_by_am_relabel", 1)
				continue
			}
			us := w.us(url)
			us.enq++
			us.enqSet[sp.ID] = true
			us.expected[sp.ID] = ll
			in.queue = append(in.queue, sp.ID)
			// the queue overflows: the oldest alerts go first
			for len(in.queue) > w.plan.Cfg.QueueCap {
				old := in.queue[0]
				in.queue = in.queue[1:]
				us.overflow++
				us.overSet[old] = true
				w.feat["overflow"] = true
			}
		}
	}
}

func isPrefix(q, ids []int) bool {
	if len(ids) > len(q) {
		return false
	}
	for i := range ids {
		if q[i] != ids[i] {
			return false
		}
	}
	return true
}

type postedAlert struct {
	Labels map[string]string `json:"labels"`
}

// onRequest: a simulated Alertmanager received a request (called with w.mu held).
func (w *world) onRequest(url string, pas []postedAlert) *attempt {
	us := w.us(url)
	us.requests++
	w.res.Evals++
	ids := make([]int, 0, len(pas))
	for _, pa := range pas {
		id, err := strconv.Atoi(pa.Labels["id"])
		if err != nil {
			w.violate("request", "alert-without-id", "request to %s carries an alert without a numeric id label: %v", url, pa.Labels)
			id = -1
		}
		ids = append(ids, id)
	}
	att := &attempt{us: us, ids: ids}
	if len(ids) == 0 {
		w.violate("batch", "empty-request", "request to %s carries no alerts", url)
		return att
	}
	if len(ids) > w.plan.Cfg.MaxBatch {
		w.violate("batch", "batch-larger-than-max", "request to %s carries %d alerts, configured maximum batch size is %d: %v", url, len(ids), w.plan.Cfg.MaxBatch, ids)
	}
	// labels: what arrives is the relabeled alert
	for i, id := range ids {
		if exp, ok := us.expected[id]; ok {
			if !sameLabels(exp, pas[i].Labels) {
				w.violate("labels", "relabeled-labels-differ", "alert %d at %s has labels %v, expected %v", id, url, pas[i].Labels, exp)
			}
		}
	}
	if !us.broken {
		var cands []*inc
		if in := w.live[url]; in != nil {
			cands = append(cands, in)
		}
		cands = append(cands, w.staleIncs[url]...)
		var hit *inc
		for _, in := range cands {
			if isPrefix(in.queue, ids) {
				hit = in
				break
			}
		}
		if hit != nil {
			hit.queue = hit.queue[len(ids):]
			if hit.stopped && !w.plan.Cfg.Drain {
				us.staleN += len(ids)
				w.res.Count("send_after_stop_without_drain", 1)
			}
			if hit.stopping && !hit.stopped {
				w.res.Count("drain_requests", 1)
				w.feat["drain-send"] = true
			}
		} else {
			us.broken = true
			sig, why := w.classify(us, cands, ids)
			w.violate("queue-model", sig, "request #%d to %s carries %v: %s; model queues: %s; received so far %v",
				us.requests, url, ids, why, dumpQueues(cands), us.recv)
		}
	}
	for _, id := range ids {
		us.recvSet[id] = true
	}
	return att
}

// onArrival: the request reached the Alertmanager (w.mu held). Without simulated network delay this is
// the instant Options.Do was called.
func (w *world) onArrival(att *attempt) {
	att.us.recv = append(att.us.recv, att.ids...)
}

func dumpQueues(cands []*inc) string {
	var sb strings.Builder
	for i, in := range cands {
		fmt.Fprintf(&sb, "[%d stopping=%v stopped=%v queue=%v]", i, in.stopping, in.stopped, in.queue)
	}
	if len(cands) == 0 {
		return "none (no send loop known for this URL)"
	}
	return sb.String()
}

func (w *world) classify(us *urlStats, cands []*inc, ids []int) (sig, why string) {
	for _, id := range ids {
		if _, ok := w.alerts[id]; !ok {
			return "unknown-alert", fmt.Sprintf("alert %d was never sent", id)
		}
	}
	for _, id := range ids {
		if us.recvSet[id] {
			return "duplicate-delivery", fmt.Sprintf("alert %d was already delivered to this Alertmanager", id)
		}
	}
	seen := map[int]bool{}
	for _, id := range ids {
		if seen[id] {
			return "duplicate-delivery", fmt.Sprintf("alert %d twice in one request", id)
		}
		seen[id] = true
	}
	for _, id := range ids {
		if !us.enqSet[id] {
			if w.alerts[id].glob == nil {
				return "relabel-dropped-alert-delivered", fmt.Sprintf("alert %d did not survive alert relabeling", id)
			}
			return "alert-not-queued-for-this-alertmanager", fmt.Sprintf("alert %d was not queued for this Alertmanager (dropped by its relabeling, or sent while it had no send loop)", id)
		}
	}
	for _, id := range ids {
		if us.overSet[id] {
			return "newer-alert-dropped-instead-of-oldest", fmt.Sprintf("alert %d was the oldest when the queue overflowed and must have been dropped, yet it is delivered (so a newer one was dropped)", id)
		}
	}
	for _, in := range cands {
		pos := map[int]int{}
		for i, id := range in.queue {
			pos[id] = i
		}
		all, inOrder, last := true, true, -1
		for _, id := range ids {
			p, ok := pos[id]
			if !ok {
				all = false
				break
			}
			if p < last {
				inOrder = false
			}
			last = p
		}
		if all {
			if !inOrder {
				return "out-of-order", "alerts are queued but arrive in a different order than they were sent"
			}
			if pos[ids[0]] > 0 {
				return "older-queued-alerts-skipped", fmt.Sprintf("%d older alert(s) still queued were skipped", pos[ids[0]])
			}
			return "batch-not-contiguous", "alerts are queued but the batch is not a contiguous prefix of the queue"
		}
	}
	return "not-a-queue-prefix", "the batch is not a prefix of any queue of this Alertmanager"
}

func sameLabels(a, b map[string]string) bool {
	if len(a) != len(b) {
		return false
	}
	for k, v := range a {
		if b[k] != v {
			return false
		}
	}
	return true
}

func (w *world) onResponse(att *attempt, ok bool) {
	if ok {
		att.us.acked += len(att.ids)
	} else {
		att.us.failed += len(att.ids)
		w.feat["failed-delivery"] = true
	}
}

func (w *world) snapshotMetrics(url string) {
	us := w.us(url)
	us.mSent += readCounter(w.reg.sent, url)
	us.mDropped += readCounter(w.reg.dropped, url)
	us.mErrors += readCounter(w.reg.errors, url)
}

func (w *world) onEvent(name string, kv ...any) {
	w.mu.Lock()
	defer w.mu.Unlock()
	switch name {
	case "notifier.sendLoop.new":
		url := kv[0].(string)
		us := w.us(url)
		us.incs++
		if us.incs > 1 {
			w.feat["am-readded"] = true
		}
		if w.live[url] != nil {
			w.violate("queue-model", "second-live-sendloop-for-url", "a second send loop was created for %s while one is running", url)
		}
		w.live[url] = &inc{url: url}
		w.res.Count("sendloops_started", 1)
	case "notifier.sendLoop.stop.begin":
		url := kv[0].(string)
		in := w.live[url]
		if in == nil {
			panic("harness: stop of unknown send loop " + url)
		}
		in.stopping = true
		delete(w.live, url)
		w.staleIncs[url] = append(w.staleIncs[url], in)
		if !w.stopCalled {
			w.feat["am-set-change"] = true
			w.res.Count("fault:am-set-change", 1)
		}
		if len(in.queue) > 0 {
			w.feat["stop-with-queued"] = true
			if w.plan.Cfg.Drain {
				w.res.Count("stop_with_queued_drain", 1)
			} else {
				w.res.Count("stop_with_queued_nodrain", 1)
			}
		}
	case "notifier.sendLoop.stop.end":
		url := kv[0].(string)
		var in *inc
		for _, c := range w.staleIncs[url] {
			if c.stopping && !c.stopped {
				in = c
			}
		}
		if in == nil {
			panic("harness: stop.end without stop.begin " + url)
		}
		in.stopped = true
		w.snapshotMetrics(url)
		w.res.Evals++
		if w.plan.Cfg.Drain {
			if len(in.queue) > 0 && !w.us(url).broken {
				w.violate("drain", "queued-alerts-not-attempted-when-stop-completed",
					"send loop of %s stopped with drain-on-shutdown, but %d queued alert(s) were never attempted: %v", url, len(in.queue), in.queue)
			}
		} else {
			in.undrained = len(in.queue)
		}
	}
}

// ---------------------------------------------------------------------------------------------
// the simulated Alertmanagers (behind notifier.Options.Do)

func (w *world) do(ctx context.Context, _ *http.Client, req *http.Request) (*http.Response, error) {
	url := req.URL.String()
	host := req.URL.Host
	body, err := io.ReadAll(req.Body)
	if err != nil {
		panic("harness: read body: " + err.Error())
	}
	var pas []postedAlert
	if err := json.Unmarshal(body, &pas); err != nil {
		panic("harness: request body is not a JSON alert list: " + err.Error())
	}
	w.mu.Lock()
	ord := w.hostReq[host]
	w.hostReq[host]++
	att := w.onRequest(url, pas)
	var rp Resp
	if sc := w.scripts[host]; ord < len(sc) {
		rp = sc[ord]
	}
	w.inflight++
	open := w.openReq[url]
	w.openReq[url]++
	if open > 0 {
		w.res.Count("concurrent_requests_to_one_alertmanager", 1)
	}
	netDelay := w.plan.Cfg.NetDelay && rp.PreMs > 0
	if !netDelay {
		w.onArrival(att)
	}
	w.mu.Unlock()

	timedOut := false
	if netDelay {
		// known-finding mode: the request spends time on the network before the Alertmanager sees it
		pre := time.Duration(rp.PreMs) * time.Millisecond
		if dl, ok := ctx.Deadline(); ok && time.Until(dl) == pre {
			pre += time.Millisecond
		}
		tm := time.NewTimer(pre)
		select {
		case <-tm.C:
		case <-ctx.Done():
			tm.Stop()
			timedOut = true
		}
		w.sch.Yield(fmt.Sprintf("net:%s#%d", host, ord))
		w.mu.Lock()
		w.res.Count("fault:net-delay", 1)
		if !timedOut {
			w.onArrival(att)
		}
		w.mu.Unlock()
	}
	if rp.LatMs > 0 && !timedOut {
		lat := time.Duration(rp.LatMs) * time.Millisecond
		if dl, ok := ctx.Deadline(); ok && time.Until(dl) == lat {
			lat += time.Millisecond // never let the two timers fire at the same instant (select order would be the runtime's choice)
		}
		tm := time.NewTimer(lat)
		select {
		case <-tm.C:
		case <-ctx.Done():
			tm.Stop()
			timedOut = true
		}
		w.sch.Yield(fmt.Sprintf("am:%s#%d", host, ord))
	}

	w.mu.Lock()
	w.inflight--
	w.openReq[url]--
	code := rp.Code
	if code == 0 {
		code = 200
	}
	ok := !timedOut && !rp.Err && code/100 == 2
	w.onResponse(att, ok)
	switch {
	case timedOut:
		w.res.Count("fault:send-timeout", 1)
	case rp.Err:
		w.res.Count("fault:send-error", 1)
	case code/100 == 5:
		w.res.Count("fault:send-5xx", 1)
	case code/100 == 4:
		w.res.Count("fault:send-4xx", 1)
	}
	if rp.LatMs > 0 && !timedOut {
		w.res.Count("fault:send-latency", 1)
	}
	w.mu.Unlock()
	if timedOut {
		return nil, ctx.Err()
	}
	if rp.Err {
		return nil, fmt.Errorf("dial tcp %s: connect: connection refused", host)
	}
	return &http.Response{
		StatusCode: code,
		Status:     fmt.Sprintf("%d %s", code, http.StatusText(code)),
		Body:       io.NopCloser(strings.NewReader("")),
		Header:     http.Header{},
		Request:    req,
	}, nil
}

// ---------------------------------------------------------------------------------------------
// configuration text (goes through the real config loader)

func rulesYAML(sb *strings.Builder, indent string, rules []Rule) {
	for _, r := range rules {
		switch r.Kind {
		case "drop":
			fmt.Fprintf(sb, "%s- source_labels: [class]\n%s  regex: %q\n%s  action: drop\n", indent, indent, r.Arg, indent)
		case "keep":
			fmt.Fprintf(sb, "%s- source_labels: [class]\n%s  regex: %q\n%s  action: keep\n", indent, indent, strings.Join(strings.Split(r.Arg, ""), "|"), indent)
		case "replace":
			fmt.Fprintf(sb, "%s- source_labels: [class]\n%s  regex: \"(.*)\"\n%s  target_label: %s\n%s  replacement: \"%s-$1\"\n%s  action: replace\n",
				indent, indent, indent, r.Target, indent, r.Target, indent)
		}
	}
}

func configYAML(v CfgVersion) string {
	var sb strings.Builder
	if v.Ext != "" {
		fmt.Fprintf(&sb, "global:\n  external_labels:\n    ext: %s\n", v.Ext)
	}
	sb.WriteString("alerting:\n")
	if len(v.Rules) > 0 {
		sb.WriteString("  alert_relabel_configs:\n")
		rulesYAML(&sb, "  ", v.Rules)
	}
	if len(v.AMs) == 0 {
		sb.WriteString("  alertmanagers: []\n")
		return sb.String()
	}
	sb.WriteString("  alertmanagers:\n")
	for _, a := range v.AMs {
		fmt.Fprintf(&sb, "  - scheme: http\n    path_prefix: /f%dv%d\n    timeout: %dms\n    api_version: v2\n", a.Fam, a.Var, a.TimeoutMs)
		if a.DropHost != "" {
			fmt.Fprintf(&sb, "    relabel_configs:\n    - source_labels: [__address__]\n      regex: %q\n      action: drop\n", a.DropHost)
		}
		if len(a.Rules) > 0 {
			sb.WriteString("    alert_relabel_configs:\n")
			rulesYAML(&sb, "    ", a.Rules)
		}
	}
	return sb.String()
}

func (w *world) loadConfig(i int) *config.Config {
	cfg, err := config.Load(configYAML(w.plan.Cfgs[i]), promslog.NewNopLogger())
	if err != nil {
		panic(fmt.Sprintf("harness: config version %d does not load: %v\n%s", i, err, configYAML(w.plan.Cfgs[i])))
	}
	return cfg
}

// ---------------------------------------------------------------------------------------------
// workload tasks

func (w *world) sleep(ms int, id string) {
	if ms > 0 {
		time.Sleep(time.Duration(ms) * time.Millisecond)
	}
	w.sch.Yield(id)
}

func (w *world) runTask(t Task) {
	for _, op := range t.Ops {
		switch op.K {
		case "sleep":
			w.sleep(op.Ms, t.Name)
		case "send":
			w.opSend(op)
			w.sch.Yield(t.Name)
		case "ams":
			w.opAMs()
			w.sch.Yield(t.Name)
		case "sd":
			w.opSD(op)
		case "cfg":
			w.opCfg(op)
			w.sch.Yield(t.Name)
		default:
			panic("harness: unknown op " + op.K)
		}
	}
	w.mu.Lock()
	w.tasksLeft--
	w.mu.Unlock()
}

func (w *world) opSend(op Op) {
	alerts := make([]*notifier.Alert, 0, len(op.Alerts))
	for _, sp := range op.Alerts {
		ls := []string{"alertname", "sim", "id", strconv.Itoa(sp.ID), "class", sp.Class}
		if sp.Ext {
			ls = append(ls, "ext", "own")
		}
		alerts = append(alerts, &notifier.Alert{Labels: labels.FromStrings(ls...), Annotations: labels.FromStrings("n", strconv.Itoa(sp.ID))})
	}
	w.mu.Lock()
	stopped := w.stopCalled
	call := &sendCall{inv: w.tick()}
	w.mu.Unlock()
	w.mgr.Send(alerts...)
	// Send has no scheduling point between taking Manager.mtx and returning, so "now" is its linearisation point.
	w.mu.Lock()
	call.ret = w.tick()
	w.totalSent += len(op.Alerts)
	if !stopped {
		w.modelSend(call, op.Alerts)
	} else {
		for i, sp := range op.Alerts {
			w.alerts[sp.ID] = &alertInfo{spec: sp, call: call, idx: i}
		}
		w.res.Count("sends_after_stop", 1)
	}
	w.mu.Unlock()
}

// opAMs: the public view of the Alertmanager set and the set of running send loops must agree - an
// Alertmanager listed as active without a send loop would lose every alert silently.
func (w *world) opAMs() {
	w.mu.Lock()
	stopped := w.stopCalled
	w.mu.Unlock()
	if stopped {
		return
	}
	urls := w.mgr.Alertmanagers() // atomic from taking Manager.mtx to returning (no scheduling point inside)
	w.mu.Lock()
	defer w.mu.Unlock()
	if w.stopCalled {
		return // Stop arrived while this task waited for Manager.mtx: loops may be gone already
	}
	w.res.Evals++
	w.res.Count("membership_checks", 1)
	got := map[string]bool{}
	for _, u := range urls {
		got[u.String()] = true
	}
	for _, u := range sortedKeys(got) {
		if w.live[u] == nil {
			w.violate("membership", "active-alertmanager-without-sendloop", "Alertmanagers() lists %s but no send loop is running for it: alerts for it are lost silently; running: %v", u, sortedKeys(w.live))
			return
		}
	}
	for _, u := range sortedKeys(w.live) {
		if !got[u] {
			w.violate("membership", "sendloop-for-unlisted-alertmanager", "a send loop is running for %s which Alertmanagers() does not list: %v", u, sortedKeys(got))
			return
		}
	}
}

func buildGroups(gs [][]string) []*targetgroup.Group {
	out := []*targetgroup.Group{}
	for i, hs := range gs {
		g := &targetgroup.Group{Source: fmt.Sprintf("g%d", i)}
		for _, h := range hs {
			g.Targets = append(g.Targets, model.LabelSet{model.AddressLabel: model.LabelValue(h)})
		}
		out = append(out, g)
	}
	return out
}

func (w *world) opSD(op Op) {
	m := map[string][]*targetgroup.Group{fmt.Sprintf("config-%d", op.Key): buildGroups(op.Groups)}
	if op.Key2 >= 0 && op.Key2 != op.Key {
		m[fmt.Sprintf("config-%d", op.Key2)] = buildGroups(op.Groups2)
	}
	// priority to "the channel is gone": never leave the choice between two ready cases to the runtime
	select {
	case <-w.sdStop:
		return
	default:
	}
	select {
	case w.tsets <- m:
		w.mu.Lock()
		w.res.Count("sd_updates", 1)
		w.mu.Unlock()
	case <-w.sdStop:
	}
	w.sch.Yield("sd")
}

func (w *world) opCfg(op Op) {
	cfg := w.loadConfig(op.Cfg)
	if err := w.mgr.ApplyConfig(cfg); err != nil {
		panic("harness: ApplyConfig: " + err.Error())
	}
	w.mu.Lock()
	w.curCfg = op.Cfg
	w.res.Count("fault:config-reload", 1)
	w.feat["config-reload"] = true
	w.mu.Unlock()
}

func (w *world) capEff() int {
	n := 0
	for _, t := range w.plan.Tasks {
		for _, op := range t.Ops {
			n += len(op.Alerts)
		}
	}
	if n > w.plan.Cfg.QueueCap {
		n = w.plan.Cfg.QueueCap
	}
	return n
}

// bound is the generous liveness bound on the fake clock: every queued alert needs at most one batch,
// every batch at most one request timeout, for every Alertmanager host one after the other (a drain is
// sequential), doubled.
func (w *world) bound() time.Duration {
	return 2 * time.Duration(w.capEff()+2) * w.maxTimeout * time.Duration(len(w.plan.AMs)+2)
}

func (w *world) controller() {
	c := w.plan.Cfg
	if c.Settle {
		for {
			w.mu.Lock()
			left := w.tasksLeft
			w.mu.Unlock()
			if left == 0 {
				break
			}
			w.sleep(20, "ctl")
		}
		w.sleep(int(w.bound()/time.Millisecond), "ctl")
		w.mu.Lock()
		w.res.Evals++
		for _, url := range sortedKeys(w.live) {
			in := w.live[url]
			if len(in.queue) > 0 && !w.us(url).broken {
				w.violate("stuck", "alerts-left-in-queue-of-idle-sendloop",
					"%v after the last Send/config/SD operation the running send loop of %s still holds %d alert(s) that were neither attempted nor counted as dropped: %v",
					w.bound(), url, len(in.queue), in.queue)
			}
		}
		w.res.Count("settle_checks", 1)
		w.mu.Unlock()
		w.opAMs()
	} else {
		w.sleep(c.StopAtMs, "ctl")
	}
	close(w.sdStop)
	w.sch.Yield("ctl")
	if c.CloseSD {
		w.mu.Lock()
		w.sdClosed = true
		w.mu.Unlock()
		close(w.tsets)
		w.sleep(50, "ctl")
	}
	w.mu.Lock()
	if c.CloseSD {
		w.res.Count("sd_channel_closed_before_stop", 1)
	}
	w.res.Count("fault:stop", 1)
	w.stopCalled = true
	queued := 0
	for _, in := range w.live {
		queued += len(in.queue)
	}
	if queued > 0 {
		w.res.Count("stop_called_with_queued_alerts", 1)
	}
	w.mu.Unlock()
	w.mgr.Stop()
	stopAt := time.Now()
	tm := time.NewTimer(w.bound())
	select {
	case <-w.runDone:
		tm.Stop()
		w.mu.Lock()
		w.runReturned = true
		w.mu.Unlock()
	case <-tm.C:
	}
	w.sch.Yield("ctl")
	w.mu.Lock()
	w.res.Evals++
	if !w.runReturned {
		w.violate("shutdown", "run-did-not-return-after-stop", "Manager.Run has not returned %v (simulated) after Stop; bound = 2 x (queue+2) x timeout x (hosts+2)", time.Since(stopAt))
	}
	w.mu.Unlock()
	// let in-flight requests of stopped loops finish (they end at their request timeout at the latest)
	for i := 0; ; i++ {
		w.mu.Lock()
		n := w.inflight
		w.mu.Unlock()
		if n == 0 {
			break
		}
		if i > 50 {
			panic("harness: simulated Alertmanager requests still in flight long after shutdown")
		}
		w.sleep(int(w.maxTimeout/time.Millisecond)+1, "ctl")
	}
}

// ---------------------------------------------------------------------------------------------

// hb reports whether alert x was sent before alert y (happens-before: same Send call and earlier argument,
// or x's Send returned before y's Send was invoked).
func hb(x, y *alertInfo) bool {
	if x.call == y.call {
		return x.idx < y.idx
	}
	return x.call.ret < y.call.inv
}

func (w *world) finalChecks() {
	cfg := w.plan.Cfg
	for _, url := range sortedKeys(w.stats) {
		us := w.stats[url]
		am := w.amRules[prefixOfURL(url)]
		// O1 (straight from the statement): what the Alertmanager received is a duplicate-free, in-order
		// subsequence of the alerts sent to the notifier that survive relabeling.
		w.res.Evals++
		seen := map[int]bool{}
		bad := false
		for _, id := range us.recv {
			ai := w.alerts[id]
			switch {
			case ai == nil:
				w.violate("subsequence", "unknown-alert", "%s received alert %d that was never sent", url, id)
				bad = true
			case seen[id]:
				w.violate("subsequence", "duplicate-delivery", "%s received alert %d twice: %v", url, id, us.recv)
				bad = true
			case ai.glob == nil || !applyRules(copyMap(ai.glob), am.Rules):
				w.violate("subsequence", "relabel-dropped-alert-delivered", "%s received alert %d which does not survive alert relabeling", url, id)
				bad = true
			}
			seen[id] = true
			if bad {
				break
			}
		}
		if !bad {
		outer:
			for i := 0; i < len(us.recv); i++ {
				for j := i + 1; j < len(us.recv); j++ {
					x, y := w.alerts[us.recv[i]], w.alerts[us.recv[j]]
					if hb(y, x) {
						sig := "out-of-order"
						if cfg.NetDelay && !us.broken {
							// the notifier issued its requests in order, but had two of them in flight at once
							sig = "known:concurrent-requests-reordered"
						}
						w.violate("subsequence", sig, "%s received alert %d before alert %d although %d was sent first; received: %v",
							url, us.recv[i], us.recv[j], us.recv[j], us.recv)
						break outer
					}
				}
			}
		}
		// every loss is counted
		us.mSent += readCounter(w.reg.sent, url)
		us.mDropped += readCounter(w.reg.dropped, url)
		us.mErrors += readCounter(w.reg.errors, url)
		if us.broken || !w.runReturned {
			continue
		}
		w.res.Evals++
		lost := us.enq - us.acked
		detail := fmt.Sprintf("%s: queued=%d acknowledged(2xx)=%d failed-attempt-alerts=%d model-overflow=%d sent-from-already-dropped-queue=%d | metrics sent=%v errors=%v dropped=%v",
			url, us.enq, us.acked, us.failed, us.overflow, us.staleN, us.mSent, us.mErrors, us.mDropped)
		if int(us.mDropped) < lost {
			w.violate("accounting", "loss-not-counted", "%d alert(s) were lost but only %v counted as dropped; %s", lost, us.mDropped, detail)
		} else if int(us.mDropped) > lost+us.staleN {
			w.violate("accounting", "more-drops-counted-than-lost", "%v alerts counted as dropped but only %d lost; %s", us.mDropped, lost, detail)
		}
		if int(us.mErrors) != us.failed {
			w.violate("accounting", "errors-counter-differs-from-failed-deliveries", "%s", detail)
		}
		if int(us.mSent) != us.acked {
			w.violate("accounting", "sent-counter-differs-from-acknowledged-deliveries", "%s", detail)
		}
		// with drain every queued alert was attempted before shutdown completed
		if cfg.Drain {
			for _, in := range w.staleIncs[url] {
				if len(in.queue) > 0 {
					w.violate("drain", "queued-alerts-not-attempted-when-shutdown-completed", "%s: %v never attempted", url, in.queue)
				}
			}
		}
	}
	if w.runReturned {
		for _, url := range sortedKeys(w.live) {
			in := w.live[url]
			w.violate("drain", "sendloop-still-running-after-shutdown", "Run returned but the send loop of %s was never stopped (%d queued)", url, len(in.queue))
		}
	}
}

// Execute runs one plan inside the caller's synctest bubble.
func Execute(t *testing.T, prop string, plan *Plan) (res *runner.Result) {
	res = &runner.Result{Counters: map[string]int64{}}
	c := plan.Cfg
	w := &world{prop: prop, plan: plan, res: res, t0: time.Now(),
		amRules: map[string]AMCfg{}, scripts: map[string][]Resp{}, alerts: map[int]*alertInfo{},
		live: map[string]*inc{}, staleIncs: map[string][]*inc{}, stats: map[string]*urlStats{}, hostReq: map[string]int{}, openReq: map[string]int{},
		feat: map[string]bool{}, reg: &capReg{},
		tsets: make(chan map[string][]*targetgroup.Group), sdStop: make(chan struct{}), runDone: make(chan struct{})}
	for _, v := range plan.Cfgs {
		for _, a := range v.AMs {
			w.amRules[fmt.Sprintf("/f%dv%d", a.Fam, a.Var)] = a
			if d := time.Duration(a.TimeoutMs) * time.Millisecond; d > w.maxTimeout {
				w.maxTimeout = d
			}
		}
	}
	if w.maxTimeout == 0 {
		w.maxTimeout = time.Second
	}
	for _, s := range plan.AMs {
		w.scripts[s.Host] = s.Resps
	}
	w.sch = sched.New(c.SchedSeed, sched.Policy{Kind: c.Pol.Kind, Stick: c.Pol.Stick, Starve: c.Pol.Starve, StarveSteps: c.Pol.StarveSteps, PCTDepth: c.Pol.PCTDepth})
	if c.Choices != nil {
		w.sch.Replay = c.Choices
	}
	w.sch.MaxSteps = 200000
	w.sch.Idle = 2*w.bound() + time.Hour // the controller legitimately sleeps for bound() with nothing else to do
	theHook.set(w)
	defer theHook.set(nil)

	opts := &notifier.Options{QueueCapacity: c.QueueCap, MaxBatchSize: c.MaxBatch, DrainOnShutdown: c.Drain, Do: w.do, Registerer: w.reg}
	w.mgr = notifier.NewManager(opts, model.UTF8Validation, nil)
	if w.reg.sent == nil || w.reg.dropped == nil || w.reg.errors == nil {
		panic("harness: notifier counters not captured")
	}
	if err := w.mgr.ApplyConfig(w.loadConfig(0)); err != nil {
		panic("harness: initial ApplyConfig: " + err.Error())
	}
	go func() {
		w.mgr.Run(w.tsets)
		close(w.runDone)
	}()
	w.tasksLeft = len(plan.Tasks)
	for _, tk := range plan.Tasks {
		tk := tk
		w.sch.Go(tk.Name, func() { w.runTask(tk) })
	}
	w.sch.Go("ctl", w.controller)
	if debugOn {
		w.sch.KeepTrace = true
		fmt.Printf("PLAN %s\n", plan.String())
	}
	err := w.sch.Run(nil)
	steps := w.sch.Steps()
	if debugOn {
		fmt.Printf("TRACE %s\n", strings.Join(w.sch.Trace, " "))
		if err != nil {
			buf := make([]byte, 1<<20)
			fmt.Printf("STALL %v\n%s\n", err, buf[:runtime.Stack(buf, true)])
		}
	}
	w.sch.Stop()
	if err != nil {
		panic("harness: scheduler: " + err.Error())
	}
	if steps >= w.sch.MaxSteps {
		panic("harness: scheduler step cap reached")
	}
	// The fake clock stops when the bubble's main goroutine exits: let requests that stopped send loops
	// still have in flight run to their end (they end at their request timeout at the latest) first.
	for i := 0; ; i++ {
		synctest.Wait()
		w.mu.Lock()
		n := w.inflight
		w.mu.Unlock()
		if n == 0 {
			break
		}
		if i > 100 {
			panic("harness: simulated Alertmanager requests still in flight long after the run")
		}
		time.Sleep(w.maxTimeout + time.Millisecond)
	}
	if debugOn {
		buf := make([]byte, 1<<20)
		fmt.Printf("END-OF-RUN goroutines:\n%s\n", buf[:runtime.Stack(buf, true)])
	}
	w.mu.Lock()
	defer w.mu.Unlock()
	w.finalChecks()

	// evidence
	res.SimTimeMs = time.Since(w.t0).Milliseconds()
	res.Count("sched_steps", int64(steps))
	nreq, nrecv := 0, 0
	var sb strings.Builder
	for _, url := range sortedKeys(w.stats) {
		us := w.stats[url]
		nreq += us.requests
		nrecv += len(us.recv)
		res.Count("alerts_overflow_dropped", int64(us.overflow))
		res.Count("alerts_queued", int64(us.enq))
		res.Count("alerts_acknowledged", int64(us.acked))
		fmt.Fprintf(&sb, "%s:%v:%v:%v:%v;", url, us.recv, us.mSent, us.mDropped, us.mErrors)
	}
	res.Count("requests", int64(nreq))
	feats := sortedKeys(w.feat)
	nf := 0
	for _, f := range []string{"overflow", "failed-delivery", "am-set-change", "stop-with-queued", "config-reload"} {
		if w.feat[f] {
			nf++
		}
	}
	res.NonTrivial = nreq > 0 && nf >= 2
	res.Key = fmt.Sprintf("%016x|%s", w.sch.TraceHash(), sb.String())
	res.Trace = fmt.Sprintf("%016x|%s|viol=%d", w.sch.TraceHash(), sb.String(), len(res.Violations))
	res.Sample = map[string]any{
		"queue_cap": c.QueueCap, "max_batch": c.MaxBatch, "drain": c.Drain, "policy": c.Pol.Kind,
		"config_versions": len(plan.Cfgs), "tasks": len(plan.Tasks), "alerts_sent": w.totalSent,
		"requests": nreq, "alerts_received": nrecv, "features": feats, "sched_steps": steps,
		"sim_ms": res.SimTimeMs,
	}
	return res
}
