// Package walsim is engine E3/walsim: the real wlog.WL writer, the real wlog.Reader and the real
// wlog.LiveReader. A writer task and a live-reader task run under the seeded scheduler; the live
// reader's io.Reader belongs to the simulator and exposes the current segment file only up to a
// visibility cut chosen per poll (flush boundaries, flush boundary + a few bytes = mid-header, arbitrary
// byte positions), segment switching mimics wlog.Watcher. Decides C13.
package walsim

import (
	"encoding/json"

	"verif/sim/core/prng"
	"verif/sim/core/sched"
)

// Format constants used ONLY to bias generated record sizes towards boundaries (never by an oracle).
const (
	genPage   = 32 * 1024
	genHeader = 7
)

// Config is the swarm configuration of one run.
type Config struct {
	Seed  uint64 `json:"seed"`
	SegKB int    `json:"segkb"` // 32 | 64 | 128
	Comp  string `json:"comp"`  // none | snappy | zstd

	// scheduler
	SchedSeed   uint64  `json:"sseed"`
	PolKind     string  `json:"pol"`
	PolStick    float64 `json:"stick,omitempty"`
	PolStarve   string  `json:"starve,omitempty"`
	PolStarveN  int     `json:"starven,omitempty"`
	PolPCTDepth int     `json:"pct,omitempty"`
	Choices     []int   `json:"choices,omitempty"` // if non-nil: replayed scheduler choices (shrunk schedules)

	FlushYield  bool `json:"flushyield,omitempty"` // the writer parks at every page flush (inside Log / NextSegment / Close)
	ShortRead   int  `json:"shortread,omitempty"`  // the simulated io.Reader returns at most this many bytes per Read (0 = no limit)
	EOFWithData bool `json:"eofdata,omitempty"`    // the simulated io.Reader returns (n>0, io.EOF) when a Read reaches the cut (allowed by io.Reader)
}

func (c Config) policy() sched.Policy {
	return sched.Policy{Kind: c.PolKind, Stick: c.PolStick, Starve: c.PolStarve, StarveSteps: c.PolStarveN, PCTDepth: c.PolPCTDepth}
}

// Rec describes one record; its size may be relative to the writer's position at execution time so
// that page / segment boundaries are hit exactly whatever the history was.
type Rec struct {
	SK   string `json:"sk"`             // abs | pagerem | segrem | segcap
	N    int    `json:"n"`              // abs: size; pagerem/segrem/segcap: delta added to the exact fit
	Fill int    `json:"fill,omitempty"` // 0 incompressible, 1 one byte repeated, 2 short period text, 3 half and half
	Seed uint64 `json:"s"`
}

// Op is one writer operation.
type Op struct {
	K    string `json:"k"` // log | next | reopen | readback
	Recs []Rec  `json:"recs,omitempty"`
}

// Poll describes how the live reader chooses the visibility cut of one poll.
//
//	flush:  advance to the K-th next flush boundary (K=1 enumerates every boundary), plus D bytes
//	        (D in 1..6 lands inside the next fragment header, larger D inside its payload)
//	all:    everything written so far
//	frac:   advance by K/1024 of the distance to the written size
//	bytes:  advance by exactly K bytes
//	same:   do not advance (poll again with nothing new)
//
// Seg: this poll also performs the watcher's "is there a newer segment" check first.
type Poll struct {
	M   string `json:"m"`
	K   int    `json:"k,omitempty"`
	D   int    `json:"d,omitempty"`
	Seg bool   `json:"seg,omitempty"`
}

// Plan = config + writer ops + live reader polls. Execution is a pure function of the plan.
type Plan struct {
	Cfg   Config `json:"cfg"`
	Ops   []Op   `json:"ops"`
	Polls []Poll `json:"polls"`
	// CutMode documents how Polls were generated: enum (every flush boundary), mixed, random, tail.
	CutMode string `json:"cutmode"`
}

func (p *Plan) String() string {
	b, _ := json.Marshal(p)
	return string(b)
}

func genRec(r *prng.R, cfg Config, big bool) Rec {
	rec := Rec{SK: "abs", Seed: r.Uint64() >> 1}
	// fill: exact-fit kinds want incompressible data so that the encoded length equals the record length
	fill := []int{0, 0, 1, 2, 3}[r.Intn(5)]
	pages := cfg.SegKB * 1024 / genPage
	segPayload := pages * (genPage - genHeader)
	w := []int{10, 8, 30, 12, 8, 5, 9, 8, 3, 2, 5}
	if !big {
		w[8], w[9], w[10], w[7] = 0, 0, 1, 3
	}
	switch r.Pick(w) {
	case 0:
		rec.N = 0
	case 1:
		rec.N = 1
	case 2:
		rec.N = r.Range(2, 200)
	case 3:
		rec.N = r.Range(200, 5000)
	case 4: // page payload +-1
		rec.N = genPage - genHeader + r.Range(-1, 1)
	case 5: // page +-1
		rec.N = genPage + r.Range(-1, 1)
	case 6: // exactly (nearly) the rest of the current page
		rec.SK, rec.N, fill = "pagerem", r.Range(-8, 1), 0
	case 7: // exactly (nearly) what is left of the current segment: the nextSegment condition
		rec.SK, rec.N, fill = "segrem", r.Range(-1, 1), 0
	case 8: // a whole segment's payload +-1
		rec.SK, rec.N, fill = "segcap", r.Range(-1, 1), 0
	case 9: // larger than a segment
		rec.N = segPayload + r.Range(2, segPayload/3)
	default: // two to three pages
		rec.N = r.Range(genPage, 3*genPage)
	}
	rec.Fill = fill
	return rec
}

func genPolls(r *prng.R, mode string, n int) []Poll {
	var out []Poll
	for i := 0; i < n; i++ {
		var p Poll
		switch mode {
		case "enum":
			p = Poll{M: "flush", K: 1}
		case "tail":
			p = Poll{M: "all"}
		case "random":
			p = Poll{M: "frac", K: r.Range(1, 1024)}
		default:
			switch r.Intn(10) {
			case 0, 1:
				p = Poll{M: "flush", K: 1}
			case 2:
				p = Poll{M: "flush", K: r.Range(1, 3), D: r.Range(1, 6)} // mid-header
			case 3:
				p = Poll{M: "flush", K: r.Range(1, 2), D: r.Range(7, 40)} // just inside the payload
			case 4:
				p = Poll{M: "flush", K: r.Range(1, 2), D: -r.Range(1, 8)} // just short of a flush boundary
			case 5:
				p = Poll{M: "frac", K: r.Range(1, 1024)}
			case 6:
				p = Poll{M: "bytes", K: r.Range(1, 9)}
			case 7:
				p = Poll{M: "same"}
			default:
				p = Poll{M: "all"}
			}
		}
		p.Seg = r.Chance(0.35)
		out = append(out, p)
	}
	return out
}

// Generate builds a plan from the seed.
func Generate(prop, tier string, seed uint64) *Plan {
	rc := prng.New(prng.DeriveS(seed, "config"))
	cfg := Config{Seed: seed}
	cfg.SegKB = []int{32, 32, 64, 128}[rc.Intn(4)]
	cfg.Comp = []string{"none", "snappy", "zstd"}[rc.Intn(3)]
	cfg.SchedSeed = prng.DeriveS(seed, "sched")
	pol := sched.DrawPolicy(rc, []string{"writer", "reader", "wal.flush"})
	cfg.PolKind, cfg.PolStick, cfg.PolStarve, cfg.PolStarveN, cfg.PolPCTDepth = pol.Kind, pol.Stick, pol.Starve, pol.StarveSteps, pol.PCTDepth
	cfg.FlushYield = rc.Chance(0.5)
	cfg.ShortRead = []int{0, 0, 0, 1, 3, 7, 100, 4096, 32768}[rc.Intn(9)]
	cfg.EOFWithData = rc.Chance(0.15)

	r := prng.New(prng.DeriveS(seed, "ops"))
	p := &Plan{Cfg: cfg}
	p.Cfg.Seed = seed
	// small logs (every flush boundary enumerated) vs larger ones
	small := r.Chance(0.4)
	nops := r.Range(3, 12)
	if !small {
		nops = r.Range(8, 40)
		if cfg.ShortRead > 0 && cfg.ShortRead < 100 {
			cfg.ShortRead = 100 // byte-wise reads of large logs cost too much; small logs keep them
			p.Cfg.ShortRead = 100
		}
	}
	bigBudget := 2 // at most this many segment-sized records per run (cost)
	for len(p.Ops) < nops {
		switch r.Pick([]int{80, 6, 3, 4}) {
		case 0:
			nrec := []int{1, 1, 1, 2, 3, 5}[r.Intn(6)]
			op := Op{K: "log"}
			for i := 0; i < nrec; i++ {
				rec := genRec(r, cfg, bigBudget > 0)
				if rec.SK == "segcap" || rec.SK == "segrem" || rec.N > 2*genPage {
					bigBudget--
				}
				op.Recs = append(op.Recs, rec)
			}
			p.Ops = append(p.Ops, op)
		case 1:
			p.Ops = append(p.Ops, Op{K: "next"})
		case 2:
			p.Ops = append(p.Ops, Op{K: "reopen"})
		default:
			p.Ops = append(p.Ops, Op{K: "readback"})
		}
	}
	rp := prng.New(prng.DeriveS(seed, "polls"))
	if small {
		p.CutMode = []string{"enum", "enum", "mixed"}[rp.Intn(3)]
	} else {
		p.CutMode = []string{"mixed", "mixed", "random", "tail", "enum"}[rp.Intn(5)]
	}
	npolls := rp.Range(nops, 6*nops+10)
	if p.CutMode == "enum" {
		npolls = 400 // enough for every flush boundary of the log; unused polls cost nothing
	}
	p.Polls = genPolls(rp, p.CutMode, npolls)
	return p
}

// Shrink returns simpler candidates: fewer ops, fewer polls, simpler config, smaller records.
func Shrink(p *Plan) []*Plan {
	var out []*Plan
	clone := func() *Plan {
		q := &Plan{Cfg: p.Cfg, CutMode: p.CutMode}
		q.Ops = append([]Op(nil), p.Ops...)
		q.Polls = append([]Poll(nil), p.Polls...)
		return q
	}
	n := len(p.Ops)
	for size := n / 2; size >= 1; size /= 2 {
		for start := 0; start+size <= n; start += size {
			q := clone()
			q.Ops = append(append([]Op(nil), p.Ops[:start]...), p.Ops[start+size:]...)
			out = append(out, q)
		}
	}
	m := len(p.Polls)
	for size := m / 2; size >= 1; size /= 2 {
		for start := 0; start+size <= m; start += size {
			q := clone()
			q.Polls = append(append([]Poll(nil), p.Polls[:start]...), p.Polls[start+size:]...)
			out = append(out, q)
		}
		if size <= 2 && m > 40 {
			break // single-poll removal only for short lists
		}
	}
	simpl := func(f func(c *Config) bool) {
		q := clone()
		if f(&q.Cfg) {
			out = append(out, q)
		}
	}
	simpl(func(c *Config) bool { v := c.Comp != "none"; c.Comp = "none"; return v })
	simpl(func(c *Config) bool { v := c.FlushYield; c.FlushYield = false; return v })
	simpl(func(c *Config) bool { v := c.ShortRead != 0; c.ShortRead = 0; return v })
	simpl(func(c *Config) bool { v := c.EOFWithData; c.EOFWithData = false; return v })
	simpl(func(c *Config) bool { v := c.PolKind != "uniform"; c.PolKind = "uniform"; return v })
	simpl(func(c *Config) bool { v := c.SegKB != 32; c.SegKB = 32; return v })
	// batches -> single records; drop single records of a batch
	for i, o := range p.Ops {
		if o.K != "log" {
			continue
		}
		for j := range o.Recs {
			if len(o.Recs) > 1 {
				q := clone()
				q.Ops[i].Recs = append(append([]Rec(nil), o.Recs[:j]...), o.Recs[j+1:]...)
				out = append(out, q)
			}
			if o.Recs[j].SK == "abs" && o.Recs[j].N > 1 {
				q := clone()
				q.Ops[i].Recs = append([]Rec(nil), o.Recs...)
				q.Ops[i].Recs[j].N = o.Recs[j].N / 2
				out = append(out, q)
			}
			if o.Recs[j].Fill != 1 {
				q := clone()
				q.Ops[i].Recs = append([]Rec(nil), o.Recs...)
				q.Ops[i].Recs[j].Fill = 1
				out = append(out, q)
			}
		}
	}
	// polls: replace by "all"
	for i, pl := range p.Polls {
		if len(p.Polls) > 60 {
			break
		}
		if pl.M != "all" {
			q := clone()
			q.Polls[i] = Poll{M: "all", Seg: pl.Seg}
			out = append(out, q)
		}
	}
	return out
}
