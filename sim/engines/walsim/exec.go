package walsim

import (
	"bytes"
	"errors"
	"fmt"
	"io"
	"log/slog"
	"os"
	"path/filepath"
	"regexp"
	"runtime/debug"
	"sort"
	"strconv"
	"strings"
	"sync"
	"testing"
	"time"

	"github.com/prometheus/prometheus/tsdb/wlog"
	"github.com/prometheus/prometheus/util/compression"
	"github.com/prometheus/prometheus/util/simhook"

	"verif/sim/core/prng"
	"verif/sim/core/runner"
	"verif/sim/core/sched"
)

func scratchRoot() string {
	base := os.Getenv("VERIF_SCRATCH")
	if base == "" {
		base = "/dev/shm/verif-sim"
	}
	return filepath.Join(base, fmt.Sprintf("p%d", os.Getpid()))
}

// pos is a position in the log: (segment, byte offset), ordered lexicographically.
type pos struct {
	seg int
	off int64
}

func (a pos) le(b pos) bool { return a.seg < b.seg || (a.seg == b.seg && a.off <= b.off) }
func (a pos) lt(b pos) bool { return a.seg < b.seg || (a.seg == b.seg && a.off < b.off) }

// call is one Log call: where the log ended before and after it and how many records existed after it.
type call struct {
	start, end pos
	done       bool
	cum        int // number of records logged up to and including this call
	first      int // index of the first record of this call
}

type exec struct {
	prop string
	plan *Plan
	cfg  Config
	res  *runner.Result
	s    *sched.Sched
	root string
	dir  string

	mu         sync.Mutex
	segs       []int           // created segments, in creation order
	segSize    map[int]int64   // bytes written to each segment (= file size)
	flushes    map[int][]int64 // flush boundaries (offsets after each page flush) per segment
	expected   [][]byte        // every record handed to Log, in order
	calls      []call
	writerDone bool
	failed     bool
	notify     chan struct{}

	// writer side
	w   *wlog.WL
	seq []string // op / size-class sequence (distinctness key)

	// reader side
	cutClasses   []byte
	liveReturned int
	eofMidRecord int
	segsSwitched int
	multiPage    int
	pollsUsed    int
}

// ---- simhook.Simulator ----

type hookT struct {
	mu sync.Mutex
	e  *exec
}

var theHook = &hookT{}

func init() { simhook.Install(theHook) }

func (h *hookT) cur() *exec {
	h.mu.Lock()
	defer h.mu.Unlock()
	return h.e
}
func (h *hookT) set(e *exec) {
	h.mu.Lock()
	h.e = e
	h.mu.Unlock()
}
func (h *hookT) Yield(string, ...int)     {}
func (h *hookT) Acquire(string, bool)     {}
func (h *hookT) Release(string, bool)     {}
func (h *hookT) Event(string, ...any)     {}
func (h *hookT) ID16(b [16]byte) [16]byte { return b }
func (h *hookT) IO(op, site, path string, n int) {
	if e := h.cur(); e != nil {
		e.onIO(op, site, path, n)
	}
}

// onIO learns segment creation and flush boundaries from the passive IO hooks of wlog. It runs in the
// writer task (the only goroutine calling into the WL). With FlushYield the writer parks here: w.mtx is held,
// which is safe because no other task of this engine calls a WL method.
func (e *exec) onIO(op, site, path string, n int) {
	if !strings.HasPrefix(path, e.dir+"/") {
		return
	}
	idx, err := strconv.Atoi(filepath.Base(path))
	if err != nil {
		return
	}
	switch site {
	case "wlog.CreateSegment":
		e.mu.Lock()
		e.segs = append(e.segs, idx)
		e.segSize[idx] = 0
		e.mu.Unlock()
		e.res.Count("io:"+site, 1)
		e.wake()
	case "wlog.flushPage":
		e.mu.Lock()
		e.segSize[idx] += int64(n)
		e.flushes[idx] = append(e.flushes[idx], e.segSize[idx])
		e.mu.Unlock()
		e.res.Count("io:"+site, 1)
		e.wake()
		if e.cfg.FlushYield {
			e.s.Yield("wal.flush")
		}
	}
}

func (e *exec) wake() {
	select {
	case e.notify <- struct{}{}:
	default:
	}
}

func (e *exec) fail(oracle, sig, format string, a ...any) {
	e.mu.Lock()
	defer e.mu.Unlock()
	if e.failed {
		return
	}
	e.failed = true
	for i := range a {
		if err, ok := a[i].(error); ok && err != nil {
			a[i] = strings.ReplaceAll(err.Error(), e.root, "<root>") // process-specific scratch paths do not belong into a verdict
		}
	}
	e.res.Violate(e.prop, oracle, sig, format, a...)
}

func (e *exec) isFailed() bool {
	e.mu.Lock()
	defer e.mu.Unlock()
	return e.failed
}

// ---- record data ----

func fillRecord(rec Rec, n int) []byte {
	b := make([]byte, n)
	if n == 0 {
		return b
	}
	r := prng.New(rec.Seed)
	random := func(p []byte) {
		i := 0
		for ; i+8 <= len(p); i += 8 {
			x := r.Uint64()
			p[i], p[i+1], p[i+2], p[i+3], p[i+4], p[i+5], p[i+6], p[i+7] = byte(x), byte(x>>8), byte(x>>16), byte(x>>24), byte(x>>32), byte(x>>40), byte(x>>48), byte(x>>56)
		}
		if i < len(p) {
			x := r.Uint64()
			for ; i < len(p); i++ {
				p[i] = byte(x)
				x >>= 8
			}
		}
	}
	repeat := func(p []byte) {
		pat := make([]byte, 1+r.Intn(16))
		random(pat)
		if r.Intn(4) == 0 {
			for i := range pat {
				pat[i] = 0 // all-zero payloads look like page padding
			}
		}
		for i := range p {
			p[i] = pat[i%len(pat)]
		}
	}
	switch rec.Fill {
	case 0:
		random(b)
	case 1:
		c := byte(r.Uint64())
		if r.Intn(4) == 0 {
			c = 0
		}
		for i := range b {
			b[i] = c
		}
	case 2:
		repeat(b)
	default:
		random(b[:n/2])
		repeat(b[n/2:])
	}
	return b
}

func sizeClass(n, segKB int) string {
	pagePayload := genPage - genHeader
	segPayload := segKB * 1024 / genPage * pagePayload
	switch {
	case n == 0:
		return "0"
	case n == 1:
		return "1"
	case n < pagePayload-1:
		if n <= 200 {
			return "s"
		}
		return "m"
	case n <= pagePayload+1:
		return "p"
	case n <= genPage+1:
		return "P"
	case n >= segPayload-1 && n <= segPayload+1:
		return "S"
	case n > segPayload+1:
		return "X"
	default:
		return "M"
	}
}

// advance estimates the writer position after a record of n encoded bytes (generation bias only).
func advance(off int64, n int, pages int) int64 {
	rem := func(o int64) int { return int(genPage - o%genPage) }
	left := rem(off) - genHeader + (genPage-genHeader)*(pages-int(off/genPage)-1)
	if n > left {
		off = 0
	}
	for i := 0; i == 0 || n > 0; i++ {
		l := rem(off) - genHeader
		if l > n {
			l = n
		}
		off += int64(l + genHeader)
		n -= l
		if rem(off) < genHeader {
			off += int64(rem(off))
		}
	}
	return off
}

func (e *exec) resolveSize(rec Rec, off int64) int {
	pages := e.cfg.SegKB * 1024 / genPage
	var n int
	switch rec.SK {
	case "pagerem":
		n = int(genPage-off%genPage) - genHeader + rec.N
	case "segrem":
		n = int(genPage-off%genPage) - genHeader + (genPage-genHeader)*(pages-int(off/genPage)-1) + rec.N
	case "segcap":
		n = pages*(genPage-genHeader) + rec.N
	default:
		n = rec.N
	}
	if n < 0 {
		n = 0
	}
	if n > 8*e.cfg.SegKB*1024 {
		n = 8 * e.cfg.SegKB * 1024
	}
	return n
}

// ---- writer task ----

func (e *exec) curPos() pos {
	e.mu.Lock()
	defer e.mu.Unlock()
	if len(e.segs) == 0 {
		return pos{}
	}
	k := e.segs[len(e.segs)-1]
	return pos{k, e.segSize[k]}
}

func (e *exec) openWL() bool {
	w, err := wlog.NewSize(slog.New(slog.DiscardHandler), nil, e.dir, e.cfg.SegKB*1024, compression.Type(e.cfg.Comp))
	if err != nil {
		e.fail("open-error", "open-error", "wlog.NewSize failed: %v", err)
		return false
	}
	e.w = w
	return true
}

func (e *exec) writer() {
	defer func() {
		e.mu.Lock()
		e.writerDone = true
		e.mu.Unlock()
		e.wake()
	}()
	defer func() {
		// never leave the WL's actor goroutine behind, whatever path ended the task
		if e.w != nil {
			func() {
				defer func() { recover() }()
				e.w.Close()
			}()
			e.w = nil
		}
	}()
	defer e.recoverTask("writer")
	if !e.openWL() {
		return
	}
	e.s.Yield("writer")
	pages := e.cfg.SegKB * 1024 / genPage
	for i, op := range e.plan.Ops {
		if e.isFailed() {
			break
		}
		switch op.K {
		case "log":
			p0 := e.curPos()
			off := p0.off
			var recs [][]byte
			var cls []string
			for _, rc := range op.Recs {
				n := e.resolveSize(rc, off)
				b := fillRecord(rc, n)
				recs = append(recs, b)
				cls = append(cls, sizeClass(n, e.cfg.SegKB))
				off = advance(off, n, pages)
				switch c := cls[len(cls)-1]; c {
				case "0":
					e.res.Count("rec:empty", 1)
				case "p", "P":
					e.res.Count("rec:page-boundary", 1)
				case "S":
					e.res.Count("rec:segment-boundary", 1)
				case "X":
					e.res.Count("rec:larger-than-segment", 1)
				}
				if n > genPage-genHeader {
					e.multiPage++
				}
			}
			e.seq = append(e.seq, "L("+strings.Join(cls, ",")+")")
			e.mu.Lock()
			first := len(e.expected)
			e.expected = append(e.expected, recs...) // visible to the reader before the bytes are: it may read them while Log is still running
			e.calls = append(e.calls, call{start: p0, first: first, cum: len(e.expected)})
			ci := len(e.calls) - 1
			e.mu.Unlock()
			// Log must not keep or modify the caller's slices; hand it copies so that the expectation stays pristine.
			in := make([][]byte, len(recs))
			for j := range recs {
				in[j] = append([]byte(nil), recs[j]...)
			}
			if err := e.w.Log(in...); err != nil {
				e.fail("log-error", "log-error", "op %d: Log returned %v", i, err)
				return
			}
			for j := range recs {
				if !bytes.Equal(in[j], recs[j]) {
					e.fail("log-mutates-input", "log-mutates-input", "op %d: Log modified its input record %d", i, j)
					return
				}
			}
			p1 := e.curPos()
			e.mu.Lock()
			e.calls[ci].end, e.calls[ci].done = p1, true
			e.mu.Unlock()
			e.res.Count("records", int64(len(recs)))
		case "next":
			e.seq = append(e.seq, "N")
			if _, err := e.w.NextSegment(); err != nil {
				e.fail("nextsegment-error", "nextsegment-error", "op %d: NextSegment returned %v", i, err)
				return
			}
			e.res.Count("nextsegment", 1)
		case "reopen":
			e.seq = append(e.seq, "R")
			if err := e.w.Close(); err != nil {
				e.fail("close-error", "close-error", "op %d: Close returned %v", i, err)
				return
			}
			e.w = nil
			if !e.openWL() {
				return
			}
			e.res.Count("reopen", 1)
		case "readback":
			e.seq = append(e.seq, "B")
			e.mu.Lock()
			exp := e.expected[:len(e.expected):len(e.expected)]
			e.mu.Unlock()
			e.readAll("readback", exp, fmt.Sprintf("op %d (log still open)", i))
			e.res.Count("readback", 1)
		}
		e.wake()
		e.s.Yield("writer")
	}
	if e.w != nil {
		if err := e.w.Close(); err != nil {
			e.fail("close-error", "close-error", "final Close returned %v", err)
		}
		e.w = nil
	}
}

// readAll reads the whole directory with the non-live wlog.Reader and compares with exp.
func (e *exec) readAll(oracle string, exp [][]byte, where string) {
	sr, err := wlog.NewSegmentsReader(e.dir)
	if err != nil {
		e.fail(oracle+"-error", "open-segments", "%s: NewSegmentsReader: %v", where, err)
		return
	}
	defer sr.Close()
	r := wlog.NewReader(sr)
	i := 0
	for r.Next() {
		rec := r.Record()
		e.res.Evals++
		if i >= len(exp) {
			e.fail(oracle+"-sequence", "extra-record", "%s: Reader returned record %d (%d bytes) but only %d records were logged", where, i, len(rec), len(exp))
			return
		}
		if !bytes.Equal(rec, exp[i]) {
			e.fail(oracle+"-sequence", classify(exp, i, rec), "%s: Reader record %d differs from the logged one: got %s, logged %s (segment %d offset %d)", where, i, brief(rec), brief(exp[i]), r.Segment(), r.Offset())
			return
		}
		i++
	}
	if err := r.Err(); err != nil {
		e.fail(oracle+"-error", "reader-error:"+normErr(err), "%s: Reader stopped after %d of %d records with %v", where, i, len(exp), err)
		return
	}
	e.res.Evals++
	if i != len(exp) {
		e.fail(oracle+"-sequence", "missing-records", "%s: Reader returned %d records without error, %d were logged", where, i, len(exp))
	}
}

func classify(exp [][]byte, i int, got []byte) string {
	for j := i + 1; j < len(exp) && j < i+64; j++ {
		if bytes.Equal(exp[j], got) {
			return "skipped"
		}
	}
	for j := i - 1; j >= 0 && j > i-64; j-- {
		if bytes.Equal(exp[j], got) {
			return "duplicate-or-reordered"
		}
	}
	if len(got) != len(exp[i]) {
		return "wrong-length"
	}
	return "wrong-content"
}

func brief(b []byte) string {
	if len(b) <= 12 {
		return fmt.Sprintf("%d bytes %x", len(b), b)
	}
	return fmt.Sprintf("%d bytes %x..%x", len(b), b[:6], b[len(b)-4:])
}

func normErr(err error) string {
	// structural form of an error message: numbers, hex values and scratch paths are replaced
	out := rePath.ReplaceAllString(err.Error(), "<path>")
	out = reNum.ReplaceAllString(out, "N")
	if len(out) > 100 {
		out = out[:100]
	}
	return out
}

var (
	rePath = regexp.MustCompile(`/dev/shm/[^ :]*`)
	reNum  = regexp.MustCompile(`\b(0x)?[0-9a-fA-F]*[0-9][0-9a-fA-F]*\b`)
)

// ---- live reader task ----

// simReader is the simulator's io.Reader over one segment file: it exposes the file up to cut.
type simReader struct {
	f           *os.File
	pos         int64
	cut         int64
	short       int
	eofWithData bool
	reads       int
	win         []byte
	winOff      int64
}

func (s *simReader) Read(p []byte) (int, error) {
	avail := s.cut - s.pos
	if avail <= 0 || len(p) == 0 {
		if len(p) == 0 && avail > 0 {
			return 0, nil
		}
		return 0, io.EOF
	}
	n := len(p)
	if int64(n) > avail {
		n = int(avail)
	}
	if s.short > 0 && n > s.short {
		n = s.short
	}
	// bytes below the cut are immutable (append-only file): serve them from a read-ahead window so that
	// short reads do not cost one syscall each
	if s.pos < s.winOff || s.pos+int64(n) > s.winOff+int64(len(s.win)) {
		want := s.cut - s.pos
		if want > 64*1024 {
			want = 64 * 1024
		}
		if cap(s.win) < int(want) {
			s.win = make([]byte, want)
		}
		s.win = s.win[:want]
		m, err := s.f.ReadAt(s.win, s.pos)
		if m != int(want) {
			panic(fmt.Sprintf("harness: segment file shorter than the bytes reported written: want %d at %d, got %d (%v)", want, s.pos, m, err))
		}
		s.winOff = s.pos
	}
	copy(p[:n], s.win[s.pos-s.winOff:])
	s.pos += int64(n)
	s.reads++
	if s.eofWithData && s.pos == s.cut {
		return n, io.EOF
	}
	return n, nil
}

type liveState struct {
	k   int // current segment
	sr  *simReader
	lr  *wlog.LiveReader
	lrm *wlog.LiveReaderMetrics
}

func (e *exec) openLive(k int) *liveState {
	f, err := os.Open(wlog.SegmentName(e.dir, k))
	if err != nil {
		panic(fmt.Sprintf("harness: open segment %d: %v", k, err))
	}
	st := &liveState{k: k}
	st.sr = &simReader{f: f, short: e.cfg.ShortRead, eofWithData: e.cfg.EOFWithData}
	st.lrm = wlog.NewLiveReaderMetrics(nil)
	st.lr = wlog.NewLiveReader(slog.New(slog.DiscardHandler), st.lrm, st.sr)
	return st
}

func (e *exec) chooseCut(k int, cur int64, pl Poll) (cut, written int64, class byte) {
	e.mu.Lock()
	written = e.segSize[k]
	fl := e.flushes[k]
	e.mu.Unlock()
	switch pl.M {
	case "flush":
		idx := sort.Search(len(fl), func(i int) bool { return fl[i] > cur })
		kk := pl.K
		if kk < 1 {
			kk = 1
		}
		j := idx + kk - 1
		if j >= len(fl) {
			cut = written
		} else {
			cut = fl[j] + int64(pl.D)
		}
	case "frac":
		cut = cur + (written-cur)*int64(pl.K)/1024
		if cut == cur && written > cur {
			cut = cur + 1
		}
	case "bytes":
		cut = cur + int64(pl.K)
	case "same":
		cut = cur
	default:
		cut = written
	}
	if cut < cur {
		cut = cur
	}
	if cut > written {
		cut = written
	}
	// class of the cut relative to the last flush boundary at or below it
	idx := sort.Search(len(fl), func(i int) bool { return fl[i] > cut })
	var base int64
	if idx > 0 {
		base = fl[idx-1]
	}
	switch d := cut - base; {
	case cut == written:
		class = 'A' // everything written so far
	case d == 0:
		class = 'B' // exactly a flush boundary
	case d < genHeader:
		class = 'H' // 1..6 bytes after a flush boundary: inside the next fragment header
	default:
		class = 'P' // somewhere inside a fragment
	}
	return cut, written, class
}

// drain reads records until Next returns false and judges every record and the final error.
func (e *exec) drain(st *liveState, where string) bool {
	for st.lr.Next() {
		rec := st.lr.Record()
		e.res.Evals++
		e.mu.Lock()
		i := e.liveReturned
		var exp []byte
		have := i < len(e.expected)
		if have {
			exp = e.expected[i]
		}
		all := e.expected
		e.mu.Unlock()
		if !have {
			e.fail("live-sequence", "extra-record", "%s: LiveReader returned record %d (%s) but only %d records were logged", where, i, brief(rec), len(all))
			return false
		}
		if !bytes.Equal(rec, exp) {
			e.fail("live-sequence", classify(all, i, rec), "%s: LiveReader record %d differs from the logged one: got %s, logged %s (segment %d, reader offset %d, cut %d)", where, i, brief(rec), brief(exp), st.k, st.lr.Offset(), st.sr.cut)
			return false
		}
		e.liveReturned++
	}
	err := st.lr.Err()
	e.res.Evals++
	if err == nil || !errors.Is(err, io.EOF) {
		e.fail("live-error", "live-error:"+normErr(fmt.Errorf("%v", err)), "%s: LiveReader reported %v after %d records at segment %d reader offset %d with the segment visible up to byte %d (an incomplete tail must read as io.EOF)", where, err, e.liveReturned, st.k, st.lr.Offset(), st.sr.cut)
		return false
	}
	if st.sr.pos != st.sr.cut {
		panic(fmt.Sprintf("harness: LiveReader returned io.EOF although the simulated reader still had %d visible bytes", st.sr.cut-st.sr.pos))
	}
	// bounds from the positions of completed Log calls: everything that ended at or before the cut must have been returned,
	// nothing that started at or after the cut can have been.
	here := pos{st.k, st.sr.cut}
	e.mu.Lock()
	lower, upper, lowerCall := 0, len(e.expected), -1
	for ci, c := range e.calls {
		if c.done && c.end.le(here) {
			lower, lowerCall = c.cum, ci
		}
		if !c.start.lt(here) && c.first < upper {
			upper = c.first
		}
	}
	e.mu.Unlock()
	if e.liveReturned > upper {
		panic(fmt.Sprintf("harness: live reader returned %d records but only %d can start before the cut %v", e.liveReturned, upper, here))
	}
	if e.liveReturned < lower {
		e.fail("live-lag", "complete-records-not-returned", "%s: segment %d is visible up to byte %d, Log call %d had completed at %v with %d records in the log, but the LiveReader stopped with io.EOF after %d records (reader offset %d)", where, st.k, st.sr.cut, lowerCall, e.calls[lowerCall].end, lower, e.liveReturned, st.lr.Offset())
		return false
	}
	if st.lr.Offset() < st.sr.cut {
		e.eofMidRecord++
	}
	return true
}

func (e *exec) reader() {
	defer e.recoverTask("reader")
	// wait for the first segment
	for {
		e.mu.Lock()
		n := len(e.segs)
		done := e.writerDone
		e.mu.Unlock()
		if n > 0 {
			break
		}
		if done {
			return
		}
		<-e.notify
		e.s.Yield("reader")
	}
	e.mu.Lock()
	st := e.openLive(e.segs[0])
	e.mu.Unlock()
	defer func() { st.sr.f.Close() }()
	pi := 0
	for !e.isFailed() {
		pl := Poll{M: "all", Seg: true}
		if pi < len(e.plan.Polls) {
			pl = e.plan.Polls[pi]
			pi++
			e.pollsUsed++
		}
		where := fmt.Sprintf("live poll %d (%s)", pi, pl.M)
		e.mu.Lock()
		next := -1
		for i, k := range e.segs {
			if k == st.k && i+1 < len(e.segs) {
				next = e.segs[i+1]
			}
		}
		size := e.segSize[st.k]
		wdone := e.writerDone
		e.mu.Unlock()
		if pl.Seg && next >= 0 {
			// the watcher saw a newer segment: read the current one to its end, then move on
			st.sr.cut = size
			if !e.drain(st, where+" reading segment to its end") {
				return
			}
			if st.lr.Offset() != size {
				e.fail("live-segment-end", "unconsumed-bytes-at-segment-end", "%s: segment %d is complete (%d bytes, segment %d exists) but the LiveReader consumed only %d bytes before io.EOF", where, st.k, size, next, st.lr.Offset())
				return
			}
			st.sr.f.Close()
			st = e.openLive(next)
			e.segsSwitched++
			e.cutClasses = append(e.cutClasses, '|')
			e.s.Yield("reader")
			continue
		}
		cut, written, class := e.chooseCut(st.k, st.sr.cut, pl)
		st.sr.cut = cut
		e.cutClasses = append(e.cutClasses, class)
		e.res.Count("cut:"+string(class), 1)
		if cut < written {
			e.res.Count("fault:partial-visibility", 1) // the reader sees only a prefix of what has been written
		}
		if !e.drain(st, where) {
			return
		}
		if cut == written && next < 0 {
			if wdone {
				// everything is visible and nothing more will come
				if st.lr.Offset() != written {
					e.fail("live-segment-end", "unconsumed-bytes-at-segment-end", "%s: the log is closed, last segment %d has %d bytes but the LiveReader consumed only %d before io.EOF", where, st.k, written, st.lr.Offset())
				}
				return
			}
			// nothing new: wait for a write notification like the watcher does, and yield right after the wake-up
			e.mu.Lock()
			again := e.segSize[st.k] != written || len(e.segs) > 0 && e.segs[len(e.segs)-1] != st.k || e.writerDone
			e.mu.Unlock()
			if !again {
				<-e.notify
			}
		}
		e.s.Yield("reader")
	}
}

func (e *exec) recoverTask(name string) {
	if r := recover(); r != nil {
		msg := fmt.Sprint(r)
		if strings.HasPrefix(msg, "harness:") {
			panic(r)
		}
		st := string(debug.Stack())
		if !strings.Contains(st, "prometheus/prometheus/") {
			panic(r)
		}
		e.fail("panic", "panic:"+normErr(errors.New(msg)), "panic in %s task: %v\n%s", name, r, trimStack(st))
	}
}

func trimStack(s string) string {
	var keep []string
	for _, l := range strings.Split(s, "\n") {
		if strings.Contains(l, "prometheus/prometheus") {
			keep = append(keep, strings.TrimSpace(l))
		}
		if len(keep) >= 8 {
			break
		}
	}
	return strings.Join(keep, "\n")
}

// Execute runs one plan inside a synctest bubble.
func Execute(t *testing.T, prop string, plan *Plan) (res *runner.Result) {
	res = &runner.Result{Counters: map[string]int64{}}
	if plan.Cfg.SegKB == 0 {
		// not a walsim plan (e.g. another engine's replay file handed to this binary): nothing to execute
		return res
	}
	e := &exec{prop: prop, plan: plan, cfg: plan.Cfg, res: res, segSize: map[int]int64{}, flushes: map[int][]int64{}, notify: make(chan struct{}, 1)}
	e.root = filepath.Join(scratchRoot(), fmt.Sprintf("w%x", plan.Cfg.Seed))
	os.RemoveAll(e.root)
	e.dir = filepath.Join(e.root, "wal")
	if err := os.MkdirAll(e.dir, 0o777); err != nil {
		panic("harness: " + err.Error())
	}
	defer os.RemoveAll(e.root)
	e.s = sched.New(plan.Cfg.SchedSeed, plan.Cfg.policy())
	if plan.Cfg.Choices != nil {
		e.s.Replay = plan.Cfg.Choices
	}
	e.s.MaxSteps = 200000
	theHook.set(e)
	defer theHook.set(nil)

	e.s.Go("writer", e.writer)
	e.s.Go("reader", e.reader)
	err := e.s.Run(nil)
	steps := e.s.Steps()
	e.s.Stop()
	if err != nil {
		panic(fmt.Sprintf("harness: scheduler: %v", err))
	}
	e.mu.Lock()
	wd := e.writerDone
	e.mu.Unlock()
	if !wd {
		panic(fmt.Sprintf("harness: step cap reached after %d steps with the writer unfinished", steps))
	}
	if !e.isFailed() {
		func() {
			defer e.recoverTask("final read-back")
			e.readAll("reader", e.expected, "after Close")
		}()
	}
	if !e.isFailed() && e.liveReturned != len(e.expected) {
		e.fail("live-missing-at-end", "missing-records", "the log is closed and fully visible but the LiveReader returned %d of %d records", e.liveReturned, len(e.expected))
	}

	res.SimTimeMs = time.Since(time.Date(2000, 1, 1, 0, 0, 0, 0, time.UTC)).Milliseconds()
	res.Count("sched_steps", int64(steps))
	res.Count("eof_mid_record", int64(e.eofMidRecord))
	res.Count("segments_switched", int64(e.segsSwitched))
	res.Count("records_multi_page", int64(e.multiPage))
	res.Count("polls", int64(e.pollsUsed))
	res.NonTrivial = e.eofMidRecord > 0 && len(e.expected) >= 2
	cc := compress(e.cutClasses)
	res.Key = fmt.Sprintf("%s/%d/fy%v/sr%d|%s|%s", e.cfg.Comp, e.cfg.SegKB, e.cfg.FlushYield, e.cfg.ShortRead, strings.Join(e.seq, " "), cc)
	sizes := make([]int, 0, 16)
	for i, r := range e.expected {
		if i >= 16 {
			break
		}
		sizes = append(sizes, len(r))
	}
	res.Sample = map[string]any{"seed": e.cfg.Seed, "config": e.cfg, "cutmode": plan.CutMode, "ops": strings.Join(e.seq, " "), "records": len(e.expected),
		"first_record_sizes": sizes, "segments": len(e.segs), "live_cut_classes": cc, "eof_inside_record": e.eofMidRecord,
		"interleaving": fmt.Sprintf("%016x", e.s.TraceHash()), "sched_steps": steps}
	res.Trace = fmt.Sprintf("%016x/%d/%d/%s/%s", e.s.TraceHash(), e.liveReturned, len(e.expected), cc, strings.Join(e.seq, " "))
	return res
}

// compress run-length encodes a class string.
func compress(b []byte) string {
	var sb strings.Builder
	for i := 0; i < len(b); {
		j := i
		for j < len(b) && b[j] == b[i] {
			j++
		}
		sb.WriteByte(b[i])
		if j-i > 1 {
			sb.WriteString(strconv.Itoa(j - i))
		}
		i = j
	}
	return sb.String()
}
