module verif/sim

go 1.25.10

require (
	github.com/anishathalye/porcupine v1.3.0
	github.com/cespare/xxhash/v2 v2.3.0
	github.com/golang/snappy v1.0.0
	github.com/oklog/ulid/v2 v2.1.2
	github.com/prometheus/client_golang v1.24.1
	github.com/prometheus/client_model v0.6.2
	github.com/prometheus/common v0.70.1
	github.com/prometheus/prometheus v0.0.0
)

require (
	cloud.google.com/go/auth v0.20.0 // indirect
	cloud.google.com/go/auth/oauth2adapt v0.2.8 // indirect
	cloud.google.com/go/compute/metadata v0.9.0 // indirect
	github.com/Azure/azure-sdk-for-go/sdk/azcore v1.22.0 // indirect
	github.com/Azure/azure-sdk-for-go/sdk/azidentity v1.14.0 // indirect
	github.com/Azure/azure-sdk-for-go/sdk/internal v1.12.0 // indirect
	github.com/AzureAD/microsoft-authentication-library-for-go v1.7.2 // indirect
	github.com/alecthomas/units v0.0.0-20240927000941-0f3dac36c52b // indirect
	github.com/aws/aws-sdk-go-v2 v1.43.4 // indirect
	github.com/aws/aws-sdk-go-v2/config v1.32.35 // indirect
	github.com/aws/aws-sdk-go-v2/credentials v1.19.34 // indirect
	github.com/aws/aws-sdk-go-v2/feature/ec2/imds v1.18.35 // indirect
	github.com/aws/aws-sdk-go-v2/internal/configsources v1.4.35 // indirect
	github.com/aws/aws-sdk-go-v2/internal/endpoints/v2 v2.7.35 // indirect
	github.com/aws/aws-sdk-go-v2/internal/v4a v1.4.36 // indirect
	github.com/aws/aws-sdk-go-v2/service/internal/accept-encoding v1.13.15 // indirect
	github.com/aws/aws-sdk-go-v2/service/internal/presigned-url v1.13.35 // indirect
	github.com/aws/aws-sdk-go-v2/service/signin v1.5.4 // indirect
	github.com/aws/aws-sdk-go-v2/service/sso v1.33.4 // indirect
	github.com/aws/aws-sdk-go-v2/service/ssooidc v1.38.4 // indirect
	github.com/aws/aws-sdk-go-v2/service/sts v1.45.4 // indirect
	github.com/aws/smithy-go v1.27.7 // indirect
	github.com/bboreham/go-loser v0.0.0-20230920113527-fcc2c21820a3 // indirect
	github.com/beorn7/perks v1.0.1 // indirect
	github.com/cenkalti/backoff/v5 v5.0.3 // indirect
	github.com/davecgh/go-spew v1.1.2-0.20180830191138-d8f796af33cc // indirect
	github.com/dennwc/varint v1.0.0 // indirect
	github.com/edsrzf/mmap-go v1.2.1-0.20241212181136-fad1cd13edbd // indirect
	github.com/facette/natsort v0.0.0-20181210072756-2cd4dd1e2dcb // indirect
	github.com/felixge/httpsnoop v1.1.0 // indirect
	github.com/fxamacker/cbor/v2 v2.9.0 // indirect
	github.com/go-logr/logr v1.4.3 // indirect
	github.com/go-logr/stdr v1.2.2 // indirect
	github.com/go-openapi/analysis v0.25.0 // indirect
	github.com/go-openapi/errors v0.22.8 // indirect
	github.com/go-openapi/jsonpointer v0.23.2 // indirect
	github.com/go-openapi/jsonreference v0.21.5 // indirect
	github.com/go-openapi/loads v0.23.3 // indirect
	github.com/go-openapi/spec v0.22.4 // indirect
	github.com/go-openapi/strfmt v0.27.0 // indirect
	github.com/go-openapi/swag v0.26.0 // indirect
	github.com/go-openapi/swag/cmdutils v0.26.0 // indirect
	github.com/go-openapi/swag/conv v0.26.0 // indirect
	github.com/go-openapi/swag/fileutils v0.26.0 // indirect
	github.com/go-openapi/swag/jsonname v0.26.1 // indirect
	github.com/go-openapi/swag/jsonutils v0.26.0 // indirect
	github.com/go-openapi/swag/loading v0.26.0 // indirect
	github.com/go-openapi/swag/mangling v0.26.0 // indirect
	github.com/go-openapi/swag/netutils v0.26.0 // indirect
	github.com/go-openapi/swag/stringutils v0.26.0 // indirect
	github.com/go-openapi/swag/typeutils v0.26.0 // indirect
	github.com/go-openapi/swag/yamlutils v0.26.0 // indirect
	github.com/go-openapi/validate v0.25.2 // indirect
	github.com/go-viper/mapstructure/v2 v2.5.0 // indirect
	github.com/gobwas/glob v0.2.3 // indirect
	github.com/gogo/protobuf v1.3.2 // indirect
	github.com/golang-jwt/jwt/v5 v5.3.1 // indirect
	github.com/google/go-cmp v0.7.0 // indirect
	github.com/google/s2a-go v0.1.9 // indirect
	github.com/google/uuid v1.6.0 // indirect
	github.com/googleapis/enterprise-certificate-proxy v0.3.18 // indirect
	github.com/googleapis/gax-go/v2 v2.23.0 // indirect
	github.com/grafana/regexp v0.0.0-20250905093917-f7b3be9d1853 // indirect
	github.com/hashicorp/go-version v1.9.0 // indirect
	github.com/jpillora/backoff v1.0.0 // indirect
	github.com/json-iterator/go v1.1.12 // indirect
	github.com/klauspost/compress v1.19.2 // indirect
	github.com/knadh/koanf/maps v0.1.2 // indirect
	github.com/knadh/koanf/providers/confmap v1.0.0 // indirect
	github.com/knadh/koanf/v2 v2.3.5 // indirect
	github.com/kylelemons/godebug v1.1.0 // indirect
	github.com/mitchellh/copystructure v1.2.0 // indirect
	github.com/mitchellh/reflectwalk v1.0.2 // indirect
	github.com/modern-go/concurrent v0.0.0-20180306012644-bacd9c7ef1dd // indirect
	github.com/modern-go/reflect2 v1.0.3-0.20250322232337-35a7c28c31ee // indirect
	github.com/munnerz/goautoneg v0.0.0-20191010083416-a7dc8b61c822 // indirect
	github.com/mwitkow/go-conntrack v0.0.0-20190716064945-2f068394615f // indirect
	github.com/open-telemetry/opentelemetry-collector-contrib/internal/exp/metrics v0.157.0 // indirect
	github.com/open-telemetry/opentelemetry-collector-contrib/pkg/pdatautil v0.157.0 // indirect
	github.com/open-telemetry/opentelemetry-collector-contrib/processor/deltatocumulativeprocessor v0.157.0 // indirect
	github.com/pkg/browser v0.0.0-20240102092130-5ac0b6a4141c // indirect
	github.com/pmezard/go-difflib v1.0.1-0.20181226105442-5d4384ee4fb2 // indirect
	github.com/prometheus/alertmanager v0.33.1 // indirect
	github.com/prometheus/client_golang/exp v0.0.0-20260724065723-ecdb8254ba61 // indirect
	github.com/prometheus/otlptranslator v1.0.0 // indirect
	github.com/prometheus/procfs v0.21.1 // indirect
	github.com/prometheus/sigv4 v0.4.1 // indirect
	github.com/puzpuzpuz/xsync/v4 v4.5.0 // indirect
	github.com/stretchr/testify v1.11.1 // indirect
	github.com/x448/float16 v0.8.4 // indirect
	go.opentelemetry.io/auto/sdk v1.2.1 // indirect
	go.opentelemetry.io/collector/component v1.63.0 // indirect
	go.opentelemetry.io/collector/confmap v1.63.0 // indirect
	go.opentelemetry.io/collector/confmap/xconfmap v0.157.0 // indirect
	go.opentelemetry.io/collector/consumer v1.63.0 // indirect
	go.opentelemetry.io/collector/featuregate v1.63.0 // indirect
	go.opentelemetry.io/collector/internal/componentalias v0.157.0 // indirect
	go.opentelemetry.io/collector/pdata v1.63.0 // indirect
	go.opentelemetry.io/collector/pipeline v1.63.0 // indirect
	go.opentelemetry.io/collector/processor v1.63.0 // indirect
	go.opentelemetry.io/contrib/instrumentation/net/http/httptrace/otelhttptrace v0.69.0 // indirect
	go.opentelemetry.io/contrib/instrumentation/net/http/otelhttp v0.69.0 // indirect
	go.opentelemetry.io/otel v1.44.0 // indirect
	go.opentelemetry.io/otel/metric v1.44.0 // indirect
	go.opentelemetry.io/otel/trace v1.44.0 // indirect
	go.uber.org/atomic v1.11.0 // indirect
	go.uber.org/goleak v1.3.0 // indirect
	go.uber.org/multierr v1.11.0 // indirect
	go.uber.org/zap v1.28.0 // indirect
	go.yaml.in/yaml/v2 v2.4.4 // indirect
	go.yaml.in/yaml/v3 v3.0.5 // indirect
	golang.org/x/crypto v0.54.0 // indirect
	golang.org/x/exp v0.0.0-20260709172345-9ea1abe57597 // indirect
	golang.org/x/net v0.57.0 // indirect
	golang.org/x/oauth2 v0.36.0 // indirect
	golang.org/x/sync v0.22.0 // indirect
	golang.org/x/sys v0.47.0 // indirect
	golang.org/x/term v0.45.0 // indirect
	golang.org/x/text v0.40.0 // indirect
	golang.org/x/time v0.15.0 // indirect
	google.golang.org/api v0.290.0 // indirect
	google.golang.org/genproto/googleapis/rpc v0.0.0-20260729162451-8efbd57d26e0 // indirect
	google.golang.org/grpc v1.82.1 // indirect
	google.golang.org/protobuf v1.36.12 // indirect
	gopkg.in/inf.v0 v0.9.1 // indirect
	gopkg.in/yaml.v3 v3.0.1 // indirect
	k8s.io/apimachinery v0.35.3 // indirect
	k8s.io/client-go v0.35.3 // indirect
	k8s.io/klog/v2 v2.140.0 // indirect
	k8s.io/kube-openapi v0.0.0-20260317180543-43fb72c5454a // indirect
	k8s.io/utils v0.0.0-20260210185600-b8788abfbbc2 // indirect
	sigs.k8s.io/json v0.0.0-20250730193827-2d320260d730 // indirect
	sigs.k8s.io/randfill v1.0.0 // indirect
	sigs.k8s.io/structured-merge-diff/v6 v6.3.3 // indirect
	sigs.k8s.io/yaml v1.6.0 // indirect
)

replace github.com/prometheus/prometheus => /repo
