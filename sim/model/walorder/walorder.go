// Package walorder decodes a Prometheus WAL directory (head or agent) the way a replay reads it - the last
// checkpoint, then every segment after the checkpoint's index - and checks the reference-order clause of C15:
// every sample, histogram, exemplar, metadata or tombstone entry refers to a series whose label record precedes
// it in replay order. It has no side effects (no simulator hooks), so any engine can import it.
package walorder

import (
	"errors"
	"fmt"
	"math"
	"os"
	"path/filepath"
	"sort"
	"strings"

	"github.com/prometheus/prometheus/model/histogram"
	"github.com/prometheus/prometheus/model/labels"
	"github.com/prometheus/prometheus/tsdb/record"
	"github.com/prometheus/prometheus/tsdb/wlog"
)

// Entry is one decoded element of a WAL record, in replay order.
type Entry struct {
	InCP   bool   // read from the checkpoint (else from a segment)
	Seg    int    // segment index (checkpoint index for checkpoint entries)
	Rec    int    // ordinal of the record in replay order
	What   string // series | float | hist | fhist | exemplar | metadata | tombstone
	Ref    uint64
	T      int64
	Key    string // value key (data entries)
	Labels string // series entries
}

// View is the decoded content of a WAL directory as a replay would read it:
// the last checkpoint, then every segment after the checkpoint's index.
type View struct {
	CP          int // index of the last checkpoint, -1 if none
	First, Last int // segment range on disk (-1,-1 if none)
	Ignored     int // segments at or below the checkpoint index still on disk (replay skips them)
	Entries     []Entry
	Records     int
	Err         error // first read / decode error (a replay would stop and repair here)
	ErrSeg      int
}

// KeyFloat etc. build the canonical value keys shared by the model items and the decoded entries.
// A zero value (float 0, empty histogram) is keyed "zero": the generated workload never writes one itself,
// the only documented source is the best-effort start-timestamp zero sample.
func KeyFloat(v float64, st int64) string {
	if v == 0 {
		return "zero"
	}
	return fmt.Sprintf("f:%016x|st=%d", math.Float64bits(v), st)
}

func spansKey(s []histogram.Span) string {
	var sb strings.Builder
	for _, x := range s {
		fmt.Fprintf(&sb, "%d:%d,", x.Offset, x.Length)
	}
	return sb.String()
}

func KeyHist(h *histogram.Histogram, st int64) string {
	if h.Count == 0 && h.Sum == 0 && len(h.PositiveBuckets) == 0 && len(h.NegativeBuckets) == 0 && h.ZeroCount == 0 {
		return "zero"
	}
	return fmt.Sprintf("h:%d|%d|%x|%d|%d|%x|%s|%s|%v|%v|%v|st=%d", h.CounterResetHint, h.Schema, math.Float64bits(h.ZeroThreshold), h.ZeroCount, h.Count,
		math.Float64bits(h.Sum), spansKey(h.PositiveSpans), spansKey(h.NegativeSpans), h.PositiveBuckets, h.NegativeBuckets, h.CustomValues, st)
}

func KeyFHist(h *histogram.FloatHistogram, st int64) string {
	if h.Count == 0 && h.Sum == 0 && len(h.PositiveBuckets) == 0 && len(h.NegativeBuckets) == 0 && h.ZeroCount == 0 {
		return "zero"
	}
	return fmt.Sprintf("fh:%d|%d|%x|%x|%x|%x|%s|%s|%v|%v|%v|st=%d", h.CounterResetHint, h.Schema, math.Float64bits(h.ZeroThreshold), math.Float64bits(h.ZeroCount),
		math.Float64bits(h.Count), math.Float64bits(h.Sum), spansKey(h.PositiveSpans), spansKey(h.NegativeSpans), h.PositiveBuckets, h.NegativeBuckets, h.CustomValues, st)
}

func KeyExemplar(v float64, l labels.Labels) string {
	return fmt.Sprintf("e:%016x|%s", math.Float64bits(v), l.String())
}

// decodeInto appends the entries of one record.
func decodeInto(v *View, dec *record.Decoder, rec []byte, inCP bool, seg int) error {
	add := func(e Entry) {
		e.InCP, e.Seg, e.Rec = inCP, seg, v.Records
		v.Entries = append(v.Entries, e)
	}
	switch dec.Type(rec) {
	case record.Series:
		ss, err := dec.Series(rec, nil)
		if err != nil {
			return fmt.Errorf("decode series: %w", err)
		}
		for _, s := range ss {
			add(Entry{What: "series", Ref: uint64(s.Ref), Labels: s.Labels.String()})
		}
	case record.Samples, record.SamplesV2:
		ss, err := dec.Samples(rec, nil)
		if err != nil {
			return fmt.Errorf("decode samples: %w", err)
		}
		for _, s := range ss {
			add(Entry{What: "float", Ref: uint64(s.Ref), T: s.T, Key: KeyFloat(s.V, s.ST)})
		}
	case record.HistogramSamples, record.CustomBucketsHistogramSamples, record.HistogramSamplesV2:
		ss, err := dec.HistogramSamples(rec, nil)
		if err != nil {
			return fmt.Errorf("decode histograms: %w", err)
		}
		for _, s := range ss {
			add(Entry{What: "hist", Ref: uint64(s.Ref), T: s.T, Key: KeyHist(s.H, s.ST)})
		}
	case record.FloatHistogramSamples, record.CustomBucketsFloatHistogramSamples, record.FloatHistogramSamplesV2:
		ss, err := dec.FloatHistogramSamples(rec, nil)
		if err != nil {
			return fmt.Errorf("decode float histograms: %w", err)
		}
		for _, s := range ss {
			add(Entry{What: "fhist", Ref: uint64(s.Ref), T: s.T, Key: KeyFHist(s.FH, s.ST)})
		}
	case record.Exemplars:
		ss, err := dec.Exemplars(rec, nil)
		if err != nil {
			return fmt.Errorf("decode exemplars: %w", err)
		}
		for _, s := range ss {
			add(Entry{What: "exemplar", Ref: uint64(s.Ref), T: s.T, Key: KeyExemplar(s.V, s.Labels)})
		}
	case record.Metadata:
		ss, err := dec.Metadata(rec, nil)
		if err != nil {
			return fmt.Errorf("decode metadata: %w", err)
		}
		for _, s := range ss {
			add(Entry{What: "metadata", Ref: uint64(s.Ref), Key: fmt.Sprintf("m:%d|%s|%s", s.Type, s.Unit, s.Help)})
		}
	case record.Tombstones:
		ss, err := dec.Tombstones(rec, nil)
		if err != nil {
			return fmt.Errorf("decode tombstones: %w", err)
		}
		for _, s := range ss {
			add(Entry{What: "tombstone", Ref: uint64(s.Ref), Key: fmt.Sprint(s.Intervals)})
		}
	case record.MmapMarkers:
		// head WBL only; not part of the reference-order clause
		if _, err := dec.MmapMarkers(rec, nil); err != nil {
			return fmt.Errorf("decode mmap markers: %w", err)
		}
	default:
		return fmt.Errorf("unknown record type %d", dec.Type(rec))
	}
	v.Records++
	return nil
}

// ReadWAL decodes a WAL directory in replay order. Reading stops at the first error (kept in View.Err).
func ReadWAL(walDir string) *View {
	v := &View{CP: -1, First: -1, Last: -1, ErrSeg: -1}
	dec := record.NewDecoder(labels.NewSymbolTable(), nil)
	cpDir, idx, err := wlog.LastCheckpoint(walDir)
	switch {
	case err == nil:
		v.CP = idx
		sr, err := wlog.NewSegmentsReader(cpDir)
		if err != nil {
			v.Err = fmt.Errorf("open checkpoint: %w", err)
			return v
		}
		r := wlog.NewReader(sr)
		for r.Next() {
			if err := decodeInto(v, &dec, r.Record(), true, idx); err != nil {
				v.Err = fmt.Errorf("checkpoint %d: %w", idx, err)
				sr.Close()
				return v
			}
		}
		sr.Close()
		if r.Err() != nil {
			v.Err = fmt.Errorf("checkpoint %d: %w", idx, r.Err())
			return v
		}
	case errors.Is(err, record.ErrNotFound):
		idx = -1
	default:
		v.Err = fmt.Errorf("find last checkpoint: %w", err)
		return v
	}
	first, last, err := wlog.Segments(walDir)
	if err != nil {
		if os.IsNotExist(err) {
			return v
		}
		v.Err = fmt.Errorf("list segments: %w", err)
		return v
	}
	v.First, v.Last = first, last
	if last < 0 {
		return v
	}
	for i := first; i <= idx && i <= last; i++ {
		v.Ignored++
	}
	if idx+1 > last {
		return v
	}
	from := idx + 1
	if from < first {
		// a replay starts at the segment after the checkpoint and fails if it is missing
		v.Err, v.ErrSeg = fmt.Errorf("segments %d..%d after checkpoint %d are missing", from, first-1, idx), from
		return v
	}
	// one reader over all segments (one read buffer instead of one per segment)
	sr, err := wlog.NewSegmentsRangeReader(wlog.SegmentRange{Dir: walDir, First: from, Last: last})
	if err != nil {
		v.Err, v.ErrSeg = fmt.Errorf("open segments %d..%d: %w", from, last, err), from
		return v
	}
	defer sr.Close()
	r := wlog.NewReader(sr)
	for r.Next() {
		if err := decodeInto(v, &dec, r.Record(), false, r.Segment()); err != nil {
			v.Err, v.ErrSeg = fmt.Errorf("segment %d: %w", r.Segment(), err), r.Segment()
			return v
		}
	}
	if r.Err() != nil {
		v.Err, v.ErrSeg = fmt.Errorf("segment %d: %w", r.Segment(), r.Err()), r.Segment()
		return v
	}
	return v
}

// Orphan is a data entry whose series reference has no series record earlier in replay order.
type Orphan struct {
	Entry Entry
}

func (o Orphan) String() string {
	loc := fmt.Sprintf("segment %d", o.Entry.Seg)
	if o.Entry.InCP {
		loc = fmt.Sprintf("checkpoint %d", o.Entry.Seg)
	}
	return fmt.Sprintf("%s entry ref=%d t=%d in %s (record %d) has no earlier series record", o.Entry.What, o.Entry.Ref, o.Entry.T, loc, o.Entry.Rec)
}

// RefOrder walks a view in replay order and returns, for every data entry, the label set its reference resolves to
// (by the latest earlier series record) or "" if there is none, plus the list of orphans.
func RefOrder(v *View) (resolved []string, orphans []Orphan) {
	refLabels := map[uint64]string{}
	resolved = make([]string, len(v.Entries))
	for i, e := range v.Entries {
		if e.What == "series" {
			refLabels[e.Ref] = e.Labels
			continue
		}
		l, ok := refLabels[e.Ref]
		if !ok {
			orphans = append(orphans, Orphan{Entry: e})
			continue
		}
		resolved[i] = l
	}
	return resolved, orphans
}

// CheckRefOrder is the agent half of C15 as a stand-alone function (exported for the tsdb engines): it decodes the
// last checkpoint plus the later segments of walDir in replay order and returns one line per sample, histogram,
// exemplar, metadata or tombstone entry that refers to a series whose label record does not precede it.
// entries is the number of data entries examined; err is a read / decode error (entries before it were examined).
func CheckRefOrder(walDir string) (violations []string, entries int, err error) {
	v := ReadWAL(walDir)
	_, orphans := RefOrder(v)
	for _, o := range orphans {
		violations = append(violations, o.String())
	}
	for _, e := range v.Entries {
		if e.What != "series" {
			entries++
		}
	}
	return violations, entries, v.Err
}

// Summary is a canonical (order-insensitive within a location) description of a view, used in determinism traces.
func (v *View) Summary() string {
	var ls []string
	for _, e := range v.Entries {
		loc := "s"
		if e.InCP {
			loc = "c"
		}
		ls = append(ls, fmt.Sprintf("%s%d %s %d %d %s %s", loc, e.Seg, e.What, e.Ref, e.T, e.Key, e.Labels))
	}
	sort.Strings(ls)
	return fmt.Sprintf("cp=%d first=%d last=%d ign=%d err=%v\n%s", v.CP, v.First, v.Last, v.Ignored, v.Err != nil, strings.Join(ls, "\n"))
}

// Layout is a coarse signature of the WAL directory (distinct-state counting).
func Layout(dir string) string {
	ents, _ := os.ReadDir(filepath.Join(dir, "wal"))
	var segs, cps, tmps int
	for _, e := range ents {
		n := e.Name()
		switch {
		case strings.HasSuffix(n, ".tmp") || strings.HasSuffix(n, ".repair"):
			tmps++
		case strings.HasPrefix(n, "checkpoint."):
			cps++
		default:
			segs++
		}
	}
	return fmt.Sprintf("w%d.c%d.t%d", segs, cps, tmps)
}
