// Package histgen builds valid native histograms from small per-series states so that a
// plan only has to carry a mode and a seed per histogram append.
package histgen

import (
	"sort"

	"github.com/prometheus/prometheus/model/histogram"

	"verif/sim/core/prng"
)

// Mode of evolution for the next histogram of a series.
const (
	Grow         = iota // counts grow, layout may gain buckets (no counter reset)
	Reset               // some count decreases (counter reset)
	SchemaChange        // schema or zero threshold or custom bounds change
	Shift               // bucket layout shifts / shrinks
	Gauge               // gauge histogram with arbitrary counts
	NegShrink           // negative (and positive) buckets disappear without any count going down elsewhere: backward inserts
	ZeroReset           // only the zero bucket goes down (a counter reset visible nowhere else)
	NModes
)

// State is the per-series evolving bucket state.
type State struct {
	Schema  int32
	ZeroTh  float64
	Zero    int64
	Pos     map[int32]int64
	Neg     map[int32]int64
	Custom  []float64 // non-nil => custom buckets (schema -53)
	started bool

	// PreferCustom (set before the first Next) makes custom buckets the likely layout of this series.
	PreferCustom bool
}

func (s *State) init(r *prng.R) {
	s.started = true
	s.Pos = map[int32]int64{}
	s.Neg = map[int32]int64{}
	pc := 0.25
	if s.PreferCustom {
		pc = 0.7
	}
	if r.Chance(pc) {
		s.Schema = histogram.CustomBucketsSchema
		s.Custom = []float64{0.5, 1, 2.5, 5, 10}
		s.ZeroTh, s.Zero = 0, 0
	} else {
		s.Schema = int32(r.Range(-2, 3))
		s.ZeroTh = []float64{0, 0.001, 1e-128}[r.Intn(3)]
		s.Custom = nil
		s.Zero = int64(r.Intn(3))
	}
	n := r.Range(1, 4)
	for i := 0; i < n; i++ {
		s.Pos[s.idx(r)] = int64(r.Range(1, 5))
	}
	if s.Custom == nil && r.Chance(0.5) {
		s.Neg[s.idx(r)] = int64(r.Range(1, 3))
	}
}

func (s *State) idx(r *prng.R) int32 {
	if s.Custom != nil {
		return int32(r.Intn(len(s.Custom) + 1))
	}
	return int32(r.Range(-4, 8))
}

// Next evolves the state according to mode and returns the histogram; sum is the caller's unique value.
func (s *State) Next(r *prng.R, mode int, sum float64, float bool) (*histogram.Histogram, *histogram.FloatHistogram) {
	if !s.started {
		s.init(r)
	} else {
		switch mode {
		case Grow:
			for _, k := range allKeys(s.Pos) {
				if r.Chance(0.6) {
					s.Pos[k] += int64(r.Intn(3))
				}
			}
			if r.Chance(0.4) {
				s.Pos[s.idx(r)] += int64(r.Range(1, 3))
			}
			if s.Custom == nil {
				if r.Chance(0.3) {
					s.Neg[s.idx(r)] += int64(r.Range(1, 2))
				}
				if r.Chance(0.3) {
					s.Zero += int64(r.Intn(2))
				}
			}
		case Reset:
			dec := false
			for _, k := range allKeys(s.Pos) {
				v := s.Pos[k]
				if v > 1 && r.Chance(0.7) {
					s.Pos[k] = v - 1 - int64(r.Intn(int(v-1)))
					dec = true
				}
			}
			if !dec {
				for _, k := range allKeys(s.Pos) {
					delete(s.Pos, k)
					break
				}
				if len(s.Pos) == 0 {
					s.Pos[s.idx(r)] = 1
				}
			}
		case SchemaChange:
			old := *s
			s.started = false
			s.init(r)
			_ = old
		case Shift:
			np := map[int32]int64{}
			sh := int32(r.Range(-2, 2))
			for _, k := range allKeys(s.Pos) {
				v := s.Pos[k]
				nk := k + sh
				if s.Custom != nil {
					if nk < 0 {
						nk = 0
					}
					if nk > int32(len(s.Custom)) {
						nk = int32(len(s.Custom))
					}
				}
				np[nk] += v
			}
			s.Pos = np
		case Gauge:
			for _, k := range allKeys(s.Pos) {
				s.Pos[k] = int64(r.Range(0, 6))
			}
			s.Pos[s.idx(r)] = int64(r.Range(1, 6))
			if s.Custom == nil && r.Chance(0.5) {
				for _, k := range allKeys(s.Neg) {
					s.Neg[k] = int64(r.Range(0, 4))
				}
				s.Neg[s.idx(r)] = int64(r.Range(1, 4))
			}
		case NegShrink:
			// make sure there are several buckets on both sides, then drop one that is followed by a populated one
			if s.Custom == nil {
				for len(s.Neg) < 3 {
					s.Neg[s.idx(r)] += int64(r.Range(1, 3))
				}
				if ks := sortedKeys(s.Neg); len(ks) >= 2 {
					delete(s.Neg, ks[r.Intn(len(ks)-1)])
				}
			}
			for len(s.Pos) < 3 {
				s.Pos[s.idx(r)] += int64(r.Range(1, 3))
			}
			if ks := sortedKeys(s.Pos); len(ks) >= 2 && r.Chance(0.5) {
				delete(s.Pos, ks[r.Intn(len(ks)-1)])
			}
		case ZeroReset:
			if s.Custom == nil {
				if s.Zero > 0 {
					s.Zero -= 1 + int64(r.Intn(int(s.Zero)))
				} else {
					s.Zero = int64(r.Range(1, 3)) // next time it can go down
				}
			}
			for _, k := range allKeys(s.Pos) {
				if r.Chance(0.5) {
					s.Pos[k] += int64(r.Intn(2))
				}
			}
		}
	}
	gauge := mode == Gauge || mode == NegShrink // a layout may only shrink without a counter reset in a gauge histogram
	if float {
		fh := &histogram.FloatHistogram{Schema: s.Schema, ZeroThreshold: s.ZeroTh, ZeroCount: float64(s.Zero) * 0.5, Sum: sum}
		if s.Custom != nil {
			fh.CustomValues = append([]float64(nil), s.Custom...)
		}
		var pc, nc float64
		fh.PositiveSpans, fh.PositiveBuckets, pc = spansF(s.Pos, r)
		if s.Custom == nil {
			fh.NegativeSpans, fh.NegativeBuckets, nc = spansF(s.Neg, r)
		}
		fh.Count = pc + nc + fh.ZeroCount
		if gauge {
			fh.CounterResetHint = histogram.GaugeType
		}
		return nil, fh
	}
	h := &histogram.Histogram{Schema: s.Schema, ZeroThreshold: s.ZeroTh, ZeroCount: uint64(s.Zero), Sum: sum}
	if s.Custom != nil {
		h.CustomValues = append([]float64(nil), s.Custom...)
	}
	var pc, nc int64
	h.PositiveSpans, h.PositiveBuckets, pc = spansI(s.Pos, r)
	if s.Custom == nil {
		h.NegativeSpans, h.NegativeBuckets, nc = spansI(s.Neg, r)
	}
	h.Count = uint64(pc+nc) + h.ZeroCount
	if gauge {
		h.CounterResetHint = histogram.GaugeType
	}
	return h, nil
}

func allKeys(m map[int32]int64) []int32 {
	ks := make([]int32, 0, len(m))
	for k := range m {
		ks = append(ks, k)
	}
	sort.Slice(ks, func(i, j int) bool { return ks[i] < ks[j] })
	return ks
}

func sortedKeys(m map[int32]int64) []int32 {
	ks := make([]int32, 0, len(m))
	for k, v := range m {
		if v != 0 {
			ks = append(ks, k)
		}
	}
	sort.Slice(ks, func(i, j int) bool { return ks[i] < ks[j] })
	return ks
}

// layout groups indices into spans; gaps of size <= fill are bridged with explicit zero buckets
// so that span layouts vary for the same logical content.
func layout(ks []int32, fill int32) (spans []histogram.Span, idxs []int32) {
	for i, k := range ks {
		if i == 0 {
			spans = append(spans, histogram.Span{Offset: k, Length: 1})
			idxs = append(idxs, k)
			continue
		}
		gap := k - ks[i-1] - 1
		switch {
		case gap == 0:
			spans[len(spans)-1].Length++
		case gap <= fill:
			for g := int32(0); g < gap; g++ {
				idxs = append(idxs, ks[i-1]+1+g)
			}
			spans[len(spans)-1].Length += uint32(gap) + 1
		default:
			spans = append(spans, histogram.Span{Offset: gap, Length: 1})
		}
		idxs = append(idxs, k)
	}
	return spans, idxs
}

func spansI(m map[int32]int64, r *prng.R) ([]histogram.Span, []int64, int64) {
	ks := sortedKeys(m)
	if len(ks) == 0 {
		return nil, nil, 0
	}
	spans, idxs := layout(ks, int32(r.Intn(3)))
	deltas := make([]int64, 0, len(idxs))
	var prev, total int64
	for _, k := range idxs {
		v := m[k]
		deltas = append(deltas, v-prev)
		prev = v
		total += v
	}
	return spans, deltas, total
}

func spansF(m map[int32]int64, r *prng.R) ([]histogram.Span, []float64, float64) {
	ks := sortedKeys(m)
	if len(ks) == 0 {
		return nil, nil, 0
	}
	spans, idxs := layout(ks, int32(r.Intn(3)))
	vals := make([]float64, 0, len(idxs))
	var total float64
	for _, k := range idxs {
		v := float64(m[k]) * 0.5
		vals = append(vals, v)
		total += v
	}
	return spans, vals, total
}
